(* C03/Model.v — executable models of the direct bound solvers and of the point-based backups
   used by the anytime solvers.   No proofs in this file.
   src: include/AIToolbox/POMDP/Algorithms/BlindStrategies.hpp   (BlindStrategies::operator())
        include/AIToolbox/POMDP/Algorithms/FastInformedBound.hpp (FastInformedBound::operator())
        include/AIToolbox/POMDP/Algorithms/QMDP.hpp + MDP/Algorithms/ValueIteration.hpp
        include/AIToolbox/POMDP/Utils.hpp (bestConservativeAction, makeSOSA)
   SARSOP / GapMin control (sampling, bins, queues) is not modelled: their outputs are covered by
   the certificate checkers of Spec.v (proof-carrying bounds), see DESIGN.md §4 C03. *)
From Coq Require Import List Arith ZArith QArith Qminmax Bool.
From AIT Require Import Base.Qx Base.Mdp Base.MdpExec C02.Model C02.Spec C04.Model.
Import ListNotations.
Local Open Scope Q_scope.

Definition minl (l : vec) : Q := - maxl (map Qopp l).          (* Eigen minCoeff *)
Definition qget (q : mat) (s a : nat) : Q := nthq (row q s) a.
Definition qcol (q : mat) (a : nat) : vec := map (fun r => nthq r a) q.
Definition mtab (S A : nat) (f : nat -> nat -> Q) : mat :=
  map (fun s => map (fun a => f s a) (seq 0 A)) (seq 0 S).
Definition mred (q : mat) : mat := map vred q.

(* ir.row(a) of the transposed reward matrix: R(.,a) *)
Definition Rcol (m : pomdp) (a : nat) : vec := map (fun s => Rw m s a) (seq 0 (nS (pm m))).
Definition Rall (m : pomdp) : vec :=
  flat_map (fun s => map (fun a => Rw m s a) (seq 0 (nA (pm m)))) (seq 0 (nS (pm m))).

(* repaired (fixes/C03-bound-init-guard.patch): discount < 1 ? 1 - discount : 0.0001.
   The unrepaired std::max(0.0001, 1.0 - discount) is [denom_guarded] (refuted in ProofsRefute.v). *)
Definition denom (m : pomdp) : Q := if Qlt_le_dec (gam (pm m)) 1 then 1 - gam (pm m) else 1 # 10000.
Definition denom_guarded (m : pomdp) : Q := Qmax (1 # 10000) (1 - gam (pm m)).

(* checkDifferentSmall(tolerance_, 0.0) *)
Definition use_tol (tol : Q) : bool := negb (eqSmall tol 0).

(* (old - new).cwiseAbs().maxCoeff() *)
Definition vvar (v w : vec) : Q := maxl (map (fun p => qabs (fst p - snd p)) (combine v w)).
Definition mvar (q r : mat) : Q := maxl (map (fun p => vvar (fst p) (snd p)) (combine q r)).

(* while (timestep < horizon_ && (!useTolerance || variation > tolerance_)) { ++timestep; step;
     if (useTolerance) variation = var(old,new); }                                        *)
Section Loop.
  Variable X : Type.
  Variable step : X -> X.
  Variable var : X -> X -> Q.
  Fixpoint run_loop (useT : bool) (tol : Q) (n : nat) (x : X) (v : Q) : X * Q :=
    match n with
    | O => (x, v)
    | S n' =>
      if (negb useT || negb (Qle_bool v tol))%bool
      then let x' := step x in run_loop useT tol n' x' (if useT then var x x' else v)
      else (x, v)
    end.
End Loop.
Arguments run_loop {X} step var useT tol n x v.

(* ---------------- BlindStrategies ---------------- *)
(* oldAlpha.fill(ir.row(a).minCoeff() / max(0.0001, 1-discount))   |   oldAlpha = ir.row(a) *)
Definition blind_start (m : pomdp) (fc : bool) (a : nat) : vec :=
  if fc then repeat (Qred (minl (Rcol m a) / denom m)) (nS (pm m)) else Rcol m a.

(* newAlpha = ir.row(a) + (discount * T_a * oldAlpha)^T *)
Definition blind_step (m : pomdp) (a : nat) (old : vec) : vec :=
  map (fun s => Qred (Rw m s a + gam (pm m) * dot (trow (pm m) s a) old)) (seq 0 (nS (pm m))).

Definition blind_iter (m : pomdp) (fc : bool) (a k : nat) : vec :=
  Nat.iter k (blind_step m a) (blind_start m fc a).

(* src: BlindStrategies::operator()(m, fasterConvergence): (maxVariation, one vector per action) *)
Definition blind_run (m : pomdp) (fc : bool) (h : nat) (tol : Q) : Q * list vec :=
  let useT := use_tol tol in
  let rs := map (fun a => run_loop (blind_step m a) vvar useT tol h (blind_start m fc a) (tol * 2))
                (seq 0 (nA (pm m))) in
  ((if useT then maxl (0 :: map snd rs) else 0), map fst rs).

(* ---------------- FastInformedBound ---------------- *)
(* makeSOSA: sosa[a][o](s,s1) = T(s,a,s1) * O(s1,a,o) *)
Definition sosa (m : pomdp) (s a o s1 : nat) : Q := Tp m s a s1 * Op m s1 a o.

(* (sosa[a][o] * oldQ).rowwise().maxCoeff() at row s *)
Definition fib_inner (m : pomdp) (q : mat) (s a o : nat) : Q :=
  maxl (map (fun a' => qsum (map (fun s1 => sosa m s a o s1 * qget q s1 a') (seq 0 (nS (pm m)))))
            (seq 0 (nA (pm m)))).

(* Q(s,a) = R(s,a) + gamma * Sum_o max_a' Sum_s' P(s',o|s,a) * Q(s',a')   (un-normalised: spec side) *)
Definition fib_op (m : pomdp) (q : mat) : mat :=
  mtab (nS (pm m)) (nA (pm m)) (fun s a =>
    Rw m s a + gam (pm m) * qsum (map (fun o => fib_inner m q s a o) (seq 0 (nO m)))).
Definition fib_step (m : pomdp) (q : mat) : mat := mred (fib_op m q).

(* oldQ.fill(ir.maxCoeff() / max(0.0001, 1-discount)) *)
Definition fib_start (m : pomdp) : mat :=
  let c := Qred (maxl (Rall m) / denom m) in mtab (nS (pm m)) (nA (pm m)) (fun _ _ => c).

Definition fib_iter (m : pomdp) (k : nat) (q0 : mat) : mat := Nat.iter k (fib_step m) q0.

(* src: FastInformedBound::operator()(m, sosa, oldQ) *)
Definition fib_run_from (m : pomdp) (h : nat) (tol : Q) (q0 : mat) : Q * mat :=
  let useT := use_tol tol in
  let r := run_loop (fib_step m) mvar useT tol h q0 (tol * 2) in
  ((if useT then snd r else 0), fst r).
Definition fib_run (m : pomdp) (h : nat) (tol : Q) : Q * mat := fib_run_from m h tol (fib_start m).

(* ---------------- QMDP = MDP::ValueIteration + fromQFunction ---------------- *)
(* val1 *= discount; q = computeQFunction(model, val1, ir): q(s,a) = ir(s,a) + T(s,a,.) . val1 *)
Definition mdp_q (m : pomdp) (v : vec) : mat :=
  mtab (nS (pm m)) (nA (pm m)) (fun s a => Rw m s a + gam (pm m) * dot (trow (pm m) s a) v).
(* bellmanOperatorInplace: v(s) = max_a q(s,a) *)
Definition vi_step (m : pomdp) (st : vec * mat) : vec * mat :=
  let q := mred (mdp_q m (fst st)) in (map maxl q, q).
Definition vi_start (m : pomdp) : vec * mat :=
  (vzero (nS (pm m)), mtab (nS (pm m)) (nA (pm m)) (fun _ _ => 0)).
Definition vi_iter (m : pomdp) (k : nat) : vec * mat := Nat.iter k (vi_step m) (vi_start m).

(* src: QMDP::operator(): (variation, Q-function); the VList is the list of columns of Q *)
Definition qmdp_run (m : pomdp) (h : nat) (tol : Q) : Q * mat :=
  let useT := use_tol tol in
  let r := run_loop (vi_step m) (fun x y => vvar (fst y) (fst x)) useT tol h (vi_start m) (tol * 2) in
  ((if useT then snd r else 0), snd (fst r)).
(* src: QMDP::fromQFunction *)
Definition q_vlist (m : pomdp) (q : mat) : list vec := map (qcol q) (seq 0 (nA (pm m))).

(* ---------------- point-based backup (bestConservativeAction / crossSumBestAtBelief) ----------- *)
(* first best vector at a point (findBestAtPoint without the lexicographic tie-break: any maximiser
   gives the same value; the theorems hold for an arbitrary choice) *)
Definition best_vec (l : list vec) (b : vec) : vec :=
  nth (fst (argmax (map (fun al => dot al b) l))) l [].

(* bpAlpha += O(.,a,o) .* alpha_o ;  R(.,a) + discount * T_a * bpAlpha, with an explicit choice of
   alpha_o per observation (C02.Spec.backup_o a o v = T_a diag(O(.,a,o)) v; same value, the sums over
   o and s' are taken in the other order) *)
Definition backup_vec (m : pomdp) (a : nat) (choice : nat -> vec) : vec :=
  map (fun s => Rw m s a + gam (pm m) *
        qsum (map (fun o => nthq (backup_o m a o (choice o)) s) (seq 0 (nO m))))
      (seq 0 (nS (pm m))).

(* src: bestConservativeAction (repaired, fixes/C03-bca-skipped-observation.patch): every observation
   gets the best vector at its (un-normalised) next belief; the unrepaired code skipped observations
   whose probability at b is <= epsS, i.e. used the zero vector for them. *)
Definition bca_choice (m : pomdp) (lbv : list vec) (b : vec) (a o : nat) : vec :=
  best_vec lbv (tau_step m b a o).
Definition bca_alpha (m : pomdp) (lbv : list vec) (b : vec) (a : nat) : vec :=
  vred (backup_vec m a (bca_choice m lbv b a)).
Definition best_conservative (m : pomdp) (lbv : list vec) (b : vec) : nat * Q * vec :=
  let als := map (bca_alpha m lbv b) (seq 0 (nA (pm m))) in
  let '(id, v) := argmax (map (fun al => dot b al) als) in
  (id, v, nth id als []).

(* ---------------- PBVI / PERSEUS (value-function level; lists NEWEST FIRST) ----------------
   src: PBVI::operator()(model, beliefs, v) — per action and belief crossSumBestAtBelief over the
   Projecter output (C04.Model.csbb_row / proj_row), then extractDominated per action and the
   extractBestAtPoint sweep: both only SELECT a sub-list, modelled by the parameter [select].
   src: PERSEUS::operator()(model, minReward) — start vector minReward/(1-discount), per belief
   (those not yet improved: again a selection) crossSumBestAtBelief over all actions (csbb_all). *)
Definition zero_list (S : nat) : vlist := [ {| vals := vzero S; act := 0%nat; obs := [] |} ].
Definition pbvi_reqs (m : pomdp) (bl : list vec) : list (vec * nat) :=
  flat_map (fun a => map (fun b => (b, a)) bl) (seq 0 (nA (pm m))).
Definition pbvi_cands (m : pomdp) (w : vlist) (reqs : list (vec * nat)) : vlist :=
  map (fun ba => fst (csbb_row (fst ba) (proj_row m w (snd ba)) (snd ba) (nS (pm m)))) reqs.
Definition perseus_start (m : pomdp) (minRew : Q) : vlist :=
  [ {| vals := repeat (Qred (minRew / (1 - gam (pm m)))) (nS (pm m)); act := 0%nat; obs := [] |} ].
Definition perseus_cands (m : pomdp) (w : vlist) (bl : list vec) : vlist :=
  map (fun b => fst (csbb_all m w b)) bl.

Section PointBased.
  Variable select : vlist -> vlist.
  Fixpoint pbvi_chain (m : pomdp) (bl : list vec) (h : nat) : list vlist :=
    match h with
    | O => [zero_list (nS (pm m))]
    | S h' => let c := pbvi_chain m bl h' in select (pbvi_cands m (hd [] c) (pbvi_reqs m bl)) :: c
    end.
  Fixpoint perseus_chain (m : pomdp) (bl : list vec) (minRew : Q) (h : nat) : list vlist :=
    match h with
    | O => [perseus_start m minRew]
    | S h' => let c := perseus_chain m bl minRew h' in select (perseus_cands m (hd [] c) bl) :: c
    end.
End PointBased.
