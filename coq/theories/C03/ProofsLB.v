(* C03/ProofsLB.v — lower bounds: the tail-augmented expectimax W, point-based backups of sound
   vectors are sound, self-certifying vectors, BlindStrategies, the lower-bound trace. *)
From Coq Require Import List Arith ZArith QArith Qpower Qminmax Lqa Lia Bool Setoid.
From AIT Require Import Base.Qx Base.Mdp Base.MdpExec C02.Model C02.Spec C02.ProofsVec C02.ProofsCross
  C02.ProofsSched C02.ProofsProj C02.ProofsIP C02.ProofsEV C03.Model C03.Spec.
Import ListNotations.
Local Open Scope Q_scope.

(* g^n *)
Definition pw (m : pomdp) (n : nat) : Q := Qpower (gam (pm m)) (Z.of_nat n).

Lemma pw_0 : forall m, pw m 0 == 1.
Proof. intros. unfold pw. reflexivity. Qed.

Lemma pw_S : forall m n, 0 < gam (pm m) -> pw m (S n) == gam (pm m) * pw m n.
Proof.
  intros m n Hg. unfold pw. rewrite Nat2Z.inj_succ. unfold Z.succ.
  rewrite Qpower_plus by lra. change (gam (pm m) ^ 1) with (gam (pm m)). ring.
Qed.

Lemma pw_nonneg : forall m n, 0 < gam (pm m) -> 0 <= pw m n.
Proof. intros. unfold pw. apply Qpower_pos. lra. Qed.

(* value of a vector at an un-normalised belief, insensitive to lengths *)
Definition vval (m : pomdp) (v t : vec) : Q :=
  qsum (map (fun s => nthq v s * nthq t s) (seq 0 (nS (pm m)))).

Section LB.
  Variable m : pomdp.
  Hypothesis Hwf : wf_pomdp m.
  Let S := nS (pm m).
  Let g := gam (pm m).

  Lemma Hg : 0 < g /\ g < 1.
  Proof. destruct Hwf as [[_ [_ [G1 [G2 _]]]] _]. split; assumption. Qed.
  Lemma HS : (0 < nS (pm m))%nat.
  Proof. destruct Hwf as [[H _] _]. exact H. Qed.
  Lemma HAne : seq 0 (nA (pm m)) <> [].
  Proof. pose proof (HA m (wf_pomdp_weaken m Hwf)). destruct (nA (pm m)); [lia| cbn; discriminate]. Qed.

  (* expectimax with a terminal value c per unit of mass *)
  Definition W (c : Q) (n : nat) (t : vec) : Q := EV m n t + pw m n * c * mass m t.

  Lemma vval_dot : forall v t, length v = S -> length t = S -> vval m v t == dot v t.
  Proof. intros v t Hv Ht. unfold vval. symmetry. apply dot_as_sum; assumption. Qed.

  Lemma vval_veq_l : forall v w t, veq v w -> vval m v t == vval m w t.
  Proof. intros v w t H. unfold vval. apply qsum_map_ext. intros s _. rewrite (nthq_veq v w s H). reflexivity. Qed.

  Lemma vval_le : forall v w t, nonneg t -> (forall s, (s < S)%nat -> nthq v s <= nthq w s) -> vval m v t <= vval m w t.
  Proof.
    intros v w t Ht H. unfold vval. apply qsum_map_le. intros s Hs. apply in_seq in Hs.
    pose proof (nonneg_nthq t s Ht). pose proof (H s ltac:(unfold S; lia)). nra.
  Qed.

  Lemma W_succ : forall c n t,
    W c (Datatypes.S n) t ==
    maxl (map (fun a => rew_at m t a + g * qsum (map (fun o => W c n (tau_step m t a o)) (seq 0 (nO m)))) (seq 0 (nA (pm m)))).
  Proof.
    intros c n t. unfold W at 1. cbn [EV]. fold g.
    transitivity (maxl (map (fun a => pw m (Datatypes.S n) * c * mass m t + 1 *
       (rew_at m t a + g * qsum (map (fun o => EV m n (tau_step m t a o)) (seq 0 (nO m))))) (seq 0 (nA (pm m))))).
    { rewrite maxl_affine by (apply HAne || lra). lra. }
    apply maxl_map_ext'. intros a Ha. apply in_seq in Ha. unfold W.
    rewrite qsum_map_add. rewrite qsum_map_mul_l.
    rewrite (mass_conservation m (wf_pomdp_weaken m Hwf) t a) by lia. rewrite pw_S by apply Hg. fold g. ring.
  Qed.

  Definition lbS_at (c : Q) (n : nat) (v : vec) : Prop :=
    forall t, nonneg t -> length t = S -> vval m v t <= W c n t.
  Definition lbS (c : Q) (v : vec) : Prop := forall n, lbS_at c n v.

  Lemma lbS_at_veq : forall c n v w, veq v w -> lbS_at c n w -> lbS_at c n v.
  Proof. intros c n v w E H t Ht Hl. rewrite (vval_veq_l v w t E). apply H; assumption. Qed.

  Lemma lbS_at_le : forall c n v w, (forall s, (s < S)%nat -> nthq v s <= nthq w s) -> lbS_at c n w -> lbS_at c n v.
  Proof. intros c n v w L H t Ht Hl. eapply Qle_trans; [apply vval_le; eassumption| apply H; assumption]. Qed.

  (* ---- the backed-up vector (backup_o lemmas as in C04/ProofsExec.v, restated to stay self-contained) *)
  Lemma backup_o_length : forall a o v, length (backup_o m a o v) = S.
  Proof. intros. unfold backup_o. rewrite map_length, seq_length. reflexivity. Qed.

  Lemma dot_backup_o : forall a o v tau, length tau = S ->
    dot (backup_o m a o v) tau == vval m v (tau_step m tau a o).
  Proof.
    intros a o v tau Ht. unfold backup_o. fold S. rewrite dot_map_seq by exact Ht.
    transitivity (qsum (map (fun s => qsum (map (fun s1 => nthq tau s * (Tp m s a s1 * Op m s1 a o * nthq v s1)) (seq 0 S))) (seq 0 S))).
    { apply qsum_map_ext. intros s _. rewrite <- qsum_map_mul_r. apply qsum_map_ext. intros s1 _. ring. }
    rewrite qsum_swap. unfold vval. fold S. apply qsum_map_ext. intros s1 Hs1. apply in_seq in Hs1.
    rewrite (nthq_tau_step m) by (fold S; lia). fold S.
    transitivity (nthq v s1 * Op m s1 a o * qsum (map (fun s => nthq tau s * Tp m s a s1) (seq 0 S))); [| ring].
    rewrite <- qsum_map_mul_l. apply qsum_map_ext. intros s _. ring.
  Qed.

  Lemma backup_vec_length : forall a ch, length (backup_vec m a ch) = S.
  Proof. intros. unfold backup_vec. rewrite map_length, seq_length. reflexivity. Qed.

  Lemma dot_backup_vec : forall a ch t, length t = S ->
    dot (backup_vec m a ch) t ==
    rew_at m t a + g * qsum (map (fun o => vval m (ch o) (tau_step m t a o)) (seq 0 (nO m))).
  Proof.
    intros a ch t Ht. unfold backup_vec. fold S. rewrite dot_map_seq by exact Ht.
    transitivity (qsum (map (fun s => nthq t s * Rw m s a +
       g * qsum (map (fun o => nthq (backup_o m a o (ch o)) s * nthq t s) (seq 0 (nO m)))) (seq 0 S))).
    { apply qsum_map_ext. intros s _. rewrite qsum_map_mul_r. fold g. ring. }
    rewrite qsum_map_add. apply Qplus_comp; [unfold rew_at, Rw; fold S; reflexivity|].
    rewrite qsum_map_mul_l. apply Qmult_comp; [reflexivity|]. rewrite qsum_swap.
    apply qsum_map_ext. intros o _.
    rewrite <- (dot_as_sum (backup_o m a o (ch o)) t S); [| apply backup_o_length | exact Ht].
    rewrite dot_backup_o by exact Ht. reflexivity.
  Qed.

  Lemma vval_backup_vec : forall a ch t, length t = S ->
    vval m (backup_vec m a ch) t ==
    rew_at m t a + g * qsum (map (fun o => vval m (ch o) (tau_step m t a o)) (seq 0 (nO m))).
  Proof. intros. rewrite vval_dot by (apply backup_vec_length || assumption). apply dot_backup_vec; assumption. Qed.

  Lemma rew_at_le_c : forall k t a, nonneg t -> (a < nA (pm m))%nat ->
    (forall s, (s < S)%nat -> Rw m s a <= k) -> rew_at m t a <= k * mass m t.
  Proof.
    intros k t a Ht Ha H. unfold rew_at, mass. fold S. rewrite <- qsum_map_mul_l. apply qsum_map_le.
    intros s Hs. apply in_seq in Hs. pose proof (nonneg_nthq t s Ht). pose proof (H s ltac:(lia)).
    fold (Rw m s a). nra.
  Qed.

  Lemma rew_at_ge_c : forall k t a, nonneg t -> (a < nA (pm m))%nat ->
    (forall s, (s < S)%nat -> k <= Rw m s a) -> k * mass m t <= rew_at m t a.
  Proof.
    intros k t a Ht Ha H. unfold rew_at, mass. fold S. rewrite <- qsum_map_mul_l. apply qsum_map_le.
    intros s Hs. apply in_seq in Hs. pose proof (nonneg_nthq t s Ht). pose proof (H s ltac:(lia)).
    fold (Rw m s a). nra.
  Qed.

  (* terminal constant: c (1 - g) >= every reward *)
  Definition tail_hi (c : Q) : Prop :=
    forall s a, (s < S)%nat -> (a < nA (pm m))%nat -> Rw m s a + g * c <= c.

  Lemma backup_at0 : forall c a ch, tail_hi c -> (a < nA (pm m))%nat ->
    (forall o, (o < nO m)%nat -> lbS_at c 0 (ch o)) -> lbS_at c 0 (backup_vec m a ch).
  Proof.
    intros c a ch Hc Ha H t Ht Hl. rewrite vval_backup_vec by exact Hl.
    unfold W. cbn [EV]. rewrite pw_0.
    assert (Hfut : qsum (map (fun o => vval m (ch o) (tau_step m t a o)) (seq 0 (nO m))) <= c * mass m t).
    { rewrite <- (mass_conservation m (wf_pomdp_weaken m Hwf) t a Ha). rewrite <- qsum_map_mul_l. apply qsum_map_le.
      intros o Ho. apply in_seq in Ho.
      pose proof (H o ltac:(lia) (tau_step m t a o) (tau_step_nonneg m (wf_pomdp_weaken m Hwf) t a o Ht Ha) (tau_step_length m t a o)) as Hv.
      unfold W in Hv. cbn [EV] in Hv. rewrite pw_0 in Hv. lra. }
    pose proof (rew_at_le_c (c - g * c) t a Ht Ha) as Hr.
    assert (Hr' : rew_at m t a <= (c - g * c) * mass m t).
    { apply Hr. intros s Hs. pose proof (Hc s a Hs Ha). lra. }
    pose proof Hg. nra.
  Qed.

  Lemma backup_atS : forall c n a ch, (a < nA (pm m))%nat ->
    (forall o, (o < nO m)%nat -> lbS_at c n (ch o)) -> lbS_at c (Datatypes.S n) (backup_vec m a ch).
  Proof.
    intros c n a ch Ha H t Ht Hl. rewrite vval_backup_vec by exact Hl. rewrite W_succ.
    eapply Qle_trans; [| apply maxl_ub; apply (in_map (fun a => rew_at m t a + g * qsum (map (fun o => W c n (tau_step m t a o)) (seq 0 (nO m)))));
                        apply in_seq; split; [lia| exact Ha]].
    assert (Hfut : qsum (map (fun o => vval m (ch o) (tau_step m t a o)) (seq 0 (nO m))) <=
                   qsum (map (fun o => W c n (tau_step m t a o)) (seq 0 (nO m)))).
    { apply qsum_map_le. intros o Ho. apply in_seq in Ho.
      apply (H o ltac:(lia)); [apply (tau_step_nonneg m (wf_pomdp_weaken m Hwf)); assumption| apply tau_step_length]. }
    pose proof Hg. nra.
  Qed.

  Theorem backup_sound : forall c a ch, tail_hi c -> (a < nA (pm m))%nat ->
    (forall o, (o < nO m)%nat -> lbS c (ch o)) -> lbS c (backup_vec m a ch).
  Proof.
    intros c a ch Hc Ha H n. destruct n as [|n].
    - apply backup_at0; [exact Hc| exact Ha| intros o Ho; apply H; exact Ho].
    - apply backup_atS; [exact Ha| intros o Ho; apply H; exact Ho].
  Qed.

  (* a vector below its own single-action backup and below c is sound (any stationary blind policy) *)
  Theorem selfcert_sound : forall c a v, tail_hi c -> (a < nA (pm m))%nat ->
    (forall s, (s < S)%nat -> nthq v s <= c) ->
    (forall s, (s < S)%nat -> nthq v s <= nthq (backup_vec m a (fun _ => v)) s) -> lbS c v.
  Proof.
    intros c a v Hc Ha Hle Hself n. induction n as [|n IH].
    - intros t Ht Hl. unfold W. cbn [EV]. rewrite pw_0. unfold vval, mass. fold S.
      apply Qle_trans with (y := qsum (map (fun s => c * nthq t s) (seq 0 S))).
      + apply qsum_map_le. intros s Hs. apply in_seq in Hs. pose proof (nonneg_nthq t s Ht). pose proof (Hle s ltac:(lia)). nra.
      + rewrite qsum_map_mul_l. lra.
    - apply (lbS_at_le c (Datatypes.S n) v (backup_vec m a (fun _ => v)) Hself).
      apply backup_atS; [exact Ha| intros o _; exact IH].
  Qed.

  (* ---- the best vector of a non-empty list is one of its members *)
  Lemma best_vec_in : forall l b, l <> [] -> In (best_vec l b) l.
  Proof.
    intros l b Hne. unfold best_vec.
    assert (Hm : map (fun al => dot al b) l <> []) by (destruct l; [congruence| discriminate]).
    pose proof (argmax_spec (map (fun al => dot al b) l) Hm) as Hs.
    destruct (argmax (map (fun al => dot al b) l)) as [j mx]. destruct Hs as [Hi _].
    rewrite map_length in Hi. cbn [fst]. apply nth_In. exact Hi.
  Qed.

  (* bestConservativeAction (repaired): every alpha it can return is sound *)
  Theorem bca_alpha_sound : forall c lbv b a, tail_hi c -> lbv <> [] -> Forall (lbS c) lbv ->
    (a < nA (pm m))%nat -> lbS c (bca_alpha m lbv b a).
  Proof.
    intros c lbv b a Hc Hne Hall Ha n. unfold bca_alpha.
    apply (lbS_at_veq c n _ _ (vred_veq _)). apply backup_sound; [exact Hc| exact Ha|].
    intros o _. unfold bca_choice. rewrite Forall_forall in Hall. apply Hall. apply best_vec_in. exact Hne.
  Qed.

  (* ---- BlindStrategies *)
  Lemma sum_O_row : forall s1 a (x : Q), (s1 < S)%nat -> (a < nA (pm m))%nat ->
    qsum (map (fun o => Op m s1 a o * x) (seq 0 (nO m))) == x.
  Proof. intros. rewrite qsum_map_mul_r. rewrite (orow_sum m (wf_pomdp_weaken m Hwf)) by (unfold S in *; assumption). ring. Qed.

  Lemma nthq_backup_const : forall a v s, (s < S)%nat -> (a < nA (pm m))%nat ->
    nthq (backup_vec m a (fun _ => v)) s ==
    Rw m s a + g * qsum (map (fun s1 => Tp m s a s1 * nthq v s1) (seq 0 S)).
  Proof.
    intros a v s Hs Ha. unfold backup_vec. fold S. rewrite nthq_map_seq by exact Hs. fold g.
    apply Qplus_comp; [reflexivity|]. apply Qmult_comp; [reflexivity|].
    transitivity (qsum (map (fun o => qsum (map (fun s1 => Tp m s a s1 * Op m s1 a o * nthq v s1) (seq 0 S))) (seq 0 (nO m)))).
    { apply qsum_map_ext. intros o _. unfold backup_o. fold S. rewrite nthq_map_seq by exact Hs. reflexivity. }
    rewrite qsum_swap. apply qsum_map_ext. intros s1 Hs1. apply in_seq in Hs1.
    transitivity (qsum (map (fun o => Op m s1 a o * (Tp m s a s1 * nthq v s1)) (seq 0 (nO m)))).
    { apply qsum_map_ext. intros o _. ring. }
    apply sum_O_row; [lia| exact Ha].
  Qed.

  Lemma trow_length : forall s a, (s < S)%nat -> (a < nA (pm m))%nat -> length (trow (pm m) s a) = S.
  Proof.
    intros s a Hs Ha. destruct Hwf as [[_ [_ [_ [_ [_ [_ [_ [H _]]]]]]]] _].
    destruct (H a s Ha Hs) as [Hl _]. exact Hl.
  Qed.

  Lemma blind_step_length : forall a v, length (blind_step m a v) = S.
  Proof. intros. unfold blind_step. rewrite map_length, seq_length. reflexivity. Qed.

  Lemma blind_step_backup : forall a v s, length v = S -> (s < S)%nat -> (a < nA (pm m))%nat ->
    nthq (blind_step m a v) s == nthq (backup_vec m a (fun _ => v)) s.
  Proof.
    intros a v s Hv Hs Ha. rewrite nthq_backup_const by assumption.
    unfold blind_step. fold S. rewrite nthq_map_seq by exact Hs. rewrite Qred_correct. fold g.
    apply Qplus_comp; [reflexivity|]. apply Qmult_comp; [reflexivity|].
    unfold Tp. apply dot_as_sum; [apply trow_length; assumption| exact Hv].
  Qed.

  Lemma blind_step_sound_at : forall c n a v, length v = S -> (a < nA (pm m))%nat ->
    lbS_at c n v -> lbS_at c (Datatypes.S n) (blind_step m a v).
  Proof.
    intros c n a v Hv Ha H.
    apply (lbS_at_le c (Datatypes.S n) _ (backup_vec m a (fun _ => v))).
    - intros s Hs. rewrite blind_step_backup by assumption. lra.
    - apply backup_atS; [exact Ha| intros o _; exact H].
  Qed.

  Lemma blind_step_sound : forall c a v, tail_hi c -> length v = S -> (a < nA (pm m))%nat ->
    lbS c v -> lbS c (blind_step m a v).
  Proof.
    intros c a v Hc Hv Ha H n.
    apply (lbS_at_le c n _ (backup_vec m a (fun _ => v))).
    - intros s Hs. rewrite blind_step_backup by assumption. lra.
    - apply backup_sound; [exact Hc| exact Ha| intros o _; exact H].
  Qed.

  Lemma minl_le : forall l x, In x l -> minl l <= x.
  Proof.
    intros l x Hx. unfold minl. pose proof (maxl_ub (map Qopp l) (- x) (in_map Qopp l x Hx)). lra.
  Qed.

  Lemma minl_attained : forall l, l <> [] -> exists x, In x l /\ minl l == x.
  Proof.
    intros l Hne. assert (Hm : map Qopp l <> []) by (destruct l; [congruence| discriminate]).
    destruct (maxl_attained _ Hm) as [y [Hy E]]. apply in_map_iff in Hy. destruct Hy as [x [<- Hx]].
    exists x. split; [exact Hx|]. unfold minl. rewrite E. ring.
  Qed.

  Lemma nthq_repeat : forall (x : Q) n i, (i < n)%nat -> nthq (repeat x n) i == x.
  Proof.
    intros x n. induction n as [|n IH]; intros i Hi; [lia|]. unfold nthq in *. cbn [repeat nth].
    destruct i as [|i]; [reflexivity| apply IH; lia].
  Qed.

  Lemma denom_eq : denom m == 1 - g.
  Proof. unfold denom. fold g. pose proof Hg as [_ G1]. destruct (Qlt_le_dec g 1); [reflexivity| lra]. Qed.

  Lemma blind_start_sound : forall c a, tail_hi c -> (a < nA (pm m))%nat ->
    lbS c (blind_start m true a).
  Proof.
    intros c a Hc Ha. pose proof Hg as [G0 G1]. pose proof HS as HSp. fold S in HSp.
    set (r := minl (Rcol m a)). set (d := denom m). set (k := Qred (r / d)).
    assert (Hd2 : d == 1 - g) by (unfold d; apply denom_eq).
    assert (Hd0 : 0 < d) by lra. assert (Hd1 : 1 - g <= d) by lra.
    assert (Hr : forall s, (s < S)%nat -> r <= Rw m s a).
    { intros s Hs. apply minl_le. unfold Rcol. apply (in_map (fun s => Rw m s a)). apply in_seq. fold S. lia. }
    assert (Hk : k == r / d) by (unfold k; apply Qred_correct).
    assert (Hkd : k * d == r) by (rewrite Hk; field; lra).
    (* k (1 - g) <= r *)
    assert (Hk1 : k * (1 - g) <= r).
    { rewrite <- Hd2. lra. }
    (* k <= c *)
    assert (Hrc : r <= c * (1 - g)).
    { assert (Hne : Rcol m a <> []) by (unfold Rcol; fold S; destruct S; [lia| cbn; discriminate]).
      destruct (minl_attained _ Hne) as [x [Hx E]]. unfold Rcol in Hx. apply in_map_iff in Hx.
      destruct Hx as [s [<- Hs]]. apply in_seq in Hs. fold r in E. rewrite E.
      pose proof (Hc s a ltac:(unfold S; lia) Ha). lra. }
    assert (Hkc : k <= c).
    { assert (k * (1 - g) == r) by (rewrite <- Hd2; exact Hkd). nra. }
    apply (selfcert_sound c a); [exact Hc| exact Ha| |].
    - intros s Hs. unfold blind_start. fold S. rewrite nthq_repeat by exact Hs. exact Hkc.
    - intros s Hs. rewrite nthq_backup_const by assumption. unfold blind_start. fold S. fold r d k.
      rewrite nthq_repeat by exact Hs.
      apply Qle_trans with (y := Rw m s a + g * k).
      + pose proof (Hr s Hs). lra.
      + assert (E : qsum (map (fun s1 => Tp m s a s1 * nthq (repeat k S) s1) (seq 0 S)) == k).
        { transitivity (qsum (map (fun s1 => k * Tp m s a s1) (seq 0 S))).
          - apply qsum_map_ext. intros s1 Hs1. apply in_seq in Hs1. rewrite nthq_repeat by lia. ring.
          - rewrite qsum_map_mul_l. pose proof (trow_sum m (wf_pomdp_weaken m Hwf) s a Hs Ha) as E1. fold S in E1. rewrite E1. ring. }
        rewrite E. lra.
  Qed.

  Lemma blind_iter_length : forall fc a k, (0 < k)%nat \/ True -> length (blind_iter m fc a k) = S.
  Proof.
    intros fc a k _. unfold blind_iter. destruct k as [|k]; cbn [Nat.iter].
    - destruct fc.
      + change (Nat.iter 0 (blind_step m a) ?x) with x. apply repeat_length.
      + change (blind_start m false a) with (Rcol m a). unfold Rcol. change (Nat.iter 0 (blind_step m a) ?x) with x. rewrite map_length, seq_length. reflexivity.
    - apply blind_step_length.
  Qed.

  (* every iterate of the fasterConvergence mode is a sound lower-bound vector *)
  Theorem blind_iter_sound : forall c a k, tail_hi c -> (a < nA (pm m))%nat ->
    lbS c (blind_iter m true a k).
  Proof.
    intros c a k Hc Ha. induction k as [|k IH].
    - apply blind_start_sound; assumption.
    - change (blind_iter m true a (Datatypes.S k)) with (blind_step m a (blind_iter m true a k)).
      apply blind_step_sound; [exact Hc| apply blind_iter_length; right; exact I| exact Ha| exact IH].
  Qed.

  (* finite-horizon mode: k iterations from R(.,a) never exceed the (k+1)-step expectimax *)
  Theorem blind_iter_finite : forall a k, (a < nA (pm m))%nat ->
    lbS_at 0 (Datatypes.S k) (blind_iter m false a k).
  Proof.
    intros a k Ha. induction k as [|k IH].
    - (* R(.,a) is the backup of the zero vector *)
      apply (lbS_at_le 0 1 _ (backup_vec m a (fun _ => vzero S))).
      + intros s Hs. rewrite nthq_backup_const by assumption. change (blind_iter m false a 0) with (Rcol m a).
        unfold Rcol. fold S. rewrite nthq_map_seq by exact Hs.
        rewrite qsum_map_zero; [pose proof Hg; lra|]. intros s1 Hs1. apply in_seq in Hs1.
        unfold vzero. rewrite nthq_repeat by lia. ring.
      + apply backup_atS; [exact Ha|]. intros o _ t Ht Hl. unfold W, vval. cbn [EV]. rewrite pw_0.
        rewrite qsum_map_zero; [lra|]. intros s Hs. apply in_seq in Hs. unfold vzero. fold S. rewrite nthq_repeat by lia. ring.
    - change (blind_iter m false a (Datatypes.S k)) with (blind_step m a (blind_iter m false a k)).
      apply blind_step_sound_at; [apply blind_iter_length; right; exact I| exact Ha| exact IH].
  Qed.

  Lemma iter_shift : forall (X : Type) (f : X -> X) k x, Nat.iter k f (f x) = f (Nat.iter k f x).
  Proof. intros X f k x. induction k as [|k IH]; [reflexivity|]. change (f (Nat.iter k f (f x)) = f (f (Nat.iter k f x))). rewrite IH. reflexivity. Qed.

  (* ---- the run loop returns one of the iterates *)
  Lemma run_loop_iter : forall (X : Type) (step : X -> X) var useT tol n x v,
    exists k, (k <= n)%nat /\ fst (run_loop step var useT tol n x v) = Nat.iter k step x.
  Proof.
    intros X step var useT tol n. induction n as [|n IH]; intros x v; cbn [run_loop].
    - exists 0%nat. split; [lia| reflexivity].
    - destruct (negb useT || negb (Qle_bool v tol))%bool.
      + destruct (IH (step x) (if useT then var x (step x) else v)) as [k [Hk E]].
        exists (Datatypes.S k). split; [lia|]. rewrite E. apply iter_shift.
      + exists 0%nat. split; [lia| reflexivity].
  Qed.

  (* ---- lower-bound trace *)
  Lemma vleb0_le : forall v w, vleb 0 v w = true -> length v = length w /\ forall s, nthq v s <= nthq w s.
  Proof.
    intros v w H. unfold vleb in H. apply andb_true_iff in H. destruct H as [Hl H].
    apply Nat.eqb_eq in Hl. split; [exact Hl|]. revert w Hl H.
    induction v as [|x v IH]; intros [|y w] Hl H s; cbn in Hl; try discriminate; unfold nthq.
    - destruct s; cbn; lra.
    - cbn [combine forallb fst snd] in H. apply andb_true_iff in H. destruct H as [H1 H2].
      apply Qle_bool_iff in H1. destruct s as [|s]; cbn [nth]; [lra|]. apply IH; [lia| exact H2].
  Qed.

  Inductive lb_event : Type := LbEv (a : nat) (links : list nat) (alpha : vec).

  Fixpoint lb_run (certified : list vec) (evs : list lb_event) : option (list vec) :=
    match evs with
    | [] => Some certified
    | LbEv a links alpha :: rest =>
      if lb_event_ok m certified a links alpha 0 then lb_run (certified ++ [alpha]) rest else None
    end.

  Lemma lb_event_sound : forall c certified a links alpha, tail_hi c -> Forall (lbS c) certified ->
    lb_event_ok m certified a links alpha 0 = true -> lbS c alpha.
  Proof.
    intros c cert a links alpha Hc Hall H. unfold lb_event_ok in H.
    apply andb_true_iff in H. destruct H as [H Hv]. apply andb_true_iff in H. destruct H as [H Hlk].
    apply andb_true_iff in H. destruct H as [Ha Hn]. apply Nat.ltb_lt in Ha. apply Nat.eqb_eq in Hn.
    apply vleb0_le in Hv. destruct Hv as [_ Hv]. intros n.
    apply (lbS_at_le c n alpha _ (fun s _ => Hv s)). apply backup_sound; [exact Hc| exact Ha|].
    intros o Ho. rewrite Forall_forall in Hall. apply Hall. apply nth_In.
    rewrite forallb_forall in Hlk. apply Nat.ltb_lt. apply Hlk. apply nth_In. lia.
  Qed.

  Theorem lb_trace_sound_lemma : forall c evs init final, tail_hi c -> Forall (lbS c) init ->
    lb_run init evs = Some final -> Forall (lbS c) final.
  Proof.
    intros c evs. induction evs as [|[a links alpha] rest IH]; intros init final Hc Hall H; cbn [lb_run] in H.
    - inversion H; subst; exact Hall.
    - destruct (lb_event_ok m init a links alpha 0) eqn:E; [| discriminate].
      apply (IH (init ++ [alpha]) final Hc); [| exact H].
      apply Forall_app. split; [exact Hall|]. constructor; [| constructor].
      apply (lb_event_sound c init a links alpha); assumption.
  Qed.

  (* ---- bridge to the Appendix-A statement *)
  Lemma mass_simplex : forall b, simplex S b -> mass m b == 1.
  Proof. intros b [Hl [_ Hs]]. rewrite (mass_qsum m) by exact Hl. exact Hs. Qed.

  Lemma W_Vmax : forall r n b, simplex S b -> W (r / (1 - g)) n b == Vmax m r n b.
  Proof.
    intros r n b Hb. unfold W, Vmax, pw. fold g. rewrite (mass_simplex b Hb). pose proof Hg. field. lra.
  Qed.

  Lemma tail_hi_rmax : forall rmax, rmax_ok m rmax -> tail_hi (rmax / (1 - g)).
  Proof.
    intros rmax H s a Hs Ha. pose proof Hg as [G0 G1]. pose proof (H s a Hs Ha) as Hr.
    assert (E : Rw m s a + g * (rmax / (1 - g)) - rmax / (1 - g) == Rw m s a - rmax) by (field; lra).
    lra.
  Qed.

  Theorem lbS_sound_lb : forall rmax v, length v = S -> lbS (rmax / (1 - g)) v ->
    sound_lb m rmax (fun b => dot v b).
  Proof.
    intros rmax v Hv H b n Hb. cbv beta. rewrite <- (W_Vmax rmax n b Hb).
    destruct Hb as [Hl [Hn Hs]]. rewrite <- (vval_dot v b Hv Hl). apply H; assumption.
  Qed.
End LB.
