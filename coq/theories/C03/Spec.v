(* C03/Spec.v — what "sound bound" means (limit-free, DESIGN.md Appendix A), the value surfaces the
   solvers return, and the boolean certificate checkers evaluated by the driver on the
   implementation's outputs (proved sound in Proofs*.v). Independent of the algorithms. *)
From Coq Require Import List Arith ZArith QArith Qminmax Bool.
From AIT Require Import Base.Qx Base.Mdp Base.MdpExec C02.Model C03.Model.
Import ListNotations.
Local Open Scope Q_scope.

(* ---- Appendix A *)
Definition Vmax (m : pomdp) (rmax : Q) (n : nat) (b : vec) : Q :=
  EV m n b + Qpower (gam (pm m)) (Z.of_nat n) * rmax / (1 - gam (pm m)).
Definition Vmin (m : pomdp) (rmin : Q) (n : nat) (b : vec) : Q :=
  EV m n b + Qpower (gam (pm m)) (Z.of_nat n) * rmin / (1 - gam (pm m)).
Definition sound_lb (m : pomdp) (rmax : Q) (f : vec -> Q) : Prop :=
  forall b n, simplex (nS (pm m)) b -> f b <= Vmax m rmax n b.
Definition sound_ub (m : pomdp) (rmin : Q) (f : vec -> Q) : Prop :=
  forall b n, simplex (nS (pm m)) b -> Vmin m rmin n b <= f b.

(* executable twins for the driver: Vmax m r n b == EV_r m n b + tail_r m r n *)
Definition tail_r (m : pomdp) (r : Q) (n : nat) : Q :=
  Qred (Qpower (gam (pm m)) (Z.of_nat n) * r / (1 - gam (pm m))).
Definition Vmax_r (m : pomdp) (rmax : Q) (n : nat) (b : vec) : Q := Qred (EV_r m n b + tail_r m rmax n).
Definition Vmin_r := Vmax_r.

(* reward bounds *)
Definition rmax_ok (m : pomdp) (rmax : Q) : Prop :=
  forall s a, (s < nS (pm m))%nat -> (a < nA (pm m))%nat -> Rw m s a <= rmax.
Definition rmin_ok (m : pomdp) (rmin : Q) : Prop :=
  forall s a, (s < nS (pm m))%nat -> (a < nA (pm m))%nat -> rmin <= Rw m s a.

(* ---- surfaces *)
(* value of one alpha vector / of a vector list (Base.Mdp.best) / of a Q-table (max_a b . Q(:,a)) *)
Definition lin_surface (m : pomdp) (q : mat) (b : vec) : Q :=
  maxl (map (fun a => qsum (map (fun s => nthq b s * qget q s a) (seq 0 (nS (pm m))))) (seq 0 (nA (pm m)))).

(* upper-bound surface state: corner table ubQ (s,a) and belief points (b_i, v_i) *)
Definition ubstate := (mat * list (vec * Q))%type.
Definition corner_vals (m : pomdp) (q : mat) : vec :=
  map (fun s => maxl (map (fun a => qget q s a) (seq 0 (nA (pm m))))) (seq 0 (nS (pm m))).
Definition minl_from (x : Q) (l : vec) : Q := fold_left Qmin l x.
(* largest c with c * p <= t pointwise (p non-negative, not all zero); min over the support of p *)
Definition ratio (m : pomdp) (t p : vec) : Q :=
  match filter (fun s => negb (Qle_bool (nthq p s) 0)) (seq 0 (nS (pm m))) with
  | [] => 0
  | s0 :: rest => minl_from (nthq t s0 / nthq p s0) (map (fun s => nthq t s / nthq p s) rest)
  end.
Definition mdot (m : pomdp) (t v : vec) : Q :=
  qsum (map (fun s => nthq t s * nthq v s) (seq 0 (nS (pm m)))).
(* one tooth: t.cv + c * (v_i - b_i.cv) *)
Definition tooth (m : pomdp) (cv : vec) (t : vec) (pt : vec * Q) : Q :=
  mdot m t cv + ratio m t (fst pt) * (snd pt - mdot m (fst pt) cv).
Definition usurf (m : pomdp) (st : ubstate) (t : vec) : Q :=
  let cv := corner_vals m (fst st) in
  minl_from (lin_surface m (fst st) t) (map (tooth m cv t) (snd st)).

(* ---- lower-bound certificate:  alpha <= R_a + gamma sum_o T diag(O_o) alpha_o + delta  pointwise *)
Definition vleb (d : Q) (v w : vec) : bool :=
  (length v =? length w)%nat && forallb (fun p => Qle_bool (fst p) (snd p + d)) (combine v w).
Definition lb_event_ok (m : pomdp) (certified : list vec) (a : nat) (links : list nat) (alpha : vec) (d : Q) : bool :=
  (a <? nA (pm m))%nat && (length links =? nO m)%nat &&
  forallb (fun i => (i <? length certified)%nat) links &&
  vleb d alpha (backup_vec m a (fun o => nth (nth o links O) certified [])).

(* ---- upper-bound certificates, w.r.t. surfaces from the history (most recent first) *)
Definition unit_vec (S s : nat) : vec := map (fun i => if (i =? s)%nat then 1 else 0) (seq 0 S).
Definition ub_backup (m : pomdp) (st : ubstate) (b : vec) (a : nat) : Q :=
  rew_at m b a + gam (pm m) * qsum (map (fun o => usurf m st (tau_step m b a o)) (seq 0 (nO m))).
Definition ub_point_ok (m : pomdp) (hist : list ubstate) (b : vec) (v : Q) (ks : list nat) (d : Q) : bool :=
  (length ks =? nA (pm m))%nat &&
  forallb (fun a => match nth_error hist (nth a ks O) with
                    | Some st => Qle_bool (ub_backup m st b a) (v + d)
                    | None => false end) (seq 0 (nA (pm m))).
Definition ub_corner_ok (m : pomdp) (hist : list ubstate) (s a : nat) (v : Q) (k : nat) (d : Q) : bool :=
  (s <? nS (pm m))%nat && (a <? nA (pm m))%nat &&
  match nth_error hist k with
  | Some st => Qle_bool (ub_backup m st (unit_vec (nS (pm m)) s) a) (v + d)
  | None => false end.

(* ---- a Q-table that dominates its own FIB backup (up to e) is an upper bound *)
Definition supersol_okb (m : pomdp) (q : mat) (e : Q) : bool :=
  forallb (fun s => forallb (fun a => Qle_bool (qget (fib_op m q) s a) (qget q s a + e)) (seq 0 (nA (pm m))))
          (seq 0 (nS (pm m))).

(* ---- upper-bound event trace (states most recent first).  A point event adds (b, v) certified per
   action against a surface of the history (SARSOP keeps stale per-action values, so the surface "the
   code used" may be an older one); a corner event overwrites ubQ(s,a) := v; a prune event keeps a
   sub-list of the points.  d = slack (0 in the theorems). *)
Definition mset (m : pomdp) (q : mat) (s a : nat) (v : Q) : mat :=
  mtab (nS (pm m)) (nA (pm m)) (fun s' a' => if ((s' =? s) && (a' =? a))%nat%bool then v else qget q s' a').

Inductive ub_event : Type :=
| UbPoint (b : vec) (v : Q) (ks : list nat)
| UbCorner (s a : nat) (v : Q) (k : nat)
| UbPrune (keep : list nat).

Definition ub_step (m : pomdp) (d : Q) (hist : list ubstate) (e : ub_event) : option (list ubstate) :=
  match hist with
  | [] => None
  | cur :: _ =>
    match e with
    | UbPoint b v ks =>
      if (nonnegb b && (length b =? nS (pm m))%nat && ub_point_ok m hist b v ks d)%bool
      then Some ((fst cur, snd cur ++ [(b, v)]) :: hist) else None
    | UbCorner s a v k =>
      if ub_corner_ok m hist s a v k d
      then Some ((mset m (fst cur) s a v, snd cur) :: hist) else None
    | UbPrune keep =>
      if forallb (fun i => (i <? length (snd cur))%nat) keep
      then Some ((fst cur, map (fun i => nth i (snd cur) ([], 0)) keep) :: hist) else None
    end
  end.

Fixpoint ub_run (m : pomdp) (d : Q) (hist : list ubstate) (evs : list ub_event) : option (list ubstate) :=
  match evs with
  | [] => Some hist
  | e :: rest => match ub_step m d hist e with Some h' => ub_run m d h' rest | None => None end
  end.
