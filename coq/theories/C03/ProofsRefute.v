(* C03/ProofsRefute.v — the std::max(0.0001, 1 - discount) guard: with discount 16383/16384 the start values of
   FastInformedBound and BlindStrategies(fasterConvergence) are not bounds; vm_compute witnesses. *)
From Coq Require Import List Arith ZArith QArith Qminmax Lqa Lia Bool.
From AIT Require Import Base.Qx Base.Mdp Base.MdpExec C02.Model C02.Spec C03.Model C03.Spec.
Import ListNotations.
Local Open Scope Q_scope.

Definition guard_pomdp (r : Q) : pomdp :=
  {| pm := {| nS := 1; nA := 1; P := [ [[1]] ]; R := [ [r] ]; gam := 16383#16384 |}; nO := 1; Ob := [ [[1]] ] |}.
Lemma guard_wf : forall r, wf_pomdp (guard_pomdp r).
Proof.
  intros r. unfold wf_pomdp, wf_mdp, simplex, is_dist. cbn [pm nS nA gam P R nO Ob guard_pomdp length].
  repeat split; try lia; try lra; try reflexivity.
  - intros [|a] Ha; [reflexivity| lia].
  - destruct a as [|a]; destruct s as [|s]; try lia; reflexivity.
  - destruct a as [|a]; destruct s as [|s]; try lia. unfold nonneg, row; cbn [nth]. repeat constructor; lra.
  - destruct a as [|a]; destruct s as [|s]; try lia; unfold row; cbn [nth qsum]; lra.
  - intros [|s] Hs; [reflexivity| lia].
  - intros [|a] Ha; [reflexivity| lia].
  - destruct a as [|a]; destruct s as [|s]; try lia; reflexivity.
  - destruct a as [|a]; destruct s as [|s]; try lia. unfold nonneg, row; cbn [nth]. repeat constructor; lra.
  - destruct a as [|a]; destruct s as [|s]; try lia; unfold row; cbn [nth qsum]; lra.
Qed.
Lemma simplex1 : simplex 1 [1].
Proof. split; [reflexivity|]. split; [repeat constructor; lra| cbn; lra]. Qed.
(* the unrepaired starts: value / std::max(0.0001, 1 - discount) *)
Definition fib_start_guarded (m : pomdp) : mat :=
  let c := Qred (maxl (Rall m) / denom_guarded m) in mtab (nS (pm m)) (nA (pm m)) (fun _ _ => c).
Definition blind_start_guarded (m : pomdp) (a : nat) : vec :=
  repeat (Qred (minl (Rcol m a) / denom_guarded m)) (nS (pm m)).

Theorem fib_guard_refuted_lemma : exists m rmin, wf_pomdp m /\ rmin_ok m rmin /\
  ~ sound_ub m rmin (lin_surface m (snd (fib_run_from m 3 0 (fib_start_guarded m)))).
Proof.
  exists (guard_pomdp 1), 1. split; [apply guard_wf|]. split.
  - intros [|s] [|a] Hs Ha; try (cbn in Hs, Ha; lia). vm_compute. discriminate.
  - intros H. specialize (H [1] 0%nat simplex1). vm_compute in H. apply H. reflexivity.
Qed.
Theorem blind_guard_refuted_lemma : exists m rmax, wf_pomdp m /\ rmax_ok m rmax /\
  ~ sound_lb m rmax (fun b => dot (Nat.iter 3 (blind_step m 0) (blind_start_guarded m 0)) b).
Proof.
  exists (guard_pomdp (-1)), (-1). split; [apply guard_wf|]. split.
  - intros [|s] [|a] Hs Ha; try (cbn in Hs, Ha; lia). vm_compute. discriminate.
  - intros H. specialize (H [1] 0%nat simplex1). vm_compute in H. apply H. reflexivity.
Qed.
