(* C03/Proofs.v — executable twins agree with the specification. *)
From Coq Require Import List Arith ZArith QArith Qminmax Lqa Lia Bool Setoid.
From AIT Require Import Base.Qx Base.Mdp Base.MdpExec C02.Model C03.Model C03.Spec.
Import ListNotations.
Local Open Scope Q_scope.

Lemma Vmax_r_correct : forall m r n b, Vmax_r m r n b == Vmax m r n b.
Proof.
  intros. unfold Vmax_r, Vmax, tail_r. rewrite !Qred_correct, EV_r_correct. reflexivity.
Qed.
