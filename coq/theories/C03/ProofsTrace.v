(* C03/ProofsTrace.v — upper-bound trace: from sound states, every belief point accepted by
   ub_point_ok 0, every corner write accepted by ub_corner_ok 0 (each certified against a surface of
   the history) and every pruning keeps all states sound; the surface of a sound state is sound. *)
From Coq Require Import List Arith ZArith QArith Qpower Qminmax Lqa Lia Bool Setoid.
From AIT Require Import Base.Qx Base.Mdp Base.MdpExec C02.Model C02.Spec C02.ProofsVec C02.ProofsCross
  C02.ProofsSched C02.ProofsProj C02.ProofsIP C02.ProofsEV C03.Model C03.Spec C03.ProofsLB C03.ProofsUB C03.ProofsSaw.
Import ListNotations.
Local Open Scope Q_scope.

Section Trace.
  Variable m : pomdp.
  Hypothesis Hwf : wf_pomdp m.
  Let S := nS (pm m).
  Let A := nA (pm m).
  Let g := gam (pm m).
  Variable c : Q.
  Hypothesis Hc : tail_lo m c.

  Lemma nonnegb_nonneg : forall b, nonnegb b = true -> nonneg b.
  Proof.
    intros b H. unfold nonnegb in H. rewrite forallb_forall in H. apply Forall_forall.
    intros x Hx. apply Qle_bool_iff. apply H; exact Hx.
  Qed.

  Lemma hist_surface : forall hist k st, Forall (state_sound m c) hist -> nth_error hist k = Some st ->
    surface_sound m c (usurf m st).
  Proof.
    intros hist k st Hall E. apply (usurf_sound m Hwf). rewrite Forall_forall in Hall. apply Hall.
    eapply nth_error_In; exact E.
  Qed.

  Lemma ub_point_sound : forall hist b v ks, Forall (state_sound m c) hist -> nonneg b -> length b = S ->
    ub_point_ok m hist b v ks 0 = true -> point_sound m c (b, v).
  Proof.
    intros hist b v ks Hall Hn Hl H. split; [exact Hn| split; [exact Hl|]]. cbn [fst snd]. intros n.
    unfold ub_point_ok in H. apply andb_true_iff in H. destruct H as [_ H]. rewrite forallb_forall in H.
    rewrite (W_max_Qlev m Hwf). apply maxl_le; [apply (mapA_ne m Hwf)|].
    intros y Hy. apply in_map_iff in Hy. destruct Hy as [a [<- Ha]]. pose proof (H a Ha) as Ha'. apply in_seq in Ha.
    destruct (nth_error hist (nth a ks O)) as [st|] eqn:E; [| discriminate].
    apply Qle_bool_iff in Ha'. unfold ub_backup in Ha'.
    eapply Qle_trans; [apply (Qlev_backup_bound m Hwf c Hc (usurf m st) b a (hist_surface hist _ st Hall E) Hn Hl); unfold A; lia|].
    unfold g in *. lra.
  Qed.

  Lemma ub_corner_sound : forall hist q s a v k, Forall (state_sound m c) hist -> qdom m c q ->
    ub_corner_ok m hist s a v k 0 = true -> qdom m c (mset m q s a v).
  Proof.
    intros hist q s a v k Hall Hq H. unfold ub_corner_ok in H.
    apply andb_true_iff in H. destruct H as [H H3]. apply andb_true_iff in H. destruct H as [H1 H2].
    apply Nat.ltb_lt in H1. apply Nat.ltb_lt in H2.
    destruct (nth_error hist k) as [st|] eqn:E; [| discriminate]. apply Qle_bool_iff in H3. unfold ub_backup in H3.
    destruct (unit_vec_props m s H1) as [Ne [Le _]].
    apply (corner_write_qdom m Hwf c q s a v Hq H1 H2). intros n.
    eapply Qle_trans; [apply (Qlev_backup_bound m Hwf c Hc (usurf m st) _ a (hist_surface hist _ st Hall E) Ne Le H2)|].
    unfold g in *. lra.
  Qed.

  Lemma ub_step_sound : forall hist e hist', Forall (state_sound m c) hist -> ub_step m 0 hist e = Some hist' ->
    Forall (state_sound m c) hist'.
  Proof.
    intros hist e hist' Hall H. unfold ub_step in H. destruct hist as [|cur rest]; [discriminate|].
    pose proof (Forall_inv Hall) as [Hq Hp]. destruct e as [b v ks|s a v k|keep].
    - destruct (nonnegb b && (length b =? nS (pm m))%nat && ub_point_ok m (cur :: rest) b v ks 0)%bool eqn:E; [| discriminate].
      inversion H; subst. apply andb_true_iff in E. destruct E as [E E3]. apply andb_true_iff in E. destruct E as [E1 E2].
      constructor; [| exact Hall]. split; [exact Hq|]. cbn [snd]. apply Forall_app. split; [exact Hp|].
      constructor; [| constructor].
      apply (ub_point_sound (cur :: rest) b v ks Hall (nonnegb_nonneg b E1)); [apply Nat.eqb_eq; exact E2| exact E3].
    - destruct (ub_corner_ok m (cur :: rest) s a v k 0) eqn:E; [| discriminate].
      inversion H; subst. constructor; [| exact Hall]. split; [| exact Hp]. cbn [fst].
      apply (ub_corner_sound (cur :: rest) (fst cur) s a v k Hall Hq E).
    - destruct (forallb (fun i => (i <? length (snd cur))%nat) keep) eqn:E; [| discriminate].
      inversion H; subst. constructor; [| exact Hall]. split; [exact Hq|]. cbn [snd].
      apply Forall_forall. intros p Hp'. apply in_map_iff in Hp'. destruct Hp' as [i [<- Hi]].
      rewrite forallb_forall in E. rewrite Forall_forall in Hp. apply Hp. apply nth_In. apply Nat.ltb_lt. apply E; exact Hi.
  Qed.

  Theorem ub_trace_sound_lemma : forall evs hist final, Forall (state_sound m c) hist ->
    ub_run m 0 hist evs = Some final -> Forall (state_sound m c) final.
  Proof.
    induction evs as [|e rest IH]; intros hist final Hall H; cbn [ub_run] in H.
    - inversion H; subst; exact Hall.
    - destruct (ub_step m 0 hist e) as [h'|] eqn:E; [| discriminate].
      apply (IH h' final); [eapply ub_step_sound; eassumption| exact H].
  Qed.

  (* initial state: any FIB iterate from a super-solution, with no points (or with points proved sound) *)
  Lemma fib_state_sound : forall q0 k, tge_c m c q0 -> tle m (fib_op m q0) q0 ->
    state_sound m c (fib_iter m k q0, []).
  Proof.
    intros q0 k Hge Hsup. split; [| constructor]. cbn [fst].
    assert (H : tge_c m c (fib_iter m k q0) /\ tle m (fib_op m (fib_iter m k q0)) (fib_iter m k q0)).
    { induction k as [|k IH]; [split; assumption|]. destruct IH as [I1 I2].
      change (fib_iter m (Datatypes.S k) q0) with (fib_step m (fib_iter m k q0)).
      destruct (fib_step_supersol m Hwf c _ Hc I1 I2) as [J1 [J2 _]]. split; assumption. }
    destruct H as [H1 H2]. apply (supersol_qdom m Hwf c); assumption.
  Qed.
End Trace.
