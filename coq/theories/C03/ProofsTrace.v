(* C03/ProofsTrace.v — upper-bound trace (partial): every belief point accepted by ub_point_ok 0
   against surfaces of the history is a sound upper-bound entry, and pruning keeps soundness —
   PROVIDED the interpolation surface built from sound entries is itself sound (premise
   [surface_of_sound_entries]; proved here for the corner-plane part, the sawtooth part is the
   missing lemma, see notes/C03.md). Corner writes into ubQ are not covered. *)
From Coq Require Import List Arith ZArith QArith Qpower Qminmax Lqa Lia Bool Setoid.
From AIT Require Import Base.Qx Base.Mdp Base.MdpExec C02.Model C02.Spec C02.ProofsVec C02.ProofsCross
  C02.ProofsSched C02.ProofsProj C02.ProofsIP C02.ProofsEV C03.Model C03.Spec C03.ProofsLB C03.ProofsUB.
Import ListNotations.
Local Open Scope Q_scope.

Section Trace.
  Variable m : pomdp.
  Hypothesis Hwf : wf_pomdp m.
  Let S := nS (pm m).
  Let A := nA (pm m).
  Let g := gam (pm m).
  Variable c : Q.
  Hypothesis Hc : tail_lo m c.

  Definition surface_sound (U : vec -> Q) : Prop :=
    forall n t, nonneg t -> length t = S -> W m c n t <= U t.
  Definition point_sound (p : vec * Q) : Prop :=
    nonneg (fst p) /\ length (fst p) = S /\ forall n, W m c n (fst p) <= snd p.
  Definition state_sound (st : ubstate) : Prop := ubdom m c (fst st) /\ Forall point_sound (snd st).

  (* the corner-plane surface of a dominated table is sound whatever the points are *)
  Lemma lin_surface_sound : forall st, state_sound st -> surface_sound (lin_surface m (fst st)).
  Proof. intros st [H _] n t Hn Hl. apply H; assumption. Qed.

  (* one-step look-ahead over sound surfaces bounds W at every level *)
  Lemma ub_backup_bound : forall (Us : nat -> vec -> Q) b v, nonneg b -> length b = S ->
    (forall a, (a < A)%nat -> surface_sound (Us a)) ->
    (forall a, (a < A)%nat ->
       rew_at m b a + g * qsum (map (fun o => Us a (tau_step m b a o)) (seq 0 (nO m))) <= v) ->
    forall n, W m c n b <= v.
  Proof.
    intros Us b v Hn Hl HU Hv n. pose proof (Hg m Hwf) as [G0 G1]. fold g in G0, G1.
    pose proof (HA m Hwf) as HAp. fold A in HAp.
    assert (Hfut : forall k a, (a < A)%nat ->
              qsum (map (fun o => W m c k (tau_step m b a o)) (seq 0 (nO m))) <=
              qsum (map (fun o => Us a (tau_step m b a o)) (seq 0 (nO m)))).
    { intros k a Ha. apply qsum_map_le. intros o _.
      apply (HU a Ha); [apply (tau_step_nonneg m Hwf); [exact Hn| unfold A in Ha; exact Ha]| apply tau_step_length]. }
    destruct n as [|n].
    - (* level 0: c <= R + g c per unit of mass *)
      pose proof (Hfut 0%nat 0%nat HAp) as H0. pose proof (Hv 0%nat HAp) as H1.
      assert (E : qsum (map (fun o => W m c 0 (tau_step m b 0%nat o)) (seq 0 (nO m))) == c * mass m b).
      { rewrite <- (mass_conservation m Hwf b 0%nat HAp). rewrite <- qsum_map_mul_l. apply qsum_map_ext.
        intros o _. unfold W. cbn [EV]. rewrite pw_0. ring. }
      pose proof (rew_at_ge_c m (c - g * c) b 0%nat Hn HAp) as Hr.
      assert (Hr' : (c - g * c) * mass m b <= rew_at m b 0%nat).
      { apply Hr. intros s Hs. pose proof (Hc s 0%nat Hs HAp). fold g in H. lra. }
      unfold W at 1. cbn [EV]. rewrite pw_0. nra.
    - rewrite (W_succ m Hwf). apply maxl_le; [apply (mapA_ne m Hwf)|].
      intros y Hy. apply in_map_iff in Hy. destruct Hy as [a [<- Ha]]. apply in_seq in Ha. fold g.
      pose proof (Hfut n a ltac:(unfold A; lia)) as H0. pose proof (Hv a ltac:(unfold A; lia)) as H1. nra.
  Qed.

  (* ---- the trace: states most recent first; premise = surface_of_sound_entries *)
  Hypothesis surface_of_sound_entries : forall st, state_sound st -> surface_sound (usurf m st).

  Inductive ub_event : Type :=
  | UbPoint (b : vec) (v : Q) (ks : list nat)      (* add (b, v); ks: for each action, the history index used *)
  | UbPrune (keep : list nat).                     (* keep these points of the current state *)

  Definition ub_step (hist : list ubstate) (e : ub_event) : option (list ubstate) :=
    match hist with
    | [] => None
    | cur :: _ =>
      match e with
      | UbPoint b v ks =>
        if (nonnegb b && (length b =? S)%nat && ub_point_ok m hist b v ks 0)%bool
        then Some ((fst cur, snd cur ++ [(b, v)]) :: hist) else None
      | UbPrune keep =>
        if forallb (fun i => (i <? length (snd cur))%nat) keep
        then Some ((fst cur, map (fun i => nth i (snd cur) ([], 0)) keep) :: hist) else None
      end
    end.

  Fixpoint ub_run (hist : list ubstate) (evs : list ub_event) : option (list ubstate) :=
    match evs with
    | [] => Some hist
    | e :: rest => match ub_step hist e with Some h' => ub_run h' rest | None => None end
    end.

  Lemma nonnegb_nonneg : forall b, nonnegb b = true -> nonneg b.
  Proof.
    intros b H. unfold nonnegb in H. rewrite forallb_forall in H. apply Forall_forall.
    intros x Hx. apply Qle_bool_iff. apply H; exact Hx.
  Qed.

  Lemma ub_point_sound : forall hist b v ks, Forall state_sound hist -> nonneg b -> length b = S ->
    ub_point_ok m hist b v ks 0 = true -> point_sound (b, v).
  Proof.
    intros hist b v ks Hall Hn Hl H. split; [exact Hn| split; [exact Hl|]]. cbn [fst snd].
    unfold ub_point_ok in H. apply andb_true_iff in H. destruct H as [_ H]. rewrite forallb_forall in H.
    (* per action, the surface of the chosen history state *)
    set (Us := fun a => match nth_error hist (nth a ks O) with Some st => usurf m st | None => fun _ => v end).
    apply (ub_backup_bound Us b v Hn Hl).
    - intros a Ha. unfold Us. pose proof (H a ltac:(apply in_seq; unfold A in Ha; lia)) as Ha'.
      destruct (nth_error hist (nth a ks O)) as [st|] eqn:E; [| discriminate].
      apply surface_of_sound_entries. rewrite Forall_forall in Hall. apply Hall. eapply nth_error_In; exact E.
    - intros a Ha. unfold Us. pose proof (H a ltac:(apply in_seq; unfold A in Ha; lia)) as Ha'.
      destruct (nth_error hist (nth a ks O)) as [st|] eqn:E; [| discriminate].
      apply Qle_bool_iff in Ha'. unfold ub_backup in Ha'. fold g in Ha'. lra.
  Qed.

  Lemma ub_step_sound : forall hist e hist', Forall state_sound hist -> ub_step hist e = Some hist' ->
    Forall state_sound hist'.
  Proof.
    intros hist e hist' Hall H. unfold ub_step in H. destruct hist as [|cur rest]; [discriminate|].
    pose proof (Forall_inv Hall) as [Hq Hp]. destruct e as [b v ks|keep].
    - destruct (nonnegb b && (length b =? S)%nat && ub_point_ok m (cur :: rest) b v ks 0)%bool eqn:E; [| discriminate].
      inversion H; subst. apply andb_true_iff in E. destruct E as [E E3]. apply andb_true_iff in E. destruct E as [E1 E2].
      constructor; [| exact Hall]. split; [exact Hq|]. cbn [snd]. apply Forall_app. split; [exact Hp|].
      constructor; [| constructor].
      apply (ub_point_sound (cur :: rest) b v ks Hall (nonnegb_nonneg b E1)); [apply Nat.eqb_eq; exact E2| exact E3].
    - destruct (forallb (fun i => (i <? length (snd cur))%nat) keep) eqn:E; [| discriminate].
      inversion H; subst. constructor; [| exact Hall]. split; [exact Hq|]. cbn [snd].
      apply Forall_forall. intros p Hp'. apply in_map_iff in Hp'. destruct Hp' as [i [<- Hi]].
      rewrite forallb_forall in E. rewrite Forall_forall in Hp. apply Hp. apply nth_In. apply Nat.ltb_lt. apply E; exact Hi.
  Qed.

  Theorem ub_trace_sound_lemma : forall evs hist final, Forall state_sound hist ->
    ub_run hist evs = Some final -> Forall state_sound final.
  Proof.
    induction evs as [|e rest IH]; intros hist final Hall H; cbn [ub_run] in H.
    - inversion H; subst; exact Hall.
    - destruct (ub_step hist e) as [h'|] eqn:E; [| discriminate].
      apply (IH h' final); [eapply ub_step_sound; eassumption| exact H].
  Qed.
End Trace.
