(* C03/ProofsPBVI.v — PBVI (from the zero start) and PERSEUS (from minReward/(1-discount)) build chains
   of plans (C04.ProofsPoint); a chain of plans over a sound base list is sound (here), over the zero
   base it is below EV of the matching horizon (C04.ProofsBound). *)
From Coq Require Import List Arith ZArith QArith Qpower Qminmax Lqa Lia Bool Setoid.
From AIT Require Import Base.Qx Base.Mdp Base.MdpExec C02.Model C02.Spec C02.ProofsVec C02.ProofsCross
  C02.ProofsSched C02.ProofsProj C02.ProofsIP C02.ProofsEV C04.Model C04.ProofsPlan C04.ProofsExec C04.ProofsBound
  C04.ProofsPoint C03.Model C03.Spec C03.ProofsLB.
Import ListNotations.
Local Open Scope Q_scope.

Section PB.
  Variable m : pomdp.
  Hypothesis Hwf : wf_pomdp m.
  Hypothesis Hclean : obs_clean m.
  Let S := nS (pm m).
  Let Hwf1 := wf_pomdp_weaken m Hwf.
  Variable select : vlist -> vlist.
  Hypothesis select_sub : forall l e, In e (select l) -> In e l.

  Lemma plans_wfl : forall prev l, Forall (entry_is_plan m prev) l -> wfl S l.
  Proof.
    intros prev l H. unfold wfl. apply Forall_forall. intros e He. rewrite Forall_forall in H.
    destruct (H e He) as [_ [_ Hv]]. rewrite (veq_length _ _ Hv). unfold plan_vals. rewrite map_length, seq_length. reflexivity.
  Qed.

  (* ---- a chain of plans over a sound base is sound, entry by entry *)
  Theorem plan_chain_lbS : forall c older cur, tail_hi m c -> chain_ok m older cur ->
    Forall (fun e => lbS m c (vals e)) (last (cur :: older) []) -> Forall (fun e => lbS m c (vals e)) cur.
  Proof.
    intros c older. induction older as [|prev older IH]; intros cur Hc Hch Hbase; cbn [chain_ok] in Hch.
    - exact Hbase.
    - destruct Hch as [Hp [Wp Hch]].
      assert (Hprev : Forall (fun e => lbS m c (vals e)) prev).
      { apply IH; [exact Hc| exact Hch|]. destruct older; exact Hbase. }
      apply Forall_forall. intros e He. rewrite Forall_forall in Hp. destruct (Hp e He) as [Ha [[Ll Lr] Hv]].
      intros n. apply (lbS_at_veq m c n _ _ Hv).
      change (plan_vals m prev e) with (backup_vec m (act e) (linked prev e)).
      apply (backup_sound m Hwf); [exact Hc| exact Ha|]. intros o Ho. unfold linked.
      rewrite Forall_forall in Hprev. apply Hprev. apply nth_In. rewrite Forall_forall in Lr. apply Lr. apply nth_In. rewrite Ll. exact Ho.
  Qed.

  (* ---- PBVI *)
  Lemma pbvi_reqs_ok : forall bl, Forall (fun ba => (snd ba < nA (pm m))%nat) (pbvi_reqs m bl).
  Proof.
    intros bl. apply Forall_forall. intros [b a] H. unfold pbvi_reqs in H. apply in_flat_map in H.
    destruct H as [a' [Ha' H]]. apply in_map_iff in H. destruct H as [b' [E _]]. inversion E; subst. cbn [snd].
    apply in_seq in Ha'. lia.
  Qed.

  Lemma dot_zero_entry : forall e t, In e (zero_list S) -> dot (vals e) t == 0.
  Proof.
    intros e t [E|[]]. rewrite <- E. cbn [vals]. unfold vzero. rewrite dot_comm. apply dot_repeat0_r.
  Qed.

  Hypothesis select_ne : forall l, l <> [] -> select l <> [].

  Lemma HOp : (0 < nO m)%nat. Proof. apply (HO m Hwf1). Qed.
  Lemma HAp : (0 < nA (pm m))%nat. Proof. apply (HA m Hwf1). Qed.

  Lemma pbvi_reqs_ne : forall bl, bl <> [] -> pbvi_reqs m bl <> [].
  Proof.
    intros bl Hb. unfold pbvi_reqs. pose proof HAp as HA. destruct (nA (pm m)) as [|k]; [lia|].
    cbn [seq flat_map]. destruct bl as [|b bl]; [congruence|]. cbn [map app]. discriminate.
  Qed.

  Lemma pbvi_chain_inv : forall bl h, bl <> [] ->
    exists cur older, pbvi_chain select m bl h = cur :: older /\ chain_ok m older cur /\ wfl S cur /\
                      cur <> [] /\ length older = h /\ last (cur :: older) [] = zero_list S.
  Proof.
    intros bl h Hbl. induction h as [|h IH].
    - exists (zero_list S), []. cbn [pbvi_chain chain_ok length last]. fold S. repeat split.
      + unfold wfl, zero_list. constructor; [| constructor]. cbn [vals]. unfold vzero. apply repeat_length.
      + discriminate.
    - destruct IH as [cur [older [E [Hch [Hw [Hne [Hl Hlast]]]]]]].
      cbn [pbvi_chain]. rewrite E. cbn [hd].
      set (new := select (pbvi_cands m cur (pbvi_reqs m bl))).
      assert (Hplans : Forall (entry_is_plan m cur) new).
      { apply (point_step_entries_are_plans_lemma m HOp Hclean select select_sub cur (pbvi_reqs m bl) Hne (pbvi_reqs_ok bl)). }
      exists new, (cur :: older). split; [reflexivity|]. split; [cbn [chain_ok]; split; [exact Hplans| split; assumption]|].
      split; [apply (plans_wfl cur); exact Hplans|]. split.
      + unfold new. apply select_ne. unfold pbvi_cands. intros H. apply map_eq_nil in H. apply (pbvi_reqs_ne bl Hbl); exact H.
      + split; [cbn [length]; lia|]. cbn [last] in *. destruct older; exact Hlast.
  Qed.

  (* PBVI from the zero start: the horizon-h list never exceeds the h-step expectimax *)
  Theorem pbvi_sound_lemma : forall bl h t, bl <> [] -> nonneg t -> length t = S ->
    vbest (hd [] (pbvi_chain select m bl h)) t <= EV m h t.
  Proof.
    intros bl h t Hbl Hn Hl. destruct (pbvi_chain_inv bl h Hbl) as [cur [older [E [Hch [Hw [Hne [Hlen Hlast]]]]]]].
    rewrite E. cbn [hd]. rewrite <- Hlen.
    apply (plan_surface_le_EV_lemma m Hwf1 older cur t Hch Hne); [| exact Hn| exact Hl].
    intros e t' He. rewrite Hlast in He. apply dot_zero_entry; exact He.
  Qed.

  (* ---- PERSEUS *)
  Lemma perseus_chain_inv : forall bl minRew h, bl <> [] ->
    exists cur older, perseus_chain select m bl minRew h = cur :: older /\ chain_ok m older cur /\ wfl S cur /\
                      cur <> [] /\ last (cur :: older) [] = perseus_start m minRew.
  Proof.
    intros bl minRew h Hbl. induction h as [|h IH].
    - exists (perseus_start m minRew), []. cbn [perseus_chain chain_ok last]. repeat split.
      + unfold wfl, perseus_start. constructor; [| constructor]. cbn [vals]. apply repeat_length.
      + discriminate.
    - destruct IH as [cur [older [E [Hch [Hw [Hne Hlast]]]]]].
      cbn [perseus_chain]. rewrite E. cbn [hd].
      set (new := select (perseus_cands m cur bl)).
      assert (Hplans : Forall (entry_is_plan m cur) new).
      { apply Forall_forall. intros e He. apply select_sub in He. unfold perseus_cands in He.
        apply in_map_iff in He. destruct He as [b [<- _]].
        apply (best_action_backup_is_plan_lemma m HOp Hclean cur b Hne HAp). }
      exists new, (cur :: older). split; [reflexivity|]. split; [cbn [chain_ok]; split; [exact Hplans| split; assumption]|].
      split; [apply (plans_wfl cur); exact Hplans|]. split.
      + unfold new. apply select_ne. unfold perseus_cands. intros H. apply map_eq_nil in H. exact (Hbl H).
      + cbn [last] in *. destruct older; exact Hlast.
  Qed.

  Lemma perseus_start_sound : forall c minRew, tail_hi m c ->
    (forall s a, (s < S)%nat -> (a < nA (pm m))%nat -> minRew <= Rw m s a) ->
    Forall (fun e => lbS m c (vals e)) (perseus_start m minRew).
  Proof.
    intros c minRew Hc Hmin. constructor; [| constructor]. cbn [vals].
    pose proof (Hg m Hwf) as [G0 G1]. pose proof HAp as HA. pose proof (HS m Hwf) as HSp. fold S in HSp.
    set (k := Qred (minRew / (1 - gam (pm m)))).
    assert (Hk : k * (1 - gam (pm m)) == minRew) by (unfold k; rewrite Qred_correct; field; lra).
    apply (selfcert_sound m Hwf c 0%nat); [exact Hc| exact HA| |].
    - intros s Hs. rewrite (nthq_repeat m) by exact Hs. pose proof (Hc s 0%nat Hs HA). pose proof (Hmin s 0%nat Hs HA). nra.
    - intros s Hs. rewrite (nthq_backup_const m Hwf) by assumption. rewrite (nthq_repeat m) by exact Hs.
      assert (E : qsum (map (fun s1 => Tp m s 0%nat s1 * nthq (repeat k (nS (pm m))) s1) (seq 0 (nS (pm m)))) == k).
      { transitivity (qsum (map (fun s1 => k * Tp m s 0%nat s1) (seq 0 (nS (pm m))))).
        - apply qsum_map_ext. intros s1 Hs1. apply in_seq in Hs1. rewrite (nthq_repeat m) by lia. ring.
        - rewrite qsum_map_mul_l. rewrite (trow_sum m Hwf1 s 0%nat Hs HA). ring. }
      fold S. fold S in E. rewrite E. pose proof (Hmin s 0%nat Hs HA). nra.
  Qed.

  (* PERSEUS (minReward <= every reward): every vector of every list is a sound lower bound *)
  Theorem perseus_sound_lemma : forall c bl minRew h e, tail_hi m c -> bl <> [] ->
    (forall s a, (s < S)%nat -> (a < nA (pm m))%nat -> minRew <= Rw m s a) ->
    In e (hd [] (perseus_chain select m bl minRew h)) -> length (vals e) = S /\ lbS m c (vals e).
  Proof.
    intros c bl minRew h e Hc Hbl Hmin He.
    destruct (perseus_chain_inv bl minRew h Hbl) as [cur [older [E [Hch [Hw [Hne Hlast]]]]]].
    rewrite E in He. cbn [hd] in He. split.
    - unfold wfl in Hw. rewrite Forall_forall in Hw. apply Hw; exact He.
    - pose proof (plan_chain_lbS c older cur Hc Hch) as H. rewrite Hlast in H.
      specialize (H (perseus_start_sound c minRew Hc Hmin)). rewrite Forall_forall in H. apply H; exact He.
  Qed.
End PB.
