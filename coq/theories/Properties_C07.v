(* Properties_C07.v — property C07: experience and learned models mirror the recorded history.
   Only statements, each closed by [exact <lemma>] and followed by Print Assumptions.

   Vocabulary (C07/Model.v, C07/Spec.v):
     run fixed S A pre toSync post   experience built by [pre]; MaximumLikelihoodModel constructed then
                                     with flag [toSync]; then [post] (records, resets and the three syncs).
                                     [fixed = true] is the constructor repaired by
                                     fixes/C07-mlmodel-uninit.patch (zero-fill before sync()); with
                                     [toSync = false] both constructors coincide, hence the hypothesis
                                     [fixed || negb toSync = true].
     hist_of ops                     the records since the last reset (raw history)
     count / countsum / mean / m2 / freq   statistics of the raw history
     track / precond_ok              the boolean tracker of the documented incremental-sync precondition
     row_is m a s S f                row (s,a) of the model holds finite cells equal (==) to f 0 .. f (S-1) *)
From Coq Require Import List Arith ZArith QArith Bool.
From AIT Require Import Base.Qx C07.Model C07.Spec C07.ProofsExp C07.ProofsMl C07.ProofsInv C07.ProofsTop C07.ProofsExtra C07.ProofsCoop C07.ProofsCoopMl C07.ProofsSparse.
Import ListNotations.
Local Open Scope Q_scope.

(* ---- core 1: Welford ------------------------------------------------------------------------ *)
(* After ANY in-range sequence of record / reset / sync ops, the experience reports exactly the
   visit counts, the mean and the sum of squared deviations of the rewards recorded since the last
   reset, per (s,a), and the number of records as timesteps. *)
Theorem welford_exact : forall S A ops, ops_in_range S A ops = true ->
  let e := exp_after S A ops in let h := hist_of ops in
  e_ts e = length h /\
  forall s a, (s < S)%nat -> (a < A)%nat ->
    (forall s1, (s1 < S)%nat -> V e s a s1 = count h s a s1) /\
    NN e s a = countsum h s a /\
    Rw e s a == mean (rewards_of h s a) /\
    M2 e s a == m2 (rewards_of h s a).
Proof. exact welford_exact_lemma. Qed.
Print Assumptions welford_exact.

Example ex_welford_nonvacuous :
  let ops := [ORecord 0 1 1 (3#2); ORecord 0 1 0 (-1#1); OSync2 0 1; ORecord 0 1 1 (5#1)] in
  ops_in_range 2 2 ops = true /\ NN (exp_after 2 2 ops) 0 1 = 3%nat /\
  Rw (exp_after 2 2 ops) 0 1 == 11 # 6 /\ V (exp_after 2 2 ops) 0 1 1 = 2%nat.
Proof. cbv zeta. repeat split; vm_compute; reflexivity. Qed.

(* the same for Bandit::Experience *)
Theorem bandit_welford_exact : forall A ops, forallb (bop_in_range A) ops = true ->
  let b := bexp_after A ops in let h := bhist_of ops in
  b_ts b = length h /\
  forall a, (a < A)%nat ->
    nth a (b_vis b) 0%nat = length (arm_rewards h a) /\
    nth a (b_avg b) 0 == mean (arm_rewards h a) /\
    nth a (b_m2 b) 0 == m2 (arm_rewards h a).
Proof. exact bandit_welford_exact_lemma. Qed.
Print Assumptions bandit_welford_exact.

Example ex_bandit_nonvacuous :
  let ops := [BRecord 1 (1#2); BRecord 1 (-3#1); BReset; BRecord 0 2; BRecord 0 4] in
  forallb (bop_in_range 2) ops = true /\ nth 0 (b_avg (bexp_after 2 ops)) 0 == 3 /\ nth 0 (b_m2 (bexp_after 2 ops)) 0 == 2.
Proof. cbv zeta. repeat split; vm_compute; reflexivity. Qed.

(* the same for the factored CooperativeExperience: every row (DDN-graph id) of every node reports the
   visit counts per next value, their sum, the mean and M2 of exactly the joint records that map to
   that row since the last reset; timesteps = number of joint records *)
Theorem coop_welford_exact : forall g ops, forallb (cop_ok g) ops = true ->
  let e := cexp_after g ops in let h := chist_of ops in
  c_ts e = length h /\
  forall i, (i < length (cgS g))%nat -> forall id, (id < cg_size g i)%nat ->
    let x := cnode e i in let hi := map (cproj g i) h in let ncol := nth i (cgS g) 0%nat in
    (forall v, (v < ncol)%nat -> get2 0%nat (r_vis x) id v = row_count hi id v) /\
    get2 0%nat (r_vis x) id ncol = length (row_rewards hi id) /\
    nth id (r_avg x) 0 == mean (row_rewards hi id) /\
    nth id (r_m2 x) 0 == m2 (row_rewards hi id).
Proof. exact coop_welford_exact_lemma. Qed.
Print Assumptions coop_welford_exact.

Example ex_coop_nonvacuous :
  let g := mkCG [2; 3]%nat [2]%nat [([0%nat], [[0%nat]; [0; 1]%nat]); ([0%nat], [[1%nat]; [0%nat]])] in
  let ops := [CRecord [1; 2]%nat [1%nat] [0; 1]%nat [1; 2]; CRecord [1; 2]%nat [1%nat] [1; 1]%nat [3; 2]; CReset;
              CRecord [1; 2]%nat [1%nat] [1; 0]%nat [5; 1]; CRecord [1; 2]%nat [1%nat] [0; 0]%nat [7; 1]] in
  forallb (cop_ok g) ops = true /\ cg_id g 0 [1; 2]%nat [1%nat] = 7%nat /\ cg_size g 0 = 8%nat /\
  nth 7 (r_avg (cnode (cexp_after g ops) 0)) 0 == 6 /\ nth 7 (r_m2 (cnode (cexp_after g ops) 0)) 0 == 2.
Proof. cbv zeta. repeat split; vm_compute; reflexivity. Qed.

(* CooperativeMaximumLikelihoodModel, for every sequence of joint records / resets / sync() / sync(s,a) /
   sync(indeces) and either constructor flag: each CPT row (node i, parent-set row j) that was synced
   while it had data and has not been the target of a record since (marking computed by Spec.ctrack)
   is the empirical distribution of its counts, and its reward the empirical mean of node i's rewards
   over the records mapping to that row. *)
Theorem coop_ml_is_empirical : forall g pre flag post,
  forallb (cop_ok g) pre = true -> forallb (cop2_ok g) post = true ->
  let m := snd (crun g pre flag post) in
  let h := fst (ctrack g pre flag post) in let mk := snd (ctrack g pre flag post) in
  forall i j, (i < length (cgS g))%nat -> (j < cg_size g i)%nat -> mk i j = true ->
    (0 < ctot g h i j)%nat /\
    (forall v, (v < nth i (cgS g) 0)%nat -> CT m i j v == cfreq g h i j v) /\
    CR m i j == cmean g h i j.
Proof. exact coop_ml_is_empirical_lemma. Qed.
Print Assumptions coop_ml_is_empirical.

(* the history the marking is computed over is the definitional one: records since the last reset *)
Theorem coop_track_history : forall g pre flag post,
  fst (ctrack g pre flag post) = chist_of (pre ++ cexp_ops post).
Proof. exact ctrack_hist. Qed.
Print Assumptions coop_track_history.

(* rows never targeted by a record keep the constructor's default: all mass on value 0, zero reward *)
Theorem coop_unvisited_default : forall g pre flag post i j,
  (i < length (cgS g))%nat -> (j < cg_size g i)%nat ->
  forallb (cnever g i j) pre = true -> forallb (cnever2 g i j) post = true ->
  let m := snd (crun g pre flag post) in
  (forall v, (v < nth i (cgS g) 0)%nat -> CT m i j v = dflt_cell v) /\ CR m i j = 0.
Proof. exact coop_unvisited_default_lemma. Qed.
Print Assumptions coop_unvisited_default.

Example ex_coop_ml_nonvacuous :
  let g := mkCG [2; 3]%nat [2]%nat [([0%nat], [[0%nat]; [0; 1]%nat]); ([0%nat], [[1%nat]; [0%nat]])] in
  let post := [C2Exp (CRecord [1; 2]%nat [1%nat] [0; 1]%nat [1; 2]); C2Exp (CRecord [1; 2]%nat [1%nat] [1; 1]%nat [3; 2]);
               C2SyncSA [1; 2]%nat [1%nat]; C2Exp (CRecord [0; 0]%nat [0%nat] [1; 0]%nat [5; 1])] in
  forallb (cop2_ok g) post = true /\ snd (ctrack g [] false post) 0%nat 7%nat = true /\
  CT (snd (crun g [] false post)) 0 7 1 == 1 # 2 /\ CR (snd (crun g [] false post)) 0 7 == 2 /\
  snd (ctrack g [] false post) 0%nat 0%nat = false.
Proof. cbv zeta. repeat split; vm_compute; reflexivity. Qed.

(* Factored::Bandit::Experience: every local arm of every dependency group reports the count, mean
   and M2 of exactly the joint records whose action maps to that arm since the last reset *)
Theorem fbandit_welford_exact : forall A deps ops, forallb (fbop_ok A deps) ops = true ->
  let e := fbexp_after A deps ops in let h := fbhist_of ops in
  fb_ts e = length h /\
  forall i, (i < length deps)%nat -> forall arm, (arm < pspace (nth i deps []) A)%nat ->
    let b := fbnode e i in let hi := map (fbproj A deps i) h in
    nth arm (b_vis b) 0%nat = length (arm_rewards hi arm) /\
    nth arm (b_avg b) 0 == mean (arm_rewards hi arm) /\
    nth arm (b_m2 b) 0 == m2 (arm_rewards hi arm).
Proof. exact fbandit_welford_exact_lemma. Qed.
Print Assumptions fbandit_welford_exact.

Example ex_fbandit_nonvacuous :
  let A := [2; 3; 2]%nat in let deps := [[0; 1]; [1; 2]]%nat in
  let ops := [FRecord [1; 2; 0]%nat [1; 4]; FReset; FRecord [1; 2; 0]%nat [3; 4]; FRecord [1; 2; 1]%nat [7; 0]] in
  forallb (fbop_ok A deps) ops = true /\ pidx [0; 1]%nat A [1; 2; 0]%nat = 5%nat /\
  nth 5 (b_avg (fbnode (fbexp_after A deps ops) 0)) 0 == 5 /\ nth 5 (b_m2 (fbnode (fbexp_after A deps ops) 0)) 0 == 8.
Proof. cbv zeta. repeat split; vm_compute; reflexivity. Qed.

(* setVisitsTable: the sums are the row sums of the table that was set *)
Theorem setVisits_sums : forall e v s a, (s < eS e)%nat -> (a < eA e)%nat ->
  NN (exp_setVisits e v) s a = nsum (nth s (nth a v []) []) /\
  (forall s1, V (exp_setVisits e v) s a s1 = nth s1 (nth s (nth a v []) []) 0%nat).
Proof. exact ProofsExp.setVisits_sums. Qed.
Print Assumptions setVisits_sums.

(* the executable (Qred-normalised) statistics used by the driver's oracle equal the spec *)
Theorem oracle_twins_sound : forall l h s a s1,
  mean_x l == mean l /\ m2_x l == m2 l /\ freq_x h s a s1 == freq h s a s1.
Proof. intros; split; [apply mean_x_eq| split; [apply m2_x_eq| apply freq_x_eq]]. Qed.
Print Assumptions oracle_twins_sound.

(* ---- core 2: full sync ------------------------------------------------------------------------ *)
(* After sync(s,a), a pair with data holds exactly the empirical frequencies and the empirical mean —
   whatever happened before (no precondition at all). *)
Theorem full_sync_is_empirical : forall fixed S A pre flag post s a, (fixed || negb flag = true) ->
  ops_in_range S A pre = true -> ops_in_range S A post = true -> (s < S)%nat -> (a < A)%nat ->
  let m := snd (run fixed S A pre flag (post ++ [OSync2 s a])) in
  let h := hist_of (pre ++ post) in
  (0 < countsum h s a)%nat ->
  row_is m a s S (fun i => freq h s a i) /\ Rm m s a == mean (rewards_of h s a).
Proof. exact full_sync2_lemma. Qed.
Print Assumptions full_sync_is_empirical.

(* … and after sync(), every pair with data does. *)
Theorem full_sync_all_is_empirical : forall fixed S A pre flag post s a, (fixed || negb flag = true) ->
  ops_in_range S A pre = true -> ops_in_range S A post = true -> (s < S)%nat -> (a < A)%nat ->
  let m := snd (run fixed S A pre flag (post ++ [OSyncAll])) in
  let h := hist_of (pre ++ post) in
  (0 < countsum h s a)%nat ->
  row_is m a s S (fun i => freq h s a i) /\ Rm m s a == mean (rewards_of h s a).
Proof. exact full_sync_all_lemma. Qed.
Print Assumptions full_sync_all_is_empirical.

Example ex_full_sync_nonvacuous :
  let pre := [ORecord 0 0 1 2; ORecord 0 0 1 4; ORecord 0 0 0 0] in
  ops_in_range 2 1 pre = true /\ countsum (hist_of (pre ++ [])) 0 0 = 3%nat /\
  T (snd (run true 2 1 pre false [OSync2 0 0])) 0 0 1 = XFin (2 # 3) /\
  Rm (snd (run true 2 1 pre false [OSync2 0 0])) 0 0 == 2.
Proof. cbv zeta. repeat split; vm_compute; reflexivity. Qed.

(* ---- core 3: incremental sync ----------------------------------------------------------------- *)
(* If the op sequence respects the documented precondition of sync(s,a,s1) (boolean [precond_ok]:
   every incremental sync was preceded by exactly one new record (s,a,s1) since that row was last in
   step with the experience — untouched identity row or empirical row —, or fell on the forced
   resync visitSum % 10000 == 0), then after a final sync(s,a,s1) the row is the empirical
   distribution n_i/N and the reward the empirical mean.  Covers the first-visit special case and the
   forced resync; no bound on the history length. *)
Theorem incremental_sync_invariant : forall fixed S A pre flag post s a s1, (fixed || negb flag = true) ->
  ops_in_range S A pre = true -> ops_in_range S A post = true -> (s < S)%nat -> (a < A)%nat -> (s1 < S)%nat ->
  precond_ok S A pre flag (post ++ [OSync3 s a s1]) = true ->
  let m := snd (run fixed S A pre flag (post ++ [OSync3 s a s1])) in
  let h := hist_of (pre ++ post) in
  (0 < countsum h s a)%nat ->
  row_is m a s S (fun i => freq h s a i) /\ Rm m s a == mean (rewards_of h s a).
Proof. exact incremental_sync_lemma. Qed.
Print Assumptions incremental_sync_invariant.

(* the single-step algebra behind it: row = (n - e_{s1})/(N-1)  ==>  row = n/N *)
Theorem incremental_sync_step : forall e m s a s1, ml_wf (eS e) (eA e) m ->
  (s < eS e)%nat -> (a < eA e)%nat -> (s1 < eS e)%nat ->
  (NN e s a mod resync_period =? 0)%nat = false -> (2 <= NN e s a)%nat ->
  row_is m a s (eS e) (fun i => (inj (V e s a i) - delta i s1) / inj (NN e s a - 1)) ->
  row_is (ml_sync3 e m s a s1) a s (eS e) (fun i => inj (V e s a i) / inj (NN e s a)) /\
  Rm (ml_sync3 e m s a s1) s a = Rw e s a.
Proof. exact sync3_incr. Qed.
Print Assumptions incremental_sync_step.

Example ex_incremental_nonvacuous :
  let post := [ORecord 0 0 1 2; OSync3 0 0 1; ORecord 0 0 0 4; OSync3 0 0 0; ORecord 0 0 1 (-1#2)] in
  ops_in_range 2 1 post = true /\ precond_ok 2 1 [] true (post ++ [OSync3 0 0 1]) = true /\
  countsum (hist_of ([] ++ post)) 0 0 = 3%nat /\
  T (snd (run true 2 1 [] true (post ++ [OSync3 0 0 1]))) 0 0 1 = XFin (2 # 3).
Proof. cbv zeta. repeat split; vm_compute; reflexivity. Qed.

(* the precondition matters: one record skipped and the incremental form is no longer empirical *)
Example ex_incremental_needs_precondition :
  let post := [ORecord 0 0 1 2; OSync3 0 0 1; ORecord 0 0 0 4; ORecord 0 0 0 4] in
  precond_ok 2 1 [] false (post ++ [OSync3 0 0 0]) = false /\
  T (snd (run true 2 1 [] false (post ++ [OSync3 0 0 0]))) 0 0 0 = XFin (1 # 2) /\
  freq (hist_of post) 0 0 0 == 2 # 3.
Proof. cbv zeta. repeat split; vm_compute; reflexivity. Qed.

(* ---- all interleavings at once ---------------------------------------------------------------- *)
(* For EVERY op sequence (no precondition): each row the tracker classifies RSynced is the empirical
   distribution, with the empirical mean as reward.  (An off-precondition incremental sync only
   declassifies its own row, until the next full sync of that pair.) *)
Theorem ml_model_is_empirical : forall fixed S A pre flag post, (fixed || negb flag = true) ->
  ops_in_range S A pre = true -> ops_in_range S A post = true ->
  let m := snd (run fixed S A pre flag post) in
  let h := hist_of (pre ++ post) in
  forall s a, (s < S)%nat -> (a < A)%nat -> tSt (track S A pre flag post) s a = RSynced ->
    (0 < countsum h s a)%nat /\ row_is m a s S (fun i => freq h s a i) /\ Rm m s a == mean (rewards_of h s a).
Proof. exact ml_model_is_empirical_lemma. Qed.
Print Assumptions ml_model_is_empirical.

(* ---- core 4: unvisited pairs ------------------------------------------------------------------ *)
(* A pair never recorded anywhere in the sequence keeps the fixed default: self-loop, zero reward —
   for the repaired constructor (either flag) and for the unrepaired one with sync = false. *)
Theorem unvisited_default : forall fixed S A pre flag post s a, (fixed || negb flag = true) ->
  ops_in_range S A pre = true -> ops_in_range S A post = true -> (s < S)%nat -> (a < A)%nat ->
  never_visited (pre ++ post) s a = true ->
  let m := snd (run fixed S A pre flag post) in
  row_is m a s S (fun i => delta i s) /\ Rm m s a = 0.
Proof. exact unvisited_default_lemma. Qed.
Print Assumptions unvisited_default.

Example ex_unvisited_nonvacuous :
  never_visited ([ORecord 0 0 1 1] ++ [OSyncAll; OSync3 1 0 0]) 1 0 = true /\
  T (snd (run true 2 1 [ORecord 0 0 1 1] true [OSyncAll; OSync3 1 0 0])) 0 1 0 = XFin 0 /\
  T (snd (run true 2 1 [ORecord 0 0 1 1] true [OSyncAll; OSync3 1 0 0])) 0 1 1 = XFin 1.
Proof. repeat split; vm_compute; reflexivity. Qed.

(* The constructor as it stands in /repo (fixed = false) with sync = true violates it: the
   off-diagonal cells of a never-visited row are never written (DESIGN §6; reproduced on the real
   code, see known_findings.d/C07.json and fixes/C07-mlmodel-uninit.patch). *)
Theorem unvisited_default_refuted :
  exists S A pre s a i, ops_in_range S A pre = true /\ never_visited pre s a = true /\ (i < S)%nat /\
    T (snd (run false S A pre true [])) a s i = XIndet.
Proof. exact unvisited_default_refuted_lemma. Qed.
Print Assumptions unvisited_default_refuted.

(* ---- stretch ---------------------------------------------------------------------------------- *)
(* Thompson models: any positive gamma draws divided by their sum are a probability distribution *)
Theorem thompson_rows_valid : forall g, g <> [] -> Forall (fun x => 0 < x) g ->
  is_dist (thompson_row g) /\ length (thompson_row g) = length g.
Proof. exact thompson_rows_valid_lemma. Qed.
Print Assumptions thompson_rows_valid.

Example ex_thompson_nonvacuous : Forall2 Qeq (thompson_row [1#2; 3; 1#4]) [2#15; 4#5; 1#15] /\
  Forall (fun x => 0 < x) [1#2; 3; 1#4].
Proof. split; repeat constructor. Qed.

(* ---- SparseMaximumLikelihoodModel (positive theorems) ------------------------------------------- *)
(* [srun fx eg …]: the sparse model over an Eigen experience such as SparseExperience ([eg = true]) or over
   a non-Eigen experience with the repaired loop ([fx = true], fixes/C07-sparse-noneigen-stale.patch, now
   in /repo).  [rclose x y]: |x − y| <= 1e-6 — the sparse model overwrites a reward only when it differs
   by more than 1e-6 (checkDifferentSmall), so its rewards track the mean within that bound, not exactly.

   Simulation: for every op sequence (no precondition) and either flag, wherever the repaired dense model
   holds a finite cell the sparse model holds an equal one, and the rewards differ by at most 1e-6. *)
Theorem sparse_simulates_dense : forall fx eg S A pre flag post, (fx || eg = true) ->
  ops_in_range S A pre = true -> ops_in_range S A post = true ->
  let md := snd (run true S A pre flag post) in let ms := snd (srun fx eg S A pre flag post) in
  (forall a s i, (a < A)%nat -> (s < S)%nat -> (i < S)%nat -> forall q, T md a s i = XFin q -> Ts ms a s i == q) /\
  (forall s a, (s < S)%nat -> (a < A)%nat -> rclose (Rs ms s a) (Rm md s a)).
Proof. exact sparse_simulates_dense_lemma. Qed.
Print Assumptions sparse_simulates_dense.

(* every row the tracker classifies RSynced is the empirical distribution; reward within 1e-6 of the mean *)
Theorem sparse_ml_model_is_empirical : forall fx eg S A pre flag post, (fx || eg = true) ->
  ops_in_range S A pre = true -> ops_in_range S A post = true ->
  let m := snd (srun fx eg S A pre flag post) in
  let h := hist_of (pre ++ post) in
  forall s a, (s < S)%nat -> (a < A)%nat -> tSt (track S A pre flag post) s a = RSynced ->
    (0 < countsum h s a)%nat /\ srow_is m a s S (fun i => freq h s a i) /\
    rclose (Rs m s a) (mean (rewards_of h s a)).
Proof. exact sparse_ml_model_is_empirical_lemma. Qed.
Print Assumptions sparse_ml_model_is_empirical.

Theorem sparse_full_sync_is_empirical : forall fx eg S A pre flag post s a, (fx || eg = true) ->
  ops_in_range S A pre = true -> ops_in_range S A post = true -> (s < S)%nat -> (a < A)%nat ->
  let m := snd (srun fx eg S A pre flag (post ++ [OSync2 s a])) in
  let h := hist_of (pre ++ post) in
  (0 < countsum h s a)%nat ->
  srow_is m a s S (fun i => freq h s a i) /\ rclose (Rs m s a) (mean (rewards_of h s a)).
Proof. exact sparse_full_sync_lemma. Qed.
Print Assumptions sparse_full_sync_is_empirical.

Theorem sparse_incremental_sync_invariant : forall fx eg S A pre flag post s a s1, (fx || eg = true) ->
  ops_in_range S A pre = true -> ops_in_range S A post = true -> (s < S)%nat -> (a < A)%nat -> (s1 < S)%nat ->
  precond_ok S A pre flag (post ++ [OSync3 s a s1]) = true ->
  let m := snd (srun fx eg S A pre flag (post ++ [OSync3 s a s1])) in
  let h := hist_of (pre ++ post) in
  (0 < countsum h s a)%nat ->
  srow_is m a s S (fun i => freq h s a i) /\ rclose (Rs m s a) (mean (rewards_of h s a)).
Proof. exact sparse_incremental_sync_lemma. Qed.
Print Assumptions sparse_incremental_sync_invariant.

(* never-visited pairs: identity row, reward exactly 0 *)
Theorem sparse_unvisited_default : forall fx eg S A pre flag post s a, (fx || eg = true) ->
  ops_in_range S A pre = true -> ops_in_range S A post = true -> (s < S)%nat -> (a < A)%nat ->
  never_visited (pre ++ post) s a = true ->
  let m := snd (srun fx eg S A pre flag post) in
  srow_is m a s S (fun i => delta i s) /\ Rs m s a = 0.
Proof. exact sparse_unvisited_default_lemma. Qed.
Print Assumptions sparse_unvisited_default.

Example ex_sparse_nonvacuous :
  let post := [ORecord 0 0 1 2; OSync3 0 0 1; ORecord 0 0 0 4; OSync3 0 0 0; ORecord 0 0 1 (-1#2)] in
  ops_in_range 3 1 post = true /\ precond_ok 3 1 [] true (post ++ [OSync3 0 0 1]) = true /\
  Ts (snd (srun true false 3 1 [] true (post ++ [OSync3 0 0 1]))) 0 0 1 == 2 # 3 /\
  Ts (snd (srun false true 3 1 [] false (post ++ [OSync3 0 0 1]))) 0 0 1 == 2 # 3 /\
  never_visited ([] ++ post ++ [OSync3 0 0 1]) 2 0 = true /\
  Ts (snd (srun true false 3 1 [] true (post ++ [OSync3 0 0 1]))) 0 2 2 == 1.
Proof. cbv zeta. repeat split; vm_compute; reflexivity. Qed.

(* the 1e-6 slack on rewards is real: the sparse model keeps 1 while the mean moved to 1 + 5e-7 *)
Example ex_sparse_reward_lags :
  let post := [ORecord 0 0 0 1; OSync2 0 0; ORecord 0 0 0 (1000001 # 1000000); OSync2 0 0] in
  Rs (snd (srun true true 1 1 [] false post)) 0 0 == 1 /\ mean (rewards_of (hist_of post) 0 0) == 2000001 # 2000000.
Proof. cbv zeta. split; vm_compute; reflexivity. Qed.

(* SparseMaximumLikelihoodModel::sync(s,a), non-Eigen branch, as it stands: first sync with
   visitSum = 2 keeps the identity entry — the row is (1, 1/2, 1/2); repaired loop gives 0 there
   (fixes/C07-sparse-noneigen-stale.patch) — the case [fx = false, eg = false] excluded above. *)
Theorem sparse_noneigen_stale_refuted :
  let e := exp_after 3 1 [ORecord 0 0 1 1; ORecord 0 0 2 1] in
  let m := sml_sync2 false false e (sml_ctor false false (exp_new 3 1) false) 0 0 in
  Ts m 0 0 0 == 1 /\ ~ Ts m 0 0 0 == freq [(0%nat, 0%nat, 1%nat, 1); (0%nat, 0%nat, 2%nat, 1)] 0 0 0 /\
  (let m' := sml_sync2 true false e (sml_ctor true false (exp_new 3 1) false) 0 0 in Ts m' 0 0 0 == 0).
Proof. exact sparse_noneigen_stale_refuted_lemma. Qed.
Print Assumptions sparse_noneigen_stale_refuted.
