(* Properties_C07.v — property C07: experience and learned models mirror the recorded history.
   Only statements, each closed by [exact <lemma>] and followed by Print Assumptions. *)
From Coq Require Import List Arith ZArith QArith Bool.
From AIT Require Import Base.Qx C07.Model C07.Spec C07.ProofsExp.
Import ListNotations.
Local Open Scope Q_scope.

(* After ANY in-range sequence of record / reset / sync ops, the experience reports exactly the
   visit counts, the mean and the sum of squared deviations of the rewards recorded since the last
   reset, per (s,a), and the number of records as timesteps. *)
Theorem welford_exact : forall S A ops, ops_in_range S A ops = true ->
  let e := exp_after S A ops in let h := hist_of ops in
  e_ts e = length h /\
  forall s a, (s < S)%nat -> (a < A)%nat ->
    (forall s1, (s1 < S)%nat -> V e s a s1 = count h s a s1) /\
    NN e s a = countsum h s a /\
    Rw e s a == mean (rewards_of h s a) /\
    M2 e s a == m2 (rewards_of h s a).
Proof. exact welford_exact_lemma. Qed.
Print Assumptions welford_exact.

Example ex_welford_nonvacuous :
  let ops := [ORecord 0 1 1 (3#2); ORecord 0 1 0 (-1#1); OSync2 0 1; ORecord 0 1 1 (5#1)] in
  ops_in_range 2 2 ops = true /\ NN (exp_after 2 2 ops) 0 1 = 3%nat /\
  Rw (exp_after 2 2 ops) 0 1 == 11 # 6 /\ V (exp_after 2 2 ops) 0 1 1 = 2%nat.
Proof. cbv zeta. repeat split; vm_compute; reflexivity. Qed.
