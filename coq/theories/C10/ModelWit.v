(* C10/ModelWit.v — checked-access version of the Witness agenda loop (POMDP::Witness::operator(),
   addDefaultEntry, addVariations) and of crossSumBestAtBelief's row form.  The value-level model is
   C02/ModelWitness.v (reads through [nth … default]); here every operator[] / iterator dereference of
   the C++ is a checked access of C10/Model.v ([UB] when out of range).  No proofs in this file. *)
From Coq Require Import List Arith QArith Bool.
From AIT Require Import Base.Qx Base.Mdp Base.MdpExec C02.Model C02.Spec C04.Model C02.ModelWitness.
From AIT Require C10.Model.
Import ListNotations.
Local Open Scope Q_scope.

Module M10 := AIT.C10.Model.
Notation "'do' x <- r ; k" := (M10.bind r (fun x => k)) (at level 200, x name, r at level 100, k at level 200).

(* src: POMDP/Utils.hpp:crossSumBestAtBelief(b, row, outp, value), the loop over o:
     bestMatch = findBestAtPoint(b, begin(r), end(r))  — dereferences begin: an empty r is UB;
     out.observations[o] = bestMatch->observations[0]  — unchecked
   returns (entry, link) per observation *)
Fixpoint picks_chk (b : vec) (row : list vlist) : M10.res (list (ventry * nat)) :=
  match row with
  | [] => M10.Ok []
  | r :: t =>
    do e <- M10.rd r (best_index r b);
    do l <- M10.rd (obs e) 0%nat;
    do rest <- picks_chk b t;
    M10.Ok ((e, l) :: rest)
  end.

Definition csbb_row_chk (b : vec) (row : list vlist) (a : nat) (S : nat) : M10.res ventry :=
  do picks <- picks_chk b row;
  M10.Ok {| vals := fold_left (fun acc e => vred (vadd acc (vals e))) (map fst picks) (vzero S);
            act := a;
            obs := map snd picks |}.

(* src: Witness::addDefaultEntry — v += projs[o][0].values for every o *)
Fixpoint firsts_chk (row : list vlist) : M10.res (list ventry) :=
  match row with
  | [] => M10.Ok []
  | r :: t => do e <- M10.rd r 0%nat; do rest <- firsts_chk t; M10.Ok (e :: rest)
  end.
Definition default_item_chk (row : list vlist) (S : nat) : M10.res item :=
  do fs <- firsts_chk row;
  M10.Ok (repeat 0%nat (length row), fold_left (fun acc e => vred (vadd acc (vals e))) fs (vzero S)).

(* src: Witness::addVariations, one iteration of the inner loop at (o, i):
     skip = vObs[o];  projs[o];  projs[o][skip].values;  projs[o][i].values *)
Definition var_one_chk (row : list vlist) (e : ventry) (st : list item * list choice) (p : nat * nat)
  : M10.res (list item * list choice) :=
  let '(o, i) := p in
  let '(ag, tr) := st in
  do r <- M10.rd row o;
  do skip <- M10.rd (obs e) o;
  if Nat.eqb i skip then M10.Ok st else
  let c := set_nth o i (obs e) in
  if in_tried c tr then M10.Ok st else
  do es <- M10.rd r skip;
  do ei <- M10.rd r i;
  M10.Ok ((c, vred (vadd (vsub (vals e) (vals es)) (vals ei))) :: ag, c :: tr).

Fixpoint vars_chk (row : list vlist) (e : ventry) (ps : list (nat * nat)) (st : list item * list choice)
  : M10.res (list item * list choice) :=
  match ps with
  | [] => M10.Ok st
  | p :: t => do st' <- var_one_chk row e st p; vars_chk row e t st'
  end.
Definition variations_chk (row : list vlist) (e : ventry) (st : list item * list choice) :=
  vars_chk row e (var_pairs row) st.

Section WitnessChk.
  Variable oracle : nat -> nat -> list vec -> vec -> option vec.

  (* src: Witness::operator(), the while ( !agenda_.empty() ) loop for one action *)
  Fixpoint wit_loop_chk (fuel : nat) (t a S : nat) (row : list vlist) (U : vlist) (ag : list item) (tr : list choice)
    : M10.res vlist :=
    match ag with
    | [] => M10.Ok U
    | (c, cand) :: rest =>
      match fuel with
      | O => M10.Fuel
      | Datatypes.S f =>
        match oracle t a (valsof U) cand with
        | Some b =>
          do e <- csbb_row_chk b row a S;
          do st' <- variations_chk row e (ag, tr);
          wit_loop_chk f t a S row (U ++ [e]) (fst st') (snd st')
        | None => wit_loop_chk f t a S row U rest tr
        end
      end
    end.

  Definition wit_action_chk (fuel t a S : nat) (row : list vlist) : M10.res vlist :=
    do d <- default_item_chk row S;
    wit_loop_chk fuel t a S row [] [d] [fst d].
End WitnessChk.
