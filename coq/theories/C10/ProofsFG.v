(* C10/ProofsFG.v — FactorGraph adjacency bookkeeping (C10/ModelFG.v): the representation invariant
   and the theorem that no admissible history of getFactor / erase reaches UB (or runs out of fuel). *)
From Coq Require Import List Arith Bool Lia Sorted Permutation.
From AIT Require Import C10.Model C10.Proofs C10.ModelFG.
Import ListNotations.
Local Open Scope nat_scope.

(* ---- generic list facts -------------------------------------------------------------------- *)
Lemma nth_set_nth_eq : forall (A : Type) (l : list A) i x d, i < length l -> nth i (set_nth l i x) d = x.
Proof. induction l as [|h t IH]; intros [|i] x d H; cbn in *; try lia; auto. apply IH. lia. Qed.

Lemma nth_set_nth_neq : forall (A : Type) (l : list A) i j x d, i <> j -> nth j (set_nth l i x) d = nth j l d.
Proof.
  induction l as [|h t IH]; intros [|i] [|j] x d H; cbn; auto; try lia.
Qed.

Lemma firstn_len_app : forall (A : Type) (l l' : list A), firstn (length l) (l ++ l') = l.
Proof. induction l; intros; cbn; [reflexivity|]. f_equal. auto. Qed.

Lemma skipn_len_app : forall (A : Type) (l l' : list A), skipn (length l) (l ++ l') = l'.
Proof. induction l; intros; cbn; auto. Qed.

Lemma rd_app_mid : forall (A : Type) (pre suf : list A) x, rd (pre ++ x :: suf) (length pre) = Ok x.
Proof. intros. unfold rd. rewrite nth_error_app2 by lia. rewrite Nat.sub_diag. reflexivity. Qed.

Lemma NoDup_app_iff : forall (A : Type) (l1 l2 : list A),
  NoDup (l1 ++ l2) <-> NoDup l1 /\ NoDup l2 /\ (forall x, In x l1 -> ~ In x l2).
Proof.
  induction l1 as [|h t IH]; intros l2; cbn.
  - split; [intros H; repeat split; auto; constructor | tauto].
  - split.
    + intros H. inversion H as [|? ? Hn Hd]; subst. apply IH in Hd. destruct Hd as [H1 [H2 H3]].
      repeat split; auto.
      * constructor; auto. intros Hi. apply Hn. apply in_or_app. auto.
      * intros x [Hx|Hx] Hx2; [subst; apply Hn; apply in_or_app; auto | eapply H3; eauto].
    + intros [H1 [H2 H3]]. inversion H1 as [|? ? Hn Hd]; subst. constructor.
      * intros Hi. apply in_app_or in Hi. destruct Hi as [Hi|Hi]; [auto | eapply H3; eauto].
      * apply IH. repeat split; auto.
Qed.

(* ---- variableAdjacencies_[v] with a default -------------------------------------------------- *)
Definition vdef : vnode := mkV [] [] false.
Definition vat (adj : list vnode) (v : nat) : vnode := nth v adj vdef.

Lemma rd_vat : forall adj v, v < length adj -> rd adj v = Ok (vat adj v).
Proof. intros adj v H. unfold rd, vat. rewrite (nth_error_nth' adj vdef H). reflexivity. Qed.

Lemma vat_out : forall adj v, length adj <= v -> vat adj v = vdef.
Proof. intros. unfold vat. apply nth_overflow. assumption. Qed.

Lemma vat_set_eq : forall adj a x, a < length adj -> vat (set_nth adj a x) a = x.
Proof. intros. unfold vat. apply nth_set_nth_eq. assumption. Qed.

Lemma vat_set_neq : forall adj a x v, v <> a -> vat (set_nth adj a x) v = vat adj v.
Proof. intros. unfold vat. apply nth_set_nth_neq. auto. Qed.

Lemma vf_in_lt : forall adj v id, In id (vfactors (vat adj v)) -> v < length adj.
Proof.
  intros adj v id H. destruct (Nat.lt_ge_cases v (length adj)) as [|Hge]; auto.
  rewrite (vat_out _ _ Hge) in H. destruct H.
Qed.

Lemma vn_in_lt : forall adj v b, In b (vneigh (vat adj v)) -> v < length adj.
Proof.
  intros adj v b H. destruct (Nat.lt_ge_cases v (length adj)) as [|Hge]; auto.
  rewrite (vat_out _ _ Hge) in H. destruct H.
Qed.

Definition nactive (adj : list vnode) : nat := length (filter vactive adj).

Lemma nactive_ext : forall adj adj', length adj' = length adj ->
  (forall v, vactive (vat adj' v) = vactive (vat adj v)) -> nactive adj' = nactive adj.
Proof.
  unfold nactive. induction adj as [|x t IH]; intros [|x' t'] HL HV; cbn in HL; try lia; auto.
  cbn [filter]. assert (E : vactive x' = vactive x) by (apply (HV 0)). rewrite E.
  assert (IHt : length (filter vactive t') = length (filter vactive t)).
  { apply IH; [lia|]. intros v. apply (HV (S v)). }
  destruct (vactive x); cbn [length]; rewrite IHt; reflexivity.
Qed.

Lemma nactive_clear : forall adj a x, vactive (vat adj a) = true -> vactive x = false ->
  S (nactive (set_nth adj a x)) = nactive adj.
Proof.
  unfold nactive, vat. induction adj as [|h t IH]; intros [|a] x Ha Hx; cbn in Ha; try discriminate.
  - cbn [set_nth filter]. rewrite Ha, Hx. reflexivity.
  - cbn [set_nth filter]. destruct (vactive h); cbn [length]; rewrite (IH a x Ha Hx); reflexivity.
Qed.

(* ---- strictly increasing lists ---------------------------------------------------------------- *)
Notation ss := (StronglySorted lt).

Lemma ss_NoDup : forall l, ss l -> NoDup l.
Proof.
  induction l as [|h t IH]; intros H; [constructor|].
  inversion H as [|? ? Hs Hf]; subst. constructor; auto.
  intros Hi. rewrite Forall_forall in Hf. specialize (Hf _ Hi). lia.
Qed.

Lemma ss_filter : forall f l, ss l -> ss (filter f l).
Proof.
  induction l as [|h t IH]; intros H; cbn; [constructor|].
  inversion H as [|? ? Hs Hf]; subst. destruct (f h); auto.
  constructor; auto. rewrite Forall_forall in *. intros x Hx. apply filter_In in Hx. apply Hf. tauto.
Qed.

Lemma ss_app_inv : forall l1 l2, ss (l1 ++ l2) ->
  ss l1 /\ ss l2 /\ (forall x y, In x l1 -> In y l2 -> x < y).
Proof.
  induction l1 as [|h t IH]; intros l2 H; cbn in *.
  - repeat split; auto. constructor. intros x y [].
  - inversion H as [|? ? Hs Hf]; subst. destruct (IH _ Hs) as [H1 [H2 H3]].
    rewrite Forall_forall in Hf. repeat split; auto.
    + constructor; auto. rewrite Forall_forall. intros x Hx. apply Hf. apply in_or_app. auto.
    + intros x y [Hx|Hx] Hy; [subst; apply Hf; apply in_or_app; auto | auto].
Qed.

Lemma ss_remove_at : forall l i, ss l -> ss (remove_at l i).
Proof.
  induction l as [|h t IH]; intros [|i] H; cbn; auto; inversion H as [|? ? Hs Hf]; subst; auto.
  constructor; auto. rewrite Forall_forall in *. intros x Hx. apply Hf.
  clear - Hx. revert i Hx. induction t as [|h' t' IH']; intros [|i] Hx; cbn in *; auto.
  destruct Hx as [Hx|Hx]; eauto.
Qed.

Lemma strict_incb_ss : forall l, fg_strict_incb l = true -> ss l.
Proof.
  induction l as [|x t IH]; intros H; [constructor|].
  destruct t as [|y t']; [constructor; constructor|].
  cbn [fg_strict_incb] in H. apply andb_prop in H. destruct H as [Hxy Ht].
  apply Nat.ltb_lt in Hxy. specialize (IH Ht). constructor; auto.
  inversion IH as [|? ? Hs Hf]; subst. constructor; auto.
  rewrite Forall_forall in *. intros z Hz. specialize (Hf _ Hz). lia.
Qed.

Lemma ss_sortedb : forall l, ss l -> fg_sortedb l = true.
Proof.
  induction l as [|x t IH]; intros H; [reflexivity|]. destruct t as [|y t']; [reflexivity|].
  inversion H as [|? ? Hs Hf]; subst.
  change (fg_sortedb (x :: y :: t')) with ((x <=? y) && fg_sortedb (y :: t')). rewrite (IH Hs), andb_true_r.
  apply Nat.leb_le. inversion Hf; subst. lia.
Qed.

(* ---- remove the first occurrence: v.erase(std::find(begin, end, x)) ---------------------------- *)
Definition rm (x : nat) (l : list nat) : list nat := remove_at l (fg_find_idx x l).

Lemma find_idx_lt : forall x l, In x l -> fg_find_idx x l < length l.
Proof.
  induction l as [|h t IH]; intros H; [destruct H|]. cbn. destruct (Nat.eqb h x) eqn:E; [lia|].
  apply Nat.eqb_neq in E. destruct H as [H|H]; [congruence|]. specialize (IH H). lia.
Qed.

Lemma rm_cons : forall x h t, rm x (h :: t) = if Nat.eqb h x then t else h :: rm x t.
Proof. intros. unfold rm. cbn. destruct (Nat.eqb h x); reflexivity. Qed.

Lemma rm_subset : forall x l y, In y (rm x l) -> In y l.
Proof.
  induction l as [|h t IH]; intros y H; [exact H|]. rewrite rm_cons in H.
  destruct (Nat.eqb h x); cbn in *; [auto|]. destruct H; auto.
Qed.

Lemma rm_keeps : forall x l y, y <> x -> In y l -> In y (rm x l).
Proof.
  induction l as [|h t IH]; intros y Hn H; [exact H|]. rewrite rm_cons.
  destruct (Nat.eqb h x) eqn:E.
  - apply Nat.eqb_eq in E. destruct H; [congruence|auto].
  - destruct H; [left; auto | right; auto].
Qed.

Lemma rm_NoDup : forall x l, NoDup l -> NoDup (rm x l) /\ ~ In x (rm x l).
Proof.
  induction l as [|h t IH]; intros H; [split; [constructor|intros []]|].
  inversion H as [|? ? Hn Hd]; subst. rewrite rm_cons. destruct (Nat.eqb h x) eqn:E.
  - apply Nat.eqb_eq in E. subst. auto.
  - apply Nat.eqb_neq in E. destruct (IH Hd) as [H1 H2]. split.
    + constructor; auto. intros Hi. apply Hn. eapply rm_subset; eauto.
    + intros [Hi|Hi]; auto.
Qed.

Lemma ss_rm : forall x l, ss l -> ss (rm x l).
Proof. intros. unfold rm. apply ss_remove_at. assumption. Qed.

Lemma erase_find_ok : forall x l, In x l -> erase_at l (fg_find_idx x l) = Ok (rm x l).
Proof. intros. apply erase_at_ok. apply find_idx_lt. assumption. Qed.

(* ---- std::inplace_merge ----------------------------------------------------------------------- *)
Lemma fg_merge_nil_l : forall l, fg_merge [] l = l.
Proof. destruct l; reflexivity. Qed.
Lemma fg_merge_nil_r : forall l, fg_merge l [] = l.
Proof. destruct l; reflexivity. Qed.
Lemma fg_merge_cons : forall a1 t1 a2 t2,
  fg_merge (a1 :: t1) (a2 :: t2) = if a2 <? a1 then a2 :: fg_merge (a1 :: t1) t2 else a1 :: fg_merge t1 (a2 :: t2).
Proof. reflexivity. Qed.

Lemma In_merge : forall l1 l2 x, In x (fg_merge l1 l2) <-> In x l1 \/ In x l2.
Proof.
  induction l1 as [|a1 t1 IH1]; intros l2 x.
  - rewrite fg_merge_nil_l. cbn. tauto.
  - induction l2 as [|a2 t2 IH2].
    + rewrite fg_merge_nil_r. cbn. tauto.
    + rewrite fg_merge_cons. destruct (a2 <? a1).
      * cbn [In]. rewrite IH2. cbn [In]. tauto.
      * cbn [In]. rewrite IH1. cbn [In]. tauto.
Qed.

Lemma ss_merge : forall l1 l2, ss l1 -> ss l2 -> (forall x, In x l1 -> In x l2 -> False) -> ss (fg_merge l1 l2).
Proof.
  induction l1 as [|a1 t1 IH1]; intros l2 H1 H2 HD.
  - rewrite fg_merge_nil_l. exact H2.
  - induction l2 as [|a2 t2 IH2].
    + rewrite fg_merge_nil_r. exact H1.
    + rewrite fg_merge_cons.
      inversion H1 as [|? ? Hs1 Hf1]; subst. inversion H2 as [|? ? Hs2 Hf2]; subst.
      rewrite Forall_forall in Hf1, Hf2.
      destruct (a2 <? a1) eqn:E.
      * apply Nat.ltb_lt in E. constructor.
        -- apply IH2; auto. intros x Hx1 Hx2. apply (HD x Hx1). right. exact Hx2.
        -- rewrite Forall_forall. intros x Hx. apply In_merge in Hx. destruct Hx as [[Hx|Hx]|Hx].
           ++ subst. exact E.
           ++ specialize (Hf1 _ Hx). lia.
           ++ auto.
      * apply Nat.ltb_ge in E.
        assert (Hne : a1 <> a2) by (intros ->; apply (HD a2); left; reflexivity).
        constructor.
        -- apply IH1; auto. intros x Hx1 Hx2. apply (HD x); [right; exact Hx1 | exact Hx2].
        -- rewrite Forall_forall. intros x Hx. apply In_merge in Hx. destruct Hx as [Hx|[Hx|Hx]].
           ++ auto.
           ++ subst. lia.
           ++ specialize (Hf2 _ Hx). lia.
Qed.

(* ---- getFactor: the neighbour-merge loop -------------------------------------------------------- *)
(* the elements of [variables] the loop appends: all but [a] and those already in vNeighbors *)
Definition keep (a : nat) (vn0 : list nat) (x : nat) : bool :=
  negb (Nat.eqb x a) && negb (existsb (Nat.eqb x) vn0).

Lemma keep_true : forall a vn0 x, keep a vn0 x = true <-> x <> a /\ ~ In x vn0.
Proof.
  intros. unfold keep. rewrite andb_true_iff, !negb_true_iff, Nat.eqb_neq.
  split; intros [H1 H2]; split; auto.
  - intros Hi. assert (existsb (Nat.eqb x) vn0 = true) by (apply existsb_exists; exists x; split; auto; apply Nat.eqb_refl). congruence.
  - destruct (existsb (Nat.eqb x) vn0) eqn:E; auto. apply existsb_exists in E. destruct E as [y [Hy Hxy]].
    apply Nat.eqb_eq in Hxy. subst. contradiction.
Qed.

Lemma keep_false : forall a vn0 x, x = a \/ In x vn0 -> keep a vn0 x = false.
Proof.
  intros a vn0 x H. destruct (keep a vn0 x) eqn:E; auto. apply keep_true in E. destruct E. destruct H; contradiction.
Qed.

Lemma ss_cons_inv : forall h t, ss (h :: t) -> ss t /\ (forall y, In y t -> h < y).
Proof. intros h t H. inversion H as [|? ? Hs Hf]; subst. rewrite Forall_forall in Hf. auto. Qed.

Lemma merge_loop_ok : forall fuel a vn0 P pre suf npre nsuf,
  vn0 = npre ++ nsuf -> ss (pre ++ suf) -> ss vn0 ->
  (forall x y, In x npre -> In y suf -> x < y) ->
  length suf + length nsuf < fuel ->
  fg_merge_loop fuel a (pre ++ suf) (length vn0) (vn0 ++ P) (length pre) (length npre)
  = Ok (vn0 ++ P ++ filter (keep a vn0) suf).
Proof.
  induction fuel as [|f IH]; intros a vn0 P pre suf npre nsuf Hvn Hsv Hsn Hcross Hfuel; [lia|].
  cbn [fg_merge_loop].
  destruct suf as [|vi suf'].
  - rewrite app_nil_r, Nat.ltb_irrefl. cbn [filter]. rewrite app_nil_r. reflexivity.
  - assert (Hlt : (length pre <? length (pre ++ vi :: suf')) = true).
    { apply Nat.ltb_lt. rewrite app_length. cbn. lia. }
    rewrite Hlt. rewrite rd_app_mid. cbn [bind].
    destruct (ss_app_inv _ _ Hsv) as [_ [Hs2 _]].
    destruct (ss_cons_inv _ _ Hs2) as [_ Hf2].
    assert (Hstep : forall P' npre' nsuf', vn0 = npre' ++ nsuf' ->
              (forall x y, In x npre' -> In y suf' -> x < y) -> length suf' + length nsuf' < f ->
              fg_merge_loop f a (pre ++ vi :: suf') (length vn0) (vn0 ++ P') (S (length pre)) (length npre')
              = Ok (vn0 ++ P' ++ filter (keep a vn0) suf')).
    { intros P' npre' nsuf' E1 E2 E3.
      replace (pre ++ vi :: suf') with ((pre ++ [vi]) ++ suf') by (rewrite <- app_assoc; reflexivity).
      replace (S (length pre)) with (length (pre ++ [vi])) by (rewrite app_length; cbn; lia).
      apply IH with (nsuf := nsuf'); auto.
      rewrite <- app_assoc. exact Hsv. }
    cbn [filter].
    destruct (Nat.eqb vi a) eqn:Exa.
    + apply Nat.eqb_eq in Exa. rewrite (keep_false a vn0 vi) by (left; exact Exa).
      apply Hstep with (nsuf' := nsuf); auto.
      * intros u y Hu Hy. apply Hcross; [exact Hu | right; exact Hy].
      * cbn in Hfuel. lia.
    + apply Nat.eqb_neq in Exa.
      destruct (Nat.eqb (length npre) (length vn0)) eqn:Ej.
      * (* j == mid *)
        apply Nat.eqb_eq in Ej. assert (nsuf = []).
        { rewrite Hvn, app_length in Ej. destruct nsuf; [reflexivity|cbn in Ej; lia]. }
        subst nsuf. rewrite app_nil_r in Hvn. subst npre.
        assert (Hk : keep a vn0 vi = true).
        { apply keep_true. split; auto. intros Hi. specialize (Hcross vi vi Hi (or_introl eq_refl)). lia. }
        rewrite Hk.
        replace (P ++ vi :: filter (keep a vn0) suf') with ((P ++ [vi]) ++ filter (keep a vn0) suf')
          by (rewrite <- app_assoc; reflexivity).
        rewrite <- app_assoc.
        apply Hstep with (nsuf' := []); [rewrite app_nil_r; reflexivity | | cbn in *; lia].
        intros u y Hu Hy. apply Hcross; [exact Hu | right; exact Hy].
      * apply Nat.eqb_neq in Ej.
        destruct nsuf as [|nj nsuf'].
        { rewrite app_nil_r in Hvn. subst npre. congruence. }
        assert (Hrd : rd (vn0 ++ P) (length npre) = Ok nj).
        { rewrite Hvn, <- app_assoc. cbn [app]. apply rd_app_mid. }
        rewrite Hrd. cbn [bind].
        assert (Hsn' := Hsn). rewrite Hvn in Hsn'. destruct (ss_app_inv _ _ Hsn') as [_ [Hsn2 Hnx]].
        destruct (ss_cons_inv _ _ Hsn2) as [_ Hfn].
        destruct (vi <? nj) eqn:Elt.
        -- apply Nat.ltb_lt in Elt.
           assert (Hk : keep a vn0 vi = true).
           { apply keep_true. split; auto. rewrite Hvn. intros Hi. apply in_app_or in Hi. destruct Hi as [Hi|[Hi|Hi]].
             - specialize (Hcross vi vi Hi (or_introl eq_refl)). lia.
             - lia.
             - specialize (Hfn _ Hi). lia. }
           rewrite Hk.
           replace (P ++ vi :: filter (keep a vn0) suf')
             with ((P ++ [vi]) ++ filter (keep a vn0) suf') by (rewrite <- app_assoc; reflexivity).
           rewrite <- app_assoc.
           apply Hstep with (nsuf' := nj :: nsuf'); [exact Hvn | | cbn in *; lia].
           intros u y Hu Hy. apply Hcross; [exact Hu | right; exact Hy].
        -- apply Nat.ltb_ge in Elt. destruct (Nat.eqb vi nj) eqn:Eeq.
           ++ apply Nat.eqb_eq in Eeq. subst nj.
              rewrite (keep_false a vn0 vi) by (right; rewrite Hvn; apply in_or_app; right; left; reflexivity).
              replace (S (length npre)) with (length (npre ++ [vi])) by (rewrite app_length; cbn; lia).
              apply Hstep with (nsuf' := nsuf'); [rewrite <- app_assoc; exact Hvn | | cbn in *; lia].
              intros u y Hu Hy. apply in_app_or in Hu. destruct Hu as [Hu|[Hu|[]]].
              ** apply Hcross; [exact Hu | right; exact Hy].
              ** subst u. apply Hf2. exact Hy.
           ++ apply Nat.eqb_neq in Eeq.
              replace (S (length npre)) with (length (npre ++ [nj])) by (rewrite app_length; cbn; lia).
              specialize (IH a vn0 P pre (vi :: suf') (npre ++ [nj]) nsuf').
              cbn [filter] in IH. apply IH.
              ** rewrite <- app_assoc. exact Hvn.
              ** exact Hsv.
              ** exact Hsn.
              ** intros u y Hu Hy. apply in_app_or in Hu. destruct Hu as [Hu|[Hu|[]]].
                 --- apply Hcross; [exact Hu | exact Hy].
                 --- subst u. destruct Hy as [Hy|Hy]; [subst; lia | specialize (Hf2 _ Hy); lia].
              ** cbn in *. lia.
Qed.

(* ---- getFactor: the loop over the variables of the new factor ---------------------------------- *)
Definition new_vn (a : nat) (vars vn : list nat) : list nat := fg_merge vn (filter (keep a vn) vars).
Definition gf_upd (id : nat) (vars : list nat) (a : nat) (va : vnode) : vnode :=
  mkV (vfactors va ++ [id]) (new_vn a vars (vneigh va)) (vactive va).

Lemma merge_step_ok : forall a vars vn, ss vars -> ss vn ->
  (do r <- fg_merge_loop (length vars + length vn + 1) a vars (length vn) vn 0 0; fg_inplace_merge r (length vn))
  = Ok (new_vn a vars vn).
Proof.
  intros a vars vn Hv Hn.
  pose proof (merge_loop_ok (length vars + length vn + 1) a vn [] [] vars [] vn eq_refl Hv Hn) as H.
  cbn [app length] in H. rewrite app_nil_r in H. rewrite H.
  - cbn [bind]. unfold fg_inplace_merge.
    assert (E : (length vn <=? length (vn ++ filter (keep a vn) vars)) = true)
      by (apply Nat.leb_le; rewrite app_length; lia).
    rewrite E, firstn_len_app, skipn_len_app.
    rewrite (ss_sortedb _ Hn), (ss_sortedb _ (ss_filter (keep a vn) _ Hv)). reflexivity.
  - intros x y [].
  - lia.
Qed.

Lemma gf_loop_ok : forall id vars, ss vars -> forall rest adj,
  NoDup rest -> (forall a, In a rest -> a < length adj) ->
  (forall a, In a rest -> ss (vneigh (vat adj a))) ->
  exists adj', fg_gf_loop id vars rest adj = Ok adj' /\ length adj' = length adj /\
    (forall v, In v rest -> vat adj' v = gf_upd id vars v (vat adj v)) /\
    (forall v, ~ In v rest -> vat adj' v = vat adj v).
Proof.
  intros id vars Hv. induction rest as [|a rest IH]; intros adj Hnd Hlt Hss.
  - exists adj. cbn. repeat split; auto. intros v [].
  - inversion Hnd as [|? ? Hna Hnd']; subst.
    cbn [fg_gf_loop]. rewrite rd_vat by (apply Hlt; left; reflexivity). cbn [bind].
    pose proof (merge_step_ok a vars (vneigh (vat adj a)) Hv (Hss a (or_introl eq_refl))) as Hm.
    destruct (fg_merge_loop _ a vars _ _ 0 0) as [r| |]; cbn [bind] in Hm; try discriminate.
    cbn [bind]. rewrite Hm. cbn [bind].
    rewrite wr_ok by (apply Hlt; left; reflexivity). cbn [bind].
    set (adj1 := set_nth adj a _).
    assert (Hl1 : length adj1 = length adj) by (apply set_nth_length).
    assert (Hother : forall v, v <> a -> vat adj1 v = vat adj v) by (intros; apply vat_set_neq; auto).
    destruct (IH adj1) as [adj' [E [HL [Hin Hout]]]]; auto.
    + intros b Hb. rewrite Hl1. apply Hlt. right. exact Hb.
    + intros b Hb. rewrite Hother by (intros ->; contradiction). apply Hss. right. exact Hb.
    + exists adj'. split; [exact E|]. split; [lia|]. split.
      * intros v [Hv'|Hv'].
        -- subst v. rewrite Hout by exact Hna. unfold adj1. rewrite vat_set_eq by (apply Hlt; left; reflexivity).
           reflexivity.
        -- rewrite Hin by exact Hv'. rewrite Hother by (intros ->; contradiction). reflexivity.
      * intros v Hv'. rewrite Hout by (intros Hi; apply Hv'; right; exact Hi).
        apply Hother. intros ->. apply Hv'. left. reflexivity.
Qed.

(* ---- dereferencing node identities --------------------------------------------------------------- *)
Lemma deref_ok : forall fs id vars, In (id, vars) fs -> exists vs, fg_deref fs id = Ok vs.
Proof.
  induction fs as [|[i vs] t IH]; intros id vars H; [destruct H|]. cbn.
  destruct (Nat.eqb i id) eqn:E; [eauto|]. destruct H as [H|H].
  - inversion H; subst. rewrite Nat.eqb_refl in E. discriminate.
  - eauto.
Qed.

Lemma deref_In : forall fs id vars, NoDup (map fst fs) -> In (id, vars) fs -> fg_deref fs id = Ok vars.
Proof.
  induction fs as [|[i vs] t IH]; intros id vars Hnd H; [destruct H|]. cbn in *.
  inversion Hnd as [|? ? Hn Hd]; subst. destruct H as [H|H].
  - inversion H; subst. rewrite Nat.eqb_refl. reflexivity.
  - destruct (Nat.eqb i id) eqn:E.
    + apply Nat.eqb_eq in E. subst. exfalso. apply Hn. apply (in_map fst) in H. exact H.
    + auto.
Qed.

Lemma fs_functional : forall (fs : list (nat * list nat)) id v1 v2, NoDup (map fst fs) -> In (id, v1) fs -> In (id, v2) fs -> v1 = v2.
Proof.
  intros fs id v1 v2 Hnd H1 H2. pose proof (deref_In _ _ _ Hnd H1) as E1.
  pose proof (deref_In _ _ _ Hnd H2) as E2. congruence.
Qed.

Lemma find_by_vars_ok : forall fs vars l, (forall id, In id l -> exists vs, In (id, vs) fs) ->
  exists r, fg_find_by_vars fs l vars = Ok r.
Proof.
  induction l as [|id t IH]; intros H; cbn; [eauto|].
  destruct (H id (or_introl eq_refl)) as [vs Hvs]. destruct (deref_ok _ _ _ Hvs) as [vs' E]. rewrite E. cbn [bind].
  destruct (nats_eqb vs' vars); [eauto|]. apply IH. intros. apply H. right. assumption.
Qed.

Lemma deref_all_ok : forall fs l, (forall id, In id l -> exists vs, In (id, vs) fs) ->
  exists r, fg_deref_all fs l = Ok r.
Proof.
  induction l as [|id t IH]; intros H; cbn; [eauto|].
  destruct (H id (or_introl eq_refl)) as [vs Hvs]. destruct (deref_ok _ _ _ Hvs) as [vs' E]. rewrite E. cbn [bind].
  destruct IH as [r Er]; [intros; apply H; right; assumption|]. rewrite Er. cbn [bind]. eauto.
Qed.

Lemma set_vars_last : forall fs id old vars, ~ In id (map fst fs) ->
  fg_set_vars (fs ++ [(id, old)]) id vars = Ok (fs ++ [(id, vars)]).
Proof.
  induction fs as [|[i vs] t IH]; intros id old vars H; cbn in *.
  - rewrite Nat.eqb_refl. reflexivity.
  - destruct (Nat.eqb i id) eqn:E; [apply Nat.eqb_eq in E; tauto|].
    rewrite IH by tauto. reflexivity.
Qed.

Lemma deref_inv : forall fs id vs, fg_deref fs id = Ok vs -> In (id, vs) fs.
Proof.
  induction fs as [|[i v] t IH]; intros id vs H; cbn in H; [discriminate|].
  destruct (Nat.eqb i id) eqn:E.
  - apply Nat.eqb_eq in E. inversion H; subst. left. reflexivity.
  - right. auto.
Qed.

Lemma nats_eqb_eq : forall a b, nats_eqb a b = true -> a = b.
Proof.
  induction a as [|x a IH]; intros [|y b] H; cbn in H; try discriminate; auto.
  apply andb_prop in H. destruct H as [H1 H2]. apply Nat.eqb_eq in H1. f_equal; auto.
Qed.

Lemma find_by_vars_some : forall fs vars l id, fg_find_by_vars fs l vars = Ok (Some id) -> In (id, vars) fs.
Proof.
  induction l as [|i t IH]; intros id H; cbn in H; [discriminate|].
  destruct (fg_deref fs i) as [vs| |] eqn:E; cbn [bind] in H; try discriminate.
  destruct (nats_eqb vs vars) eqn:En.
  - inversion H; subst. apply nats_eqb_eq in En. subst. apply deref_inv. exact E.
  - auto.
Qed.

(* ---- the representation invariant --------------------------------------------------------------- *)
Record fg_inv (n : nat) (st : fgstate) : Prop := mk_inv {
  inv_len : length (fg_adj st) = n;
  (* every stored iterator designates a node of factorAdjacencies_ whose variables contain the holder *)
  inv_vf_in : forall v id, In id (vfactors (vat (fg_adj st) v)) ->
                exists vars, In (id, vars) (fg_factors st) /\ In v vars;
  (* every factor is registered at each of its (pairwise distinct) variables *)
  inv_f_in : forall id vars, In (id, vars) (fg_factors st) ->
                NoDup vars /\ (forall v, In v vars -> In id (vfactors (vat (fg_adj st) v)));
  (* node identities of factorAdjacencies_ and of the pool are pairwise distinct, and below the next fresh one *)
  inv_ids : NoDup (map fst (fg_factors st) ++ fg_pool st);
  inv_next : forall id, In id (map fst (fg_factors st) ++ fg_pool st) -> id < fg_next st;
  inv_vf_nodup : forall v, NoDup (vfactors (vat (fg_adj st) v));
  (* vNeighbors: strictly increasing, irreflexive, symmetric *)
  inv_vn_ss : forall a, ss (vneigh (vat (fg_adj st) a));
  inv_vn_irr : forall a, ~ In a (vneigh (vat (fg_adj st) a));
  inv_vn_sym : forall a b, In b (vneigh (vat (fg_adj st) a)) -> In a (vneigh (vat (fg_adj st) b));
  inv_active : fg_active st = nactive (fg_adj st) }.

Lemma repeat_nth : forall (A : Type) (x d : A) n i, nth i (repeat x n) d = x \/ nth i (repeat x n) d = d.
Proof. induction n; intros [|i]; cbn; auto. Qed.

Lemma fg_init_inv : forall n, fg_inv n (fg_init n).
Proof.
  intros n.
  assert (H : forall v, vfactors (vat (fg_adj (fg_init n)) v) = [] /\ vneigh (vat (fg_adj (fg_init n)) v) = []).
  { intros v. unfold vat. cbn [fg_init fg_adj]. destruct (repeat_nth _ (mkV [] [] true) vdef n v) as [E|E]; rewrite E; auto. }
  constructor.
  - cbn. apply repeat_length.
  - intros v id Hi. rewrite (proj1 (H v)) in Hi. destruct Hi.
  - intros id vars Hi. destruct Hi.
  - cbn. constructor.
  - cbn. intros id [].
  - intros v. rewrite (proj1 (H v)). constructor.
  - intros v. rewrite (proj2 (H v)). constructor.
  - intros v. rewrite (proj2 (H v)). intros [].
  - intros v b Hb. rewrite (proj2 (H v)) in Hb. destruct Hb.
  - cbn [fg_init fg_active fg_adj]. unfold nactive. clear H.
    induction n as [|k IH]; [reflexivity|]. cbn [repeat filter vactive length]. f_equal. exact IH.
Qed.

Lemma In_new_vn : forall v vars vn x, In x (new_vn v vars vn) <-> In x vn \/ (In x vars /\ x <> v).
Proof.
  intros. unfold new_vn. rewrite In_merge, filter_In, keep_true. split.
  - intros [H|[H1 [H2 H3]]]; auto.
  - intros [H|[H1 H2]]; auto. destruct (in_dec Nat.eq_dec x vn); auto.
Qed.

Lemma ss_new_vn : forall v vars vn, ss vars -> ss vn -> ss (new_vn v vars vn).
Proof.
  intros. unfold new_vn. apply ss_merge; auto using ss_filter.
  intros x H1 H2. apply filter_In in H2. destruct H2 as [_ H2]. apply keep_true in H2. tauto.
Qed.

(* a new node [id] (fresh w.r.t. factorAdjacencies_) with variables [vars] has been linked in *)
Lemma gf_new_inv : forall n st vars id pool' next' adj',
  fg_inv n st -> ss vars -> (forall v, In v vars -> v < n) ->
  ~ In id (map fst (fg_factors st)) ->
  NoDup ((map fst (fg_factors st) ++ [id]) ++ pool') ->
  (forall x, In x ((map fst (fg_factors st) ++ [id]) ++ pool') -> x < next') ->
  length adj' = length (fg_adj st) ->
  (forall v, In v vars -> vat adj' v = gf_upd id vars v (vat (fg_adj st) v)) ->
  (forall v, ~ In v vars -> vat adj' v = vat (fg_adj st) v) ->
  fg_inv n (mkFG (fg_factors st ++ [(id, vars)]) pool' next' adj' (fg_active st)).
Proof.
  intros n st vars id pool' next' adj' I Hss Hlt Hfresh Hnd Hnext HL Hin Hout.
  destruct I as [I1 I2 I3 I4 I5 I6 I7 I8 I9 I10].
  assert (Hvf : forall v x, In x (vfactors (vat adj' v)) <->
                  In x (vfactors (vat (fg_adj st) v)) \/ (In v vars /\ x = id)).
  { intros v x. destruct (in_dec Nat.eq_dec v vars) as [Hv|Hv].
    - rewrite Hin by exact Hv. cbn [gf_upd vfactors]. rewrite in_app_iff. cbn [In]. intuition.
    - rewrite Hout by exact Hv. intuition. }
  assert (Hvn : forall v x, In x (vneigh (vat adj' v)) <->
                  In x (vneigh (vat (fg_adj st) v)) \/ (In v vars /\ In x vars /\ x <> v)).
  { intros v x. destruct (in_dec Nat.eq_dec v vars) as [Hv|Hv].
    - rewrite Hin by exact Hv. cbn [gf_upd vneigh]. rewrite In_new_vn. intuition.
    - rewrite Hout by exact Hv. intuition. }
  constructor; cbn [fg_adj fg_factors fg_pool fg_next fg_active].
  - lia.
  - intros v x Hx. apply Hvf in Hx. destruct Hx as [Hx|[Hv Hx]].
    + destruct (I2 v x Hx) as [vs [H1 H2]]. exists vs. split; auto. apply in_or_app. auto.
    + subst x. exists vars. split; auto. apply in_or_app. right. left. reflexivity.
  - intros x vs Hx. apply in_app_or in Hx. destruct Hx as [Hx|[Hx|[]]].
    + destruct (I3 x vs Hx) as [H1 H2]. split; auto. intros v Hv. apply Hvf. left. auto.
    + inversion Hx; subst. split; [apply ss_NoDup; exact Hss|]. intros v Hv. apply Hvf. right. auto.
  - rewrite map_app. exact Hnd.
  - rewrite map_app. exact Hnext.
  - intros v. destruct (in_dec Nat.eq_dec v vars) as [Hv|Hv].
    + rewrite Hin by exact Hv. cbn [gf_upd vfactors]. apply NoDup_app_iff. split; [apply I6|]. split.
      * constructor; [intros []|constructor].
      * intros x Hx [Hx2|[]]. subst x. destruct (I2 v id Hx) as [vs [H1 _]].
        apply Hfresh. apply (in_map fst) in H1. exact H1.
    + rewrite Hout by exact Hv. apply I6.
  - intros v. destruct (in_dec Nat.eq_dec v vars) as [Hv|Hv].
    + rewrite Hin by exact Hv. cbn [gf_upd vneigh]. apply ss_new_vn; auto.
    + rewrite Hout by exact Hv. apply I7.
  - intros v Hv. apply Hvn in Hv. destruct Hv as [Hv|[_ [_ Hv]]]; [eapply I8; eauto | congruence].
  - intros v b Hb. apply Hvn in Hb. apply Hvn. destruct Hb as [Hb|[H1 [H2 H3]]]; [left; auto | right; auto].
  - rewrite I10. symmetry. apply nactive_ext; auto.
    intros v. destruct (in_dec Nat.eq_dec v vars) as [Hv|Hv].
    + rewrite Hin by exact Hv. reflexivity.
    + rewrite Hout by exact Hv. reflexivity.
Qed.

Lemma getFactor_ok : forall n vars st, fg_inv n st ->
  vars <> [] -> ss vars -> Forall (fun v => v < n) vars ->
  exists st' id, fg_getFactor vars st = Ok (st', id) /\ fg_inv n st' /\ In (id, vars) (fg_factors st').
Proof.
  intros n vars st I Hne Hss Hlt. rewrite Forall_forall in Hlt.
  unfold fg_getFactor. destruct vars as [|v0 vt] eqn:Ev; [congruence|]. rewrite <- Ev in *.
  assert (E0 : rd vars 0 = Ok v0) by (rewrite Ev; reflexivity). rewrite E0. cbn [bind].
  assert (Hv0 : v0 < length (fg_adj st)).
  { rewrite (inv_len _ _ I). apply Hlt. rewrite Ev. left. reflexivity. }
  rewrite rd_vat by exact Hv0. cbn [bind].
  destruct (find_by_vars_ok (fg_factors st) vars (vfactors (vat (fg_adj st) v0))) as [r Er].
  { intros id Hid. destruct (inv_vf_in _ _ I _ _ Hid) as [vs [H1 _]]. eauto. }
  rewrite Er. cbn [bind]. destruct r as [id|].
  - exists st, id. split; [reflexivity|]. split; [exact I|]. eapply find_by_vars_some; eauto.
  - assert (Hloop : exists adj', fg_gf_loop
              (match fg_pool st with [] => fg_next st | p :: _ => p end) vars vars (fg_adj st) = Ok adj' /\
              length adj' = length (fg_adj st) /\
              (forall v, In v vars -> vat adj' v = gf_upd (match fg_pool st with [] => fg_next st | p :: _ => p end) vars v (vat (fg_adj st) v)) /\
              (forall v, ~ In v vars -> vat adj' v = vat (fg_adj st) v)).
    { apply gf_loop_ok; auto.
      - apply ss_NoDup. exact Hss.
      - intros a Ha. rewrite (inv_len _ _ I). auto.
      - intros a _. apply (inv_vn_ss _ _ I). }
    destruct Hloop as [adj' [El [HL [Hin Hout]]]].
    pose proof (inv_ids _ _ I) as Hids. pose proof (inv_next _ _ I) as Hnx.
    destruct (fg_pool st) as [|p pool'] eqn:Ep.
    + (* a new node *)
      rewrite app_nil_r in Hids, Hnx.
      assert (Hfresh : ~ In (fg_next st) (map fst (fg_factors st))).
      { intros Hi. specialize (Hnx _ Hi). lia. }
      rewrite set_vars_last by exact Hfresh. cbn [bind]. rewrite El. cbn [bind].
      eexists. eexists. split; [reflexivity|]. split.
      * apply gf_new_inv; auto.
        -- rewrite app_nil_r. apply NoDup_app_iff. split; [exact Hids|]. split.
           ++ constructor; [intros []|constructor].
           ++ intros x Hx [Hx2|[]]. subst. contradiction.
        -- intros x Hx. rewrite app_nil_r in Hx. apply in_app_or in Hx. destruct Hx as [Hx|[Hx|[]]].
           ++ specialize (Hnx _ Hx). lia.
           ++ subst. lia.
      * cbn [fg_factors]. apply in_or_app. right. left. reflexivity.
    + (* a node of the pool *)
      assert (Hfresh : ~ In p (map fst (fg_factors st))).
      { apply NoDup_app_iff in Hids. destruct Hids as [_ [_ Hd]]. intros Hi. apply (Hd _ Hi). left. reflexivity. }
      rewrite set_vars_last by exact Hfresh. cbn [bind]. rewrite El. cbn [bind].
      eexists. eexists. split; [reflexivity|]. split.
      * apply gf_new_inv; auto.
        -- rewrite <- app_assoc. exact Hids.
        -- intros x Hx. rewrite <- app_assoc in Hx. auto.
      * cbn [fg_factors]. apply in_or_app. right. left. reflexivity.
Qed.

(* ---- erase: the loops ------------------------------------------------------------------------------ *)
Lemma er_inner_ok : forall a id vars adj, NoDup vars ->
  (forall v, In v vars -> v <> a -> In id (vfactors (vat adj v))) ->
  exists adj', fg_er_inner a id vars adj = Ok adj' /\ length adj' = length adj /\
   (forall v, vneigh (vat adj' v) = vneigh (vat adj v) /\ vactive (vat adj' v) = vactive (vat adj v)) /\
   (forall v, In v vars -> v <> a -> vfactors (vat adj' v) = rm id (vfactors (vat adj v))) /\
   (forall v, (~ In v vars \/ v = a) -> vfactors (vat adj' v) = vfactors (vat adj v)).
Proof.
  intros a id. induction vars as [|w t IH]; intros adj Hnd Hreg.
  - exists adj. cbn. repeat split; auto. intros v [].
  - inversion Hnd as [|? ? Hnw Hnd']; subst. cbn [fg_er_inner].
    destruct (Nat.eqb w a) eqn:Ewa.
    + apply Nat.eqb_eq in Ewa. subst w.
      destruct (IH adj Hnd') as [adj' [E [HL [Hsame [Hin Hout]]]]].
      { intros v Hv Hva. apply Hreg; auto. right. exact Hv. }
      exists adj'. split; [exact E|]. split; [exact HL|]. split; [exact Hsame|]. split.
      * intros v [Hv|Hv] Hva; [congruence|auto].
      * intros v [Hv|Hv]; [|auto]. destruct (Nat.eq_dec v a) as [->|Hva]; [auto|].
        apply Hout. left. intros Hi. apply Hv. right. exact Hi.
    + apply Nat.eqb_neq in Ewa.
      assert (Hw : In id (vfactors (vat adj w))) by (apply Hreg; [left; reflexivity | exact Ewa]).
      assert (Hwl : w < length adj) by (eapply vf_in_lt; eauto).
      rewrite rd_vat by exact Hwl. cbn [bind]. rewrite erase_find_ok by exact Hw. cbn [bind].
      rewrite wr_ok by exact Hwl. cbn [bind].
      set (adj1 := set_nth adj w _).
      assert (Hl1 : length adj1 = length adj) by (apply set_nth_length).
      assert (Hother : forall v, v <> w -> vat adj1 v = vat adj v) by (intros; apply vat_set_neq; auto).
      assert (Hat : vat adj1 w = mkV (rm id (vfactors (vat adj w))) (vneigh (vat adj w)) (vactive (vat adj w)))
        by (apply vat_set_eq; exact Hwl).
      destruct (IH adj1 Hnd') as [adj' [E [HL [Hsame [Hin Hout]]]]].
      { intros v Hv Hva. rewrite Hother by (intros ->; contradiction). apply Hreg; auto. right. exact Hv. }
      exists adj'. split; [exact E|]. split; [lia|]. split; [|split].
      * intros v. destruct (Hsame v) as [S1 S2]. rewrite S1, S2.
        destruct (Nat.eq_dec v w) as [->|Hvw]; [rewrite Hat; auto | rewrite Hother by exact Hvw; auto].
      * intros v [Hv|Hv] Hva.
        -- subst v. rewrite Hout by (left; exact Hnw). rewrite Hat. reflexivity.
        -- rewrite Hin by assumption. rewrite Hother by (intros ->; contradiction). reflexivity.
      * intros v Hv.
        assert (Hvw : v <> w). { destruct Hv as [Hv|Hv]; [intros ->; apply Hv; left; reflexivity | congruence]. }
        rewrite Hout; [rewrite Hother by exact Hvw; reflexivity|].
        destruct Hv as [Hv|Hv]; [left; intros Hi; apply Hv; right; exact Hi | right; exact Hv].
Qed.

Lemma er_neigh_ok : forall a ns adj, NoDup ns -> ~ In a ns ->
  (forall b, In b ns -> In a (vneigh (vat adj b))) ->
  exists adj', fg_er_neigh a ns adj = Ok adj' /\ length adj' = length adj /\
   (forall v, vfactors (vat adj' v) = vfactors (vat adj v) /\ vactive (vat adj' v) = vactive (vat adj v)) /\
   (forall v, In v ns -> vneigh (vat adj' v) = rm a (vneigh (vat adj v))) /\
   (forall v, ~ In v ns -> vneigh (vat adj' v) = vneigh (vat adj v)).
Proof.
  intros a. induction ns as [|w t IH]; intros adj Hnd Hna Hreg.
  - exists adj. cbn. repeat split; auto. intros v [].
  - inversion Hnd as [|? ? Hnw Hnd']; subst. cbn [fg_er_neigh].
    assert (Ewa : w <> a) by (intros ->; apply Hna; left; reflexivity).
    apply Nat.eqb_neq in Ewa. rewrite Ewa.
    assert (Hw : In a (vneigh (vat adj w))) by (apply Hreg; left; reflexivity).
    assert (Hwl : w < length adj) by (eapply vn_in_lt; eauto).
    rewrite rd_vat by exact Hwl. cbn [bind]. rewrite erase_find_ok by exact Hw. cbn [bind].
    rewrite wr_ok by exact Hwl. cbn [bind].
    set (adj1 := set_nth adj w _).
    assert (Hl1 : length adj1 = length adj) by (apply set_nth_length).
    assert (Hother : forall v, v <> w -> vat adj1 v = vat adj v) by (intros; apply vat_set_neq; auto).
    assert (Hat : vat adj1 w = mkV (vfactors (vat adj w)) (rm a (vneigh (vat adj w))) (vactive (vat adj w)))
      by (apply vat_set_eq; exact Hwl).
    destruct (IH adj1 Hnd') as [adj' [E [HL [Hsame [Hin Hout]]]]].
    { intros Hi. apply Hna. right. exact Hi. }
    { intros v Hv. rewrite Hother by (intros ->; contradiction). apply Hreg. right. exact Hv. }
    exists adj'. split; [exact E|]. split; [lia|]. split; [|split].
    + intros v. destruct (Hsame v) as [S1 S2]. rewrite S1, S2.
      destruct (Nat.eq_dec v w) as [->|Hvw]; [rewrite Hat; auto | rewrite Hother by exact Hvw; auto].
    + intros v [Hv|Hv].
      * subst v. rewrite Hout by exact Hnw. rewrite Hat. reflexivity.
      * rewrite Hin by assumption. rewrite Hother by (intros ->; contradiction). reflexivity.
    + intros v Hv.
      assert (Hvw : v <> w) by (intros ->; apply Hv; left; reflexivity).
      rewrite Hout by (intros Hi; apply Hv; right; exact Hi). rewrite Hother by exact Hvw. reflexivity.
Qed.

Lemma In_unlink : forall fs id x vs, In (x, vs) (fg_unlink fs id) <-> In (x, vs) fs /\ x <> id.
Proof.
  intros. unfold fg_unlink. rewrite filter_In. cbn [fst]. rewrite negb_true_iff, Nat.eqb_neq. tauto.
Qed.

Lemma map_fst_unlink : forall fs id,
  map fst (fg_unlink fs id) = filter (fun i => negb (Nat.eqb i id)) (map fst fs).
Proof.
  unfold fg_unlink. induction fs as [|[i vs] t IH]; intros id; [reflexivity|].
  cbn [filter map fst]. destruct (Nat.eqb i id); cbn [negb map fst]; rewrite IH; reflexivity.
Qed.

(* the state between two iterations of  for (auto it : va.factors)  in erase(a):
   [its] = the iterators still to visit; the already visited ones dangle, but only in va.factors *)
Record er_mid (a : nat) (its : list nat) (fs : list (nat * list nat)) (pool : list nat) (adj : list vnode)
  : Prop := mk_mid {
  m_vf_in : forall v id, v <> a -> In id (vfactors (vat adj v)) -> exists vars, In (id, vars) fs /\ In v vars;
  m_its : forall id, In id its -> exists vars, In (id, vars) fs /\ In a vars;
  m_its_nd : NoDup its;
  m_f_in : forall id vars, In (id, vars) fs ->
             NoDup vars /\ (forall v, In v vars -> v <> a -> In id (vfactors (vat adj v))) /\ (In a vars -> In id its);
  m_ids : NoDup (map fst fs ++ pool);
  m_vf_nodup : forall v, NoDup (vfactors (vat adj v)) }.

Lemma er_outer_ok : forall a its fs pool adj, er_mid a its fs pool adj ->
  exists fs' pool' adj', fg_er_outer a its fs pool adj = Ok (fs', pool', adj') /\ er_mid a [] fs' pool' adj' /\
    length adj' = length adj /\
    (forall v, vneigh (vat adj' v) = vneigh (vat adj v) /\ vactive (vat adj' v) = vactive (vat adj v)) /\
    (forall x, In x (map fst fs' ++ pool') -> In x (map fst fs ++ pool)).
Proof.
  intros a. induction its as [|id t IH]; intros fs pool adj M.
  - exists fs, pool, adj. split; [reflexivity|]. split; [exact M|]. repeat split; auto.
  - destruct M as [M1 M2 M3 M4 M5 M6].
    destruct (M2 id (or_introl eq_refl)) as [vars [Hf Hav]].
    assert (Hndf : NoDup (map fst fs)) by (apply NoDup_app_iff in M5; tauto).
    cbn [fg_er_outer]. rewrite (deref_In _ _ _ Hndf Hf). cbn [bind].
    destruct (M4 _ _ Hf) as [Hndv [Hreg _]].
    destruct (er_inner_ok a id vars adj Hndv Hreg) as [adj1 [E1 [HL1 [Hsame1 [Hin1 Hout1]]]]].
    rewrite E1. cbn [bind].
    inversion M3 as [|? ? Hnid Hndt]; subst.
    (* membership in the new factors lists *)
    assert (Hvf_sub : forall v x, In x (vfactors (vat adj1 v)) -> In x (vfactors (vat adj v))).
    { intros v x Hx. destruct (in_dec Nat.eq_dec v vars) as [Hv|Hv]; [destruct (Nat.eq_dec v a) as [Hva|Hva]|].
      - rewrite Hout1 in Hx by (right; exact Hva). exact Hx.
      - rewrite Hin1 in Hx by assumption. eapply rm_subset; eauto.
      - rewrite Hout1 in Hx by (left; exact Hv). exact Hx. }
    assert (Hvf_keep : forall v x, x <> id -> In x (vfactors (vat adj v)) -> In x (vfactors (vat adj1 v))).
    { intros v x Hne Hx. destruct (in_dec Nat.eq_dec v vars) as [Hv|Hv]; [destruct (Nat.eq_dec v a) as [Hva|Hva]|].
      - rewrite Hout1 by (right; exact Hva). exact Hx.
      - rewrite Hin1 by assumption. apply rm_keeps; auto.
      - rewrite Hout1 by (left; exact Hv). exact Hx. }
    assert (M' : er_mid a t (fg_unlink fs id) (id :: pool) adj1).
    { constructor.
      - intros v x Hva Hx.
        destruct (M1 v x Hva (Hvf_sub _ _ Hx)) as [vs [H1 H2]]. exists vs. split; [|exact H2].
        apply In_unlink. split; [exact H1|]. intros ->.
        assert (vs = vars) by (eapply fs_functional; eauto). subst vs.
        rewrite Hin1 in Hx by assumption. apply (proj2 (rm_NoDup id _ (M6 v))). exact Hx.
      - intros x Hx. destruct (M2 x (or_intror Hx)) as [vs [H1 H2]]. exists vs. split; [|exact H2].
        apply In_unlink. split; [exact H1|]. intros ->. contradiction.
      - exact Hndt.
      - intros x vs Hx. apply In_unlink in Hx. destruct Hx as [Hx Hne].
        destruct (M4 _ _ Hx) as [H1 [H2 H3]]. split; [exact H1|]. split.
        + intros v Hv Hva. apply Hvf_keep; auto.
        + intros Ha. destruct (H3 Ha) as [->|Hi]; [congruence|exact Hi].
      - rewrite map_fst_unlink. apply NoDup_app_iff in M5. destruct M5 as [N1 [N2 N3]].
        apply NoDup_app_iff. split; [apply NoDup_filter; exact N1|]. split.
        + constructor; [|exact N2]. apply N3. apply (in_map fst) in Hf. exact Hf.
        + intros x Hx. apply filter_In in Hx. destruct Hx as [Hx Hne].
          rewrite negb_true_iff, Nat.eqb_neq in Hne. intros [->|Hp]; [congruence|]. eapply N3; eauto.
      - intros v. destruct (in_dec Nat.eq_dec v vars) as [Hv|Hv]; [destruct (Nat.eq_dec v a) as [Hva|Hva]|].
        + rewrite Hout1 by (right; exact Hva). apply M6.
        + rewrite Hin1 by assumption. apply rm_NoDup. apply M6.
        + rewrite Hout1 by (left; exact Hv). apply M6. }
    destruct (IH _ _ _ M') as [fs' [pool' [adj' [E [Mf [HL [Hsame Hsub]]]]]]].
    exists fs', pool', adj'. split; [exact E|]. split; [exact Mf|]. split; [lia|]. split.
    + intros v. destruct (Hsame v) as [S1 S2]. destruct (Hsame1 v) as [S3 S4]. rewrite S1, S2. auto.
    + intros x Hx. apply Hsub in Hx. apply in_app_or in Hx. apply in_or_app. destruct Hx as [Hx|[Hx|Hx]].
      * left. rewrite map_fst_unlink in Hx. apply filter_In in Hx. tauto.
      * subst x. left. apply (in_map fst) in Hf. exact Hf.
      * right. exact Hx.
Qed.

(* ---- erase ------------------------------------------------------------------------------------------ *)
Lemma erase_ok : forall n a st, fg_inv n st -> a < n -> exists st', fg_erase a st = Ok st' /\ fg_inv n st'.
Proof.
  intros n a st I Ha. pose proof I as I0. destruct I as [I1 I2 I3 I4 I5 I6 I7 I8 I9 I10].
  unfold fg_erase. rewrite rd_vat by lia. cbn [bind].
  destruct (vactive (vat (fg_adj st) a)) eqn:Eact; cbn [negb]; [|exists st; auto].
  set (adj := fg_adj st) in *. set (fs := fg_factors st) in *. set (pool := fg_pool st) in *.
  assert (M : er_mid a (vfactors (vat adj a)) fs pool adj).
  { constructor.
    - intros v id _ Hid. apply I2. exact Hid.
    - intros id Hid. apply I2. exact Hid.
    - apply I6.
    - intros id vars Hf. destruct (I3 _ _ Hf) as [H1 H2]. repeat split; auto.
    - exact I4.
    - exact I6. }
  destruct (er_outer_ok _ _ _ _ _ M) as [fs' [pool' [adj1 [E1 [Mf [HL1 [Hsame1 Hsub]]]]]]].
  rewrite E1. cbn [bind].
  destruct (er_neigh_ok a (vneigh (vat adj a)) adj1) as [adj2 [E2 [HL2 [Hsame2 [Hin2 Hout2]]]]].
  { apply ss_NoDup. apply I7. }
  { apply I8. }
  { intros b Hb. rewrite (proj1 (Hsame1 b)). apply I9. exact Hb. }
  rewrite E2. cbn [bind]. rewrite wr_ok by lia. cbn [bind].
  set (adj3 := set_nth adj2 a (mkV [] [] false)).
  assert (HL3 : length adj3 = n) by (unfold adj3; rewrite set_nth_length; lia).
  assert (Hat3 : vat adj3 a = mkV [] [] false) by (apply vat_set_eq; lia).
  assert (Ho3 : forall v, v <> a -> vat adj3 v = vat adj2 v) by (intros; apply vat_set_neq; auto).
  (* --activeVariables_ *)
  assert (Hact : fg_active st = S (nactive adj3)).
  { rewrite I10. unfold adj3. rewrite nactive_clear; auto.
    - symmetry. apply nactive_ext; [lia|]. intros v. rewrite (proj2 (Hsame2 v)). apply (proj2 (Hsame1 v)).
    - rewrite (proj2 (Hsame2 a)), (proj2 (Hsame1 a)). exact Eact. }
  rewrite Hact. eexists. split; [reflexivity|].
  destruct Mf as [F1 _ _ F4 F5 F6].
  (* the adjacency after the three loops *)
  assert (Hvf3 : forall v, v <> a -> vfactors (vat adj3 v) = vfactors (vat adj1 v)).
  { intros v Hv. rewrite Ho3 by exact Hv. apply (proj1 (Hsame2 v)). }
  assert (Hvn_sub : forall v x, In x (vneigh (vat adj3 v)) -> In x (vneigh (vat adj v)) /\ x <> a /\ v <> a).
  { intros v x Hx. destruct (Nat.eq_dec v a) as [->|Hva]; [rewrite Hat3 in Hx; destruct Hx|].
    rewrite Ho3 in Hx by exact Hva.
    destruct (in_dec Nat.eq_dec v (vneigh (vat adj a))) as [Hv|Hv].
    - rewrite Hin2 in Hx by exact Hv. rewrite (proj1 (Hsame1 v)) in Hx. split; [eapply rm_subset; eauto|].
      split; [|exact Hva]. intros ->. apply (proj2 (rm_NoDup a _ (ss_NoDup _ (I7 v)))). exact Hx.
    - rewrite Hout2 in Hx by exact Hv. rewrite (proj1 (Hsame1 v)) in Hx. split; [exact Hx|].
      split; [|exact Hva]. intros ->. apply Hv. apply I9. exact Hx. }
  assert (Hvn_keep : forall v x, v <> a -> x <> a -> In x (vneigh (vat adj v)) -> In x (vneigh (vat adj3 v))).
  { intros v x Hva Hxa Hx. rewrite Ho3 by exact Hva.
    destruct (in_dec Nat.eq_dec v (vneigh (vat adj a))) as [Hv|Hv].
    - rewrite Hin2 by exact Hv. rewrite (proj1 (Hsame1 v)). apply rm_keeps; auto.
    - rewrite Hout2 by exact Hv. rewrite (proj1 (Hsame1 v)). exact Hx. }
  constructor; cbn [fg_adj fg_factors fg_pool fg_next fg_active].
  - exact HL3.
  - intros v id Hid. destruct (Nat.eq_dec v a) as [->|Hva]; [rewrite Hat3 in Hid; destruct Hid|].
    rewrite Hvf3 in Hid by exact Hva. apply F1; auto.
  - intros id vars Hf. destruct (F4 _ _ Hf) as [H1 [H2 H3]]. split; [exact H1|].
    intros v Hv. destruct (Nat.eq_dec v a) as [->|Hva]; [destruct (H3 Hv)|].
    rewrite Hvf3 by exact Hva. apply H2; auto.
  - exact F5.
  - intros id Hid. apply I5. apply Hsub. exact Hid.
  - intros v. destruct (Nat.eq_dec v a) as [->|Hva]; [rewrite Hat3; constructor|].
    rewrite Hvf3 by exact Hva. apply F6.
  - intros v. destruct (Nat.eq_dec v a) as [->|Hva]; [rewrite Hat3; constructor|].
    rewrite Ho3 by exact Hva.
    destruct (in_dec Nat.eq_dec v (vneigh (vat adj a))) as [Hv|Hv].
    + rewrite Hin2 by exact Hv. rewrite (proj1 (Hsame1 v)). apply ss_rm. apply I7.
    + rewrite Hout2 by exact Hv. rewrite (proj1 (Hsame1 v)). apply I7.
  - intros v Hv. apply Hvn_sub in Hv. destruct Hv as [Hv _]. exact (I8 v Hv).
  - intros v b Hb. apply Hvn_sub in Hb. destruct Hb as [Hb [Hba Hva]]. apply Hvn_keep; auto.
  - reflexivity.
Qed.

(* ---- histories ---------------------------------------------------------------------------------------- *)
(* the documented precondition: getFactor takes a PartialKeys (non-empty, sorted, distinct ids) of variables of
   the graph — erased ones included: the code has no UB there —, erase the id of a variable of the graph *)
Definition fgop_ok (n : nat) (o : fgop) : Prop :=
  match o with
  | FGGetFactor vars => vars <> [] /\ ss vars /\ Forall (fun v => v < n) vars
  | FGErase a => a < n
  end.

Lemma fgop_okb_sound : forall n o, fgop_okb n o = true -> fgop_ok n o.
Proof.
  intros n [vars|a]; cbn [fgop_okb fgop_ok]; intros H.
  - apply andb_prop in H. destruct H as [H H3]. apply andb_prop in H. destruct H as [H1 H2]. split; [|split].
    + intros ->. discriminate.
    + apply strict_incb_ss. exact H2.
    + rewrite forallb_forall in H3. rewrite Forall_forall. intros v Hv. apply Nat.ltb_lt. auto.
  - apply Nat.ltb_lt. exact H.
Qed.

Lemma fg_step_ok : forall n o st, fg_inv n st -> fgop_ok n o -> exists st', fg_step o st = Ok st' /\ fg_inv n st'.
Proof.
  intros n [vars|a] st I H; cbn [fg_step fgop_ok] in *.
  - destruct H as [H1 [H2 H3]]. destruct (getFactor_ok n vars st I H1 H2 H3) as [st' [id [E [I' _]]]].
    rewrite E. cbn [bind fst]. eauto.
  - apply erase_ok; auto.
Qed.

Lemma fg_run_from_ok : forall n ops st, fg_inv n st -> Forall (fgop_ok n) ops ->
  exists st', fg_run_from st ops = Ok st' /\ fg_inv n st'.
Proof.
  intros n. induction ops as [|o r IH]; intros st I H; cbn [fg_run_from]; [eauto|].
  inversion H as [|? ? Ho Hr]; subst.
  destruct (fg_step_ok n o st I Ho) as [st1 [E1 I1]]. rewrite E1. cbn [bind]. apply IH; auto.
Qed.

(* no admissible history reaches UB (nor runs out of fuel), and the invariant holds afterwards *)
Lemma fg_no_UB_lemma : forall n ops, Forall (fgop_ok n) ops ->
  exists st, fg_run n ops = Ok st /\ fg_inv n st.
Proof. intros. unfold fg_run. apply fg_run_from_ok; auto. apply fg_init_inv. Qed.

Corollary fg_run_not_UB : forall n ops, Forall (fgop_ok n) ops -> fg_run n ops <> UB /\ fg_run n ops <> Fuel.
Proof. intros n ops H. destruct (fg_no_UB_lemma n ops H) as [st [E _]]. rewrite E. split; discriminate. Qed.

(* the observers, in a state satisfying the invariant: every iterator handed out by getFactors can be
   dereferenced, and its variables contain the variable asked for *)
Lemma fg_observers_ok : forall n st a, fg_inv n st -> a < n ->
  (exists l, fg_getFactors st a = Ok l /\ Forall (fun vs => In a vs) l) /\
  (exists l, fg_getVariables st a = Ok l /\ ss l /\ ~ In a l /\ Forall (fun b => b < n) l).
Proof.
  intros n st a I Ha. pose proof (inv_len _ _ I) as HL. split.
  - unfold fg_getFactors. rewrite rd_vat by lia. cbn [bind].
    pose proof (inv_vf_in _ _ I a) as Hin. pose proof (inv_ids _ _ I) as Hids.
    apply NoDup_app_iff in Hids. destruct Hids as [Hnd _].
    induction (vfactors (vat (fg_adj st) a)) as [|id t IH]; cbn [fg_deref_all]; [eauto|].
    destruct (Hin id (or_introl eq_refl)) as [vs [H1 H2]]. rewrite (deref_In _ _ _ Hnd H1). cbn [bind].
    destruct IH as [l [E HF]]; [intros; apply Hin; right; assumption|]. rewrite E. cbn [bind]. eauto.
  - unfold fg_getVariables. rewrite rd_vat by lia. cbn [bind]. eexists. split; [reflexivity|].
    split; [apply (inv_vn_ss _ _ I)|]. split; [apply (inv_vn_irr _ _ I)|].
    rewrite Forall_forall. intros b Hb. apply (inv_vn_sym _ _ I) in Hb. apply vn_in_lt in Hb. lia.
Qed.

(* the history of the example: overlapping variable sets, a repeated request, an erase (two nodes go to the
   pool), the re-use of both pooled nodes, a second erase and its (void) repetition, a request naming an
   erased variable (it re-uses a pooled node), a last erase *)
Example ex_fg_run :
  let ops := [FGGetFactor [0;1]; FGGetFactor [1;2;3]; FGGetFactor [0;3]; FGGetFactor [1;2;3]; FGErase 1;
              FGGetFactor [2;3]; FGGetFactor [0;2;4]; FGErase 3; FGErase 3; FGGetFactor [1;2]; FGErase 0] in
  forallb (fgop_okb 5) ops = true /\
  fg_run 5 ops = Ok (mkFG [(1, [1; 2])] [0; 2] 3
                      [mkV [] [] false; mkV [1] [2] false; mkV [1] [1; 4] true; mkV [] [] false; mkV [] [2] true] 2).
Proof. vm_compute. split; reflexivity. Qed.

(* ---- bestVariableToRemove ------------------------------------------------------------------------------- *)
Lemma nactive_pos_ex : forall adj, 0 < nactive adj -> exists j, j < length adj /\ vactive (vat adj j) = true.
Proof.
  unfold nactive, vat. induction adj as [|h t IH]; cbn [filter length]; intros H; [cbn in H; lia|].
  destruct (vactive h) eqn:E.
  - exists 0. split; [lia | exact E].
  - destruct (IH H) as [j [Hj Ha]]. exists (S j). split; [lia | exact Ha].
Qed.

Lemma first_active_ok : forall adj fuel i j, i <= j -> j < length adj -> vactive (vat adj j) = true -> j - i < fuel ->
  exists r, fg_first_active fuel adj i = Ok r /\ r < length adj /\ vactive (vat adj r) = true.
Proof.
  intros adj. induction fuel as [|f IH]; intros i j Hij Hj Ha Hf; [lia|].
  cbn [fg_first_active]. rewrite rd_vat by lia. cbn [bind].
  destruct (vactive (vat adj i)) eqn:E.
  - exists i. repeat split; auto. lia.
  - assert (i <> j) by (intros ->; congruence). apply (IH (S i) j); auto; lia.
Qed.

Lemma neigh_factor_exists_ok : forall n st x, fg_inv n st ->
  exists b, fg_neigh_factor_exists st (vneigh (vat (fg_adj st) x)) = Ok b.
Proof.
  intros n st x I. unfold fg_neigh_factor_exists.
  destruct (vneigh (vat (fg_adj st) x)) as [|v0 t] eqn:Ev; [cbn; eauto|].
  cbn [length Nat.ltb Nat.leb rd nth_error bind].
  assert (Hv0 : v0 < length (fg_adj st)).
  { assert (Hi : In v0 (vneigh (vat (fg_adj st) x))) by (rewrite Ev; left; reflexivity).
    apply (inv_vn_sym _ _ I) in Hi. eapply vn_in_lt; eauto. }
  rewrite rd_vat by exact Hv0. cbn [bind].
  destruct (find_by_vars_ok (fg_factors st) (v0 :: t) (vfactors (vat (fg_adj st) v0))) as [r Er].
  { intros id Hid. destruct (inv_vf_in _ _ I _ _ Hid) as [vs [H1 _]]. eauto. }
  rewrite Er. cbn [bind]. eauto.
Qed.

Lemma cost_loop_ok : forall F vn acc, (forall b, In b vn -> b < length F) -> exists c, fg_cost_loop F vn acc = Ok c.
Proof.
  intros F. induction vn as [|b t IH]; intros acc H; cbn [fg_cost_loop]; [eauto|].
  destruct (rd_ok _ F b (H b (or_introl eq_refl))) as [fb [E _]]. rewrite E. cbn [bind].
  apply IH. intros. apply H. right. assumption.
Qed.

Lemma cost_ok : forall n st F x, fg_inv n st -> length F = n -> x < n ->
  exists c, fg_cost F x (vneigh (vat (fg_adj st) x)) = Ok c.
Proof.
  intros n st F x I HF Hx. unfold fg_cost.
  destruct (rd_ok _ F x ltac:(lia)) as [fx [E _]]. rewrite E. cbn [bind].
  apply cost_loop_ok. intros b Hb. apply (inv_vn_sym _ _ I) in Hb. apply vn_in_lt in Hb.
  rewrite (inv_len _ _ I) in Hb. lia.
Qed.

Lemma best_loop_ok : forall n st F, fg_inv n st -> length F = n ->
  forall nexts retval minCost fe, (forall x, In x nexts -> x < n) ->
  retval < n -> vactive (vat (fg_adj st) retval) = true ->
  exists r, fg_best_loop st F nexts retval minCost fe = Ok r /\ r < n /\ vactive (vat (fg_adj st) r) = true.
Proof.
  intros n st F I HF. pose proof (inv_len _ _ I) as HL.
  induction nexts as [|nx t IH]; intros retval minCost fe Hn Hr Hra; cbn [fg_best_loop]; [eauto|].
  assert (Hnx : nx < n) by (apply Hn; left; reflexivity).
  assert (Ht : forall x, In x t -> x < n) by (intros; apply Hn; right; assumption).
  rewrite rd_vat by lia. cbn [bind].
  destruct (vactive (vat (fg_adj st) nx)) eqn:Ea; cbn [negb]; [|apply IH; auto].
  destruct (neigh_factor_exists_ok n st nx I) as [ne Ene]. rewrite Ene. cbn [bind].
  destruct (negb ne && fe); [apply IH; auto|].
  destruct (cost_ok n st F nx I HF Hnx) as [c Ec]. rewrite Ec. cbn [bind].
  destruct (ne && negb fe || (c <? minCost)); apply IH; auto.
Qed.

(* bestVariableToRemove(F), F giving a size for each of the n variables: no UB, and when some variable is
   still active the result is an active variable of the graph *)
Lemma fg_best_no_UB_lemma : forall n st F, fg_inv n st -> length F = n ->
  exists r, fg_bestVariableToRemove st F = Ok r /\
            (0 < fg_active st -> r < n /\ vactive (vat (fg_adj st) r) = true).
Proof.
  intros n st F I HF. pose proof (inv_len _ _ I) as HL. unfold fg_bestVariableToRemove.
  destruct (Nat.eqb (fg_active st) 0) eqn:E0.
  - apply Nat.eqb_eq in E0. exists 0. split; [reflexivity|]. lia.
  - apply Nat.eqb_neq in E0.
    destruct (nactive_pos_ex (fg_adj st)) as [j [Hj Hja]]; [rewrite <- (inv_active _ _ I); lia|].
    destruct (first_active_ok (fg_adj st) (S (length (fg_adj st))) 0 j) as [r0 [E1 [Hr0 Hr0a]]]; auto; try lia.
    rewrite E1. cbn [bind]. rewrite rd_vat by exact Hr0. cbn [bind].
    destruct (neigh_factor_exists_ok n st r0 I) as [fe Efe]. rewrite Efe. cbn [bind].
    destruct (cost_ok n st F r0 I HF ltac:(lia)) as [mc Emc]. rewrite Emc. cbn [bind].
    destruct (best_loop_ok n st F I HF (seq (S r0) (length (fg_adj st) - S r0)) r0 mc fe) as [r [Er [H1 H2]]]; auto.
    + intros x Hx. apply in_seq in Hx. lia.
    + lia.
    + exists r. split; [exact Er|]. intros _. auto.
Qed.

(* along admissible histories *)
Corollary fg_run_best_no_UB : forall n ops F, Forall (fgop_ok n) ops -> length F = n ->
  exists st r, fg_run n ops = Ok st /\ fg_bestVariableToRemove st F = Ok r.
Proof.
  intros n ops F H HF. destruct (fg_no_UB_lemma n ops H) as [st [E I]].
  destruct (fg_best_no_UB_lemma n st F I HF) as [r [Er _]]. eauto.
Qed.

(* the precondition is needed: an empty Variables reads variables[0]; an out-of-range id indexes
   variableAdjacencies_ past the end; a repeated id makes erase call factors.erase(end()) (the assert is off) *)
Example ex_fg_precondition_needed :
  fg_run 5 [FGGetFactor []] = UB /\ fg_run 5 [FGGetFactor [5]] = UB /\ fg_run 5 [FGErase 5] = UB /\
  fg_run 5 [FGGetFactor [1; 1]; FGErase 1] = UB.
Proof. vm_compute. repeat split; reflexivity. Qed.
