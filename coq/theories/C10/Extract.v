From Coq Require Extraction.
From Coq Require Import ExtrOcamlBasic.
From AIT Require Import Base.Vio C10.Model C10.Spec C10.ModelFG C10.ModelBU C10.ModelEDI.
From AIT Require C12.Model.
Extraction "model.ml" vio_kit updateTraces updateTraces_history match_pf extractDominated_idx
  fib_sparse_max fib_sparse_max_fix wrun deltaPrune_last_deref
  fg_run fg_getFactors fg_getVariables fg_variableSize fg_factorSize fg_factor_list fg_bestVariableToRemove fgop_okb
  pf_wfb strict_incb q_wfb tr_inb match_spec ut_expected
  extractBestUsefulPoints_idx extractBestUsefulPoints_fix extractDominatedIncremental_idx
  C12.Model.dominates C12.Model.extractDominated C12.Model.extractDominatedIncremental C12.Model.findBestAtPointV.
