(* C10/ModelBG.v — index-arithmetic model of POMDP::BeliefGenerator<M> (expandBeliefList and the driver
   loop operator()(maxBeliefs, BeliefList* )).  Belief contents and distances are abstract; everything the
   routine cannot decide from indices is read from an explicit oracle script.  Every unchecked C++ access
   is a CHECKED access here ([UB] when out of range).  No proofs in this file.

   Script conventions (see [script]):
     * [tries]  one outcome per executed try (i, a, j), consumed in order; exhaustion = [Seen];
     * [rands]  the beliefs returned by makeRandomProbability, in order; exhaustion = [b0];
     * [sels]   one entry per selection step: the index returned by std::max_element.  On a NON-empty
                [distances] an out-of-range script entry is CLAMPED to |distances| - 1 (exhaustion = 0);
                on an EMPTY [distances] max_element returns end == begin, i.e. id = 0, whatever the
                script says (and the following distances[id] is then out of range => UB). *)
From Coq Require Import List Arith Bool.
From AIT Require Import C10.Model.
Import ListNotations.
Local Open Scope nat_scope.

(* v.back() / v.back() = x *)
Definition back {A : Type} (l : list A) : res A := rd l (length l - 1).
Definition wr_back {A : Type} (l : list A) (x : A) : res (list A) := wr l (length l - 1) x.

(* the index n - 1 of a size_t n: 0 - 1 wraps to SIZE_MAX, which is out of range for every vector, so
   the access that uses it is undefined; we flag it here *)
Definition szpred (n : nat) : res nat := match n with O => UB | S k => Ok k end.

(* for (k = k0; k < k0 + cnt; ++k) read l[k] *)
Fixpoint rd_range {A : Type} (l : list A) (k cnt : nat) : res unit :=
  match cnt with
  | O => Ok tt
  | S c => do _ <- rd l k; rd_range l (S k) c
  end.

Section BG.
  Variables B D : Type.
  Variable b0 : B.                     (* a value-initialised Belief (emplace_back(S) / resize padding) *)
  Variable dinf : D.                   (* std::numeric_limits<double>::max() *)
  Variable dmin : D -> B -> B -> D.    (* std::min(d, computeDistance(x, y)) *)

  (* outcome of one try (i, a, j) *)
  Inductive outcome : Type :=
  | Seen                                (* {a,o} already in seenObservations[i]: continue *)
  | Dup (ao : nat * nat)                (* new pair, but the updated belief equals an existing one: found *)
  | New (ao : nat * nat) (b : B).       (* new pair and a genuinely new belief b *)

  Record script : Type := mkscript { tries : list outcome; rands : list B; sels : list nat }.

  (* triesPerRun_, retryLimit_, minProductiveBeliefs_ are constexpr (20, 5, 10) in the source *)
  Record params : Type := mkparams { pA : nat; pTries : nat; pRetry : nat; pMinProd : nat }.

  Record bgst : Type := mkst {
    bl : list B;                        (* *blp_ *)
    allS : nat; goodS : nat; prodS : nat;   (* allBeliefsSize_ goodBeliefsSize_ productiveBeliefs_ *)
    dist : list D;                      (* *dp_ *)
    seen : list (list (nat * nat));     (* *sop_ *)
    unprod : list nat                   (* *up_ *)
  }.

  Variable P : params.

  Definition next_try (ts : list outcome) : outcome * list outcome :=
    match ts with [] => (Seen, []) | o :: t => (o, t) end.
  Definition next_rand (rs : list B) : B * list B :=
    match rs with [] => (b0, []) | b :: t => (b, t) end.
  (* src: BeliefGenerator.hpp:expandBeliefList — id = distance(dBegin, max_element(dBegin, dEnd)) *)
  Definition next_sel (n : nat) (ss : list nat) : nat * list nat :=
    let id := match ss with [] => 0 | x :: _ => x end in
    (match n with O => 0 | S m => Nat.min id m end, tl ss).

  (* src: BeliefGenerator.hpp:expandBeliefList —
       for (k = 0; k < goodBeliefsSize_; ++k)
         distances.back() = std::min(distances.back(), computeDistance(bl.back(), bl[k])); *)
  Fixpoint dist_back_loop (cnt k : nat) (l : list B) (ds : list D) : res (list D) :=
    match cnt with
    | O => Ok ds
    | S c =>
      do d <- back ds;                                   (* distances.back() *)
      do x <- back l;                                    (* bl.back() *)
      do y <- rd l k;                                    (* bl[k] *)
      do ds' <- wr_back ds (dmin d x y);
      dist_back_loop c (S k) l ds'
    end.

  (* src: BeliefGenerator.hpp:expandBeliefList — for (i = 0; i < randomBeliefsToAdd; ++i) { ... } *)
  Fixpoint add_random (n : nat) (st : bgst) (rs : list B) : res (bgst * list B) :=
    match n with
    | O => Ok (st, rs)
    | S n' =>
      let '(b, rs') := next_rand rs in
      let bl1 := bl st ++ [b] in                         (* bl.emplace_back(makeRandomProbability(S, rand_)) *)
      let ds1 := dist st ++ [dinf] in                    (* ++allBeliefsSize_; distances.push_back(max) *)
      do ds2 <- dist_back_loop (goodS st) 0 bl1 ds1;
      add_random n' (mkst bl1 (S (allS st)) (goodS st) (prodS st) ds2 (seen st) (unprod st)) rs'
    end.

  (* src: BeliefGenerator.hpp:expandBeliefList — for (j = 0; j < triesPerRun_; ++j) { ... }
     [fa] = foundAnything *)
  Fixpoint try_loop (cnt i : nat) (st : bgst) (ts : list outcome) (fa : bool)
    : res (bgst * list outcome * bool) :=
    match cnt with
    | O => Ok (st, ts, fa)
    | S c =>
      do _ <- rd (bl st) i;                              (* sampleProbability(S, bl[i], rand_) *)
      let '(o, ts') := next_try ts in
      let upd (ao : nat * nat) (b : B) (isnew : bool) :=
        do so <- rd (seen st) i;                         (* beliefObservations (= seenObservations[i]) *)
        do seen1 <- wr (seen st) i (ao :: so);           (* .insert({a,o}) *)
        do bl1 <- (if Nat.eqb (allS st) (length (bl st)) (* if (allBeliefsSize_ == bl.size()) emplace_back(S) *)
                   then Ok (bl st ++ [b])
                   else wr_back (bl st) b);              (* updateBeliefPartialNormalized(..., &bl.back()) *)
        do _ <- back bl1;                                (* bl.back() in checkEqualProbability *)
        do _ <- rd_range bl1 0 (allS st);                (* for (k = 0; k < allBeliefsSize_; ++k) bl[k] *)
        if isnew then
          let ds1 := dist st ++ [dinf] in                (* ++allBeliefsSize_; distances.push_back(max) *)
          do ds2 <- dist_back_loop (goodS st) 0 bl1 ds1;
          try_loop c i (mkst bl1 (S (allS st)) (goodS st) (prodS st) ds2 seen1 (unprod st)) ts' true
        else                                             (* found: continue; the tentative slot stays *)
          try_loop c i (mkst bl1 (allS st) (goodS st) (prodS st) (dist st) seen1 (unprod st)) ts' true
      in
      match o with
      | Seen => try_loop c i st ts' fa                   (* find({a,o}) != end(): continue *)
      | Dup ao => upd ao b0 false                        (* content of the tentative slot is never read again *)
      | New ao b => upd ao b true
      end
    end.

  (* src: BeliefGenerator.hpp:expandBeliefList — for (a = 0; a < A; ++a) { updateBeliefPartial(model_, bl[i], a, ...); ... } *)
  Fixpoint a_loop (cnt i : nat) (st : bgst) (ts : list outcome) (fa : bool)
    : res (bgst * list outcome * bool) :=
    match cnt with
    | O => Ok (st, ts, fa)
    | S c =>
      do _ <- rd (bl st) i;                              (* bl[i] *)
      do r <- try_loop (pTries P) i st ts fa;
      let '(st1, ts1, fa1) := r in
      a_loop c i st1 ts1 fa1
    end.

  (* src: BeliefGenerator.hpp:expandBeliefList — for (i = firstProductiveBelief; i < goodBeliefsSize_; ++i) { ... }
     [cnt] = goodBeliefsSize_ - i (goodBeliefsSize_ is constant in this loop).
     [--productiveBeliefs_] at 0 would wrap (well defined for size_t, but then the count is garbage);
     it is flagged as UB here so that the no-UB theorem also shows it is unreachable. *)
  Fixpoint i_loop (cnt i : nat) (st : bgst) (ts : list outcome) : res (bgst * list outcome) :=
    match cnt with
    | O => Ok (st, ts)
    | S c =>
      do nf <- rd (unprod st) i;                         (* notFoundCounter = unproductiveBeliefs[i] *)
      if pRetry P <=? nf then i_loop c (S i) st ts       (* continue *)
      else
        do _ <- rd (seen st) i;                          (* seenObservations[i] *)
        do r <- a_loop (pA P) i st ts false;
        let '(st1, ts1, fa) := r in
        if fa then
          do up1 <- wr (unprod st1) i 0;                 (* notFoundCounter = 0 *)
          i_loop c (S i) (mkst (bl st1) (allS st1) (goodS st1) (prodS st1) (dist st1) (seen st1) up1) ts1
        else
          do up1 <- wr (unprod st1) i (S nf);            (* ++notFoundCounter *)
          if Nat.eqb (S nf) (pRetry P) then
            match prodS st1 with
            | O => UB                                    (* --productiveBeliefs_ at 0 *)
            | S p => i_loop c (S i) (mkst (bl st1) (allS st1) (goodS st1) p (dist st1) (seen st1) up1) ts1
            end
          else
            i_loop c (S i) (mkst (bl st1) (allS st1) (goodS st1) (prodS st1) (dist st1) (seen st1) up1) ts1
    end.

  (* src: BeliefGenerator.hpp:expandBeliefList — for (k = 0; k < distances.size(); ++k)
       distances[k] = std::min(distances[k], computeDistance(bl[goodBeliefsSize_ - 1], bl[goodBeliefsSize_ + k])); *)
  Fixpoint redist (cnt k : nat) (l : list B) (g : nat) (ds : list D) : res (list D) :=
    match cnt with
    | O => Ok ds
    | S c =>
      do d <- rd ds k;                                   (* distances[k] *)
      do gm1 <- szpred g;
      do x <- rd l gm1;                                  (* bl[goodBeliefsSize_ - 1] *)
      do y <- rd l (g + k);                              (* bl[goodBeliefsSize_ + k] *)
      do ds' <- wr ds k (dmin d x y);
      redist c (S k) l g ds'
    end.

  (* src: BeliefGenerator.hpp:expandBeliefList — for (i = 0; i < beliefsToAdd; ++i) { ... } *)
  Fixpoint sel_loop (cnt max : nat) (st : bgst) (ss : list nat) : res (bgst * list nat) :=
    match cnt with
    | O => Ok (st, ss)
    | S c =>
      let '(id, ss') := next_sel (length (dist st)) ss in
      do ds1 <- swp (dist st) id (length (dist st) - 1);    (* swap(distances[id], distances.back()) *)
      do am1 <- szpred (allS st);                           (* allBeliefsSize_ - 1 *)
      do bl1 <- swp (bl st) (goodS st + id) am1;            (* swap(bl[good + id], bl[all - 1]) *)
      do bl2 <- swp bl1 (goodS st) am1;                     (* swap(bl[good], bl[all - 1]) *)
      let g := S (goodS st) in                              (* ++goodBeliefsSize_ *)
      if max <=? g then                                     (* if (goodBeliefsSize_ >= max) break *)
        Ok (mkst bl2 (allS st) g (prodS st) ds1 (seen st) (unprod st), ss')
      else
        do ds2 <- pop ds1;                                  (* distances.pop_back() *)
        do ds3 <- redist (length ds2) 0 bl2 g ds2;
        sel_loop c max
          (mkst bl2 (allS st) g (S (prodS st)) ds3 (seen st ++ [[]]) (unprod st ++ [0])) ss'
    end.

  (* src: BeliefGenerator.hpp:expandBeliefList *)
  Definition expandBeliefList (max rnd first : nat) (st : bgst) (sc : script) : res (bgst * script) :=
    let bta := Nat.max rnd (prodS st) in                    (* beliefsToAdd *)
    do bl0 <- (if allS st <? length (bl st) then pop (bl st) else Ok (bl st));
    do r1 <- add_random rnd (mkst bl0 (allS st) (goodS st) (prodS st) (dist st) (seen st) (unprod st)) (rands sc);
    let '(st1, rs1) := r1 in
    do r2 <- i_loop (goodS st1 - first) first st1 (tries sc);
    let '(st2, ts2) := r2 in
    (* std::min(beliefsToAdd, allBeliefsSize_ - goodBeliefsSize_): a size_t difference, huge if it wraps *)
    let bta' := if goodS st2 <=? allS st2 then Nat.min bta (allS st2 - goodS st2) else bta in
    do r3 <- sel_loop bta' max st2 (sels sc);
    let '(st3, ss3) := r3 in
    Ok (st3, mkscript ts2 rs1 ss3).

  (* src: BeliefGenerator.hpp:operator()(size_t, BeliefList* ) —
       for (i = firstProductiveBelief; i < goodBeliefsSize_; ++i)
         if (unproductiveBeliefs[i] < retryLimit_) break; else ++firstProductiveBelief;
     i and firstProductiveBelief advance together; [cnt] = goodBeliefsSize_ - i *)
  Fixpoint shift_first (cnt first : nat) (up : list nat) : res nat :=
    match cnt with
    | O => Ok first
    | S c => do u <- rd up first;
             if u <? pRetry P then Ok first else shift_first c (S first) up
    end.

  (* src: BeliefGenerator.hpp:operator()(size_t, BeliefList* ) — while (goodBeliefsSize_ < maxBeliefs) { ... } *)
  Fixpoint outer_loop (fuel max : nat) (st : bgst) (sc : script) (first rnd : nat) : res (bgst * script) :=
    match fuel with
    | O => Fuel
    | S f =>
      if goodS st <? max then
        do r <- expandBeliefList max rnd first st sc;
        let '(st1, sc1) := r in
        if max <=? goodS st1 then Ok (st1, sc1)             (* break *)
        else
          do first' <- shift_first (goodS st1 - first) first (unprod st1);
          let rnd' := if pMinProd P <=? prodS st1 then 0 else pMinProd P - prodS st1 in
          outer_loop f max st1 sc1 first' rnd'
      else Ok (st, sc)
    end.

  (* beliefs.resize(n) *)
  Definition resize (n : nat) (l : list B) : list B := firstn n l ++ repeat b0 (n - length l).

  Definition init_st (beliefs : list B) : bgst :=
    let n := length beliefs in
    mkst beliefs n n n [] (repeat [] n) (repeat 0 n).

  (* src: BeliefGenerator.hpp:operator()(size_t maxBeliefs, BeliefList * bl) *)
  Definition beliefGenerator (fuel max : nat) (beliefs : list B) (sc : script) : res (list B) :=
    do r <- outer_loop fuel max (init_st beliefs) sc 0 0;
    Ok (resize max (bl (fst r))).
End BG.

Arguments Seen {B}. Arguments Dup {B}. Arguments New {B}.
Arguments mkscript {B}. Arguments tries {B}. Arguments rands {B}. Arguments sels {B}.
Arguments mkst {B D}. Arguments bl {B D}. Arguments allS {B D}. Arguments goodS {B D}.
Arguments prodS {B D}. Arguments dist {B D}. Arguments seen {B D}. Arguments unprod {B D}.
Arguments dist_back_loop {B D}. Arguments add_random {B D}. Arguments try_loop {B D}.
Arguments a_loop {B D}. Arguments i_loop {B D}. Arguments redist {B D}. Arguments sel_loop {B D}.
Arguments expandBeliefList {B D}. Arguments outer_loop {B D}.
Arguments resize {B}. Arguments init_st {B D}. Arguments beliefGenerator {B D}.
Arguments next_try {B}. Arguments next_rand {B}.
