(* C10/Proofs2.v — no-UB lemmas, part 2: extractDominated (index form), SARSOP witness/max lists,
   the end() dereference in SARSOP::deltaPrune. *)
From Coq Require Import List Arith Bool Lia.
From AIT Require Import C10.Model C10.Proofs.
Import ListNotations.
Local Open Scope nat_scope.

(* ==== 3. extractDominated ================================================================== *)
Section ED.
  Variable A : Type.
  Variable dom : A -> A -> bool.

  Lemma ed_check_ok : forall cnt (arr : list A) iter target,
    iter + cnt <= length arr -> target < length arr -> exists b, ed_check dom cnt arr iter target = Ok b.
  Proof.
    induction cnt as [|c IH]; intros arr iter target H1 H2; cbn [ed_check]; [eauto|].
    destruct (rd_ok _ arr iter ltac:(lia)) as [x [Hx _]]. destruct (rd_ok _ arr target H2) as [t [Ht _]].
    rewrite Hx, Ht. cbn [bind]. destruct (dom x t); [eauto|]. apply IH; lia.
  Qed.

  Lemma ed_back_ok : forall fuel (arr : list A) optEnd helper target end_,
    optEnd <= helper -> helper <= target -> target < end_ -> end_ <= length arr -> helper - optEnd < fuel ->
    exists arr' t' e', ed_back dom fuel arr optEnd helper target end_ = Ok (arr', t', e') /\
      length arr' = length arr /\ optEnd <= t' /\ t' < e' /\ e' <= end_.
  Proof.
    induction fuel as [|f IH]; intros arr optEnd helper target end_ H1 H2 H3 H4 H5; [lia|].
    cbn [ed_back]. destruct (Nat.eqb helper optEnd) eqn:E.
    - apply Nat.eqb_eq in E. subst. do 3 eexists. split; [reflexivity|]. repeat split; lia.
    - apply Nat.eqb_neq in E. destruct helper as [|h]; [lia|].
      destruct (rd_ok _ arr h ltac:(lia)) as [x [Hx _]]. destruct (rd_ok _ arr target ltac:(lia)) as [t [Ht _]].
      rewrite Hx, Ht. cbn [bind]. destruct (dom x t).
      + destruct end_ as [|e]; [lia|].
        destruct (swp_ok _ arr target e ltac:(lia) ltac:(lia)) as [arr' [Hs [Hl _]]]. rewrite Hs. cbn [bind].
        destruct (IH arr' optEnd h h e ltac:(lia) ltac:(lia) ltac:(lia) ltac:(lia) ltac:(lia))
          as [a2 [t2 [e2 [HE [HL [Ha [Hb Hc]]]]]]].
        do 3 eexists. split; [exact HE|]. repeat split; lia.
      + destruct (IH arr optEnd h target end_ ltac:(lia) ltac:(lia) ltac:(lia) ltac:(lia) ltac:(lia))
          as [a2 [t2 [e2 [HE [HL [Ha [Hb Hc]]]]]]].
        do 3 eexists. split; [exact HE|]. repeat split; lia.
  Qed.

  Lemma ed_outer_ok : forall fuel (arr : list A) optEnd end_,
    optEnd <= end_ -> end_ <= length arr -> end_ - optEnd < fuel ->
    exists arr' e', ed_outer dom fuel arr optEnd end_ = Ok (arr', e') /\ length arr' = length arr /\ e' <= length arr.
  Proof.
    induction fuel as [|f IH]; intros arr optEnd end_ H1 H2 H3; [lia|].
    cbn [ed_outer]. destruct (optEnd <? end_) eqn:E.
    2:{ do 2 eexists. split; [reflexivity|]. split; lia. }
    apply Nat.ltb_lt in E. destruct end_ as [|t]; [lia|].
    destruct (ed_check_ok optEnd arr 0 t ltac:(lia) ltac:(lia)) as [d Hd]. rewrite Hd. cbn [bind].
    destruct d.
    - apply IH; lia.
    - destruct (ed_back_ok (S (length arr)) arr optEnd t t (S t) ltac:(lia) ltac:(lia) ltac:(lia) ltac:(lia) ltac:(lia))
        as [a1 [t1 [e1 [HE [HL [Ha [Hb Hc]]]]]]].
      rewrite HE. cbn [bind].
      destruct (swp_ok _ a1 t1 optEnd ltac:(lia) ltac:(lia)) as [a2 [Hs [Hl2 _]]]. rewrite Hs. cbn [bind].
      destruct (IH a2 (S optEnd) e1 ltac:(lia) ltac:(lia) ltac:(lia)) as [a3 [e3 [H3' [HL3 He3]]]].
      do 2 eexists. split; [exact H3'|]. split; lia.
  Qed.

  (* every range, including empty and singleton: no UB, enough fuel, same number of elements, returned
     iterator inside the range *)
  Lemma extractDominated_no_UB_lemma : forall l : list A,
    exists arr k, extractDominated_idx dom l = Ok (arr, k) /\ length arr = length l /\ k <= length l.
  Proof.
    intros l. unfold extractDominated_idx. destruct (length l <? 2).
    - do 2 eexists. split; [reflexivity|]. split; lia.
    - destruct (ed_outer_ok (S (length l)) l 0 (length l) ltac:(lia) ltac:(lia) ltac:(lia)) as [arr [k [H [HL Hk]]]].
      do 2 eexists. split; [exact H|]. split; lia.
  Qed.
End ED.

(* ==== 5. SARSOP witness / max lists ======================================================== *)
(* VEntry::observations invariant: v[0] = k with 1 <= k <= size (k-1 max ids, then the witnesses) *)
Definition wl_wf (v : list nat) : Prop := exists k, nth_error v 0 = Some k /\ 1 <= k /\ k <= length v.

Lemma ssf_ok : forall fuel v lo hi elem, lo <= hi -> hi <= length v -> hi - lo < fuel ->
  exists it, ssf fuel v lo hi elem = Ok it /\ lo <= it /\ it <= hi.
Proof.
  induction fuel as [|f IH]; intros v lo hi elem H1 H2 H3; [lia|]. cbn [ssf].
  destruct (Nat.eqb lo hi) eqn:E.
  - exists lo. split; [reflexivity|]. lia.
  - apply Nat.eqb_neq in E. destruct (rd_ok _ v lo ltac:(lia)) as [x [Hx _]]. rewrite Hx. cbn [bind].
    destruct (x <? elem).
    + destruct (IH v (S lo) hi elem ltac:(lia) ltac:(lia) ltac:(lia)) as [it [Hi Hr]]. exists it. split; [exact Hi|lia].
    + exists lo. split; [reflexivity|lia].
Qed.

Lemma nth_error_remove_at_lt : forall (A : Type) (l : list A) i j, i < j -> nth_error (remove_at l j) i = nth_error l i.
Proof.
  induction l as [|h t IH]; intros i j H; [destruct j; reflexivity|].
  destruct j as [|j]; [lia|]. destruct i as [|i]; cbn; [reflexivity|]. apply IH. lia.
Qed.

Lemma nth_error_insert_at_raw_lt : forall (A : Type) (l : list A) i j x, i < j -> j <= length l ->
  nth_error (insert_at_raw l j x) i = nth_error l i.
Proof.
  induction l as [|h t IH]; intros i j x H Hj; cbn in Hj; [lia|].
  destruct j as [|j]; [lia|]. destruct i as [|i]; cbn; [reflexivity|]. apply IH; lia.
Qed.

Lemma nth_error_set_nth_0 : forall (A : Type) (l : list A) x, 0 < length l -> nth_error (set_nth l 0 x) 0 = Some x.
Proof. intros A [|h t] x H; cbn in *; [lia|reflexivity]. Qed.

Lemma it_at_ok : forall v k, k <= length v -> it_at v k = Ok k.
Proof. intros. unfold it_at. apply Nat.leb_le in H. rewrite H. reflexivity. Qed.

Lemma rd0 : forall (v : list nat) k, nth_error v 0 = Some k -> rd v 0 = Ok k.
Proof. intros v k H. unfold rd. rewrite H. reflexivity. Qed.

(* insertion of a witness at a position >= v[0] keeps the invariant *)
Lemma wl_insert_wf : forall v k it id, nth_error v 0 = Some k -> 1 <= k -> k <= length v -> k <= it -> it <= length v ->
  exists v', insert_at v it id = Ok v' /\ wl_wf v'.
Proof.
  intros v k it id H0 H1 H2 H3 H4. rewrite insert_at_ok by lia. eexists. split; [reflexivity|].
  exists k. rewrite nth_error_insert_at_raw_lt by lia. rewrite insert_at_raw_length by lia. repeat split; auto; lia.
Qed.

(* the tail "find the witness position; insert unless present" shared by addWit and rmMax *)
Lemma wl_wit_insert_ok : forall v k id, nth_error v 0 = Some k -> 1 <= k -> k <= length v ->
  exists v', (do it <- ssf (S (length v)) v k (length v) id;
              if Nat.eqb it (length v) then insert_at v it id
              else do x <- rd v it; if Nat.eqb x id then Ok v else insert_at v it id) = Ok v' /\ wl_wf v'.
Proof.
  intros v k id H0 H1 H2.
  destruct (ssf_ok (S (length v)) v k (length v) id ltac:(lia) ltac:(lia) ltac:(lia)) as [it [Hit [Ha Hb]]].
  rewrite Hit. cbn [bind]. destruct (Nat.eqb it (length v)) eqn:E.
  - apply (wl_insert_wf v k it id); auto.
  - apply Nat.eqb_neq in E. destruct (rd_ok _ v it ltac:(lia)) as [x [Hx _]]. rewrite Hx. cbn [bind].
    destruct (Nat.eqb x id).
    + exists v. split; [reflexivity|]. exists k. auto.
    + apply (wl_insert_wf v k it id); auto.
Qed.

Lemma rmWit_ok : forall nS id v, wl_wf v -> exists v', rmWit nS id v = Ok v' /\ wl_wf v'.
Proof.
  intros nS id v [k [H0 [H1 H2]]]. unfold rmWit. destruct (id <? nS).
  { exists v. split; [reflexivity|]. exists k. auto. }
  rewrite (rd0 v k H0). cbn [bind]. rewrite it_at_ok by lia. cbn [bind].
  destruct (ssf_ok (S (length v)) v k (length v) id ltac:(lia) ltac:(lia) ltac:(lia)) as [it [Hit [Ha Hb]]].
  rewrite Hit. cbn [bind]. destruct (Nat.eqb it (length v)) eqn:E.
  { exists v. split; [reflexivity|]. exists k. auto. }
  apply Nat.eqb_neq in E. destruct (rd_ok _ v it ltac:(lia)) as [x [Hx _]]. rewrite Hx. cbn [bind].
  destruct (Nat.eqb x id).
  - rewrite erase_at_ok by lia. eexists. split; [reflexivity|].
    exists k. rewrite nth_error_remove_at_lt by lia. rewrite remove_at_length by lia. repeat split; auto; lia.
  - exists v. split; [reflexivity|]. exists k. auto.
Qed.

(* "is id among the maxes" : positions 1 .. v[0]-1 *)
Lemma wl_find_max_ok : forall v k id, k <= length v -> 1 <= k ->
  exists it found, ssf (S (length v)) v 1 k id = Ok it /\ 1 <= it /\ it <= k /\
    (if Nat.eqb it k then Ok false else do x <- rd v it; Ok (Nat.eqb x id)) = Ok found /\
    (found = true -> it < k).
Proof.
  intros v k id H1 H2.
  destruct (ssf_ok (S (length v)) v 1 k id ltac:(lia) ltac:(lia) ltac:(lia)) as [it [Hit [Ha Hb]]].
  exists it. destruct (Nat.eqb it k) eqn:E.
  - exists false. repeat split; auto. discriminate.
  - apply Nat.eqb_neq in E. destruct (rd_ok _ v it ltac:(lia)) as [x [Hx _]].
    exists (Nat.eqb x id). rewrite Hx. cbn [bind]. repeat split; auto. intros _. lia.
Qed.

Lemma addWit_ok : forall nS id v, wl_wf v -> exists v', addWit nS id v = Ok v' /\ wl_wf v'.
Proof.
  intros nS id v [k [H0 [H1 H2]]]. unfold addWit. destruct (id <? nS).
  { exists v. split; [reflexivity|]. exists k. auto. }
  rewrite (rd0 v k H0). cbn [bind]. rewrite it_at_ok by lia. cbn [bind].
  destruct (wl_find_max_ok v k id H2 H1) as [it [found [Hit [Ha [Hb [Hf _]]]]]].
  rewrite Hit. cbn [bind]. rewrite Hf. cbn [bind]. destruct found.
  { exists v. split; [reflexivity|]. exists k. auto. }
  apply wl_wit_insert_ok; auto.
Qed.

Lemma addMax_ok : forall nS id v, wl_wf v -> exists v', addMax nS id v = Ok v' /\ wl_wf v'.
Proof.
  intros nS id v0 Hwf. unfold addMax.
  destruct (rmWit_ok nS id v0 Hwf) as [v [Hr [k [H0 [H1 H2]]]]]. rewrite Hr. cbn [bind].
  rewrite (rd0 v k H0). cbn [bind]. rewrite it_at_ok by lia. cbn [bind].
  destruct (wl_find_max_ok v k id H2 H1) as [it [found [Hit [Ha [Hb [Hf _]]]]]].
  rewrite Hit. cbn [bind]. rewrite Hf. cbn [bind]. destruct found.
  { exists v. split; [reflexivity|]. exists k. auto. }
  rewrite insert_at_ok by lia. cbn [bind].
  assert (Hh : nth_error (insert_at_raw v it id) 0 = Some k) by (rewrite nth_error_insert_at_raw_lt by lia; exact H0).
  rewrite (rd0 _ k Hh). cbn [bind].
  rewrite wr_ok by (rewrite insert_at_raw_length by lia; lia).
  eexists. split; [reflexivity|]. exists (S k).
  rewrite nth_error_set_nth_0 by (rewrite insert_at_raw_length by lia; lia).
  rewrite set_nth_length, insert_at_raw_length by lia. repeat split; lia.
Qed.

Lemma rmMax_ok : forall nS id sk v, wl_wf v -> exists v', rmMax nS id sk v = Ok v' /\ wl_wf v'.
Proof.
  intros nS id sk v [k [H0 [H1 H2]]]. unfold rmMax.
  rewrite (rd0 v k H0). cbn [bind]. rewrite it_at_ok by lia. cbn [bind].
  destruct (wl_find_max_ok v k id H2 H1) as [it [found [Hit [Ha [Hb [Hf Hlt]]]]]].
  rewrite Hit. cbn [bind]. rewrite Hf. cbn [bind]. destruct found; cbn [negb].
  2:{ exists v. split; [reflexivity|]. exists k. auto. }
  specialize (Hlt eq_refl).
  rewrite erase_at_ok by lia. cbn [bind].
  assert (Hh : nth_error (remove_at v it) 0 = Some k) by (rewrite nth_error_remove_at_lt by lia; exact H0).
  rewrite (rd0 _ k Hh). cbn [bind].
  destruct k as [|k']; [lia|].
  assert (Hl1 : length (remove_at v it) = length v - 1) by (apply remove_at_length; lia).
  rewrite wr_ok by lia. cbn [bind].
  set (v2 := set_nth (remove_at v it) 0 k').
  assert (Hh2 : nth_error v2 0 = Some k') by (apply nth_error_set_nth_0; lia).
  assert (Hl2 : length v2 = length v - 1) by (unfold v2; rewrite set_nth_length; exact Hl1).
  destruct (sk || (id <? nS)).
  { exists v2. split; [reflexivity|]. exists k'. repeat split; auto; lia. }
  rewrite (rd0 v2 k' Hh2). cbn [bind]. rewrite it_at_ok by lia. cbn [bind].
  apply wl_wit_insert_ok; auto; lia.
Qed.

Lemma wrun_ok : forall nS ops v, wl_wf v -> exists v', wrun nS ops v = Ok v' /\ wl_wf v'.
Proof.
  intros nS. induction ops as [|o r IH]; intros v Hwf; cbn [wrun].
  - exists v. auto.
  - assert (Hs : exists v1, wstep nS o v = Ok v1 /\ wl_wf v1).
    { destruct o; cbn [wstep]; [apply addWit_ok|apply rmWit_ok|apply addMax_ok|apply rmMax_ok]; exact Hwf. }
    destruct Hs as [v1 [H1 Hwf1]]. rewrite H1. cbn [bind]. apply IH. exact Hwf1.
Qed.

Lemma witness_lists_no_UB_lemma : forall nS ops v, wl_wf v -> wrun nS ops v <> UB /\ wrun nS ops v <> Fuel.
Proof. intros nS ops v H. destruct (wrun_ok nS ops v H) as [v' [E _]]. rewrite E. split; discriminate. Qed.

(* a list violating the invariant (v[0] beyond the size, e.g. a default-constructed empty vector) *)
Lemma witness_lists_need_invariant : wrun 0 [OAddWit 3] [] = UB /\ wrun 0 [ORmWit 3] [5; 1] = UB.
Proof. split; reflexivity. Qed.

(* ==== 6. SARSOP::deltaPrune, last loop: *domIt with domIt == end ============================ *)
Section DP.
  Variable A : Type.
  Variable ddom : A -> A -> bool.

  Lemma fbdd_none : forall (arr : list A) cnt i cur retval,
    i + cnt <= length arr -> (forall x y, ddom x y = false) -> fbdd ddom arr i cnt cur retval = Ok retval.
  Proof.
    intros arr. induction cnt as [|c IH]; intros i cur retval H Hd; cbn [fbdd]; [reflexivity|].
    destruct (rd_ok _ arr i ltac:(lia)) as [x [Hx _]]. rewrite Hx. cbn [bind]. rewrite Hd. apply IH; auto; lia.
  Qed.

  (* whenever no entry delta-dominates the examined new vector (the normal case: it is the best at
     its witness point) and no dominated entry was moved behind [end] (end_ = size), the loop
     dereferences end() *)
  Lemma deltaPrune_end_deref_lemma : forall (arr : list A) it,
    it < length arr -> (forall x y, ddom x y = false) -> deltaPrune_last_deref ddom arr (length arr) it = UB.
  Proof.
    intros arr it Hit Hd. unfold deltaPrune_last_deref.
    destruct (rd_ok _ arr it Hit) as [p [Hp _]]. rewrite Hp. cbn [bind].
    rewrite fbdd_none by (auto; lia). cbn [bind].
    destruct (Nat.eqb it (length arr)) eqn:E; [apply Nat.eqb_eq in E; lia|].
    unfold rd. destruct (nth_error arr (length arr)) eqn:E2; [|reflexivity].
    assert (length arr < length arr) by (apply nth_error_Some; congruence). lia.
  Qed.
End DP.

Lemma deltaPrune_no_UB_refuted_lemma : exists (arr : list nat) it,
  it < length arr /\ deltaPrune_last_deref (fun _ _ => false) arr (length arr) it = UB.
Proof. exists [7], 0. split; [cbn; lia|reflexivity]. Qed.
