(* C10/ProofsEDI.v — extractDominatedIncremental (index form) never leaves [begin, end). *)
From Coq Require Import List Arith Bool Lia.
From AIT Require Import C10.Model C10.Proofs C10.Proofs2 C10.ModelEDI.
Import ListNotations.
Local Open Scope nat_scope.

Section EDI.
  Variable A : Type.
  Variable dom : A -> A -> bool.

  Lemma edr_outer_ok : forall fuel (arr : list A) b optEnd end_,
    b <= optEnd -> optEnd <= end_ -> end_ <= length arr -> end_ - optEnd < fuel ->
    exists arr' e', edr_outer dom fuel arr b optEnd end_ = Ok (arr', e') /\ length arr' = length arr /\
                    optEnd <= e' /\ e' <= end_.
  Proof.
    induction fuel as [|f IH]; intros arr b optEnd end_ H0 H1 H2 H3; [lia|].
    cbn [edr_outer]. destruct (optEnd <? end_) eqn:E.
    2:{ apply Nat.ltb_ge in E. do 2 eexists. split; [reflexivity|]. repeat split; lia. }
    apply Nat.ltb_lt in E. destruct end_ as [|t]; [lia|].
    destruct (ed_check_ok A dom (optEnd - b) arr b t ltac:(lia) ltac:(lia)) as [d Hd]. rewrite Hd. cbn [bind].
    destruct d.
    - destruct (IH arr b optEnd t ltac:(lia) ltac:(lia) ltac:(lia) ltac:(lia)) as [a' [e' [HE [HL [Ha Hb]]]]].
      do 2 eexists. split; [exact HE|]. repeat split; lia.
    - destruct (ed_back_ok A dom (S (length arr)) arr optEnd t t (S t) ltac:(lia) ltac:(lia) ltac:(lia) ltac:(lia) ltac:(lia))
        as [a1 [t1 [e1 [HE [HL [Ha [Hb Hc]]]]]]].
      rewrite HE. cbn [bind].
      destruct (swp_ok _ a1 t1 optEnd ltac:(lia) ltac:(lia)) as [a2 [Hs [Hl2 _]]]. rewrite Hs. cbn [bind].
      destruct (IH a2 b (S optEnd) e1 ltac:(lia) ltac:(lia) ltac:(lia) ltac:(lia)) as [a3 [e3 [H3' [HL3 [Hx Hy]]]]].
      do 2 eexists. split; [exact H3'|]. repeat split; lia.
  Qed.

  Lemma extractDominated_range_ok : forall (arr : list A) b e, b <= e -> e <= length arr ->
    exists arr' e', extractDominated_range dom arr b e = Ok (arr', e') /\ length arr' = length arr /\ b <= e' /\ e' <= e.
  Proof.
    intros arr b e H1 H2. unfold extractDominated_range. destruct (e - b <? 2).
    - do 2 eexists. split; [reflexivity|]. repeat split; lia.
    - apply edr_outer_ok; lia.
  Qed.

  Lemma edi_old_ok : forall fuel (arr : list A) begin old oldEnd target end_ isD,
    begin <= old -> old <= oldEnd -> oldEnd <= target -> target < end_ -> end_ <= length arr -> old - begin < fuel ->
    exists arr' oe' e', edi_old dom fuel arr begin old oldEnd target end_ isD = Ok (arr', oe', e') /\
      length arr' = length arr /\ begin <= oe' /\ oe' <= oldEnd /\ target <= e' /\ e' <= end_.
  Proof.
    induction fuel as [|f IH]; intros arr begin old oldEnd target end_ isD H1 H2 H3 H4 H5 H6; [lia|].
    cbn [edi_old]. destruct (begin <? old) eqn:E.
    2:{ apply Nat.ltb_ge in E. do 3 eexists. split; [reflexivity|]. repeat split; lia. }
    apply Nat.ltb_lt in E. destruct old as [|o]; [lia|].
    destruct (rd_ok _ arr o ltac:(lia)) as [x [Hx _]]. destruct (rd_ok _ arr target ltac:(lia)) as [t [Ht _]].
    rewrite Hx, Ht. cbn [bind].
    destruct (negb isD && dom x t).
    - destruct end_ as [|e]; [lia|].
      destruct (swp_ok _ arr target e ltac:(lia) ltac:(lia)) as [arr' [Hs [Hl _]]]. rewrite Hs. cbn [bind].
      do 3 eexists. split; [reflexivity|]. repeat split; lia.
    - destruct (dom t x).
      + destruct oldEnd as [|oe]; [lia|].
        destruct (swp_ok _ arr o oe ltac:(lia) ltac:(lia)) as [arr' [Hs [Hl _]]]. rewrite Hs. cbn [bind].
        destruct (IH arr' begin o oe target end_ true ltac:(lia) ltac:(lia) ltac:(lia) ltac:(lia) ltac:(lia) ltac:(lia))
          as [a2 [oe2 [e2 [HE [HL [Ha [Hb [Hc Hd]]]]]]]].
        do 3 eexists. split; [exact HE|]. repeat split; lia.
      + destruct (IH arr begin o oldEnd target end_ isD ltac:(lia) ltac:(lia) ltac:(lia) ltac:(lia) ltac:(lia) ltac:(lia))
          as [a2 [oe2 [e2 [HE [HL [Ha [Hb [Hc Hd]]]]]]]].
        do 3 eexists. split; [exact HE|]. repeat split; lia.
  Qed.

  Lemma edi_outer_ok : forall fuel (arr : list A) begin newBegin oldEnd target end_,
    begin <= oldEnd -> oldEnd <= newBegin -> newBegin <= target -> target <= end_ -> end_ <= length arr ->
    target - newBegin < fuel ->
    exists arr' oe' e', edi_outer dom fuel arr begin newBegin oldEnd target end_ = Ok (arr', oe', e') /\
      length arr' = length arr /\ begin <= oe' /\ oe' <= newBegin /\ newBegin <= e' /\ e' <= end_.
  Proof.
    induction fuel as [|f IH]; intros arr begin newBegin oldEnd target end_ H1 H2 H3 H4 H5 H6; [lia|].
    cbn [edi_outer]. destruct (newBegin <? target) eqn:E.
    2:{ apply Nat.ltb_ge in E. do 3 eexists. split; [reflexivity|]. repeat split; lia. }
    apply Nat.ltb_lt in E. destruct target as [|tg]; [lia|].
    destruct (edi_old_ok (S (length arr)) arr begin oldEnd oldEnd tg end_ false
                ltac:(lia) ltac:(lia) ltac:(lia) ltac:(lia) ltac:(lia) ltac:(lia))
      as [a1 [oe1 [e1 [HE [HL [Ha [Hb [Hc Hd]]]]]]]].
    rewrite HE. cbn [bind].
    destruct (IH a1 begin newBegin oe1 tg e1 ltac:(lia) ltac:(lia) ltac:(lia) ltac:(lia) ltac:(lia) ltac:(lia))
      as [a2 [oe2 [e2 [HE2 [HL2 [Ha2 [Hb2 [Hc2 Hd2]]]]]]]].
    do 3 eexists. split; [exact HE2|]. repeat split; lia.
  Qed.

  Lemma edi_shuffle_ok : forall fuel (arr : list A) newBegin oldSwap newSwap,
    oldSwap <= newBegin -> newBegin <= newSwap -> newSwap <= length arr -> newSwap - newBegin < fuel ->
    exists arr' os' ns', edi_shuffle_idx fuel arr newBegin oldSwap newSwap = Ok (arr', os', ns') /\
      length arr' = length arr /\ oldSwap <= os' /\ os' <= newBegin /\ newBegin <= ns' /\ ns' <= newSwap.
  Proof.
    induction fuel as [|f IH]; intros arr newBegin oldSwap newSwap H1 H2 H3 H4; [lia|].
    cbn [edi_shuffle_idx].
    destruct (newBegin <? newSwap) eqn:E1; cbn [andb].
    2:{ do 3 eexists. split; [reflexivity|]. repeat split; lia. }
    destruct (oldSwap <? newBegin) eqn:E2.
    2:{ do 3 eexists. split; [reflexivity|]. repeat split; lia. }
    apply Nat.ltb_lt in E1, E2. destruct newSwap as [|ns]; [lia|].
    destruct (swp_ok _ arr ns oldSwap ltac:(lia) ltac:(lia)) as [arr' [Hs [Hl _]]]. rewrite Hs. cbn [bind].
    destruct (IH arr' newBegin (S oldSwap) ns ltac:(lia) ltac:(lia) ltac:(lia) ltac:(lia))
      as [a2 [os2 [ns2 [HE [HL [Ha [Hb [Hc Hd]]]]]]]].
    do 3 eexists. split; [exact HE|]. repeat split; lia.
  Qed.

  (* any array, any begin <= newBegin <= end inside it (old range empty, new range empty, … included),
     any [dominates]: no UB, no fuel exhaustion, same number of elements, and the three returned
     iterators are ordered begin <= oldEnd <= mid <= end' <= end *)
  Lemma extractDominatedIncremental_no_UB_lemma : forall (arr : list A) begin newBegin end0,
    begin <= newBegin -> newBegin <= end0 -> end0 <= length arr ->
    exists arr' oldEnd mid end',
      extractDominatedIncremental_idx dom arr begin newBegin end0 = Ok (arr', oldEnd, mid, end') /\
      length arr' = length arr /\ begin <= oldEnd /\ oldEnd <= mid /\ mid <= end' /\ end' <= end0.
  Proof.
    intros arr begin newBegin end0 H1 H2 H3. unfold extractDominatedIncremental_idx.
    destruct (extractDominated_range_ok arr newBegin end0 H2 H3) as [a1 [e1 [HE1 [HL1 [Ha1 Hb1]]]]].
    rewrite HE1. cbn [bind].
    destruct (edi_outer_ok (S (length a1)) a1 begin newBegin newBegin e1 e1
                ltac:(lia) ltac:(lia) ltac:(lia) ltac:(lia) ltac:(lia) ltac:(lia))
      as [a2 [oe [e2 [HE2 [HL2 [Ha2 [Hb2 [Hc2 Hd2]]]]]]]].
    rewrite HE2. cbn [bind].
    destruct (edi_shuffle_ok (S (length a2)) a2 newBegin oe e2 ltac:(lia) ltac:(lia) ltac:(lia) ltac:(lia))
      as [a3 [os [ns [HE3 [HL3 [Ha3 [Hb3 [Hc3 Hd3]]]]]]]].
    rewrite HE3. cbn [bind].
    do 4 eexists. split; [reflexivity|]. split; [lia|].
    destruct (Nat.eqb ns newBegin) eqn:E; [apply Nat.eqb_eq in E|apply Nat.eqb_neq in E]; repeat split; lia.
  Qed.
End EDI.
