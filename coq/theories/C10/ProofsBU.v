(* C10/ProofsBU.v — no-UB lemmas for the index model of extractBestUsefulPoints (C10/ModelBU.v). *)
From Coq Require Import List Arith Bool Lia Permutation.
From AIT Require Import C10.Model C10.Proofs C10.ModelBU.
Import ListNotations.
Local Open Scope nat_scope.

(* ---- swaps are permutations ---------------------------------------------------------------- *)
Lemma nth_error_set_nth_eq : forall (A : Type) (l : list A) i x, i < length l -> nth_error (set_nth l i x) i = Some x.
Proof. induction l as [|h t IH]; intros [|i] x H; cbn in *; try lia; auto. apply IH. lia. Qed.

Lemma nth_error_set_nth_neq : forall (A : Type) (l : list A) i j x, i <> j ->
  nth_error (set_nth l i x) j = nth_error l j.
Proof.
  induction l as [|h t IH]; intros [|i] [|j] x H; cbn [set_nth nth_error]; auto; try lia.
Qed.

Lemma set_nth_perm : forall (A : Type) (l : list A) i x y, nth_error l i = Some x ->
  Permutation (y :: l) (x :: set_nth l i y).
Proof.
  induction l as [|h t IH]; intros [|i] x y H; cbn [nth_error] in H; try discriminate.
  - inversion H; subst. cbn [set_nth]. apply perm_swap.
  - cbn [set_nth]. eapply perm_trans; [apply perm_swap|].
    eapply perm_trans; [apply perm_skip; apply (IH i x y H)|]. apply perm_swap.
Qed.

Lemma swp_perm : forall (A : Type) (l l' : list A) i j, swp l i j = Ok l' -> Permutation l l'.
Proof.
  intros A l l' i j H. unfold swp in H.
  destruct (rd l i) as [x| |] eqn:Ex; cbn [bind] in H; try discriminate.
  destruct (rd l j) as [y| |] eqn:Ey; cbn [bind] in H; try discriminate.
  destruct (wr l i y) as [l1| |] eqn:E1; cbn [bind] in H; try discriminate.
  apply rd_inv in Ex. destruct Ex as [Ex Hi]. apply rd_inv in Ey. destruct Ey as [Ey Hj].
  apply wr_inv in E1. destruct E1 as [E1 _]. apply wr_inv in H. destruct H as [H _]. subst l1 l'.
  assert (Hy : nth_error (set_nth l i y) j = Some y).
  { destruct (Nat.eq_dec i j) as [->|Hne].
    - apply nth_error_set_nth_eq. exact Hj.
    - rewrite nth_error_set_nth_neq by exact Hne. exact Ey. }
  apply (Permutation_cons_inv (a := y)).
  eapply perm_trans; [apply (set_nth_perm A l i x y Ex)|].
  apply (set_nth_perm A (set_nth l i y) j y x Hy).
Qed.

(* ---- counting the supported hyperplanes ---------------------------------------------------- *)
Definition isSome {V : Type} (e : bventry V) : bool := match fst e with Some _ => true | None => false end.
Definition countS {V : Type} (bv : list (bventry V)) : nat := length (filter isSome bv).

Lemma countS_le : forall (V : Type) (l : list (bventry V)), countS l <= length l.
Proof.
  intros V. unfold countS. induction l as [|h t IH]; cbn [filter length]; [lia|].
  destruct (isSome h); cbn [length]; lia.
Qed.

Lemma countS_set_nth : forall (V : Type) (l : list (bventry V)) i e e', nth_error l i = Some e ->
  countS (set_nth l i e') + (if isSome e then 1 else 0) = countS l + (if isSome e' then 1 else 0).
Proof.
  intros V. unfold countS. induction l as [|h t IH]; intros [|i] e e' H; cbn [nth_error] in H; try discriminate.
  - inversion H; subst. cbn [set_nth filter]. destruct (isSome e), (isSome e'); cbn [length]; lia.
  - cbn [set_nth filter]. specialize (IH i e e' H). destruct (isSome h); cbn [length]; lia.
Qed.

Lemma countS_full : forall (V : Type) (l : list (bventry V)), countS l = length l ->
  Forall (fun e => isSome e = true) l.
Proof.
  intros V. induction l as [|h t IH]; intros H; [constructor|].
  unfold countS in H. cbn [filter length] in H. pose proof (countS_le V t) as Hle. unfold countS in Hle.
  destruct (isSome h) eqn:Eh; cbn [length] in H.
  - constructor; [exact Eh|]. apply IH. unfold countS. lia.
  - lia.
Qed.

Lemma countS_repeat_none : forall (V : Type) n, countS (repeat (@None nat, @None V) n) = 0.
Proof. intros V. unfold countS. induction n as [|n IH]; cbn [repeat filter isSome fst]; auto. Qed.

Section BUP.
  Variables Pt V : Type.
  Variable fb : Pt -> nat * V.
  Variable vlt : V -> V -> bool.
  Variable vlow : V -> bool.
  Variable entriesN : nat.
  Hypothesis HN : entriesN > 0.
  Hypothesis Hfb : forall p, fst (fb p) < entriesN.

  (* every recorded iterator points strictly before [it] *)
  Definition bv_ok (it : nat) (bv : list (bventry V)) : Prop :=
    Forall (fun e : bventry V => match fst e with Some k => k < it | None => True end) bv.

  Lemma bv_ok_mono : forall it it' bv, it <= it' -> bv_ok it bv -> bv_ok it' bv.
  Proof.
    intros it it' bv H. unfold bv_ok. apply Forall_impl. intros [[k|] w]; cbn [fst]; auto. lia.
  Qed.

  Lemma findBest_ok : forall p, findBest fb entriesN p = Ok (fb p).
  Proof. intros p. unfold findBest. destruct entriesN; [lia|reflexivity]. Qed.

  Lemma bu_loop1_ok : forall fuel pts bv it bound maxB,
    length bv = entriesN -> it <= bound -> bound <= length pts -> it <= maxB ->
    bv_ok it bv -> countS bv = it -> bound - it < fuel ->
    exists pts' bv' it' bound',
      bu_loop1 fb vlt vlow entriesN fuel pts bv it bound maxB = Ok (pts', bv', it', bound') /\
      length pts' = length pts /\ Permutation pts pts' /\ length bv' = entriesN /\
      it' <= bound' /\ bound' <= length pts /\ it' <= maxB /\ bv_ok it' bv' /\ countS bv' = it' /\
      (it' = bound' \/ it' = maxB).
  Proof.
    induction fuel as [|f IH]; intros pts bv it bound maxB Hbv Hib Hbl Him Hok Hcnt Hf; [lia|].
    cbn [bu_loop1].
    destruct ((it <? bound) && (it <? maxB)) eqn:Ec.
    2:{ exists pts, bv, it, bound. split; [reflexivity|].
        repeat (split; [solve [auto using Permutation_refl]|]).
        apply andb_false_iff in Ec. destruct Ec as [Ec|Ec]; apply Nat.ltb_ge in Ec; lia. }
    apply andb_true_iff in Ec. destruct Ec as [Ec1 Ec2]. apply Nat.ltb_lt in Ec1. apply Nat.ltb_lt in Ec2.
    destruct (rd_ok _ pts it) as [p [Hp _]]; [lia|]. rewrite Hp. cbn [bind].
    rewrite findBest_ok. cbn [bind].
    pose proof (Hfb p) as Hv. destruct (fb p) as [vId value]. cbn [fst] in Hv.
    destruct (rd_ok _ bv vId) as [e [He He']]; [lia|]. rewrite He. cbn [bind].
    (* std::iter_swap(it, --bound) and the rest of the loop *)
    assert (Hdisc : forall pts1 bv1, length pts1 = length pts -> Permutation pts pts1 ->
      length bv1 = entriesN -> bv_ok it bv1 -> countS bv1 = it ->
      exists pts' bv' it' bound',
        match bound with
        | O => UB
        | S b => do pts2 <- swp pts1 it b; bu_loop1 fb vlt vlow entriesN f pts2 bv1 it b maxB
        end = Ok (pts', bv', it', bound') /\
        length pts' = length pts /\ Permutation pts pts' /\ length bv' = entriesN /\
        it' <= bound' /\ bound' <= length pts /\ it' <= maxB /\ bv_ok it' bv' /\ countS bv' = it' /\
        (it' = bound' \/ it' = maxB)).
    { intros pts1 bv1 L1 P1 Lb1 Ok1 C1. destruct bound as [|b]; [lia|].
      destruct (swp_ok _ pts1 it b) as (pts2 & E2 & L2 & _); [lia|lia|]. rewrite E2. cbn [bind].
      destruct (IH pts2 bv1 it b maxB Lb1) as (pts' & bv' & it' & bound' & E & R1 & R2 & R3 & R4 & R5 & R6);
        try lia; auto.
      exists pts', bv', it', bound'. split; [exact E|].
      split; [lia|]. split; [eapply perm_trans; [exact P1|]; eapply perm_trans; [apply (swp_perm _ _ _ _ _ E2)|exact R2]|].
      split; [exact R3|]. split; [tauto|]. split; [lia|]. tauto. }
    destruct (second_lt vlt vlow e value).
    2:{ apply Hdisc; auto. }
    assert (Hek : match fst e with Some k => k < it | None => True end).
    { apply (rd_Forall _ (fun e : bventry V => match fst e with Some k => k < it | None => True end) bv vId e Hok He). }
    destruct e as [[k|] w]; cbn [fst] in *.
    - (* already supported: replace the recorded point if better, discard the other *)
      rewrite wr_ok by lia. cbn [bind].
      destruct (swp_ok _ pts k it) as (pts1 & E1 & L1 & _); [lia|lia|]. rewrite E1. cbn [bind].
      apply Hdisc.
      + exact L1.
      + apply (swp_perm _ _ _ _ _ E1).
      + rewrite set_nth_length. exact Hbv.
      + apply set_nth_Forall; [exact Hok|]. cbn [fst]. exact Hek.
      + pose proof (countS_set_nth V bv vId (Some k, w) (Some k, Some value) He') as Hc.
        unfold isSome in Hc. cbn [fst] in Hc. lia.
    - (* first support of hyperplane vId: keep the point, advance it *)
      rewrite wr_ok by lia. cbn [bind].
      destruct (IH pts (set_nth bv vId (Some it, Some value)) (S it) bound maxB)
        as (pts' & bv' & it' & bound' & E & R); try lia.
      + rewrite set_nth_length. exact Hbv.
      + apply set_nth_Forall; [apply (bv_ok_mono it); [lia|exact Hok]|]. cbn [fst]. lia.
      + pose proof (countS_set_nth V bv vId (None, w) (Some it, Some value) He') as Hc.
        unfold isSome in Hc. cbn [fst] in Hc. lia.
      + exists pts', bv', it', bound'. split; [exact E|exact R].
  Qed.

  Lemma bu_loop2_ok : forall fuel pts bv it bound,
    length bv = entriesN -> bound <= length pts ->
    Forall (fun e : bventry V => exists k, fst e = Some k /\ k < it) bv -> bound - it < fuel ->
    exists pts', bu_loop2 fb vlt vlow entriesN fuel pts bv it bound = Ok pts' /\
                 length pts' = length pts /\ Permutation pts pts'.
  Proof.
    induction fuel as [|f IH]; intros pts bv it bound Hbv Hbl Hall Hf; [lia|].
    cbn [bu_loop2]. destruct (it <? bound) eqn:Ec.
    2:{ exists pts. split; [reflexivity|]. split; [reflexivity|apply Permutation_refl]. }
    apply Nat.ltb_lt in Ec.
    destruct (rd_ok _ pts it) as [p [Hp _]]; [lia|]. rewrite Hp. cbn [bind].
    rewrite findBest_ok. cbn [bind].
    pose proof (Hfb p) as Hv. destruct (fb p) as [vId value]. cbn [fst] in Hv.
    destruct (rd_ok _ bv vId) as [e [He He']]; [lia|]. rewrite He. cbn [bind].
    assert (Hmono : forall bv1, Forall (fun e : bventry V => exists k, fst e = Some k /\ k < it) bv1 ->
                                Forall (fun e : bventry V => exists k, fst e = Some k /\ k < S it) bv1).
    { intros bv1. apply Forall_impl. intros a (k & Hk1 & Hk2). exists k. split; [exact Hk1|lia]. }
    destruct (second_lt vlt vlow e value).
    - rewrite wr_ok by lia. cbn [bind].
      pose proof (rd_Forall _ _ bv vId e Hall He) as (k & Hk1 & Hk2). cbn beta in Hk1, Hk2.
      rewrite Hk1.
      destruct (swp_ok _ pts k it) as (pts1 & E1 & L1 & _); [lia|lia|]. rewrite E1. cbn [bind].
      destruct (IH pts1 (set_nth bv vId (Some k, Some value)) (S it) bound) as (pts' & E & R1 & R2); try lia.
      + rewrite set_nth_length. exact Hbv.
      + apply Hmono. apply set_nth_Forall; [exact Hall|]. exists k. cbn [fst]. auto.
      + exists pts'. split; [exact E|]. split; [lia|].
        eapply perm_trans; [apply (swp_perm _ _ _ _ _ E1)|exact R2].
    - destruct (IH pts bv (S it) bound) as (pts' & E & R); try lia; auto.
      exists pts'. split; [exact E|exact R].
  Qed.

  (* with a non-empty hyperplane range (and findBestAtPoint returning an iterator inside it) no access
     is out of range; the points are permuted and the returned iterator lies within [pbegin, pend] *)
  Theorem extractBestUsefulPoints_no_UB_lemma : forall points,
    exists pts k, extractBestUsefulPoints_idx fb vlt vlow entriesN points = Ok (pts, k) /\
                  k <= length points /\ length pts = length points /\ Permutation points pts.
  Proof.
    intros points. unfold extractBestUsefulPoints_idx.
    set (n := length points). set (maxB := if n <? entriesN then n else entriesN).
    assert (HmaxB : maxB <= n /\ (maxB = n \/ maxB = entriesN)).
    { unfold maxB. destruct (n <? entriesN) eqn:E; [lia|]. apply Nat.ltb_ge in E. lia. }
    destruct (bu_loop1_ok (S n) points (repeat (None, None) entriesN) 0 n maxB)
      as (pts & bv & it & bound & E & L & Pm & Lbv & H1 & H2 & H3 & Hok & Hcnt & Hex); try (fold n; lia).
    - apply repeat_length.
    - unfold bv_ok. apply Forall_forall. intros e He. apply repeat_spec in He. subst e. cbn [fst]. exact I.
    - apply countS_repeat_none.
    - rewrite E. cbn [bind]. fold n in H2, L.
      destruct (Nat.eqb it bound) eqn:Eib.
      + exists pts, it. split; [reflexivity|]. split; [lia|]. split; [exact L|exact Pm].
      + apply Nat.eqb_neq in Eib.
        assert (Hit : it = entriesN) by lia.
        assert (Hall : Forall (fun e : bventry V => exists k, fst e = Some k /\ k < it) bv).
        { pose proof (countS_full V bv ltac:(lia)) as Hfull.
          unfold bv_ok in Hok. rewrite Forall_forall in *. intros e He.
          specialize (Hfull e He). specialize (Hok e He). unfold isSome in Hfull.
          destruct (fst e) as [k|]; [|discriminate]. exists k. auto. }
        destruct (bu_loop2_ok (S n) pts bv it bound Lbv ltac:(lia) Hall ltac:(lia)) as (pts2 & E2 & L2 & P2).
        rewrite E2. cbn [bind]. exists pts2, maxB. split; [reflexivity|].
        split; [lia|]. split; [lia|]. eapply perm_trans; [exact Pm|exact P2].
  Qed.
End BUP.

(* An EMPTY hyperplane range with a non-empty point range is undefined: the first loop is skipped
   (maxBound == pbegin), [it != bound], and the second loop calls findBestAtPoint( *it, begin, end) with
   begin == end, which evaluates point.dot( *begin ) (Polytope.hpp:67, reached from :291). *)
Theorem extractBestUsefulPoints_empty_planes_UB : forall (Pt V : Type) (p : Pt) (ps : list Pt)
    (fb : Pt -> nat * V) vlt vlow,
  extractBestUsefulPoints_idx fb vlt vlow 0 (p :: ps) = UB.
Proof.
  intros Pt V p ps fb vlt vlow. unfold extractBestUsefulPoints_idx.
  cbn [length Nat.ltb Nat.leb bu_loop1 andb repeat bind Nat.eqb].
  replace (0 <? S (length ps)) with true by (symmetry; apply Nat.ltb_lt; lia).
  cbn [andb Nat.ltb Nat.leb bind Nat.eqb bu_loop2].
  replace (0 <? S (length ps)) with true by (symmetry; apply Nat.ltb_lt; lia).
  cbn [rd nth_error bind findBest Nat.eqb]. reflexivity.
Qed.

(* ---- computed examples --------------------------------------------------------------------- *)
(* points are (best hyperplane, value) pairs themselves; three hyperplanes *)
Definition ex_fb (p : nat * nat) : nat * nat := p.

(* hyperplane 0 is supported by points of value 5, 7, 6, hyperplane 2 by 1, 9, hyperplane 1 by none:
   the first loop runs until it == bound (bound decremented three times, two replacing swaps); the best
   point of each supported hyperplane ends up in front and the returned index is 2 *)
Example ex_extractBestUsefulPoints_run :
  extractBestUsefulPoints_idx ex_fb Nat.ltb (fun _ => true) 3 [(0, 5); (2, 1); (0, 7); (2, 9); (0, 6)]
  = Ok ([(0, 7); (2, 9); (2, 1); (0, 6); (0, 5)], 2).
Proof. vm_compute. reflexivity. Qed.

(* two hyperplanes, both supported by the first two points: the first loop stops at it == maxBound == 2
   with it < bound, the second loop runs over the remaining three points and replaces both entries *)
Example ex_extractBestUsefulPoints_second_loop :
  extractBestUsefulPoints_idx ex_fb Nat.ltb (fun _ => true) 2 [(0, 5); (1, 1); (0, 7); (1, 9); (0, 6)]
  = Ok ([(0, 7); (1, 9); (0, 5); (1, 1); (0, 6)], 2).
Proof. vm_compute. reflexivity. Qed.

Example ex_extractBestUsefulPoints_no_UB_hyps :
  3 > 0 /\ forall p, In p [(0, 5); (2, 1); (0, 7); (2, 9); (0, 6)] -> fst (ex_fb p) < 3.
Proof. split; [lia|]. intros p H. cbn [In] in H. repeat (destruct H as [<-|H]; [cbn; lia|]). contradiction. Qed.

Example ex_extractBestUsefulPoints_empty_planes :
  extractBestUsefulPoints_idx ex_fb Nat.ltb (fun _ => true) 0 [(0, 5)] = UB.
Proof. vm_compute. reflexivity. Qed.

(* the repaired routine: every hyperplane range, also the empty one *)
Lemma extractBestUsefulPoints_fix_no_UB_lemma : forall (Pt V : Type) (fb : Pt -> nat * V) (vlt : V -> V -> bool)
  (vlow : V -> bool) (entriesN : nat),
  (forall p, entriesN > 0 -> fst (fb p) < entriesN) ->
  forall points, exists pts k,
    extractBestUsefulPoints_fix fb vlt vlow entriesN points = Ok (pts, k) /\
    k <= length points /\ length pts = length points /\ Permutation.Permutation points pts.
Proof.
  intros Pt V fb vlt vlow entriesN Hfb points. unfold extractBestUsefulPoints_fix.
  destruct (Nat.eqb entriesN 0) eqn:E.
  - exists points, 0. split; [reflexivity|]. split; [apply Nat.le_0_l|]. split; [reflexivity|apply Permutation.Permutation_refl].
  - apply Nat.eqb_neq in E. assert (H0 : entriesN > 0) by (destruct entriesN; [congruence|apply Nat.lt_0_succ]).
    apply extractBestUsefulPoints_no_UB_lemma; [exact H0|]. intros p. apply Hfb. exact H0.
Qed.
