(* C10/Model.v — executable models of the index / iterator arithmetic named in property C10
   ("no undefined behaviour under the documented preconditions").  Every access the C++ performs
   unchecked (operator[], *it, back(), pop_back(), erase(it), --begin) is a CHECKED access here and
   yields [UB] when it is out of range; loops that are not structurally bounded take fuel and
   yield [Fuel] distinctly.  No proofs in this file. *)
From Coq Require Import List Arith Bool QArith.
Import ListNotations.

Inductive res (A : Type) : Type := Ok (a : A) | UB | Fuel.
Arguments Ok {A}. Arguments UB {A}. Arguments Fuel {A}.

Definition bind {A B : Type} (r : res A) (f : A -> res B) : res B :=
  match r with Ok a => f a | UB => UB | Fuel => Fuel end.
Notation "'do' x <- r ; k" := (bind r (fun x => k)) (at level 200, x name, r at level 100, k at level 200).

(* ---- checked container primitives ------------------------------------------------------- *)
(* v[i] / *(begin + i) *)
Definition rd {A : Type} (l : list A) (i : nat) : res A :=
  match nth_error l i with Some x => Ok x | None => UB end.

Fixpoint set_nth {A : Type} (l : list A) (i : nat) (x : A) : list A :=
  match l, i with
  | [], _ => []
  | _ :: t, O => x :: t
  | h :: t, S i' => h :: set_nth t i' x
  end.

(* v[i] = x *)
Definition wr {A : Type} (l : list A) (i : nat) (x : A) : res (list A) :=
  if i <? length l then Ok (set_nth l i x) else UB.

(* std::swap(v[i], v[j]) / std::iter_swap(begin + i, begin + j) *)
Definition swp {A : Type} (l : list A) (i j : nat) : res (list A) :=
  do x <- rd l i; do y <- rd l j; do l1 <- wr l i y; wr l1 j x.

(* v.pop_back() *)
Definition pop {A : Type} (l : list A) : res (list A) :=
  match l with [] => UB | _ => Ok (removelast l) end.

(* v.erase(begin + i), i must designate an element *)
Fixpoint remove_at {A : Type} (l : list A) (i : nat) : list A :=
  match l, i with
  | [], _ => []
  | _ :: t, O => t
  | h :: t, S i' => h :: remove_at t i'
  end.
Definition erase_at {A : Type} (l : list A) (i : nat) : res (list A) :=
  if i <? length l then Ok (remove_at l i) else UB.

(* v.insert(begin + i, x), i <= size *)
Fixpoint insert_at_raw {A : Type} (l : list A) (i : nat) (x : A) : list A :=
  match i, l with
  | O, _ => x :: l
  | S i', h :: t => h :: insert_at_raw t i' x
  | S _, [] => [x]
  end.
Definition insert_at {A : Type} (l : list A) (i : nat) (x : A) : res (list A) :=
  if i <=? length l then Ok (insert_at_raw l i x) else UB.

(* ==== 1. OffPolicyBase::updateTraces ====================================================== *)
(* A size_t loop counter: [IxMax] is SIZE_MAX, produced only by [--i] at i = 0 (well defined for an
   unsigned type) and turned back into 0 by the loop's [++i]. *)
Inductive idx : Type := Ix (n : nat) | IxMax.
Definition idx_dec (i : idx) : idx :=
  match i with Ix O => IxMax | Ix (S n) => Ix n | IxMax => IxMax end.
Definition idx_inc (i : idx) : idx :=
  match i with Ix n => Ix (S n) | IxMax => Ix O end.

Definition trace := (nat * nat * Q)%type.
Definition qtab := list (list Q).

(* q_(s, a) += d  — Eigen operator() is unchecked with NDEBUG *)
Definition q_add (q : qtab) (s a : nat) (d : Q) : res qtab :=
  do row <- rd q s; do x <- rd row a; do row' <- wr row a (Qred (x + d)); wr q s row'.

(* src: src/MDP/Algorithms/Utils/OffPolicyTemplate.cpp:OffPolicyBase::updateTraces (the for loop)
   for (size_t i = 0; i < traces_.size(); ++i) { auto & [ss,aa,el] = traces_[i]; ... } *)
Fixpoint ut_loop (fuel : nat) (s a : nat) (err td tol : Q) (tr : list trace) (q : qtab)
         (i : idx) (newTrace : bool) : res (list trace * qtab * bool) :=
  match fuel with
  | O => Fuel
  | S f =>
    match i with
    | IxMax => Ok (tr, q, newTrace)                       (* SIZE_MAX < size() is false *)
    | Ix n =>
      if n <? length tr then
        do t <- rd tr n;                                  (* traces_[i] *)
        let '(ss, aa, el) := t in
        if Nat.eqb ss s && Nat.eqb aa a then
          do tr1 <- wr tr n (ss, aa, 1);                  (* el = 1.0 *)
          do q1 <- q_add q ss aa (err * 1);               (* q_(ss, aa) += error * el *)
          ut_loop f s a err td tol tr1 q1 (idx_inc (Ix n)) false
        else
          let el' := Qred (el * td) in
          do tr1 <- wr tr n (ss, aa, el');                (* el *= traceDiscount *)
          if Qlt_le_dec el' tol then
            do tr2 <- swp tr1 n (length tr1 - 1);         (* swap(traces_[i], traces_[size-1]) *)
            do tr3 <- pop tr2;                            (* pop_back() *)
            ut_loop f s a err td tol tr3 q (idx_inc (idx_dec (Ix n))) newTrace   (* --i; continue (++i) *)
          else
            do q1 <- q_add q ss aa (err * el');
            ut_loop f s a err td tol tr1 q1 (idx_inc (Ix n)) newTrace
      else Ok (tr, q, newTrace)
    end
  end.

(* src: OffPolicyBase::updateTraces — whole function *)
Definition updateTraces (s a : nat) (err td tol : Q) (st : qtab * list trace) : res (qtab * list trace) :=
  let '(q, tr) := st in
  do r <- ut_loop (S (length tr)) s a err td tol tr q (Ix O) true;
  let '(tr', q', nw) := r in
  if nw then do q2 <- q_add q' s a err; Ok (q2, tr' ++ [(s, a, 1)])
  else Ok (q', tr').

Fixpoint updateTraces_history (ops : list (nat * nat * Q * Q)) (tol : Q) (st : qtab * list trace)
  : res (qtab * list trace) :=
  match ops with
  | [] => Ok st
  | (s, a, err, td) :: rest => do st' <- updateTraces s a err td tol st; updateTraces_history rest tol st'
  end.

(* ==== 2. Factored::match(PartialFactors, PartialFactors) ================================== *)
(* src: src/Factored/Utils/Core.cpp:match(lhsK, lhs, rhsK, rhs).  [guard = false] is the loop as it
   stands (while (j < smallerK->size())); [guard = true] the repaired condition
   (&& i < biggerK->size()), fixes/C10-match-bounds.patch. *)
Fixpoint match_loop (guard : bool) (fuel : nat) (bK bV sK sV : list nat) (i j : nat) : res bool :=
  match fuel with
  | O => Fuel
  | S f =>
    if (j <? length sK) && (negb guard || (i <? length bK)) then
      do bi <- rd bK i;                                   (* biggerK[i] *)
      do sj <- rd sK j;                                   (* smallerK[j] *)
      if bi <? sj then match_loop guard f bK bV sK sV (S i) j
      else if sj <? bi then match_loop guard f bK bV sK sV i (S j)
      else
        do bv <- rd bV i; do sv <- rd sV j;
        if negb (Nat.eqb bv sv) then Ok false
        else match_loop guard f bK bV sK sV (S i) (S j)
    else Ok true
  end.

Definition match_pf (guard : bool) (lhs rhs : list nat * list nat) : res bool :=
  let '(lK, lV) := lhs in let '(rK, rV) := rhs in
  if length rK <? length lK                                (* lhsK.size() > rhsK.size(): swap *)
  then match_loop guard (S (length lK + length rK)) lK lV rK rV 0 0
  else match_loop guard (S (length lK + length rK)) rK rV lK lV 0 0.

(* ==== 3. extractDominated, index form ====================================================== *)
Section ED.
  Variable A : Type.
  Variable dom : A -> A -> bool.                           (* dominates(p x, p y) on the pointed-to elements *)

  (* src: Prune.hpp:extractDominated — for (iter = begin; iter < optEnd; ++iter)
     if (dominates( *iter, *target)); [cnt] = optEnd - iter *)
  Fixpoint ed_check (cnt : nat) (arr : list A) (iter target : nat) : res bool :=
    match cnt with
    | O => Ok false
    | S c => do x <- rd arr iter; do t <- rd arr target;
             if dom x t then Ok true else ed_check c arr (S iter) target
    end.

  (* while (helper != optEnd) { --helper; if (dominates( *helper, *target)) { iter_swap(target, --end);
     target = helper; } } *)
  Fixpoint ed_back (fuel : nat) (arr : list A) (optEnd helper target end_ : nat)
    : res (list A * nat * nat) :=
    match fuel with
    | O => Fuel
    | S f =>
      if Nat.eqb helper optEnd then Ok (arr, target, end_)
      else match helper with
           | O => UB                                       (* --helper below begin *)
           | S h =>
             do x <- rd arr h; do t <- rd arr target;
             if dom x t then
               match end_ with
               | O => UB
               | S e => do arr' <- swp arr target e; ed_back f arr' optEnd h h e
               end
             else ed_back f arr optEnd h target end_
           end
    end.

  (* while (optEnd < end) { target = end - 1; ... } *)
  Fixpoint ed_outer (fuel : nat) (arr : list A) (optEnd end_ : nat) : res (list A * nat) :=
    match fuel with
    | O => Fuel
    | S f =>
      if optEnd <? end_ then
        match end_ with
        | O => UB
        | S t =>
          do d <- ed_check optEnd arr 0 t;
          if d then ed_outer f arr optEnd t                (* --end; goto next *)
          else
            do r <- ed_back (S (length arr)) arr optEnd t t end_;
            let '(arr1, target1, end1) := r in
            do arr2 <- swp arr1 target1 optEnd;            (* iter_swap(target, optEnd) *)
            ed_outer f arr2 (S optEnd) end1                (* ++optEnd *)
        end
      else Ok (arr, end_)
    end.

  (* returns the array afterwards and the returned iterator as an index *)
  Definition extractDominated_idx (l : list A) : res (list A * nat) :=
    if length l <? 2 then Ok (l, length l) else ed_outer (S (length l)) l 0 (length l).
End ED.
Arguments ed_check {A}. Arguments ed_back {A}. Arguments ed_outer {A}. Arguments extractDominated_idx {A}.

(* ==== 4. FastInformedBound: maximum of a sparse reward matrix ============================= *)
(* src: include/AIToolbox/POMDP/Algorithms/FastInformedBound.hpp:operator()
     max = Eigen::Map<const Vector>(ir.valuePtr(), ir.size()).maxCoeff();
   reads ir.size() = rows*cols doubles from the value buffer, which holds nonZeros() of them. *)
Fixpoint max_scan (buf : list Q) (i cnt : nat) (cur : Q) : res Q :=
  match cnt with
  | O => Ok cur
  | S c => do x <- rd buf i; max_scan buf (S i) c (if Qlt_le_dec cur x then x else cur)
  end.

Definition map_maxCoeff (buf : list Q) (n : nat) : res Q :=
  match n with O => UB | S c => do x0 <- rd buf 0; max_scan buf 1 c x0 end.

(* as it stands *)
Definition fib_sparse_max (rows cols : nat) (buf : list Q) : res Q := map_maxCoeff buf (rows * cols).

(* repaired (fixes/C03-fib-sparse-rewards.patch): maximum over the stored values, and over the implicit
   zeros when there are any *)
Definition fib_sparse_max_fix (rows cols : nat) (buf : list Q) : res Q :=
  let implicit := length buf <? rows * cols in
  match buf with
  | [] => Ok 0
  | x0 :: _ => do m <- max_scan buf 1 (length buf - 1) x0;
               Ok (if implicit then (if Qlt_le_dec m 0 then 0 else m) else m)
  end.

(* ==== 5. SARSOP witness / max lists (VEntry::observations) ================================ *)
(* v = [k; max ids (k-1 of them, sorted); witness ids (sorted)];  v[0] = k = index of the first witness *)

(* src: Utils/Core.hpp:sequential_sorted_find(begin + lo, begin + hi, elem) -> index *)
Fixpoint ssf (fuel : nat) (v : list nat) (lo hi elem : nat) : res nat :=
  match fuel with
  | O => Fuel
  | S f => if Nat.eqb lo hi then Ok lo
           else do x <- rd v lo; if x <? elem then ssf f v (S lo) hi elem else Ok lo
  end.
(* forming begin + k with k > size is already undefined *)
Definition it_at (v : list nat) (k : nat) : res nat := if k <=? length v then Ok k else UB.

(* src: src/POMDP/Algorithms/SARSOP.cpp:rmWit  ([nS] = ve.values.size()) *)
Definition rmWit (nS id : nat) (v : list nat) : res (list nat) :=
  if id <? nS then Ok v else
  do k <- rd v 0; do lo <- it_at v k;
  do it <- ssf (S (length v)) v lo (length v) id;
  if Nat.eqb it (length v) then Ok v
  else do x <- rd v it; if Nat.eqb x id then erase_at v it else Ok v.

(* src: SARSOP.cpp:addWit *)
Definition addWit (nS id : nat) (v : list nat) : res (list nat) :=
  if id <? nS then Ok v else
  do k <- rd v 0; do hi <- it_at v k;
  do it0 <- ssf (S (length v)) v 1 hi id;                   (* sequential_sorted_contains(begin+1, begin+v[0]) *)
  do found <- (if Nat.eqb it0 hi then Ok false else do x <- rd v it0; Ok (Nat.eqb x id));
  if found then Ok v else
  do it <- ssf (S (length v)) v hi (length v) id;
  if Nat.eqb it (length v) then insert_at v it id
  else do x <- rd v it; if Nat.eqb x id then Ok v else insert_at v it id.

(* src: SARSOP.cpp:addMax *)
Definition addMax (nS id : nat) (v0 : list nat) : res (list nat) :=
  do v <- rmWit nS id v0;
  do k <- rd v 0; do maxEnd <- it_at v k;
  do it <- ssf (S (length v)) v 1 maxEnd id;
  do found <- (if Nat.eqb it maxEnd then Ok false else do x <- rd v it; Ok (Nat.eqb x id));
  if found then Ok v else
  do v1 <- insert_at v it id;
  do k1 <- rd v1 0; wr v1 0 (S k1).                        (* ++v[0] *)

(* src: SARSOP.cpp:rmMax *)
Definition rmMax (nS id : nat) (skipWit : bool) (v : list nat) : res (list nat) :=
  do k <- rd v 0; do maxEnd <- it_at v k;
  do it <- ssf (S (length v)) v 1 maxEnd id;
  do found <- (if Nat.eqb it maxEnd then Ok false else do x <- rd v it; Ok (Nat.eqb x id));
  if negb found then Ok v else
  do v1 <- erase_at v it;
  do k1 <- rd v1 0;
  do v2 <- (match k1 with O => UB | S k' => wr v1 0 k' end);   (* --v[0] (0 would wrap) *)
  if skipWit || (id <? nS) then Ok v2 else
  do k2 <- rd v2 0; do lo <- it_at v2 k2;
  do it2 <- ssf (S (length v2)) v2 lo (length v2) id;
  if Nat.eqb it2 (length v2) then insert_at v2 it2 id
  else do x <- rd v2 it2; if Nat.eqb x id then Ok v2 else insert_at v2 it2 id.

Inductive wop := OAddWit (id : nat) | ORmWit (id : nat) | OAddMax (id : nat) | ORmMax (id : nat) (skip : bool).
Definition wstep (nS : nat) (o : wop) (v : list nat) : res (list nat) :=
  match o with
  | OAddWit id => addWit nS id v | ORmWit id => rmWit nS id v
  | OAddMax id => addMax nS id v | ORmMax id sk => rmMax nS id sk v
  end.
Fixpoint wrun (nS : nat) (ops : list wop) (v : list nat) : res (list nat) :=
  match ops with [] => Ok v | o :: r => do v' <- wstep nS o v; wrun nS r v' end.

(* src: SARSOP.cpp:deltaPrune, last loop over the new vectors:
     domIt = findBestDeltaDominated(b, it->values, delta_, begin, end);
     if (it != domIt) { rmWit(bId, *it); addWit(bId, *domIt); }
   [ddom x cur] = "x delta-dominates the current maximum at b"; the array has [n] entries,
   [end_] <= n is the end of the valid range.  Returns the index that is dereferenced. *)
Section DP.
  Variable A : Type.
  Variable ddom : A -> A -> bool.
  (* src: Polytope.hpp:findBestDeltaDominated — retval = end unless some entry dominates *)
  Fixpoint fbdd (arr : list A) (i cnt : nat) (cur : A) (retval : nat) : res nat :=
    match cnt with
    | O => Ok retval
    | S c => do x <- rd arr i;
             if ddom x cur then fbdd arr (S i) c x i else fbdd arr (S i) c cur retval
    end.
  Definition deltaPrune_last_deref (arr : list A) (end_ it : nat) : res (option A) :=
    do plane <- rd arr it;
    do domIt <- fbdd arr 0 end_ plane end_;
    if Nat.eqb it domIt then Ok None
    else do x <- rd arr domIt; Ok (Some x).                 (* *domIt *)
End DP.
Arguments fbdd {A}. Arguments deltaPrune_last_deref {A}.
