(* C10/ProofsWit.v — the checked-access Witness agenda loop never reaches UB on unpruned projection
   lists, and computes exactly what the value-level model C02/ModelWitness.v computes (so C02's
   theorems transfer to it).  Uses C02/ProofsWitness.v's invariant [valid]. *)
From Coq Require Import List Arith QArith Bool Lia.
From AIT Require Import Base.Qx Base.Mdp Base.MdpExec C02.Model C02.Spec C02.ProofsCross C04.Model C02.ModelWitness C02.ProofsWitness.
From AIT Require C10.Model C10.Proofs.
From AIT Require Import C10.ModelWit.
Import ListNotations.
Local Open Scope nat_scope.

Lemma rd_nth : forall (A : Type) (l : list A) i d, i < length l -> M10.rd l i = M10.Ok (nth i l d).
Proof. intros A l i d H. unfold M10.rd. rewrite (nth_error_nth' l d H). reflexivity. Qed.

Section Row.
  Variable S : nat.
  Variable row : list vlist.
  Hypothesis Hne : Forall (fun r : vlist => r <> []) row.
  Hypothesis Hwf : Forall (wfl S) row.
  Hypothesis Hidx : forall o i e, nth_error (nth o row []) i = Some e -> obs e = [i].

  (* per-list form of the three hypotheses *)
  Lemma row_list_facts : forall r, In r row -> r <> [] /\ (forall i e, nth_error r i = Some e -> obs e = [i]).
  Proof.
    intros r Hr. split; [rewrite Forall_forall in Hne; apply Hne; exact Hr|].
    destruct (In_nth _ _ [] Hr) as [o [_ Eo]]. subst r. intros i e H. apply (Hidx o i e H).
  Qed.

  Lemma picks_chk_ok : forall b (l : list vlist), (forall r, In r l -> In r row) ->
    picks_chk b l = M10.Ok (map (fun r => let e := nth (best_index r b) r dummy_entry in (e, hd 0 (obs e))) l).
  Proof.
    intros b. induction l as [|r t IH]; intros Hin; cbn [picks_chk map]; [reflexivity|].
    assert (Hr : In r row) by (apply Hin; left; reflexivity).
    destruct (row_list_facts r Hr) as [_ Hi].
    pose proof (best_index_in_range row Hne b r Hr) as Hb.
    rewrite (rd_nth _ r _ dummy_entry Hb). cbn [M10.bind].
    rewrite (Hi _ _ (nth_error_nth' r dummy_entry Hb)). cbn [M10.rd nth_error M10.bind hd].
    rewrite IH by (intros r' Hr'; apply Hin; right; exact Hr'). cbn [M10.bind].
    reflexivity.
  Qed.

  Lemma csbb_row_chk_ok : forall b a, csbb_row_chk b row a S = M10.Ok (fst (csbb_row b row a S)).
  Proof.
    intros b a. unfold csbb_row_chk. rewrite picks_chk_ok by auto. cbn [M10.bind].
    unfold csbb_row. cbn [fst]. rewrite !map_map. cbn [fst snd]. reflexivity.
  Qed.

  Lemma firsts_chk_ok : forall l : list vlist, (forall r, In r l -> In r row) ->
    firsts_chk l = M10.Ok (map (fun r => nth 0 r dummy_entry) l).
  Proof.
    induction l as [|r t IH]; intros Hin; cbn [firsts_chk map]; [reflexivity|].
    assert (Hr : In r row) by (apply Hin; left; reflexivity).
    destruct (row_list_facts r Hr) as [Hn _].
    assert (H0 : 0 < length r) by (destruct r; [congruence|cbn; lia]).
    rewrite (rd_nth _ r 0 dummy_entry H0). cbn [M10.bind].
    rewrite IH by (intros r' Hr'; apply Hin; right; exact Hr'). reflexivity.
  Qed.

  Lemma fold_left_map_r : forall (A B C : Type) (f : A -> B -> A) (g : C -> B) l a,
    fold_left f (map g l) a = fold_left (fun x c => f x (g c)) l a.
  Proof. induction l as [|c t IH]; intros a; cbn; [reflexivity|apply IH]. Qed.

  Lemma default_item_chk_ok : default_item_chk row S = M10.Ok (default_item row S).
  Proof.
    unfold default_item_chk. rewrite firsts_chk_ok by auto. cbn [M10.bind]. unfold default_item.
    rewrite fold_left_map_r. reflexivity.
  Qed.

  (* one inner-loop iteration of addVariations: with a valid link list every index is in range *)
  Lemma var_one_chk_ok : forall e st o i, valid row (obs e) -> o < length row -> i < length (nth o row []) ->
    var_one_chk row e st (o, i) = M10.Ok (var_one row e st (o, i)).
  Proof.
    intros e [ag tr] o i [Hl Hv] Ho Hi. unfold var_one_chk, var_one.
    rewrite (rd_nth _ row o [] Ho). cbn [M10.bind].
    rewrite (rd_nth _ (obs e) o 0) by (rewrite Hl; exact Ho). cbn [M10.bind].
    destruct (Nat.eqb i (nth o (obs e) 0)); [reflexivity|].
    destruct (in_tried (set_nth o i (obs e)) tr); [reflexivity|].
    rewrite (rd_nth _ (nth o row []) _ dummy_entry (Hv o Ho)). cbn [M10.bind].
    rewrite (rd_nth _ (nth o row []) i dummy_entry Hi). reflexivity.
  Qed.

  Lemma vars_chk_ok : forall e, valid row (obs e) ->
    forall ps, (forall p, In p ps -> fst p < length row /\ snd p < length (nth (fst p) row [])) ->
    forall st, vars_chk row e ps st = M10.Ok (fold_left (var_one row e) ps st).
  Proof.
    intros e Hv. induction ps as [|[o i] t IH]; intros Hps st; cbn [vars_chk fold_left]; [reflexivity|].
    destruct (Hps (o, i) (or_introl eq_refl)) as [Ho Hi]. cbn [fst snd] in Ho, Hi.
    rewrite (var_one_chk_ok e st o i Hv Ho Hi). cbn [M10.bind].
    apply IH. intros p Hp. apply Hps. right. exact Hp.
  Qed.

  Lemma variations_chk_ok : forall e st, valid row (obs e) ->
    variations_chk row e st = M10.Ok (variations row e st).
  Proof.
    intros e st Hv. unfold variations_chk, variations. apply vars_chk_ok; [exact Hv|].
    intros [o i] Hp. apply (in_var_pairs row Hidx) in Hp. exact Hp.
  Qed.

  Variable oracle : nat -> nat -> list vec -> vec -> option vec.

  Definition lift (r : option vlist) : M10.res vlist := match r with Some U => M10.Ok U | None => M10.Fuel end.

  Lemma wit_loop_chk_ok : forall fuel t a U ag tr,
    wit_loop_chk oracle fuel t a S row U ag tr = lift (wit_loop oracle fuel t a S row U ag tr).
  Proof.
    induction fuel as [|f IH]; intros t a U ag tr; destruct ag as [|[c cand] rest]; cbn [wit_loop_chk wit_loop lift]; try reflexivity.
    destruct (oracle t a (valsof U) cand) as [b|].
    - rewrite csbb_row_chk_ok. cbn [M10.bind].
      destruct (csbb_entry_facts S row Hne Hwf Hidx b a) as [Hv _]. cbv zeta in Hv.
      rewrite (variations_chk_ok _ _ Hv). cbn [M10.bind]. apply IH.
    - apply IH.
  Qed.

  Lemma wit_action_chk_ok : forall fuel t a,
    wit_action_chk oracle fuel t a S row = lift (wit_action oracle fuel t a S row).
  Proof.
    intros fuel t a. unfold wit_action_chk, wit_action. rewrite default_item_chk_ok. cbn [M10.bind]. cbv zeta.
    apply wit_loop_chk_ok.
  Qed.

  Lemma wit_action_no_UB_row : forall fuel t a, wit_action_chk oracle fuel t a S row <> M10.UB.
  Proof. intros fuel t a. rewrite wit_action_chk_ok. destruct (wit_action oracle fuel t a S row); discriminate. Qed.
End Row.

(* on the projection lists Witness builds (project(v[t-1]), unpruned) from any non-empty previous step *)
Lemma witness_agenda_no_UB_lemma : forall (m : pomdp) (w : vlist) (oracle : nat -> nat -> list vec -> vec -> option vec)
  (fuel t a : nat), w <> [] ->
  wit_action_chk oracle fuel t a (nS (pm m)) (proj_row m w a) =
    lift (wit_action oracle fuel t a (nS (pm m)) (proj_row m w a)) /\
  wit_action_chk oracle fuel t a (nS (pm m)) (proj_row m w a) <> M10.UB.
Proof.
  intros m w oracle fuel t a Hw. destruct (proj_row_facts m w a Hw) as [H1 [H2 [H3 _]]].
  split; [apply wit_action_chk_ok; assumption|apply wit_action_no_UB_row; assumption].
Qed.

(* an empty projection list (a pruned-away observation) is UB: findBestAtPoint / projs[o][0] on an empty range *)
Lemma witness_empty_projection_UB : forall oracle fuel t a S, wit_action_chk oracle fuel t a S [[]] = M10.UB.
Proof. reflexivity. Qed.
