(* C10/Spec.v — the documented preconditions as booleans, and independent (loop-free) meanings of
   the modelled routines' results, used by the driver's oracle. *)
From Coq Require Import List Arith Bool QArith.
From AIT Require Import C10.Model.
Import ListNotations.
Local Open Scope nat_scope.

(* ---- preconditions ------------------------------------------------------------------------ *)
Definition pf_wfb (pf : list nat * list nat) : bool := Nat.eqb (length (snd pf)) (length (fst pf)).
Fixpoint strict_incb (l : list nat) : bool :=
  match l with
  | x :: ((y :: _) as t) => (x <? y) && strict_incb t
  | _ => true
  end.
Definition q_wfb (nS nA : nat) (q : qtab) : bool :=
  Nat.eqb (length q) nS && forallb (fun r => Nat.eqb (length r) nA) q.
Definition tr_inb (nS nA : nat) (t : trace) : bool := (fst (fst t) <? nS) && (snd (fst t) <? nA).

(* ---- match: all factors in common between the inputs match in value ------------------------ *)
Fixpoint lookup (k : nat) (ks vs : list nat) : option nat :=
  match ks, vs with
  | k' :: ks', v :: vs' => if Nat.eqb k k' then Some v else lookup k ks' vs'
  | _, _ => None
  end.
Definition match_spec (lhs rhs : list nat * list nat) : bool :=
  forallb (fun kv => match lookup (fst kv) (fst rhs) (snd rhs) with
                     | Some v => Nat.eqb v (snd kv)
                     | None => true
                     end) (combine (fst lhs) (snd lhs)).

(* ---- updateTraces: what the call means, independently of the swap-and-pop order ------------
   every old trace other than (s,a) is scaled and survives iff it stays >= tol; (s,a) has trace 1
   afterwards; no other pair appears. *)
Definition key_eqb (t : trace) (s a : nat) : bool := Nat.eqb (fst (fst t)) s && Nat.eqb (snd (fst t)) a.
Definition ut_expected (s a : nat) (td tol : Q) (tr : list trace) : list trace :=
  (s, a, 1%Q) ::
  flat_map (fun t => if key_eqb t s a then []
                     else let el := Qred (snd t * td) in
                          if Qlt_le_dec el tol then [] else [(fst (fst t), snd (fst t), el)]) tr.
