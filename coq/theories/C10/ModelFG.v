(* C10/ModelFG.v — checked-access model of the adjacency bookkeeping of
   AIToolbox::Factored::FactorGraph<FD> (include/AIToolbox/Factored/Utils/FactorGraph.hpp).

   A std::list iterator is modelled by the IDENTITY of the node it designates (a nat); nodes keep
   their identity when they are spliced between factorAdjacencies_ and the static
   factorAdjacenciesPool_.  Dereferencing an identity that is not a node of factorAdjacencies_
   (dangling, or sitting in the pool) yields [UB]; so does every operator[] out of range,
   vector::erase(end()), erasing from the vector a range-for is iterating, and --activeVariables_
   at 0.  The neighbour-merge loop of getFactor takes fuel and yields [Fuel] distinctly.
   FactorData (f_) is not modelled.  No proofs in this file. *)
From Coq Require Import List Arith Bool.
From AIT Require Import C10.Model.
Import ListNotations.
Local Open Scope nat_scope.

(* src: FactorGraph.hpp:FactorGraph::VariableNode  { FactorItList factors; Variables vNeighbors; bool active } *)
Record vnode : Type := mkV { vfactors : list nat; vneigh : list nat; vactive : bool }.

(* src: FactorGraph.hpp:FactorGraph (data members)
   fg_factors = factorAdjacencies_ as (node identity, variables_) in list order;
   fg_pool    = factorAdjacenciesPool_ (node identities, front first);
   fg_next    = identity given to the next node created by emplace_back;
   fg_adj     = variableAdjacencies_;  fg_active = activeVariables_ *)
Record fgstate : Type := mkFG {
  fg_factors : list (nat * list nat);
  fg_pool : list nat;
  fg_next : nat;
  fg_adj : list vnode;
  fg_active : nat }.

(* src: FactorGraph.hpp:FactorGraph(size_t variables) — variableAdjacencies_(variables), activeVariables_(variables) *)
Definition fg_init (n : nat) : fgstate := mkFG [] [] 0 (repeat (mkV [] [] true) n) n.

(* src: FactorGraph.hpp:findFactorByVariables (the lambda's  it->variables_ : *it on a list iterator) *)
Fixpoint fg_deref (fs : list (nat * list nat)) (id : nat) : res (list nat) :=
  match fs with
  | [] => UB
  | (i, vs) :: t => if Nat.eqb i id then Ok vs else fg_deref t id
  end.

(* src: FactorGraph.hpp:findFactorByVariables (it->variables_ == variables, std::vector operator==) *)
Fixpoint nats_eqb (a b : list nat) : bool :=
  match a, b with
  | [], [] => true
  | x :: a', y :: b' => Nat.eqb x y && nats_eqb a' b'
  | _, _ => false
  end.

(* src: FactorGraph.hpp:findFactorByVariables — std::find_if over a FactorItList; None = end(list) *)
Fixpoint fg_find_by_vars (fs : list (nat * list nat)) (l : list nat) (vars : list nat) : res (option nat) :=
  match l with
  | [] => Ok None
  | id :: t => do vs <- fg_deref fs id;
               if nats_eqb vs vars then Ok (Some id) else fg_find_by_vars fs t vars
  end.

(* src: FactorGraph.hpp:getFactor — it->variables_ = variables; *)
Fixpoint fg_set_vars (fs : list (nat * list nat)) (id : nat) (vars : list nat) : res (list (nat * list nat)) :=
  match fs with
  | [] => UB
  | (i, vs) :: t => if Nat.eqb i id then Ok ((i, vars) :: t)
                    else do t' <- fg_set_vars t id vars; Ok ((i, vs) :: t')
  end.

(* src: FactorGraph.hpp:getFactor — the loop
     for (size_t i = 0, j = 0; i < variables.size(); ) {
         if (variables[i] == a) ++i;
         else if (j == mid || variables[i] < va.vNeighbors[j]) { va.vNeighbors.push_back(variables[i]); ++i; }
         else { if (variables[i] == va.vNeighbors[j]) ++i; ++j; } }
   [vn] is va.vNeighbors (it grows at the back). *)
Fixpoint fg_merge_loop (fuel : nat) (a : nat) (vars : list nat) (mid : nat) (vn : list nat) (i j : nat)
  : res (list nat) :=
  match fuel with
  | O => Fuel
  | S f =>
    if i <? length vars then
      do vi <- rd vars i;                                         (* variables[i] *)
      if Nat.eqb vi a then fg_merge_loop f a vars mid vn (S i) j
      else if Nat.eqb j mid then fg_merge_loop f a vars mid (vn ++ [vi]) (S i) j
      else
        do nj <- rd vn j;                                         (* va.vNeighbors[j] *)
        if vi <? nj then fg_merge_loop f a vars mid (vn ++ [vi]) (S i) j
        else if Nat.eqb vi nj then fg_merge_loop f a vars mid vn (S i) (S j)
        else fg_merge_loop f a vars mid vn i (S j)
    else Ok vn
  end.

(* src: FactorGraph.hpp:getFactor — std::inplace_merge(begin, begin+mid, end): the stable merge of the
   two consecutive ranges (elements of the first range come first among equals) *)
Fixpoint fg_merge (l1 : list nat) (l2 : list nat) {struct l1} : list nat :=
  let fix aux (l2 : list nat) {struct l2} : list nat :=
    match l1, l2 with
    | [], _ => l2
    | _, [] => l1
    | a1 :: t1, a2 :: t2 => if a2 <? a1 then a2 :: aux t2 else a1 :: fg_merge t1 l2
    end in
  aux l2.

(* src: FactorGraph.hpp:getFactor — precondition of std::inplace_merge: each range is sorted w.r.t. operator< *)
Fixpoint fg_sortedb (l : list nat) : bool :=
  match l with
  | x :: ((y :: _) as t) => (x <=? y) && fg_sortedb t
  | _ => true
  end.

(* src: FactorGraph.hpp:getFactor — std::inplace_merge(std::begin(vn), std::begin(vn)+mid, std::end(vn));
   forming begin+mid with mid > size is already undefined, and so is merging a range that is not sorted *)
Definition fg_inplace_merge (vn : list nat) (mid : nat) : res (list nat) :=
  if mid <=? length vn then
    if fg_sortedb (firstn mid vn) && fg_sortedb (skipn mid vn) then Ok (fg_merge (firstn mid vn) (skipn mid vn))
    else UB
  else UB.

(* src: FactorGraph.hpp:getFactor — for (const auto a : variables) { auto & va = variableAdjacencies_[a];
   va.factors.push_back(it); ...merge loop...; inplace_merge }   ([rest] = the variables still to visit) *)
Fixpoint fg_gf_loop (id : nat) (vars : list nat) (rest : list nat) (adj : list vnode) : res (list vnode) :=
  match rest with
  | [] => Ok adj
  | a :: rest' =>
    do va <- rd adj a;                                            (* variableAdjacencies_[a] *)
    let fs := vfactors va ++ [id] in                              (* va.factors.push_back(it) *)
    let mid := length (vneigh va) in
    do vn <- fg_merge_loop (length vars + mid + 1) a vars mid (vneigh va) 0 0;
    do m <- fg_inplace_merge vn mid;
    do adj' <- wr adj a (mkV fs m (vactive va));
    fg_gf_loop id vars rest' adj'
  end.

(* src: FactorGraph.hpp:getFactor — returns the new state and the identity of the returned iterator *)
Definition fg_getFactor (vars : list nat) (st : fgstate) : res (fgstate * nat) :=
  do v0 <- rd vars 0;                                             (* variables[0] *)
  do va0 <- rd (fg_adj st) v0;                                    (* variableAdjacencies_[variables[0]] *)
  do found <- fg_find_by_vars (fg_factors st) (vfactors va0) vars;
  match found with
  | Some id => Ok (st, id)                                        (* return *found *)
  | None =>
    let '(id, pool', next') :=
      match fg_pool st with
      | [] => (fg_next st, [], S (fg_next st))                    (* emplace_back(FactorNode()); it = --end() *)
      | p :: t => (p, t, fg_next st)                              (* splice(end(), pool, begin(pool)); it = prev(end()) *)
      end in
    let fs1 := fg_factors st ++ [(id, [])] in
    do fs2 <- fg_set_vars fs1 id vars;                            (* it->variables_ = variables *)
    do adj' <- fg_gf_loop id vars vars (fg_adj st);
    Ok (mkFG fs2 pool' next' adj' (fg_active st), id)
  end.

(* src: FactorGraph.hpp:erase — std::find(begin(v), end(v), x) as an index; length v = end *)
Fixpoint fg_find_idx (x : nat) (l : list nat) : nat :=
  match l with
  | [] => 0
  | y :: t => if Nat.eqb y x then 0 else S (fg_find_idx x t)
  end.

(* src: FactorGraph.hpp:erase — for (const auto variable : it->variables_) { if (variable == a) continue;
     auto & factors = variableAdjacencies_[variable].factors; foundIt = std::find(..., it);
     factors.erase(foundIt); }      (the assert is compiled out: erase(end()) is UB) *)
Fixpoint fg_er_inner (a id : nat) (vars : list nat) (adj : list vnode) : res (list vnode) :=
  match vars with
  | [] => Ok adj
  | v :: t =>
    if Nat.eqb v a then fg_er_inner a id t adj
    else
      do vv <- rd adj v;                                          (* variableAdjacencies_[variable] *)
      do fl <- erase_at (vfactors vv) (fg_find_idx id (vfactors vv));
      do adj' <- wr adj v (mkV fl (vneigh vv) (vactive vv));
      fg_er_inner a id t adj'
  end.

(* src: FactorGraph.hpp:erase — factorAdjacenciesPool_.splice(begin(pool), factorAdjacencies_, it):
   the node leaves factorAdjacencies_ (node identities are pairwise distinct) *)
Definition fg_unlink (fs : list (nat * list nat)) (id : nat) : list (nat * list nat) :=
  filter (fun p => negb (Nat.eqb (fst p) id)) fs.

(* src: FactorGraph.hpp:erase — for (auto it : va.factors) { for (variable : it->variables_) ...; splice }
   [its] = the elements of va.factors still to visit (va.factors itself is not modified by the body:
   variable == a is skipped) *)
Fixpoint fg_er_outer (a : nat) (its : list nat) (fs : list (nat * list nat)) (pool : list nat) (adj : list vnode)
  : res (list (nat * list nat) * list nat * list vnode) :=
  match its with
  | [] => Ok (fs, pool, adj)
  | id :: t =>
    do vars <- fg_deref fs id;                                    (* it->variables_ *)
    do adj' <- fg_er_inner a id vars adj;
    fg_er_outer a t (fg_unlink fs id) (id :: pool) adj'
  end.

(* src: FactorGraph.hpp:erase — for (const auto aa : va.vNeighbors) { auto & vaa = variableAdjacencies_[aa];
     vaa.vNeighbors.erase(std::find(begin, end, a)); }
   aa == a would erase from the vector the range-for is iterating (iterators invalidated): UB *)
Fixpoint fg_er_neigh (a : nat) (ns : list nat) (adj : list vnode) : res (list vnode) :=
  match ns with
  | [] => Ok adj
  | aa :: t =>
    if Nat.eqb aa a then UB
    else
      do vaa <- rd adj aa;                                        (* variableAdjacencies_[aa] *)
      do l <- erase_at (vneigh vaa) (fg_find_idx a (vneigh vaa));
      do adj' <- wr adj aa (mkV (vfactors vaa) l (vactive vaa));
      fg_er_neigh a t adj'
  end.

(* src: FactorGraph.hpp:erase *)
Definition fg_erase (a : nat) (st : fgstate) : res fgstate :=
  do va <- rd (fg_adj st) a;                                      (* variableAdjacencies_[a] *)
  if negb (vactive va) then Ok st
  else
    do r <- fg_er_outer a (vfactors va) (fg_factors st) (fg_pool st) (fg_adj st);
    let '(fs, pool, adj1) := r in
    do adj2 <- fg_er_neigh a (vneigh va) adj1;
    do adj3 <- wr adj2 a (mkV [] [] false);                       (* factors.clear(); vNeighbors.clear(); active = false *)
    match fg_active st with
    | O => UB                                                     (* --activeVariables_ at 0 *)
    | S k => Ok (mkFG fs pool (fg_next st) adj3 k)
    end.

(* ---- histories ----------------------------------------------------------------------------- *)
Inductive fgop : Type := FGGetFactor (vars : list nat) | FGErase (a : nat).

(* src: FactorGraph.hpp:getFactor / erase *)
Definition fg_step (o : fgop) (st : fgstate) : res fgstate :=
  match o with
  | FGGetFactor vars => do r <- fg_getFactor vars st; Ok (fst r)
  | FGErase a => fg_erase a st
  end.

Fixpoint fg_run_from (st : fgstate) (ops : list fgop) : res fgstate :=
  match ops with
  | [] => Ok st
  | o :: r => do st' <- fg_step o st; fg_run_from st' r
  end.

(* src: FactorGraph.hpp:FactorGraph(size_t) followed by the calls of [ops] *)
Definition fg_run (n : nat) (ops : list fgop) : res fgstate := fg_run_from (fg_init n) ops.

(* ---- observations -------------------------------------------------------------------------- *)
Fixpoint fg_deref_all (fs : list (nat * list nat)) (l : list nat) : res (list (list nat)) :=
  match l with
  | [] => Ok []
  | id :: t => do vs <- fg_deref fs id; do r <- fg_deref_all fs t; Ok (vs :: r)
  end.

(* src: FactorGraph.hpp:getFactors(size_t) followed by getVariables(FactorIt) on every element *)
Definition fg_getFactors (st : fgstate) (a : nat) : res (list (list nat)) :=
  do va <- rd (fg_adj st) a; fg_deref_all (fg_factors st) (vfactors va).

(* src: FactorGraph.hpp:getVariables(size_t) *)
Definition fg_getVariables (st : fgstate) (a : nat) : res (list nat) :=
  do va <- rd (fg_adj st) a; Ok (vneigh va).

(* src: FactorGraph.hpp:variableSize *)
Definition fg_variableSize (st : fgstate) : nat := fg_active st.

(* src: FactorGraph.hpp:factorSize *)
Definition fg_factorSize (st : fgstate) : nat := length (fg_factors st).

(* src: FactorGraph.hpp:begin / end — variables_ of the factors in list order *)
Definition fg_factor_list (st : fgstate) : list (list nat) := map snd (fg_factors st).

(* ---- the documented precondition as a boolean ----------------------------------------------- *)
Fixpoint fg_strict_incb (l : list nat) : bool :=
  match l with
  | x :: ((y :: _) as t) => (x <? y) && fg_strict_incb t
  | _ => true
  end.

(* getFactor: Variables = PartialKeys, a non-empty sorted list of distinct ids of variables of the graph;
   erase: the id of a variable of the graph *)
Definition fgop_okb (n : nat) (o : fgop) : bool :=
  match o with
  | FGGetFactor vars => negb (Nat.eqb (length vars) 0) && fg_strict_incb vars && forallb (fun v => v <? n) vars
  | FGErase a => a <? n
  end.

(* ---- bestVariableToRemove (const: reads only) ----------------------------------------------------- *)
(* src: FactorGraph.hpp:bestVariableToRemove — while (!variableAdjacencies_[retval].active) ++retval;
   the loop has no bound of its own: running past the end is an out-of-range operator[] *)
Fixpoint fg_first_active (fuel : nat) (adj : list vnode) (i : nat) : res nat :=
  match fuel with
  | O => Fuel
  | S f => do va <- rd adj i; if vactive va then Ok i else fg_first_active f adj (S i)
  end.

(* src: FactorGraph.hpp:bestVariableToRemove — if (vNeighbors.size() > 0) { factorIt =
     findFactorByVariables(variableAdjacencies_[vNeighbors[0]].factors, vNeighbors); exists = factorIt != end } *)
Definition fg_neigh_factor_exists (st : fgstate) (vn : list nat) : res bool :=
  if 0 <? length vn then
    do v0 <- rd vn 0;                                             (* vNeighbors[0] *)
    do va <- rd (fg_adj st) v0;                                   (* variableAdjacencies_[vNeighbors[0]] *)
    do f <- fg_find_by_vars (fg_factors st) (vfactors va) vn;
    Ok (match f with Some _ => true | None => false end)
  else Ok false.

(* src: FactorGraph.hpp:bestVariableToRemove — size_t cost = F[x]; for (auto n : vNeighbors) cost *= F[n];
   (size_t products wrap, which is defined; they are exact here) *)
Fixpoint fg_cost_loop (F : list nat) (vn : list nat) (acc : nat) : res nat :=
  match vn with
  | [] => Ok acc
  | b :: t => do fb <- rd F b; fg_cost_loop F t (acc * fb)
  end.
Definition fg_cost (F : list nat) (x : nat) (vn : list nat) : res nat :=
  do fx <- rd F x; fg_cost_loop F vn fx.

(* src: FactorGraph.hpp:bestVariableToRemove — for (size_t next = retval + 1; next < size(); ++next) {...}
   (factorExists is not updated when a variable with an existing factor is selected: as in the code) *)
Fixpoint fg_best_loop (st : fgstate) (F : list nat) (nexts : list nat) (retval minCost : nat) (factorExists : bool)
  : res nat :=
  match nexts with
  | [] => Ok retval
  | nx :: t =>
    do va <- rd (fg_adj st) nx;                                   (* variableAdjacencies_[next] *)
    if negb (vactive va) then fg_best_loop st F t retval minCost factorExists
    else
      do newExists <- fg_neigh_factor_exists st (vneigh va);
      if negb newExists && factorExists then fg_best_loop st F t retval minCost factorExists
      else
        do newCost <- fg_cost F nx (vneigh va);
        if (newExists && negb factorExists) || (newCost <? minCost)
        then fg_best_loop st F t nx newCost factorExists
        else fg_best_loop st F t retval minCost factorExists
  end.

(* src: FactorGraph.hpp:bestVariableToRemove *)
Definition fg_bestVariableToRemove (st : fgstate) (F : list nat) : res nat :=
  if Nat.eqb (fg_active st) 0 then Ok 0
  else
    do r0 <- fg_first_active (S (length (fg_adj st))) (fg_adj st) 0;
    do va <- rd (fg_adj st) r0;                                   (* getVariables(retval) *)
    do fe <- fg_neigh_factor_exists st (vneigh va);
    do mc <- fg_cost F r0 (vneigh va);
    fg_best_loop st F (seq (S r0) (length (fg_adj st) - S r0)) r0 mc fe.
