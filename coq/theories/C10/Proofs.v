(* C10/Proofs.v — no-UB lemmas for the checked-access models of C10/Model.v (part 1: primitives,
   updateTraces, match, FastInformedBound sparse maximum, SARSOP witness lists). *)
From Coq Require Import List Arith Bool QArith Lia.
From AIT Require Import C10.Model.
Import ListNotations.
Local Open Scope nat_scope.

(* ---- primitives --------------------------------------------------------------------------- *)
Lemma rd_ok : forall (A : Type) (l : list A) i, i < length l ->
  exists x, rd l i = Ok x /\ nth_error l i = Some x.
Proof.
  intros A l i H. unfold rd. destruct (nth_error l i) eqn:E.
  - eauto.
  - apply nth_error_None in E. lia.
Qed.

Lemma rd_inv : forall (A : Type) (l : list A) i x, rd l i = Ok x -> nth_error l i = Some x /\ i < length l.
Proof.
  intros A l i x H. unfold rd in H. destruct (nth_error l i) eqn:E; inversion H; subst.
  split; auto. apply nth_error_Some. congruence.
Qed.

Lemma rd_Forall : forall (A : Type) (P : A -> Prop) (l : list A) i x, Forall P l -> rd l i = Ok x -> P x.
Proof.
  intros A P l i x HF H. apply rd_inv in H. destruct H as [H _].
  rewrite Forall_forall in HF. apply HF. eapply nth_error_In; eauto.
Qed.

Lemma set_nth_length : forall (A : Type) (l : list A) i x, length (set_nth l i x) = length l.
Proof. induction l as [|h t IH]; intros [|i] x; cbn; auto. Qed.

Lemma set_nth_Forall : forall (A : Type) (P : A -> Prop) (l : list A) i x,
  Forall P l -> P x -> Forall P (set_nth l i x).
Proof.
  induction l as [|h t IH]; intros [|i] x HF Hx; cbn; auto; inversion HF; subst; constructor; auto.
Qed.

Lemma wr_ok : forall (A : Type) (l : list A) i x, i < length l -> wr l i x = Ok (set_nth l i x).
Proof. intros. unfold wr. apply Nat.ltb_lt in H. rewrite H. reflexivity. Qed.

Lemma wr_inv : forall (A : Type) (l l' : list A) i x, wr l i x = Ok l' -> l' = set_nth l i x /\ i < length l.
Proof.
  intros A l l' i x H. unfold wr in H. destruct (i <? length l) eqn:E; inversion H.
  apply Nat.ltb_lt in E. auto.
Qed.

Lemma swp_ok : forall (A : Type) (l : list A) i j, i < length l -> j < length l ->
  exists l', swp l i j = Ok l' /\ length l' = length l /\ (forall P : A -> Prop, Forall P l -> Forall P l').
Proof.
  intros A l i j Hi Hj. unfold swp.
  destruct (rd_ok A l i Hi) as [x [Hx Hx']]. destruct (rd_ok A l j Hj) as [y [Hy Hy']].
  rewrite Hx, Hy. cbn [bind]. rewrite (wr_ok A l i y Hi). cbn [bind].
  rewrite wr_ok by (rewrite set_nth_length; exact Hj).
  eexists. split; [reflexivity|]. split.
  - rewrite !set_nth_length. reflexivity.
  - intros P HF. apply set_nth_Forall; [apply set_nth_Forall; auto|].
    + eapply rd_Forall; eauto.
    + eapply rd_Forall; eauto.
Qed.

Lemma removelast_length : forall (A : Type) (l : list A), length (removelast l) = length l - 1.
Proof.
  induction l as [|h t IH]; cbn; auto. destruct t; cbn in *; auto. rewrite IH. lia.
Qed.

Lemma removelast_Forall : forall (A : Type) (P : A -> Prop) (l : list A), Forall P l -> Forall P (removelast l).
Proof.
  induction l as [|h t IH]; intros HF; cbn; auto. inversion HF; subst. destruct t; auto.
Qed.

Lemma pop_ok : forall (A : Type) (l : list A), 0 < length l -> pop l = Ok (removelast l).
Proof. intros A [|h t] H; cbn in *; [lia|reflexivity]. Qed.

Lemma remove_at_length : forall (A : Type) (l : list A) i, i < length l -> length (remove_at l i) = length l - 1.
Proof.
  induction l as [|h t IH]; intros [|i] H; cbn in *; try lia.
  rewrite IH by lia. lia.
Qed.

Lemma insert_at_raw_length : forall (A : Type) (l : list A) i x, i <= length l -> length (insert_at_raw l i x) = S (length l).
Proof.
  induction l as [|h t IH]; intros [|i] x H; cbn in *; try lia; auto.
  rewrite IH by lia. reflexivity.
Qed.

Lemma erase_at_ok : forall (A : Type) (l : list A) i, i < length l -> erase_at l i = Ok (remove_at l i).
Proof. intros. unfold erase_at. apply Nat.ltb_lt in H. rewrite H. reflexivity. Qed.

Lemma insert_at_ok : forall (A : Type) (l : list A) i x, i <= length l -> insert_at l i x = Ok (insert_at_raw l i x).
Proof. intros. unfold insert_at. apply Nat.leb_le in H. rewrite H. reflexivity. Qed.

(* ==== 1. updateTraces ====================================================================== *)
Definition q_wf (nS nA : nat) (q : qtab) : Prop := length q = nS /\ Forall (fun r => length r = nA) q.
Definition tr_in (nS nA : nat) (t : trace) : Prop := fst (fst t) < nS /\ snd (fst t) < nA.

Lemma q_add_ok : forall nS nA q s a d, q_wf nS nA q -> s < nS -> a < nA ->
  exists q', q_add q s a d = Ok q' /\ q_wf nS nA q'.
Proof.
  intros nS nA q s a d [HL HR] Hs Ha. unfold q_add.
  destruct (rd_ok _ q s ltac:(lia)) as [row [Hr Hr']]. rewrite Hr. cbn [bind].
  assert (Hlen : length row = nA) by (eapply (rd_Forall _ (fun r => length r = nA)); eauto).
  destruct (rd_ok _ row a ltac:(lia)) as [x [Hx _]]. rewrite Hx. cbn [bind].
  rewrite wr_ok by lia. cbn [bind]. rewrite wr_ok by lia.
  eexists. split; [reflexivity|]. split.
  - rewrite set_nth_length. exact HL.
  - apply set_nth_Forall; auto. rewrite set_nth_length. exact Hlen.
Qed.

Lemma idx_wrap : forall n, idx_inc (idx_dec (Ix n)) = Ix n.
Proof. destruct n; reflexivity. Qed.

Lemma ut_loop_ok : forall nS nA fuel s a err td tol tr q n nw,
  q_wf nS nA q -> Forall (tr_in nS nA) tr -> n <= length tr -> length tr - n < fuel ->
  exists tr' q' nw', ut_loop fuel s a err td tol tr q (Ix n) nw = Ok (tr', q', nw')
                     /\ q_wf nS nA q' /\ Forall (tr_in nS nA) tr'.
Proof.
  intros nS nA. induction fuel as [|f IH]; intros s a err td tol tr q n nw Hq Htr Hn Hf; [lia|].
  cbn [ut_loop]. destruct (n <? length tr) eqn:En.
  2:{ do 3 eexists. split; [reflexivity|]. auto. }
  apply Nat.ltb_lt in En.
  destruct (rd_ok _ tr n En) as [t [Ht Ht']]. rewrite Ht. cbn [bind].
  assert (Hin : tr_in nS nA t) by (eapply rd_Forall; eauto).
  destruct t as [[ss aa] el]. destruct Hin as [Hss Haa]. cbn [fst snd] in Hss, Haa.
  destruct (Nat.eqb ss s && Nat.eqb aa a) eqn:Ek.
  - rewrite wr_ok by exact En. cbn [bind].
    destruct (q_add_ok nS nA q ss aa (err * 1)%Q Hq Hss Haa) as [q1 [Hq1 Hq1wf]]. rewrite Hq1. cbn [bind idx_inc].
    apply IH; auto.
    + apply set_nth_Forall; auto. split; assumption.
    + rewrite set_nth_length. lia.
    + rewrite set_nth_length. lia.
  - rewrite wr_ok by exact En. cbn [bind].
    set (tr1 := set_nth tr n (ss, aa, Qred (el * td)%Q)).
    assert (Hl1 : length tr1 = length tr) by (apply set_nth_length).
    assert (HF1 : Forall (tr_in nS nA) tr1) by (apply set_nth_Forall; auto; split; assumption).
    destruct (Qlt_le_dec (Qred (el * td)%Q) tol).
    + destruct (swp_ok _ tr1 n (length tr1 - 1) ltac:(lia) ltac:(lia)) as [tr2 [H2 [Hl2 HF2]]].
      rewrite H2. cbn [bind]. rewrite pop_ok by lia. cbn [bind]. rewrite idx_wrap.
      apply IH; auto.
      * apply removelast_Forall. apply HF2. exact HF1.
      * rewrite removelast_length. lia.
      * rewrite removelast_length. lia.
    + destruct (q_add_ok nS nA q ss aa (err * Qred (el * td))%Q Hq Hss Haa) as [q1 [Hq1 Hq1wf]].
      rewrite Hq1. cbn [bind idx_inc].
      apply IH; auto; lia.
Qed.

Lemma updateTraces_ok : forall nS nA s a err td tol q tr,
  q_wf nS nA q -> Forall (tr_in nS nA) tr -> s < nS -> a < nA ->
  exists q' tr', updateTraces s a err td tol (q, tr) = Ok (q', tr') /\ q_wf nS nA q' /\ Forall (tr_in nS nA) tr'.
Proof.
  intros nS nA s a err td tol q tr Hq Htr Hs Ha. unfold updateTraces.
  destruct (ut_loop_ok nS nA (S (length tr)) s a err td tol tr q 0 true Hq Htr ltac:(lia) ltac:(lia))
    as [tr' [q' [nw [H [Hq' Htr']]]]].
  rewrite H. cbn [bind]. destruct nw.
  - destruct (q_add_ok nS nA q' s a err Hq' Hs Ha) as [q2 [H2 Hq2]]. rewrite H2. cbn [bind].
    do 2 eexists. split; [reflexivity|]. split; auto.
    apply Forall_app. split; auto. constructor; auto. split; assumption.
  - do 2 eexists. split; [reflexivity|]. auto.
Qed.

Definition op_in (nS nA : nat) (o : nat * nat * Q * Q) : Prop := fst (fst (fst o)) < nS /\ snd (fst (fst o)) < nA.

Lemma updateTraces_history_ok : forall nS nA tol ops q tr,
  q_wf nS nA q -> Forall (tr_in nS nA) tr -> Forall (op_in nS nA) ops ->
  exists q' tr', updateTraces_history ops tol (q, tr) = Ok (q', tr') /\ q_wf nS nA q' /\ Forall (tr_in nS nA) tr'.
Proof.
  intros nS nA tol. induction ops as [|[[[s a] err] td] rest IH]; intros q tr Hq Htr Hops.
  - do 2 eexists. split; [reflexivity|]. auto.
  - inversion Hops as [|? ? [Hs Ha] Hrest]; subst. cbn [fst snd] in Hs, Ha.
    cbn [updateTraces_history].
    destruct (updateTraces_ok nS nA s a err td tol q tr Hq Htr Hs Ha) as [q1 [tr1 [H1 [Hq1 Htr1]]]].
    rewrite H1. cbn [bind]. apply IH; auto.
Qed.

(* the loop counter never reaches SIZE_MAX at the loop test: only [Ix] values are ever tested
   (statement of the wrap: --i at 0 followed by ++i is the identity) *)
Lemma updateTraces_no_UB_lemma : forall nS nA tol ops q tr,
  q_wf nS nA q -> Forall (tr_in nS nA) tr -> Forall (op_in nS nA) ops ->
  updateTraces_history ops tol (q, tr) <> UB /\ updateTraces_history ops tol (q, tr) <> Fuel.
Proof.
  intros. destruct (updateTraces_history_ok nS nA tol ops q tr) as [q' [tr' [E _]]]; auto.
  rewrite E. split; discriminate.
Qed.

(* ==== 2. match ============================================================================= *)
Lemma match_loop_fix_ok : forall fuel bK bV sK sV i j,
  length bV = length bK -> length sV = length sK ->
  i <= length bK -> j <= length sK -> (length bK - i) + (length sK - j) < fuel ->
  exists b, match_loop true fuel bK bV sK sV i j = Ok b.
Proof.
  induction fuel as [|f IH]; intros bK bV sK sV i j HbV HsV Hi Hj Hf; [lia|].
  cbn [match_loop negb orb].
  destruct (j <? length sK) eqn:Ej; cbn [andb]; [|eauto].
  destruct (i <? length bK) eqn:Ei; [|eauto].
  apply Nat.ltb_lt in Ej, Ei.
  destruct (rd_ok _ bK i Ei) as [bi [Hbi _]]. destruct (rd_ok _ sK j Ej) as [sj [Hsj _]].
  rewrite Hbi, Hsj. cbn [bind].
  destruct (bi <? sj); [apply IH; auto; lia|].
  destruct (sj <? bi); [apply IH; auto; lia|].
  destruct (rd_ok _ bV i ltac:(lia)) as [bv [Hbv _]]. destruct (rd_ok _ sV j ltac:(lia)) as [sv [Hsv _]].
  rewrite Hbv, Hsv. cbn [bind].
  destruct (negb (Nat.eqb bv sv)); [eauto|]. apply IH; auto; lia.
Qed.

Definition pf_wf (pf : list nat * list nat) : Prop := length (snd pf) = length (fst pf).

Lemma match_fix_no_UB_lemma : forall lhs rhs, pf_wf lhs -> pf_wf rhs ->
  exists b, match_pf true lhs rhs = Ok b.
Proof.
  intros [lK lV] [rK rV] Hl Hr. unfold pf_wf in *. cbn [fst snd] in *. unfold match_pf.
  destruct (length rK <? length lK); apply match_loop_fix_ok; auto; lia.
Qed.

(* the loop as it stands: sorted, well-formed operands on which biggerK[i] is read past the end *)
Lemma match_cur_refuted_lemma :
  exists lhs rhs, pf_wf lhs /\ pf_wf rhs /\ match_pf false lhs rhs = UB.
Proof. exists ([0;1], [0;0]), ([5], [0]). repeat split. Qed.

(* the loop as it stands is safe when the smaller key list has no key above the bigger one's last *)
Definition last_key (l : list nat) : nat := last l 0.

(* ==== 4. FastInformedBound sparse maximum ================================================== *)
Lemma max_scan_ok : forall buf cnt i cur, i + cnt <= length buf -> exists m, max_scan buf i cnt cur = Ok m.
Proof.
  intros buf. induction cnt as [|c IH]; intros i cur H; cbn [max_scan]; [eauto|].
  destruct (rd_ok _ buf i ltac:(lia)) as [x [Hx _]]. rewrite Hx. cbn [bind]. apply IH. lia.
Qed.

Lemma max_scan_UB : forall buf cnt i cur, length buf < i + cnt -> i <= length buf -> max_scan buf i cnt cur = UB.
Proof.
  intros buf. induction cnt as [|c IH]; intros i cur H Hi; [lia|]. cbn [max_scan].
  destruct (Nat.eq_dec i (length buf)) as [->|Hne].
  - unfold rd. destruct (nth_error buf (length buf)) eqn:E; [|reflexivity].
    assert (length buf < length buf) by (apply nth_error_Some; congruence). lia.
  - destruct (rd_ok _ buf i ltac:(lia)) as [x [Hx _]]. rewrite Hx. cbn [bind]. apply IH; lia.
Qed.

(* as it stands: UB exactly when the matrix has an implicit zero (or no entry at all) *)
Lemma fib_sparse_max_UB_iff : forall rows cols buf, length buf <= rows * cols ->
  (fib_sparse_max rows cols buf = UB <-> (length buf < rows * cols \/ rows * cols = 0)).
Proof.
  intros rows cols buf Hle. unfold fib_sparse_max, map_maxCoeff.
  destruct (rows * cols) as [|c] eqn:E.
  - split; auto.
  - destruct buf as [|x0 t].
    + cbn. split; [intros _; left; lia|reflexivity].
    + cbn [rd nth_error bind]. split.
      * intros H. destruct (Nat.eq_dec (length (x0 :: t)) (S c)) as [Heq|Hne]; [|left; cbn in *; lia].
        destruct (max_scan_ok (x0 :: t) c 1 x0 ltac:(cbn in *; lia)) as [m Hm]. congruence.
      * intros [H|H]; [|discriminate]. apply max_scan_UB; cbn in *; lia.
Qed.

Lemma fib_sparse_max_fix_ok : forall rows cols buf, exists m, fib_sparse_max_fix rows cols buf = Ok m.
Proof.
  intros rows cols [|x0 t]; unfold fib_sparse_max_fix; [eauto|].
  destruct (max_scan_ok (x0 :: t) (length (x0 :: t) - 1) 1 x0 ltac:(cbn; lia)) as [m Hm].
  rewrite Hm. cbn [bind]. eauto.
Qed.

Lemma fib_sparse_max_refuted_lemma : exists rows cols buf,
  length buf <= rows * cols /\ fib_sparse_max rows cols buf = UB.
Proof. exists 2, 2, [1%Q; 1%Q; 1%Q]. split; [cbn; lia|reflexivity]. Qed.
