(* C10/ProofsBG.v — no-UB lemmas for the index model of POMDP::BeliefGenerator (C10/ModelBG.v). *)
From Coq Require Import List Arith Bool Lia.
From AIT Require Import C10.Model C10.Proofs C10.ModelBG.
Import ListNotations.
Local Open Scope nat_scope.

(* ---- small primitives --------------------------------------------------------------------- *)
Lemma back_ok : forall (A : Type) (l : list A), 0 < length l -> exists x, back l = Ok x.
Proof. intros A l H. unfold back. destruct (rd_ok A l (length l - 1)) as [x [Hx _]]; [lia|eauto]. Qed.

Lemma wr_back_ok : forall (A : Type) (l : list A) x, 0 < length l ->
  wr_back l x = Ok (set_nth l (length l - 1) x).
Proof. intros A l x H. unfold wr_back. apply wr_ok. lia. Qed.

Lemma rd_range_ok : forall (A : Type) (l : list A) cnt k, k + cnt <= length l -> rd_range l k cnt = Ok tt.
Proof.
  intros A l. induction cnt as [|c IH]; intros k H; cbn [rd_range]; [reflexivity|].
  destruct (rd_ok A l k) as [x [Hx _]]; [lia|]. rewrite Hx. cbn [bind]. apply IH. lia.
Qed.

Lemma szpred_ok : forall n, 0 < n -> szpred n = Ok (n - 1).
Proof. intros [|n] H; [lia|]. cbn [szpred]. f_equal. lia. Qed.

(* number of entries still below the retry limit *)
Definition countP (r : nat) (l : list nat) : nat := length (filter (fun c => c <? r) l).

Lemma countP_app1 : forall r l x, countP r (l ++ [x]) = countP r l + (if x <? r then 1 else 0).
Proof.
  intros r l x. unfold countP. rewrite filter_app, app_length. cbn [filter].
  destruct (x <? r); reflexivity.
Qed.

Lemma countP_le : forall r l, countP r l <= length l.
Proof.
  intros r. unfold countP. induction l as [|h t IH]; cbn [filter length]; [lia|].
  destruct (h <? r); cbn [length]; lia.
Qed.

Lemma countP_set_nth : forall r l i x y, nth_error l i = Some x ->
  countP r (set_nth l i y) + (if x <? r then 1 else 0) = countP r l + (if y <? r then 1 else 0).
Proof.
  intros r. unfold countP. induction l as [|h t IH]; intros [|i] x y H; cbn [nth_error] in H; try discriminate.
  - inversion H; subst. cbn [set_nth filter]. destruct (x <? r), (y <? r); cbn [length]; lia.
  - cbn [set_nth filter]. specialize (IH i x y H). destruct (h <? r); cbn [length]; lia.
Qed.

Lemma countP_repeat0 : forall r n, countP r (repeat 0 n) <= n.
Proof. intros. etransitivity; [apply countP_le|]. rewrite repeat_length. lia. Qed.

Section BGP.
  Variables B D : Type.
  Variable b0 : B.
  Variable dinf : D.
  Variable dmin : D -> B -> B -> D.
  Variable P : params.

  Notation ST := (bgst B D).

  Definition bg_core (s : ST) : Prop :=
    goodS s <= allS s /\ allS s <= length (bl s) /\ length (bl s) <= allS s + 1 /\
    length (dist s) = allS s - goodS s /\ length (seen s) = goodS s /\ length (unprod s) = goodS s.

  (* the invariant of the driver loop *)
  Definition bg_inv (s : ST) : Prop :=
    bg_core s /\ countP (pRetry P) (unprod s) <= prodS s /\ prodS s <= goodS s.

  (* what holds after the early [break] of the selection loop: distances not popped, the per-good-belief
     vectors one short *)
  Definition bg_weak (s : ST) : Prop :=
    1 <= goodS s /\ goodS s <= allS s /\ allS s <= length (bl s) /\ length (bl s) <= allS s + 1 /\
    length (dist s) = allS s - goodS s + 1 /\ length (seen s) = goodS s - 1 /\ length (unprod s) = goodS s - 1.

  Lemma dist_back_loop_ok : forall cnt k l ds, 0 < length ds -> 0 < length l -> k + cnt <= length l ->
    exists ds', dist_back_loop dmin cnt k l ds = Ok ds' /\ length ds' = length ds.
  Proof.
    induction cnt as [|c IH]; intros k l ds Hd Hl Hk; cbn [dist_back_loop].
    - exists ds. split; reflexivity.
    - destruct (back_ok _ ds Hd) as [d Hd']. rewrite Hd'. cbn [bind].
      destruct (back_ok _ l Hl) as [x Hx]. rewrite Hx. cbn [bind].
      destruct (rd_ok _ l k) as [y [Hy _]]; [lia|]. rewrite Hy. cbn [bind].
      rewrite wr_back_ok by exact Hd. cbn [bind].
      destruct (IH (S k) l (set_nth ds (length ds - 1) (dmin d x y))) as [ds' [H1 H2]].
      + rewrite set_nth_length. exact Hd.
      + exact Hl.
      + lia.
      + exists ds'. split; [exact H1|]. rewrite H2. apply set_nth_length.
  Qed.

  Lemma add_random_ok : forall n (s : ST) rs, bg_core s -> length (bl s) = allS s ->
    exists s' rs', add_random b0 dinf dmin n s rs = Ok (s', rs') /\ bg_core s' /\ length (bl s') = allS s' /\
      goodS s' = goodS s /\ prodS s' = prodS s /\ unprod s' = unprod s.
  Proof.
    induction n as [|n IH]; intros s rs Hc Hl; cbn [add_random].
    - exists s, rs. split; [reflexivity|]. split; [exact Hc|]. auto.
    - destruct (next_rand b0 rs) as [b rs'].
      destruct s as [l al gd pr ds sn up]. unfold bg_core in Hc. cbn [bl allS goodS prodS dist seen unprod] in *.
      destruct Hc as (H1 & H2 & H3 & H4 & H5 & H6).
      destruct (dist_back_loop_ok gd 0 (l ++ [b]) (ds ++ [dinf])) as [ds2 [E2 L2]].
      + rewrite app_length. cbn [length]. lia.
      + rewrite app_length. cbn [length]. lia.
      + rewrite app_length. cbn [length]. lia.
      + rewrite E2. cbn [bind].
        destruct (IH (mkst (l ++ [b]) (S al) gd pr ds2 sn up) rs') as (s' & rs2 & E & Hc' & Hl' & Hg & Hp & Hu).
        * unfold bg_core. cbn [bl allS goodS prodS dist seen unprod].
          rewrite L2, !app_length. cbn [length]. lia.
        * cbn [bl allS]. rewrite app_length. cbn [length]. lia.
        * exists s', rs2. cbn [goodS prodS unprod] in Hg, Hp, Hu. split; [exact E|]. split; [exact Hc'|]. auto.
  Qed.

  Lemma try_loop_ok : forall cnt i (s : ST) ts fa, bg_core s -> i < goodS s ->
    exists s' ts' fa', try_loop b0 dinf dmin cnt i s ts fa = Ok (s', ts', fa') /\ bg_core s' /\
      goodS s' = goodS s /\ prodS s' = prodS s /\ unprod s' = unprod s.
  Proof.
    induction cnt as [|c IH]; intros i s ts fa Hc Hi; cbn [try_loop].
    - exists s, ts, fa. split; [reflexivity|]. split; [exact Hc|]. auto.
    - destruct s as [l al gd pr ds sn up]. pose proof Hc as Hc0. unfold bg_core in Hc.
      cbn [bl allS goodS prodS dist seen unprod] in *.
      destruct Hc as (H1 & H2 & H3 & H4 & H5 & H6).
      destruct (rd_ok _ l i) as [bi [Hbi _]]; [lia|]. rewrite Hbi. cbn [bind].
      destruct (next_try ts) as [o ts'].
      assert (Hupd : forall ao b isnew, exists s' ts2 fa',
        (do so <- rd sn i;
         do seen1 <- wr sn i (ao :: so);
         do bl1 <- (if Nat.eqb al (length l) then Ok (l ++ [b]) else wr_back l b);
         do _ <- back bl1;
         do _ <- rd_range bl1 0 al;
         if isnew : bool then
           do ds2 <- dist_back_loop dmin gd 0 bl1 (ds ++ [dinf]);
           try_loop b0 dinf dmin c i (mkst bl1 (S al) gd pr ds2 seen1 up) ts' true
         else try_loop b0 dinf dmin c i (mkst bl1 al gd pr ds seen1 up) ts' true)
        = Ok (s', ts2, fa') /\ bg_core s' /\ goodS s' = gd /\ prodS s' = pr /\ unprod s' = up).
      { intros ao b isnew.
        destruct (rd_ok _ sn i) as [so [Hso _]]; [lia|]. rewrite Hso. cbn [bind].
        rewrite wr_ok by lia. cbn [bind].
        assert (Hbl : exists bl1, (if Nat.eqb al (length l) then Ok (l ++ [b]) else wr_back l b) = Ok bl1
                                  /\ length bl1 = al + 1).
        { destruct (Nat.eqb al (length l)) eqn:Eq.
          - apply Nat.eqb_eq in Eq. eexists. split; [reflexivity|]. rewrite app_length. cbn [length]. lia.
          - apply Nat.eqb_neq in Eq. rewrite wr_back_ok by lia. eexists. split; [reflexivity|].
            rewrite set_nth_length. lia. }
        destruct Hbl as [bl1 [Ebl Lbl]]. rewrite Ebl. cbn [bind].
        destruct (back_ok _ bl1) as [xb Hxb]; [lia|]. rewrite Hxb. cbn [bind].
        rewrite rd_range_ok by lia. cbn [bind].
        destruct isnew.
        - destruct (dist_back_loop_ok gd 0 bl1 (ds ++ [dinf])) as [ds2 [E2 L2]].
          + rewrite app_length. cbn [length]. lia.
          + lia.
          + lia.
          + rewrite E2. cbn [bind]. apply IH.
            * unfold bg_core. cbn [bl allS goodS prodS dist seen unprod].
              rewrite L2, app_length, set_nth_length. cbn [length]. lia.
            * cbn [goodS]. lia.
        - apply IH.
          + unfold bg_core. cbn [bl allS goodS prodS dist seen unprod]. rewrite set_nth_length. lia.
          + cbn [goodS]. lia. }
      destruct o as [|ao|ao b].
      + apply (IH i (mkst l al gd pr ds sn up) ts' fa Hc0). cbn [goodS]. exact Hi.
      + exact (Hupd ao b0 false).
      + exact (Hupd ao b true).
  Qed.
  Lemma a_loop_ok : forall cnt i (s : ST) ts fa, bg_core s -> i < goodS s ->
    exists s' ts' fa', a_loop b0 dinf dmin P cnt i s ts fa = Ok (s', ts', fa') /\ bg_core s' /\
      goodS s' = goodS s /\ prodS s' = prodS s /\ unprod s' = unprod s.
  Proof.
    induction cnt as [|c IH]; intros i s ts fa Hc Hi; cbn [a_loop].
    - exists s, ts, fa. split; [reflexivity|]. split; [exact Hc|]. auto.
    - destruct (rd_ok _ (bl s) i) as [bi [Hbi _]]; [unfold bg_core in Hc; lia|]. rewrite Hbi. cbn [bind].
      destruct (try_loop_ok (pTries P) i s ts fa Hc Hi) as (s1 & ts1 & fa1 & E1 & Hc1 & Hg1 & Hp1 & Hu1).
      rewrite E1. cbn [bind].
      destruct (IH i s1 ts1 fa1 Hc1) as (s2 & ts2 & fa2 & E2 & Hc2 & Hg2 & Hp2 & Hu2); [lia|].
      exists s2, ts2, fa2. split; [exact E2|]. split; [exact Hc2|].
      rewrite Hg2, Hp2, Hu2. auto.
  Qed.

  Lemma i_loop_ok : forall cnt i (s : ST) ts, bg_inv s -> i + cnt <= goodS s ->
    exists s' ts', i_loop b0 dinf dmin P cnt i s ts = Ok (s', ts') /\ bg_inv s' /\ goodS s' = goodS s.
  Proof.
    induction cnt as [|c IH]; intros i s ts Hinv Hi; cbn [i_loop].
    - exists s, ts. auto.
    - destruct Hinv as (Hc & Hcnt & Hpg). pose proof Hc as (H1 & H2 & H3 & H4 & H5 & H6).
      destruct (rd_ok _ (unprod s) i) as [nf [Hnf Hnf']]; [lia|]. rewrite Hnf. cbn [bind].
      destruct (pRetry P <=? nf) eqn:Er.
      + apply IH; [split; auto|lia].
      + apply Nat.leb_gt in Er.
        destruct (rd_ok _ (seen s) i) as [so [Hso _]]; [lia|]. rewrite Hso. cbn [bind].
        destruct (a_loop_ok (pA P) i s ts false Hc) as (s1 & ts1 & fa1 & E1 & Hc1 & Hg1 & Hp1 & Hu1); [lia|].
        rewrite E1. cbn [bind].
        destruct s1 as [l1 al1 gd1 pr1 ds1 sn1 up1]. cbn [bl allS goodS prodS dist seen unprod] in *.
        subst gd1 pr1 up1.
        assert (Hlt : (nf <? pRetry P) = true) by (apply Nat.ltb_lt; exact Er).
        unfold bg_core in Hc1. cbn [bl allS goodS prodS dist seen unprod] in Hc1.
        destruct fa1.
        * rewrite wr_ok by lia. cbn [bind].
          pose proof (countP_set_nth (pRetry P) (unprod s) i nf 0 Hnf') as Hcp. rewrite Hlt in Hcp.
          assert (H0 : (0 <? pRetry P) = true) by (apply Nat.ltb_lt; lia). rewrite H0 in Hcp.
          destruct (IH (S i) (mkst l1 al1 (goodS s) (prodS s) ds1 sn1 (set_nth (unprod s) i 0)) ts1)
            as (s' & ts' & E & Hi' & Hg').
          { unfold bg_inv, bg_core. cbn [bl allS goodS prodS dist seen unprod]. rewrite set_nth_length. lia. }
          { cbn [goodS]. lia. }
          exists s', ts'. cbn [goodS] in Hg'. auto.
        * rewrite wr_ok by lia. cbn [bind].
          pose proof (countP_set_nth (pRetry P) (unprod s) i nf (S nf) Hnf') as Hcp. rewrite Hlt in Hcp.
          destruct (Nat.eqb (S nf) (pRetry P)) eqn:Eq.
          -- apply Nat.eqb_eq in Eq.
             assert (Hs : (S nf <? pRetry P) = false) by (apply Nat.ltb_ge; lia). rewrite Hs in Hcp.
             destruct (prodS s) as [|p] eqn:Ep; [lia|].
             destruct (IH (S i) (mkst l1 al1 (goodS s) p ds1 sn1 (set_nth (unprod s) i (S nf))) ts1)
               as (s' & ts' & E & Hi' & Hg').
             { unfold bg_inv, bg_core. cbn [bl allS goodS prodS dist seen unprod]. rewrite set_nth_length. lia. }
             { cbn [goodS]. lia. }
             exists s', ts'. cbn [goodS] in Hg'. auto.
          -- apply Nat.eqb_neq in Eq.
             assert (Hs : (S nf <? pRetry P) = true) by (apply Nat.ltb_lt; lia). rewrite Hs in Hcp.
             destruct (IH (S i) (mkst l1 al1 (goodS s) (prodS s) ds1 sn1 (set_nth (unprod s) i (S nf))) ts1)
               as (s' & ts' & E & Hi' & Hg').
             { unfold bg_inv, bg_core. cbn [bl allS goodS prodS dist seen unprod]. rewrite set_nth_length. lia. }
             { cbn [goodS]. lia. }
             exists s', ts'. cbn [goodS] in Hg'. auto.
  Qed.

  Lemma redist_ok : forall cnt k l g ds, k + cnt <= length ds -> 0 < g -> g + k + cnt <= length l ->
    exists ds', redist dmin cnt k l g ds = Ok ds' /\ length ds' = length ds.
  Proof.
    induction cnt as [|c IH]; intros k l g ds Hk Hg Hl; cbn [redist].
    - exists ds. split; reflexivity.
    - destruct (rd_ok _ ds k) as [d [Hd _]]; [lia|]. rewrite Hd. cbn [bind].
      rewrite szpred_ok by exact Hg. cbn [bind].
      destruct (rd_ok _ l (g - 1)) as [x [Hx _]]; [lia|]. rewrite Hx. cbn [bind].
      destruct (rd_ok _ l (g + k)) as [y [Hy _]]; [lia|]. rewrite Hy. cbn [bind].
      rewrite wr_ok by lia. cbn [bind].
      destruct (IH (S k) l g (set_nth ds k (dmin d x y))) as [ds' [E L]].
      + rewrite set_nth_length. lia.
      + exact Hg.
      + lia.
      + exists ds'. split; [exact E|]. rewrite L. apply set_nth_length.
  Qed.

  Lemma next_sel_lt : forall n ss, 0 < n -> fst (next_sel n ss) < n.
  Proof. intros [|m] ss H; [lia|]. unfold next_sel. cbn [fst]. lia. Qed.

  Lemma sel_loop_ok : forall cnt max (s : ST) ss, bg_inv s -> cnt <= allS s - goodS s -> goodS s < max ->
    exists s' ss', sel_loop dmin cnt max s ss = Ok (s', ss') /\ goodS s <= goodS s' /\
      ((goodS s' < max /\ bg_inv s') \/ (goodS s' = max /\ bg_weak s')).
  Proof.
    induction cnt as [|c IH]; intros max s ss Hinv Hcnt Hmax; cbn [sel_loop].
    - exists s, ss. split; [reflexivity|]. split; [lia|]. left. auto.
    - destruct Hinv as (Hc & Hcp & Hpg). destruct Hc as (H1 & H2 & H3 & H4 & H5 & H6).
      pose proof (next_sel_lt (length (dist s)) ss ltac:(lia)) as Hid.
      destruct (next_sel (length (dist s)) ss) as [id ss']. cbn [fst] in Hid.
      destruct (swp_ok _ (dist s) id (length (dist s) - 1)) as (ds1 & E1 & L1 & _); [lia|lia|].
      rewrite E1. cbn [bind].
      rewrite szpred_ok by lia. cbn [bind].
      destruct (swp_ok _ (bl s) (goodS s + id) (allS s - 1)) as (bl1 & Eb1 & Lb1 & _); [lia|lia|].
      rewrite Eb1. cbn [bind].
      destruct (swp_ok _ bl1 (goodS s) (allS s - 1)) as (bl2 & Eb2 & Lb2 & _); [lia|lia|].
      rewrite Eb2. cbn [bind].
      destruct (max <=? S (goodS s)) eqn:Em.
      + apply Nat.leb_le in Em. eexists. eexists. split; [reflexivity|]. cbn [goodS]. split; [lia|]. right.
        unfold bg_weak. cbn [bl allS goodS prodS dist seen unprod]. lia.
      + apply Nat.leb_gt in Em.
        rewrite pop_ok by lia. cbn [bind].
        destruct (redist_ok (length (removelast ds1)) 0 bl2 (S (goodS s)) (removelast ds1)) as (ds3 & E3 & L3).
        * lia.
        * lia.
        * rewrite removelast_length. lia.
        * rewrite E3. cbn [bind].
          destruct (IH max (mkst bl2 (allS s) (S (goodS s)) (S (prodS s)) ds3 (seen s ++ [[]]) (unprod s ++ [0])) ss')
            as (s' & ss2 & E & Hg & Hpost).
          -- unfold bg_inv, bg_core. cbn [bl allS goodS prodS dist seen unprod].
             rewrite L3, removelast_length, !app_length, countP_app1. cbn [length].
             destruct (0 <? pRetry P); lia.
          -- cbn [allS goodS]. lia.
          -- cbn [goodS]. lia.
          -- exists s', ss2. cbn [goodS] in Hg. split; [exact E|]. split; [lia|exact Hpost].
  Qed.
  (* expandBeliefList never reaches an unchecked access out of range (nor --productiveBeliefs_ at 0) from
     a state satisfying the invariant; afterwards either the invariant holds again, or the selection loop
     took its early [break] with goodBeliefsSize_ == max and the weaker [bg_weak] holds.
     ([firstProductiveBelief <= goodBeliefsSize_] is not needed: the loop is then empty.) *)
  Lemma expandBeliefList_ok : forall sc max first rnd (s : ST), bg_inv s -> goodS s < max ->
    exists s' sc', expandBeliefList b0 dinf dmin P max rnd first s sc = Ok (s', sc') /\ goodS s <= goodS s' /\
      ((goodS s' < max /\ bg_inv s') \/ (goodS s' = max /\ bg_weak s')).
  Proof.
    intros sc max first rnd s Hinv Hmax. unfold expandBeliefList.
    destruct Hinv as (Hc & Hcp & Hpg). pose proof Hc as (H1 & H2 & H3 & H4 & H5 & H6).
    assert (Hpop : exists bl0, (if allS s <? length (bl s) then pop (bl s) else Ok (bl s)) = Ok bl0 /\
                               length bl0 = allS s).
    { destruct (allS s <? length (bl s)) eqn:E.
      - apply Nat.ltb_lt in E. rewrite pop_ok by lia. eexists. split; [reflexivity|].
        rewrite removelast_length. lia.
      - apply Nat.ltb_ge in E. eexists. split; [reflexivity|]. lia. }
    destruct Hpop as (bl0 & Epop & Lpop). rewrite Epop. cbn [bind].
    destruct (add_random_ok rnd (mkst bl0 (allS s) (goodS s) (prodS s) (dist s) (seen s) (unprod s)) (rands sc))
      as (s1 & rs1 & E1 & Hc1 & _ & Hg1 & Hp1 & Hu1).
    { unfold bg_core. cbn [bl allS goodS prodS dist seen unprod]. lia. }
    { cbn [bl allS]. exact Lpop. }
    rewrite E1. cbn [bind]. cbn [goodS prodS unprod] in Hg1, Hp1, Hu1.
    assert (Hinv1 : bg_inv s1) by (unfold bg_inv; rewrite Hg1, Hp1, Hu1; auto).
    assert (Hi : exists s2 ts2, i_loop b0 dinf dmin P (goodS s1 - first) first s1 (tries sc) = Ok (s2, ts2) /\
                                bg_inv s2 /\ goodS s2 = goodS s1).
    { destruct (goodS s1 - first) as [|c] eqn:Ec.
      - exists s1, (tries sc). cbn [i_loop]. auto.
      - apply i_loop_ok; [exact Hinv1|lia]. }
    destruct Hi as (s2 & ts2 & E2 & Hinv2 & Hg2). rewrite E2. cbn [bind].
    pose proof Hinv2 as ((G1 & _) & _).
    assert (Hle : (goodS s2 <=? allS s2) = true) by (apply Nat.leb_le; exact G1). rewrite Hle.
    destruct (sel_loop_ok (Nat.min (Nat.max rnd (prodS s)) (allS s2 - goodS s2)) max s2 (sels sc) Hinv2)
      as (s3 & ss3 & E3 & Hg3 & Hpost); [lia|lia|].
    rewrite E3. cbn [bind]. eexists. eexists. split; [reflexivity|]. split; [lia|exact Hpost].
  Qed.

  (* the statement asked for (with its redundant hypothesis on firstProductiveBelief) *)
  Theorem expandBeliefList_no_UB_lemma : forall sc max first rnd (s : ST),
    bg_inv s -> first <= goodS s -> goodS s < max ->
    exists s' sc', expandBeliefList b0 dinf dmin P max rnd first s sc = Ok (s', sc') /\
      (bg_inv s' \/ (goodS s' >= max /\ bg_weak s')).
  Proof.
    intros sc max first rnd s Hinv _ Hmax.
    destruct (expandBeliefList_ok sc max first rnd s Hinv Hmax) as (s' & sc' & E & _ & [[_ H]|[H1 H2]]);
      exists s', sc'; (split; [exact E|]); [left; exact H|right; split; [lia|exact H2]].
  Qed.

  Lemma shift_first_ok : forall cnt first up, first + cnt <= length up ->
    exists f', shift_first P cnt first up = Ok f' /\ first <= f' /\ f' <= first + cnt.
  Proof.
    induction cnt as [|c IH]; intros first up H; cbn [shift_first].
    - exists first. split; [reflexivity|lia].
    - destruct (rd_ok _ up first) as [u [Hu _]]; [lia|]. rewrite Hu. cbn [bind].
      destruct (u <? pRetry P).
      + exists first. split; [reflexivity|lia].
      + destruct (IH (S first) up) as (f' & E & Hf); [lia|]. exists f'. split; [exact E|lia].
  Qed.

  (* what is left when the driver loop exits *)
  Definition bg_done (max : nat) (s : ST) : Prop := max <= goodS s /\ goodS s <= allS s /\ allS s <= length (bl s).

  Lemma outer_loop_ok : forall fuel max (s : ST) sc first rnd, bg_inv s -> first <= goodS s ->
    outer_loop b0 dinf dmin P fuel max s sc first rnd = Fuel \/
    exists s' sc', outer_loop b0 dinf dmin P fuel max s sc first rnd = Ok (s', sc') /\ bg_done max s'.
  Proof.
    induction fuel as [|f IH]; intros max s sc first rnd Hinv Hf; cbn [outer_loop]; [left; reflexivity|].
    destruct (goodS s <? max) eqn:Em.
    - apply Nat.ltb_lt in Em.
      destruct (expandBeliefList_ok sc max first rnd s Hinv Em) as (s1 & sc1 & E1 & Hmono & Hpost).
      rewrite E1. cbn [bind].
      destruct Hpost as [[Hlt Hinv1]|[Heq Hw]].
      + assert (Hb : (max <=? goodS s1) = false) by (apply Nat.leb_gt; exact Hlt). rewrite Hb.
        pose proof Hinv1 as ((_ & _ & _ & _ & _ & Hup) & _).
        destruct (shift_first_ok (goodS s1 - first) first (unprod s1)) as (f' & Ef & Hf1 & Hf2); [lia|].
        rewrite Ef. cbn [bind]. apply IH; [exact Hinv1|lia].
      + right. assert (Hb : (max <=? goodS s1) = true) by (apply Nat.leb_le; lia). rewrite Hb.
        exists s1, sc1. split; [reflexivity|]. unfold bg_done. unfold bg_weak in Hw. lia.
    - apply Nat.ltb_ge in Em. right. exists s, sc. split; [reflexivity|].
      destruct Hinv as ((H1 & H2 & _) & _). unfold bg_done. lia.
  Qed.
  Lemma init_inv : forall beliefs : list B, bg_inv (@init_st B D beliefs).
  Proof.
    intros beliefs. unfold bg_inv, bg_core, init_st. cbn [bl allS goodS prodS dist seen unprod length].
    rewrite !repeat_length. pose proof (countP_repeat0 (pRetry P) (length beliefs)). lia.
  Qed.

  (* operator()(maxBeliefs, bl): for every input list (empty, or longer than maxBeliefs, included), every
     maxBeliefs, every script and every fuel, the routine either runs out of fuel or returns a list of
     exactly maxBeliefs beliefs (a prefix of the final working list: resize never pads) *)
  Theorem beliefGenerator_ok : forall fuel max (beliefs : list B) sc,
    beliefGenerator (D := D) b0 dinf dmin P fuel max beliefs sc = Fuel \/
    exists l, beliefGenerator (D := D) b0 dinf dmin P fuel max beliefs sc = Ok l /\ length l = max.
  Proof.
    intros fuel max beliefs sc. unfold beliefGenerator.
    destruct (outer_loop_ok fuel max (init_st beliefs) sc 0 0 (init_inv beliefs) ltac:(lia))
      as [E|(s' & sc' & E & Hm & Hg & Ha)]; rewrite E; cbn [bind fst]; [left; reflexivity|right].
    eexists. split; [reflexivity|]. unfold resize. rewrite app_length, firstn_length, repeat_length. lia.
  Qed.

  Theorem beliefGenerator_no_UB_lemma : forall fuel max (beliefs : list B) sc,
    beliefGenerator (D := D) b0 dinf dmin P fuel max beliefs sc <> UB.
  Proof.
    intros fuel max beliefs sc. destruct (beliefGenerator_ok fuel max beliefs sc) as [E|(l & E & _)];
      rewrite E; discriminate.
  Qed.
End BGP.

(* ---- computed examples --------------------------------------------------------------------- *)
Definition ex_dmin (d x y : nat) : nat := Nat.min d (Nat.max (x - y) (y - x)).
Definition ex_params : params := mkparams 2 2 2 3.       (* A = 2, triesPerRun_ = 2, retryLimit_ = 2, minProductiveBeliefs_ = 3 *)
Definition ex_script : script nat :=
  mkscript [New (0, 0) 10; Seen; Dup (1, 0); New (1, 1) 20; Seen; Seen; New (0, 1) 30; Seen;
            New (0, 0) 40; Dup (0, 1); Seen; New (1, 0) 50]
           [100; 101; 102; 103] [1; 0; 7; 0; 2].

(* a non-trivial run (minProductiveBeliefs_ = 5): two rounds of expandBeliefList, a tentative slot reused,
   a random belief added in round 2, selections with one clamped script entry (7), the early break and
   the final resize *)
Example ex_beliefGenerator_run :
  beliefGenerator 0 1000 ex_dmin (mkparams 2 2 2 5) 10 8 [1; 2] ex_script = Ok [1; 2; 20; 30; 50; 100; 10; 40].
Proof. vm_compute. reflexivity. Qed.

(* one call from a state satisfying the invariant; it ends in the early break: goodBeliefsSize_ == max,
   distances not popped (3 = all - good + 1), seenObservations / unproductiveBeliefs one short *)
Example ex_expandBeliefList_break :
  expandBeliefList 0 1000 ex_dmin ex_params 3 0 0 (init_st [1; 2]) ex_script
  = Ok (mkst [1; 2; 20; 30; 10] 5 3 2 [8; 28; 18] [[(1, 1); (1, 0); (0, 0)]; [(0, 1)]] [0; 0],
        mkscript [New (0, 0) 40; Dup (0, 1); Seen; New (1, 0) 50] [100; 101; 102; 103] [0; 7; 0; 2]).
Proof. vm_compute. reflexivity. Qed.

(* an EMPTY input list (the private routine's "WARNING: assumes the input list has at least one element"):
   round 1 does nothing (beliefsToAdd = max(0, 0) = 0), then randomBeliefsToAdd = minProductiveBeliefs_
   and round 2 adds random beliefs and selects among them — progress, no out-of-range access *)
Example ex_beliefGenerator_empty_input :
  beliefGenerator 0 1000 ex_dmin ex_params 10 2 [] ex_script = Ok [101; 102].
Proof. vm_compute. reflexivity. Qed.

(* ... but with minProductiveBeliefs_ = 0 (not the source's constant 10) an empty list never progresses *)
Example ex_beliefGenerator_empty_input_minprod0 :
  beliefGenerator 0 1000 ex_dmin (mkparams 2 2 2 0) 50 2 [] ex_script = Fuel.
Proof. vm_compute. reflexivity. Qed.

(* maxBeliefs < beliefs.size(): the loop is skipped and resize TRUNCATES the caller's list (no UB) *)
Example ex_beliefGenerator_truncates :
  beliefGenerator 0 1000 ex_dmin ex_params 10 2 [1; 2; 3; 4] ex_script = Ok [1; 2].
Proof. vm_compute. reflexivity. Qed.

(* the checked accesses do detect a broken state: goodBeliefsSize_ > allBeliefsSize_ with an empty
   distances vector makes max_element return end and distances[id] is out of range *)
Example ex_sel_loop_detects_empty_distances :
  sel_loop ex_dmin 1 9 (mkst [1; 2] 2 2 2 [] [[]; []] [0; 0]) [0] = UB.
Proof. vm_compute. reflexivity. Qed.

(* the hypotheses of expandBeliefList_no_UB_lemma are satisfiable on the state used above *)
Example ex_expandBeliefList_no_UB_hyps :
  bg_inv nat nat ex_params (init_st [1; 2]) /\ 0 <= goodS (@init_st nat nat [1; 2]) /\ goodS (@init_st nat nat [1; 2]) < 3.
Proof. split; [apply init_inv|]. cbn. lia. Qed.

(* Side observation (NOT undefined behaviour, outside C10): the double swap of the selection loop moves
   the old bl[goodBeliefsSize_] to bl[allBeliefsSize_ - 1] but leaves its distance in distances[0], so after
   pop_back() distances[k] no longer belongs to bl[goodBeliefsSize_ + k].  Here ex_dmin is the real
   min(d, |x - y|): after two selections the single remaining bad belief is 10, whose distance to the good
   set {1, 2, 20, 30} is 8, yet distances = [10]. *)
Example ex_expandBeliefList_distances_misaligned :
  expandBeliefList 0 1000 ex_dmin (mkparams 2 2 2 5) 8 0 0 (init_st [1; 2]) ex_script
  = Ok (mkst [1; 2; 20; 30; 10] 5 4 4 [10] [[(1, 1); (1, 0); (0, 0)]; [(0, 1)]; []; []] [0; 0; 0; 0],
        mkscript [New (0, 0) 40; Dup (0, 1); Seen; New (1, 0) 50] [100; 101; 102; 103] [7; 0; 2]).
Proof. vm_compute. reflexivity. Qed.
