(* C10/ModelEDI.v — index form of Prune.hpp:extractDominatedIncremental (the four-range juggling) with
   checked accesses, and extractDominated on a sub-range [b, e) of an array.  No proofs in this file. *)
From Coq Require Import List Arith Bool.
From AIT Require Import C10.Model.
Import ListNotations.

Section EDI.
  Variable A : Type.
  Variable dom : A -> A -> bool.              (* dominates(p(x), p(y)) on the pointed-to elements *)

  (* src: Prune.hpp:extractDominated(begin, end) with begin = b: the outer while (optEnd < end) loop;
     the scan of the proven non-dominated zone starts at b *)
  Fixpoint edr_outer (fuel : nat) (arr : list A) (b optEnd end_ : nat) : res (list A * nat) :=
    match fuel with
    | O => Fuel
    | S f =>
      if optEnd <? end_ then
        match end_ with
        | O => UB
        | S t =>
          do d <- ed_check dom (optEnd - b) arr b t;
          if d then edr_outer f arr b optEnd t
          else
            do r <- ed_back dom (S (length arr)) arr optEnd t t end_;
            let '(arr1, target1, end1) := r in
            do arr2 <- swp arr1 target1 optEnd;
            edr_outer f arr2 b (S optEnd) end1
        end
      else Ok (arr, end_)
    end.

  Definition extractDominated_range (arr : list A) (b e : nat) : res (list A * nat) :=
    if e - b <? 2 then Ok (arr, e) else edr_outer (S (e - b)) arr b b e.

  (* src: extractDominatedIncremental, inner loop  while (old > begin) { --old; ... }  for the new entry
     at [target].  Returns (array, oldEnd, end); the `goto next` case returns with end decremented. *)
  Fixpoint edi_old (fuel : nat) (arr : list A) (begin old oldEnd target end_ : nat) (isDominating : bool)
    : res (list A * nat * nat) :=
    match fuel with
    | O => Fuel
    | S f =>
      if begin <? old then
        match old with
        | O => UB                                           (* --old below begin *)
        | S o =>
          do x <- rd arr o; do t <- rd arr target;
          if negb isDominating && dom x t then
            match end_ with
            | O => UB
            | S e => do arr' <- swp arr target e; Ok (arr', oldEnd, e)      (* iter_swap(target, --end); goto next *)
            end
          else if dom t x then
            match oldEnd with
            | O => UB
            | S oe => do arr' <- swp arr o oe; edi_old f arr' begin o oe target end_ true   (* iter_swap(old, --oldEnd) *)
            end
          else edi_old f arr begin o oldEnd target end_ isDominating
        end
      else Ok (arr, oldEnd, end_)
    end.

  (* outer loop  while (target > newBegin) { --target; ... } *)
  Fixpoint edi_outer (fuel : nat) (arr : list A) (begin newBegin oldEnd target end_ : nat)
    : res (list A * nat * nat) :=
    match fuel with
    | O => Fuel
    | S f =>
      if newBegin <? target then
        match target with
        | O => UB
        | S tg =>
          do r <- edi_old (S (length arr)) arr begin oldEnd oldEnd tg end_ false;
          let '(arr', oldEnd', end') := r in
          edi_outer f arr' begin newBegin oldEnd' tg end'
        end
      else Ok (arr, oldEnd, end_)
    end.

  (* final loop  while (newSwap > newBegin && oldSwap < newBegin) iter_swap(--newSwap, oldSwap++) *)
  Fixpoint edi_shuffle_idx (fuel : nat) (arr : list A) (newBegin oldSwap newSwap : nat) : res (list A * nat * nat) :=
    match fuel with
    | O => Fuel
    | S f =>
      if (newBegin <? newSwap) && (oldSwap <? newBegin) then
        match newSwap with
        | O => UB
        | S ns => do arr' <- swp arr ns oldSwap; edi_shuffle_idx f arr' newBegin (S oldSwap) ns
        end
      else Ok (arr, oldSwap, newSwap)
    end.

  (* whole function on the array [arr] with iterators begin <= newBegin <= end0 as indices; returns the
     array and the three returned iterators (oldEnd, mid, end) *)
  Definition extractDominatedIncremental_idx (arr : list A) (begin newBegin end0 : nat)
    : res (list A * nat * nat * nat) :=
    do r1 <- extractDominated_range arr newBegin end0;
    let '(arr1, end1) := r1 in
    do r2 <- edi_outer (S (length arr1)) arr1 begin newBegin newBegin end1 end1;
    let '(arr2, oldEnd, end2) := r2 in
    do r3 <- edi_shuffle_idx (S (length arr2)) arr2 newBegin oldEnd end2;
    let '(arr3, oldSwap, newSwap) := r3 in
    Ok (arr3, oldEnd, (if Nat.eqb newSwap newBegin then oldSwap else newSwap), end2).
End EDI.
Arguments edr_outer {A}. Arguments extractDominated_range {A}. Arguments edi_old {A}. Arguments edi_outer {A}.
Arguments edi_shuffle_idx {A}. Arguments extractDominatedIncremental_idx {A}.
