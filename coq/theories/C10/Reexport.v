(* C10/Reexport.v — no-UB corollaries of theorems proved for other properties about their own
   checked-access models (imported read-only, qualified: every property has its own [res]/[UB]). *)
From Coq Require Import List Arith Bool QArith Sorted.
From AIT Require C20.Model C20.Spec C20.Proofs C20.ProofsFaster.
From AIT Require C08.Model C08.Spec C08.Proofs C08.Proofs3.
From AIT Require C18.Model C18.ProofsSafe.
From AIT Require C19.Model C19.Spec C19.ProofsTop.
From AIT Require Base.Qx.
Import ListNotations.
Local Open Scope nat_scope.

(* ---- C20: Trie ---------------------------------------------------------------------------- *)
(* every admissible history of constructor / insert / filter x2 / refine / erase x2 / size / getAllIds
   on the repaired Trie model: no unchecked access is out of range (and nothing throws) *)
Lemma trie_history_no_UB_lemma : forall F ops, C20.Spec.history_ok F ops ->
  C20.Model.trie_history true F ops <> C20.Model.UB.
Proof.
  intros F ops H. destruct (C20.Proofs.outputs_exact_lemma F ops H) as [t E]. rewrite E. discriminate.
Qed.

Lemma trie_size_no_UB_lemma : forall F ops, C20.Spec.history_ok F ops ->
  exists t, C20.Model.trie_history true F ops = C20.Model.Ok (t, C20.Spec.spec_outs ops) /\
            C20.Model.trie_size true t <> C20.Model.UB.
Proof.
  intros F ops H. destruct (C20.Proofs.size_eq_card_lemma F ops H) as [t [E1 E2]].
  exists t. split; [exact E1|]. rewrite E2. discriminate.
Qed.

Lemma trie_getAllIds_no_UB_lemma : forall F ops, C20.Spec.history_ok F ops ->
  exists t, C20.Model.trie_history true F ops = C20.Model.Ok (t, C20.Spec.spec_outs ops) /\
            C20.Model.trie_getAllIds true t <> C20.Model.UB.
Proof.
  intros F ops H. destruct (C20.Proofs.getAllIds_eq_dom_lemma F ops H) as [t [E1 E2]].
  exists t. split; [exact E1|]. rewrite E2. discriminate.
Qed.

Lemma applyFilters_no_UB_lemma : forall fs : list (list nat * list nat),
  fs <> [] ->
  (forall f, In f fs ->
     StronglySorted lt (fst f) /\ StronglySorted lt (snd f) /\ (forall x, In x (fst f) -> In x (snd f) -> False) /\
     (fst f <> [] \/ snd f <> [])) ->
  C20.Model.applyFilters fs <> C20.Model.AUB /\ C20.Model.applyFilters fs <> C20.Model.AFuel.
Proof.
  intros fs H1 H2. destruct (C20.Proofs.applyFilters_is_intersection_lemma fs H1 H2) as [m [E _]].
  rewrite E. split; discriminate.
Qed.

Lemma fasterTrie_no_UB_lemma : forall F ops f, C20.Spec.ft_history_ok F ops ->
  C20.Spec.pf_okb F (C20.Spec.query_of_factors f 0) = true ->
  C20.Model.ft_history F ops <> C20.Model.UB /\
  (forall t outs, C20.Model.ft_history F ops = C20.Model.Ok (t, outs) -> C20.Model.ft_filter t f <> C20.Model.UB).
Proof.
  intros F ops f H1 H2.
  destruct (C20.ProofsFaster.FasterTrie_filter_exact_lemma F ops f H1 H2) as [t [outs [l [E1 [E2 _]]]]].
  split.
  - rewrite E1. discriminate.
  - intros t' outs' E'. rewrite E1 in E'. inversion E'; subst. rewrite E2. discriminate.
Qed.

(* ---- C08: samplers ------------------------------------------------------------------------ *)
(* the sparse scan without end test (the code before fixes/C08-sparse-sample.patch) is free of UB
   exactly under the precondition "the draw is below the stored mass" *)
Lemma sparse_sample_no_UB_lemma : forall row u, Forall (fun e => (0 <= snd e)%Q) row -> (0 <= u)%Q ->
  (u < C08.Proofs.stored_sum row)%Q -> C08.Model.sample_sparse row u <> C08.Model.UB.
Proof.
  intros row u H1 H2 H3 E. apply (C08.Proofs.sparse_UB_iff row u H1 H2) in E.
  apply (Qlt_not_le _ _ H3). exact E.
Qed.
