(* C10/ModelBU.v — index model of extractBestUsefulPoints (include/AIToolbox/Utils/Polytope.hpp).
   Points are abstract; findBestAtPoint over the hyperplane range is abstracted as [fb] (returns the
   index of the best hyperplane and its value) but keeps its one unchecked access: it dereferences
   *begin before looking at end, so an EMPTY hyperplane range is undefined as soon as a point is
   examined.  Iterators into the point range are indices; [pend] in bestValues[..].first is [None].
   No proofs in this file. *)
From Coq Require Import List Arith Bool.
From AIT Require Import C10.Model.
Import ListNotations.
Local Open Scope nat_scope.

Section BU.
  Variables Pt V : Type.
  Variable fb : Pt -> nat * V.          (* (distance(begin, best), value) for a non-empty hyperplane range *)
  Variable vlt : V -> V -> bool.        (* bestValues[vId].second < value *)
  Variable vlow : V -> bool.            (* std::numeric_limits<double>::lowest() < value *)
  Variable entriesN : nat.              (* std::distance(begin, end) *)

  (* src: Polytope.hpp:findBestAtPoint — bestMatch = begin; bestValue = point.dot( *bestMatch ) is evaluated
     unconditionally: with begin == end this dereferences the end iterator *)
  Definition findBest (p : Pt) : res (nat * V) := if Nat.eqb entriesN 0 then UB else Ok (fb p).

  Definition bventry : Type := (option nat * option V)%type.   (* {PIterator, double}; None = pend / lowest() *)
  Definition second_lt (e : bventry) (v : V) : bool :=
    match snd e with None => vlow v | Some w => vlt w v end.

  (* src: Polytope.hpp:extractBestUsefulPoints — while (it < bound && it < maxBound) { ... } *)
  Fixpoint bu_loop1 (fuel : nat) (pts : list Pt) (bv : list bventry) (it bound maxB : nat)
    : res (list Pt * list bventry * nat * nat) :=
    match fuel with
    | O => Fuel
    | S f =>
      if (it <? bound) && (it <? maxB) then
        do p <- rd pts it;                                    (* *it *)
        do r <- findBest p;
        let '(vId, value) := r in
        do e <- rd bv vId;                                    (* bestValues[vId] *)
        let discard (pts' : list Pt) (bv' : list bventry) :=  (* std::iter_swap(it, --bound) *)
          match bound with
          | O => UB                                           (* --bound below pbegin *)
          | S b => do pts2 <- swp pts' it b; bu_loop1 f pts2 bv' it b maxB
          end in
        if second_lt e value then
          match fst e with
          | None =>                                           (* .first == pend: bestValues[vId] = {it++, value}; continue *)
            do bv1 <- wr bv vId (Some it, Some value);
            bu_loop1 f pts bv1 (S it) bound maxB
          | Some k =>
            do bv1 <- wr bv vId (Some k, Some value);         (* bestValues[vId].second = value *)
            do pts1 <- swp pts k it;                          (* std::iter_swap(bestValues[vId].first, it) *)
            discard pts1 bv1
          end
        else discard pts bv
      else Ok (pts, bv, it, bound)
    end.

  (* src: Polytope.hpp:extractBestUsefulPoints — while (it < bound) { ...; ++it; } *)
  Fixpoint bu_loop2 (fuel : nat) (pts : list Pt) (bv : list bventry) (it bound : nat) : res (list Pt) :=
    match fuel with
    | O => Fuel
    | S f =>
      if it <? bound then
        do p <- rd pts it;                                    (* *it *)
        do r <- findBest p;
        let '(vId, value) := r in
        do e <- rd bv vId;                                    (* bestValues[vId] *)
        if second_lt e value then
          do bv1 <- wr bv vId (fst e, Some value);            (* bestValues[vId].second = value *)
          match fst e with
          | None => UB                                        (* iter_swap(pend, it): dereferences pend *)
          | Some k => do pts1 <- swp pts k it; bu_loop2 f pts1 bv1 (S it) bound
          end
        else bu_loop2 f pts bv (S it) bound
      else Ok pts
    end.

  (* src: Polytope.hpp:extractBestUsefulPoints — returns the point array afterwards and the returned
     iterator as an index *)
  Definition extractBestUsefulPoints_idx (points : list Pt) : res (list Pt * nat) :=
    let n := length points in                                 (* pointsN *)
    let maxB := if n <? entriesN then n else entriesN in      (* maxBound *)
    do r <- bu_loop1 (S n) points (repeat (None, None) entriesN) 0 n maxB;
    let '(pts, bv, it, bound) := r in
    if Nat.eqb it bound then Ok (pts, it)                     (* if (it == bound) return it *)
    else do pts2 <- bu_loop2 (S n) pts bv it bound; Ok (pts2, maxB).   (* return maxBound *)
End BU.

Arguments findBest {Pt V}. Arguments second_lt {V}. Arguments bu_loop1 {Pt V}. Arguments bu_loop2 {Pt V}.
Arguments extractBestUsefulPoints_idx {Pt V}.

(* repaired (fixes/C10-extractBestUsefulPoints-empty.patch): `if (entriesN == 0) return pbegin;` before
   anything is examined — without hyperplanes every point is non-useful *)
Definition extractBestUsefulPoints_fix {Pt V : Type} (fb : Pt -> nat * V) (vlt : V -> V -> bool) (vlow : V -> bool)
           (entriesN : nat) (points : list Pt) : res (list Pt * nat) :=
  if Nat.eqb entriesN 0 then Ok (points, 0)
  else extractBestUsefulPoints_idx fb vlt vlow entriesN points.
