(* C11/ProofsTraces.v — eligibility-trace learners: trace range, unique keys, lambda = 0. *)
From Coq Require Import List Arith QArith Qminmax Lqa Lia Bool Permutation.
From AIT Require Import Base.Qx Base.Mdp C11.Model C11.Spec C11.Proofs.
Import ListNotations.
Local Open Scope Q_scope.

(* ---------------------------------------------------------------- swap_pop *)
Lemma swap_pop_perm : forall rest, Permutation (swap_pop rest) rest.
Proof.
  intros [|t rest]; [constructor|]. unfold swap_pop.
  set (l := t :: rest). assert (Hne : l <> []) by discriminate.
  rewrite (app_removelast_last (O, O, 0) Hne) at 3.
  apply Permutation_cons_append.
Qed.

Lemma swap_pop_length : forall rest, length (swap_pop rest) = length rest.
Proof. intros rest. apply Permutation_length. apply swap_pop_perm. Qed.

(* ---------------------------------------------------------------- trace range *)
Lemma trace_loop_range : forall fuel s a err td tol done todo q nw,
  0 <= td -> td <= 1 -> tol <= 1 -> traces_in tol done -> traces_in tol todo ->
  traces_in tol (fst (fst (trace_loop fuel s a err td tol done todo q nw))).
Proof.
  induction fuel as [|fuel IH]; intros s a err td tol done todo q nw Htd0 Htd1 Htol Hd Ht; cbn [trace_loop].
  - cbn [fst]. apply Forall_app; split; assumption.
  - destruct todo as [|[[ss aa] el] rest]; [cbn [fst]; exact Hd|].
    inversion Ht as [|? ? [He1 He2] Hrest]; subst. unfold tval in He1, He2; cbn [snd] in He1, He2.
    destruct (Nat.eqb ss s && Nat.eqb aa a).
    + apply IH; try assumption. apply Forall_app; split; [exact Hd|].
      constructor; [unfold tval; cbn [snd]; split; lra| constructor].
    + destruct (Qlt_le_dec (Qred (el * td)) tol) as [Hlt|Hge].
      * apply IH; try assumption. unfold traces_in.
        eapply Permutation_Forall; [apply Permutation_sym; apply swap_pop_perm| exact Hrest].
      * apply IH; try assumption. apply Forall_app; split; [exact Hd|].
        constructor; [| constructor]. unfold tval; cbn [snd]. rewrite Qred_correct in *. split; [exact Hge| nra].
Qed.

Lemma update_traces_range : forall s a err td tol q tr,
  0 <= td -> td <= 1 -> tol <= 1 -> traces_in tol tr ->
  traces_in tol (snd (update_traces s a err td tol (q, tr))).
Proof.
  intros s a err td tol q tr Htd0 Htd1 Htol Htr. unfold update_traces.
  pose proof (trace_loop_range (length tr) s a err td tol [] tr q true Htd0 Htd1 Htol (Forall_nil _) Htr) as H.
  destruct (trace_loop (length tr) s a err td tol [] tr q true) as [[tr' q'] nw]. cbn [fst] in H.
  destruct nw; cbn [snd]; [| exact H].
  apply Forall_app; split; [exact H|]. constructor; [unfold tval; cbn [snd]; split; lra| constructor].
Qed.

(* trace discounts of the lambda family lie in [0,1] *)
Lemma eps_over_A : forall eps nA, 0 <= eps -> (1 <= nA)%nat ->
  0 <= eps / inject_Z (Z.of_nat nA) /\ eps / inject_Z (Z.of_nat nA) <= eps.
Proof.
  intros eps nA He HA. set (A' := inject_Z (Z.of_nat nA)).
  assert (H1 : 1 <= A') by (unfold A', Qle; cbn; lia).
  split.
  - apply Qle_shift_div_l; [lra| lra].
  - apply Qle_shift_div_r; [lra| nra].
Qed.

Lemma qmin1_range : forall x, 0 <= x -> 0 <= Qmin 1 x /\ Qmin 1 x <= 1.
Proof. intros x Hx. destruct (Q.min_spec 1 x) as [[? ->]|[? ->]]; split; lra. Qed.

Lemma div_nonneg : forall x y, 0 <= x -> 0 < y -> 0 <= x / y.
Proof. intros x y Hx Hy. apply Qle_shift_div_l; [exact Hy| lra]. Qed.

Lemma ctrl_td_range : forall k lam eps nA a maxA mu,
  k <> KImportance -> 0 <= lam -> lam <= 1 -> 0 <= eps -> eps <= 1 -> (1 <= nA)%nat -> 0 < mu ->
  0 <= ctrl_trace_discount k lam eps nA a maxA mu /\ ctrl_trace_discount k lam eps nA a maxA mu <= 1.
Proof.
  intros k lam eps nA a maxA mu Hk Hl0 Hl1 He0 He1 HA Hmu. unfold ctrl_trace_discount.
  destruct (eps_over_A eps nA He0 HA) as [E0 E1].
  set (prob := eps / inject_Z (Z.of_nat nA) + (if Nat.eqb a maxA then 1 else 0) * (1 - eps)).
  assert (Hp : 0 <= prob /\ prob <= 1) by (unfold prob; destruct (Nat.eqb a maxA); split; lra).
  destruct k; try congruence.
  - split; lra.
  - destruct (qmin1_range (prob / mu) (div_nonneg _ _ (proj1 Hp) Hmu)). split; nra.
  - split; nra.
Qed.

Lemma eval_td_range : forall k lam pi mu,
  k <> KImportance -> 0 <= lam -> lam <= 1 -> 0 <= pi -> pi <= 1 -> 0 < mu ->
  0 <= eval_trace_discount k lam pi mu /\ eval_trace_discount k lam pi mu <= 1.
Proof.
  intros k lam pi mu Hk Hl0 Hl1 Hp0 Hp1 Hmu. unfold eval_trace_discount.
  destruct k; try congruence.
  - split; lra.
  - destruct (qmin1_range (pi / mu) (div_nonneg _ _ Hp0 Hmu)). split; nra.
  - split; nra.
Qed.

Lemma tstep_range : forall p st t, tparams_ok p -> tstep_lam t ->
  traces_in (tp_tol p) (snd st) -> traces_in (tp_tol p) (snd (tstep_apply p st t)).
Proof.
  intros p [q tr] t (Hl0 & Hl1 & Hg0 & Hg1 & Htol & He0 & He1 & HA) Hlam Htr. cbn [snd] in Htr.
  destruct t as [[[[[s a] s1] a1] r] | k [[[[s a] s1] r] mu] | k [[[[[[s a] s1] r] prow] pi] mu]];
    cbn [tstep_apply sarsal_step offctrl_step offeval_step fst].
  - apply update_traces_range; try assumption; nra.
  - destruct Hlam as [Hk Hmu]. destruct (greedy_scan (row q s1)) as [[sm maxA1] maxV].
    destruct (ctrl_td_range k (tp_lam p) (tp_eps p) (tp_nA p) a (fst (argmax (row q s))) mu) as [T0 T1]; try assumption.
    apply update_traces_range; try assumption; nra.
  - destruct Hlam as (Hk & Hmu & Hp0 & Hp1).
    destruct (eval_td_range k (tp_lam p) pi mu) as [T0 T1]; try assumption.
    apply update_traces_range; try assumption; nra.
Qed.

Lemma trace_range_lemma : forall p hist q0, tparams_ok p -> Forall tstep_lam hist ->
  traces_in (tp_tol p) (snd (fold_left (tstep_apply p) hist (q0, []))).
Proof.
  intros p hist q0 Hp Hall.
  refine (fold_left_inv _ _ (tstep_apply p) (fun st => traces_in (tp_tol p) (snd st)) _ hist _ _ Hall _).
  - intros st t Ht Hst. apply tstep_range; assumption.
  - constructor.
Qed.

Lemma traces_inb_sound : forall tol tr, traces_inb tol tr = true -> traces_in tol tr.
Proof.
  intros tol tr H. unfold traces_inb in H. rewrite forallb_forall in H. apply Forall_forall.
  intros t Ht. specialize (H t Ht). apply andb_true_iff in H. destruct H as [H1 H2].
  apply Qle_bool_iff in H1. apply Qle_bool_iff in H2. split; assumption.
Qed.

(* ---------------------------------------------------------------- unique keys *)
Lemma keys_app : forall a b, map tkey (a ++ b) = map tkey a ++ map tkey b.
Proof. intros; apply map_app. Qed.

Lemma eqb_key : forall ss aa s a, Nat.eqb ss s && Nat.eqb aa a = true <-> (ss, aa) = (s, a).
Proof.
  intros. rewrite andb_true_iff, !Nat.eqb_eq. split; [intros [-> ->]; reflexivity| intros E; inversion E; auto].
Qed.

Definition loop_inv (s a : nat) (done todo : list trace) (nw : bool) : Prop :=
  NoDup (map tkey (done ++ todo)) /\ (nw = true -> ~ In (s, a) (map tkey done)) /\
  (nw = false -> In (s, a) (map tkey done)).

Lemma trace_loop_uniq : forall fuel s a err td tol done todo q nw,
  (length todo <= fuel)%nat -> loop_inv s a done todo nw ->
  let '(tr', _, nw') := trace_loop fuel s a err td tol done todo q nw in
  loop_inv s a tr' [] nw'.
Proof.
  induction fuel as [|fuel IH]; intros s a err td tol done todo q nw Hlen Hinv; cbn [trace_loop].
  - destruct todo; [| cbn in Hlen; lia]. rewrite app_nil_r. exact Hinv.
  - destruct todo as [|[[ss aa] el] rest].
    + exact Hinv.
    + cbn [length] in Hlen. destruct Hinv as (Hnd & Hn1 & Hn2).
      rewrite keys_app in Hnd. cbn [map] in Hnd. unfold tkey at 2 in Hnd. cbn [fst snd] in Hnd.
      destruct (Nat.eqb ss s && Nat.eqb aa a) eqn:E.
      * apply eqb_key in E. inversion E; subst ss aa.
        apply IH; [lia|]. split; [| split].
        -- rewrite <- app_assoc. cbn [app]. rewrite keys_app. cbn [map]. exact Hnd.
        -- discriminate.
        -- intros _. rewrite keys_app. apply in_or_app. right. left. reflexivity.
      * assert (Hne : (ss, aa) <> (s, a)) by (intros C; apply eqb_key in C; congruence).
        destruct (Qlt_le_dec (Qred (el * td)) tol).
        -- apply IH; [rewrite swap_pop_length; lia|]. split; [| split; assumption].
           apply NoDup_remove_1 in Hnd. rewrite keys_app.
           eapply Permutation_NoDup; [| exact Hnd].
           apply Permutation_app_head. apply Permutation_map. apply Permutation_sym. apply swap_pop_perm.
        -- apply IH; [lia|]. split; [| split].
           ++ rewrite <- app_assoc. cbn [app]. rewrite keys_app. cbn [map]. exact Hnd.
           ++ intros Hnw. rewrite keys_app. intros Hin. apply in_app_or in Hin.
              destruct Hin as [Hin|[Hin|[]]]; [exact (Hn1 Hnw Hin)| apply Hne; exact Hin].
           ++ intros Hnw. rewrite keys_app. apply in_or_app. left. exact (Hn2 Hnw).
Qed.

Lemma update_traces_uniq : forall s a err td tol q tr, uniq_keys tr ->
  uniq_keys (snd (update_traces s a err td tol (q, tr))).
Proof.
  intros s a err td tol q tr Hu. unfold update_traces.
  pose proof (trace_loop_uniq (length tr) s a err td tol [] tr q true (le_n _)) as H.
  destruct (trace_loop (length tr) s a err td tol [] tr q true) as [[tr' q'] nw].
  destruct H as (Hnd & Hn1 & Hn2); [split; [exact Hu| split; [intros _ []| discriminate]]|].
  rewrite app_nil_r in Hnd. destruct nw; cbn [snd]; [| exact Hnd].
  unfold uniq_keys. rewrite keys_app. cbn [map]. unfold tkey at 2. cbn [fst snd].
  eapply Permutation_NoDup; [apply Permutation_cons_append|]. constructor; [exact (Hn1 eq_refl)| exact Hnd].
Qed.

Lemma tstep_uniq : forall p st t, uniq_keys (snd st) -> uniq_keys (snd (tstep_apply p st t)).
Proof.
  intros p [q tr] t Hu. cbn [snd] in Hu.
  destruct t as [[[[[s a] s1] a1] r] | k [[[[s a] s1] r] mu] | k [[[[[[s a] s1] r] prow] pi] mu]];
    cbn [tstep_apply sarsal_step offctrl_step offeval_step fst].
  - apply update_traces_uniq; exact Hu.
  - destruct (greedy_scan (row q s1)) as [[sm maxA] maxV]. apply update_traces_uniq; exact Hu.
  - apply update_traces_uniq; exact Hu.
Qed.

Lemma traces_unique_keys_lemma : forall p hist q0,
  uniq_keys (snd (fold_left (tstep_apply p) hist (q0, []))).
Proof.
  intros p hist q0.
  refine (fold_left_inv _ _ (tstep_apply p) (fun st => uniq_keys (snd st)) (fun _ => True) hist _ _ _ _).
  - intros st t _ Hst. apply tstep_uniq; exact Hst.
  - apply Forall_forall; auto.
  - constructor.
Qed.

Lemma uniq_keysb_sound : forall tr, uniq_keysb tr = true -> uniq_keys tr.
Proof.
  induction tr as [|t tr IH]; intros H; [constructor|]. cbn [uniq_keysb] in H.
  apply andb_true_iff in H. destruct H as [H1 H2]. unfold uniq_keys. cbn [map]. constructor; [| apply IH; exact H2].
  intros Hin. apply in_map_iff in Hin. destruct Hin as [u [Eu Hu]].
  apply negb_true_iff in H1. assert (X : existsb (fun u => pair_eqb (tkey u) (tkey t)) tr = true).
  { apply existsb_exists. exists u. split; [exact Hu|]. rewrite Eu. unfold pair_eqb. rewrite !Nat.eqb_refl. reflexivity. }
  congruence.
Qed.

(* ---------------------------------------------------------------- lambda = 0 *)
Lemma loop_inv_match : forall s a el done rest nw, loop_inv s a done ((s, a, el) :: rest) nw ->
  nw = true /\ loop_inv s a (done ++ [(s, a, 1)]) rest false.
Proof.
  intros s a el done rest nw (Hnd & Hn1 & Hn2). split.
  - destruct nw; [reflexivity|]. exfalso. specialize (Hn2 eq_refl).
    rewrite keys_app in Hnd. cbn [map] in Hnd. unfold tkey at 2 in Hnd. cbn [fst snd] in Hnd.
    apply NoDup_remove_2 in Hnd. apply Hnd. apply in_or_app. left. exact Hn2.
  - split; [| split].
    + rewrite <- app_assoc. cbn [app]. rewrite keys_app in *. cbn [map] in *. exact Hnd.
    + discriminate.
    + intros _. rewrite keys_app. apply in_or_app. right. left. reflexivity.
Qed.

Lemma loop_inv_remove : forall s a t done rest nw, loop_inv s a done (t :: rest) nw ->
  loop_inv s a done (swap_pop rest) nw.
Proof.
  intros s a t done rest nw (Hnd & Hn1 & Hn2). split; [| split; assumption].
  rewrite keys_app in *. cbn [map] in Hnd. apply NoDup_remove_1 in Hnd.
  eapply Permutation_NoDup; [| exact Hnd].
  apply Permutation_app_head. apply Permutation_map. apply Permutation_sym. apply swap_pop_perm.
Qed.

Lemma loop_inv_keep : forall s a ss aa el el' done rest nw, (ss, aa) <> (s, a) ->
  loop_inv s a done ((ss, aa, el) :: rest) nw -> loop_inv s a (done ++ [(ss, aa, el')]) rest nw.
Proof.
  intros s a ss aa el el' done rest nw Hne (Hnd & Hn1 & Hn2). split; [| split].
  - rewrite <- app_assoc. cbn [app]. rewrite keys_app in *. cbn [map] in *. exact Hnd.
  - intros Hnw. rewrite keys_app. intros Hin. apply in_app_or in Hin.
    destruct Hin as [Hin|[Hin|[]]]; [exact (Hn1 Hnw Hin)| apply Hne; exact Hin].
  - intros Hnw. rewrite keys_app. apply in_or_app. left. exact (Hn2 Hnw).
Qed.

Lemma upd2_same_value : forall q s a x, x == qget q s a -> qeqv (upd2 q s a x) q.
Proof.
  intros q s a x E s' a'.
  destruct (lt_dec s (length q)) as [Hs|Hs]; [destruct (lt_dec a (length (row q s))) as [Ha|Ha]|].
  - rewrite (qget_upd2_in q s a x s' a' Hs Ha).
    destruct (Nat.eqb_spec s' s) as [->|]; cbn [andb]; [| reflexivity].
    destruct (Nat.eqb_spec a' a) as [->|]; [exact E| reflexivity].
  - rewrite upd2_oob by tauto. reflexivity.
  - rewrite upd2_oob by tauto. reflexivity.
Qed.

Definition q_rel (nw : bool) (q0 q : qtab) (s a : nat) (x : Q) : Prop :=
  if nw then qeqv q q0 else is_update q0 q s a x.

Lemma q_rel_eqv : forall nw q0 q q' s a x, qeqv q' q -> q_rel nw q0 q s a x -> q_rel nw q0 q' s a x.
Proof.
  intros [|] q0 q q' s a x E H; unfold q_rel in *.
  - intros s' a'. rewrite (E s' a'). apply H.
  - intros s' a'. rewrite (E s' a'). apply H.
Qed.

Lemma trace_loop_lambda0 : forall fuel nS nA s a err td tol done todo q0 q nw,
  td == 0 -> (s < nS)%nat -> (a < nA)%nat -> shape nS nA q ->
  (length todo <= fuel)%nat -> loop_inv s a done todo nw ->
  q_rel nw q0 q s a (qget q0 s a + err) ->
  let '(tr', q', nw') := trace_loop fuel s a err td tol done todo q nw in
  shape nS nA q' /\ q_rel nw' q0 q' s a (qget q0 s a + err).
Proof.
  induction fuel as [|fuel IH]; intros nS nA s a err td tol done todo q0 q nw Htd Hs Ha Hsh Hlen Hinv Hrel;
    cbn [trace_loop].
  - split; assumption.
  - destruct todo as [|[[ss aa] el] rest]; [split; assumption|]. cbn [length] in Hlen.
    destruct (Nat.eqb ss s && Nat.eqb aa a) eqn:E.
    + apply eqb_key in E. inversion E; subst ss aa.
      destruct (loop_inv_match s a el done rest nw Hinv) as [-> Hinv'].
      apply (IH nS nA); try assumption; [apply shape_upd2; exact Hsh| lia|].
      unfold q_rel in *. intros s' a'.
      assert (Is : (s < length q)%nat) by (destruct Hsh as [-> _]; exact Hs).
      assert (Ia : (a < length (row q s))%nat) by (rewrite (shape_row nS nA q s Hsh Hs); exact Ha).
      rewrite (qget_upd2_in q s a _ s' a' Is Ia).
      destruct (Nat.eqb s' s && Nat.eqb a' a); [rewrite (Hrel s a); lra| apply Hrel].
    + assert (Hne : (ss, aa) <> (s, a)) by (intros C; apply eqb_key in C; congruence).
      destruct (Qlt_le_dec (Qred (el * td)) tol).
      * apply (IH nS nA); try assumption; [rewrite swap_pop_length; lia|].
        eapply loop_inv_remove; exact Hinv.
      * apply (IH nS nA); try assumption; [apply shape_upd2; exact Hsh| lia| |].
        -- eapply loop_inv_keep; [exact Hne| exact Hinv].
        -- eapply q_rel_eqv; [| exact Hrel]. apply upd2_same_value.
           rewrite Qred_correct, Htd. lra.
Qed.

(* with a zero trace discount the update is the plain one-step write of q(s,a) + err *)
Lemma update_traces_lambda0 : forall nS nA s a err td tol q tr,
  td == 0 -> (s < nS)%nat -> (a < nA)%nat -> shape nS nA q -> uniq_keys tr ->
  is_update q (fst (update_traces s a err td tol (q, tr))) s a (qget q s a + err).
Proof.
  intros nS nA s a err td tol q tr Htd Hs Ha Hsh Hu. unfold update_traces.
  pose proof (trace_loop_lambda0 (length tr) nS nA s a err td tol [] tr q q true Htd Hs Ha Hsh (le_n _)) as H.
  destruct (trace_loop (length tr) s a err td tol [] tr q true) as [[tr' q'] nw].
  destruct H as [Hsh' Hrel].
  - split; [exact Hu| split; [intros _ []| discriminate]].
  - intros s' a'. reflexivity.
  - destruct nw; cbn [fst]; [| exact Hrel]. unfold q_rel in Hrel. intros s' a'.
    assert (Is : (s < length q')%nat) by (destruct Hsh' as [-> _]; exact Hs).
    assert (Ia : (a < length (row q' s))%nat) by (rewrite (shape_row nS nA q' s Hsh' Hs); exact Ha).
    rewrite (qget_upd2_in q' s a _ s' a' Is Ia).
    destruct (Nat.eqb s' s && Nat.eqb a' a); [rewrite (Hrel s a); lra| apply Hrel].
Qed.

Lemma update_traces_shape : forall nS nA s a err td tol q tr, shape nS nA q ->
  shape nS nA (fst (update_traces s a err td tol (q, tr))).
Proof.
  intros nS nA s a err td tol q tr Hsh. unfold update_traces.
  assert (G : forall fuel done todo q nw, shape nS nA q ->
            shape nS nA (snd (fst (trace_loop fuel s a err td tol done todo q nw)))).
  { induction fuel as [|fuel IH]; intros done todo q1 nw H1; cbn [trace_loop]; [exact H1|].
    destruct todo as [|[[ss aa] el] rest]; [exact H1|].
    destruct (Nat.eqb ss s && Nat.eqb aa a); [apply IH; apply shape_upd2; exact H1|].
    destruct (Qlt_le_dec (Qred (el * td)) tol); [apply IH; exact H1| apply IH; apply shape_upd2; exact H1]. }
  specialize (G (length tr) [] tr q true Hsh).
  destruct (trace_loop (length tr) s a err td tol [] tr q true) as [[tr' q'] nw]. cbn [fst snd] in G.
  destruct nw; cbn [fst]; [apply shape_upd2; exact G| exact G].
Qed.

(* ---------------------------------------------------------------- the expected backups *)
Lemma dot_ind : forall v (f : nat -> Q) c d j k,
  (forall a, f a == c + (if Nat.eqb a j then d else 0)) ->
  dot (map f (seq k (length v))) v ==
  c * qsum v + (if Nat.leb k j && Nat.ltb j (k + length v) then d * nth (j - k) v 0 else 0).
Proof.
  induction v as [|x v IH]; intros f c d j k Hf.
  - cbn [length seq map dot qsum]. destruct (Nat.leb k j && Nat.ltb j (k + 0)); [| lra].
    destruct (j - k)%nat; cbn [nth]; lra.
  - cbn [length seq map dot qsum]. rewrite (IH f c d j (S k) Hf). rewrite (Hf k).
    destruct (Nat.eqb_spec k j) as [->|Hne].
    + replace (Nat.leb (S j) j) with false by (symmetry; apply Nat.leb_gt; lia). cbn [andb].
      rewrite Nat.leb_refl. replace (Nat.ltb j (j + S (length v))) with true by (symmetry; apply Nat.ltb_lt; lia).
      cbn [andb]. rewrite Nat.sub_diag. cbn [nth]. lra.
    + destruct (Nat.leb_spec (S k) j) as [Hle|Hgt].
      * replace (Nat.leb k j) with true by (symmetry; apply Nat.leb_le; lia). cbn [andb].
        replace (Nat.ltb j (k + S (length v))) with (Nat.ltb j (S k + length v)) by (f_equal; lia).
        destruct (Nat.ltb j (S k + length v)); [| lra].
        replace (j - k)%nat with (S (j - S k)) by lia. cbn [nth]. lra.
      * replace (Nat.leb k j) with false by (symmetry; apply Nat.leb_gt; lia). cbn [andb]. lra.
Qed.

Lemma dot_point_row : forall v a1, (a1 < length v)%nat -> dot (point_row (length v) a1) v == nthq v a1.
Proof.
  intros v a1 H. unfold point_row, nthq.
  rewrite (dot_ind v _ 0 1 a1 0); [| intros a; destruct (Nat.eqb a a1); lra].
  cbn [Nat.leb andb]. replace (Nat.ltb a1 (0 + length v)) with true by (symmetry; apply Nat.ltb_lt; lia).
  rewrite Nat.sub_0_r. lra.
Qed.

Lemma fold_plus_qsum : forall v acc, fold_left Qplus v acc == acc + qsum v.
Proof. induction v as [|x v IH]; intros acc; cbn [fold_left qsum]; [lra| rewrite IH; lra]. Qed.

Lemma dot_egreedy : forall eps rw, rw <> [] ->
  dot (egreedy_row eps rw) rw ==
  fold_left Qplus rw 0 * (eps / inject_Z (Z.of_nat (length rw))) + (1 - eps) * snd (argmax rw).
Proof.
  intros eps rw Hne. unfold egreedy_row.
  rewrite (dot_ind rw _ (eps / inject_Z (Z.of_nat (length rw))) (1 - eps) (fst (argmax rw)) 0);
    [| intros a; reflexivity].
  pose proof (argmax_spec rw Hne) as H. destruct (argmax rw) as [j m]. destruct H as (Hj & _ & Em). cbn [fst snd].
  cbn [Nat.leb andb]. replace (Nat.ltb j (0 + length rw)) with true by (symmetry; apply Nat.ltb_lt; lia).
  rewrite Nat.sub_0_r, fold_plus_qsum, Em. lra.
Qed.

Lemma dotr_dot : forall v p, dotr v p == dot p v.
Proof. intros v p. unfold dotr. rewrite dotl_acc, dot_comm. lra. Qed.

Lemma is_update_eq : forall q q' s a x y, x == y -> is_update q q' s a x -> is_update q q' s a y.
Proof.
  intros q q' s a x y E H s' a'. rewrite (H s' a'). destruct (Nat.eqb s' s && Nat.eqb a' a); [exact E| reflexivity].
Qed.

(* one step of any lambda-family learner with lambda = 0 is the one-step expected backup *)
Lemma tstep_lambda0 : forall p st t,
  tp_lam p == 0 -> (1 <= tp_nA p)%nat -> tstep_lam t -> tstep_inrange p t ->
  shape (tp_nS p) (tp_nA p) (fst st) -> uniq_keys (snd st) ->
  let '(s1, r, prow) := tstep_target p (fst st) t in
  is_update (fst st) (fst (tstep_apply p st t)) (fst (tstep_key t)) (snd (tstep_key t))
            (one_step (tp_alpha p) (tp_g p) (fst st) (fst (tstep_key t)) (snd (tstep_key t)) s1 r prow).
Proof.
  intros p [q tr] t Hl HA Hlam Hin Hsh Hu. cbn [fst snd] in Hsh, Hu.
  destruct t as [[[[[s a] s1] a1] r] | k [[[[s a] s1] r] mu] | k [[[[[[s a] s1] r] prow] pi] mu]];
    cbn [tstep_target tstep_key tstep_apply sarsal_step offctrl_step offeval_step fst snd];
    destruct Hin as (Hs & Ha & Hrest); cbn [tstep_key fst snd] in Hs, Ha.
  - destruct Hrest as [Hs1 Ha1].
    eapply is_update_eq; [| apply (update_traces_lambda0 (tp_nS p) (tp_nA p)); try assumption; rewrite Hl; lra].
    unfold one_step. rewrite <- (shape_row _ _ q s1 Hsh Hs1) at 1.
    rewrite dot_point_row by (rewrite (shape_row _ _ q s1 Hsh Hs1); exact Ha1). unfold qget. lra.
  - destruct Hlam as [Hk Hmu].
    assert (Hlen : length (row q s1) = tp_nA p) by (apply (shape_row _ _ q s1 Hsh Hrest)).
    assert (Hne : row q s1 <> []) by (intros C; rewrite C in Hlen; cbn in Hlen; lia).
    pose proof (dot_egreedy (tp_eps p) (row q s1) Hne) as E. rewrite Hlen in E.
    unfold greedy_scan.
    eapply is_update_eq; [| apply (update_traces_lambda0 (tp_nS p) (tp_nA p)); try assumption].
    + unfold one_step. rewrite E. lra.
    + unfold ctrl_trace_discount. destruct k; try congruence; rewrite Hl; lra.
  - destruct Hlam as (Hk & Hmu & _).
    eapply is_update_eq; [| apply (update_traces_lambda0 (tp_nS p) (tp_nA p)); try assumption].
    + unfold one_step. rewrite dotr_dot. lra.
    + unfold eval_trace_discount. destruct k; try congruence; rewrite Hl; lra.
Qed.

Lemma tstep_shape : forall p st t, shape (tp_nS p) (tp_nA p) (fst st) ->
  shape (tp_nS p) (tp_nA p) (fst (tstep_apply p st t)).
Proof.
  intros p [q tr] t Hsh. cbn [fst] in Hsh.
  destruct t as [[[[[s a] s1] a1] r] | k [[[[s a] s1] r] mu] | k [[[[[[s a] s1] r] prow] pi] mu]];
    cbn [tstep_apply sarsal_step offctrl_step offeval_step fst].
  - apply update_traces_shape; exact Hsh.
  - destruct (greedy_scan (row q s1)) as [[sm maxA] maxV]. apply update_traces_shape; exact Hsh.
  - apply update_traces_shape; exact Hsh.
Qed.

Lemma lambda0_is_one_step_lemma : forall p hist t,
  tp_lam p == 0 -> (1 <= tp_nA p)%nat -> tstep_lam t -> tstep_inrange p t ->
  let st := fold_left (tstep_apply p) hist (qzero (tp_nS p) (tp_nA p), []) in
  let '(s1, r, prow) := tstep_target p (fst st) t in
  is_update (fst st) (fst (tstep_apply p st t)) (fst (tstep_key t)) (snd (tstep_key t))
            (one_step (tp_alpha p) (tp_g p) (fst st) (fst (tstep_key t)) (snd (tstep_key t)) s1 r prow).
Proof.
  intros p hist t Hl HA Hlam Hin. cbv zeta.
  apply tstep_lambda0; try assumption.
  - refine (fold_left_inv _ _ (tstep_apply p) (fun st => shape (tp_nS p) (tp_nA p) (fst st)) (fun _ => True) hist _ _ _ _).
    + intros st u _ H. apply tstep_shape; exact H.
    + apply Forall_forall; auto.
    + apply shape_qzero.
  - apply traces_unique_keys_lemma.
Qed.

(* ---------------------------------------------------------------- the documented trace cut *)
Lemma nth_map_seq : forall (f : nat -> Q) n a, (a < n)%nat -> nth a (map f (seq 0 n)) 0 = f a.
Proof.
  intros f n a H. rewrite (nth_indep _ 0 (f O)) by (rewrite map_length, seq_length; exact H).
  rewrite map_nth. rewrite seq_nth by exact H. reflexivity.
Qed.

Lemma qmin_eq : forall a x y, x == y -> Qmin a x == Qmin a y.
Proof.
  intros a x y E. destruct (Q.min_spec a x) as [[H1 ->]|[H1 ->]]; destruct (Q.min_spec a y) as [[H2 ->]|[H2 ->]]; lra.
Qed.

(* the repaired step cuts the traces with exactly the documented factor *)
Lemma ctrl_discount_documented : forall k lam eps nA q s a mu,
  length (row q s) = nA -> (a < nA)%nat ->
  ctrl_trace_discount k lam eps nA a (fst (argmax (row q s))) mu == doc_ctrl_discount k lam eps q s a mu.
Proof.
  intros k lam eps nA q s a mu Hlen Ha. unfold ctrl_trace_discount, doc_ctrl_discount, target_prob, egreedy_row, nthq.
  rewrite nth_map_seq by (rewrite Hlen; exact Ha). rewrite Hlen.
  set (c := eps / inject_Z (Z.of_nat nA)).
  assert (E : c + (if Nat.eqb a (fst (argmax (row q s))) then 1 else 0) * (1 - eps) ==
              c + (if Nat.eqb a (fst (argmax (row q s))) then 1 - eps else 0))
    by (destruct (Nat.eqb a (fst (argmax (row q s)))); lra).
  destruct k.
  - reflexivity.
  - apply Qmult_comp; [reflexivity|]. apply qmin_eq. rewrite E. reflexivity.
  - rewrite E. reflexivity.
  - rewrite E. reflexivity.
Qed.

Lemma offctrl_step_documented : forall k alpha g lam tol eps nA st s a s1 r mu,
  exists err td, offctrl_step k alpha g lam tol eps nA st (s, a, s1, r, mu) = update_traces s a err td tol st /\
    (length (row (fst st) s) = nA -> (a < nA)%nat -> td == g * doc_ctrl_discount k lam eps (fst st) s a mu).
Proof.
  intros k alpha g lam tol eps nA st s a s1 r mu. cbn [offctrl_step].
  destruct (greedy_scan (row (fst st) s1)) as [[sm mA] mV].
  eexists. eexists. split; [reflexivity|]. intros Hl Ha.
  rewrite (ctrl_discount_documented k lam eps nA (fst st) s a mu Hl Ha). reflexivity.
Qed.
