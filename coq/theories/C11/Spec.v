(* C11/Spec.v — the property's mathematics, written independently of the learners' code,
   and the boolean checkers the driver evaluates on the implementation's dumped tables. *)
From Coq Require Import List Arith QArith Qminmax Bool.
From AIT Require Import Base.Qx Base.Mdp C11.Model.
Import ListNotations.
Local Open Scope Q_scope.

(* ---------- boxes ---------- *)
Definition in_box (lo hi : Q) (q : qtab) : Prop := Forall (Forall (fun x => lo <= x /\ x <= hi)) q.
(* entrywise form (out-of-range entries read as 0, which lies in every box we use) *)
Definition boxed (lo hi : Q) (q : qtab) : Prop := forall s a, lo <= qget q s a /\ qget q s a <= hi.
Definition in_boxb (lo hi : Q) (q : qtab) : bool :=
  forallb (forallb (fun x => Qle_bool lo x && Qle_bool x hi)) q.
(* the two DoubleQLearning tables: qa and qb = qc - qa *)
Definition boxed2 (lo hi : Q) (qa qc : qtab) : Prop :=
  forall s a, (lo <= qget qa s a /\ qget qa s a <= hi) /\
              (lo <= qget qc s a - qget qa s a /\ qget qc s a - qget qa s a <= hi).
Definition in_box2b (lo hi : Q) (qa qc : qtab) : bool :=
  in_boxb lo hi qa &&
  forallb (fun rr => forallb (fun p => Qle_bool lo (fst p - snd p) && Qle_bool (fst p - snd p) hi)
                             (combine (fst rr) (snd rr))) (combine qc qa).

Definition shape (nS nA : nat) (q : qtab) : Prop := length q = nS /\ Forall (fun r => length r = nA) q.
Definition qeqv (q q' : qtab) : Prop := forall s a, qget q s a == qget q' s a.

(* ---------- experiences ---------- *)
Definition exp_ok (nS nA : nat) (rmin rmax : Q) (e : nat * nat * nat * Q) : Prop :=
  let '(s, a, s1, r) := e in (s < nS)%nat /\ (a < nA)%nat /\ (s1 < nS)%nat /\ rmin <= r /\ r <= rmax.
Definition exp5_ok (nS nA : nat) (rmin rmax : Q) (e : nat * nat * nat * nat * Q) : Prop :=
  let '(s, a, s1, a1, r) := e in
  (s < nS)%nat /\ (a < nA)%nat /\ (s1 < nS)%nat /\ (a1 < nA)%nat /\ rmin <= r /\ r <= rmax.
Definition expE_ok (nS nA : nat) (rmin rmax : Q) (e : nat * nat * nat * Q * vec) : Prop :=
  let '(s, a, s1, r, prow) := e in
  (s < nS)%nat /\ (a < nA)%nat /\ (s1 < nS)%nat /\ rmin <= r /\ r <= rmax /\ simplex nA prow.
Definition expD_ok (nS nA : nat) (rmin rmax : Q) (e : bool * nat * nat * nat * Q) : Prop :=
  let '(_, s, a, s1, r) := e in (s < nS)%nat /\ (a < nA)%nat /\ (s1 < nS)%nat /\ rmin <= r /\ r <= rmax.

(* ---------- the one-step expected backup of a target policy row ---------- *)
Definition one_step (alpha g : Q) (q : qtab) (s a s1 : nat) (r : Q) (prow : vec) : Q :=
  qget q s a + alpha * (r + g * dot prow (row q s1) - qget q s a).
(* q' is q with entry (s,a) replaced by x (entrywise, up to ==) *)
Definition is_update (q q' : qtab) (s a : nat) (x : Q) : Prop :=
  forall s' a', qget q' s' a' == (if Nat.eqb s' s && Nat.eqb a' a then x else qget q s' a').
(* epsilon-greedy row w.r.t. the first maximal entry of [rw] *)
Definition egreedy_row (eps : Q) (rw : vec) : vec :=
  map (fun a => eps / inject_Z (Z.of_nat (length rw)) + (if Nat.eqb a (fst (argmax rw)) then 1 - eps else 0))
      (seq 0 (length rw)).
Definition point_row (n a1 : nat) : vec := map (fun a => if Nat.eqb a a1 then 1 else 0) (seq 0 n).

(* ---------- traces ---------- *)
Definition tkey (t : trace) : nat * nat := (fst (fst t), snd (fst t)).
Definition tval (t : trace) : Q := snd t.
Definition traces_in (tol : Q) (tr : list trace) : Prop := Forall (fun t => tol <= tval t /\ tval t <= 1) tr.
Definition traces_inb (tol : Q) (tr : list trace) : bool :=
  forallb (fun t => Qle_bool tol (tval t) && Qle_bool (tval t) 1) tr.
Definition uniq_keys (tr : list trace) : Prop := NoDup (map tkey tr).
Fixpoint uniq_keysb (tr : list trace) : bool :=
  match tr with
  | [] => true
  | t :: rest => negb (existsb (fun u => pair_eqb (tkey u) (tkey t)) rest) && uniq_keysb rest
  end.

(* ---------- prioritized sweeping ---------- *)
Definition bellman_q (m : mdp) (v : vec) (s a : nat) : Q := q_of m v s a.
Definition ps_inv (m : mdp) (st : ps_state) : Prop :=
  length (ps_v st) = nS m /\ shape (nS m) (nA m) (ps_q st) /\
  (forall s, (s < nS m)%nat -> nthq (ps_v st) s == maxl (row (ps_q st) s)) /\
  (forall k, queued (ps_queue st) k = true -> (fst k < nS m)%nat /\ (snd k < nA m)%nat) /\
  (forall s a, In (s, a) (ps_done st) ->
     queued (ps_queue st) (s, a) = true \/ qget (ps_q st) s a == bellman_q m (ps_v st) s a).
(* checkers on dumped implementation state: [done] = pairs the driver knows were backed up;
   [e] = tolerance absorbing the floating rounding of one backup (0 in the exact regime) *)
Definition qcloseb (e x y : Q) : bool := Qle_bool (x - y) e && Qle_bool (y - x) e.
Definition ps_invb (m : mdp) (e : Q) (q : qtab) (v : vec) (qkeys : list (nat * nat)) (done : list (nat * nat)) : bool :=
  forallb (fun s => Qeq_bool (nthq v s) (maxl (row q s))) (seq 0 (nS m)) &&
  forallb (fun k => existsb (pair_eqb k) qkeys ||
                    qcloseb e (qget q (fst k) (snd k)) (bellman_q m v (fst k) (snd k))) done.
Definition ps_bellmanb (m : mdp) (e : Q) (q : qtab) : bool :=
  let v := map maxl q in
  forallb (fun k => qcloseb e (qget q (fst k) (snd k)) (bellman_q m v (fst k) (snd k)))
          (list_prod (seq 0 (nS m)) (seq 0 (nA m))).
Inductive ps_op := PsStep (s a : nat) | PsBatch (n : nat) (choices : list (nat * nat)).
Definition ps_op_ok (m : mdp) (o : ps_op) : Prop :=
  match o with
  | PsStep s a => (s < nS m)%nat /\ (a < nA m)%nat
  | PsBatch _ _ => True
  end.
Definition ps_apply (m : mdp) (theta : Q) (r : ps_result) (o : ps_op) : ps_result :=
  match r with
  | PsBadChoice => PsBadChoice
  | PsOk st => match o with
               | PsStep s a => PsOk (ps_step m theta st s a)
               | PsBatch n ch => ps_batch m theta n st ch
               end
  end.
Definition ps_run (m : mdp) (theta : Q) (ops : list ps_op) : ps_result :=
  fold_left (ps_apply m theta) ops (PsOk (ps_init m)).

(* ---------- a history of eligibility-trace learner steps ---------- *)
Record tparams := { tp_alpha : Q; tp_g : Q; tp_lam : Q; tp_tol : Q; tp_eps : Q; tp_nS : nat; tp_nA : nat }.
Inductive tstep :=
| TSarsal (e : nat * nat * nat * nat * Q)
| TCtrl (k : okind) (e : nat * nat * nat * Q * Q)
| TEval (k : okind) (e : nat * nat * nat * Q * vec * Q * Q).
Definition tstep_apply (p : tparams) (st : qtab * list trace) (t : tstep) : qtab * list trace :=
  match t with
  | TSarsal e => sarsal_step (tp_alpha p) (tp_g p) (tp_lam p) (tp_tol p) st e
  | TCtrl k e => offctrl_step k (tp_alpha p) (tp_g p) (tp_lam p) (tp_tol p) (tp_eps p) (tp_nA p) st e
  | TEval k e => offeval_step k (tp_alpha p) (tp_g p) (tp_lam p) (tp_tol p) st e
  end.
Definition tparams_ok (p : tparams) : Prop :=
  0 <= tp_lam p /\ tp_lam p <= 1 /\ 0 <= tp_g p /\ tp_g p <= 1 /\ tp_tol p <= 1 /\
  0 <= tp_eps p /\ tp_eps p <= 1 /\ (1 <= tp_nA p)%nat.
(* lambda-family steps: ImportanceSampling excluded; probabilities are probabilities, mu > 0 *)
Definition tstep_lam (t : tstep) : Prop :=
  match t with
  | TSarsal _ => True
  | TCtrl k (_, _, _, _, mu) => k <> KImportance /\ 0 < mu
  | TEval k (_, _, _, _, _, pi, mu) => k <> KImportance /\ 0 < mu /\ 0 <= pi /\ pi <= 1
  end.
Definition tstep_key (t : tstep) : nat * nat :=
  match t with
  | TSarsal (s, a, _, _, _) => (s, a)
  | TCtrl _ (s, a, _, _, _) => (s, a)
  | TEval _ (s, a, _, _, _, _, _) => (s, a)
  end.
(* the target policy's row at s1 and the sample (s1, r) of a step, given the current table *)
Definition tstep_target (p : tparams) (q : qtab) (t : tstep) : nat * Q * vec :=
  match t with
  | TSarsal (_, _, s1, a1, r) => (s1, r, point_row (tp_nA p) a1)
  | TCtrl _ (_, _, s1, r, _) => (s1, r, egreedy_row (tp_eps p) (row q s1))
  | TEval _ (_, _, s1, r, prow, _, _) => (s1, r, prow)
  end.
Definition tstep_inrange (p : tparams) (t : tstep) : Prop :=
  (fst (tstep_key t) < tp_nS p)%nat /\ (snd (tstep_key t) < tp_nA p)%nat /\
  match t with
  | TSarsal (_, _, s1, a1, _) => (s1 < tp_nS p)%nat /\ (a1 < tp_nA p)%nat
  | TCtrl _ (_, _, s1, _, _) => (s1 < tp_nS p)%nat
  | TEval _ (_, _, s1, _, _, _, _) => (s1 < tp_nS p)%nat
  end.

(* ---------- DynaQ histories ---------- *)
Inductive dyna_op := DStep (e : nat * nat * nat * Q) | DBatch (draws : list (nat * nat * Q)).
Definition dyna_apply (alpha g : Q) (r : option (qtab * list (nat * nat))) (o : dyna_op)
  : option (qtab * list (nat * nat)) :=
  match r with
  | None => None
  | Some st => match o with DStep e => Some (dyna_step alpha g st e) | DBatch d => dyna_batch alpha g st d end
  end.
Definition dyna_op_ok (rmin rmax : Q) (o : dyna_op) : Prop :=
  match o with
  | DStep (_, _, _, r) => rmin <= r /\ r <= rmax
  | DBatch d => Forall (fun x : nat * nat * Q => rmin <= snd x /\ snd x <= rmax) d
  end.

(* ---------- fixed points ---------- *)
(* Q is the optimal Q-function of m: Q(s,a) = R(s,a) + gamma * sum_s' T(s,a,s') max_a' Q(s',a') *)
Definition is_qstar (m : mdp) (q : qtab) : Prop :=
  forall s a, (s < nS m)%nat -> (a < nA m)%nat -> qget q s a == q_of m (map maxl q) s a.
(* (s,a) moves deterministically to s1 *)
Definition det_at (m : mdp) (s a s1 : nat) : Prop := forall v, dot (trow m s a) v == nthq v s1.

(* ---------- the documented trace cut of the control learners ---------- *)
(* probability the (implied) epsilon-greedy target policy gives to action a in state s on table q *)
Definition target_prob (eps : Q) (q : qtab) (s a : nat) : Q := nthq (egreedy_row eps (row q s)) a.
(* RetraceL / TreeBackupL / ImportanceSampling headers + OffPolicyTemplate.hpp ("maxA is the already
   computed best greedy action for state s"; "the ratio between the assumed epsilon-greedy policy and
   the behaviour policy"): the factor applied to the traces when (s,a) is experienced *)
Definition doc_ctrl_discount (k : okind) (lam eps : Q) (q : qtab) (s a : nat) (mu : Q) : Q :=
  match k with
  | KQL => lam
  | KRetrace => lam * Qmin 1 (target_prob eps q s a / mu)
  | KTreeBackup => lam * target_prob eps q s a
  | KImportance => target_prob eps q s a / mu
  end.
