(* C11/Model.v — executable models of the reinforcement learners' backups (no proofs here).
   Tables are [mat] indexed state, action.  Every table write is [Qred]-normalised (value
   unchanged, keeps extraction fast).  Unchecked Eigen accesses q_(s,a) are modelled by
   [qget] (default 0) / [upd2] (no-op when out of range); the theorems assume indices in range. *)
From Coq Require Import List Arith QArith Qminmax Bool.
From AIT Require Import Base.Qx Base.Mdp.
Import ListNotations.
Local Open Scope Q_scope.

Definition qtab := mat.                                   (* s, a *)

Fixpoint upd {A : Type} (l : list A) (i : nat) (x : A) : list A :=
  match l, i with
  | [], _ => []
  | _ :: t, O => x :: t
  | y :: t, S i' => y :: upd t i' x
  end.

Definition qget (q : qtab) (s a : nat) : Q := nthq (row q s) a.
Definition upd2 (q : qtab) (s a : nat) (x : Q) : qtab := upd q s (upd (row q s) a (Qred x)).
(* src: src/MDP/Utils.cpp:makeQFunction *)
Definition qzero (nS nA : nat) : qtab := repeat (repeat 0 nA) nS.

(* ------------------------------------------------------------------ one-step learners *)

(* src: src/MDP/Algorithms/QLearning.cpp:QLearning::stepUpdateQ *)
Definition ql_step (alpha g : Q) (q : qtab) (e : nat * nat * nat * Q) : qtab :=
  let '(s, a, s1, r) := e in
  let old := qget q s a in
  upd2 q s a (old + alpha * (r + g * maxl (row q s1) - old)).

(* src: src/MDP/Algorithms/SARSA.cpp:SARSA::stepUpdateQ *)
Definition sarsa_step (alpha g : Q) (q : qtab) (e : nat * nat * nat * nat * Q) : qtab :=
  let '(s, a, s1, a1, r) := e in
  let old := qget q s a in
  upd2 q s a (old + alpha * (r + g * qget q s1 a1 - old)).

(* the accumulation loop  expectedQ += p(ai) * q(s1,ai)  for ai = 0..A-1, starting from 0.0 *)
Definition dotl (p v : vec) : Q :=
  fold_left (fun acc pq => acc + fst pq * snd pq) (combine p v) 0.

(* src: src/MDP/Algorithms/ExpectedSARSA.cpp:ExpectedSARSA::stepUpdateQ
   [prow] = the policy's probabilities getActionProbability(s1, 0..A-1) at the time of the call *)
Definition esarsa_step (alpha g : Q) (q : qtab) (e : nat * nat * nat * Q * vec) : qtab :=
  let '(s, a, s1, r, prow) := e in
  let old := qget q s a in
  upd2 q s a (old + alpha * (r + g * dotl prow (row q s1) - old)).

(* src: src/MDP/Algorithms/HystereticQLearning.cpp:HystereticQLearning::stepUpdateQ *)
Definition hyst_step (alpha beta g : Q) (q : qtab) (e : nat * nat * nat * Q) : qtab :=
  let '(s, a, s1, r) := e in
  let old := qget q s a in
  let delta := r + g * maxl (row q s1) - old in
  if Qle_bool 0 delta then upd2 q s a (old + alpha * delta)
  else upd2 q s a (old + beta * delta).

Definition vsub (a b : vec) : vec := map (fun p => fst p - snd p) (combine a b).

(* src: src/MDP/Algorithms/DoubleQLearning.cpp:DoubleQLearning::stepUpdateQ
   state = (qa_, qc_) with qc_ = qa + qb; [coin] = the value of dist_(rand_) for this call *)
Definition dq_step (alpha g : Q) (st : qtab * qtab) (e : bool * nat * nat * nat * Q) : qtab * qtab :=
  let '(qa, qc) := st in
  let '(coin, s, a, s1, r) := e in
  if coin then
    let a1 := fst (argmax (row qa s1)) in
    let change := alpha * (r + g * (qget qc s1 a1 - qget qa s1 a1) - qget qa s a) in
    (upd2 qa s a (qget qa s a + change), upd2 qc s a (qget qc s a + change))
  else
    let a1 := fst (argmax (vsub (row qc s1) (row qa s1))) in
    (qa, upd2 qc s a (qget qc s a + alpha * (r + g * qget qa s1 a1 - (qget qc s a - qget qa s a)))).

(* ------------------------------------------------------------------ DynaQ *)

(* state: QLearning table + visitedStatesActionsSampler_ (the unordered_set is its key set) *)
Definition pair_eqb (x y : nat * nat) : bool := Nat.eqb (fst x) (fst y) && Nat.eqb (snd x) (snd y).

(* src: include/AIToolbox/MDP/Algorithms/DynaQ.hpp:DynaQ::stepUpdateQ *)
Definition dyna_step (alpha g : Q) (st : qtab * list (nat * nat)) (e : nat * nat * nat * Q)
  : qtab * list (nat * nat) :=
  let '(q, vis) := st in
  let '(s, a, s1, r) := e in
  (ql_step alpha g q e, if existsb (pair_eqb (s, a)) vis then vis else vis ++ [(s, a)]).

(* src: include/AIToolbox/MDP/Algorithms/DynaQ.hpp:DynaQ::batchUpdateQ
   [draws] = for each of the N iterations: the sampled index into the visited vector and the
   (s1, rew) returned by the generative model.  A draw whose index is out of range ends the
   batch with [None] (cannot happen: uniform_int_distribution(0, size-1)). *)
Fixpoint dyna_batch (alpha g : Q) (st : qtab * list (nat * nat)) (draws : list (nat * nat * Q))
  : option (qtab * list (nat * nat)) :=
  match draws with
  | [] => Some st
  | (i, s1, r) :: rest =>
    match snd st with
    | [] => Some st                                   (* early return: nothing visited yet *)
    | _ => match nth_error (snd st) i with
           | None => None
           | Some (s, a) => dyna_batch alpha g (ql_step alpha g (fst st) (s, a, s1, r), snd st) rest
           end
    end
  end.

(* ------------------------------------------------------------------ eligibility traces *)

Definition trace := (nat * nat * Q)%type.

(* swap(traces[i], traces[size-1]); pop_back()  seen from position i: the rest of the array
   after the removed element becomes  last :: all-but-last  (or empty) *)
Definition swap_pop (rest : list trace) : list trace :=
  match rest with
  | [] => []
  | _ => last rest (O, O, 0) :: removelast rest
  end.

(* src: src/MDP/Algorithms/Utils/OffPolicyTemplate.cpp:OffPolicyBase::updateTraces (the loop)
   and src/MDP/Algorithms/SARSAL.cpp:SARSAL::stepUpdateQ (same loop with gammaL_).
   The array is  done ++ todo  with i = length done; [fuel] = length todo. *)
Fixpoint trace_loop (fuel : nat) (s a : nat) (err td tol : Q)
         (done todo : list trace) (q : qtab) (newTrace : bool) : list trace * qtab * bool :=
  match fuel with
  | O => (done ++ todo, q, newTrace)
  | S fuel' =>
    match todo with
    | [] => (done, q, newTrace)
    | (ss, aa, el) :: rest =>
      if Nat.eqb ss s && Nat.eqb aa a then
        trace_loop fuel' s a err td tol (done ++ [(ss, aa, 1)]) rest
                   (upd2 q ss aa (qget q ss aa + err * 1)) false
      else
        let el' := Qred (el * td) in
        if Qlt_le_dec el' tol then
          trace_loop fuel' s a err td tol done (swap_pop rest) q newTrace
        else
          trace_loop fuel' s a err td tol (done ++ [(ss, aa, el')]) rest
                     (upd2 q ss aa (qget q ss aa + err * el')) newTrace
    end
  end.

Definition update_traces (s a : nat) (err td tol : Q) (st : qtab * list trace) : qtab * list trace :=
  let '(q, tr) := st in
  let '(tr', q', nw) := trace_loop (length tr) s a err td tol [] tr q true in
  if nw then (upd2 q' s a (qget q' s a + err), tr' ++ [(s, a, 1)]) else (q', tr').

(* src: src/MDP/Algorithms/SARSAL.cpp:SARSAL::stepUpdateQ *)
Definition sarsal_step (alpha g lam tol : Q) (st : qtab * list trace) (e : nat * nat * nat * nat * Q)
  : qtab * list trace :=
  let '(s, a, s1, a1, r) := e in
  let q := fst st in
  let err := alpha * (r + g * qget q s1 a1 - qget q s a) in
  update_traces s a err (lam * g) tol st.

Inductive okind := KQL | KRetrace | KTreeBackup | KImportance.

(* greedy scan of OffPolicyControl::stepUpdateQ: maxV starts at lowest(), strict '<' update,
   expectedQ accumulates the row from 0.0.  Returns (sum, maxA, maxV); on an empty row maxA is
   uninitialised in the C++ (modelled as 0) and maxV = lowest() (modelled as 0; A >= 1 assumed). *)
Definition greedy_scan (rw : vec) : Q * nat * Q :=
  (fold_left Qplus rw 0, fst (argmax rw), snd (argmax rw)).

(* src: QL.hpp / RetraceL.hpp / TreeBackupL.hpp / ImportanceSampling.hpp : getTraceDiscount
   (control variants).  [mu] = behaviour_.getActionProbability(s,a); NB the code compares the
   action a taken in s with maxA computed on the row of s1. *)
Definition ctrl_trace_discount (k : okind) (lam eps : Q) (nA : nat) (a maxA : nat) (mu : Q) : Q :=
  let prob := eps / inject_Z (Z.of_nat nA) + (if Nat.eqb a maxA then 1 else 0) * (1 - eps) in
  match k with
  | KQL => lam
  | KRetrace => lam * Qmin 1 (prob / mu)
  | KTreeBackup => lam * prob
  | KImportance => prob / mu
  end.

(* src: include/AIToolbox/MDP/Algorithms/Utils/OffPolicyTemplate.hpp:OffPolicyControl::stepUpdateQ
   AS IT STANDS in /repo ("legacy"): the greedy action handed to getTraceDiscount is the one found
   by the scan of row s1, although getTraceDiscount compares it with the action a taken in s (the
   header documents maxA as "the already computed best greedy action for state s").
   Kept for the refutation theorem and for classifying the unrepaired implementation. *)
Definition offctrl_step_legacy (k : okind) (alpha g lam tol eps : Q) (nA : nat)
           (st : qtab * list trace) (e : nat * nat * nat * Q * Q) : qtab * list trace :=
  let '(s, a, s1, r, mu) := e in
  let q := fst st in
  let '(sm, maxA, maxV) := greedy_scan (row q s1) in
  let expectedQ := sm * (eps / inject_Z (Z.of_nat nA)) + (1 - eps) * maxV in
  let err := alpha * (r + g * expectedQ - qget q s a) in
  let td := g * ctrl_trace_discount k lam eps nA a maxA mu in
  update_traces s a err td tol st.

(* src: OffPolicyControl::stepUpdateQ REPAIRED (fixes/C11-offpolicy-trace-state.patch): the expected
   backup still scans row s1; the greedy action for the trace discount is the first maximum of row s,
   i.e. the trace is cut with the epsilon-greedy target probability of the pair (s,a) that was acted. *)
Definition offctrl_step (k : okind) (alpha g lam tol eps : Q) (nA : nat)
           (st : qtab * list trace) (e : nat * nat * nat * Q * Q) : qtab * list trace :=
  let '(s, a, s1, r, mu) := e in
  let q := fst st in
  let '(sm, _, maxV) := greedy_scan (row q s1) in
  let maxA := fst (argmax (row q s)) in
  let expectedQ := sm * (eps / inject_Z (Z.of_nat nA)) + (1 - eps) * maxV in
  let err := alpha * (r + g * expectedQ - qget q s a) in
  let td := g * ctrl_trace_discount k lam eps nA a maxA mu in
  update_traces s a err td tol st.

(* getTraceDiscount of the evaluation variants; [pi] = target_(s,a), [mu] = behaviour_(s,a) *)
Definition eval_trace_discount (k : okind) (lam pi mu : Q) : Q :=
  match k with
  | KQL => lam
  | KRetrace => lam * Qmin 1 (pi / mu)
  | KTreeBackup => lam * pi
  | KImportance => pi / mu
  end.

(* the accumulation loop  expectedQ += q(s1,a) * target(s1,a) *)
Definition dotr (v p : vec) : Q :=
  fold_left (fun acc pq => acc + fst pq * snd pq) (combine v p) 0.

(* src: include/AIToolbox/MDP/Algorithms/Utils/OffPolicyTemplate.hpp:OffPolicyEvaluation::stepUpdateQ
   experience = (s, a, s1, r, target row at s1, target(s,a), behaviour(s,a)) *)
Definition offeval_step (k : okind) (alpha g lam tol : Q)
           (st : qtab * list trace) (e : nat * nat * nat * Q * vec * Q * Q) : qtab * list trace :=
  let '(s, a, s1, r, prow, pi, mu) := e in
  let q := fst st in
  let expectedQ := dotr (row q s1) prow in
  let err := alpha * (r + g * expectedQ - qget q s a) in
  let td := g * eval_trace_discount k lam pi mu in
  update_traces s a err td tol st.

(* ------------------------------------------------------------------ prioritized sweeping *)

Record ps_state := {
  ps_q : qtab;                          (* qfun_ *)
  ps_v : vec;                           (* vfun_.values *)
  ps_acts : list nat;                   (* vfun_.actions *)
  ps_queue : list (nat * nat * Q);      (* queue_ + queueHandles_: finite map (s,a) -> priority *)
  ps_done : list (nat * nat)            (* ghost: pairs backed up so far (not in the C++) *)
}.

Definition ps_init (m : mdp) : ps_state :=
  {| ps_q := qzero (nS m) (nA m); ps_v := vzero (nS m); ps_acts := repeat O (nS m);
     ps_queue := []; ps_done := [] |}.

Definition queued (qu : list (nat * nat * Q)) (k : nat * nat) : bool :=
  existsb (fun e => pair_eqb (fst e) k) qu.

(* found: raise the priority if smaller (queue_.increase); else emplace *)
Fixpoint q_bump (qu : list (nat * nat * Q)) (k : nat * nat) (d : Q) : list (nat * nat * Q) :=
  match qu with
  | [] => [(k, d)]
  | (k', p) :: t => if pair_eqb k' k then (k', if Qlt_le_dec p d then d else p) :: t
                    else (k', p) :: q_bump t k d
  end.

(* src: include/AIToolbox/MDP/Algorithms/PrioritizedSweeping.hpp:PrioritizedSweeping::stepUpdateQ
   [bk v] = the new value of qfun_(s,a) computed from the values v (the two constexpr branches differ
   only there); [tp ss a'] = model_.getTransitionProbability(ss, a', s) *)
Definition ps_step_with (bk : vec -> Q) (tp : nat -> nat -> Q) (nS nA : nat) (theta : Q)
           (st : ps_state) (s a : nat) : ps_state :=
  let v := ps_v st in
  let q' := upd2 (ps_q st) s a (bk v) in
  let '(am, vm) := argmax (row q' s) in
  let vnew := Qred vm in
  let p := qabs (vnew - nthq v s) in
  let qu' := fold_left (fun qu k =>
                 let delta := p * tp (fst k) (snd k) in
                 if Qlt_le_dec theta delta then q_bump qu k delta else qu)
               (list_prod (seq 0 nS) (seq 0 nA)) (ps_queue st) in
  {| ps_q := q'; ps_v := upd v s vnew; ps_acts := upd (ps_acts st) s am;
     ps_queue := qu'; ps_done := (s, a) :: ps_done st |}.

(* IsModelEigen branch: R(s,a) + T(a).row(s).dot(values * discount) *)
Definition ps_step (m : mdp) (theta : Q) (st : ps_state) (s a : nat) : ps_state :=
  ps_step_with (fun v => nthq (row (R m) s) a + dot (trow m s a) (vscale (gam m) v))
               (fun ss a' => nthq (trow m ss a') s) (nS m) (nA m) theta st s a.

(* a model that only answers probability / reward queries (IsModel but not IsModelEigen):
   tables indexed s, a, s1 *)
Record gmodel := { gS : nat; gA : nat; gT : list (list vec); gRw : list (list vec); ggam : Q }.
Definition g_tp (g : gmodel) (s a s1 : nat) : Q := nthq (nth a (nth s (gT g) []) []) s1.
Definition g_rw (g : gmodel) (s a s1 : nat) : Q := nthq (nth a (nth s (gRw g) []) []) s1.
(* the non-Eigen branch: for s1 = 0..S-1, if checkDifferentSmall(p, 0.0):
   newQValue += p * (getExpectedReward(s,a,s1) + discount * values[s1]) *)
Definition ne_backup (g : gmodel) (v : vec) (s a : nat) : Q :=
  fold_left (fun acc s1 => let p := g_tp g s a s1 in
                           if negb (eqSmall p 0) then acc + p * (g_rw g s a s1 + ggam g * nthq v s1) else acc)
            (seq 0 (gS g)) 0.
Definition ps_step_ne (g : gmodel) (theta : Q) (st : ps_state) (s a : nat) : ps_state :=
  ps_step_with (fun v => ne_backup g v s a) (fun ss a' => g_tp g ss a' s) (gS g) (gA g) theta st s a.

Definition q_remove (qu : list (nat * nat * Q)) (k : nat * nat) : list (nat * nat * Q) :=
  filter (fun e => negb (pair_eqb (fst e) k)) qu.
Definition q_prio (qu : list (nat * nat * Q)) (k : nat * nat) : option Q :=
  match find (fun e => pair_eqb (fst e) k) qu with Some e => Some (snd e) | None => None end.
(* [k] is a legal result of queue_.top(): present, and no entry has a larger priority *)
Definition is_top (qu : list (nat * nat * Q)) (k : nat * nat) : bool :=
  match q_prio qu k with
  | Some p => forallb (fun e => Qle_bool (snd e) p) qu
  | None => false
  end.

Inductive ps_result := PsOk (st : ps_state) | PsBadChoice.

(* src: include/AIToolbox/MDP/Algorithms/PrioritizedSweeping.hpp:PrioritizedSweeping::batchUpdateQ
   [n] = N; [choices] = the pairs returned by queue_.top() (any maximal element on ties).
   A choice that is not a maximal queued pair, or a missing choice, yields PsBadChoice. *)
Fixpoint ps_batch_with (step : ps_state -> nat -> nat -> ps_state) (n : nat) (st : ps_state)
         (choices : list (nat * nat)) : ps_result :=
  match n with
  | O => PsOk st
  | S n' =>
    match ps_queue st with
    | [] => PsOk st
    | _ =>
      match choices with
      | [] => PsBadChoice
      | k :: rest =>
        if is_top (ps_queue st) k then
          let st1 := {| ps_q := ps_q st; ps_v := ps_v st; ps_acts := ps_acts st;
                        ps_queue := q_remove (ps_queue st) k; ps_done := ps_done st |} in
          ps_batch_with step n' (step st1 (fst k) (snd k)) rest
        else PsBadChoice
      end
    end
  end.
Definition ps_batch (m : mdp) (theta : Q) := ps_batch_with (ps_step m theta).
Definition ps_batch_ne (g : gmodel) (theta : Q) := ps_batch_with (ps_step_ne g theta).
Definition ps_init_g (g : gmodel) : ps_state :=
  {| ps_q := qzero (gS g) (gA g); ps_v := vzero (gS g); ps_acts := repeat O (gS g);
     ps_queue := []; ps_done := [] |}.

(* ------------------------------------------------------------------ SARSAL with its run-time setters *)
(* SARSAL caches gammaL_ = lambda_ * discount_; both setLambda and setDiscount recompute it. *)
Record sl_par := { sl_alpha : Q; sl_g : Q; sl_lam : Q; sl_gl : Q; sl_tol : Q }.
(* src: src/MDP/Algorithms/SARSAL.cpp:SARSAL::SARSAL (setDiscount, setLearningRate, setLambda, setTolerance:
   the last write of gammaL_ is setLambda's, lambda * discount) *)
Definition sl_ctor (alpha g lam tol : Q) : sl_par :=
  {| sl_alpha := alpha; sl_g := g; sl_lam := lam; sl_gl := lam * g; sl_tol := tol |}.
(* src: SARSAL::setDiscount *)
Definition sl_set_discount (p : sl_par) (d : Q) : sl_par :=
  {| sl_alpha := sl_alpha p; sl_g := d; sl_lam := sl_lam p; sl_gl := sl_lam p * d; sl_tol := sl_tol p |}.
(* src: SARSAL::setLambda *)
Definition sl_set_lambda (p : sl_par) (l : Q) : sl_par :=
  {| sl_alpha := sl_alpha p; sl_g := sl_g p; sl_lam := l; sl_gl := l * sl_g p; sl_tol := sl_tol p |}.
(* src: SARSAL::setLearningRate / setTolerance *)
Definition sl_set_alpha (p : sl_par) (a : Q) : sl_par :=
  {| sl_alpha := a; sl_g := sl_g p; sl_lam := sl_lam p; sl_gl := sl_gl p; sl_tol := sl_tol p |}.
Definition sl_set_tol (p : sl_par) (t : Q) : sl_par :=
  {| sl_alpha := sl_alpha p; sl_g := sl_g p; sl_lam := sl_lam p; sl_gl := sl_gl p; sl_tol := t |}.
(* src: SARSAL::stepUpdateQ reading the members (traces decay with the cached gammaL_) *)
Definition sarsal_step_p (p : sl_par) (st : qtab * list trace) (e : nat * nat * nat * nat * Q)
  : qtab * list trace :=
  let '(s, a, s1, a1, r) := e in
  let q := fst st in
  let err := sl_alpha p * (r + sl_g p * qget q s1 a1 - qget q s a) in
  update_traces s a err (sl_gl p) (sl_tol p) st.

Inductive sl_op :=
| SlStep (e : nat * nat * nat * nat * Q)
| SlLambda (l : Q) | SlDiscount (d : Q) | SlAlpha (a : Q) | SlTol (t : Q).
Definition sl_apply (x : sl_par * (qtab * list trace)) (o : sl_op) : sl_par * (qtab * list trace) :=
  let '(p, st) := x in
  match o with
  | SlStep e => (p, sarsal_step_p p st e)
  | SlLambda l => (sl_set_lambda p l, st)
  | SlDiscount d => (sl_set_discount p d, st)
  | SlAlpha a => (sl_set_alpha p a, st)
  | SlTol t => (sl_set_tol p t, st)
  end.

(* ------------------------------------------------------------------ Dyna2 *)
(* state: parameters and (table, traces) of permanentLearning_ and transientLearning_ *)
Definition d2_state := ((sl_par * (qtab * list trace)) * (sl_par * (qtab * list trace)))%type.
(* src: include/AIToolbox/MDP/Algorithms/Dyna2.hpp:Dyna2::stepUpdateQ *)
Definition d2_step (st : d2_state) (e : nat * nat * nat * nat * Q) : d2_state :=
  let '((pp, (qp, trp)), (pt, (qt, _))) := st in
  ((pp, sarsal_step_p pp (qp, trp) e), (pt, sarsal_step_p pt (qt, trp) e)).
(* src: Dyna2::batchUpdateQ.  [a0] = first sampled action; each draw = (s1, rew, a1, terminal?, the action
   re-sampled at initS when s1 is terminal) for one of the N iterations *)
Fixpoint d2_batch_loop (pt : sl_par) (tr : qtab * list trace) (initS s a : nat)
         (draws : list (nat * Q * nat * bool * nat)) : qtab * list trace :=
  match draws with
  | [] => tr
  | (s1, rew, a1, term, ar) :: rest =>
    let tr' := sarsal_step_p pt tr (s, a, s1, a1, rew) in
    if term then d2_batch_loop pt tr' initS initS ar rest
    else d2_batch_loop pt tr' initS s1 a1 rest
  end.
Definition d2_batch (st : d2_state) (initS a0 : nat) (draws : list (nat * Q * nat * bool * nat)) : d2_state :=
  let '(perm, (pt, (qt, _))) := st in
  (perm, (pt, d2_batch_loop pt (qt, []) initS initS a0 draws)).
(* src: Dyna2::resetTransientLearning *)
Definition d2_reset (st : d2_state) : d2_state :=
  let '((pp, (qp, trp)), (pt, (_, trt))) := st in ((pp, (qp, trp)), (pt, (qp, trt))).
