(* C11/ProofsPS.v — prioritized sweeping with theta = 0: every backed-up pair is queued or
   Bellman-consistent; a quiescent state that backed up every pair is a Bellman fixed point. *)
From Coq Require Import List Arith QArith Qminmax Lqa Lia Bool.
From AIT Require Import Base.Qx Base.Mdp C11.Model C11.Spec C11.Proofs.
Import ListNotations.
Local Open Scope Q_scope.

(* ---------------------------------------------------------------- keys and the queue *)
Lemma pair_eqb_eq : forall x y, pair_eqb x y = true <-> x = y.
Proof.
  intros [x1 x2] [y1 y2]. unfold pair_eqb. cbn [fst snd]. rewrite andb_true_iff, !Nat.eqb_eq.
  split; [intros [-> ->]; reflexivity| intros E; inversion E; auto].
Qed.

Lemma pair_eqb_refl : forall x, pair_eqb x x = true.
Proof. intros x. apply pair_eqb_eq. reflexivity. Qed.

Lemma queued_iff : forall qu k, queued qu k = true <-> exists p, In (k, p) qu.
Proof.
  intros qu k. unfold queued. rewrite existsb_exists. split.
  - intros [[k' p] [Hin E]]. cbn [fst] in E. apply pair_eqb_eq in E. subst k'. exists p. exact Hin.
  - intros [p Hin]. exists (k, p). split; [exact Hin| cbn [fst]; apply pair_eqb_refl].
Qed.

Lemma queued_bump_mono : forall qu k d k', queued qu k' = true -> queued (q_bump qu k d) k' = true.
Proof.
  induction qu as [|[k0 p0] qu IH]; intros k d k' H; [discriminate|].
  cbn [q_bump]. unfold queued in *. cbn [existsb fst] in *.
  destruct (pair_eqb k0 k) eqn:E; cbn [existsb fst].
  - exact H.
  - apply orb_true_iff in H. apply orb_true_iff. destruct H as [H|H]; [left; exact H| right; apply IH; exact H].
Qed.

Lemma queued_bump_self : forall qu k d, queued (q_bump qu k d) k = true.
Proof.
  induction qu as [|[k0 p0] qu IH]; intros k d; cbn [q_bump].
  - unfold queued. cbn [existsb fst]. rewrite pair_eqb_refl. reflexivity.
  - destruct (pair_eqb k0 k) eqn:E; unfold queued; cbn [existsb fst].
    + rewrite E. reflexivity.
    + rewrite E. cbn [orb]. apply IH.
Qed.

Lemma queued_bump_inv : forall qu k d k', queued (q_bump qu k d) k' = true -> k' = k \/ queued qu k' = true.
Proof.
  induction qu as [|[k0 p0] qu IH]; intros k d k' H; cbn [q_bump] in H.
  - unfold queued in H. cbn [existsb fst] in H. rewrite orb_false_r in H. apply pair_eqb_eq in H. left; congruence.
  - destruct (pair_eqb k0 k) eqn:E; unfold queued in *; cbn [existsb fst] in *.
    + right. exact H.
    + apply orb_true_iff in H. destruct H as [H|H]; [right; rewrite H; reflexivity|].
      destruct (IH k d k' H) as [->|H']; [left; reflexivity| right; rewrite H'; apply orb_true_r].
Qed.

Section Sweep.
  Variable m : mdp.
  Variable theta : Q.
  Variable pr : Q.                        (* |delta V(s)| *)
  Variable s : nat.
  Let f := fun (qu : list (nat * nat * Q)) (k : nat * nat) =>
             let delta := pr * nthq (trow m (fst k) (snd k)) s in
             if Qlt_le_dec theta delta then q_bump qu k delta else qu.

  Lemma sweep_mono : forall l qu k', queued qu k' = true -> queued (fold_left f l qu) k' = true.
  Proof.
    induction l as [|k l IH]; intros qu k' H; cbn [fold_left]; [exact H|]. apply IH. unfold f.
    destruct (Qlt_le_dec theta _); [apply queued_bump_mono; exact H| exact H].
  Qed.

  Lemma sweep_hit : forall l qu k, In k l -> theta < pr * nthq (trow m (fst k) (snd k)) s ->
    queued (fold_left f l qu) k = true.
  Proof.
    induction l as [|k0 l IH]; intros qu k Hin Hlt; [destruct Hin|]. cbn [fold_left].
    destruct Hin as [->|Hin]; [| apply IH; assumption].
    apply sweep_mono. unfold f. destruct (Qlt_le_dec theta _) as [_|Hge]; [apply queued_bump_self| lra].
  Qed.

  Lemma sweep_inv : forall l qu k', queued (fold_left f l qu) k' = true -> In k' l \/ queued qu k' = true.
  Proof.
    induction l as [|k l IH]; intros qu k' H; cbn [fold_left] in H; [right; exact H|].
    destruct (IH _ _ H) as [Hin|Hq]; [left; right; exact Hin|]. unfold f in Hq.
    destruct (Qlt_le_dec theta _); [| right; exact Hq].
    destruct (queued_bump_inv _ _ _ _ Hq) as [->|Hq']; [left; left; reflexivity| right; exact Hq'].
  Qed.
End Sweep.

(* ---------------------------------------------------------------- the model MDP *)
Lemma trow_nonneg : forall m x y s, wf_mdp m -> 0 <= nthq (trow m x y) s.
Proof.
  intros m x y s (_ & _ & _ & _ & HlP & _ & HlPa & Hsim & _). unfold trow, row, nthq.
  destruct (lt_dec y (nA m)) as [Hy|Hy]; [| rewrite (nth_overflow (P m)) by lia; destruct x, s; cbn [nth]; lra].
  destruct (lt_dec x (nS m)) as [Hx|Hx];
    [| rewrite (nth_overflow (nth y (P m) [])) by (rewrite HlPa by exact Hy; lia); destruct s; cbn [nth]; lra].
  destruct (Hsim y x Hy Hx) as [Hlen [Hnn _]]. unfold row in Hnn, Hlen.
  destruct (lt_dec s (length (nth x (nth y (P m) []) []))) as [Hs|Hs].
  - exact (proj1 (Forall_forall _ _) Hnn _ (nth_In _ 0 Hs)).
  - rewrite (nth_overflow (nth x (nth y (P m) []) [])) by lia. lra.
Qed.

Lemma trow_range : forall m x y s, wf_mdp m -> ~ nthq (trow m x y) s == 0 -> (x < nS m)%nat /\ (y < nA m)%nat.
Proof.
  intros m x y s (_ & _ & _ & _ & HlP & _ & HlPa & _ & _) H. unfold trow, row, nthq in H.
  destruct (lt_dec y (nA m)) as [Hy|Hy];
    [| exfalso; apply H; rewrite (nth_overflow (P m)) by lia; destruct x, s; cbn [nth]; lra].
  destruct (lt_dec x (nS m)) as [Hx|Hx]; [split; assumption|].
  exfalso; apply H. rewrite (nth_overflow (nth y (P m) [])) by (rewrite HlPa by exact Hy; lia).
  destruct s; cbn [nth]; lra.
Qed.

Lemma dot_upd : forall r v s x, (s < length v)%nat ->
  dot r (upd v s x) == dot r v + nthq r s * (x - nthq v s).
Proof.
  unfold nthq. induction r as [|y r IH]; intros [|z v] s x Hs; cbn [length] in Hs; try lia.
  - destruct s; cbn [upd dot nth]; lra.
  - destruct s as [|s]; cbn [upd dot nth]; [lra|]. rewrite IH by lia. lra.
Qed.

Lemma in_pairs : forall nS nA x y, (x < nS)%nat -> (y < nA)%nat -> In (x, y) (list_prod (seq 0 nS) (seq 0 nA)).
Proof. intros. apply in_prod; apply in_seq; lia. Qed.

Lemma pairs_range : forall nS nA k, In k (list_prod (seq 0 nS) (seq 0 nA)) -> (fst k < nS)%nat /\ (snd k < nA)%nat.
Proof. intros nS nA [x y] H. apply in_prod_iff in H. rewrite !in_seq in H. cbn [fst snd]. lia. Qed.

Lemma row_upd2_other : forall q s a x s', s' <> s -> row (upd2 q s a x) s' = row q s'.
Proof. intros. unfold row, upd2. apply nth_upd_other. assumption. Qed.

Lemma qabs_zero_prod : forall d t, 0 <= t -> qabs d * t <= 0 -> t * d == 0.
Proof.
  intros d t Ht H. unfold qabs in H. destruct (Q.max_spec d (- d)) as [[Hc E]|[Hc E]]; rewrite E in H; nra.
Qed.

Lemma eqb_key_ps : forall ss aa s a, Nat.eqb ss s && Nat.eqb aa a = true -> (ss, aa) = (s, a).
Proof. intros ss aa s a H. apply andb_true_iff in H. destruct H as [H1 H2]. apply Nat.eqb_eq in H1, H2. congruence. Qed.

(* the invariant with one pair exempted (the pair that is about to be backed up) *)
Definition ps_inv_except (m : mdp) (st : ps_state) (k : nat * nat) : Prop :=
  length (ps_v st) = nS m /\ shape (nS m) (nA m) (ps_q st) /\
  (forall s, (s < nS m)%nat -> nthq (ps_v st) s == maxl (row (ps_q st) s)) /\
  (forall k, queued (ps_queue st) k = true -> (fst k < nS m)%nat /\ (snd k < nA m)%nat) /\
  (forall s a, In (s, a) (ps_done st) -> (s, a) <> k ->
     queued (ps_queue st) (s, a) = true \/ qget (ps_q st) s a == bellman_q m (ps_v st) s a).

Lemma ps_inv_weaken : forall m st k, ps_inv m st -> ps_inv_except m st k.
Proof.
  intros m st k (H1 & H2 & H3 & H4 & H5). split; [exact H1|]. split; [exact H2|]. split; [exact H3|]. split; [exact H4|].
  intros s a Hin _. apply H5; exact Hin.
Qed.

Lemma ps_step_inv : forall m theta st s a, wf_mdp m -> theta == 0 -> (s < nS m)%nat -> (a < nA m)%nat ->
  ps_inv_except m st (s, a) -> ps_inv m (ps_step m theta st s a).
Proof.
  intros m theta st s a Hwf Hth Hs Ha (Hlv & Hsh & Hvm & Hqr & Hdone).
  assert (HnA : (0 < nA m)%nat) by (destruct Hwf as (_ & ? & _); assumption).
  unfold ps_step, ps_step_with.
  set (v := ps_v st) in *. set (q := ps_q st) in *.
  set (x := nthq (row (R m) s) a + dot (trow m s a) (vscale (gam m) v)).
  set (q' := upd2 q s a x).
  assert (Hsh' : shape (nS m) (nA m) q') by (apply shape_upd2; exact Hsh).
  assert (Hne : row q' s <> []).
  { intros C. pose proof (shape_row _ _ q' s Hsh' Hs) as L. rewrite C in L. cbn in L. lia. }
  pose proof (argmax_spec (row q' s) Hne) as Harg. destruct (argmax (row q' s)) as [am vm].
  destruct Harg as (_ & Evm & _).
  set (vnew := Qred vm). set (p := qabs (vnew - nthq v s)).
  assert (Evnew : vnew == maxl (row q' s)) by (unfold vnew; rewrite Qred_correct; exact Evm).
  set (qu' := fold_left _ _ (ps_queue st)).
  assert (Is : (s < length q)%nat) by (destruct Hsh as [-> _]; exact Hs).
  assert (Ia : (a < length (row q s))%nat) by (rewrite (shape_row _ _ q s Hsh Hs); exact Ha).
  assert (Isv : (s < length v)%nat) by lia.
  assert (Hp0 : 0 <= p) by (unfold p, qabs; destruct (Q.max_spec (vnew - nthq v s) (- (vnew - nthq v s))) as [[? ->]|[? ->]]; lra).
  (* claim A: every pair is queued afterwards or its Bellman backup is unchanged by the new V(s) *)
  assert (A : forall x0 y0, queued qu' (x0, y0) = true \/
                            bellman_q m (upd v s vnew) x0 y0 == bellman_q m v x0 y0).
  { intros x0 y0. set (t := nthq (trow m x0 y0) s).
    destruct (Qlt_le_dec theta (p * t)) as [Hlt|Hge].
    - left. assert (Hr : (x0 < nS m)%nat /\ (y0 < nA m)%nat).
      { apply (trow_range m x0 y0 s Hwf). fold t. intros C. rewrite C in Hlt. lra. }
      unfold qu'. apply (sweep_hit m theta p s _ _ (x0, y0)); [apply in_pairs; tauto| cbn [fst snd]; exact Hlt].
    - right. unfold bellman_q, q_of. rewrite (dot_upd (trow m x0 y0) v s vnew Isv). fold t.
      assert (Ht : 0 <= t) by (apply trow_nonneg; exact Hwf).
      assert (Z : t * (vnew - nthq v s) == 0) by (apply qabs_zero_prod; [exact Ht| fold p; lra]).
      rewrite Z. lra. }
  cbn [ps_inv ps_q ps_v ps_acts ps_queue ps_done]. unfold ps_inv. cbn [ps_q ps_v ps_acts ps_queue ps_done].
  split; [rewrite upd_length; exact Hlv|]. split; [exact Hsh'|]. split; [| split].
  - intros s' Hs'. unfold nthq. destruct (Nat.eq_dec s' s) as [->|Hne'].
    + rewrite nth_upd_same by exact Isv. exact Evnew.
    + rewrite nth_upd_other by exact Hne'. unfold q'. rewrite row_upd2_other by exact Hne'. apply Hvm; exact Hs'.
  - intros k Hk. unfold qu' in Hk. apply sweep_inv in Hk. destruct Hk as [Hin|Hq]; [apply pairs_range; exact Hin| apply Hqr; exact Hq].
  - intros x0 y0 Hin.
    assert (Eq' : qget q' x0 y0 == (if Nat.eqb x0 s && Nat.eqb y0 a then x else qget q x0 y0))
      by (apply qget_upd2_in; assumption).
    destruct (Nat.eqb x0 s && Nat.eqb y0 a) eqn:E.
    + apply eqb_key_ps in E. inversion E; subst x0 y0.
      destruct (A s a) as [Hq|Hb]; [left; exact Hq| right].
      rewrite Eq', Hb. unfold x, bellman_q, q_of. rewrite dot_scale_r. lra.
    + assert (Hne' : (x0, y0) <> (s, a)) by (intros C; inversion C; subst; rewrite !Nat.eqb_refl in E; discriminate).
      destruct Hin as [C|Hin]; [congruence|].
      destruct (Hdone x0 y0 Hin Hne') as [Hq|Hb].
      * left. unfold qu'. apply sweep_mono. exact Hq.
      * destruct (A x0 y0) as [Hq|Hb']; [left; exact Hq| right]. rewrite Eq', Hb'. exact Hb.
Qed.

(* ---------------------------------------------------------------- batch *)
Lemma queued_remove_other : forall qu k k', k' <> k -> queued (q_remove qu k) k' = queued qu k'.
Proof.
  induction qu as [|[k0 p0] qu IH]; intros k k' Hne; [reflexivity|].
  unfold q_remove, queued in *. cbn [filter fst existsb].
  destruct (pair_eqb k0 k) eqn:E; cbn [negb existsb fst].
  - apply pair_eqb_eq in E. subst k0. rewrite IH by exact Hne.
    replace (pair_eqb k k') with false; [reflexivity|]. symmetry. apply not_true_iff_false. intros C. apply pair_eqb_eq in C. congruence.
  - rewrite IH by exact Hne. reflexivity.
Qed.

Lemma queued_remove_sub : forall qu k k', queued (q_remove qu k) k' = true -> queued qu k' = true.
Proof.
  intros qu k k' H. apply queued_iff in H. destruct H as [p Hin]. unfold q_remove in Hin.
  apply filter_In in Hin. apply queued_iff. exists p. tauto.
Qed.

Lemma is_top_queued : forall qu k, is_top qu k = true -> queued qu k = true.
Proof.
  intros qu k H. unfold is_top, q_prio in H. destruct (find _ qu) as [e|] eqn:F; [| discriminate].
  apply find_some in F. destruct F as [Hin E]. apply pair_eqb_eq in E. apply queued_iff. exists (snd e).
  rewrite <- E. destruct e; exact Hin.
Qed.

Lemma ps_batch_inv : forall m theta n st ch st', wf_mdp m -> theta == 0 -> ps_inv m st ->
  ps_batch m theta n st ch = PsOk st' -> ps_inv m st'.
Proof.
  intros m theta n. unfold ps_batch. induction n as [|n IH]; intros st ch st' Hwf Hth Hinv H; cbn [ps_batch_with] in H.
  - inversion H; subst; exact Hinv.
  - destruct (ps_queue st) as [|e qu] eqn:Eq; [inversion H; subst; exact Hinv|]. rewrite <- Eq in *.
    destruct ch as [|k rest]; [discriminate|].
    destruct (is_top (ps_queue st) k) eqn:Et; [| discriminate].
    apply (IH _ _ _ Hwf Hth) in H; [exact H|].
    destruct Hinv as (H1 & H2 & H3 & H4 & H5).
    pose proof (H4 k (is_top_queued _ _ Et)) as [Hk1 Hk2].
    apply ps_step_inv; try assumption.
    unfold ps_inv_except. cbn [ps_q ps_v ps_queue ps_done].
    split; [exact H1|]. split; [exact H2|]. split; [exact H3|]. split.
    + intros k' Hk'. apply H4. eapply queued_remove_sub; exact Hk'.
    + intros x y Hin Hne. destruct k as [k1 k2]. cbn [fst snd] in Hne.
      rewrite queued_remove_other by exact Hne. apply H5; exact Hin.
Qed.

Lemma maxl_repeat0 : forall n, maxl (repeat 0 n) == 0.
Proof.
  intros [|n]; [reflexivity|]. apply maxl_char; [discriminate| |].
  - intros y Hy. apply repeat_spec in Hy. subst; lra.
  - exists 0. split; [left; reflexivity| lra].
Qed.

Lemma ps_init_inv : forall m, ps_inv m (ps_init m).
Proof.
  intros m. unfold ps_inv, ps_init. cbn [ps_q ps_v ps_queue ps_done].
  split; [apply repeat_length|]. split; [apply shape_qzero|]. split; [| split].
  - intros s Hs. unfold nthq, vzero.
    replace (nth s (repeat 0 (nS m)) 0) with 0 by (symmetry; apply (repeat_spec (nS m) 0); apply nth_In; rewrite repeat_length; exact Hs).
    destruct (row_qzero (nS m) (nA m) s) as [-> | ->]; [rewrite maxl_repeat0; lra| reflexivity].
  - intros k Hk. discriminate.
  - intros s a [].
Qed.

Definition res_inv (m : mdp) (r : ps_result) : Prop :=
  match r with PsOk st => ps_inv m st | PsBadChoice => True end.

Lemma ps_invariant_lemma : forall m theta ops st, wf_mdp m -> theta == 0 ->
  Forall (ps_op_ok m) ops -> ps_run m theta ops = PsOk st -> ps_inv m st.
Proof.
  intros m theta ops st Hwf Hth Hall Hrun.
  assert (G : res_inv m (ps_run m theta ops)).
  { unfold ps_run. refine (fold_left_inv _ _ (ps_apply m theta) (res_inv m) _ ops _ _ Hall _).
    - intros [st0|] o Ho Hr; cbn [ps_apply]; [| exact I].
      destruct o as [s a|n ch]; cbn [res_inv].
      + destruct Ho as [Hs Ha]. apply ps_step_inv; try assumption. apply ps_inv_weaken. exact Hr.
      + destruct (ps_batch m theta n st0 ch) as [st1|] eqn:E; [| exact I].
        eapply ps_batch_inv; eauto.
    - cbn [res_inv]. apply ps_init_inv. }
  rewrite Hrun in G. exact G.
Qed.

(* ---------------------------------------------------------------- quiescence *)
Lemma Forall2_nth_seq : forall (P : Q -> Q -> Prop) (v : vec) k (f : nat -> Q),
  (forall i, (i < length v)%nat -> P (nth i v 0) (f (k + i)%nat)) -> Forall2 P v (map f (seq k (length v))).
Proof.
  intros P. induction v as [|x v IH]; intros k f H; cbn [length seq map]; constructor.
  - specialize (H O). cbn [nth] in H. rewrite Nat.add_0_r in H. apply H. cbn; lia.
  - apply IH. intros i Hi. specialize (H (S i)). cbn [nth] in H. rewrite Nat.add_succ_r in H. apply H. cbn; lia.
Qed.

Lemma list_map_nth_off : forall (l : vec) k, map (fun i => nth (i - k) l 0) (seq k (length l)) = l.
Proof.
  induction l as [|x l IH]; intros k; cbn [length seq map]; [reflexivity|].
  rewrite Nat.sub_diag. cbn [nth]. f_equal. rewrite <- (IH (S k)) at 2.
  apply map_ext_in. intros i Hi. apply in_seq in Hi. replace (i - k)%nat with (S (i - S k)) by lia. reflexivity.
Qed.

Lemma list_map_nth : forall (l : vec), l = map (fun i => nth i l 0) (seq 0 (length l)).
Proof.
  intros l. rewrite <- (list_map_nth_off l 0) at 1. apply map_ext. intros i. rewrite Nat.sub_0_r. reflexivity.
Qed.

Lemma ps_quiescent_lemma : forall m st, wf_mdp m -> ps_inv m st -> ps_queue st = [] ->
  (forall s a, (s < nS m)%nat -> (a < nA m)%nat -> In (s, a) (ps_done st)) ->
  (forall s a, (s < nS m)%nat -> (a < nA m)%nat -> qget (ps_q st) s a == q_of m (ps_v st) s a) /\
  residual_le m (ps_v st) 0.
Proof.
  intros m st Hwf (Hlv & Hsh & Hvm & _ & Hdone) Hq Hall.
  assert (HQ : forall s a, (s < nS m)%nat -> (a < nA m)%nat -> qget (ps_q st) s a == q_of m (ps_v st) s a).
  { intros s a Hs Ha. destruct (Hdone s a (Hall s a Hs Ha)) as [C|E]; [rewrite Hq in C; discriminate| exact E]. }
  split; [exact HQ|].
  unfold residual_le, close, T_op. rewrite <- Hlv. apply Forall2_nth_seq. intros s Hs. cbn [Nat.add].
  rewrite Hlv in Hs. fold (nthq (ps_v st) s). rewrite (Hvm s Hs).
  rewrite (list_map_nth (row (ps_q st) s)). rewrite (shape_row _ _ _ s Hsh Hs).
  assert (HnA : seq 0 (nA m) <> []) by (destruct Hwf as (_ & HA & _); destruct (nA m); [lia| discriminate]).
  rewrite (maxl_map_ext nat (fun i => nth i (row (ps_q st) s) 0) (q_of m (ps_v st) s) (seq 0 (nA m)) HnA).
  - split; lra.
  - intros a Ha. apply in_seq in Ha. apply (HQ s a Hs). lia.
Qed.
