(* C11/ProofsLink.v — prioritized sweeping at quiescence reproduces value iteration
   (uses C01's contraction corollary approx_fixpoints_close and its VI model, read-only). *)
From Coq Require Import List Arith QArith Qminmax Lqa Lia Bool.
From AIT Require Import Base.Qx Base.Mdp.
From AIT Require Import C01.Model C01.Proofs C01.ProofsVI C01.ProofsRepr.
(* C11 last: its ps_* names shadow C01's policy-evaluation state accessors *)
From AIT Require Import C11.Model C11.Spec C11.Proofs C11.ProofsPS.
Import ListNotations.
Local Open Scope Q_scope.

Lemma residual_length : forall m w e, residual_le m w e -> length w = nS m.
Proof.
  intros m w e H. apply close_length in H. rewrite H. unfold T_op. rewrite map_length, seq_length. reflexivity.
Qed.

Lemma trow_simplex : forall m s a, wf_mdp m -> (s < nS m)%nat -> (a < nA m)%nat ->
  nonneg (trow m s a) /\ qsum (trow m s a) == 1.
Proof.
  intros m s a (_ & _ & _ & _ & _ & _ & _ & Hsim & _) Hs Ha.
  destruct (Hsim a s Ha Hs) as [_ [Hnn Hsum]]. split; assumption.
Qed.

(* any vector w with Bellman residual e (e.g. the output of value iteration) is within e/(1-gamma) of
   the quiescent V, and the quiescent Q is within gamma*e/(1-gamma) of w's one-step look-ahead *)
Lemma ps_reproduces_vi_lemma : forall m st w e, wf_mdp m -> ps_inv m st -> ps_queue st = [] ->
  (forall s a, (s < nS m)%nat -> (a < nA m)%nat -> In (s, a) (ps_done st)) ->
  residual_le m w e ->
  close (e / (1 - gam m)) (ps_v st) w /\
  (forall s a, (s < nS m)%nat -> (a < nA m)%nat ->
     - (gam m * (e / (1 - gam m))) <= qget (ps_q st) s a - q_of m w s a /\
     qget (ps_q st) s a - q_of m w s a <= gam m * (e / (1 - gam m))).
Proof.
  intros m st w e Hwf Hinv Hq Hall Hw.
  destruct (ps_quiescent_lemma m st Hwf Hinv Hq Hall) as [HQ Hres].
  assert (Hlv : length (ps_v st) = nS m) by (destruct Hinv as (? & _); assumption).
  pose proof (residual_length m w e Hw) as Hlw.
  pose proof (approx_fixpoints_close_lemma m (ps_v st) w 0 e Hwf Hlv Hlw Hres Hw) as Hc.
  assert (Ed : (0 + e) / (1 - gam m) == e / (1 - gam m)) by (unfold Qdiv; lra).
  assert (Hc' : close (e / (1 - gam m)) (ps_v st) w).
  { eapply close_weaken; [| exact Hc]. rewrite Ed. lra. }
  split; [exact Hc'|]. intros s a Hs Ha. rewrite (HQ s a Hs Ha). unfold q_of.
  destruct (trow_simplex m s a Hwf Hs Ha) as [Hnn Hsum].
  assert (Hg : 0 < gam m) by (destruct Hwf as (_ & _ & ? & _); assumption).
  assert (Hd0 : 0 <= e / (1 - gam m)).
  { (* the distance bound is non-negative because close d v w on a non-empty vector forces 0 <= d *)
    destruct Hwf as (HS & _). destruct (ps_v st) as [|x v]; [cbn in Hlv; lia|].
    inversion Hc' as [|? y ? ? [L U] _]; subst. lra. }
  destruct (dot_close (trow m s a) (ps_v st) w (e / (1 - gam m)) Hd0 Hnn Hc') as [L U].
  rewrite Hsum in L, U. split; nra.
Qed.

(* with C01's model of MDP::ValueIteration: whatever stopped the loop after at least one sweep *)
Lemma ps_reproduces_vi_run_lemma : forall m st h tol v0, wf_mdp m -> ps_inv m st -> ps_queue st = [] ->
  (forall s a, (s < nS m)%nat -> (a < nA m)%nat -> In (s, a) (ps_done st)) ->
  epsS < tol -> (0 < h)%nat ->
  let '(var, v, acts, qv) := vi_run m h tol v0 in
  close (gam m * var / (1 - gam m)) (ps_v st) v.
Proof.
  intros m st h tol v0 Hwf Hinv Hq Hall Htol Hh.
  pose proof (vi_residual_any_stop_lemma m h tol v0 Hwf Htol Hh) as H.
  destruct (vi_run m h tol v0) as [[[var v] acts] qv]. destruct H as [_ Hres].
  exact (proj1 (ps_reproduces_vi_lemma m st v (gam m * var) Hwf Hinv Hq Hall Hres)).
Qed.
