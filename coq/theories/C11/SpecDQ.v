(* C11/SpecDQ.v — round 6: the DOCUMENTED DoubleQLearning rule, stated on the documented tables
   A = getQFunctionA() and B = getQFunctionB() = qc_ - qa_ (independent of how the code stores them):
     coin:      A(s,a) += alpha (r + gamma B(s1, argmax_a' A(s1,a')) - A(s,a)),   B untouched
     otherwise: B(s,a) += alpha (r + gamma A(s1, argmax_a' B(s1,a')) - B(s,a)),   A untouched       *)
From Coq Require Import List Arith QArith Bool.
From AIT Require Import Base.Qx Base.Mdp C11.Model C11.Spec.
Import ListNotations.
Local Open Scope Q_scope.

Definition dq_a (st : qtab * qtab) (x y : nat) : Q := qget (fst st) x y.
Definition dq_b (st : qtab * qtab) (x y : nat) : Q := qget (snd st) x y - qget (fst st) x y.

(* a1 is a maximiser of f over the actions 0..nA-1 *)
Definition row_argmax (nA : nat) (f : nat -> Q) (a1 : nat) : Prop :=
  (a1 < nA)%nat /\ forall j, (j < nA)%nat -> f j <= f a1.

Definition dq_documented (nA : nat) (alpha g : Q) (st st' : qtab * qtab) (coin : bool) (s a s1 : nat) (r : Q) : Prop :=
  exists a1,
    if coin then
      row_argmax nA (dq_a st s1) a1 /\
      dq_a st' s a == dq_a st s a + alpha * (r + g * dq_b st s1 a1 - dq_a st s a) /\
      (forall x y, (x, y) <> (s, a) -> dq_a st' x y == dq_a st x y) /\
      (forall x y, dq_b st' x y == dq_b st x y)
    else
      row_argmax nA (dq_b st s1) a1 /\
      dq_b st' s a == dq_b st s a + alpha * (r + g * dq_a st s1 a1 - dq_b st s a) /\
      (forall x y, (x, y) <> (s, a) -> dq_b st' x y == dq_b st x y) /\
      (forall x y, dq_a st' x y == dq_a st x y).

(* the sample-averaged entry after one step from (s,a): sum_s1 T(s,a,s1) * table'(s1)(s,a) *)
Definition dq_expected (m : mdp) (s a : nat) (f : nat -> Q) : Q :=
  dot (trow m s a) (map f (seq 0 (nS m))).

(* boolean twin of [dq_documented] on the cells of an nS x nA table (the maximiser a1 only occurs in the
   first two conjuncts, so the existential is checked there); used by the driver on consecutive dumps *)
Definition dq_documentedb (nS nA : nat) (alpha g : Q) (st st' : qtab * qtab) (coin : bool) (s a s1 : nat) (r : Q) : bool :=
  let own := if coin then dq_a else dq_b in
  let oth := if coin then dq_b else dq_a in
  let cells := list_prod (seq 0 nS) (seq 0 nA) in
  existsb (fun a1 =>
      forallb (fun j => Qle_bool (own st s1 j) (own st s1 a1)) (seq 0 nA) &&
      Qeq_bool (own st' s a) (own st s a + alpha * (r + g * oth st s1 a1 - own st s a))) (seq 0 nA) &&
  forallb (fun k => pair_eqb k (s, a) || Qeq_bool (own st' (fst k) (snd k)) (own st (fst k) (snd k))) cells &&
  forallb (fun k => Qeq_bool (oth st' (fst k) (snd k)) (oth st (fst k) (snd k))) cells.
