(* C11/Proofs.v — table lemmas and the boundedness / fixed-point theorems of the one-step learners. *)
From Coq Require Import List Arith QArith Qminmax Lqa Lia Bool.
From AIT Require Import Base.Qx Base.Mdp C11.Model C11.Spec.
Import ListNotations.
Local Open Scope Q_scope.

(* ---------------------------------------------------------------- upd *)
Lemma upd_length : forall (A : Type) (l : list A) i x, length (upd l i x) = length l.
Proof. induction l as [|y l IH]; intros [|i] x; cbn [upd length]; auto. Qed.

Lemma nth_upd_same : forall (A : Type) (l : list A) i x d, (i < length l)%nat -> nth i (upd l i x) d = x.
Proof.
  induction l as [|y l IH]; intros [|i] x d H; cbn [length] in H; try lia; cbn [upd nth]; auto.
  apply IH; lia.
Qed.

Lemma nth_upd_other : forall (A : Type) (l : list A) i j x d, j <> i -> nth j (upd l i x) d = nth j l d.
Proof.
  induction l as [|y l IH]; intros [|i] [|j] x d H; cbn [upd nth]; auto; try congruence.
Qed.

Lemma upd_oob : forall (A : Type) (l : list A) i x, (length l <= i)%nat -> upd l i x = l.
Proof.
  induction l as [|y l IH]; intros [|i] x H; cbn [length] in H; cbn [upd]; auto; try lia.
  f_equal; apply IH; lia.
Qed.

Lemma Forall_upd : forall (A : Type) (P : A -> Prop) (l : list A) i x, Forall P l -> P x -> Forall P (upd l i x).
Proof.
  induction l as [|y l IH]; intros [|i] x Hl Hx; cbn [upd]; auto; inversion Hl; subst; constructor; auto.
Qed.

(* ---------------------------------------------------------------- qget / upd2 *)
Lemma qget_upd2_in : forall q s a x s' a', (s < length q)%nat -> (a < length (row q s))%nat ->
  qget (upd2 q s a x) s' a' == (if Nat.eqb s' s && Nat.eqb a' a then x else qget q s' a').
Proof.
  intros q s a x s' a' Hs Ha. unfold qget, upd2, row, nthq.
  destruct (Nat.eqb_spec s' s) as [->|Hne]; cbn [andb].
  - rewrite nth_upd_same by exact Hs.
    destruct (Nat.eqb_spec a' a) as [->|Hna].
    + rewrite nth_upd_same by exact Ha. apply Qred_correct.
    + rewrite nth_upd_other by exact Hna. reflexivity.
  - rewrite nth_upd_other by exact Hne. reflexivity.
Qed.

Lemma upd2_oob : forall q s a x, ~ ((s < length q)%nat /\ (a < length (row q s))%nat) -> upd2 q s a x = q.
Proof.
  intros q s a x H. unfold upd2.
  destruct (lt_dec s (length q)) as [Hs|Hs]; [| apply upd_oob; lia].
  destruct (lt_dec a (length (row q s))) as [Ha|Ha]; [tauto|].
  rewrite (upd_oob _ (row q s) a) by lia. unfold row.
  clear - Hs. revert s Hs. induction q as [|r q IH]; intros [|s] Hs; cbn [length] in Hs; try lia; cbn [upd nth]; auto.
  f_equal. apply IH. lia.
Qed.

Lemma qget_upd2_cases : forall q s a x s' a',
  qget (upd2 q s a x) s' a' == x \/ qget (upd2 q s a x) s' a' == qget q s' a'.
Proof.
  intros q s a x s' a'.
  destruct (lt_dec s (length q)) as [Hs|Hs]; [destruct (lt_dec a (length (row q s))) as [Ha|Ha]|].
  - pose proof (qget_upd2_in q s a x s' a' Hs Ha) as E.
    destruct (Nat.eqb s' s && Nat.eqb a' a); [left|right]; exact E.
  - right. rewrite upd2_oob by tauto. reflexivity.
  - right. rewrite upd2_oob by tauto. reflexivity.
Qed.

Lemma boxed_upd2 : forall lo hi q s a x, boxed lo hi q -> lo <= x -> x <= hi -> boxed lo hi (upd2 q s a x).
Proof.
  intros lo hi q s a x Hb Hl Hh s' a'.
  destruct (qget_upd2_cases q s a x s' a') as [E|E]; [rewrite E; split; assumption| rewrite E; apply Hb].
Qed.

Lemma row_qzero : forall nS nA s, row (qzero nS nA) s = repeat 0 nA \/ row (qzero nS nA) s = [].
Proof.
  intros nS nA s. unfold row, qzero. destruct (lt_dec s nS) as [H|H].
  - left. apply (repeat_spec nS (repeat 0 nA)). apply nth_In. rewrite repeat_length. exact H.
  - right. apply nth_overflow. rewrite repeat_length. lia.
Qed.

Lemma qget_qzero : forall nS nA s a, qget (qzero nS nA) s a = 0.
Proof.
  intros nS nA s a. unfold qget, nthq. destruct (row_qzero nS nA s) as [-> | ->].
  - destruct (lt_dec a nA) as [H|H].
    + apply (repeat_spec nA 0). apply nth_In. rewrite repeat_length. exact H.
    + apply nth_overflow. rewrite repeat_length. lia.
  - destruct a; reflexivity.
Qed.

Lemma boxed_qzero : forall lo hi nS nA, lo <= 0 -> 0 <= hi -> boxed lo hi (qzero nS nA).
Proof. intros lo hi nS nA Hl Hh s a. rewrite qget_qzero. split; assumption. Qed.

Lemma boxed_in_box : forall lo hi q, boxed lo hi q -> in_box lo hi q.
Proof.
  intros lo hi q Hb. unfold in_box. apply Forall_forall. intros r Hr.
  destruct (In_nth q r [] Hr) as [s [Hs Es]]. apply Forall_forall. intros x Hx.
  destruct (In_nth r x 0 Hx) as [a [Ha Ea]]. specialize (Hb s a). unfold qget, row, nthq in Hb.
  rewrite Es, Ea in Hb. exact Hb.
Qed.

Lemma in_box_boxed : forall lo hi q, lo <= 0 -> 0 <= hi -> in_box lo hi q -> boxed lo hi q.
Proof.
  intros lo hi q Hl Hh Hb s a. unfold qget, row, nthq.
  destruct (lt_dec s (length q)) as [Hs|Hs].
  - pose proof (proj1 (Forall_forall _ _) Hb (nth s q []) (nth_In q [] Hs)) as Hr.
    destruct (lt_dec a (length (nth s q []))) as [Ha|Ha].
    + exact (proj1 (Forall_forall _ _) Hr _ (nth_In _ 0 Ha)).
    + rewrite (nth_overflow (nth s q [])) by lia. split; assumption.
  - rewrite (nth_overflow q) by lia. destruct a; cbn [nth]; split; assumption.
Qed.

Lemma in_boxb_sound : forall lo hi q, in_boxb lo hi q = true -> in_box lo hi q.
Proof.
  intros lo hi q H. unfold in_boxb in H. unfold in_box. rewrite forallb_forall in H.
  apply Forall_forall. intros r Hr. specialize (H r Hr). rewrite forallb_forall in H.
  apply Forall_forall. intros x Hx. specialize (H x Hx). apply andb_true_iff in H.
  destruct H as [H1 H2]. apply Qle_bool_iff in H1. apply Qle_bool_iff in H2. split; assumption.
Qed.

(* ---------------------------------------------------------------- shape *)
Lemma shape_upd2 : forall nS nA q s a x, shape nS nA q -> shape nS nA (upd2 q s a x).
Proof.
  intros nS nA q s a x [Hl Hr]. unfold upd2.
  destruct (lt_dec s (length q)) as [Hs|Hs].
  - split; [rewrite upd_length; exact Hl|]. apply Forall_upd; [exact Hr|]. rewrite upd_length.
    exact (proj1 (Forall_forall _ _) Hr _ (nth_In q [] Hs)).
  - rewrite upd_oob by lia. split; assumption.
Qed.

Lemma shape_qzero : forall nS nA, shape nS nA (qzero nS nA).
Proof.
  intros nS nA. unfold shape, qzero. split; [apply repeat_length|].
  apply Forall_forall. intros r Hr. apply repeat_spec in Hr. subst r. apply repeat_length.
Qed.

Lemma shape_row : forall nS nA q s, shape nS nA q -> (s < nS)%nat -> length (row q s) = nA.
Proof.
  intros nS nA q s [Hl Hr] Hs. unfold row.
  apply (proj1 (Forall_forall _ _) Hr). apply nth_In. lia.
Qed.

(* ---------------------------------------------------------------- the convex-combination step *)
Section Box.
  Variables (g rmin rmax lo hi : Q).
  Hypothesis Hg0 : 0 <= g.
  Hypothesis Hlo : lo == rmin + g * lo.
  Hypothesis Hhi : hi == rmax + g * hi.

  Lemma conv_box : forall k old t r, 0 <= k -> k <= 1 -> lo <= old -> old <= hi -> lo <= t -> t <= hi ->
    rmin <= r -> r <= rmax -> lo <= old + k * (r + g * t - old) /\ old + k * (r + g * t - old) <= hi.
  Proof.
    intros k old t r Hk0 Hk1 Ho1 Ho2 Ht1 Ht2 Hr1 Hr2.
    assert (X1 : lo <= r + g * t) by nra.
    assert (X2 : r + g * t <= hi) by nra.
    set (x := r + g * t) in *. clearbody x. split; nra.
  Qed.
End Box.

Lemma box_ends : forall g r, g < 1 -> r / (1 - g) == r + g * (r / (1 - g)).
Proof. intros g r Hg. field. lra. Qed.

Lemma box_sign : forall g rmin rmax, g < 1 -> rmin <= 0 -> 0 <= rmax ->
  rmin / (1 - g) <= 0 /\ 0 <= rmax / (1 - g).
Proof.
  intros g rmin rmax Hg H1 H2.
  assert (Hp : 0 < / (1 - g)) by (apply Qinv_lt_0_compat; lra).
  unfold Qdiv. split; nra.
Qed.

Lemma maxl_row_box : forall lo hi q s, lo <= 0 -> 0 <= hi -> boxed lo hi q ->
  lo <= maxl (row q s) /\ maxl (row q s) <= hi.
Proof.
  intros lo hi q s Hl Hh Hb. destruct (row q s) as [|x r] eqn:E; [cbn [maxl]; split; assumption|].
  destruct (maxl_attained (x :: r)) as [y [Hy Ey]]; [discriminate|].
  destruct (In_nth _ y 0 Hy) as [a [Ha Ea]]. specialize (Hb s a). unfold qget, nthq in Hb.
  rewrite E, Ea in Hb. rewrite Ey. exact Hb.
Qed.

Lemma fold_left_inv : forall (S E : Type) (f : S -> E -> S) (P : S -> Prop) (Pe : E -> Prop) hist st,
  (forall st e, Pe e -> P st -> P (f st e)) -> Forall Pe hist -> P st -> P (fold_left f hist st).
Proof.
  intros S E f P Pe hist. induction hist as [|e hist IH]; intros st Hstep Hall Hst; cbn [fold_left]; [exact Hst|].
  inversion Hall; subst. apply IH; auto.
Qed.

(* ---------------------------------------------------------------- QLearning / SARSA / Hysteretic *)
Section OneStep.
  Variables (g rmin rmax : Q).
  Hypothesis Hg0 : 0 < g.
  Hypothesis Hg1 : g < 1.
  Hypothesis Hrmin : rmin <= 0.
  Hypothesis Hrmax : 0 <= rmax.
  Let lo := rmin / (1 - g).
  Let hi := rmax / (1 - g).

  Local Lemma lo_le0 : lo <= 0. Proof. exact (proj1 (box_sign g rmin rmax Hg1 Hrmin Hrmax)). Qed.
  Local Lemma hi_ge0 : 0 <= hi. Proof. exact (proj2 (box_sign g rmin rmax Hg1 Hrmin Hrmax)). Qed.
  Local Lemma cb : forall k old t r, 0 <= k -> k <= 1 -> lo <= old -> old <= hi -> lo <= t -> t <= hi ->
    rmin <= r -> r <= rmax -> lo <= old + k * (r + g * t - old) /\ old + k * (r + g * t - old) <= hi.
  Proof.
    apply (conv_box g rmin rmax lo hi); [lra| apply box_ends; exact Hg1 | apply box_ends; exact Hg1].
  Qed.

  Lemma ql_step_boxed : forall alpha q s a s1 r, 0 < alpha -> alpha <= 1 -> rmin <= r -> r <= rmax ->
    boxed lo hi q -> boxed lo hi (ql_step alpha g q (s, a, s1, r)).
  Proof.
    intros alpha q s a s1 r Ha0 Ha1 Hr1 Hr2 Hb. cbn [ql_step].
    destruct (maxl_row_box lo hi q s1 lo_le0 hi_ge0 Hb) as [M1 M2]. destruct (Hb s a) as [O1 O2].
    destruct (cb alpha (qget q s a) (maxl (row q s1)) r) as [L U]; try assumption; try lra.
    apply boxed_upd2; assumption.
  Qed.

  Lemma sarsa_step_boxed : forall alpha q s a s1 a1 r, 0 < alpha -> alpha <= 1 -> rmin <= r -> r <= rmax ->
    boxed lo hi q -> boxed lo hi (sarsa_step alpha g q (s, a, s1, a1, r)).
  Proof.
    intros alpha q s a s1 a1 r Ha0 Ha1 Hr1 Hr2 Hb. cbn [sarsa_step].
    destruct (Hb s1 a1) as [M1 M2]. destruct (Hb s a) as [O1 O2].
    destruct (cb alpha (qget q s a) (qget q s1 a1) r) as [L U]; try assumption; try lra.
    apply boxed_upd2; assumption.
  Qed.

  Lemma hyst_step_boxed : forall alpha beta q s a s1 r, 0 < alpha -> alpha <= 1 -> 0 <= beta -> beta <= 1 ->
    rmin <= r -> r <= rmax -> boxed lo hi q -> boxed lo hi (hyst_step alpha beta g q (s, a, s1, r)).
  Proof.
    intros alpha beta q s a s1 r Ha0 Ha1 Hb0 Hb1 Hr1 Hr2 Hb. cbn [hyst_step].
    destruct (maxl_row_box lo hi q s1 lo_le0 hi_ge0 Hb) as [M1 M2]. destruct (Hb s a) as [O1 O2].
    destruct (cb alpha (qget q s a) (maxl (row q s1)) r) as [L U]; try assumption; try lra.
    destruct (cb beta (qget q s a) (maxl (row q s1)) r) as [L' U']; try assumption; try lra.
    destruct (Qle_bool 0 _); apply boxed_upd2; assumption.
  Qed.

  (* ---- ExpectedSARSA: the target is a convex combination of the row *)
  Lemma dotl_acc : forall p v acc,
    fold_left (fun acc pq => acc + fst pq * snd pq) (combine p v) acc == acc + dot p v.
  Proof.
    induction p as [|x p IH]; intros [|y v] acc; cbn [combine fold_left dot]; try lra.
    rewrite IH. cbn [fst snd]. lra.
  Qed.

  Lemma dotl_dot : forall p v, dotl p v == dot p v.
  Proof. intros p v. unfold dotl. rewrite dotl_acc. lra. Qed.

  Lemma dot_box : forall p v, length p = length v -> nonneg p ->
    Forall (fun x => lo <= x /\ x <= hi) v -> lo * qsum p <= dot p v /\ dot p v <= hi * qsum p.
  Proof.
    induction p as [|x p IH]; intros [|y v] Hlen Hp Hv; cbn [length] in Hlen; try discriminate; cbn [dot qsum]; [split; lra|].
    inversion Hp as [|? ? Hx Hp']; subst. inversion Hv as [|? ? [Hy1 Hy2] Hv']; subst.
    destruct (IH v) as [L U]; [lia| assumption| assumption|]. split; nra.
  Qed.

  Lemma row_box : forall q s, boxed lo hi q -> Forall (fun x => lo <= x /\ x <= hi) (row q s).
  Proof.
    intros q s Hb. apply Forall_forall. intros x Hx. destruct (In_nth _ x 0 Hx) as [a [Ha Ea]].
    specialize (Hb s a). unfold qget, nthq in Hb. rewrite Ea in Hb. exact Hb.
  Qed.

  Lemma esarsa_step_boxed : forall nS nA alpha q s a s1 r prow, 0 < alpha -> alpha <= 1 ->
    rmin <= r -> r <= rmax -> (s1 < nS)%nat -> simplex nA prow -> shape nS nA q ->
    boxed lo hi q -> boxed lo hi (esarsa_step alpha g q (s, a, s1, r, prow)).
  Proof.
    intros nS nA alpha q s a s1 r prow Ha0 Ha1 Hr1 Hr2 Hs1 [Hlen [Hnn Hsum]] Hsh Hb. cbn [esarsa_step].
    destruct (dot_box prow (row q s1)) as [M1 M2];
      [rewrite (shape_row nS nA q s1 Hsh Hs1); exact Hlen | exact Hnn | apply row_box; exact Hb |].
    rewrite Hsum in M1, M2. destruct (Hb s a) as [O1 O2].
    destruct (cb alpha (qget q s a) (dotl prow (row q s1)) r) as [L U]; try assumption; try lra;
      try (rewrite dotl_dot; lra).
    apply boxed_upd2; assumption.
  Qed.

  (* ---- DoubleQLearning: qa and qb = qc - qa both stay in the box *)
  Lemma dq_step_boxed : forall nS nA alpha qa qc coin s a s1 r, 0 < alpha -> alpha <= 1 ->
    rmin <= r -> r <= rmax -> (s < nS)%nat -> (a < nA)%nat ->
    shape nS nA qa -> shape nS nA qc -> boxed2 lo hi qa qc ->
    let st' := dq_step alpha g (qa, qc) (coin, s, a, s1, r) in
    shape nS nA (fst st') /\ shape nS nA (snd st') /\ boxed2 lo hi (fst st') (snd st').
  Proof.
    intros nS nA alpha qa qc coin s a s1 r Ha0 Ha1 Hr1 Hr2 Hs Ha Sa Sc Hb. cbn [dq_step].
    assert (Ia : (s < length qa)%nat /\ (a < length (row qa s))%nat)
      by (split; [destruct Sa as [-> _]; exact Hs | rewrite (shape_row nS nA qa s Sa Hs); exact Ha]).
    assert (Ic : (s < length qc)%nat /\ (a < length (row qc s))%nat)
      by (split; [destruct Sc as [-> _]; exact Hs | rewrite (shape_row nS nA qc s Sc Hs); exact Ha]).
    destruct coin; cbn [fst snd].
    - set (a1 := fst (argmax (row qa s1))).
      split; [apply shape_upd2; exact Sa|]. split; [apply shape_upd2; exact Sc|].
      intros s' a'. rewrite (qget_upd2_in qa s a _ s' a' (proj1 Ia) (proj2 Ia)).
      rewrite (qget_upd2_in qc s a _ s' a' (proj1 Ic) (proj2 Ic)).
      destruct (Nat.eqb s' s && Nat.eqb a' a); [| apply Hb].
      destruct (Hb s a) as [[A1 A2] [B1 B2]]. destruct (Hb s1 a1) as [_ [T1 T2]].
      destruct (cb alpha (qget qa s a) (qget qc s1 a1 - qget qa s1 a1) r) as [L U]; try assumption; try lra.
    - set (a1 := fst (argmax (vsub (row qc s1) (row qa s1)))).
      split; [exact Sa|]. split; [apply shape_upd2; exact Sc|].
      intros s' a'. rewrite (qget_upd2_in qc s a _ s' a' (proj1 Ic) (proj2 Ic)).
      destruct (Nat.eqb_spec s' s) as [->|Hne]; cbn [andb]; [| apply Hb].
      destruct (Nat.eqb_spec a' a) as [->|Hna]; [| apply Hb].
      destruct (Hb s a) as [[A1 A2] [B1 B2]]. destruct (Hb s1 a1) as [[T1 T2] _].
      destruct (cb alpha (qget qc s a - qget qa s a) (qget qa s1 a1) r) as [L U]; try assumption; try lra.
  Qed.
End OneStep.

(* ---------------------------------------------------------------- history theorems *)
Lemma ql_bounded_lemma : forall nS nA alpha g rmin rmax hist,
  (0 < nA)%nat -> 0 < alpha -> alpha <= 1 -> 0 < g -> g < 1 -> rmin <= 0 -> 0 <= rmax ->
  Forall (fun e : nat * nat * nat * Q => let '(s, a, s1, r) := e in
            (s < nS)%nat /\ (a < nA)%nat /\ (s1 < nS)%nat /\ rmin <= r /\ r <= rmax) hist ->
  in_box (rmin / (1 - g)) (rmax / (1 - g))
         (fold_left (ql_step alpha g) hist (repeat (repeat 0 nA) nS)).
Proof.
  intros nS nA alpha g rmin rmax hist HnA Ha0 Ha1 Hg0 Hg1 Hmin Hmax Hall.
  apply boxed_in_box.
  refine (fold_left_inv _ _ (ql_step alpha g) (boxed (rmin / (1 - g)) (rmax / (1 - g))) _ hist _ _ Hall _).
  - intros q [[[s a] s1] r] (_ & _ & _ & Hr1 & Hr2) Hb. apply ql_step_boxed; assumption.
  - destruct (box_sign g rmin rmax Hg1 Hmin Hmax). apply (boxed_qzero _ _ nS nA); assumption.
Qed.

Lemma sarsa_bounded_lemma : forall nS nA alpha g rmin rmax hist,
  0 < alpha -> alpha <= 1 -> 0 < g -> g < 1 -> rmin <= 0 -> 0 <= rmax ->
  Forall (exp5_ok nS nA rmin rmax) hist ->
  in_box (rmin / (1 - g)) (rmax / (1 - g)) (fold_left (sarsa_step alpha g) hist (qzero nS nA)).
Proof.
  intros nS nA alpha g rmin rmax hist Ha0 Ha1 Hg0 Hg1 Hmin Hmax Hall.
  apply boxed_in_box.
  refine (fold_left_inv _ _ (sarsa_step alpha g) (boxed (rmin / (1 - g)) (rmax / (1 - g))) _ hist _ _ Hall _).
  - intros q [[[[s a] s1] a1] r] (_ & _ & _ & _ & Hr1 & Hr2) Hb. apply sarsa_step_boxed; assumption.
  - destruct (box_sign g rmin rmax Hg1 Hmin Hmax). apply boxed_qzero; assumption.
Qed.

Lemma hysteretic_bounded_lemma : forall nS nA alpha beta g rmin rmax hist,
  0 < alpha -> alpha <= 1 -> 0 <= beta -> beta <= 1 -> 0 < g -> g < 1 -> rmin <= 0 -> 0 <= rmax ->
  Forall (exp_ok nS nA rmin rmax) hist ->
  in_box (rmin / (1 - g)) (rmax / (1 - g)) (fold_left (hyst_step alpha beta g) hist (qzero nS nA)).
Proof.
  intros nS nA alpha beta g rmin rmax hist Ha0 Ha1 Hb0 Hb1 Hg0 Hg1 Hmin Hmax Hall.
  apply boxed_in_box.
  refine (fold_left_inv _ _ (hyst_step alpha beta g) (boxed (rmin / (1 - g)) (rmax / (1 - g))) _ hist _ _ Hall _).
  - intros q [[[s a] s1] r] (_ & _ & _ & Hr1 & Hr2) Hb. apply hyst_step_boxed; assumption.
  - destruct (box_sign g rmin rmax Hg1 Hmin Hmax). apply boxed_qzero; assumption.
Qed.

Lemma expected_sarsa_bounded_lemma : forall nS nA alpha g rmin rmax hist,
  0 < alpha -> alpha <= 1 -> 0 < g -> g < 1 -> rmin <= 0 -> 0 <= rmax ->
  Forall (expE_ok nS nA rmin rmax) hist ->
  in_box (rmin / (1 - g)) (rmax / (1 - g)) (fold_left (esarsa_step alpha g) hist (qzero nS nA)).
Proof.
  intros nS nA alpha g rmin rmax hist Ha0 Ha1 Hg0 Hg1 Hmin Hmax Hall.
  apply boxed_in_box.
  refine (proj2 (fold_left_inv _ _ (esarsa_step alpha g) (fun q => shape nS nA q /\ boxed (rmin / (1 - g)) (rmax / (1 - g)) q) _ hist _ _ Hall _)).
  - intros q [[[[s a] s1] r] prow] (_ & _ & Hs1 & Hr1 & Hr2 & Hp) [Hsh Hb]. split.
    + cbn [esarsa_step]. apply shape_upd2; exact Hsh.
    + eapply esarsa_step_boxed; eassumption.
  - split; [apply shape_qzero|].
    destruct (box_sign g rmin rmax Hg1 Hmin Hmax). apply boxed_qzero; assumption.
Qed.

Lemma doubleq_bounded_lemma : forall nS nA alpha g rmin rmax hist,
  0 < alpha -> alpha <= 1 -> 0 < g -> g < 1 -> rmin <= 0 -> 0 <= rmax ->
  Forall (expD_ok nS nA rmin rmax) hist ->
  let st := fold_left (dq_step alpha g) hist (qzero nS nA, qzero nS nA) in
  boxed2 (rmin / (1 - g)) (rmax / (1 - g)) (fst st) (snd st).
Proof.
  intros nS nA alpha g rmin rmax hist Ha0 Ha1 Hg0 Hg1 Hmin Hmax Hall. cbv zeta.
  refine (proj2 (proj2 (fold_left_inv _ _ (dq_step alpha g) (fun st => shape nS nA (fst st) /\ shape nS nA (snd st) /\
                      boxed2 (rmin / (1 - g)) (rmax / (1 - g)) (fst st) (snd st)) _ hist _ _ Hall _))).
  - intros [qa qc] [[[[coin s] a] s1] r] (Hs & Ha & _ & Hr1 & Hr2) (Sa & Sc & Hb). cbn [fst snd] in *.
    eapply dq_step_boxed; eassumption.
  - cbn [fst snd]. split; [apply shape_qzero|]. split; [apply shape_qzero|].
    destruct (box_sign g rmin rmax Hg1 Hmin Hmax). intros s a. rewrite !qget_qzero. split; split; lra.
Qed.
