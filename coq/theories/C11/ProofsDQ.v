(* C11/ProofsDQ.v — round 6: DoubleQLearning applies its documented rule on (A, B = qc - qa), and
   Q* is a fixed point IN EXPECTATION over the successor state on any (stochastic) MDP. *)
From Coq Require Import List Arith QArith Qminmax Lqa Lia Bool.
From AIT Require Import Base.Qx Base.Mdp C11.Model C11.Spec C11.SpecDQ C11.Proofs C11.ProofsTraces C11.ProofsPS C11.ProofsFix.
Import ListNotations.
Local Open Scope Q_scope.

Lemma eqb_pair_false : forall x y s a : nat, (x, y) <> (s, a) -> Nat.eqb x s && Nat.eqb y a = false.
Proof.
  intros x y s a H. destruct (Nat.eqb_spec x s) as [->|]; cbn [andb]; [| reflexivity].
  destruct (Nat.eqb_spec y a) as [->|]; [| reflexivity]. exfalso; apply H; reflexivity.
Qed.

Lemma dq_documented_lemma : forall nS nA alpha g qa qc coin s a s1 r,
  (0 < nA)%nat -> shape nS nA qa -> shape nS nA qc -> (s < nS)%nat -> (a < nA)%nat -> (s1 < nS)%nat ->
  dq_documented nA alpha g (qa, qc) (dq_step alpha g (qa, qc) (coin, s, a, s1, r)) coin s a s1 r.
Proof.
  intros nS nA alpha g qa qc coin s a s1 r HnA Sa Sc Hs Ha Hs1.
  assert (La : length (row qa s1) = nA) by (apply (shape_row _ _ qa s1 Sa Hs1)).
  assert (Lc : length (row qc s1) = nA) by (apply (shape_row _ _ qc s1 Sc Hs1)).
  assert (Ia : (s < length qa)%nat /\ (a < length (row qa s))%nat)
    by (split; [destruct Sa as [-> _]; exact Hs | rewrite (shape_row nS nA qa s Sa Hs); exact Ha]).
  assert (Ic : (s < length qc)%nat /\ (a < length (row qc s))%nat)
    by (split; [destruct Sc as [-> _]; exact Hs | rewrite (shape_row nS nA qc s Sc Hs); exact Ha]).
  unfold dq_documented, dq_a, dq_b. cbn [dq_step]. destruct coin; cbn [fst snd].
  - assert (Hne : row qa s1 <> []) by (intros C; rewrite C in La; cbn in La; lia).
    pose proof (argmax_spec (row qa s1) Hne) as Harg. destruct (argmax (row qa s1)) as [a1 mx].
    destruct Harg as (Hj & E1 & E2). cbn [fst]. exists a1.
    split; [split; [lia|]|].
    { intros j Hj'. unfold qget, nthq. rewrite <- E2, E1. apply maxl_ub. apply nth_In. lia. }
    split; [| split].
    + rewrite (qget_upd2_in qa s a _ s a (proj1 Ia) (proj2 Ia)). rewrite !Nat.eqb_refl. cbn [andb]. reflexivity.
    + intros x y Hxy. rewrite (qget_upd2_in qa s a _ x y (proj1 Ia) (proj2 Ia)).
      rewrite (eqb_pair_false x y s a Hxy). reflexivity.
    + intros x y. rewrite (qget_upd2_in qa s a _ x y (proj1 Ia) (proj2 Ia)).
      rewrite (qget_upd2_in qc s a _ x y (proj1 Ic) (proj2 Ic)).
      destruct (Nat.eqb_spec x s) as [->|]; cbn [andb]; [| reflexivity].
      destruct (Nat.eqb_spec y a) as [->|]; [| reflexivity]. ring.
  - set (d := vsub (row qc s1) (row qa s1)).
    assert (Ld : length d = nA) by (unfold d; rewrite vsub_length; lia).
    assert (Hned : d <> []) by (intros C; rewrite C in Ld; cbn in Ld; lia).
    assert (Hd_i : forall i, (i < nA)%nat -> nth i d 0 == qget qc s1 i - qget qa s1 i).
    { intros i Hi. unfold d. rewrite nth_vsub by lia. unfold qget, nthq. reflexivity. }
    pose proof (argmax_spec d Hned) as Harg. destruct (argmax d) as [a1 mx].
    destruct Harg as (Hj & E1 & E2). cbn [fst]. exists a1.
    split; [split; [lia|]|].
    { intros j Hj'. rewrite <- (Hd_i j Hj'), <- (Hd_i a1) by lia. rewrite <- E2, E1.
      apply maxl_ub. apply nth_In. lia. }
    split; [| split].
    + rewrite (qget_upd2_in qc s a _ s a (proj1 Ic) (proj2 Ic)). rewrite !Nat.eqb_refl. cbn [andb]. ring.
    + intros x y Hxy. rewrite (qget_upd2_in qc s a _ x y (proj1 Ic) (proj2 Ic)).
      rewrite (eqb_pair_false x y s a Hxy). reflexivity.
    + intros x y. reflexivity.
Qed.

Lemma argmax_is_maxl : forall (l : vec) a1, (a1 < length l)%nat ->
  (forall j, (j < length l)%nat -> nth j l 0 <= nth a1 l 0) -> nth a1 l 0 == maxl l.
Proof.
  intros l a1 Ha H. apply Qle_antisym.
  - apply maxl_ub. apply nth_In. exact Ha.
  - apply maxl_le.
    + intros C. rewrite C in Ha. cbn in Ha. lia.
    + intros y Hy. apply (In_nth _ _ 0) in Hy. destruct Hy as (j & Hj & <-). apply H. exact Hj.
Qed.

(* with qa = qb (qc = 2 qa) both branches move the updated table by alpha (r + g max_a' qa(s1,a') - qa(s,a)) *)
Lemma dq_star_entry : forall nS nA alpha g qa qc coin s a s1 r,
  (0 < nA)%nat -> shape nS nA qa -> shape nS nA qc -> (s < nS)%nat -> (a < nA)%nat -> (s1 < nS)%nat ->
  (forall x y, qget qc x y == qget qa x y + qget qa x y) ->
  qget (fst (dq_step alpha g (qa, qc) (coin, s, a, s1, r))) s a ==
    qget qa s a + (if coin then alpha * (r + g * maxl (row qa s1) - qget qa s a) else 0) /\
  qget (snd (dq_step alpha g (qa, qc) (coin, s, a, s1, r))) s a ==
    qget qc s a + alpha * (r + g * maxl (row qa s1) - qget qa s a).
Proof.
  intros nS nA alpha g qa qc coin s a s1 r HnA Sa Sc Hs Ha Hs1 Hc.
  pose proof (dq_documented_lemma nS nA alpha g qa qc coin s a s1 r HnA Sa Sc Hs Ha Hs1) as D.
  assert (La : length (row qa s1) = nA) by (apply (shape_row _ _ qa s1 Sa Hs1)).
  unfold dq_documented, dq_a, dq_b, row_argmax in D. cbn [fst snd] in D.
  set (st' := dq_step alpha g (qa, qc) (coin, s, a, s1, r)) in *.
  destruct coin; destruct D as (a1 & (Hlt & Hmax) & Hupd & _ & Hoth).
  - assert (T : qget qc s1 a1 - qget qa s1 a1 == maxl (row qa s1)).
    { assert (M : nth a1 (row qa s1) 0 == maxl (row qa s1))
        by (apply argmax_is_maxl; rewrite La; [exact Hlt| intros j Hj; apply Hmax; exact Hj]).
      rewrite (Hc s1 a1). unfold qget, nthq in *. lra. }
    rewrite T in Hupd. pose proof (Hoth s a) as Hb. split; [exact Hupd|]. lra.
  - assert (Hmax' : forall j, (j < nA)%nat -> qget qa s1 j <= qget qa s1 a1).
    { intros j Hj. pose proof (Hmax j Hj) as X. rewrite (Hc s1 j), (Hc s1 a1) in X. lra. }
    assert (T : qget qa s1 a1 == maxl (row qa s1)).
    { unfold qget, nthq. apply argmax_is_maxl; rewrite La; [exact Hlt| exact Hmax']. }
    rewrite T in Hupd. pose proof (Hoth s a) as Hb. rewrite (Hc s a) in Hupd. split; [lra|].
    rewrite (Hc s a). lra.
Qed.

Lemma dot_map_affine : forall (A : Type) (h f : A -> Q) c0 c1 (l : list A) (p : vec),
  length p = length l -> (forall x, In x l -> f x == c0 + c1 * h x) ->
  dot p (map f l) == c0 * qsum p + c1 * dot p (map h l).
Proof.
  induction l as [|x l IH]; intros [|y p] Hl H; cbn [length] in Hl; try discriminate; cbn [map dot qsum]; try lra.
  rewrite (IH p) by (try lia; intros z Hz; apply H; right; exact Hz).
  rewrite (H x (or_introl eq_refl)). ring.
Qed.

(* FULL-STRENGTH fixed point: any well-formed (stochastic) MDP, both tables at Q*: for either coin, the
   sample average over s1 ~ T(s,a,.) of the updated entries equals the old entries (all other entries are
   not written at all: dq_documented). The deterministic clause doubleq_optimal_fixpoint is the special
   case of a point-mass row. *)
Lemma doubleq_optimal_expected_fixpoint_lemma : forall m alpha qa qc coin s a,
  wf_mdp m -> is_qstar m qa -> shape (nS m) (nA m) qa -> shape (nS m) (nA m) qc ->
  (forall x y, qget qc x y == qget qa x y + qget qa x y) ->
  (s < nS m)%nat -> (a < nA m)%nat ->
  let nxt := fun s1 => dq_step alpha (gam m) (qa, qc) (coin, s, a, s1, nthq (row (R m) s) a) in
  dq_expected m s a (fun s1 => qget (fst (nxt s1)) s a) == qget qa s a /\
  dq_expected m s a (fun s1 => qget (snd (nxt s1)) s a) == qget qc s a.
Proof.
  intros m alpha qa qc coin s a Hwf Hq Sa Sc Hc Hs Ha nxt.
  destruct Hwf as (_ & HnA & _ & _ & _ & _ & _ & Hsim & _).
  destruct (Hsim a s Ha Hs) as [Lp [_ Hsum]]. fold (trow m s a) in Lp, Hsum.
  set (r := nthq (row (R m) s) a) in *.
  assert (EV : map (fun s1 => maxl (row qa s1)) (seq 0 (nS m)) = map maxl qa).
  { transitivity (map (fun i => nth i (map maxl qa) 0) (seq 0 (length (map maxl qa)))); [| symmetry; apply list_map_nth].
    rewrite map_length. destruct Sa as [-> _]. apply map_ext. intros i. symmetry. apply nthq_map_maxl. }
  pose proof (Hq s a Hs Ha) as HX. unfold q_of in HX. fold r in HX.
  set (D := dot (trow m s a) (map maxl qa)) in *.
  assert (Hl : length (trow m s a) = length (seq 0 (nS m))) by (rewrite seq_length; exact Lp).
  unfold dq_expected. split.
  - rewrite (dot_map_affine nat (fun s1 => maxl (row qa s1)) _
               (qget qa s a + (if coin then alpha * (r - qget qa s a) else 0))
               (if coin then alpha * gam m else 0) _ _ Hl).
    + rewrite EV, Hsum. fold D. destruct coin; rewrite HX; ring.
    + intros s1 Hin. apply in_seq in Hin.
      destruct (dq_star_entry (nS m) (nA m) alpha (gam m) qa qc coin s a s1 r HnA Sa Sc Hs Ha) as [E _];
        [lia| exact Hc|]. unfold nxt. rewrite E. destruct coin; ring.
  - rewrite (dot_map_affine nat (fun s1 => maxl (row qa s1)) _
               (qget qc s a + alpha * (r - qget qa s a)) (alpha * gam m) _ _ Hl).
    + rewrite EV, Hsum. fold D. rewrite HX; ring.
    + intros s1 Hin. apply in_seq in Hin.
      destruct (dq_star_entry (nS m) (nA m) alpha (gam m) qa qc coin s a s1 r HnA Sa Sc Hs Ha) as [_ E];
        [lia| exact Hc|]. unfold nxt. rewrite E. ring.
Qed.

(* soundness of the driver's checker: on the cells of an nS x nA table it is the documented rule *)
Lemma dq_documentedb_sound : forall nS nA alpha g st st' coin s a s1 r,
  dq_documentedb nS nA alpha g st st' coin s a s1 r = true ->
  exists a1,
    row_argmax nA ((if coin then dq_a else dq_b) st s1) a1 /\
    (if coin then dq_a else dq_b) st' s a ==
      (if coin then dq_a else dq_b) st s a +
      alpha * (r + g * (if coin then dq_b else dq_a) st s1 a1 - (if coin then dq_a else dq_b) st s a) /\
    (forall x y, (x < nS)%nat -> (y < nA)%nat -> (x, y) <> (s, a) ->
       (if coin then dq_a else dq_b) st' x y == (if coin then dq_a else dq_b) st x y) /\
    (forall x y, (x < nS)%nat -> (y < nA)%nat ->
       (if coin then dq_b else dq_a) st' x y == (if coin then dq_b else dq_a) st x y).
Proof.
  intros nS nA alpha g st st' coin s a s1 r H. unfold dq_documentedb in H. cbv zeta in H.
  apply andb_prop in H. destruct H as [H H3]. apply andb_prop in H. destruct H as [H1 H2].
  apply existsb_exists in H1. destruct H1 as (a1 & Hin & Ha1). apply andb_prop in Ha1. destruct Ha1 as [Hmax Hupd].
  apply in_seq in Hin. rewrite forallb_forall in Hmax, H2, H3.
  assert (Hcell : forall x y, (x < nS)%nat -> (y < nA)%nat -> In (x, y) (list_prod (seq 0 nS) (seq 0 nA)))
    by (intros x y Hx Hy; apply in_prod; apply in_seq; lia).
  exists a1. split; [split; [lia|]| split; [| split]].
  - intros j Hj. apply Qle_bool_iff. apply Hmax. apply in_seq. lia.
  - apply Qeq_bool_iff. exact Hupd.
  - intros x y Hx Hy Hne. pose proof (H2 (x, y) (Hcell x y Hx Hy)) as E. cbn [fst snd] in E.
    apply orb_prop in E. destruct E as [E|E]; [| apply Qeq_bool_iff; exact E].
    exfalso. unfold pair_eqb in E. cbn [fst snd] in E. apply andb_prop in E. destruct E as [E1 E2].
    apply Nat.eqb_eq in E1, E2. subst. apply Hne. reflexivity.
  - intros x y Hx Hy. pose proof (H3 (x, y) (Hcell x y Hx Hy)) as E. cbn [fst snd] in E.
    apply Qeq_bool_iff. exact E.
Qed.
