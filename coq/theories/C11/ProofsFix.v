(* C11/ProofsFix.v — fixed-point clauses of the one-step learners and DynaQ's boundedness. *)
From Coq Require Import List Arith QArith Qminmax Lqa Lia Bool.
From AIT Require Import Base.Qx Base.Mdp C11.Model C11.Spec C11.Proofs C11.ProofsTraces C11.ProofsPS.
Import ListNotations.
Local Open Scope Q_scope.

(* a sample consistent with the table's own one-step target leaves the table unchanged *)
Lemma ql_consistent_fix : forall alpha g q s a s1 r,
  qget q s a == r + g * maxl (row q s1) -> qeqv (ql_step alpha g q (s, a, s1, r)) q.
Proof.
  intros alpha g q s a s1 r H. cbn [ql_step]. apply upd2_same_value.
  setoid_replace (r + g * maxl (row q s1) - qget q s a) with 0 by lra. lra.
Qed.

Lemma hyst_consistent_fix : forall alpha beta g q s a s1 r,
  qget q s a == r + g * maxl (row q s1) -> qeqv (hyst_step alpha beta g q (s, a, s1, r)) q.
Proof.
  intros alpha beta g q s a s1 r H. cbn [hyst_step].
  destruct (Qle_bool 0 _); apply upd2_same_value;
    setoid_replace (r + g * maxl (row q s1) - qget q s a) with 0 by lra; lra.
Qed.

Lemma sarsa_consistent_fix : forall alpha g q s a s1 a1 r,
  qget q s a == r + g * qget q s1 a1 -> qeqv (sarsa_step alpha g q (s, a, s1, a1, r)) q.
Proof.
  intros alpha g q s a s1 a1 r H. cbn [sarsa_step]. apply upd2_same_value.
  setoid_replace (r + g * qget q s1 a1 - qget q s a) with 0 by lra. lra.
Qed.

Lemma esarsa_consistent_fix : forall alpha g q s a s1 r prow,
  qget q s a == r + g * dot prow (row q s1) -> qeqv (esarsa_step alpha g q (s, a, s1, r, prow)) q.
Proof.
  intros alpha g q s a s1 r prow H. cbn [esarsa_step]. apply upd2_same_value. rewrite dotl_dot.
  setoid_replace (r + g * dot prow (row q s1) - qget q s a) with 0 by lra. lra.
Qed.

Lemma nthq_map_maxl : forall q s, nthq (map maxl q) s = maxl (row q s).
Proof. intros q s. unfold nthq, row. change 0 with (maxl []). apply map_nth. Qed.

(* deterministic MDP: Q* is a fixed point of QLearning / HystereticQLearning on every sample the MDP can produce *)
Lemma ql_optimal_fixpoint_lemma : forall m alpha q s a s1,
  is_qstar m q -> (s < nS m)%nat -> (a < nA m)%nat -> det_at m s a s1 ->
  qeqv (ql_step alpha (gam m) q (s, a, s1, nthq (row (R m) s) a)) q.
Proof.
  intros m alpha q s a s1 Hq Hs Ha Hd. apply ql_consistent_fix.
  rewrite (Hq s a Hs Ha). unfold q_of. rewrite (Hd (map maxl q)), nthq_map_maxl. reflexivity.
Qed.

Lemma hysteretic_optimal_fixpoint_lemma : forall m alpha beta q s a s1,
  is_qstar m q -> (s < nS m)%nat -> (a < nA m)%nat -> det_at m s a s1 ->
  qeqv (hyst_step alpha beta (gam m) q (s, a, s1, nthq (row (R m) s) a)) q.
Proof.
  intros m alpha beta q s a s1 Hq Hs Ha Hd. apply hyst_consistent_fix.
  rewrite (Hq s a Hs Ha). unfold q_of. rewrite (Hd (map maxl q)), nthq_map_maxl. reflexivity.
Qed.

(* ---------------------------------------------------------------- DynaQ *)
Lemma dyna_batch_boxed : forall g rmin rmax alpha draws st st',
  0 < g -> g < 1 -> rmin <= 0 -> 0 <= rmax -> 0 < alpha -> alpha <= 1 ->
  Forall (fun x : nat * nat * Q => rmin <= snd x /\ snd x <= rmax) draws ->
  boxed (rmin / (1 - g)) (rmax / (1 - g)) (fst st) -> dyna_batch alpha g st draws = Some st' ->
  boxed (rmin / (1 - g)) (rmax / (1 - g)) (fst st').
Proof.
  intros g rmin rmax alpha draws. induction draws as [|[[i s1] r] rest IH];
    intros st st' Hg0 Hg1 Hmin Hmax Ha0 Ha1 Hall Hb H; cbn [dyna_batch] in H.
  - inversion H; subst; exact Hb.
  - destruct (snd st) as [|p0 vis] eqn:Ev; [inversion H; subst; exact Hb|]. rewrite <- Ev in H.
    destruct (nth_error (snd st) i) as [[s a]|]; [| discriminate].
    inversion Hall as [|? ? [Hr1 Hr2] Hall']; subst. cbn [snd] in Hr1, Hr2.
    apply (IH _ _ Hg0 Hg1 Hmin Hmax Ha0 Ha1 Hall') in H; [exact H|]. cbn [fst].
    apply ql_step_boxed; assumption.
Qed.

Lemma dynaq_bounded_lemma : forall nS nA alpha g rmin rmax ops,
  0 < alpha -> alpha <= 1 -> 0 < g -> g < 1 -> rmin <= 0 -> 0 <= rmax ->
  Forall (dyna_op_ok rmin rmax) ops ->
  match fold_left (dyna_apply alpha g) ops (Some (qzero nS nA, [])) with
  | Some st => in_box (rmin / (1 - g)) (rmax / (1 - g)) (fst st)
  | None => True
  end.
Proof.
  intros nS nA alpha g rmin rmax ops Ha0 Ha1 Hg0 Hg1 Hmin Hmax Hall.
  refine (fold_left_inv _ _ (dyna_apply alpha g)
            (fun r => match r with Some st => in_box (rmin / (1 - g)) (rmax / (1 - g)) (fst st) | None => True end)
            _ ops _ _ Hall _).
  - destruct (box_sign g rmin rmax Hg1 Hmin Hmax) as [B1 B2].
    intros [st|] o Ho Hr; cbn [dyna_apply]; [| exact I]. apply (in_box_boxed _ _ _ B1 B2) in Hr.
    destruct o as [[[[s a] s1] r]|d].
    + destruct st as [q vis]. cbn [dyna_step fst]. apply boxed_in_box.
      destruct Ho. apply ql_step_boxed; assumption.
    + destruct (dyna_batch alpha g st d) as [st'|] eqn:E; [| exact I]. apply boxed_in_box.
      apply (dyna_batch_boxed g rmin rmax alpha d st st'); assumption.
  - cbn [fst]. apply boxed_in_box. destruct (box_sign g rmin rmax Hg1 Hmin Hmax). apply boxed_qzero; assumption.
Qed.

(* ---------------------------------------------------------------- DoubleQLearning at Q* *)
Lemma maxl_nth_ext : forall l l' : vec, length l = length l' -> l <> [] ->
  (forall i, (i < length l)%nat -> nth i l 0 == nth i l' 0) -> maxl l == maxl l'.
Proof.
  intros l l' Hlen Hne H. rewrite (list_map_nth l), (list_map_nth l'), <- Hlen.
  apply maxl_map_ext.
  - destruct l; [congruence| discriminate].
  - intros i Hi. apply in_seq in Hi. apply H. lia.
Qed.

Lemma vsub_length : forall a b, length a = length b -> length (vsub a b) = length a.
Proof. intros a b H. unfold vsub. rewrite map_length, combine_length. lia. Qed.

Lemma nth_vsub : forall a b i, length a = length b -> (i < length a)%nat ->
  nth i (vsub a b) 0 = nth i a 0 - nth i b 0.
Proof.
  unfold vsub. induction a as [|x a IH]; intros [|y b] i Hl Hi; cbn [length] in *; try lia.
  destruct i; cbn [combine map nth fst snd]; [reflexivity|]. apply IH; lia.
Qed.

(* both tables at the optimum (qa = qb = Qstar, i.e. qc = 2 Qstar): either coin leaves both tables unchanged *)
Lemma doubleq_optimal_fixpoint_lemma : forall m alpha qa qc coin s a s1,
  wf_mdp m -> is_qstar m qa -> shape (nS m) (nA m) qa -> shape (nS m) (nA m) qc ->
  (forall x y, qget qc x y == qget qa x y + qget qa x y) ->
  (s < nS m)%nat -> (a < nA m)%nat -> (s1 < nS m)%nat -> det_at m s a s1 ->
  let st' := dq_step alpha (gam m) (qa, qc) (coin, s, a, s1, nthq (row (R m) s) a) in
  qeqv (fst st') qa /\ qeqv (snd st') qc.
Proof.
  intros m alpha qa qc coin s a s1 Hwf Hq Sa Sc Hc Hs Ha Hs1 Hd.
  assert (HnA : (0 < nA m)%nat) by (destruct Hwf as (_ & ? & _); assumption).
  assert (La : length (row qa s1) = nA m) by (apply (shape_row _ _ qa s1 Sa Hs1)).
  assert (Lc : length (row qc s1) = nA m) by (apply (shape_row _ _ qc s1 Sc Hs1)).
  assert (Hne : row qa s1 <> []) by (intros C; rewrite C in La; cbn in La; lia).
  assert (Hfix : qget qa s a == nthq (row (R m) s) a + gam m * maxl (row qa s1)).
  { rewrite (Hq s a Hs Ha). unfold q_of. rewrite (Hd (map maxl qa)), nthq_map_maxl. reflexivity. }
  cbn [dq_step]. destruct coin; cbn [fst snd].
  - pose proof (argmax_spec (row qa s1) Hne) as Harg. destruct (argmax (row qa s1)) as [a1 mx].
    destruct Harg as (Hj & E1 & E2). cbn [fst].
    assert (T : qget qc s1 a1 - qget qa s1 a1 == maxl (row qa s1)).
    { rewrite (Hc s1 a1). unfold qget, nthq. rewrite <- E2, E1. lra. }
    assert (Z : nthq (row (R m) s) a + gam m * maxl (row qa s1) - qget qa s a == 0) by lra.
    split; apply upd2_same_value; rewrite T, Z; lra.
  - set (d := vsub (row qc s1) (row qa s1)).
    assert (Ld : length d = nA m) by (unfold d; rewrite vsub_length; lia).
    assert (Hned : d <> []) by (intros C; rewrite C in Ld; cbn in Ld; lia).
    assert (Hd_i : forall i, (i < nA m)%nat -> nth i d 0 == nth i (row qa s1) 0).
    { intros i Hi. unfold d. rewrite nth_vsub by lia. pose proof (Hc s1 i) as X. unfold qget, nthq in X. lra. }
    pose proof (argmax_spec d Hned) as Harg. destruct (argmax d) as [a1 mx].
    destruct Harg as (Hj & E1 & E2). cbn [fst].
    assert (T : qget qa s1 a1 == maxl (row qa s1)).
    { unfold qget, nthq. rewrite <- (Hd_i a1) by lia. rewrite <- E2, E1.
      apply maxl_nth_ext; [lia| exact Hned|]. intros i Hi. apply Hd_i. lia. }
    split; [intros x y; reflexivity|]. apply upd2_same_value. rewrite T.
    assert (Z : nthq (row (R m) s) a + gam m * maxl (row qa s1) - (qget qc s a - qget qa s a) == 0) by (rewrite (Hc s a); lra).
    rewrite Z. lra.
Qed.
