(* C11/ProofsSetters.v — SARSAL under its run-time setters (the cached gammaL_ stays lambda * discount),
   and the refutation of the unrepaired OffPolicyControl trace cut. *)
From Coq Require Import List Arith QArith Qminmax Lqa Lia Bool Permutation.
From AIT Require Import Base.Qx Base.Mdp C11.Model C11.Spec C11.Proofs C11.ProofsTraces.
Import ListNotations.
Local Open Scope Q_scope.

Definition le1 (tr : list trace) : Prop := Forall (fun t => tval t <= 1) tr.

(* lower bound needs no precondition: every kept trace was just compared with the cut-off *)
Lemma trace_loop_range2 : forall fuel s a err td tol done todo q nw,
  0 <= td -> td <= 1 -> tol <= 1 -> (length todo <= fuel)%nat -> traces_in tol done -> le1 todo ->
  traces_in tol (fst (fst (trace_loop fuel s a err td tol done todo q nw))).
Proof.
  induction fuel as [|fuel IH]; intros s a err td tol done todo q nw Htd0 Htd1 Htol Hlen Hd Ht; cbn [trace_loop].
  - destruct todo; [| cbn in Hlen; lia]. cbn [fst]. rewrite app_nil_r. exact Hd.
  - destruct todo as [|[[ss aa] el] rest]; [cbn [fst]; exact Hd|]. cbn [length] in Hlen.
    inversion Ht as [|? ? He Hrest]; subst. unfold tval in He; cbn [snd] in He.
    destruct (Nat.eqb ss s && Nat.eqb aa a).
    + apply IH; try assumption; [lia|]. apply Forall_app; split; [exact Hd|].
      constructor; [unfold tval; cbn [snd]; split; lra| constructor].
    + destruct (Qlt_le_dec (Qred (el * td)) tol) as [Hlt|Hge].
      * apply IH; try assumption; [rewrite swap_pop_length; lia|]. unfold le1.
        eapply Permutation_Forall; [apply Permutation_sym; apply swap_pop_perm| exact Hrest].
      * apply IH; try assumption; [lia|]. apply Forall_app; split; [exact Hd|].
        constructor; [| constructor]. unfold tval; cbn [snd]. rewrite Qred_correct in *. split; [exact Hge| nra].
Qed.

Lemma update_traces_range2 : forall s a err td tol q tr,
  0 <= td -> td <= 1 -> tol <= 1 -> le1 tr -> traces_in tol (snd (update_traces s a err td tol (q, tr))).
Proof.
  intros s a err td tol q tr Htd0 Htd1 Htol Htr. unfold update_traces.
  pose proof (trace_loop_range2 (length tr) s a err td tol [] tr q true Htd0 Htd1 Htol (le_n _) (Forall_nil _) Htr) as H.
  destruct (trace_loop (length tr) s a err td tol [] tr q true) as [[tr' q'] nw]. cbn [fst] in H.
  destruct nw; cbn [snd]; [| exact H].
  apply Forall_app; split; [exact H|]. constructor; [unfold tval; cbn [snd]; split; lra| constructor].
Qed.

Lemma traces_in_le1 : forall tol tr, traces_in tol tr -> le1 tr.
Proof. intros tol tr H. eapply Forall_impl; [| exact H]. intros t [_ U]; exact U. Qed.

Lemma prod01 : forall x y, 0 <= x -> x <= 1 -> 0 <= y -> y <= 1 -> 0 <= x * y /\ x * y <= 1.
Proof.
  intros x y X0 X1 Y0 Y1. assert (0 <= x * y) by (apply Qmult_le_0_compat; assumption).
  assert (0 <= (1 - y) * x) by (apply Qmult_le_0_compat; lra). split; lra.
Qed.

(* ---------------------------------------------------------------- setter histories *)
Definition sl_op_ok (o : sl_op) : Prop :=
  match o with
  | SlLambda l => 0 <= l /\ l <= 1
  | SlDiscount d => 0 <= d /\ d <= 1
  | SlTol t => t <= 1
  | _ => True
  end.
Definition sl_par_ok (p : sl_par) : Prop :=
  0 <= sl_lam p /\ sl_lam p <= 1 /\ 0 <= sl_g p /\ sl_g p <= 1 /\ sl_tol p <= 1 /\ sl_gl p == sl_lam p * sl_g p.

Definition sl_inv (nS nA : nat) (x : sl_par * (qtab * list trace)) : Prop :=
  sl_par_ok (fst x) /\ shape nS nA (fst (snd x)) /\ uniq_keys (snd (snd x)) /\ le1 (snd (snd x)).

Lemma sl_apply_inv : forall nS nA x o, sl_op_ok o -> sl_inv nS nA x -> sl_inv nS nA (sl_apply x o).
Proof.
  intros nS nA [p [q tr]] o Ho ((L0 & L1 & G0 & G1 & T1 & E) & Hsh & Hu & Hl). cbn [fst snd] in *.
  destruct o as [[[[[s a] s1] a1] r]|l|d|al|t]; cbn [sl_apply sl_op_ok] in *.
  - unfold sl_inv. cbn [fst snd sarsal_step_p].
    split; [repeat split; assumption|]. split; [apply update_traces_shape; exact Hsh|].
    split; [apply update_traces_uniq; exact Hu|].
    destruct (prod01 _ _ L0 L1 G0 G1). apply (traces_in_le1 (sl_tol p)). apply update_traces_range2; try assumption; rewrite E; assumption.
  - destruct Ho. unfold sl_inv, sl_par_ok, sl_set_lambda. cbn [fst snd sl_lam sl_g sl_tol sl_gl sl_alpha]. split; [| split; [exact Hsh| split; [exact Hu| exact Hl]]]. repeat split; try assumption; lra.
  - destruct Ho. unfold sl_inv, sl_par_ok, sl_set_discount. cbn [fst snd sl_lam sl_g sl_tol sl_gl sl_alpha]. split; [| split; [exact Hsh| split; [exact Hu| exact Hl]]]. repeat split; try assumption; lra.
  - unfold sl_inv, sl_par_ok, sl_set_alpha. cbn [fst snd sl_lam sl_g sl_tol sl_gl sl_alpha]. split; [| split; [exact Hsh| split; [exact Hu| exact Hl]]]. repeat split; assumption.
  - unfold sl_inv, sl_par_ok, sl_set_tol. cbn [fst snd sl_lam sl_g sl_tol sl_gl sl_alpha]. split; [| split; [exact Hsh| split; [exact Hu| exact Hl]]]. repeat split; assumption.
Qed.

Lemma sl_history_inv : forall nS nA alpha g lam tol ops,
  0 <= lam -> lam <= 1 -> 0 <= g -> g <= 1 -> tol <= 1 -> Forall sl_op_ok ops ->
  sl_inv nS nA (fold_left sl_apply ops (sl_ctor alpha g lam tol, (qzero nS nA, []))).
Proof.
  intros nS nA alpha g lam tol ops L0 L1 G0 G1 T1 Hall.
  refine (fold_left_inv _ _ sl_apply (sl_inv nS nA) _ ops _ _ Hall _).
  - intros x o Ho Hx. apply sl_apply_inv; assumption.
  - unfold sl_inv, sl_par_ok, sl_ctor. cbn [fst snd sl_lam sl_g sl_tol sl_gl].
    split; [repeat split; try assumption; lra|]. split; [apply shape_qzero|]. split; constructor.
Qed.

(* however lambda reached 0 (constructor or setLambda, before or after setDiscount), the next SARSAL step
   is the one-step SARSA backup and no other entry moves *)
Lemma sarsal_setters_lambda0_lemma : forall nS nA alpha g lam tol ops s a s1 a1 r,
  0 <= lam -> lam <= 1 -> 0 <= g -> g <= 1 -> tol <= 1 -> Forall sl_op_ok ops ->
  (s < nS)%nat -> (a < nA)%nat -> (s1 < nS)%nat -> (a1 < nA)%nat ->
  let x := fold_left sl_apply ops (sl_ctor alpha g lam tol, (qzero nS nA, [])) in
  sl_lam (fst x) == 0 ->
  is_update (fst (snd x)) (fst (sarsal_step_p (fst x) (snd x) (s, a, s1, a1, r))) s a
            (one_step (sl_alpha (fst x)) (sl_g (fst x)) (fst (snd x)) s a s1 r (point_row nA a1)).
Proof.
  intros nS nA alpha g lam tol ops s a s1 a1 r L0 L1 G0 G1 T1 Hall Hs Ha Hs1 Ha1 x Hl0.
  destruct (sl_history_inv nS nA alpha g lam tol ops L0 L1 G0 G1 T1 Hall) as ((_ & _ & _ & _ & _ & E) & Hsh & Hu & _).
  fold x in E, Hsh, Hu. destruct x as [p [q tr]]. cbn [fst snd] in *. cbn [sarsal_step_p fst].
  eapply is_update_eq; [| apply (update_traces_lambda0 nS nA); try assumption; rewrite E, Hl0; lra].
  unfold one_step. rewrite <- (shape_row _ _ q s1 Hsh Hs1) at 1.
  rewrite dot_point_row by (rewrite (shape_row _ _ q s1 Hsh Hs1); exact Ha1). unfold qget. lra.
Qed.

(* after any step of such a history every stored trace is within [current tolerance, 1] *)
Lemma sarsal_setters_trace_range_lemma : forall nS nA alpha g lam tol ops e,
  0 <= lam -> lam <= 1 -> 0 <= g -> g <= 1 -> tol <= 1 -> Forall sl_op_ok ops ->
  let x := fold_left sl_apply ops (sl_ctor alpha g lam tol, (qzero nS nA, [])) in
  traces_in (sl_tol (fst x)) (snd (sarsal_step_p (fst x) (snd x) e)) /\
  uniq_keys (snd (sarsal_step_p (fst x) (snd x) e)).
Proof.
  intros nS nA alpha g lam tol ops e L0 L1 G0 G1 T1 Hall x.
  destruct (sl_history_inv nS nA alpha g lam tol ops L0 L1 G0 G1 T1 Hall) as ((A0 & A1 & B0 & B1 & C1 & E) & Hsh & Hu & Hl).
  fold x in A0, A1, B0, B1, C1, E, Hsh, Hu, Hl. destruct x as [p [q tr]]. cbn [fst snd] in *.
  destruct e as [[[[s a] s1] a1] r]. cbn [sarsal_step_p fst]. split.
  - destruct (prod01 _ _ A0 A1 B0 B1). apply update_traces_range2; try assumption; rewrite E; assumption.
  - apply update_traces_uniq; exact Hu.
Qed.

(* ---------------------------------------------------------------- the unrepaired trace cut is not the documented one *)
(* TreeBackup, eps = 0, lambda = gamma = alpha = 1, tol = 0, two states, two actions.
   Step 1 makes action 1 greedy in state 0.  Step 2 acts greedily in state 1 (action 0, first maximum)
   and lands in state 0: the documented cut keeps the trace of (0,1) at 1 * pi(0|1) = 1, the code as it
   stands compares a = 0 with the greedy action 1 of s1 = 0 and zeroes it. *)
Definition wit_hist : list (nat * nat * nat * Q * Q) := [(0%nat, 1%nat, 1%nat, 1, 1#2); (1%nat, 0%nat, 0%nat, 0, 1#2)].
Definition wit_legacy := fold_left (offctrl_step_legacy KTreeBackup 1 1 1 0 0 2) wit_hist (qzero 2 2, []).
Definition wit_fixed := fold_left (offctrl_step KTreeBackup 1 1 1 0 0 2) wit_hist (qzero 2 2, []).

Lemma offctrl_legacy_refuted_lemma :
  snd wit_legacy = [(0%nat, 1%nat, 0); (1%nat, 0%nat, 1)] /\
  snd wit_fixed = [(0%nat, 1%nat, 1); (1%nat, 0%nat, 1)] /\
  doc_ctrl_discount KTreeBackup 1 0 (fst (fold_left (offctrl_step KTreeBackup 1 1 1 0 0 2) [(0%nat, 1%nat, 1%nat, 1, 1#2)] (qzero 2 2, []))) 1 0 (1#2) == 1.
Proof. split; [vm_compute; reflexivity|]. split; vm_compute; reflexivity. Qed.
