(* C11/ProofsIndex.v — the index-based model of OffPolicyBase::updateTraces with CHECKED accesses
   (C10/Model.v: traces_[i], swap, pop_back, q_(s,a) all yield UB when out of range, the loop counter is
   a size_t with the SIZE_MAX wrap of --i at i = 0) computes exactly what the zone-list model of
   C11/Model.v computes, and never hits UB or runs out of fuel, when the keys are in range. *)
From Coq Require Import List Arith QArith Lia Bool.
From AIT Require Import Base.Qx C11.Model C11.Spec C11.Proofs C11.ProofsTraces.
From AIT Require C10.Model.
Import ListNotations.
Module X := AIT.C10.Model.

Lemma set_nth_upd : forall (A : Type) (l : list A) i x, X.set_nth l i x = upd l i x.
Proof. induction l as [|y l IH]; intros [|i] x; cbn [X.set_nth upd]; auto; f_equal; apply IH. Qed.

Lemma upd_app_r : forall (A : Type) (a b : list A) i x, upd (a ++ b) (length a + i) x = a ++ upd b i x.
Proof. induction a as [|y a IH]; intros b i x; cbn [app length Nat.add upd]; auto; f_equal; apply IH. Qed.

Lemma nth_error_app_r : forall (A : Type) (a b : list A) i, nth_error (a ++ b) (length a + i) = nth_error b i.
Proof. intros. rewrite nth_error_app2 by lia. f_equal. lia. Qed.

Lemma rd_app : forall (A : Type) (a b : list A) i, X.rd (a ++ b) (length a + i) = X.rd b i.
Proof. intros. unfold X.rd. rewrite nth_error_app_r. reflexivity. Qed.

Lemma rd_ok : forall (A : Type) (l : list A) i d, (i < length l)%nat -> X.rd l i = X.Ok (nth i l d).
Proof. intros A l i d H. unfold X.rd. rewrite (nth_error_nth' l d H). reflexivity. Qed.

Lemma wr_ok : forall (A : Type) (l : list A) i x, (i < length l)%nat -> X.wr l i x = X.Ok (upd l i x).
Proof.
  intros A l i x H. unfold X.wr. replace (i <? length l)%nat with true by (symmetry; apply Nat.ltb_lt; exact H).
  rewrite set_nth_upd. reflexivity.
Qed.

(* q_(s,a) += d with checked accesses = upd2 when (s,a) is inside the table *)
Lemma q_add_ok : forall nS nA q s a d, shape nS nA q -> (s < nS)%nat -> (a < nA)%nat ->
  X.q_add q s a d = X.Ok (upd2 q s a (qget q s a + d)).
Proof.
  intros nS nA q s a d Hsh Hs Ha. unfold X.q_add.
  assert (Is : (s < length q)%nat) by (destruct Hsh as [-> _]; exact Hs).
  assert (Ia : (a < length (row q s))%nat) by (rewrite (shape_row nS nA q s Hsh Hs); exact Ha).
  rewrite (rd_ok (list Q) q s [] Is). cbn [X.bind].
  assert (Ia' : (a < length (@nth (list Q) s q []))%nat) by exact Ia.
  rewrite (rd_ok Q (@nth (list Q) s q []) a 0 Ia'). cbn [X.bind].
  rewrite wr_ok by exact Ia'. cbn [X.bind]. rewrite wr_ok by exact Is. reflexivity.
Qed.

Lemma rd_mid : forall (A : Type) (done rest : list A) x, X.rd (done ++ x :: rest) (length done) = X.Ok x.
Proof. intros. unfold X.rd. rewrite nth_error_app2 by lia. rewrite Nat.sub_diag. reflexivity. Qed.

Lemma upd_mid : forall (A : Type) (done rest : list A) x y, upd (done ++ x :: rest) (length done) y = done ++ y :: rest.
Proof. intros. replace (length done) with (length done + 0)%nat by lia. rewrite upd_app_r. reflexivity. Qed.

Lemma rd_far : forall (A : Type) (done r : list A) x l,
  X.rd (done ++ x :: r ++ [l]) (length done + S (length r)) = X.Ok l.
Proof.
  intros. unfold X.rd. rewrite nth_error_app_r. cbn [nth_error].
  rewrite nth_error_app2 by lia. rewrite Nat.sub_diag. reflexivity.
Qed.

Lemma upd_far : forall (A : Type) (done r : list A) x l y,
  upd (done ++ x :: r ++ [l]) (length done + S (length r)) y = done ++ x :: r ++ [y].
Proof.
  intros. rewrite upd_app_r. cbn [upd]. replace (length r) with (length r + 0)%nat by lia.
  rewrite upd_app_r. reflexivity.
Qed.

Lemma pop_snoc : forall (A : Type) (l : list A) x, X.pop (l ++ [x]) = X.Ok l.
Proof.
  intros A l x. unfold X.pop. destruct (l ++ [x]) eqn:E; [destruct l; discriminate|]. rewrite <- E.
  rewrite removelast_last. reflexivity.
Qed.

(* swap(traces[i], traces[size-1]); pop_back() at position i = length done *)
Lemma swap_pop_index : forall (done rest : list trace) x,
  exists l2, X.swp (done ++ x :: rest) (length done) (length (done ++ x :: rest) - 1) = X.Ok l2 /\
             X.pop l2 = X.Ok (done ++ swap_pop rest).
Proof.
  intros done rest x.
  destruct rest as [|y rest0].
  - (* the element is the last one: swapped with itself, popped *)
    replace (length (done ++ [x]) - 1)%nat with (length done) by (rewrite app_length; cbn [length]; lia).
    exists (done ++ [x]). split.
    + unfold X.swp. rewrite rd_mid. cbn [X.bind].
      rewrite wr_ok by (rewrite app_length; cbn [length]; lia). cbn [X.bind]. rewrite upd_mid.
      rewrite wr_ok by (rewrite app_length; cbn [length]; lia). rewrite upd_mid. reflexivity.
    + rewrite pop_snoc. cbn [swap_pop]. rewrite app_nil_r. reflexivity.
  - assert (Hne : y :: rest0 <> []) by discriminate.
    assert (Esp : swap_pop (y :: rest0) = last (y :: rest0) (O, O, 0) :: removelast (y :: rest0)) by reflexivity.
    rewrite Esp. clear Esp. destruct (exists_last Hne) as [r' [l Er]]. rewrite Er. clear Er Hne.
    rewrite last_last, removelast_last.
    replace (length (done ++ x :: r' ++ [l]) - 1)%nat with (length done + S (length r'))%nat
      by (rewrite !app_length; cbn [length]; rewrite app_length; cbn [length]; lia).
    exists ((done ++ l :: r') ++ [x]). split.
    + unfold X.swp. rewrite rd_mid. cbn [X.bind]. rewrite rd_far. cbn [X.bind].
      rewrite wr_ok by (rewrite app_length; cbn [length]; lia). cbn [X.bind]. rewrite upd_mid.
      rewrite wr_ok by (rewrite !app_length; cbn [length]; rewrite app_length; cbn [length]; lia).
      rewrite upd_far. rewrite <- app_assoc. reflexivity.
    + apply pop_snoc.
Qed.

Lemma snoc_app : forall (A : Type) (d r : list A) x, d ++ x :: r = (d ++ [x]) ++ r.
Proof. intros. rewrite <- app_assoc. reflexivity. Qed.

Lemma bind2 : forall (A B : Type) (m : X.res A) (f : A -> X.res A) (k : A -> X.res B) a b,
  m = X.Ok a -> f a = X.Ok b -> X.bind m (fun x => X.bind (f x) k) = k b.
Proof. intros A B m f k a b H1 H2. rewrite H1. cbn [X.bind]. rewrite H2. reflexivity. Qed.

Definition keys_in (nS nA : nat) (tr : list trace) : Prop :=
  Forall (fun t : trace => (fst (fst t) < nS)%nat /\ (snd (fst t) < nA)%nat) tr.

Lemma ut_loop_zone : forall fuel nS nA s a err td tol done todo q nw,
  (length todo < fuel)%nat -> shape nS nA q -> keys_in nS nA todo ->
  X.ut_loop fuel s a err td tol (done ++ todo) q (X.Ix (length done)) nw =
  X.Ok (trace_loop (length todo) s a err td tol done todo q nw).
Proof.
  induction fuel as [|fuel IH]; intros nS nA s a err td tol done todo q nw Hf Hsh Hk; [lia|].
  cbn [X.ut_loop]. destruct todo as [|[[ss aa] el] rest].
  - rewrite app_nil_r. rewrite Nat.ltb_irrefl. cbn [length trace_loop]. rewrite app_nil_r. reflexivity.
  - cbn [length] in Hf. inversion Hk as [|? ? [Hss Haa] Hk']; subst. cbn [fst snd] in Hss, Haa.
    assert (Hn : (length done < length (done ++ (ss, aa, el) :: rest))%nat) by (rewrite app_length; cbn [length]; lia).
    match goal with |- (if ?c then _ else _) = _ => replace c with true by (symmetry; apply Nat.ltb_lt; exact Hn) end.
    rewrite rd_mid. cbn [X.bind].
    cbn [length trace_loop].
    destruct (Nat.eqb ss s && Nat.eqb aa a) eqn:E.
    + rewrite wr_ok by exact Hn. cbn [X.bind].
      rewrite (q_add_ok nS nA q ss aa _ Hsh Hss Haa). cbn [X.bind X.idx_inc].
      rewrite upd_mid.
      assert (Hf' : (length rest < fuel)%nat) by lia.
      pose proof (IH nS nA s a err td tol (done ++ [(ss, aa, 1)]) rest _ false Hf' (shape_upd2 nS nA q ss aa (qget q ss aa + err * 1) Hsh) Hk') as H.
      rewrite <- app_assoc in H. cbn [app] in H. rewrite app_length in H. cbn [length] in H. rewrite Nat.add_1_r in H.
      exact H.
    + rewrite wr_ok by exact Hn. cbn [X.bind]. rewrite upd_mid.
      destruct (Qlt_le_dec (Qred (el * td)) tol).
      * destruct (swap_pop_index done rest (ss, aa, Qred (el * td))) as [l2 [E1 E2]].
        etransitivity; [eapply bind2; [exact E1| exact E2]|]. cbv beta.
        assert (Hf' : (length (swap_pop rest) < fuel)%nat) by (rewrite swap_pop_length; lia).
        assert (Hk2 : keys_in nS nA (swap_pop rest)).
        { unfold keys_in. eapply Permutation.Permutation_Forall; [apply Permutation.Permutation_sym; apply swap_pop_perm| exact Hk']. }
        pose proof (IH nS nA s a err td tol done (swap_pop rest) q nw Hf' Hsh Hk2) as H.
        rewrite swap_pop_length in H.
        assert (Ei : X.idx_inc (X.idx_dec (X.Ix (length done))) = X.Ix (length done)) by (destruct (length done); reflexivity).
        rewrite Ei. exact H.
      * rewrite (q_add_ok nS nA q ss aa _ Hsh Hss Haa). cbn [X.bind X.idx_inc].
        assert (Hf' : (length rest < fuel)%nat) by lia.
        pose proof (IH nS nA s a err td tol (done ++ [(ss, aa, Qred (el * td))]) rest _ nw Hf'
                      (shape_upd2 nS nA q ss aa (qget q ss aa + err * Qred (el * td)) Hsh) Hk') as H.
        rewrite <- app_assoc in H. cbn [app] in H. rewrite app_length in H. cbn [length] in H. rewrite Nat.add_1_r in H.
        exact H.
Qed.

Lemma trace_loop_shape_keys : forall fuel nS nA s a err td tol done todo q nw,
  shape nS nA q -> keys_in nS nA done -> keys_in nS nA todo ->
  let '(tr', q', _) := trace_loop fuel s a err td tol done todo q nw in
  shape nS nA q' /\ keys_in nS nA tr'.
Proof.
  induction fuel as [|fuel IH]; intros nS nA s a err td tol done todo q nw Hsh Hd Ht; cbn [trace_loop].
  - split; [exact Hsh| apply Forall_app; split; assumption].
  - destruct todo as [|[[ss aa] el] rest]; [split; assumption|].
    inversion Ht as [|? ? Hk Hrest]; subst.
    destruct (Nat.eqb ss s && Nat.eqb aa a).
    + apply IH; [apply shape_upd2; exact Hsh| apply Forall_app; split; [exact Hd| constructor; [exact Hk| constructor]]| exact Hrest].
    + destruct (Qlt_le_dec (Qred (el * td)) tol).
      * apply IH; [exact Hsh| exact Hd|].
        unfold keys_in. eapply Permutation.Permutation_Forall; [apply Permutation.Permutation_sym; apply swap_pop_perm| exact Hrest].
      * apply IH; [apply shape_upd2; exact Hsh| apply Forall_app; split; [exact Hd| constructor; [exact Hk| constructor]]| exact Hrest].
Qed.

(* the checked index model and the zone model are the same function on well-formed states *)
Lemma updateTraces_index_eq_zone_lemma : forall nS nA s a err td tol q tr,
  shape nS nA q -> (s < nS)%nat -> (a < nA)%nat -> keys_in nS nA tr ->
  X.updateTraces s a err td tol (q, tr) = X.Ok (update_traces s a err td tol (q, tr)) /\
  shape nS nA (fst (update_traces s a err td tol (q, tr))) /\
  keys_in nS nA (snd (update_traces s a err td tol (q, tr))).
Proof.
  intros nS nA s a err td tol q tr Hsh Hs Ha Hk. unfold X.updateTraces, update_traces.
  pose proof (ut_loop_zone (S (length tr)) nS nA s a err td tol [] tr q true (Nat.lt_succ_diag_r _) Hsh Hk) as H.
  cbn [app length] in H.
  pose proof (trace_loop_shape_keys (length tr) nS nA s a err td tol [] tr q true Hsh (Forall_nil _) Hk) as G.
  destruct (trace_loop (length tr) s a err td tol [] tr q true) as [[tr' q'] nw]. destruct G as [Hsh' Hk'].
  split; [| split].
  - etransitivity; [apply (f_equal (fun r => X.bind r _) H)|]. cbn [X.bind].
    destruct nw; [| reflexivity].
    rewrite (q_add_ok nS nA q' s a err Hsh' Hs Ha). reflexivity.
  - destruct nw; cbn [fst]; [apply shape_upd2; exact Hsh'| exact Hsh'].
  - destruct nw; cbn [snd]; [| exact Hk'].
    apply Forall_app; split; [exact Hk'| constructor; [cbn [fst snd]; split; assumption| constructor]].
Qed.

(* whole histories: C10's checked run never returns UB / Fuel and equals the zone model's fold *)
Lemma updateTraces_history_eq_lemma : forall nS nA tol ops q tr,
  shape nS nA q -> keys_in nS nA tr ->
  Forall (fun o : nat * nat * Q * Q => (fst (fst (fst o)) < nS)%nat /\ (snd (fst (fst o)) < nA)%nat) ops ->
  X.updateTraces_history ops tol (q, tr) =
  X.Ok (fold_left (fun st (o : nat * nat * Q * Q) =>
                     update_traces (fst (fst (fst o))) (snd (fst (fst o))) (snd (fst o)) (snd o) tol st) ops (q, tr)).
Proof.
  intros nS nA tol ops. induction ops as [|[[[s a] err] td] ops IH]; intros q tr Hsh Hk Hall; cbn [X.updateTraces_history fold_left].
  - reflexivity.
  - inversion Hall as [|? ? [Hs Ha] Hall']; subst. cbn [fst snd] in Hs, Ha. cbn [fst snd].
    destruct (updateTraces_index_eq_zone_lemma nS nA s a err td tol q tr Hsh Hs Ha Hk) as (E & Hsh' & Hk').
    etransitivity; [apply (f_equal (fun r => X.bind r _) E)|]. cbn [X.bind].
    destruct (update_traces s a err td tol (q, tr)) as [q1 tr1]. apply IH; assumption.
Qed.
