From Coq Require Extraction.
From Coq Require Import ExtrOcamlBasic.
From AIT Require Import Base.Vio Base.Qx Base.Mdp C11.Model C11.Spec C11.SpecDQ.
Extraction "model.ml" vio_kit qzero qget upd2 ql_step sarsa_step esarsa_step hyst_step dq_step
  dyna_step dyna_batch update_traces sarsal_step offctrl_step offctrl_step_legacy offeval_step
  sl_ctor sl_set_discount sl_set_lambda sl_set_alpha sl_set_tol sarsal_step_p d2_step d2_batch d2_reset
  ps_init ps_step ps_batch ps_init_g ps_step_ne ps_batch_ne is_top queued
  in_boxb in_box2b one_step egreedy_row point_row traces_inb uniq_keysb ps_invb ps_bellmanb bellman_q
  maxl argmax dot dq_expected dq_documentedb.
