From Coq Require Extraction.
From Coq Require Import ExtrOcamlBasic.
From AIT Require Import Base.Vio Base.Qx Base.Mdp C11.Model C11.Spec.
Extraction "model.ml" vio_kit qzero qget upd2 ql_step sarsa_step esarsa_step hyst_step dq_step
  dyna_step dyna_batch update_traces sarsal_step offctrl_step offeval_step
  ps_init ps_step ps_batch is_top queued
  in_boxb in_box2b one_step egreedy_row point_row traces_inb uniq_keysb ps_invb ps_bellmanb bellman_q
  maxl argmax dot.
