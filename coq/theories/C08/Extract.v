From Coq Require Extraction.
From Coq Require Import ExtrOcamlBasic.
From AIT Require Import Base.Vio Base.Qx Base.Mdp C08.Model C08.Spec.
Extraction "model.ml" vio_kit qsum nonnegb is_distb veqb
  sample_dense sample_sparse sample_sparse_fix vose_cur vose_fix alias_sample random_prob
  project_cur project_fix possum poscount sample_sr sample_sor sample_or drop_small sparse_store_ok to_index_partial coop_rewards coop_reward coop_next trow orow wf_mdpb
  dense_selb dense_mass is_prob_tolb expand cols_ok alias_mass alias_table_ok alias_table_slack_ok.
