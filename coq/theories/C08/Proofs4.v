(* C08/Proofs4.v — the repaired (two-worklist) Vose construction builds a table in which every
   index has exactly its probability mass: [alias_mass_lemma].
   Invariant: entries still in a worklist hold their unassigned mass; a finished cell j gives
   prob_j to j and avg - prob_j to alias_j; the worklist entries together hold |W| * avg. *)
From Coq Require Import List Arith QArith Qminmax Qround Lqa Lia Bool ZArith Permutation.
From AIT Require Import Base.Qx C08.Model C08.Spec C08.Proofs2 C08.Proofs3.
Import ListNotations.
Local Open Scope Q_scope.

(* ------------------------------------------------------------------ membership, updates, sums *)
Definition memb (j : nat) (W : list nat) : bool := existsb (Nat.eqb j) W.

Lemma memb_iff : forall j W, memb j W = true <-> In j W.
Proof.
  intros j W. unfold memb. rewrite existsb_exists. split.
  - intros [x [H1 H2]]. apply Nat.eqb_eq in H2. subst. exact H1.
  - intros H. exists j. split; [exact H| apply Nat.eqb_refl].
Qed.

Lemma memb_false_iff : forall j W, memb j W = false <-> ~ In j W.
Proof. intros j W. rewrite <- memb_iff. destruct (memb j W); split; congruence. Qed.

Lemma memb_ext : forall W1 W2, (forall j, In j W1 <-> In j W2) -> forall j, memb j W1 = memb j W2.
Proof.
  intros W1 W2 H j. destruct (memb j W1) eqn:E1, (memb j W2) eqn:E2; try reflexivity.
  - apply memb_iff in E1. apply H in E1. apply memb_iff in E1. congruence.
  - apply memb_iff in E2. apply H in E2. apply memb_iff in E2. congruence.
Qed.

Lemma upd_cons : forall (A : Type) (a : A) l i v, upd (a :: l) (S i) v = a :: upd l i v.
Proof. reflexivity. Qed.

Lemma nth_upd : forall (A : Type) (d : A) i l v j,
  nth j (upd l i v) d = if ((j =? i) && (i <? length l))%nat then v else nth j l d.
Proof.
  induction i as [|i IH]; intros l v j.
  - destruct l as [|a l].
    + rewrite andb_false_r. destruct j; reflexivity.
    + destruct j; reflexivity.
  - destruct l as [|a l].
    + rewrite andb_false_r. destruct j; reflexivity.
    + rewrite upd_cons. destruct j; cbn [nth]; [reflexivity|]. rewrite IH. reflexivity.
Qed.

Lemma upd_length : forall (A : Type) i (l : list A) v, length (upd l i v) = length l.
Proof.
  induction i as [|i IH]; intros l v; destruct l as [|a l]; try reflexivity.
  rewrite upd_cons. cbn [length]. rewrite IH. reflexivity.
Qed.

Lemma nthq_upd_same : forall l i v, (i < length l)%nat -> nthq (upd l i v) i = v.
Proof.
  intros l i v H. unfold nthq. rewrite nth_upd, Nat.eqb_refl.
  apply Nat.ltb_lt in H. rewrite H. reflexivity.
Qed.

Lemma nthq_upd_other : forall l i v j, j <> i -> nthq (upd l i v) j = nthq l j.
Proof.
  intros l i v j H. unfold nthq. rewrite nth_upd. apply Nat.eqb_neq in H. rewrite H. reflexivity.
Qed.

Lemma nth_upd_same : forall (l : list nat) i v, (i < length l)%nat -> nth i (upd l i v) O = v.
Proof.
  intros l i v H. rewrite nth_upd, Nat.eqb_refl. apply Nat.ltb_lt in H. rewrite H. reflexivity.
Qed.

Lemma nth_upd_other : forall (l : list nat) i v j, j <> i -> nth j (upd l i v) O = nth j l O.
Proof. intros l i v j H. rewrite nth_upd. apply Nat.eqb_neq in H. rewrite H. reflexivity. Qed.

(* sums over 0..n-1 *)
Definition sumn (n : nat) (f : nat -> Q) : Q := qsum (map f (seq 0 n)).

Lemma sumn_S : forall n f, sumn (S n) f == sumn n f + f n.
Proof. intros n f. unfold sumn. rewrite seq_S, map_app, qsum_app. cbn [map qsum plus]. lra. Qed.

Lemma sumn_ext : forall n f g, (forall j, (j < n)%nat -> f j == g j) -> sumn n f == sumn n g.
Proof.
  induction n as [|n IH]; intros f g H; [reflexivity|].
  rewrite !sumn_S, (IH f g), (H n); [reflexivity| lia| intros j Hj; apply H; lia].
Qed.

(* changing the summand at one point *)
Lemma sumn_change1 : forall n f g s d, (s < n)%nat ->
  (forall j, (j < n)%nat -> j <> s -> g j == f j) -> g s == f s + d -> sumn n g == sumn n f + d.
Proof.
  induction n as [|n IH]; intros f g s d Hs Ho Hd; [lia|].
  rewrite !sumn_S. destruct (Nat.eq_dec s n) as [->|Hne].
  - rewrite (sumn_ext n g f), Hd; [lra|]. intros j Hj. apply Ho; lia.
  - rewrite (IH f g s d), (Ho n); [lra| lia| lia| lia| intros j Hj Hjs; apply Ho; lia| exact Hd].
Qed.

Lemma sumn_add : forall n f g, sumn n (fun j => f j + g j) == sumn n f + sumn n g.
Proof. intros n f g. unfold sumn. apply qsum_map_add. Qed.

Lemma sumn_scale : forall n c f, sumn n (fun j => c * f j) == c * sumn n f.
Proof.
  induction n as [|n IH]; intros c f; [unfold sumn; cbn [seq map qsum]; lra|].
  rewrite !sumn_S, IH. lra.
Qed.

Lemma sumn_zero : forall n, sumn n (fun _ => 0) == 0.
Proof. induction n as [|n IH]; [reflexivity| rewrite sumn_S, IH; lra]. Qed.

(* an indicator sums to its value at the point *)
Lemma sumn_point : forall n i (c : Q), (i < n)%nat -> sumn n (fun j => if (j =? i)%nat then c else 0) == c.
Proof.
  intros n i c Hi.
  rewrite (sumn_change1 n (fun _ => 0) (fun j => if (j =? i)%nat then c else 0) i c Hi).
  - rewrite sumn_zero. lra.
  - intros j _ Hne. apply Nat.eqb_neq in Hne. rewrite Hne. reflexivity.
  - rewrite Nat.eqb_refl. lra.
Qed.

Lemma sumn_le_term : forall n f j0, (forall j, (j < n)%nat -> f j <= 0) -> (j0 < n)%nat -> sumn n f <= f j0.
Proof.
  induction n as [|n IH]; intros f j0 H Hj; [lia|]. rewrite sumn_S.
  assert (Hs : sumn n f <= 0).
  { clear IH Hj. induction n as [|m IHm]; [unfold sumn; cbn; lra|]. rewrite sumn_S.
    assert (sumn m f <= 0) by (apply IHm; intros j Hj; apply H; lia). pose proof (H m ltac:(lia)). lra. }
  destruct (Nat.eq_dec j0 n) as [->|Hne]; [lra|].
  pose proof (IH f j0 (fun j Hj' => H j ltac:(lia)) ltac:(lia)). pose proof (H n ltac:(lia)). lra.
Qed.

Lemma sumn_ge_term : forall n f j0, (forall j, (j < n)%nat -> 0 <= f j) -> (j0 < n)%nat -> f j0 <= sumn n f.
Proof.
  intros n f j0 H Hj.
  assert (Hneg : forall j, (j < n)%nat -> (fun j => - f j) j <= 0) by (intros j Hj'; pose proof (H j Hj'); cbv beta; lra).
  pose proof (sumn_le_term n (fun j => - f j) j0 Hneg Hj) as H1. cbv beta in H1.
  assert (E : sumn n (fun j => - f j) == - sumn n f).
  { rewrite (sumn_ext n (fun j => - f j) (fun j => (-1) * f j)) by (intros; lra). rewrite sumn_scale. lra. }
  rewrite E in H1. lra.
Qed.

(* ------------------------------------------------------------------ the invariant *)
(* unscaled contribution of a finished cell j to index i *)
Definition contrib (avg : Q) (prob : vec) (alias : list nat) (j i : nat) : Q :=
  (if (j =? i)%nat then nthq prob j else 0) + (if (nth j alias O =? i)%nat then avg - nthq prob j else 0).

Definition acct (n : nat) (avg : Q) (prob : vec) (alias : list nat) (W : list nat) (i : nat) : Q :=
  (if memb i W then nthq prob i else 0) +
  sumn n (fun j => if memb j W then 0 else contrib avg prob alias j i).

Record Inv (n : nat) (avg : Q) (p prob : vec) (alias small large : list nat) : Prop := {
  inv_lp : length prob = n;
  inv_la : length alias = n;
  inv_nd : NoDup (small ++ large);
  inv_lt : forall j, In j (small ++ large) -> (j < n)%nat;
  inv_sm : forall j, In j small -> nthq prob j < avg;
  inv_lg : forall j, In j large -> avg <= nthq prob j;
  inv_p0 : forall j, (j < n)%nat -> 0 <= nthq prob j;
  inv_fin : forall j, (j < n)%nat -> ~ In j (small ++ large) -> nthq prob j <= avg /\ (nth j alias O < n)%nat;
  inv_acct : forall i, (i < n)%nat -> acct n avg prob alias (small ++ large) i == nthq p i;
  inv_tot : sumn n (fun j => if memb j (small ++ large) then nthq prob j - avg else 0) == qsum p - 1;
  inv_keep : forall j, (j < n)%nat -> nthq p j < avg -> nthq prob j == nthq p j;
  inv_lgp : forall j, In j large -> avg <= nthq p j
}.

(* one pairing step *)
Lemma inv_step : forall n avg p prob alias s small l large,
  Inv n avg p prob alias (s :: small) (l :: large) ->
  let pl := (nthq prob l + nthq prob s) - avg in
  forall small' large',
  ((pl < avg /\ small' = l :: small /\ large' = large) \/ (avg <= pl /\ small' = small /\ large' = l :: large)) ->
  Inv n avg p (upd prob l pl) (upd alias s l) small' large'.
Proof.
  intros n avg p prob alias s small l large I pl small' large' Hbr.
  destruct I as [Hlp Hla Hnd Hlt Hsm Hlg Hp0 Hfin Hacct Htot Hkeep Hlgp].
  set (W := (s :: small) ++ l :: large) in *.
  assert (HsW : In s W) by (left; reflexivity).
  assert (HlW : In l W) by (unfold W; apply in_or_app; right; left; reflexivity).
  assert (Hsn : (s < n)%nat) by (apply Hlt; exact HsW).
  assert (Hln : (l < n)%nat) by (apply Hlt; exact HlW).
  assert (Hnd' : NoDup (small ++ l :: large)) by (inversion Hnd; assumption).
  assert (Hs_notin : ~ In s (small ++ l :: large)) by (inversion Hnd; assumption).
  assert (Hsl : s <> l) by (intros ->; apply Hs_notin; apply in_or_app; right; left; reflexivity).
  assert (Hps : nthq prob s < avg) by (apply Hsm; left; reflexivity).
  assert (Hpl : avg <= nthq prob l) by (apply Hlg; left; reflexivity).
  pose proof (Hp0 s Hsn) as Hps0.
  (* the new worklist, as a set, is W without s *)
  assert (HW' : forall j, In j (small' ++ large') <-> In j (small ++ l :: large)).
  { intros j. destruct Hbr as [[_ [-> ->]]|[_ [-> ->]]]; [| reflexivity].
    cbn [app In]. rewrite !in_app_iff. cbn [In]. tauto. }
  assert (HWs : forall j, In j W <-> j = s \/ In j (small' ++ large')).
  { intros j. rewrite HW'. unfold W. cbn [app In]. intuition. }
  assert (Hmb : forall j, j <> s -> memb j (small' ++ large') = memb j W).
  { intros j Hj. destruct (memb j W) eqn:E.
    - apply memb_iff. apply memb_iff in E. apply HWs in E. destruct E; [congruence| assumption].
    - apply memb_false_iff. apply memb_false_iff in E. intros C. apply E. apply HWs. right; exact C. }
  assert (Hms : memb s (small' ++ large') = false) by (apply memb_false_iff; rewrite HW'; exact Hs_notin).
  assert (HmsW : memb s W = true) by (apply memb_iff; exact HsW).
  assert (HmlW : memb l W = true) by (apply memb_iff; exact HlW).
  assert (Hml : memb l (small' ++ large') = true) by (rewrite Hmb by congruence; exact HmlW).
  assert (Hpl_eq : nthq (upd prob l pl) l = pl) by (apply nthq_upd_same; lia).
  assert (Hpo : forall j, j <> l -> nthq (upd prob l pl) j = nthq prob j) by (intros; apply nthq_upd_other; assumption).
  assert (Hal_eq : nth s (upd alias s l) O = l) by (apply nth_upd_same; lia).
  assert (Hao : forall j, j <> s -> nth j (upd alias s l) O = nth j alias O) by (intros; apply nth_upd_other; assumption).
  assert (Hpl0 : 0 <= pl) by (unfold pl; lra).
  constructor.
  - rewrite upd_length; exact Hlp.
  - rewrite upd_length; exact Hla.
  - destruct Hbr as [[_ [-> ->]]|[_ [-> ->]]]; [| exact Hnd'].
    apply (Permutation_NoDup (l := small ++ l :: large)); [| exact Hnd'].
    symmetry. cbn [app]. apply Permutation_middle.
  - intros j Hj. apply Hlt. apply HWs. right; exact Hj.
  - intros j Hj. destruct Hbr as [[Hlt' [-> ->]]|[_ [-> ->]]].
    + destruct Hj as [<-|Hj]; [rewrite Hpl_eq; exact Hlt'|].
      rewrite Hpo; [apply Hsm; right; exact Hj|].
      intros ->. apply NoDup_remove_2 in Hnd'. apply Hnd'. apply in_or_app; left; exact Hj.
    + rewrite Hpo; [apply Hsm; right; exact Hj|].
      intros ->. apply NoDup_remove_2 in Hnd'. apply Hnd'. apply in_or_app; left; exact Hj.
  - intros j Hj. destruct Hbr as [[_ [-> ->]]|[Hge [-> ->]]].
    + rewrite Hpo; [apply Hlg; right; exact Hj|].
      intros ->. apply NoDup_remove_2 in Hnd'. apply Hnd'. apply in_or_app; right; exact Hj.
    + destruct Hj as [<-|Hj]; [rewrite Hpl_eq; exact Hge|].
      rewrite Hpo; [apply Hlg; right; exact Hj|].
      intros ->. apply NoDup_remove_2 in Hnd'. apply Hnd'. apply in_or_app; right; exact Hj.
  - intros j Hj. destruct (Nat.eq_dec j l) as [->|Hne]; [rewrite Hpl_eq; exact Hpl0| rewrite Hpo by exact Hne; apply Hp0; exact Hj].
  - intros j Hj Hnin. destruct (Nat.eq_dec j s) as [->|Hjs].
    + rewrite Hpo by exact Hsl. rewrite Hal_eq. split; [lra| exact Hln].
    + assert (HjW : ~ In j W) by (intros C; apply HWs in C; destruct C; [congruence| contradiction]).
      assert (Hjl : j <> l) by (intros ->; contradiction).
      rewrite Hpo by exact Hjl. rewrite Hao by exact Hjs. apply Hfin; assumption.
  - (* accounts *)
    intros i Hi. rewrite <- (Hacct i Hi). unfold acct.
    rewrite (sumn_change1 n (fun j => if memb j W then 0 else contrib avg prob alias j i)
               (fun j => if memb j (small' ++ large') then 0 else contrib avg (upd prob l pl) (upd alias s l) j i)
               s (contrib avg (upd prob l pl) (upd alias s l) s i) Hsn).
    + unfold contrib. rewrite Hal_eq, (Hpo s Hsl).
      destruct (Nat.eq_dec i s) as [->|His].
      * rewrite Hms, HmsW, Nat.eqb_refl. apply Nat.eqb_neq in Hsl. rewrite Nat.eqb_sym in Hsl. rewrite Hsl. lra.
      * rewrite (Hmb i His). assert (E1 : (s =? i)%nat = false) by (apply Nat.eqb_neq; congruence). rewrite E1.
        destruct (Nat.eq_dec i l) as [->|Hil].
        -- rewrite HmlW, Nat.eqb_refl, Hpl_eq. unfold pl. lra.
        -- assert (E2 : (l =? i)%nat = false) by (apply Nat.eqb_neq; congruence). rewrite E2.
           rewrite (Hpo i Hil). lra.
    + intros j Hj Hjs. rewrite (Hmb j Hjs). destruct (memb j W) eqn:E; [reflexivity|].
      assert (Hjl : j <> l) by (intros ->; congruence).
      unfold contrib. rewrite (Hpo j Hjl), (Hao j Hjs). reflexivity.
    + rewrite Hms, HmsW. lra.
  - (* total *)
    rewrite <- Htot.
    set (f := fun j => if memb j W then nthq prob j - avg else 0).
    set (g := fun j => if memb j (small' ++ large') then nthq (upd prob l pl) j - avg else 0).
    set (h := fun j => if (j =? s)%nat then 0 else f j).
    assert (E1 : sumn n h == sumn n f + (- (nthq prob s - avg))).
    { apply (sumn_change1 n f h s); [exact Hsn| |].
      - intros j _ Hjs. unfold h. apply Nat.eqb_neq in Hjs. rewrite Hjs. reflexivity.
      - unfold h, f. rewrite Nat.eqb_refl, HmsW. lra. }
    assert (E2 : sumn n g == sumn n h + (pl - nthq prob l)).
    { apply (sumn_change1 n h g l); [exact Hln| |].
      - intros j _ Hjl. unfold g, h, f. destruct (Nat.eq_dec j s) as [->|Hjs].
        + rewrite Hms, Nat.eqb_refl. reflexivity.
        + rewrite (Hmb j Hjs), (Hpo j Hjl). apply Nat.eqb_neq in Hjs. rewrite Hjs. reflexivity.
      - unfold g, h, f. rewrite Hml, HmlW, Hpl_eq.
        assert (E : (l =? s)%nat = false) by (apply Nat.eqb_neq; congruence). rewrite E. lra. }
    rewrite E2, E1. unfold pl. lra.
  - (* entries below average in the input are never modified (only large entries are) *)
    intros j Hj Hlow. destruct (Nat.eq_dec j l) as [->|Hjl].
    + pose proof (Hlgp l (or_introl eq_refl)). lra.
    + rewrite (Hpo j Hjl). apply Hkeep; assumption.
  - intros j Hj. apply Hlgp. destruct Hbr as [[_ [_ ->]]|[_ [_ ->]]]; [right; exact Hj| exact Hj].
Qed.

(* the pairing loop keeps the invariant and, with fuel for every worklist entry, stops with an
   empty worklist on one side *)
Lemma inv_pair : forall fuel n avg p prob alias small large,
  Inv n avg p prob alias small large -> (length small + length large <= fuel)%nat ->
  let '(prob', alias', small', large') := vose_pair fuel avg prob alias small large in
  Inv n avg p prob' alias' small' large' /\ (small' = [] \/ large' = []).
Proof.
  induction fuel as [|fuel IH]; intros n avg p prob alias small large I Hf.
  - cbn [vose_pair]. split; [exact I|]. destruct small; [left; reflexivity| cbn in Hf; lia].
  - cbn [vose_pair]. destruct small as [|s small]; [split; [exact I| left; reflexivity]|].
    destruct large as [|l large]; [split; [exact I| right; reflexivity]|].
    cbn [length] in Hf.
    destruct (Qlt_le_dec (nthq prob l + nthq prob s - avg) avg) as [Hlt|Hge].
    + apply IH; [| cbn [length]; lia].
      apply (inv_step n avg p prob alias s small l large I). left. auto.
    + apply IH; [| cbn [length]; lia].
      apply (inv_step n avg p prob alias s small l large I). right. auto.
Qed.

(* ------------------------------------------------------------------ initial classification *)
Lemma sumn_nthq : forall p : vec, sumn (length p) (fun j => nthq p j) == qsum p.
Proof.
  unfold sumn, nthq. induction p as [|x t IH]; [reflexivity|].
  cbn [length seq map qsum nth]. rewrite <- seq_shift, map_map. cbn [nth]. rewrite IH. reflexivity.
Qed.

Lemma sumn_const : forall n c, sumn n (fun _ => c) == qn n * c.
Proof.
  induction n as [|m IH]; intros c; [unfold sumn; cbn [seq map qsum]; change (qn 0) with 0; lra|].
  rewrite sumn_S, IH, qn_S. lra.
Qed.

Lemma skipn_S_tail : forall i (p : vec) q t, skipn i p = q :: t -> skipn (S i) p = t.
Proof.
  induction i as [|i IH]; intros p q t H.
  - cbn [skipn] in H. subst. reflexivity.
  - destruct p as [|a p']; [discriminate H|]. cbn [skipn] in H. apply IH in H. exact H.
Qed.

Lemma split_spec : forall t p avg i small large, skipn i p = t ->
  let '(small', large') := vose_split t avg i small large in
  (forall j, In j (small' ++ large') <-> In j (small ++ large) \/ (i <= j < length p)%nat) /\
  (forall j, In j small' -> In j small \/ nthq p j < avg) /\
  (forall j, In j large' -> In j large \/ avg <= nthq p j) /\
  (NoDup (small ++ large) -> (forall j, In j (small ++ large) -> (j < i)%nat) -> NoDup (small' ++ large')).
Proof.
  induction t as [|q t IH]; intros p avg i small large Hsk.
  - cbn [vose_split].
    assert (Hlen : (length p <= i)%nat).
    { destruct (le_lt_dec (length p) i) as [H|H]; [exact H|]. exfalso.
      assert (length (skipn i p) = 0%nat) by (rewrite Hsk; reflexivity). rewrite skipn_length in H0. lia. }
    split; [intros j; split; [intros H; left; exact H| intros [H|H]; [exact H| lia]]|].
    split; [intros j H; left; exact H|]. split; [intros j H; left; exact H| intros H _; exact H].
  - assert (Hi : (i < length p)%nat).
    { destruct (le_lt_dec (length p) i) as [H|H]; [| exact H]. rewrite skipn_all2 in Hsk by exact H. discriminate. }
    assert (Hq : nthq p i = q).
    { unfold nthq. rewrite <- (firstn_skipn i p) at 1. rewrite app_nth2; rewrite firstn_length_le by lia; [| lia].
      rewrite Nat.sub_diag, Hsk. reflexivity. }
    assert (Hsk' : skipn (S i) p = t).
    { apply (skipn_S_tail i p q t Hsk). }
    cbn [vose_split]. destruct (Qlt_le_dec q avg) as [Hlt|Hge].
    + specialize (IH p avg (S i) (i :: small) large Hsk').
      destruct (vose_split t avg (S i) (i :: small) large) as [small' large'].
      destruct IH as [H1 [H2 [H3 H4]]]. split; [| split; [| split]].
      * intros j. rewrite H1. cbn [app In]. split; [intros [[<-|H]|H]; [right; lia| left; exact H| right; lia]|].
        intros [H|H]; [left; right; exact H|]. destruct (Nat.eq_dec i j) as [->|Hne]; [left; left; reflexivity| right; lia].
      * intros j Hj. destruct (H2 j Hj) as [[<-|H]|H]; [right; rewrite Hq; exact Hlt| left; exact H| right; exact H].
      * exact H3.
      * intros Hnd Hb. apply H4.
        -- cbn [app]. constructor; [intros C; apply Hb in C; lia| exact Hnd].
        -- intros j [<-|Hj]; [lia| apply Hb in Hj; lia].
    + specialize (IH p avg (S i) small (i :: large) Hsk').
      destruct (vose_split t avg (S i) small (i :: large)) as [small' large'].
      destruct IH as [H1 [H2 [H3 H4]]]. split; [| split; [| split]].
      * intros j. rewrite H1. rewrite !in_app_iff. cbn [In]. split.
        -- intros [[H|[<-|H]]|H]; [left; left; exact H| right; lia| left; right; exact H| right; lia].
        -- intros [[H|H]|H]; [left; left; exact H| left; right; right; exact H|].
           destruct (Nat.eq_dec i j) as [->|Hne]; [left; right; left; reflexivity| right; lia].
      * exact H2.
      * intros j Hj. destruct (H3 j Hj) as [[<-|H]|H]; [right; rewrite Hq; exact Hge| left; exact H| right; exact H].
      * intros Hnd Hb. apply H4.
        -- apply (Permutation_NoDup (l := i :: small ++ large)); [apply Permutation_middle|].
           constructor; [intros C; apply Hb in C; lia| exact Hnd].
        -- intros j Hj. apply in_app_iff in Hj. cbn [In] in Hj.
           destruct Hj as [H|[<-|H]]; [| lia |];
             (assert (Hin : In j (small ++ large)) by (apply in_app_iff; tauto); apply Hb in Hin; lia).
Qed.

Lemma inv_init : forall p, p <> [] -> nonneg p ->
  let n := length p in let avg := 1 / qn n in
  let '(small, large) := vose_split p avg 0 [] [] in
  Inv n avg p p (repeat O n) small large /\ (length small + length large <= n)%nat.
Proof.
  intros p Hne Hnn n avg.
  pose proof (split_spec p p avg 0 [] [] eq_refl) as H.
  destruct (vose_split p avg 0 [] []) as [small large].
  destruct H as [H1 [H2 [H3 H4]]].
  assert (Hnd : NoDup (small ++ large)) by (apply H4; [constructor| intros j []]).
  assert (Hall : forall j, In j (small ++ large) <-> (j < n)%nat).
  { intros j. rewrite H1. cbn [app In]. unfold n. split; [intros [[]|H]; lia| intros H; right; lia]. }
  assert (Hn0 : (0 < n)%nat) by (unfold n; destruct p; [congruence| cbn; lia]).
  pose proof (qn_pos n Hn0) as Hqn.
  assert (Hmem : forall j, (j < n)%nat -> memb j (small ++ large) = true) by (intros j Hj; apply memb_iff, Hall; exact Hj).
  split.
  - constructor.
    + reflexivity.
    + apply repeat_length.
    + exact Hnd.
    + intros j Hj. apply Hall; exact Hj.
    + intros j Hj. destruct (H2 j Hj) as [[]|H]; exact H.
    + intros j Hj. destruct (H3 j Hj) as [[]|H]; exact H.
    + intros j Hj. unfold nonneg in Hnn. rewrite Forall_forall in Hnn. apply Hnn. unfold nthq. apply nth_In. exact Hj.
    + intros j Hj Hnin. exfalso. apply Hnin, Hall; exact Hj.
    + intros i Hi. unfold acct. rewrite (Hmem i Hi).
      rewrite (sumn_ext n _ (fun _ => 0)); [rewrite sumn_zero; lra|].
      intros j Hj. rewrite (Hmem j Hj). reflexivity.
    + rewrite (sumn_ext n _ (fun j => nthq p j + (- avg))) by (intros j Hj; rewrite (Hmem j Hj); lra).
      rewrite sumn_add.
      pose proof (sumn_nthq p) as E1. fold n in E1. pose proof (sumn_const n (- avg)) as E2.
      rewrite E1, E2. unfold avg. field. lra.
    + intros j Hj Hlow. reflexivity.
    + intros j Hj. destruct (H3 j Hj) as [[]|H]; exact H.
  - assert (length (small ++ large) <= n)%nat; [| rewrite app_length in H; exact H].
    apply (NoDup_incl_length (l' := seq 0 n)) in Hnd; [rewrite seq_length in Hnd; exact Hnd|].
    intros j Hj. apply in_seq. apply Hall in Hj. lia.
Qed.

(* ------------------------------------------------------------------ finishing and scaling *)
Lemma finish_cons : forall x L prob alias,
  vose_finish prob alias (x :: L) = vose_finish (upd prob x 1) (upd alias x x) L.
Proof. reflexivity. Qed.

Lemma finish_spec : forall L prob alias, (forall j, In j L -> (j < length prob)%nat /\ (j < length alias)%nat) ->
  length (fst (vose_finish prob alias L)) = length prob /\ length (snd (vose_finish prob alias L)) = length alias /\
  (forall j, nthq (fst (vose_finish prob alias L)) j = if memb j L then 1 else nthq prob j) /\
  (forall j, nth j (snd (vose_finish prob alias L)) O = if memb j L then j else nth j alias O).
Proof.
  induction L as [|x L IH]; intros prob alias Hb.
  - repeat split; reflexivity.
  - destruct (Hb x (or_introl eq_refl)) as [Hx1 Hx2].
    assert (Hb' : forall j, In j L -> (j < length (upd prob x 1%Q))%nat /\ (j < length (upd alias x x))%nat)
      by (intros j Hj; rewrite !upd_length; apply Hb; right; exact Hj).
    rewrite finish_cons.
    destruct (IH (upd prob x 1) (upd alias x x) Hb') as [L1 [L2 [P A]]].
    rewrite upd_length in L1, L2. split; [exact L1| split; [exact L2| split]].
    + intros j. rewrite P. unfold memb. cbn [existsb]. fold (memb j L).
      destruct (memb j L); [rewrite orb_true_r; reflexivity|]. rewrite orb_false_r.
      destruct (Nat.eqb_spec j x) as [->|Hne]; [apply nthq_upd_same; exact Hx1| apply nthq_upd_other; exact Hne].
    + intros j. rewrite A. unfold memb. cbn [existsb]. fold (memb j L).
      destruct (memb j L); [rewrite orb_true_r; reflexivity|]. rewrite orb_false_r.
      destruct (Nat.eqb_spec j x) as [->|Hne]; [apply nth_upd_same; exact Hx2| apply nth_upd_other; exact Hne].
Qed.

Lemma clamp01_id : forall q, 0 <= q -> q <= 1 -> clamp01 q == q.
Proof. intros q H0 H1. unfold clamp01. rewrite Q.min_r by exact H1. rewrite Q.max_r by exact H0. reflexivity. Qed.

Lemma clamp01_top : forall q, 1 <= q -> clamp01 q == 1.
Proof. intros q H. unfold clamp01. rewrite Q.min_l by exact H. rewrite Q.max_r by lra. reflexivity. Qed.

Lemma nthq_map_scale : forall (l : vec) c j, (j < length l)%nat -> nthq (map (fun q => q * c) l) j = nthq l j * c.
Proof.
  intros l c j H. unfold nthq.
  rewrite (nth_indep (map (fun q => q * c) l) 0 ((fun q => q * c) 0)) by (rewrite map_length; exact H).
  exact (map_nth (fun q => q * c) l 0 j).
Qed.

(* ------------------------------------------------------------------ the theorems *)
(* Master statement, for every non-negative vector (whatever its sum): the mass of index i is
   p_i + e_i, where the excess e_i is bounded by |sum p - 1| and vanishes on indices of probability
   zero as long as the shortfall is below one cell (1/n). *)
Lemma alias_mass_master : forall p, p <> [] -> nonneg p ->
  let '(prob, alias) := vose_fix p in
  length prob = length p /\ length alias = length p /\
  Forall (fun a => (a < length p)%nat) alias /\
  forall i, (i < length p)%nat -> exists e,
    alias_mass prob alias i == nthq p i + e /\
    (forall d, - d <= qsum p - 1 -> qsum p - 1 <= d -> - d <= e /\ e <= d) /\
    (nthq p i == 0 -> - (1 / qn (length p)) < qsum p - 1 -> e == 0).
Proof.
  intros p Hne Hnn. unfold vose_fix.
  pose proof (inv_init p Hne Hnn) as H0. cbv zeta in H0.
  change (inject_Z (Z.of_nat (length p))) with (qn (length p)).
  set (n := length p) in *. set (avg := 1 / qn n) in *.
  destruct (vose_split p avg 0 [] []) as [small0 large0]. destruct H0 as [I0 Hfuel].
  pose proof (inv_pair n n avg p p (repeat O n) small0 large0 I0 Hfuel) as H1.
  destruct (vose_pair n avg p (repeat O n) small0 large0) as [[[prob alias] small] large].
  destruct H1 as [I Hend].
  assert (Hn0 : (0 < n)%nat) by (unfold n; destruct p; [congruence| cbn; lia]).
  pose proof (qn_pos n Hn0) as Hqn.
  assert (Hna : qn n * avg == 1) by (unfold avg; field; lra).
  assert (Havg : 0 < avg) by (unfold avg; apply Qlt_shift_div_l; lra).
  destruct I as [Hlp Hla Hnd Hlt Hsm Hlg Hp0 Hfin Hacct Htot Hkeep Hlgp].
  set (W := small ++ large) in *.
  set (f := fun j => if memb j W then nthq prob j - avg else 0) in *.
  (* what the entries left in a worklist hold, relative to avg *)
  assert (HW : forall j, In j W ->
            (forall d, - d <= qsum p - 1 -> qsum p - 1 <= d -> - d <= avg - nthq prob j /\ avg - nthq prob j <= d) /\
            (nthq prob j == 0 -> - avg < qsum p - 1 -> False)).
  { intros j Hj. pose proof (Hlt j Hj) as Hjn.
    assert (Hfj : f j = nthq prob j - avg) by (unfold f; apply memb_iff in Hj; rewrite Hj; reflexivity).
    destruct Hend as [-> | ->].
    - assert (Hge : forall k, (k < n)%nat -> 0 <= f k).
      { intros k Hk. unfold f. destruct (memb k W) eqn:E; [| lra]. apply memb_iff in E.
        pose proof (Hlg k E). lra. }
      pose proof (sumn_ge_term n f j Hge Hjn) as Hle. rewrite Htot, Hfj in Hle.
      pose proof (Hlg j Hj) as Hjl. split; [intros d D1 D2; split; lra| intros Z _; lra].
    - assert (Hle0 : forall k, (k < n)%nat -> f k <= 0).
      { intros k Hk. unfold f. destruct (memb k W) eqn:E; [| lra]. apply memb_iff in E.
        unfold W in E. rewrite app_nil_r in E. pose proof (Hsm k E). lra. }
      pose proof (sumn_le_term n f j Hle0 Hjn) as Hle. rewrite Htot, Hfj in Hle.
      unfold W in Hj. rewrite app_nil_r in Hj. pose proof (Hsm j Hj) as Hjs.
      split; [intros d D1 D2; split; lra| intros Z D; lra]. }
  (* finishing: large first, then small *)
  assert (Hb1 : forall j, In j large -> (j < length prob)%nat /\ (j < length alias)%nat)
    by (intros j Hj; rewrite Hlp, Hla; split; apply Hlt; apply in_or_app; right; exact Hj).
  pose proof (finish_spec large prob alias Hb1) as F1.
  destruct (vose_finish prob alias large) as [prob1 alias1]. cbn [fst snd] in F1.
  destruct F1 as [L1 [L1' [P1 A1]]].
  assert (Hb2 : forall j, In j small -> (j < length prob1)%nat /\ (j < length alias1)%nat)
    by (intros j Hj; rewrite L1, L1', Hlp, Hla; split; apply Hlt; apply in_or_app; left; exact Hj).
  pose proof (finish_spec small prob1 alias1 Hb2) as F2.
  destruct (vose_finish prob1 alias1 small) as [prob2 alias2]. cbn [fst snd] in F2.
  destruct F2 as [L2 [L2' [P2 A2]]].
  assert (HmW : forall j, memb j W = memb j small || memb j large).
  { intros j. unfold W, memb. apply existsb_app. }
  assert (P : forall j, nthq prob2 j = if memb j W then 1 else nthq prob j).
  { intros j. rewrite P2, P1, HmW. destruct (memb j small), (memb j large); reflexivity. }
  assert (A : forall j, nth j alias2 O = if memb j W then j else nth j alias O).
  { intros j. rewrite A2, A1, HmW. destruct (memb j small), (memb j large); reflexivity. }
  assert (Hl2 : length prob2 = n) by congruence.
  assert (Hl2' : length alias2 = n) by congruence.
  cbv beta iota.
  split; [rewrite map_length; exact Hl2| split; [exact Hl2'| split]].
  - apply Forall_forall. intros a Ha. destruct (In_nth alias2 a O Ha) as [j [Hj <-]]. rewrite Hl2' in Hj.
    rewrite A. destruct (memb j W) eqn:E; [exact Hj|]. apply memb_false_iff in E. apply (Hfin j Hj E).
  - intros i Hi.
    exists (if memb i W then avg - nthq prob i else 0).
    split; [| split].
    + unfold alias_mass. rewrite map_length, Hl2. fold (qn n).
      rewrite <- (Hacct i Hi). unfold acct. fold (sumn n (fun j => cell_len (map (fun q => q * qn n) prob2) alias2 j i)).
      assert (Hcell : forall j, (j < n)%nat ->
                cell_len (map (fun q => q * qn n) prob2) alias2 j i ==
                (if (j =? i)%nat then (if memb i W then 1 else 0) else 0) +
                qn n * (if memb j W then 0 else contrib avg prob alias j i)).
      { intros j Hj. unfold cell_len. rewrite nthq_map_scale by lia. rewrite P, A.
        destruct (memb j W) eqn:E; cbv iota.
        - assert (H1n : 1 <= 1 * qn n).
          { assert (1 <= qn n); [| lra]. unfold qn. change 1 with (inject_Z 1). rewrite <- Zle_Qle. lia. }
          pose proof (clamp01_top _ H1n) as Hc.
          destruct (Nat.eqb_spec j i) as [->|Hji]; [rewrite E|]; lra.
        - assert (E' := E). apply memb_false_iff in E'. destruct (Hfin j Hj E') as [Hle _]. pose proof (Hp0 j Hj) as Hge.
          assert (Hc0 : 0 <= nthq prob j * qn n) by nra.
          assert (Hc1 : nthq prob j * qn n <= 1) by nra.
          pose proof (clamp01_id _ Hc0 Hc1) as Hc. unfold contrib.
          destruct (Nat.eqb_spec j i) as [->|Hji].
          + rewrite E. destruct (nth i alias O =? i)%nat; nra.
          + destruct (nth j alias O =? i)%nat; nra. }
      rewrite (sumn_ext n _ _ Hcell), sumn_add, sumn_scale, sumn_point by exact Hi.
      destruct (memb i W) eqn:E.
      * field_simplify_eq; [| lra]. unfold avg. field. lra.
      * field. lra.
    + intros d D1 D2. destruct (memb i W) eqn:E; [| lra].
      apply memb_iff in E. apply (proj1 (HW i E)); assumption.
    + intros Z D. destruct (memb i W) eqn:E; [| reflexivity]. exfalso.
      apply memb_iff in E. apply (proj2 (HW i E)); [| exact D].
      rewrite (Hkeep i Hi); [exact Z| lra].
Qed.

(* exact masses when the vector sums to one *)
Lemma alias_mass_lemma : forall p, p <> [] -> is_dist p ->
  let '(prob, alias) := vose_fix p in
  length prob = length p /\ length alias = length p /\
  Forall (fun a => (a < length p)%nat) alias /\
  forall i, (i < length p)%nat -> alias_mass prob alias i == nthq p i.
Proof.
  intros p Hne [Hnn Hs]. pose proof (alias_mass_master p Hne Hnn) as H.
  destruct (vose_fix p) as [prob alias]. destruct H as [H1 [H2 [H3 H4]]].
  split; [exact H1| split; [exact H2| split; [exact H3|]]].
  intros i Hi. destruct (H4 i Hi) as [e [He [Hb _]]].
  destruct (Hb 0) as [L U]; [lra| lra|]. rewrite He. lra.
Qed.

(* any vector isProbability accepts: masses within |sum p - 1| of p_i, and an index of probability
   zero keeps mass zero (the shortfall, at most 1e-6, is below one cell for n < 10^6) *)
Lemma alias_mass_slack_lemma : forall p d, p <> [] -> nonneg p -> - d <= qsum p - 1 -> qsum p - 1 <= d ->
  let '(prob, alias) := vose_fix p in
  length prob = length p /\ length alias = length p /\
  Forall (fun a => (a < length p)%nat) alias /\
  forall i, (i < length p)%nat ->
    - d <= alias_mass prob alias i - nthq p i /\ alias_mass prob alias i - nthq p i <= d.
Proof.
  intros p d Hne Hnn D1 D2. pose proof (alias_mass_master p Hne Hnn) as H.
  destruct (vose_fix p) as [prob alias]. destruct H as [H1 [H2 [H3 H4]]].
  split; [exact H1| split; [exact H2| split; [exact H3|]]].
  intros i Hi. destruct (H4 i Hi) as [e [He [Hb _]]].
  destruct (Hb d D1 D2) as [L U]. rewrite He. split; lra.
Qed.

Lemma alias_support_lemma : forall p, p <> [] -> nonneg p -> - (1 / qn (length p)) < qsum p - 1 ->
  let '(prob, alias) := vose_fix p in
  forall i, (i < length p)%nat -> nthq p i == 0 -> alias_mass prob alias i == 0.
Proof.
  intros p Hne Hnn D. pose proof (alias_mass_master p Hne Hnn) as H.
  destruct (vose_fix p) as [prob alias]. destruct H as [_ [_ [_ H4]]].
  intros i Hi Z. destruct (H4 i Hi) as [e [He [_ Hz]]].
  rewrite He, (Hz Z D), Z. lra.
Qed.
