(* C08/Spec.v — what "sampling follows the stated distribution" means, written without reference to
   the loops of the code: cumulative sums, preimage intervals and their lengths (the probability mass
   of an index under a uniform draw), validity of probability vectors, and the boolean checkers the
   driver applies to the implementation's outputs. *)
From Coq Require Import List Arith QArith Qminmax Qround ZArith Bool.
From AIT Require Import Base.Qx.
Import ListNotations.
Local Open Scope Q_scope.

(* c_i = p_0 + … + p_{i-1} *)
Fixpoint cum (p : vec) (i : nat) : Q :=
  match i, p with S j, x :: t => x + cum t j | _, _ => 0 end.

(* the set of draws that must select index i: [c_i, c_{i+1}), and for the last index also
   [c_n, +inf) — the documented slack when the entries sum to less than the draw *)
Definition dense_sel (p : vec) (u : Q) (i : nat) : Prop :=
  (cum p i <= u /\ u < cum p (S i)) \/ (i = Nat.pred (length p) /\ cum p (length p) <= u).

Definition dense_selb (p : vec) (u : Q) (i : nat) : bool :=
  (Qle_bool (cum p i) u && negb (Qle_bool (cum p (S i)) u))
  || ((i =? Nat.pred (length p))%nat && Qle_bool (cum p (length p)) u).

(* Lebesgue measure of { u in [0,1) | index i is selected }: the interval above cut to [0,1) *)
Definition dense_mass (p : vec) (i : nat) : Q :=
  (if (i =? Nat.pred (length p))%nat then 1 else Qmin 1 (cum p (S i))) - Qmin 1 (cum p i).

(* a probability vector in the sense of isProbability: non-negative, sum within 1e-6 of one *)
Definition is_prob_tol (p : vec) : Prop := nonneg p /\ - epsS <= qsum p - 1 /\ qsum p - 1 <= epsS.
Definition is_prob_tolb (p : vec) : bool :=
  nonnegb p && Qle_bool (- epsS) (qsum p - 1) && Qle_bool (qsum p - 1) epsS.

(* ---- sparse rows: [sparse_of k p row] = row stores the entries of p (columns counted from k),
   possibly omitting entries equal to zero *)
Inductive sparse_of : nat -> vec -> list (nat * Q) -> Prop :=
| sp_nil : forall k, sparse_of k [] []
| sp_keep : forall k x t r, sparse_of (S k) t r -> sparse_of k (x :: t) ((k, x) :: r)
| sp_drop : forall k x t r, x == 0 -> sparse_of (S k) t r -> sparse_of k (x :: t) r.

(* dense expansion of a sparse row of width d (columns not stored are zero) *)
Definition expand (d : nat) (row : list (nat * Q)) : vec :=
  map (fun j => qsum (map snd (filter (fun e => (fst e =? j)%nat) row))) (seq 0 d).
Fixpoint cols_ok (k d : nat) (row : list (nat * Q)) : bool :=
  match row with
  | [] => true
  | (c, _) :: t => (k <=? c)%nat && (c <? d)%nat && cols_ok (S c) d t
  end.

(* ---- alias tables: cell j of n is chosen with probability 1/n; inside it the coin [q_j] (scaled
   to [0,1] by clamping) selects j, the rest selects alias_j *)
Definition clamp01 (q : Q) : Q := Qmax 0 (Qmin 1 q).
(* length of { y in [0,1) | cell j returns i } *)
Definition cell_len (prob : vec) (alias : list nat) (j i : nat) : Q :=
  (if (j =? i)%nat then clamp01 (nthq prob j) else 0) +
  (if (nth j alias O =? i)%nat then 1 - clamp01 (nthq prob j) else 0).
Definition alias_mass (prob : vec) (alias : list nat) (i : nat) : Q :=
  qsum (map (fun j => cell_len prob alias j i) (seq 0 (length prob))) / inject_Z (Z.of_nat (length prob)).

(* the table checker: shapes agree, aliases in range, every index has exactly its mass *)
Definition alias_table_ok (p prob : vec) (alias : list nat) : bool :=
  (length prob =? length p)%nat && (length alias =? length p)%nat &&
  forallb (fun a => (a <? length p)%nat) alias &&
  forallb (fun i => Qeq_bool (alias_mass prob alias i) (nthq p i)) (seq 0 (length p)).

(* the checker for vectors whose sum is only within tolerance of one: masses within |sum p - 1| of
   p_i, and an index of probability zero has mass zero (it is never returned) *)
Definition alias_table_slack_ok (p prob : vec) (alias : list nat) : bool :=
  let d := qabs (qsum p - 1) in
  (length prob =? length p)%nat && (length alias =? length p)%nat &&
  forallb (fun a => (a <? length p)%nat) alias &&
  forallb (fun i => let mi := alias_mass prob alias i in
             Qle_bool (- d) (mi - nthq p i) && Qle_bool (mi - nthq p i) d &&
             (negb (Qeq_bool (nthq p i) 0) || Qeq_bool mi 0)) (seq 0 (length p)).

(* ---- sortedness for the random simplex point *)
Inductive ascending : vec -> Prop :=
| asc_nil : ascending []
| asc_one : forall x, ascending [x]
| asc_cons : forall x y t, x <= y -> ascending (y :: t) -> ascending (x :: y :: t).
