(* C08/Proofs3.v — alias tables: what a table means (cell rule, masses), the verified table
   checker, and the refutation of the in-place construction as it stands. *)
From Coq Require Import List Arith QArith Qminmax Qround Lqa Lia Bool ZArith.
From AIT Require Import Base.Qx C08.Model C08.Spec C08.Proofs2.
Import ListNotations.
Local Open Scope Q_scope.

Lemma clamp01_range : forall q, 0 <= clamp01 q /\ clamp01 q <= 1.
Proof.
  intros q. unfold clamp01.
  destruct (Q.max_spec 0 (Qmin 1 q)) as [[H ->]|[H ->]]; destruct (Q.min_spec 1 q) as [[H' E]|[H' E]];
    rewrite ?E in *; split; lra.
Qed.

Lemma clamp01_lt : forall q y, 0 <= y -> y < 1 -> (y < q <-> y < clamp01 q).
Proof.
  intros q y H0 H1. unfold clamp01.
  destruct (Q.max_spec 0 (Qmin 1 q)) as [[H ->]|[H ->]]; destruct (Q.min_spec 1 q) as [[H' E]|[H' E]];
    rewrite ?E in *; split; lra.
Qed.

Lemma nth_error_nthq : forall (l : vec) j, (j < length l)%nat -> nth_error l j = Some (nthq l j).
Proof. intros l j H. unfold nthq. apply nth_error_nth'. exact H. Qed.

(* the cell rule: a draw x in [0,n) falls in cell j = floor x at offset y = x - j in [0,1); the
   sampler returns j on [0, c_j) and alias_j on [c_j, 1), c_j the coin clamped to [0,1] *)
Lemma alias_cell_lemma : forall prob alias x, 0 <= x -> x < qn (length prob) -> length alias = length prob ->
  let j := Z.to_nat (Qfloor x) in
  let y := x - inject_Z (Qfloor x) in
  (j < length prob)%nat /\ 0 <= y /\ y < 1 /\
  forall i, (alias_sample prob alias x = Ok i <->
             (i = j /\ y < clamp01 (nthq prob j)) \/ (i = nth j alias O /\ clamp01 (nthq prob j) <= y)).
Proof.
  intros prob alias x Hx0 Hxn Hlen j y.
  pose proof (Qfloor_le x) as Hfl. pose proof (Qlt_floor x) as Hfu.
  assert (Hf0 : (0 <= Qfloor x)%Z).
  { change 0%Z with (Qfloor 0). apply Qfloor_resp_le. exact Hx0. }
  assert (Hfn : (Qfloor x < Z.of_nat (length prob))%Z).
  { rewrite Zlt_Qlt. unfold qn in Hxn. lra. }
  assert (Hj : (j < length prob)%nat) by (unfold j; lia).
  assert (Hy0 : 0 <= y) by (unfold y; lra).
  assert (Hy1 : y < 1).
  { unfold y. rewrite inject_Z_plus in Hfu. change (inject_Z 1) with 1 in Hfu. lra. }
  split; [exact Hj| split; [exact Hy0| split; [exact Hy1|]]].
  intros i. unfold alias_sample. fold j. fold y.
  rewrite (nth_error_nthq prob j Hj).
  assert (Ha : nth_error alias j = Some (nth j alias O)) by (apply nth_error_nth'; lia).
  rewrite Ha.
  pose proof (clamp01_lt (nthq prob j) y Hy0 Hy1) as Hc.
  destruct (Qlt_le_dec y (nthq prob j)) as [Hlt|Hge].
  - split.
    + intros E. inversion E; subst. left. split; [reflexivity| apply Hc; exact Hlt].
    + intros [[-> _]|[_ H]]; [reflexivity|]. exfalso. apply Hc in Hlt. lra.
  - split.
    + intros E. inversion E; subst. right. split; [reflexivity|].
      apply Qnot_lt_le. intros C. apply Hc in C. lra.
    + intros [[_ H]|[-> _]]; [|reflexivity]. exfalso. apply Hc in H. lra.
Qed.

(* in range whenever the aliases are *)
Lemma alias_in_range_lemma : forall prob alias x, 0 <= x -> x < qn (length prob) ->
  length alias = length prob -> Forall (fun a => (a < length prob)%nat) alias ->
  exists i, alias_sample prob alias x = Ok i /\ (i < length prob)%nat.
Proof.
  intros prob alias x H0 H1 Hl Ha.
  destruct (alias_cell_lemma prob alias x H0 H1 Hl) as [Hj [Hy0 [Hy1 Hc]]].
  set (j := Z.to_nat (Qfloor x)) in *. set (y := x - inject_Z (Qfloor x)) in *.
  destruct (Qlt_le_dec y (clamp01 (nthq prob j))) as [Hlt|Hge].
  - exists j. split; [apply Hc; left; split; [reflexivity| exact Hlt]| exact Hj].
  - exists (nth j alias O). split; [apply Hc; right; split; [reflexivity| exact Hge]|].
    rewrite Forall_forall in Ha. apply Ha. apply nth_In. lia.
Qed.

(* the length of { y in [0,1) | cell j returns i } is cell_len: the two pieces of the cell rule are
   [0, c_j) and [c_j, 1) *)
Lemma cell_len_pieces : forall prob alias j i,
  cell_len prob alias j i ==
    (if (j =? i)%nat then clamp01 (nthq prob j) - 0 else 0) +
    (if (nth j alias O =? i)%nat then 1 - clamp01 (nthq prob j) else 0).
Proof. intros. unfold cell_len. destruct (j =? i)%nat, (nth j alias O =? i)%nat; lra. Qed.

(* the verified table checker *)
Lemma alias_table_ok_sound : forall p prob alias, alias_table_ok p prob alias = true ->
  length prob = length p /\ length alias = length p /\
  Forall (fun a => (a < length p)%nat) alias /\
  forall i, (i < length p)%nat -> alias_mass prob alias i == nthq p i.
Proof.
  intros p prob alias H. unfold alias_table_ok in H.
  rewrite !andb_true_iff in H. destruct H as [[[H1 H2] H3] H4].
  apply Nat.eqb_eq in H1. apply Nat.eqb_eq in H2.
  split; [exact H1| split; [exact H2| split]].
  - apply Forall_forall. intros a Ha. rewrite forallb_forall in H3. specialize (H3 a Ha).
    apply Nat.ltb_lt in H3. exact H3.
  - intros i Hi. rewrite forallb_forall in H4. apply Qeq_bool_iff. apply H4. apply in_seq. lia.
Qed.

Lemma alias_table_slack_ok_sound : forall p prob alias, alias_table_slack_ok p prob alias = true ->
  length prob = length p /\ length alias = length p /\
  Forall (fun a => (a < length p)%nat) alias /\
  forall i, (i < length p)%nat ->
    - qabs (qsum p - 1) <= alias_mass prob alias i - nthq p i /\
    alias_mass prob alias i - nthq p i <= qabs (qsum p - 1) /\
    (nthq p i == 0 -> alias_mass prob alias i == 0).
Proof.
  intros p prob alias H. unfold alias_table_slack_ok in H.
  rewrite !andb_true_iff in H. destruct H as [[[H1 H2] H3] H4].
  apply Nat.eqb_eq in H1. apply Nat.eqb_eq in H2.
  split; [exact H1| split; [exact H2| split]].
  - apply Forall_forall. intros a Ha. rewrite forallb_forall in H3. specialize (H3 a Ha).
    apply Nat.ltb_lt in H3. exact H3.
  - intros i Hi. rewrite forallb_forall in H4. specialize (H4 i ltac:(apply in_seq; lia)).
    cbv zeta in H4. rewrite !andb_true_iff, orb_true_iff, negb_true_iff, !Qle_bool_iff in H4.
    destruct H4 as [[L U] S]. split; [exact L| split; [exact U|]].
    intros Z. destruct S as [S|S]; [| apply Qeq_bool_iff; exact S].
    apply Qeq_bool_iff in Z. congruence.
Qed.

(* the construction as it stands: [1/2,1/4,1/4] gets the uniform table *)
Lemma alias_mass_refuted_lemma : exists p prob alias i,
  is_dist p /\ vose_cur p = Some (prob, alias) /\ (i < length p)%nat /\
  ~ alias_mass prob alias i == nthq p i.
Proof.
  exists [1 # 2; 1 # 4; 1 # 4].
  destruct (vose_cur [1 # 2; 1 # 4; 1 # 4]) as [[prob alias]|] eqn:E; [| vm_compute in E; discriminate].
  exists prob, alias, 0%nat.
  split; [split; [repeat constructor; discriminate| reflexivity]|].
  split; [reflexivity|]. split; [cbn; lia|].
  vm_compute in E. inversion E; subst. vm_compute. intros H. discriminate H.
Qed.

(* … every index of that table has mass 1/3 *)
Lemma alias_mass_refuted_uniform : match vose_cur [1 # 2; 1 # 4; 1 # 4] with
  | Some (prob, alias) => Forall (fun i => alias_mass prob alias i == 1 # 3) [0; 1; 2]%nat
  | None => False end.
Proof. vm_compute. repeat constructor. Qed.

(* and [1,0] becomes a fair coin (the `alias_[x] != 0` marker takes "aliased to 0" for "unassigned") *)
Lemma alias_mass_refuted_marker : match vose_cur [1; 0] with
  | Some (prob, alias) => alias_mass prob alias 1 == 1 # 2
  | None => False end.
Proof. vm_compute. reflexivity. Qed.

(* the repaired construction on the same inputs *)
Lemma alias_fix_witnesses :
  (let '(prob, alias) := vose_fix [1 # 2; 1 # 4; 1 # 4] in alias_table_ok [1 # 2; 1 # 4; 1 # 4] prob alias) = true /\
  (let '(prob, alias) := vose_fix [1; 0] in alias_table_ok [1; 0] prob alias) = true /\
  (let '(prob, alias) := vose_fix [1 # 10; 1 # 4; 1 # 10; 3 # 10; 1 # 4] in
   alias_table_ok [1 # 10; 1 # 4; 1 # 10; 3 # 10; 1 # 4] prob alias) = true.
Proof. vm_compute. repeat split. Qed.
