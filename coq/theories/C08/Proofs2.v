(* C08/Proofs2.v — makeRandomProbability and projectToProbability. *)
From Coq Require Import List Arith QArith Qminmax Lqa Lia Bool ZArith.
From AIT Require Import Base.Qx C08.Model C08.Spec C08.Proofs.
Import ListNotations.
Local Open Scope Q_scope.

(* ------------------------------------------------------------------ sorting *)
Lemma insert_Forall : forall (P : Q -> Prop) l x, P x -> Forall P l -> Forall P (insert_q x l).
Proof.
  induction l as [|y t IH]; intros x Hx Hl; cbn [insert_q]; [constructor; [exact Hx| constructor]|].
  inversion Hl; subst. destruct (Qlt_le_dec y x); constructor; auto.
Qed.

Lemma sort_Forall : forall (P : Q -> Prop) l, Forall P l -> Forall P (sort_q l).
Proof.
  induction l as [|x t IH]; intros H; cbn [sort_q]; [constructor|].
  inversion H; subst. apply insert_Forall; auto.
Qed.

Lemma insert_length : forall l x, length (insert_q x l) = S (length l).
Proof.
  induction l as [|y t IH]; intros x; cbn [insert_q length]; [reflexivity|].
  destruct (Qlt_le_dec y x); cbn [length]; [rewrite IH|]; reflexivity.
Qed.

Lemma sort_length : forall l, length (sort_q l) = length l.
Proof. induction l as [|x t IH]; cbn [sort_q length]; [reflexivity| rewrite insert_length, IH; reflexivity]. Qed.

Lemma asc_tail : forall x l, ascending (x :: l) -> ascending l.
Proof. intros x l H; inversion H; [constructor| assumption]. Qed.

Lemma asc_insert : forall l x, ascending l -> ascending (insert_q x l).
Proof.
  induction l as [|y t IH]; intros x H; cbn [insert_q]; [constructor|].
  destruct (Qlt_le_dec y x) as [Hyx|Hxy].
  - pose proof (IH x (asc_tail y t H)) as Hi.
    destruct t as [|z t']; cbn [insert_q] in *.
    + constructor; [lra| constructor].
    + destruct (Qlt_le_dec z x).
      * constructor; [inversion H; assumption| exact Hi].
      * constructor; [lra| exact Hi].
  - constructor; [exact Hxy| exact H].
Qed.

Lemma sort_ascending : forall l, ascending (sort_q l).
Proof. induction l as [|x t IH]; cbn [sort_q]; [constructor| apply asc_insert; exact IH]. Qed.

(* the sorted list has the same elements: every count is preserved *)
Lemma insert_In : forall l x y, In y (insert_q x l) <-> y = x \/ In y l.
Proof.
  induction l as [|z t IH]; intros x y; cbn [insert_q].
  - cbn [In]. intuition.
  - destruct (Qlt_le_dec z x); cbn [In]; [rewrite IH|]; intuition.
Qed.

Lemma sort_In : forall l y, In y (sort_q l) <-> In y l.
Proof.
  induction l as [|x t IH]; intros y; cbn [sort_q]; [reflexivity|].
  rewrite insert_In, IH. cbn [In]. intuition.
Qed.

(* ------------------------------------------------------------------ spacings *)
Lemma last_cons : forall (t : vec) a d, last (a :: t) d = last t a.
Proof.
  induction t as [|b t IH]; intros a d; [reflexivity|].
  change (last (a :: b :: t) d) with (last (b :: t) d). rewrite (IH b d), (IH b a). reflexivity.
Qed.

Lemma spacings_nonneg : forall l prev, ascending (prev :: l) -> nonneg (spacings prev l).
Proof.
  induction l as [|a t IH]; intros prev H; cbn [spacings]; [constructor|].
  inversion H; subst. constructor; [lra| apply IH; assumption].
Qed.

Lemma spacings_sum : forall l prev, qsum (spacings prev l) == last l prev - prev.
Proof.
  induction l as [|a t IH]; intros prev; cbn [spacings qsum].
  - cbn [last]. lra.
  - rewrite last_cons, IH. lra.
Qed.

Lemma spacings_length : forall l prev, length (spacings prev l) = length l.
Proof. induction l as [|a t IH]; intros prev; cbn [spacings length]; [reflexivity| rewrite IH; reflexivity]. Qed.

Lemma last_Forall : forall (P : Q -> Prop) l d, P d -> Forall P l -> P (last l d).
Proof.
  induction l as [|a t IH]; intros d Hd H; [exact Hd|].
  rewrite last_cons. inversion H; subst. apply IH; assumption.
Qed.

(* partial sums of the spacings give back the sorted draws: the output is "the unit interval cut
   at the draws" *)
Lemma spacings_cum : forall l prev k, (k < length l)%nat ->
  prev + cum (spacings prev l) (S k) == nth k l 0.
Proof.
  induction l as [|a t IH]; intros prev k Hk; cbn [length] in Hk; [lia|].
  cbn [spacings]. rewrite cum_cons. destruct k.
  - rewrite cum_0. cbn [nth]. lra.
  - cbn [nth]. rewrite <- (IH a k ltac:(lia)). lra.
Qed.

(* ------------------------------------------------------------------ makeRandomProbability *)
Lemma random_prob_valid_lemma : forall us, Forall (fun u => 0 <= u /\ u <= 1) us ->
  length (random_prob us) = S (length us) /\ nonneg (random_prob us) /\ qsum (random_prob us) == 1.
Proof.
  intros us H. unfold random_prob.
  pose proof (sort_Forall _ us H) as Hs. pose proof (sort_ascending us) as Ha.
  set (s := sort_q us) in *.
  assert (Hl : 0 <= last s 0 /\ last s 0 <= 1) by (apply (last_Forall (fun u => 0 <= u /\ u <= 1)); [lra| exact Hs]).
  assert (Ha0 : ascending (0 :: s)).
  { destruct s as [|a t]; [constructor|]. inversion Hs; subst. constructor; [lra| exact Ha]. }
  split; [| split].
  - rewrite app_length, spacings_length. unfold s. rewrite sort_length. cbn [length]. lia.
  - unfold nonneg. apply Forall_app. split; [apply spacings_nonneg; exact Ha0| constructor; [lra| constructor]].
  - rewrite qsum_app, spacings_sum. cbn [qsum]. lra.
Qed.

(* ------------------------------------------------------------------ projectToProbability *)
Definition posq (x : Q) : Q := if Qlt_le_dec x 0 then 0 else x.

Lemma eqSmall_iff : forall a b, eqSmall a b = true <-> - epsS <= a - b /\ a - b <= epsS.
Proof.
  intros a b. unfold eqSmall, qabs. rewrite Qle_bool_iff. split.
  - intros H. pose proof (Q.le_max_l (a - b) (- (a - b))). pose proof (Q.le_max_r (a - b) (- (a - b))). split; lra.
  - intros [H1 H2]. apply Q.max_lub; lra.
Qed.

Lemma possum_eq : forall v, possum v = qsum (map posq v).
Proof. reflexivity. Qed.

Lemma possum_nonneg : forall v, 0 <= possum v.
Proof.
  induction v as [|x t IH]; unfold possum in *; cbn [map qsum]; [lra|].
  destruct (Qlt_le_dec x 0); lra.
Qed.

Lemma possum_of_nonneg : forall v, nonneg v -> possum v == qsum v.
Proof.
  induction v as [|x t IH]; intros H; unfold possum in *; cbn [map qsum]; [lra|].
  inversion H; subst. destruct (Qlt_le_dec x 0); [lra| rewrite IH by assumption; lra].
Qed.

Lemma qn_S : forall k, qn (S k) == qn k + 1.
Proof. intros k. unfold qn. rewrite Nat2Z.inj_succ, <- Z.add_1_r, inject_Z_plus. reflexivity. Qed.

Lemma qn_pos : forall k, (0 < k)%nat -> 0 < qn k.
Proof.
  intros k H. unfold qn. replace 0 with (inject_Z 0) by reflexivity. rewrite <- Zlt_Qlt. lia.
Qed.

Lemma qn_nonneg : forall k, 0 <= qn k.
Proof. intros k. unfold qn. replace 0 with (inject_Z 0) by reflexivity. rewrite <- Zle_Qle. lia. Qed.

Lemma poscount_zero : forall v, poscount v = 0%nat -> possum v == 0.
Proof.
  induction v as [|x t IH]; unfold possum, poscount in *; cbn [map qsum filter]; [lra|].
  destruct (Qlt_le_dec x 0); cbn [length]; [intros H; rewrite IH by exact H; lra| discriminate].
Qed.

Lemma poscount_le : forall v, (poscount v <= length v)%nat.
Proof.
  intros v. unfold poscount. induction v as [|x t IH]; cbn [filter length]; [lia|].
  destruct (Qlt_le_dec x 0); cbn [length]; lia.
Qed.

(* the four output shapes *)
Lemma proj_len : forall (f : Q * Q -> Q) v, length (map f (combine (mask_of v) v)) = length v.
Proof. intros f v. rewrite map_length, combine_length. unfold mask_of. rewrite map_length. lia. Qed.

Lemma proj_mul_nonneg : forall v, nonneg (map (fun p => fst p * snd p) (combine (mask_of v) v)).
Proof.
  induction v as [|x t IH]; cbn [mask_of map combine fst snd]; [constructor|].
  constructor; [destruct (Qlt_le_dec x 0); lra| exact IH].
Qed.

Lemma proj_mul_sum : forall v, qsum (map (fun p => fst p * snd p) (combine (mask_of v) v)) == possum v.
Proof.
  induction v as [|x t IH]; unfold possum in *; cbn [mask_of map combine fst snd qsum]; [lra|].
  fold (mask_of t). rewrite IH. destruct (Qlt_le_dec x 0); lra.
Qed.

Lemma proj_div_nonneg : forall v s, 0 < s -> nonneg (map (fun p => fst p * (snd p / s)) (combine (mask_of v) v)).
Proof.
  intros v s Hs. induction v as [|x t IH]; cbn [mask_of map combine fst snd]; [constructor|].
  constructor; [| exact IH]. destruct (Qlt_le_dec x 0); [lra|].
  assert (0 <= x / s) by (apply Qle_shift_div_l; lra). lra.
Qed.

Lemma proj_div_sum : forall v s, 0 < s ->
  qsum (map (fun p => fst p * (snd p / s)) (combine (mask_of v) v)) == possum v / s.
Proof.
  intros v s Hs. induction v as [|x t IH]; unfold possum in *; cbn [mask_of map combine fst snd qsum].
  - field. lra.
  - fold (mask_of t). rewrite IH. destruct (Qlt_le_dec x 0); field; lra.
Qed.

Lemma proj_add_nonneg : forall v d, 0 <= d -> nonneg (map (fun p => fst p * (snd p + d)) (combine (mask_of v) v)).
Proof.
  intros v d Hd. induction v as [|x t IH]; cbn [mask_of map combine fst snd]; [constructor|].
  constructor; [| exact IH]. destruct (Qlt_le_dec x 0); [rewrite Qmult_0_l; lra| lra].
Qed.

Lemma proj_add_sum : forall v d,
  qsum (map (fun p => fst p * (snd p + d)) (combine (mask_of v) v)) == possum v + qn (poscount v) * d.
Proof.
  intros v d. induction v as [|x t IH]; unfold possum, poscount in *; cbn [mask_of map combine fst snd qsum filter].
  - cbn [length]. change (qn 0) with 0. lra.
  - fold (mask_of t). rewrite IH. destruct (Qlt_le_dec x 0); cbn [length]; [lra|].
    rewrite qn_S. lra.
Qed.

Lemma qsum_const : forall (l : vec) c, qsum (map (fun _ => c) l) == qn (length l) * c.
Proof.
  induction l as [|x t IH]; intros c; cbn [map qsum length].
  - change (qn 0) with 0. lra.
  - rewrite IH, qn_S. lra.
Qed.

(* repaired projectToProbability: the result passes isProbability (non-negative, sum within 1e-6 of
   one; exactly one unless the non-negative part of the input already was within 1e-6 of one) *)
Lemma project_valid_lemma : forall v, v <> [] ->
  length (project_fix v) = length v /\ nonneg (project_fix v) /\
  - epsS <= qsum (project_fix v) - 1 /\ qsum (project_fix v) - 1 <= epsS /\
  (eqSmall (possum v) 1 = false -> qsum (project_fix v) == 1).
Proof.
  intros v Hne. unfold project_fix.
  assert (Hn : (0 < length v)%nat) by (destruct v; [congruence| cbn; lia]).
  pose proof (qn_pos (length v) Hn) as Hqn. pose proof (possum_nonneg v) as Hp0.
  assert (He : 0 < epsS) by (unfold epsS; reflexivity).
  destruct (eqSmall (possum v) 1) eqn:E1.
  - apply eqSmall_iff in E1. destruct E1 as [L U].
    split; [apply proj_len|]. split; [apply proj_mul_nonneg|]. rewrite proj_mul_sum.
    split; [exact L| split; [exact U| discriminate]].
  - assert (N1 : ~ (- epsS <= possum v - 1 /\ possum v - 1 <= epsS))
      by (intros C; apply eqSmall_iff in C; congruence).
    destruct (eqSmall (possum v) 0) eqn:E0.
    + split; [apply map_length|]. split.
      * unfold nonneg. rewrite Forall_map. apply Forall_forall. intros x _.
        apply Qle_shift_div_l; lra.
      * assert (S1 : qsum (map (fun _ : Q => 1 / qn (length v)) v) == 1)
          by (rewrite qsum_const; field; lra).
        rewrite S1. repeat split; lra.
    + assert (N0 : ~ (- epsS <= possum v - 0 /\ possum v - 0 <= epsS))
        by (intros C; apply eqSmall_iff in C; congruence).
      destruct (Qlt_le_dec 1 (possum v)) as [Hgt|Hle].
      * split; [apply proj_len|]. split; [apply proj_div_nonneg; lra|].
        assert (S1 : qsum (map (fun p => fst p * (snd p / possum v)) (combine (mask_of v) v)) == 1)
          by (rewrite proj_div_sum by lra; field; lra).
        rewrite S1. repeat split; lra.
      * assert (Hc : (0 < poscount v)%nat).
        { destruct (poscount v) eqn:Ec; [| lia]. exfalso. apply N0. rewrite (poscount_zero v Ec). split; lra. }
        pose proof (qn_pos _ Hc) as Hqc.
        assert (Hlt : possum v < 1) by (apply Qnot_le_lt; intros C; apply N1; split; lra).
        assert (Hd : 0 <= (1 - possum v) / qn (poscount v)) by (apply Qle_shift_div_l; lra).
        split; [apply proj_len|]. split; [apply proj_add_nonneg; exact Hd|].
        assert (S1 : qsum (map (fun p => fst p * (snd p + (1 - possum v) / qn (poscount v))) (combine (mask_of v) v)) == 1)
          by (rewrite proj_add_sum; field; lra).
        rewrite S1. repeat split; lra.
Qed.

Lemma proj_mul_id : forall v, nonneg v -> veq (map (fun p => fst p * snd p) (combine (mask_of v) v)) v.
Proof.
  induction v as [|x t IH]; intros H; cbn [mask_of map combine fst snd]; [constructor|].
  inversion H; subst. constructor; [destruct (Qlt_le_dec x 0); lra| apply IH; assumption].
Qed.

(* a vector isProbability accepts comes back unchanged *)
Lemma project_idempotent_lemma : forall v, is_prob_tol v -> veq (project_fix v) v.
Proof.
  intros v [Hnn [L U]]. unfold project_fix.
  assert (E : eqSmall (possum v) 1 = true) by (apply eqSmall_iff; rewrite possum_of_nonneg by exact Hnn; split; lra).
  rewrite E. apply proj_mul_id; exact Hnn.
Qed.

(* the code as it stands: both clauses fail *)
Lemma project_idempotent_refuted_lemma : exists v, is_dist v /\ ~ veq (project_cur v) v.
Proof.
  exists [1 # 5; 3 # 10; 1 # 2]. split.
  - split; [repeat constructor; discriminate| reflexivity].
  - vm_compute. intros H. inversion H as [|? ? ? ? E _]; subst. discriminate E.
Qed.

Lemma project_valid_refuted_lemma : exists v, v <> [] /\
  ~ (- epsS <= qsum (project_cur v) - 1 /\ qsum (project_cur v) - 1 <= epsS).
Proof.
  exists [0; 0; 0]. split; [discriminate|].
  intros [_ U]. vm_compute in U. apply U. reflexivity.
Qed.

Lemma project_valid_refuted_mask_lemma : exists v, is_dist v /\
  ~ (- epsS <= qsum (project_cur v) - 1 /\ qsum (project_cur v) - 1 <= epsS).
Proof.
  exists [1 # 5; 3 # 10; 1 # 2]. split.
  - split; [repeat constructor; discriminate| reflexivity].
  - intros [_ U]. vm_compute in U. apply U. reflexivity.
Qed.
