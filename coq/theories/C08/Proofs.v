(* C08/Proofs.v — dense and sparse inverse-CDF samplers. *)
From Coq Require Import List Arith QArith Qminmax Lqa Lia Bool.
From AIT Require Import Base.Qx C08.Model C08.Spec.
Import ListNotations.
Local Open Scope Q_scope.

(* ------------------------------------------------------------------ cumulative sums *)
Lemma cum_0 : forall p, cum p 0 = 0.
Proof. destruct p; reflexivity. Qed.

Lemma cum_cons : forall x t j, cum (x :: t) (S j) = x + cum t j.
Proof. reflexivity. Qed.

Lemma cum_nonneg : forall p i, nonneg p -> 0 <= cum p i.
Proof.
  induction p as [|x t IH]; intros i H; destruct i; cbn [cum]; try lra.
  inversion H as [|? ? Hx Ht]; subst. specialize (IH i Ht). lra.
Qed.

Lemma cum_step : forall p i, nonneg p -> cum p i <= cum p (S i).
Proof.
  induction p as [|x t IH]; intros i H.
  - destruct i; cbn [cum]; lra.
  - inversion H as [|? ? Hx Ht]; subst. destruct i.
    + cbn [cum]. pose proof (cum_nonneg t 0 Ht). rewrite cum_0 in *. lra.
    + rewrite !cum_cons. specialize (IH i Ht). lra.
Qed.

Lemma cum_mono : forall p i j, nonneg p -> (i <= j)%nat -> cum p i <= cum p j.
Proof.
  intros p i j H Hij. induction Hij as [|j Hij IH]; [lra|].
  pose proof (cum_step p j H). lra.
Qed.

Lemma cum_all : forall p, cum p (length p) == qsum p.
Proof. induction p as [|x t IH]; cbn [cum length qsum]; [lra| rewrite IH; lra]. Qed.

Lemma cum_beyond : forall p i, (length p <= i)%nat -> cum p i == qsum p.
Proof.
  induction p as [|x t IH]; intros i H; cbn [length] in H.
  - destruct i; cbn [cum qsum]; lra.
  - destruct i; [lia|]. rewrite cum_cons. cbn [qsum]. rewrite IH; [lra|lia].
Qed.

Lemma cum_le_sum : forall p i, nonneg p -> cum p i <= qsum p.
Proof.
  intros p i H. destruct (le_lt_dec (length p) i) as [Hl|Hl].
  - rewrite cum_beyond; [lra|exact Hl].
  - rewrite <- cum_all. apply cum_mono; [exact H|lia].
Qed.

Lemma cum_diff : forall p i, (i < length p)%nat -> cum p (S i) - cum p i == nthq p i.
Proof.
  induction p as [|x t IH]; intros i H; cbn [length] in H; [lia|].
  destruct i.
  - rewrite cum_cons, !cum_0. unfold nthq; cbn [nth]. lra.
  - rewrite !cum_cons. unfold nthq; cbn [nth]. specialize (IH i ltac:(lia)). unfold nthq in IH. lra.
Qed.

(* ------------------------------------------------------------------ dense sampler *)
Lemma dense_from_range : forall p u k, p <> [] ->
  (k <= sample_dense_from p u k < k + length p)%nat.
Proof.
  induction p as [|x t IH]; intros u k Hne; [congruence|].
  cbn [sample_dense_from length]. destruct (Qlt_le_dec u x); [lia|].
  destruct t as [|y t']; [cbn [sample_dense_from]; lia|].
  specialize (IH (u - x) (S k) ltac:(discriminate)). cbn [length] in *. lia.
Qed.

Lemma dense_in_range_lemma : forall p u, p <> [] -> (sample_dense p u < length p)%nat.
Proof. intros p u H. unfold sample_dense. pose proof (dense_from_range p u 0 H). lia. Qed.

Lemma dense_from_interval : forall p u k i, p <> [] -> nonneg p -> 0 <= u -> (i < length p)%nat ->
  (sample_dense_from p u k = (k + i)%nat <-> dense_sel p u i).
Proof.
  unfold dense_sel.
  induction p as [|x t IH]; intros u k i Hne Hnn Hu Hi; [congruence|].
  inversion Hnn as [|? ? Hx Ht]; subst.
  cbn [sample_dense_from]. destruct (Qlt_le_dec u x) as [Hlt|Hge].
  - (* u < x: index k *)
    destruct i.
    + rewrite cum_cons, !cum_0. split; [intros _; left; lra| intros _; lia].
    + split; [intros E; lia|]. intros [[H1 _]|[_ H2]]; exfalso.
      * rewrite cum_cons in H1. pose proof (cum_nonneg t i Ht). lra.
      * cbn [length] in H2. rewrite cum_cons in H2. pose proof (cum_nonneg t (length t) Ht). lra.
  - (* x <= u *)
    destruct t as [|y t'].
    + (* single entry: fall-through *)
      cbn [sample_dense_from length] in *. assert (i = 0)%nat by lia. subst i.
      split; [intros _| intros _; cbn; lia].
      right. split; [reflexivity|]. rewrite cum_cons, cum_0. lra.
    + assert (Hne' : y :: t' <> []) by discriminate.
      pose proof (dense_from_range (y :: t') (u - x) (S k) Hne') as Hr.
      destruct i.
      * split; [intros E; lia|]. intros [[_ H2]|[H1 _]]; exfalso.
        -- rewrite cum_cons, cum_0 in H2. lra.
        -- cbn [length] in H1. lia.
      * cbn [length] in Hi.
        specialize (IH (u - x) (S k) i Hne' Ht ltac:(lra) ltac:(cbn [length]; lia)).
        replace (k + S i)%nat with (S k + i)%nat by lia. rewrite IH.
        cbn [length]. rewrite !cum_cons.
        split; intros [[H1 H2]|[H1 H2]].
        -- left; split; lra.
        -- right; split; [cbn [length] in H1; lia| lra].
        -- left; split; lra.
        -- right; split; [cbn [length]; lia| lra].
Qed.

Lemma dense_interval_lemma : forall p u i, p <> [] -> nonneg p -> 0 <= u -> (i < length p)%nat ->
  (sample_dense p u = i <-> dense_sel p u i).
Proof. intros p u i H1 H2 H3 H4. unfold sample_dense. apply (dense_from_interval p u 0 i H1 H2 H3 H4). Qed.

(* the checker is the proposition *)
Lemma dense_selb_sound : forall p u i, dense_selb p u i = true <-> dense_sel p u i.
Proof.
  intros p u i. unfold dense_selb, dense_sel.
  rewrite orb_true_iff, !andb_true_iff, negb_true_iff, Nat.eqb_eq, !Qle_bool_iff.
  split; intros [[H1 H2]|[H1 H2]].
  - left. split; [exact H1|]. apply Qnot_le_lt. intros C. apply Qle_bool_iff in C. congruence.
  - right; split; assumption.
  - left. split; [exact H1|]. destruct (Qle_bool (cum p (S i)) u) eqn:E; [|reflexivity].
    apply Qle_bool_iff in E. lra.
  - right; split; assumption.
Qed.

(* when the entries sum to one, index i is drawn exactly on [c_i, c_{i+1}), an interval inside [0,1]
   of length p_i *)
Lemma dense_mass_exact_lemma : forall p i, is_dist p -> (i < length p)%nat ->
  (forall u, 0 <= u -> u < 1 -> (sample_dense p u = i <-> cum p i <= u /\ u < cum p (S i))) /\
  0 <= cum p i /\ cum p (S i) <= 1 /\ cum p (S i) - cum p i == nthq p i /\ dense_mass p i == nthq p i.
Proof.
  intros p i [Hnn Hs] Hi. assert (Hne : p <> []) by (destruct p; [cbn in Hi; lia| discriminate]).
  pose proof (cum_le_sum p (S i) Hnn) as Hle. pose proof (cum_nonneg p i Hnn) as H0.
  pose proof (cum_step p i Hnn) as Hst. pose proof (cum_diff p i Hi) as Hd.
  split; [| split; [exact H0| split; [lra| split; [exact Hd|]]]].
  - intros u Hu0 Hu1. rewrite (dense_interval_lemma p u i Hne Hnn Hu0 Hi). unfold dense_sel.
    split; [| intros H; left; exact H].
    intros [H|[_ H]]; [exact H|]. rewrite cum_all in H. lra.
  - unfold dense_mass. destruct (Nat.eqb_spec i (Nat.pred (length p))) as [E|E].
    + assert (Hl : S i = length p) by lia. rewrite Hl in *. rewrite cum_all in *.
      rewrite Q.min_r by lra. lra.
    + rewrite !Q.min_r by lra. exact Hd.
Qed.

(* in general the preimage of i inside [0,1) is the interval cut to [0,1); its length is dense_mass *)
Lemma dense_preimage_lemma : forall p u i, p <> [] -> nonneg p -> 0 <= u -> u < 1 -> (i < length p)%nat ->
  (sample_dense p u = i <->
   Qmin 1 (cum p i) <= u /\
   u < (if (i =? Nat.pred (length p))%nat then 1 else Qmin 1 (cum p (S i)))).
Proof.
  intros p u i Hne Hnn Hu0 Hu1 Hi. rewrite (dense_interval_lemma p u i Hne Hnn Hu0 Hi). unfold dense_sel.
  pose proof (cum_step p i Hnn) as Hst.
  destruct (Nat.eqb_spec i (Nat.pred (length p))) as [E|E].
  - assert (Hl : S i = length p) by lia. rewrite Hl in *.
    destruct (Q.min_spec 1 (cum p i)) as [[Ha ->]|[Ha ->]].
    + split; [intros [[H _]|[_ H]]; lra| intros [H _]; lra].
    + split.
      * intros [[H _]|[_ H]]; split; lra.
      * intros [H _]. destruct (Qlt_le_dec u (cum p (length p))); [left; lra| right; split; [exact E|lra]].
  - destruct (Q.min_spec 1 (cum p i)) as [[Ha ->]|[Ha ->]];
    destruct (Q.min_spec 1 (cum p (S i))) as [[Hb ->]|[Hb ->]].
    + split; [intros [[H _]|[H _]]; [lra|congruence]| intros [H H']; lra].
    + lra.
    + split; [intros [[H H']|[H _]]; [lra|congruence]| intros [H H']; left; lra].
    + split; [intros [[H H']|[H _]]; [lra|congruence]| intros [H H']; left; lra].
Qed.

(* and that length differs from p_i by at most |1 - sum p| *)
Lemma dense_mass_slack_lemma : forall p i d, nonneg p -> (i < length p)%nat ->
  - d <= qsum p - 1 -> qsum p - 1 <= d ->
  - d <= dense_mass p i - nthq p i /\ dense_mass p i - nthq p i <= d.
Proof.
  intros p i d Hnn Hi Hlo Hhi. unfold dense_mass.
  pose proof (cum_le_sum p (S i) Hnn) as Hle. pose proof (cum_nonneg p i Hnn) as H0.
  pose proof (cum_step p i Hnn) as Hst. pose proof (cum_diff p i Hi) as Hd.
  destruct (Nat.eqb_spec i (Nat.pred (length p))) as [E|E].
  - assert (Hl : S i = length p) by lia. rewrite Hl in *. rewrite cum_all in *.
    destruct (Q.min_spec 1 (cum p i)) as [[Ha ->]|[Ha ->]]; split; lra.
  - destruct (Q.min_spec 1 (cum p i)) as [[Ha ->]|[Ha ->]];
    destruct (Q.min_spec 1 (cum p (S i))) as [[Hb ->]|[Hb ->]]; split; lra.
Qed.

(* ------------------------------------------------------------------ sparse sampler *)
Lemma dense_from_ext : forall p u u' k, u == u' -> sample_dense_from p u k = sample_dense_from p u' k.
Proof.
  induction p as [|x t IH]; intros u u' k E; cbn [sample_dense_from]; [reflexivity|].
  destruct (Qlt_le_dec u x), (Qlt_le_dec u' x); try reflexivity; try lra.
  apply IH. lra.
Qed.

(* repaired sparse loop = dense loop on the row it represents, for every draw *)
Lemma sparse_fix_eq_dense_from : forall k p row, sparse_of k p row -> forall u, 0 <= u ->
  sample_sparse_fix (k + length p) row u = sample_dense_from p u k.
Proof.
  intros k p row H. induction H as [k|k x t r H IH|k x t r Hx H IH]; intros u Hu.
  - cbn [sample_sparse_fix sample_dense_from length]. f_equal. lia.
  - cbn [sample_sparse_fix sample_dense_from length]. destruct (Qlt_le_dec u x); [reflexivity|].
    rewrite <- IH by lra. f_equal. lia.
  - cbn [sample_dense_from length]. destruct (Qlt_le_dec u x); [lra|].
    rewrite (dense_from_ext t (u - x) u (S k)) by lra.
    rewrite <- IH by lra. f_equal. lia.
Qed.

Lemma sparse_fix_eq_dense_lemma : forall p row u, sparse_of 0 p row -> 0 <= u ->
  sample_sparse_fix (length p) row u = sample_dense p u.
Proof. intros p row u H Hu. apply (sparse_fix_eq_dense_from 0 p row H u Hu). Qed.

(* the loop as it stands agrees with the repaired one whenever it returns at all *)
Lemma sparse_cur_fix : forall row d u c, sample_sparse row u = Ok c -> sample_sparse_fix d row u = c.
Proof.
  induction row as [|[c0 x] t IH]; intros d u c H; cbn [sample_sparse sample_sparse_fix] in *; [discriminate|].
  destruct (Qlt_le_dec u x); [congruence| apply IH; exact H].
Qed.

Definition stored_sum (row : srow) : Q := qsum (map snd row).

Lemma sparse_of_sum : forall k p row, sparse_of k p row -> stored_sum row == qsum p.
Proof.
  intros k p row H. unfold stored_sum.
  induction H as [k|k x t r H IH|k x t r Hx H IH]; cbn [map snd qsum]; lra.
Qed.

Lemma sparse_ok_in : forall row u c, sample_sparse row u = Ok c -> In c (map fst row).
Proof.
  induction row as [|[c1 y] t IH]; intros u c E; cbn [sample_sparse map fst] in *; [discriminate|].
  destruct (Qlt_le_dec u y); [inversion E; left; reflexivity| right; eapply IH; exact E].
Qed.

(* it returns (a stored column) exactly when the draw is below the stored mass … *)
Lemma sparse_returns_iff : forall row u, Forall (fun e => 0 <= snd e) row -> 0 <= u ->
  (u < stored_sum row <-> exists c, sample_sparse row u = Ok c /\ In c (map fst row)).
Proof.
  unfold stored_sum.
  induction row as [|[c0 x] t IH]; intros u Hnn Hu; cbn [sample_sparse map fst snd qsum].
  - split; [lra| intros [c [H _]]; discriminate].
  - inversion Hnn as [|? ? Hx Ht]; subst. cbn [snd] in Hx.
    destruct (Qlt_le_dec u x) as [Hlt|Hge].
    + split; [intros _; exists c0; split; [reflexivity| left; reflexivity]|].
      intros _. pose proof (qsum_nonneg (map snd t)) as Hs.
      assert (H : nonneg (map snd t)) by (unfold nonneg; rewrite Forall_map; exact Ht). specialize (Hs H). lra.
    + specialize (IH (u - x) Ht ltac:(lra)). split.
      * intros H. destruct (proj1 IH ltac:(lra)) as [c [Hc Hin]]. exists c; split; [exact Hc| right; exact Hin].
      * intros [c [Hc _]].
        assert (u - x < qsum (map snd t)) by (apply IH; exists c; split; [exact Hc| eapply sparse_ok_in; exact Hc]).
        lra.
Qed.

(* … and walks off the row otherwise *)
Lemma sparse_UB_iff : forall row u, Forall (fun e => 0 <= snd e) row -> 0 <= u ->
  (sample_sparse row u = UB <-> stored_sum row <= u).
Proof.
  intros row u Hnn Hu. pose proof (sparse_returns_iff row u Hnn Hu) as H. split.
  - intros E. destruct (Qlt_le_dec u (stored_sum row)) as [Hlt|Hge]; [|exact Hge].
    destruct (proj1 H Hlt) as [c [Hc _]]. congruence.
  - intros Hge. destruct (sample_sparse row u) eqn:E; [|reflexivity].
    assert (u < stored_sum row) by (apply H; exists a; split; [reflexivity| eapply sparse_ok_in; exact E]).
    lra.
Qed.

Lemma sparse_of_nonneg : forall k p row, sparse_of k p row -> nonneg p -> Forall (fun e => 0 <= snd e) row.
Proof.
  intros k p row H. induction H as [k|k x t r H IH|k x t r Hx H IH]; intros Hnn.
  - constructor.
  - inversion Hnn; subst. constructor; [assumption| apply IH; assumption].
  - inversion Hnn; subst. apply IH; assumption.
Qed.

Lemma sparse_eq_dense_when_mass_covers_lemma : forall p row u, sparse_of 0 p row -> nonneg p ->
  0 <= u -> u < qsum p -> sample_sparse row u = Ok (sample_dense p u).
Proof.
  intros p row u H Hnn Hu0 Hu1.
  pose proof (sparse_of_nonneg 0 p row H Hnn) as Hr.
  destruct (proj1 (sparse_returns_iff row u Hr Hu0)) as [c [Hc _]]; [rewrite (sparse_of_sum 0 p row H); exact Hu1|].
  rewrite Hc. f_equal. rewrite <- (sparse_fix_eq_dense_lemma p row u H Hu0).
  symmetry. apply sparse_cur_fix. exact Hc.
Qed.

Lemma sparse_no_UB_when_mass_covers_lemma : forall p row u, sparse_of 0 p row -> nonneg p ->
  0 <= u -> u < qsum p -> sample_sparse row u <> UB.
Proof.
  intros p row u H Hnn Hu0 Hu1. rewrite (sparse_eq_dense_when_mass_covers_lemma p row u H Hnn Hu0 Hu1). discriminate.
Qed.

(* a valid row (entries >= 0, sum within 1e-6 of one) and a draw in [0,1) on which the loop as it
   stands leaves the row *)
Lemma sparse_no_UB_refuted_lemma : exists p row u,
  sparse_of 0 p row /\ is_prob_tol p /\ 0 <= u /\ u < 1 /\ sample_sparse row u = UB.
Proof.
  exists [1 # 2; (1 # 2) - (1 # 1048576); 0], [(0%nat, 1 # 2); (1%nat, (1 # 2) - (1 # 1048576))],
         (1 - (1 # 9007199254740992)).
  split; [| split; [| split; [| split]]].
  - apply sp_keep, sp_keep, sp_drop; [reflexivity| apply sp_nil].
  - unfold is_prob_tol, nonneg, epsS. cbn [qsum]. split; [repeat constructor; discriminate| split; vm_compute; discriminate].
  - vm_compute; discriminate.
  - vm_compute; reflexivity.
  - vm_compute; reflexivity.
Qed.

(* repaired loop: total, in range *)
Lemma sparse_fix_in_range_lemma : forall p row u, p <> [] -> sparse_of 0 p row -> 0 <= u ->
  (sample_sparse_fix (length p) row u < length p)%nat.
Proof.
  intros p row u Hne H Hu. rewrite (sparse_fix_eq_dense_lemma p row u H Hu). apply dense_in_range_lemma; exact Hne.
Qed.

(* ------------------------------------------------------------------ sampling a model *)
From AIT Require Import Base.Mdp.

(* the next state follows the model's own transition row: index i is drawn on an interval of [0,1]
   of length T(s,a,i); the reward is the model's R(s,a) *)
Lemma sample_sr_lemma : forall m s a, wf_mdp m -> (s < nS m)%nat -> (a < nA m)%nat ->
  forall u, 0 <= u -> u < 1 ->
  let '(s1, r) := sample_sr m s a u in
  (s1 < nS m)%nat /\ r = nthq (row (R m) s) a /\
  forall i, (i < nS m)%nat ->
    (s1 = i <-> cum (trow m s a) i <= u /\ u < cum (trow m s a) (S i)) /\
    cum (trow m s a) (S i) - cum (trow m s a) i == nthq (trow m s a) i.
Proof.
  intros m s a Hwf Hs Ha u Hu0 Hu1. unfold sample_sr.
  destruct Hwf as [_ [_ [_ [_ [_ [_ [_ [Hrow _]]]]]]]].
  destruct (Hrow a s Ha Hs) as [Hlen Hd]. fold (trow m s a) in Hlen, Hd.
  assert (Hne : trow m s a <> []) by (intros E; rewrite E in Hlen; cbn in Hlen; lia).
  split; [rewrite <- Hlen; apply dense_in_range_lemma; exact Hne|]. split; [reflexivity|].
  intros i Hi. rewrite <- Hlen in Hi.
  destruct (dense_mass_exact_lemma (trow m s a) i Hd Hi) as [H1 [_ [_ [H2 _]]]].
  split; [apply H1; assumption| exact H2].
Qed.

Lemma sample_sor_lemma : forall m s a, wf_pomdp m -> (s < nS (pm m))%nat -> (a < nA (pm m))%nat ->
  forall u1 u2, 0 <= u1 -> u1 < 1 -> 0 <= u2 -> u2 < 1 ->
  let '(s1, o, r) := sample_sor m s a u1 u2 in
  (s1, r) = sample_sr (pm m) s a u1 /\ (s1 < nS (pm m))%nat /\ (o < nO m)%nat /\
  forall j, (j < nO m)%nat ->
    (o = j <-> cum (orow m s1 a) j <= u2 /\ u2 < cum (orow m s1 a) (S j)) /\
    cum (orow m s1 a) (S j) - cum (orow m s1 a) j == nthq (orow m s1 a) j.
Proof.
  intros m s a [Hwf [HO [_ [_ Hob]]]] Hs Ha u1 u2 H10 H11 H20 H21. unfold sample_sor.
  pose proof (sample_sr_lemma (pm m) s a Hwf Hs Ha u1 H10 H11) as Hsr.
  destruct (sample_sr (pm m) s a u1) as [s1 r]. destruct Hsr as [Hs1 _].
  destruct (Hob a s1 Ha Hs1) as [Hlen Hd]. fold (orow m s1 a) in Hlen, Hd.
  assert (Hne : orow m s1 a <> []) by (intros E; rewrite E in Hlen; cbn in Hlen; lia).
  split; [reflexivity|]. split; [exact Hs1|]. split; [rewrite <- Hlen; apply dense_in_range_lemma; exact Hne|].
  intros j Hj. rewrite <- Hlen in Hj.
  destruct (dense_mass_exact_lemma (orow m s1 a) j Hd Hj) as [H1 [_ [_ [H2 _]]]].
  split; [apply H1; assumption| exact H2].
Qed.

(* range of the model-level samplers for arbitrary (not necessarily normalised) rows: the index is
   below the size the row has *)
Lemma sample_sr_in_range_lemma : forall m s a u, length (trow m s a) = nS m -> (0 < nS m)%nat ->
  (fst (sample_sr m s a u) < nS m)%nat /\ fst (sample_sr m s a u) = sample_dense (trow m s a) u.
Proof.
  intros m s a u Hl Hn. unfold sample_sr. cbn [fst]. split; [| reflexivity].
  rewrite <- Hl. apply dense_in_range_lemma. intros E. rewrite E in Hl. cbn in Hl. lia.
Qed.

Lemma sample_or_in_range_lemma : forall m s a s1 u, length (orow m s1 a) = nO m -> (0 < nO m)%nat ->
  (fst (sample_or m s a s1 u) < nO m)%nat /\ fst (sample_or m s a s1 u) = sample_dense (orow m s1 a) u.
Proof.
  intros m s a s1 u Hl Hn. unfold sample_or. cbn [fst]. split; [| reflexivity].
  rewrite <- Hl. apply dense_in_range_lemma. intros E. rewrite E in Hl. cbn in Hl. lia.
Qed.

Lemma sample_sor_in_range_lemma : forall m s a u1 u2,
  (forall s1, (s1 < nS (pm m))%nat -> length (orow m s1 a) = nO m) ->
  length (trow (pm m) s a) = nS (pm m) -> (0 < nS (pm m))%nat -> (0 < nO m)%nat ->
  let '(s1, o, r) := sample_sor m s a u1 u2 in
  (s1 < nS (pm m))%nat /\ (o < nO m)%nat /\
  s1 = sample_dense (trow (pm m) s a) u1 /\ o = sample_dense (orow m s1 a) u2 /\
  r = nthq (row (R (pm m)) s) a.
Proof.
  intros m s a u1 u2 Hob Hl HS HO. unfold sample_sor, sample_sr.
  destruct (sample_sr_in_range_lemma (pm m) s a u1 Hl HS) as [H1 _]. unfold sample_sr in H1. cbn [fst] in H1.
  split; [exact H1|]. split; [| repeat split].
  rewrite <- (Hob _ H1). apply dense_in_range_lemma. intros E. pose proof (Hob _ H1) as Hl'. rewrite E in Hl'. cbn in Hl'. lia.
Qed.

(* ------------------------------------------------------------------ factored model *)
Lemma coop_next_in_range_lemma : forall rows us, Forall (fun r : vec => r <> []) rows -> length us = length rows ->
  Forall2 (fun r i => (i < length r)%nat) rows (coop_next rows us).
Proof.
  unfold coop_next. induction rows as [|r rows IH]; intros us Hne Hl.
  - destruct us; [constructor| discriminate].
  - destruct us as [|u us]; [discriminate|]. inversion Hne; subst. cbn [combine map fst snd].
    constructor; [apply dense_in_range_lemma; assumption| apply IH; [assumption| cbn in Hl; lia]].
Qed.

(* sampleSR's reward is the sum of the per-basis rewards of sampleSRs, each a table entry *)
Lemma coop_reward_sum_lemma : forall Sz Az bases s a,
  coop_reward Sz Az bases s a == qsum (coop_rewards Sz Az bases s a) /\
  length (coop_rewards Sz Az bases s a) = length bases.
Proof. intros. unfold coop_reward, coop_rewards. split; [reflexivity| apply map_length]. Qed.
