(* C08/Model.v — executable models of the samplers and simplex helpers of
   include/AIToolbox/Utils/Probability.hpp and src/Utils/Probability.cpp.  No proofs here.

   Random draws are explicit arguments ([u] = the value std::uniform_real_distribution<double>
   returned; the C++ samplers are templates over the generator and the harness replays chosen draws).
   Doubles are exact rationals; every model computes in Q without rounding. *)
From Coq Require Import List Arith QArith Qminmax Qround ZArith Bool.
From AIT Require Import Base.Qx Base.Mdp.
Import ListNotations.
Local Open Scope Q_scope.

(* result of a routine that performs unchecked accesses *)
Inductive res (A : Type) : Type := Ok (a : A) | UB.
Arguments Ok {A} a.
Arguments UB {A}.

(* ------------------------------------------------------------------ dense inverse-CDF scan *)
(* src: include/AIToolbox/Utils/Probability.hpp:sampleProbability (dense template)
     double p = dist(gen); for (i = 0; i < d; ++i) { if (in[i] > p) return i; p -= in[i]; } return d-1; *)
Fixpoint sample_dense_from (p : vec) (u : Q) (i : nat) : nat :=
  match p with
  | [] => Nat.pred i                         (* fall-through: return d-1 *)
  | x :: t => if Qlt_le_dec u x then i else sample_dense_from t (u - x) (S i)
  end.
Definition sample_dense (p : vec) (u : Q) : nat := sample_dense_from p u 0.

(* ------------------------------------------------------------------ sparse row scan *)
(* A sparse row is the list of its stored entries (column, value) in storage order. *)
Definition srow := list (nat * Q).

(* src: include/AIToolbox/Utils/Probability.hpp:sampleProbability (SparseMatrix2D::ConstRowXpr overload)
     for (InnerIterator i(in, 0); ; ++i) { if (i.value() > p) return i.col(); p -= i.value(); }
   The loop has no end test: stepping past the last stored entry dereferences outside the row. *)
Fixpoint sample_sparse (row : srow) (u : Q) : res nat :=
  match row with
  | [] => UB
  | (c, x) :: t => if Qlt_le_dec u x then Ok c else sample_sparse t (u - x)
  end.

(* repaired loop (fixes/C08-sparse-sample.patch): `for (InnerIterator i(in, 0); i; ++i)`, then the
   already present `return d-1;` *)
Fixpoint sample_sparse_fix (d : nat) (row : srow) (u : Q) : nat :=
  match row with
  | [] => Nat.pred d
  | (c, x) :: t => if Qlt_le_dec u x then c else sample_sparse_fix d t (u - x)
  end.

(* ------------------------------------------------------------------ alias sampler *)
Definition upd {A : Type} (l : list A) (i : nat) (v : A) : list A :=
  firstn i l ++ match skipn i l with [] => [] | _ :: t => v :: t end.

(* `while (k < n && prob[k] >= avg) ++k`  /  `while (k < n && prob[k] < avg) ++k`
   (recursion on the remaining distance to n) *)
Fixpoint scan_ge (fuel : nat) (prob : vec) (avg : Q) (k : nat) : nat :=
  match fuel with
  | O => k
  | S f => if (k <? length prob)%nat
           then (if Qlt_le_dec (nthq prob k) avg then k else scan_ge f prob avg (S k))
           else k
  end.
Fixpoint scan_lt (fuel : nat) (prob : vec) (avg : Q) (k : nat) : nat :=
  match fuel with
  | O => k
  | S f => if (k <? length prob)%nat
           then (if Qlt_le_dec (nthq prob k) avg then scan_lt f prob avg (S k) else k)
           else k
  end.
(* `while (x < n && alias[x] != 0) ++x` *)
Fixpoint scan_nz (fuel : nat) (alias : list nat) (k : nat) : nat :=
  match fuel with
  | O => k
  | S f => if (k <? length alias)%nat
           then (if (nth k alias O =? 0)%nat then k else scan_nz f alias (S k))
           else k
  end.

Record vose_st := { vprob : vec; valias : list nat; vsmall : nat; vlarge : nat; vcp : nat }.

(* src: src/Utils/Probability.cpp:VoseAliasSampler::VoseAliasSampler — main loop, one iteration per
   unit of fuel; [None] = fuel exhausted (excluded by 2n+2 units, see Proofs) *)
Fixpoint vose_main (fuel : nat) (avg : Q) (st : vose_st) : option vose_st :=
  let n := length (vprob st) in
  if ((vsmall st <? n) && (vlarge st <? n))%nat then
    match fuel with
    | O => None
    | S f =>
      let pl := (nthq (vprob st) (vlarge st) + nthq (vprob st) (vsmall st)) - avg in
      let prob' := upd (vprob st) (vlarge st) pl in
      let alias' := upd (valias st) (vsmall st) (vlarge st) in
      if Qlt_le_dec pl avg then
        (* the large became small: small = large; ++large; scan for the next large *)
        vose_main f avg {| vprob := prob'; valias := alias'; vsmall := vlarge st;
                           vlarge := scan_lt n prob' avg (S (vlarge st)); vcp := vcp st |}
      else
        (* back to the checkpoint: small = checkpoint + 1; scan; checkpoint = small *)
        let s := scan_ge n prob' avg (S (vcp st)) in
        vose_main f avg {| vprob := prob'; valias := alias'; vsmall := s; vlarge := vlarge st; vcp := s |}
    end
  else Some st.

(* final loop: `while (x < n) { prob[x] = 1; alias[x] = x; ++x; while (x < n && alias[x] != 0) ++x; }` *)
Fixpoint vose_rest (fuel : nat) (prob : vec) (alias : list nat) (x : nat) : vec * list nat :=
  match fuel with
  | O => (prob, alias)
  | S f => if (x <? length prob)%nat
           then let prob' := upd prob x 1 in let alias' := upd alias x x in
                vose_rest f prob' alias' (scan_nz (length prob) alias' (S x))
           else (prob, alias)
  end.

(* the table: scaled coins and aliases; [None] only on exhausted fuel *)
Definition vose_cur (p : vec) : option (vec * list nat) :=
  let n := length p in
  let avg := 1 / inject_Z (Z.of_nat n) in
  let small := scan_ge n p avg 0 in
  let large := scan_lt n p avg 0 in
  match vose_main (2 * n + 2) avg {| vprob := p; valias := repeat O n; vsmall := small; vlarge := large; vcp := small |} with
  | None => None
  | Some st =>
    let '(prob, alias) := vose_rest (S n) (vprob st) (valias st) (Nat.min (vlarge st) (vsmall st)) in
    Some (map (fun q => q * inject_Z (Z.of_nat n)) prob, alias)
  end.

(* src: include/AIToolbox/Utils/Probability.hpp:VoseAliasSampler::sampleProbability
     x = U(0,n); int i = x; y = x - i; if (y < prob_[i]) return i; return alias_[i];
   [x] is the value drawn; prob_[i] / alias_[i] are unchecked accesses *)
Definition alias_sample (prob : vec) (alias : list nat) (x : Q) : res nat :=
  let i := Z.to_nat (Qfloor x) in
  let y := x - inject_Z (Qfloor x) in
  match nth_error prob i, nth_error alias i with
  | Some q, Some a => if Qlt_le_dec y q then Ok i else Ok a
  | _, _ => UB
  end.

(* repaired constructor (fixes/C08-vose.patch): textbook two-worklist Vose.
     for i: (prob[i] < avg ? small : large).push_back(i);
     while (!small.empty() && !large.empty()) {
        s = small.back(); small.pop_back(); l = large.back(); large.pop_back();
        alias[s] = l; prob[l] = (prob[l] + prob[s]) - avg;
        (prob[l] < avg ? small : large).push_back(l); }
     for the leftovers x: prob[x] = 1.0 (whole cell), alias[x] = x;   prob *= n
   Worklists are stacks: head of the list = back of the std::vector. *)
Fixpoint vose_split (prob : vec) (avg : Q) (i : nat) (small large : list nat) : list nat * list nat :=
  match prob with
  | [] => (small, large)
  | q :: t => if Qlt_le_dec q avg then vose_split t avg (S i) (i :: small) large
              else vose_split t avg (S i) small (i :: large)
  end.
Fixpoint vose_pair (fuel : nat) (avg : Q) (prob : vec) (alias : list nat) (small large : list nat)
  : vec * list nat * list nat * list nat :=
  match fuel, small, large with
  | S f, s :: small', l :: large' =>
    let pl := (nthq prob l + nthq prob s) - avg in
    let prob' := upd prob l pl in
    let alias' := upd alias s l in
    if Qlt_le_dec pl avg then vose_pair f avg prob' alias' (l :: small') large'
    else vose_pair f avg prob' alias' small' (l :: large')
  | _, _, _ => (prob, alias, small, large)
  end.
Definition vose_finish (prob : vec) (alias : list nat) (left : list nat) : vec * list nat :=
  fold_left (fun pa x => (upd (fst pa) x 1, upd (snd pa) x x)) left (prob, alias).
Definition vose_fix (p : vec) : vec * list nat :=
  let n := length p in
  let avg := 1 / inject_Z (Z.of_nat n) in
  let '(small, large) := vose_split p avg 0 [] [] in
  let '(prob, alias, small', large') := vose_pair n avg p (repeat O n) small large in
  let '(prob1, alias1) := vose_finish prob alias large' in
  let '(prob2, alias2) := vose_finish prob1 alias1 small' in
  (map (fun q => q * inject_Z (Z.of_nat n)) prob2, alias2).

(* ------------------------------------------------------------------ makeRandomProbability *)
(* std::sort on doubles, modelled by its meaning (ascending permutation): insertion sort *)
Fixpoint insert_q (x : Q) (l : vec) : vec :=
  match l with
  | [] => [x]
  | y :: t => if Qlt_le_dec y x then y :: insert_q x t else x :: l
  end.
Fixpoint sort_q (l : vec) : vec := match l with [] => [] | x :: t => insert_q x (sort_q t) end.

(* differences with the predecessor, the first element kept: [a0; a1-a0; a2-a1; …] *)
Fixpoint spacings (prev : Q) (l : vec) : vec :=
  match l with [] => [] | a :: t => (a - prev) :: spacings a t end.

(* src: include/AIToolbox/Utils/Probability.hpp:makeRandomProbability — [us] are the S-1 draws, in
   draw order; S = length us + 1 >= 1.  b[0] = 0 covers S = 1 (helper1 = 0, result [1]). *)
Definition random_prob (us : vec) : vec :=
  let sorted := sort_q us in
  spacings 0 sorted ++ [1 - last sorted 0].

(* ------------------------------------------------------------------ projectToProbability *)
Definition mask_of (v : vec) : vec := map (fun x => if Qlt_le_dec x 0 then 0 else 1) v.
Definition possum (v : vec) : Q := qsum (map (fun x => if Qlt_le_dec x 0 then 0 else x) v).
Definition poscount (v : vec) : nat := length (filter (fun x => if Qlt_le_dec x 0 then false else true) v).
Definition qn (n : nat) : Q := inject_Z (Z.of_nat n).

(* src: src/Utils/Probability.cpp:projectToProbability, as it stands *)
Definition project_cur (v : vec) : vec :=
  let m := mask_of v in
  let sum := possum v in
  if eqSmall sum 1 then m                                             (* returns the 0/1 mask *)
  else if eqSmall sum 0 then map (fun r => r + 1 / qn (length v)) m   (* mask + 1/n *)
  else if Qlt_le_dec 1 sum then map (fun p => fst p * (snd p / sum)) (combine m v)
  else let diff := (1 - sum) / qn (poscount v) in
       map (fun p => fst p * (snd p + diff)) (combine m v).

(* repaired (fixes/C08-project.patch): first branch returns mask*v, second fills 1/n *)
Definition project_fix (v : vec) : vec :=
  let m := mask_of v in
  let sum := possum v in
  if eqSmall sum 1 then map (fun p => fst p * snd p) (combine m v)
  else if eqSmall sum 0 then map (fun _ => 1 / qn (length v)) v
  else if Qlt_le_dec 1 sum then map (fun p => fst p * (snd p / sum)) (combine m v)
  else let diff := (1 - sum) / qn (poscount v) in
       map (fun p => fst p * (snd p + diff)) (combine m v).

(* ------------------------------------------------------------------ sampling a model *)
(* src: src/MDP/Model.cpp:Model::sampleSR — s1 = sampleProbability(S, transitions_[a].row(s), rand_);
   return (s1, rewards_(s, a)).  [u] is the draw taken from the model's engine.
   src/MDP/SparseModel.cpp:SparseModel::sampleSR is the same over the sparse row (see sample_sparse_fix). *)
Definition sample_sr (m : mdp) (s a : nat) (u : Q) : nat * Q :=
  (sample_dense (trow m s a) u, nthq (row (R m) s) a).

(* src: include/AIToolbox/POMDP/Model.hpp:Model<M>::sampleSOR — [s1, r] = M::sampleSR(s, a);
   o = sampleProbability(O, observations_[a].row(s1), rand_); return (s1, o, r) *)
Definition sample_sor (m : pomdp) (s a : nat) (u1 u2 : Q) : nat * nat * Q :=
  let '(s1, r) := sample_sr (pm m) s a u1 in
  (s1, sample_dense (orow m s1 a) u2, r).

(* src: include/AIToolbox/POMDP/Model.hpp:Model<M>::sampleOR (and POMDP/SparseModel.hpp) —
   o = sampleProbability(O, observations_[a].row(s1), rand_); return (o, M::getExpectedReward(s,a,s1)) *)
Definition sample_or (m : pomdp) (s a s1 : nat) (u : Q) : nat * Q :=
  (sample_dense (orow m s1 a) u, nthq (row (R (pm m)) s) a).

(* src: include/AIToolbox/MDP/SparseModel.hpp:SparseModel::setTransitionFunction and
   POMDP/SparseModel.hpp:setObservationFunction — `if (checkDifferentSmall(0.0, p)) insert(...) = p`:
   the sparse classes store only entries above 1e-6; the stored row is the model's own table *)
Definition drop_small (v : vec) : vec := map (fun x => if eqSmall 0 x then 0 else x) v.

(* src: include/AIToolbox/MDP/SparseModel.hpp:SparseModel::setTransitionFunction and
   POMDP/SparseModel.hpp:setObservationFunction (after fix 17618b4) — the table is built on the side
   without the small entries and re-validated: `if (!isProbability(newT)) throw invalid_argument`;
   isProbability(SparseMatrix2D) requires every stored row to sum to one within 1e-6 *)
Definition sparse_store_ok (tables : list mat) : bool :=
  forallb (fun tb => forallb (fun rw => eqSmall (qsum (drop_small rw)) 1) tb) tables.

(* ------------------------------------------------------------------ factored (cooperative) model *)
(* src: src/Factored/Utils/Core.cpp:toIndexPartial(ids, space, f) — mixed radix over the listed
   factors, first listed factor least significant, digits taken from the FULL vector f *)
Fixpoint to_index_partial (keys space f : list nat) : nat :=
  match keys with
  | [] => O
  | k :: t => (nth k f O + nth k space O * to_index_partial t space f)%nat
  end.

(* src: src/Factored/MDP/CooperativeModel.cpp:CooperativeModel::sampleSRs —
   fid = toIndexPartial(e.tag, S, s); aid = toIndexPartial(e.actionTag, graph_.getA(), a);
   rews[i] = e.values(fid, aid) *)
Definition coop_basis_reward (Sz Az tag atag : list nat) (values : mat) (s a : list nat) : Q :=
  nthq (row values (to_index_partial tag Sz s)) (to_index_partial atag Az a).
Definition coop_rewards (Sz Az : list nat) (bases : list (list nat * list nat * mat)) (s a : list nat) : vec :=
  map (fun b => coop_basis_reward Sz Az (fst (fst b)) (snd (fst b)) (snd b) s a) bases.
(* src: CooperativeModel::sampleSR — the reward is rewards_.getValue(S, A, s, a), the sum over the bases *)
Definition coop_reward (Sz Az : list nat) (bases : list (list nat * list nat * mat)) (s a : list nat) : Q :=
  qsum (coop_rewards Sz Az bases s a).
(* src: CooperativeModel::sampleSR / sampleSRs — s1[i] = sampleProbability(S[i], T_i.row(getId(i,s,a)), rand_),
   one draw per feature in feature order; [rows] are the rows getId selects (DDN indexing: property C14) *)
Definition coop_next (rows : list vec) (us : vec) : list nat :=
  map (fun p => sample_dense (fst p) (snd p)) (combine rows us).
