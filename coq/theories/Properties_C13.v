(* Properties_C13.v — property C13: coordination-graph maximisers return what they claim.
   Only statements, each closed by [exact <lemma>] and followed by Print Assumptions. *)
From Coq Require Import List Arith QArith Lia Reals Qreals.
From AIT Require Import C13.Model C13.Spec C13.ProofsBase C13.ProofsGraph C13.Proofs C13.ProofsLS C13.ProofsMO1 C13.ProofsMO3 C13.ProofsMO5 C13.ProofsSqrt C13.ProofsUCVE C13.ProofsUCVEr.
Import ListNotations.
Local Open Scope nat_scope.

(* Variable Elimination is exact: for EVERY rule set (overlapping, nested, duplicate, disconnected
   key sets, agents mentioned by no rule, negative payoffs, missing = implicitly zero entries) and
   EVERY elimination order, the returned joint action is in range, the reported value is that
   action's total payoff, and no joint action pays more. *)
Theorem ve_optimal : forall (A : list nat) (rs : list rule) (order : list nat) (res : list nat * Q),
  Forall (wf_rule A) rs -> is_perm_seq (length A) order ->
  ve A rs order = Some res ->
  inr A (fst res) /\ (snd res == payoff rs (fst res))%Q /\
  forall a', inr A a' -> (payoff rs a' <= snd res)%Q.
Proof. exact ve_optimal_lemma. Qed.
Print Assumptions ve_optimal.

(* the model only refuses action spaces in which some agent has no action at all *)
Theorem ve_defined : forall A rs order,
  (forall i, i < length A -> 0 < nth i A 0) -> exists res, ve A rs order = Some res.
Proof. exact ve_defined_lemma. Qed.
Print Assumptions ve_defined.

(* the brute-force checker the oracle runs on the implementation's output is sound for the spec *)
Theorem exact_check_sound : forall A rs res, exact_check A rs res = true ->
  inr A (fst res) /\ (snd res == payoff rs (fst res))%Q /\
  forall a', inr A a' -> (payoff rs a' <= snd res)%Q.
Proof. exact exact_check_sound_lemma. Qed.
Print Assumptions exact_check_sound.

Theorem approx_check_sound : forall A rs res, approx_check A rs res = true ->
  inr A (fst res) /\ (snd res == payoff rs (fst res))%Q.
Proof. exact approx_check_sound_lemma. Qed.
Print Assumptions approx_check_sound.

(* LocalSearch / MaxPlus / ReusingIterativeLocalSearch return (a, evaluateGraph a) for the joint
   action a they end up with.  On the dense graph built by MakeGraph from rs0 and filled by
   UpdateGraph from ANY rule set rs over the same key sets (graph reuse), evaluateGraph of an
   in-range action is exactly its total payoff: the reported value is the true one. *)
Theorem approx_reports_true_value : forall (A : list nat) (rs0 rs : list rule) (a : list nat),
  Forall (wf_rule A) rs ->
  (forall r, In r rs -> exists r0, In r0 rs0 /\ r_keys r0 = r_keys r) ->
  inr A a ->
  inr A (fst (approx_result A (ls_update A (ls_make A rs0) rs) a)) /\
  (snd (approx_result A (ls_update A (ls_make A rs0) rs) a)
     == payoff rs (fst (approx_result A (ls_update A (ls_make A rs0) rs) a)))%Q.
Proof. exact approx_reports_true_value_lemma. Qed.
Print Assumptions approx_reports_true_value.

(* an approximate maximiser that reports the true payoff of an in-range action never exceeds
   what Variable Elimination returns *)
Theorem approx_le_opt : forall A rs order res vres,
  Forall (wf_rule A) rs -> is_perm_seq (length A) order -> ve A rs order = Some vres ->
  approx_spec A rs res -> (snd res <= snd vres)%Q.
Proof. exact approx_le_ve_lemma. Qed.
Print Assumptions approx_le_opt.

(* Multi-objective Variable Elimination (the REPAIRED code of
   fixes/C13-move-ucve-unmentioned-zero.patch: an action that no rule mentions counts as a zero
   vector) returns exactly the Pareto front, for EVERY rule set (missing entries included) and
   EVERY elimination order:
   - every returned entry is the payoff vector of an in-range joint action that extends its tag,
     and no joint action strictly dominates it;
   - every non-dominated payoff vector is returned -- except in the degenerate case where all
     joint actions pay the zero vector and no rule survives, in which the result is empty
     (the result type cannot then even carry the number of objectives d). *)
Theorem move_pareto : forall (A : list nat) (rs : list mo_rule) (order : list nat) (d : nat),
  (forall i, i < length A -> 0 < nth i A 0) ->
  Forall (fun r : mo_rule => fst (fst r) <> [] /\
            Forall2 (fun k x => k < length A /\ x < nth k A 0) (fst (fst r)) (snd (fst r))) rs ->
  is_perm_seq (length A) order ->
  (forall e, In e (move A rs order) ->
     exists b, inr A b /\ compat (fst (snd e)) (snd (snd e)) b = true /\
               (forall k, (nth k (fst e) 0 == nth k (mo_payoff (repeat 0 d) rs b) 0)%Q) /\
               forall b', inr A b' -> strictly_dominates (mo_payoff (repeat 0%Q d) rs b') (fst e) = false) /\
  (forall b, inr A b ->
     (forall b', inr A b' -> strictly_dominates (mo_payoff (repeat 0%Q d) rs b') (mo_payoff (repeat 0%Q d) rs b) = false) ->
     (exists e, In e (move A rs order) /\ forall k, (nth k (fst e) 0 == nth k (mo_payoff (repeat 0 d) rs b) 0)%Q) \/
     (move A rs order = [] /\ forall a k, inr A a -> (nth k (mo_payoff (repeat 0 d) rs a) 0 == 0)%Q)).
Proof. exact move_pareto_lemma. Qed.
Print Assumptions move_pareto.

(* non-vacuous: the witness of the old defect -- 3 binary agents, a single rule with a negative
   vector, all other entries missing: the repaired model returns the zero vector, not (-1,-2) *)
Definition mo_wit_rules : list mo_rule := [ (([0; 1; 2], [0; 0; 1]), [((-1) # 1)%Q; ((-2) # 1)%Q]) ].
Example ex_move_nonvacuous :
  map fst (move [2; 2; 2] mo_wit_rules [0; 1; 2]) = [[0%Q; 0%Q]] /\
  strictly_dominates [0%Q; 0%Q] [((-1) # 1)%Q; ((-2) # 1)%Q] = true.
Proof. split; vm_compute; reflexivity. Qed.

(* The oracle's comparison of upper confidence bounds  x + sqrt p  vs  y + sqrt q  (UCVE) is
   exact: when the test answers true, x + s <= y + t for every rational lower bound s of sqrt p
   and upper bound t of sqrt q; when it answers false, y + t < x + s for every rational upper
   bound s of sqrt p and lower bound t of sqrt q.  (By density of Q these two say: the test
   returns true iff x + sqrt p <= y + sqrt q.  No real numbers, no axioms.) *)
Theorem sqrt_sum_le_true_sound : forall x p y q : Q, (0 <= p)%Q -> (0 <= q)%Q -> sqrt_sum_le x p y q = true ->
  forall s t : Q, (0 <= s)%Q -> (0 <= t)%Q -> (s * s <= p)%Q -> (q <= t * t)%Q -> (x + s <= y + t)%Q.
Proof. exact sqrt_sum_le_true_lemma. Qed.
Print Assumptions sqrt_sum_le_true_sound.

Theorem sqrt_sum_le_false_sound : forall x p y q : Q, (0 <= p)%Q -> (0 <= q)%Q -> sqrt_sum_le x p y q = false ->
  forall s t : Q, (0 <= s)%Q -> (0 <= t)%Q -> (p <= s * s)%Q -> (t * t <= q)%Q -> (y + t < x + s)%Q.
Proof. exact sqrt_sum_le_false_lemma. Qed.
Print Assumptions sqrt_sum_le_false_sound.

Example ex_sqrt_sum_le : sqrt_sum_le (11 # 4) 10 (7 # 2) 6 = true /\ sqrt_sum_le (7 # 2) 6 (11 # 4) 10 = false.
Proof. split; vm_compute; reflexivity. Qed.

(* UCVE model, bound bookkeeping (partial): the variance range beginRemoval takes from a factor
   contains the bonus of every entry of every rule of that factor, and contains 0 whenever the
   factor has fewer rules than local joint actions (an unmentioned local action is worth (0,0)).
   The full statement -- pruning with the bounds x_l <= X <= x_u never removes an entry of an optimal
   joint action, hence [ucve] returns an action maximising mean + sqrt(bonus * logtA / 2) -- is NOT
   proved; see notes/C13.md. *)
Theorem uc_range_sound : forall A (nd : mo_node),
  (forall i f e, In (i, f) (snd nd) -> In e f ->
     (snd (uc_range A nd) <= e_b e)%Q /\ (e_b e <= fst (uc_range A nd))%Q) /\
  (length (snd nd) < psize (fst nd) A -> (snd (uc_range A nd) <= 0)%Q /\ (0 <= fst (uc_range A nd))%Q).
Proof. exact uc_range_sound_lemma. Qed.
Print Assumptions uc_range_sound.

(* the model reproduces the coordinator's witness of seed C13-r3-2: optimum 1/2 via (1,1,.,.) *)
Example ex_ucve_model :
  snd (ucve [2; 2; 2; 2] 2 [ (([0; 1], [1; 1]), [(-1 # 2)%Q; 1%Q]); (([2; 3], [1; 1]), [(-20 # 1)%Q; 100%Q]) ] [0; 1; 2; 3])
  = ((-1 # 2)%Q, 1%Q).
Proof. vm_compute. reflexivity. Qed.

(* ---- UCVE over the reals (Coq's Reals: the three standard-library axioms listed by Print Assumptions) ---- *)

(* the comparison used by the model and by the oracle IS the order of  m + sqrt b  *)
Theorem sqrt_sum_le_real : forall x p y q : Q, (0 <= p)%Q -> (0 <= q)%Q ->
  (sqrt_sum_le x p y q = true <-> (Q2R x + sqrt (Q2R p) <= Q2R y + sqrt (Q2R q))%R).
Proof. exact ssl_iff. Qed.
Print Assumptions sqrt_sum_le_real.

(* the pruning block of endFactorCrossSum never loses value: every entry e of the list keeps a
   representative e' that is at least as good under EVERY extra variance X in [x_l, x_u] *)
Theorem uc_prune_never_loses : forall L xl xu tmp, (0 <= L)%Q -> (0 <= xl)%Q ->
  (forall e, In e tmp -> (0 <= e_b e)%Q) ->
  forall e, In e tmp ->
    exists e', In e' (uc_prune L xl xu tmp) /\ In e' tmp /\
      forall X, (xl <= X)%Q -> (X <= xu)%Q ->
        (Q2R (e_m e) + sqrt (Q2R ((e_b e + X) * L)) <= Q2R (e_m e') + sqrt (Q2R ((e_b e' + X) * L)))%R.
Proof. exact uc_prune_sound. Qed.
Print Assumptions uc_prune_never_loses.

(* FULL STATEMENT (not proved):
     ucve_optimal : forall A logtA rs order, 0 <= logtA -> rules well-formed with bonuses >= 0 ->
       is_perm_seq (length A) order -> all A_i > 0 ->
       let (act, (m, b)) := ucve A logtA rs order in
       inr A act /\ (m, b) = (sum of means, sum of bonuses) of the rules compatible with act /\
       forall a', inr A a' -> mean(a') + sqrt (bonus(a') * logtA / 2) <= m + sqrt (b * logtA / 2).
   PROVED PART (ucve_optimal_partial): one elimination step never loses an optimum inside the
   pruned cross-sum -- for every joint value of the neighbours, every action of the eliminated
   agent and EVERY selection s of entries of the agent's factors, the pruned cross-sum still
   contains an entry r that is at least as good as s under every extra variance X of the rest of
   the graph with x_l <= X and X + bonus(s) <= x_u (x_u includes the agent's own factors, exactly as
   the repaired beginRemoval computes it; the agent's factors not yet cross-summed are accounted
   for by the shrinking range).
   MISSING for the full statement: (1) the bound lemma "uc_bounds brackets the total bonus of every
   selection of the other factors and the finished components" (from uc_range_sound, plus a
   pigeon-hole argument that a factor with as many rules as local actions has no unmentioned
   action, plus the finalMax/finalMin bookkeeping); (2) the induction over the elimination, i.e.
   MInv of ProofsMO4 with soundness unchanged and completeness replaced by "for every joint action
   some selection of the current factors is at least as good"; (3) makeResult (prune_dominator and
   argmax_spec are the needed lemmas). *)
Theorem ucve_optimal_partial : forall A L xl xu (Fv : list mo_node) (jv : list nat) (s : list mo_entry),
  (0 <= L)%Q -> (0 <= xl)%Q ->
  (forall nd x, In nd Fv -> In x (mden A nd jv) -> (0 <= e_b x)%Q) ->
  Sel (map (fun nd => mden A nd jv) Fv) s -> s <> [] ->
  exists r, In r (uc_cross_sum A L xl xu Fv jv) /\
    forall X, (xl <= X)%Q -> (X + csum 1 s <= xu)%Q ->
      (Q2R (csum 0 s) + sqrt (Q2R ((csum 1 s + X) * L)) <= Q2R (e_m r) + sqrt (Q2R ((e_b r + X) * L)))%R.
Proof. exact uc_cross_sum_dom_lemma. Qed.
Print Assumptions ucve_optimal_partial.

(* non-vacuity: with L = 1 and bounds [0, 0] the pruning block drops the dominated entry (0, 1/4) and
   the entry (1, 0), which cannot beat (0, 4): 1 + sqrt 0 <= 0 + sqrt 4 *)
Example ex_uc_prune :
  map fst (uc_prune 1 0 0 [ ([1%Q; 0%Q], ([0], [0])); ([0%Q; (1 # 4)%Q], ([0], [1])); ([0%Q; 4%Q], ([0], [2])) ])
  = [[0%Q; 4%Q]].
Proof. vm_compute. reflexivity. Qed.

(* hypotheses are satisfiable on a non-trivial input: 3 agents (agent 2 unmentioned), overlapping
   and nested key sets, a duplicate rule, a negative payoff, missing entries; eliminated in the
   order 1, 2, 0 *)
Definition ex_A := [2; 3; 2].
Definition ex_rules : list rule :=
  [ (([0; 1], [1; 2]), (3 # 2)%Q); (([1], [2]), ((-2) # 1)%Q); (([0; 1], [1; 2]), (1 # 4)%Q);
    (([0], [0]), (1 # 1)%Q); (([0; 1], [0; 0]), (1 # 2)%Q) ].
Example ex_ve_nonvacuous :
  Forall (wf_rule ex_A) ex_rules /\ is_perm_seq (length ex_A) [1; 2; 0] /\
  ve ex_A ex_rules [1; 2; 0] = Some ([0; 0; 0], (3 # 2)%Q).
Proof.
  split; [|split].
  - repeat constructor; cbn; try lia; try discriminate.
  - split; [repeat constructor; cbn; intuition lia|].
    intro i; cbn; split; [intuition lia|]. intro H. destruct i as [|[|[|i]]]; auto; lia.
  - vm_compute. reflexivity.
Qed.

(* graph made from ex_rules, then reused for a different rule set over the same key sets *)
Definition ex_rules2 : list rule := [ (([0; 1], [1; 1]), (5 # 2)%Q); (([1], [1]), ((-1) # 4)%Q) ].
Example ex_approx_nonvacuous :
  Forall (wf_rule ex_A) ex_rules2 /\
  (forall r, In r ex_rules2 -> exists r0, In r0 ex_rules /\ r_keys r0 = r_keys r) /\
  inr ex_A [1; 1; 1] /\
  Qeq (snd (approx_result ex_A (ls_update ex_A (ls_make ex_A ex_rules) ex_rules2) [1; 1; 1])) (9 # 4)%Q.
Proof.
  split; [|split; [|split]].
  - repeat constructor; cbn; try lia; try discriminate.
  - intros r [<-|[<-|[]]]; [exists (([0; 1], [1; 2]), (3 # 2)%Q) | exists (([1], [2]), ((-2) # 1)%Q)]; cbn; auto.
  - split; [reflexivity|]. intros [|[|[|i]]] Hi; cbn in *; lia.
  - vm_compute. reflexivity.
Qed.
