(* Properties_C13.v — property C13: coordination-graph maximisers return what they claim.
   Only statements, each closed by [exact <lemma>] and followed by Print Assumptions. *)
From Coq Require Import List Arith QArith Lia.
From AIT Require Import C13.Model C13.Spec C13.ProofsBase C13.ProofsGraph C13.Proofs C13.ProofsLS.
Import ListNotations.
Local Open Scope nat_scope.

(* Variable Elimination is exact: for EVERY rule set (overlapping, nested, duplicate, disconnected
   key sets, agents mentioned by no rule, negative payoffs, missing = implicitly zero entries) and
   EVERY elimination order, the returned joint action is in range, the reported value is that
   action's total payoff, and no joint action pays more. *)
Theorem ve_optimal : forall (A : list nat) (rs : list rule) (order : list nat) (res : list nat * Q),
  Forall (wf_rule A) rs -> is_perm_seq (length A) order ->
  ve A rs order = Some res ->
  inr A (fst res) /\ (snd res == payoff rs (fst res))%Q /\
  forall a', inr A a' -> (payoff rs a' <= snd res)%Q.
Proof. exact ve_optimal_lemma. Qed.
Print Assumptions ve_optimal.

(* the model only refuses action spaces in which some agent has no action at all *)
Theorem ve_defined : forall A rs order,
  (forall i, i < length A -> 0 < nth i A 0) -> exists res, ve A rs order = Some res.
Proof. exact ve_defined_lemma. Qed.
Print Assumptions ve_defined.

(* the brute-force checker the oracle runs on the implementation's output is sound for the spec *)
Theorem exact_check_sound : forall A rs res, exact_check A rs res = true ->
  inr A (fst res) /\ (snd res == payoff rs (fst res))%Q /\
  forall a', inr A a' -> (payoff rs a' <= snd res)%Q.
Proof. exact exact_check_sound_lemma. Qed.
Print Assumptions exact_check_sound.

Theorem approx_check_sound : forall A rs res, approx_check A rs res = true ->
  inr A (fst res) /\ (snd res == payoff rs (fst res))%Q.
Proof. exact approx_check_sound_lemma. Qed.
Print Assumptions approx_check_sound.

(* LocalSearch / MaxPlus / ReusingIterativeLocalSearch return (a, evaluateGraph a) for the joint
   action a they end up with.  On the dense graph built by MakeGraph from rs0 and filled by
   UpdateGraph from ANY rule set rs over the same key sets (graph reuse), evaluateGraph of an
   in-range action is exactly its total payoff: the reported value is the true one. *)
Theorem approx_reports_true_value : forall (A : list nat) (rs0 rs : list rule) (a : list nat),
  Forall (wf_rule A) rs ->
  (forall r, In r rs -> exists r0, In r0 rs0 /\ r_keys r0 = r_keys r) ->
  inr A a ->
  inr A (fst (approx_result A (ls_update A (ls_make A rs0) rs) a)) /\
  (snd (approx_result A (ls_update A (ls_make A rs0) rs) a)
     == payoff rs (fst (approx_result A (ls_update A (ls_make A rs0) rs) a)))%Q.
Proof. exact approx_reports_true_value_lemma. Qed.
Print Assumptions approx_reports_true_value.

(* an approximate maximiser that reports the true payoff of an in-range action never exceeds
   what Variable Elimination returns *)
Theorem approx_le_opt : forall A rs order res vres,
  Forall (wf_rule A) rs -> is_perm_seq (length A) order -> ve A rs order = Some vres ->
  approx_spec A rs res -> (snd res <= snd vres)%Q.
Proof. exact approx_le_ve_lemma. Qed.
Print Assumptions approx_le_opt.

(* MOVE as written does NOT return the Pareto front when a local joint action has no rule
   (the property counts such entries as zero vectors): on 3 binary agents with the single rule
   {0,1,2} = (0,0,1) -> (-1,-2) the model of the code (which the correspondence check ties to
   the real MultiObjectiveVariableElimination on every run) returns the vector (-1,-2), which
   the joint action (0,0,0), paying (0,0), strictly dominates. *)
Definition mo_wit_rules : list mo_rule := [ (([0; 1; 2], [0; 0; 1]), [((-1) # 1)%Q; ((-2) # 1)%Q]) ].
Theorem move_pareto_refuted : exists (A : list nat) (rs : list mo_rule) (order : list nat) (e : mo_entry) (a : list nat),
  is_perm_seq (length A) order /\ In e (move A rs order) /\ inr A a /\
  strictly_dominates (mo_payoff [0%Q; 0%Q] rs a) (fst e) = true.
Proof. exact move_pareto_refuted_lemma. Qed.
Print Assumptions move_pareto_refuted.

(* hypotheses are satisfiable on a non-trivial input: 3 agents (agent 2 unmentioned), overlapping
   and nested key sets, a duplicate rule, a negative payoff, missing entries; eliminated in the
   order 1, 2, 0 *)
Definition ex_A := [2; 3; 2].
Definition ex_rules : list rule :=
  [ (([0; 1], [1; 2]), (3 # 2)%Q); (([1], [2]), ((-2) # 1)%Q); (([0; 1], [1; 2]), (1 # 4)%Q);
    (([0], [0]), (1 # 1)%Q); (([0; 1], [0; 0]), (1 # 2)%Q) ].
Example ex_ve_nonvacuous :
  Forall (wf_rule ex_A) ex_rules /\ is_perm_seq (length ex_A) [1; 2; 0] /\
  ve ex_A ex_rules [1; 2; 0] = Some ([0; 0; 0], (3 # 2)%Q).
Proof.
  split; [|split].
  - repeat constructor; cbn; try lia; try discriminate.
  - split; [repeat constructor; cbn; intuition lia|].
    intro i; cbn; split; [intuition lia|]. intro H. destruct i as [|[|[|i]]]; auto; lia.
  - vm_compute. reflexivity.
Qed.

(* graph made from ex_rules, then reused for a different rule set over the same key sets *)
Definition ex_rules2 : list rule := [ (([0; 1], [1; 1]), (5 # 2)%Q); (([1], [1]), ((-1) # 4)%Q) ].
Example ex_approx_nonvacuous :
  Forall (wf_rule ex_A) ex_rules2 /\
  (forall r, In r ex_rules2 -> exists r0, In r0 ex_rules /\ r_keys r0 = r_keys r) /\
  inr ex_A [1; 1; 1] /\
  Qeq (snd (approx_result ex_A (ls_update ex_A (ls_make ex_A ex_rules) ex_rules2) [1; 1; 1])) (9 # 4)%Q.
Proof.
  split; [|split; [|split]].
  - repeat constructor; cbn; try lia; try discriminate.
  - intros r [<-|[<-|[]]]; [exists (([0; 1], [1; 2]), (3 # 2)%Q) | exists (([1], [2]), ((-2) # 1)%Q)]; cbn; auto.
  - split; [reflexivity|]. intros [|[|[|i]]] Hi; cbn in *; lia.
  - vm_compute. reflexivity.
Qed.
