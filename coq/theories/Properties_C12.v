(* Properties_C12.v — property C12: pruning preserves the value surface; bound interpolation is
   exact.  Only statements, each closed by [exact <lemma>] and followed by Print Assumptions. *)
From Coq Require Import List Arith QArith Qminmax Lqa Lia Bool Permutation.
From AIT Require Import Base.Qx Base.Mdp C12.Model C12.Spec C12.Proofs C12.ProofsInc C12.ProofsPruner C12.ProofsInterp C12.ProofsLpOpt C12.ProofsSep C12.ProofsPars C12.Vertices C12.ProofsVertices.
Import ListNotations.
Local Open Scope Q_scope.

(* ---------------------------------------------------------------- extractDominated *)
(* the array afterwards (kept ++ removed) is a permutation of the input, for any dominance test and
   any element type; the kept range is its prefix *)
Theorem extractDominated_perm_prefix : forall (A : Type) (dom : A -> A -> bool) (l : list A),
  let '(kept, removed) := extractDominatedBy dom l in Permutation (kept ++ removed) l.
Proof. exact extractDominatedBy_perm. Qed.
Print Assumptions extractDominated_perm_prefix.

(* code tolerances (parameters eS, eG >= 0; the code's are epsS, epsG): with entries bounded above by
   M, each removed vector lowers the envelope on the simplex by at most max(eS, M*eG) *)
Theorem dominated_envelope : forall (A : Type) (proj : A -> vec) (eS eG M : Q) (n : nat) (l : list A) (b : vec),
  0 <= eS -> 0 <= eG -> 0 <= M ->
  Forall (fun a => length (proj a) = n) l -> Forall (fun a => Forall (fun x => x <= M) (proj a)) l ->
  simplex n b ->
  let '(kept, removed) := extractDominatedBy (fun x y => dominates_tol eS eG (proj x) (proj y)) l in
  env (map proj l) b - inject_Z (Z.of_nat (length removed)) * Qmax eS (M * eG) <= env (map proj kept) b
  /\ env (map proj kept) b <= env (map proj l) b.
Proof. exact dominated_envelope_gen. Qed.
Print Assumptions dominated_envelope.

(* tolerance 0: the envelope is unchanged at every non-negative (also unnormalised) belief *)
Theorem dominated_envelope_exact : forall (A : Type) (proj : A -> vec) (n : nat) (l : list A) (b : vec),
  Forall (fun a => length (proj a) = n) l -> nonneg b ->
  let '(kept, removed) := extractDominatedBy (fun x y => dominates0 (proj x) (proj y)) l in
  env (map proj kept) b == env (map proj l) b.
Proof. exact dominated_envelope_exact_gen. Qed.
Print Assumptions dominated_envelope_exact.

(* for a reflexive, transitive dominance test the kept range is a pruning of the input: pairwise
   non-dominating, and every input element is dominated by a kept one *)
Theorem extractDominated_is_pruning : forall (A : Type) (dom : A -> A -> bool),
  dom_refl dom -> dom_trans dom -> forall l,
  let '(kept, removed) := extractDominatedBy dom l in is_pruning dom l kept.
Proof. exact extractDominatedBy_is_pruning. Qed.
Print Assumptions extractDominated_is_pruning.

(* ---------------------------------------------------------------- extractDominatedIncremental *)
Theorem incremental_perm : forall (A : Type) (dom : A -> A -> bool) (old new : list A),
  let '(og, ngz, obz, nb, nr0) := extractDominatedIncrementalBy dom old new in
  Permutation (og ++ ngz ++ obz ++ nb ++ nr0) (old ++ new).
Proof. exact extractDominatedIncrementalBy_perm. Qed.
Print Assumptions incremental_perm.

(* the three returned iterators (zone ends) are ordered and lie inside the original range *)
Theorem incremental_iterators_in_range : forall (A : Type) (dom : A -> A -> bool) (old new : list A),
  let '(og, ngz, obz, nb, nr0) := extractDominatedIncrementalBy dom old new in
  (length og <= length og + length ngz <= length og + length ngz + length obz)%nat /\
  (length og + length ngz + length obz + length nb + length nr0 = length old + length new)%nat.
Proof.
  intros A dom old new. pose proof (extractDominatedIncrementalBy_perm A dom old new) as H.
  destruct (extractDominatedIncrementalBy dom old new) as [[[[og ngz] obz] nb] nr0].
  apply Permutation_length in H. rewrite !app_length in H. lia.
Qed.
Print Assumptions incremental_iterators_in_range.

(* under the documented precondition (the old range is internally non-dominated), the good ranges
   of the incremental version and the result of pruning the union are the same set up to mutual
   dominance (for tolerance 0: up to equality of vectors) *)
Theorem incremental_eq_union : forall (A : Type) (dom : A -> A -> bool),
  dom_refl dom -> dom_trans dom -> forall old new, pnd dom old ->
  let '(og, ngz, obz, nb, nr0) := extractDominatedIncrementalBy dom old new in
  let '(uk, ur) := extractDominatedBy dom (old ++ new) in
  (forall x, In x (og ++ ngz) -> exists y, In y uk /\ dom x y = true /\ dom y x = true) /\
  (forall y, In y uk -> exists x, In x (og ++ ngz) /\ dom x y = true /\ dom y x = true).
Proof. exact incremental_eq_union_gen. Qed.
Print Assumptions incremental_eq_union.

(* ---------------------------------------------------------------- separated inputs *)
(* when the tolerance test and the exact test agree on all pairs of the input (vectors exactly
   comparable/tied or separated by more than the tolerances) the code's instances behave like
   tolerance 0 *)
Theorem dominated_envelope_separated : forall (n : nat) (l : list vec) (b : vec),
  separated n l -> nonneg b ->
  let '(kept, removed) := extractDominated l in env kept b == env l b.
Proof. exact ProofsSep.dominated_envelope_separated. Qed.
Print Assumptions dominated_envelope_separated.

Theorem extractDominated_is_pruning_separated : forall (n : nat) (l : list vec),
  separated n l -> let '(kept, removed) := extractDominated l in is_pruning dominates l kept.
Proof. exact ProofsSep.extractDominated_is_pruning_separated. Qed.
Print Assumptions extractDominated_is_pruning_separated.

Theorem incremental_eq_union_separated : forall (n : nat) (old new : list vec),
  separated n (old ++ new) -> pnd dominates old ->
  let '(og, ngz, obz, nb, nr0) := extractDominatedIncremental old new in
  let '(uk, ur) := extractDominated (old ++ new) in
  ((forall x, In x (og ++ ngz) -> exists y, In y uk /\ veq x y) /\
   (forall y, In y uk -> exists x, In x (og ++ ngz) /\ veq x y)) /\
  forall b, nonneg b -> env (og ++ ngz) b == env uk b.
Proof.
  intros n old new Hs Hp.
  pose proof (ProofsSep.incremental_eq_union_separated n old new Hs Hp) as H1.
  pose proof (ProofsSep.incremental_env_union_separated n old new Hs Hp) as H2.
  destruct (extractDominatedIncremental old new) as [[[[og ngz] obz] nb] nr0].
  destruct (extractDominated (old ++ new)) as [uk ur]. exact (conj H1 H2).
Qed.
Print Assumptions incremental_eq_union_separated.

(* ---------------------------------------------------------------- best at a point *)
Theorem findBestAtPoint_max : forall (A : Type) (proj : A -> vec) point l j a v,
  findBestAtPoint proj point l = Some (j, a, v) ->
  nth_error l j = Some a /\ v == dot point (proj a) /\ v == env (map proj l) point.
Proof. exact findBestAtPoint_max_gen. Qed.
Print Assumptions findBestAtPoint_max.

Theorem findBestAtSimplexCorner_max : forall (A : Type) (proj : A -> vec) corner l j a v,
  findBestAtSimplexCorner proj corner l = Some (j, a, v) ->
  nth_error l j = Some a /\ v == nthq (proj a) corner /\ forall x, In x l -> nthq (proj x) corner <= v.
Proof. exact findBestAtSimplexCorner_max_gen. Qed.
Print Assumptions findBestAtSimplexCorner_max.

(* lexicographic tie-break: among the maximisers the returned element is the greatest one in the
   order of veccmp (no maximiser compares Gt to it) *)
Theorem findBestAtPoint_tiebreak : forall (A : Type) (proj : A -> vec) point l j a v,
  findBestAtPoint proj point l = Some (j, a, v) ->
  forall x, In x l -> dot point (proj x) == v -> veccmp (proj x) (proj a) <> Gt.
Proof. intros A proj point l j a v H. exact (findBestBy_tiebreak A proj (scoreAt proj point) l j a v H). Qed.
Print Assumptions findBestAtPoint_tiebreak.

(* extractBestAtPoint & co.: a permutation that leaves the useful prefix alone and puts a maximiser
   into the (possibly extended) useful prefix *)
Theorem extractBest_attains : forall (A : Type) (proj : A -> vec) (score : A -> Q) l k,
  l <> [] -> (k <= length l)%nat ->
  let '(l', k') := extractBestBy proj score l k in
  Permutation l' l /\ firstn k l' = firstn k l /\ (k <= k' <= S k)%nat /\
  exists a, In a (firstn k' l') /\ forall x, In x l -> score x <= score a.
Proof.
  intros A proj score l k Hne Hk.
  pose proof (extractBestBy_perm A proj score l k) as H1. pose proof (extractBestBy_prefix A proj score l k) as H2.
  pose proof (extractBestBy_bound A proj score l k) as H3. pose proof (extractBestBy_attains A proj score l k Hne Hk) as H4.
  destruct (extractBestBy proj score l k) as [l' k']. exact (conj H1 (conj H2 (conj H3 H4))).
Qed.
Print Assumptions extractBest_attains.

(* ---------------------------------------------------------------- Pruner (WitnessLP as an oracle) *)
Theorem pruner_subset : forall (A : Type) (proj : A -> vec) (findWitness : list vec -> vec -> option vec)
  (dom : A -> A -> bool) (S : nat) (l k r r0 : list A),
  pruner proj findWitness dom S l = Some (k, r, r0) -> Permutation (k ++ r ++ r0) l.
Proof. exact pruner_perm. Qed.
Print Assumptions pruner_subset.

(* the loop always finishes within the fuel the model gives it (each iteration moves bound up or end down) *)
Theorem pruner_terminates : forall (A : Type) (proj : A -> vec) (findWitness : list vec -> vec -> option vec)
  (dom : A -> A -> bool) (S : nat) (l : list A), exists res, pruner proj findWitness dom S l = Some res.
Proof. exact ProofsPruner.pruner_terminates. Qed.
Print Assumptions pruner_terminates.

(* if the LP is complete (no witness reported => the candidate is nowhere above the rows) the LP phase
   keeps the envelope of what extractDominated kept *)
Theorem pruner_envelope : forall (A : Type) (proj : A -> vec) (findWitness : list vec -> vec -> option vec)
  (dom : A -> A -> bool) (n : nat),
  (forall rows v, rows <> [] -> findWitness rows v = None -> forall b, simplex n b -> dot v b <= env rows b) ->
  forall (S : nat) (l k r r0 : list A), pruner proj findWitness dom S l = Some (k, r, r0) -> (0 < S)%nat ->
  forall b, simplex n b -> env (map proj k) b == env (map proj (fst (extractDominatedBy dom l))) b.
Proof. exact ProofsPruner.pruner_envelope. Qed.
Print Assumptions pruner_envelope.

(* every vector the Pruner keeps is needed: somewhere on the simplex it is strictly above every other
   kept vector.  Oracle soundness: a reported witness is a point of the simplex where the candidate
   is strictly above all rows.  The vectors that survive extractDominated must be pairwise different
   (true after extractDominated for any reflexive dominance test that is transitive on the input). *)
Theorem pruner_parsimonious : forall (A : Type) (proj : A -> vec) (n : nat)
  (findWitness : list vec -> vec -> option vec),
  (forall rows v b, findWitness rows v = Some b -> simplex n b /\ forall r, In r rows -> dot r b < dot v b) ->
  forall (dom : A -> A -> bool) (l k r r0 : list A),
  pruner proj findWitness dom n l = Some (k, r, r0) -> (0 < n)%nat ->
  let l1 := fst (extractDominatedBy dom l) in
  Forall (fun a => length (proj a) = n) l1 ->
  (forall l1a x l1b y l1c, l1 = l1a ++ x :: l1b ++ y :: l1c -> ~ veq (proj x) (proj y)) ->
  forall k1 x k2, k = k1 ++ x :: k2 -> needed n (map proj k1) (proj x) (map proj k2).
Proof. exact ProofsPars.pruner_parsimonious. Qed.
Print Assumptions pruner_parsimonious.

(* ---------------------------------------------------------------- interpolation (repaired code) *)
Theorem interp_weights_ok_sawtooth : forall point ubQ pts vals, interp_wf point pts vals ->
  weights_ok point pts (snd (sawtoothInterpolation point ubQ pts vals)).
Proof. exact sawtooth_weights_ok_lemma. Qed.
Print Assumptions interp_weights_ok_sawtooth.

(* LPInterpolation, LP through the oracle lp_min with soundness hypothesis: the weights before the
   final clean-up are exact; the clean-up maps x to 0 when |x| <= 1e-6 or x < 0 (cleanup_spec) *)
Theorem interp_weights_ok : forall point pts vals, interp_wf point pts vals ->
  forall lp_min, lp_sound lp_min -> forall ubQ v w,
  LPInterpolation lp_min point ubQ pts vals = Some (v, w) ->
  nonneg w /\ exists raw, (w = raw \/ w = map cleanup raw) /\ weights_ok point pts raw /\
                          (Forall sepz raw -> weights_ok point pts w).
Proof.
  intros point pts vals Hwf lp_min Hlp ubQ v w H.
  destruct (lpi_weights_ok_lemma point pts vals Hwf lp_min Hlp ubQ v w H) as [raw [Hw Hok]].
  split.
  - destruct Hw as [->| ->]; [apply Hok| apply cleanup_nonneg].
  - exists raw. split; [exact Hw|]. split; [exact Hok|]. intros Hs.
    destruct Hw as [->| ->]; [exact Hok| apply weights_ok_cleanup; assumption].
Qed.
Print Assumptions interp_weights_ok.

(* LPInterpolation: the value never exceeds the weighted sum of corner and point values taken with the
   exact (pre-clean-up) weights [raw]; w is raw or its clean-up *)
Theorem interp_value_le_weighted : forall point pts vals, interp_wf point pts vals ->
  forall lp_min, lp_sound lp_min -> forall ubQ v w, ubQ_wf point ubQ ->
  LPInterpolation lp_min point ubQ pts vals = Some (v, w) ->
  exists raw, (w = raw \/ w = map cleanup raw) /\ weights_ok point pts raw /\
              v <= weighted_value raw (cornerVals ubQ) vals.
Proof. exact lpi_value_le_weighted_lemma. Qed.
Print Assumptions interp_value_le_weighted.

(* LPInterpolation equals the optimum of the full interpolation LP (over ALL stored points) whenever a
   stored point shares the query's support: the value is attained by a feasible solution and is a
   lower bound of the objective on the feasible set.  lp_opt: the oracle returns a minimiser. *)
Theorem interp_eq_lp_when_shared_support : forall point pts vals ubQ,
  interp_wf point pts vals -> ubQ_wf point ubQ ->
  forall lp_min, lp_sound lp_min -> lp_opt lp_min ->
  qsum point == 1 /\ Forall (fun b => qsum b == 1) pts ->
  forall v w, compatiblePoints point pts <> [] ->
  LPInterpolation lp_min point ubQ pts vals = Some (v, w) ->
  (exists c, interp_feasible point pts c /\ v == interp_objective point (cornerVals ubQ) pts vals c) /\
  (forall c', interp_feasible point pts c' -> v <= interp_objective point (cornerVals ubQ) pts vals c').
Proof. exact interp_eq_lp_lemma. Qed.
Print Assumptions interp_eq_lp_when_shared_support.

Theorem interp_value_le_weighted_sawtooth : forall point ubQ pts vals,
  interp_wf point pts vals -> ubQ_wf point ubQ ->
  fst (sawtoothInterpolation point ubQ pts vals) <=
  weighted_value (snd (sawtoothInterpolation point ubQ pts vals)) (cornerVals ubQ) vals.
Proof. exact sawtooth_value_le_weighted_lemma. Qed.
Print Assumptions interp_value_le_weighted_sawtooth.

(* sawtooth lies below the corner-only bound and the per-action linear bound, and above the smaller of
   the per-action bound and any lower bound L of the interpolation LP (in particular its optimum) *)
Theorem sawtooth_between : forall point ubQ pts vals,
  interp_wf point pts vals -> ubQ_wf point ubQ ->
  let v := fst (sawtoothInterpolation point ubQ pts vals) in
  v <= dot point (cornerVals ubQ) /\ v <= basicV point ubQ /\
  forall L, (forall c, interp_feasible point pts c -> L <= interp_objective point (cornerVals ubQ) pts vals c) ->
            Qmin L (basicV point ubQ) <= v.
Proof. exact sawtooth_between_lemma. Qed.
Print Assumptions sawtooth_between.

(* the weight placement of the pinned commit is wrong (DESIGN §6): witnesses *)
Theorem interp_weights_ok_refuted :
  (let point := [1#2; 1#2; 0] in
   let pts := [[1#2; 1#2; 0]; [3#4; 1#4; 0]; [1#4; 1#4; 1#2]] in
   let compat := compatiblePoints point pts in
   compat = [0%nat; 1%nat] /\
   weights_okb point pts (map cleanup (lpi_raw_orig point pts compat [1; 0])) = false /\
   weights_okb point pts (map cleanup (lpi_raw point pts compat [1; 0])) = true) /\
  (let point := [3#4; 1#4; 0] in
   let ubQ := [[1; 0]; [0; 1]; [1; 1]] in
   let pts := [[1#4; 1#4; 1#2]; [1#2; 1#2; 0]] in
   let vals := [1#2; 1#4] in
   weights_okb point pts (snd (sawtoothInterpolation_orig point ubQ pts vals)) = false /\
   weights_okb point pts (snd (sawtoothInterpolation point ubQ pts vals)) = true /\
   fst (sawtoothInterpolation point ubQ pts vals) == 5#8).
Proof. exact (conj lpi_weights_orig_refuted sawtooth_weights_orig_refuted). Qed.
Print Assumptions interp_weights_ok_refuted.

(* ---------------------------------------------------------------- findVerticesNaive (repaired code) *)
(* for ANY linear solver: a returned vertex has non-negative coordinates all below 1 - 1e-6 (it is not
   a corner), its limited coordinates are exactly 0, and it satisfies the equations of its selected
   subset up to 1e-6: new plane value = each selected alpha's value = reported value, coordinates
   sum to 1 *)
Theorem vertices_in_simplex_approx : forall solve (newVs alphas : list vec) dim p v,
  (2 <= dim)%nat -> Forall (fun a : vec => length a = dim) (newVs ++ alphas) -> dim = length (hd [] alphas) ->
  In (p, v) (findVerticesNaive solve newVs alphas) ->
  (forall x, In x p -> x < 1 - epsS) /\
  exists newV ids, In newV newVs /\ In ids (fv_subsets dim (length alphas)) /\ length p = dim /\ nonneg p /\
    (- epsS <= dot newV p - v /\ dot newV p - v <= epsS) /\
    (forall idx, In idx ids -> (idx < length alphas)%nat ->
       - epsS <= dot (nth idx alphas []) p - v /\ dot (nth idx alphas []) p - v <= epsS) /\
    (- epsS <= qsum p - 1 /\ qsum p - 1 <= epsS) /\
    (forall idx, In idx ids -> (length alphas <= idx)%nat -> nthq p (idx - length alphas) == 0).
Proof.
  intros solve newVs alphas dim p v Hd Hl He Hin. split.
  - destruct (findVerticesNaive_basic solve newVs alphas p v Hin) as [_ H]. apply H.
  - exact (findVerticesNaive_approx solve newVs alphas dim p v Hd Hl He Hin).
Qed.
Print Assumptions vertices_in_simplex_approx.

(* when the linear solve is exact (A x = b) the vertex lies in the simplex and satisfies the equalities
   of its selected planes/faces exactly *)
Theorem vertices_exact : forall solve (newVs alphas : list vec) dim p v,
  (forall A b, solved A b (solve A b)) -> (2 <= dim)%nat ->
  Forall (fun a : vec => length a = dim) (newVs ++ alphas) -> alphas <> [] -> dim = length (hd [] alphas) ->
  In (p, v) (findVerticesNaive solve newVs alphas) ->
  exists newV ids, In newV newVs /\ In ids (fv_subsets dim (length alphas)) /\ simplex dim p /\ dot newV p == v /\
    (forall idx, In idx ids -> (idx < length alphas)%nat -> dot (nth idx alphas []) p == v) /\
    (forall idx, In idx ids -> (length alphas <= idx)%nat -> nthq p (idx - length alphas) == 0).
Proof. exact findVerticesNaive_exact. Qed.
Print Assumptions vertices_exact.

(* the single-range overload: each plane against all the others *)
Theorem vertices_range_approx : forall solve (range : list vec) dim p v,
  (2 <= dim)%nat -> Forall (fun a : vec => length a = dim) range ->
  In (p, v) (findVerticesNaiveRange solve range) ->
  exists i ids, (i < length range)%nat /\
    (let alphas := firstn i range ++ skipn (S i) range in let N := length alphas in
     In ids (fv_subsets dim N) /\ length p = dim /\ nonneg p /\
     (- epsS <= dot (nth i range []) p - v /\ dot (nth i range []) p - v <= epsS) /\
     (forall idx, In idx ids -> (idx < N)%nat ->
        - epsS <= dot (nth idx alphas []) p - v /\ dot (nth idx alphas []) p - v <= epsS) /\
     (- epsS <= qsum p - 1 /\ qsum p - 1 <= epsS) /\
     (forall idx, In idx ids -> (N <= idx)%nat -> nthq p (idx - N) == 0)).
Proof. exact findVerticesNaiveRange_approx. Qed.
Print Assumptions vertices_range_approx.

(* a run of the model: two crossing planes in 2-D, exact solve supplied as a table *)
Example ex_vertices :
  findVerticesNaive (fun _ _ => [1#2; 1#2; 1#2]) [[1; 0]] [[0; 1]] = [([1#2; 1#2], 1#2)].
Proof. vm_compute. reflexivity. Qed.

(* ---------------------------------------------------------------- hypotheses are satisfiable *)
Example ex_extractDominated :
  extractDominated [[1;0];[0;1];[1;1];[1#2;1#2]] = ([[1;1]], [[0;1];[1;0];[1#2;1#2]]).
Proof. vm_compute. reflexivity. Qed.

Example ex_incremental :
  extractDominatedIncremental [[1;0];[0;1]] [[1;1];[1#2;1#2]] = ([], [[1;1]], [[0;1];[1;0]], [], [[1#2;1#2]]).
Proof. vm_compute. reflexivity. Qed.

Example ex_interp_wf :
  interp_wf [3#4; 1#4; 0] [[1#4; 1#4; 1#2]; [1#2; 1#2; 0]] [1#2; 1#4] /\ ubQ_wf [3#4; 1#4; 0] [[1; 0]; [0; 1]; [1; 1]].
Proof.
  unfold interp_wf, ubQ_wf, nonneg, sepz. repeat split; repeat constructor; try discriminate;
    try (intros H; vm_compute in H; discriminate); try reflexivity.
Qed.

(* a (weak but) sound LP oracle: answers only the all-zero solution when it is feasible *)
Example ex_lp_sound :
  lp_sound (fun rows rhs coef => if forallb (fun b => Qle_bool 0 b) rhs && (length rows =? length rhs)%nat
                                 then Some (vzero (length coef)) else None).
Proof.
  intros rows rhs coef c H. destruct (forallb (fun b => Qle_bool 0 b) rhs && (length rows =? length rhs)%nat) eqn:E; [|discriminate].
  inversion H; subst. apply andb_true_iff in E. destruct E as [E1 E2]. apply Nat.eqb_eq in E2.
  split; [apply nonneg_vzero|]. split; [apply vzero_length|].
  rewrite forallb_forall in E1. revert rhs E1 E2. induction rows as [|r rows IH]; intros [|b rhs] E1 E2; try discriminate E2; constructor.
  - rewrite dot_repeat0_r. apply Qle_bool_iff. apply E1. left; reflexivity.
  - apply IH; [intros x Hx; apply E1; right; exact Hx| cbn in E2; lia].
Qed.

(* an oracle that is sound and optimal: the all-zero solution when the costs and bounds are >= 0 *)
Example ex_lp_opt :
  let f := fun (rows : mat) (rhs coef : vec) =>
             if forallb (fun b => Qle_bool 0 b) rhs && forallb (fun b => Qle_bool 0 b) coef && (length rows =? length rhs)%nat
             then Some (vzero (length coef)) else None in
  lp_sound f /\ lp_opt f.
Proof.
  cbv zeta. split.
  - intros rows rhs coef c H.
    destruct (forallb (fun b => Qle_bool 0 b) rhs && forallb (fun b => Qle_bool 0 b) coef && (length rows =? length rhs)%nat) eqn:E; [|discriminate].
    inversion H; subst. apply andb_true_iff in E. destruct E as [E E2]. apply andb_true_iff in E. destruct E as [E1 _]. apply Nat.eqb_eq in E2.
    split; [apply nonneg_vzero|]. split; [apply vzero_length|].
    rewrite forallb_forall in E1. revert rhs E1 E2. induction rows as [|r rows IH]; intros [|b rhs] E1 E2; try discriminate E2; constructor.
    + rewrite dot_repeat0_r. apply Qle_bool_iff. apply E1. left; reflexivity.
    + apply IH; [intros x Hx; apply E1; right; exact Hx| cbn in E2; lia].
  - intros rows rhs coef c H c' Hc' _ _.
    destruct (forallb (fun b => Qle_bool 0 b) rhs && forallb (fun b => Qle_bool 0 b) coef && (length rows =? length rhs)%nat) eqn:E; [|discriminate].
    inversion H; subst. apply andb_true_iff in E. destruct E as [E _]. apply andb_true_iff in E. destruct E as [_ E1].
    rewrite dot_repeat0_r. rewrite forallb_forall in E1. clear H.
    revert c' Hc'. induction coef as [|x coef IH]; intros [|y c'] Hc'; cbn [dot]; try lra.
    inversion Hc'; subst. assert (0 <= x) by (apply Qle_bool_iff, E1; left; reflexivity).
    assert (0 <= dot coef c') by (apply IH; [intros z Hz; apply E1; right; exact Hz| assumption]). nra.
Qed.

(* the Pruner model with a complete oracle that never reports a witness when rows already cover v *)
Example ex_pruner_run :
  prunerV (fun rows v => if forallb (fun b => Qle_bool (dot v b) (best rows b)) [[1;0];[0;1];[1#2;1#2]] then None else Some [1#2;1#2])
          2 [[1;0];[0;1];[3#4;3#4];[1#4;1#4]]
  = Some ([[1;0];[0;1];[3#4;3#4]], [], [[1#4;1#4]]).
Proof. vm_compute. reflexivity. Qed.

(* a witness oracle that is sound by construction (it tests its answer) *)
Example ex_fw_sound :
  let fw := fun (rows : list vec) (v : vec) =>
              if forallb (fun r => negb (Qle_bool (dot v [1#2;1#2]) (dot r [1#2;1#2]))) rows then Some [1#2;1#2] else None in
  (forall rows v b, fw rows v = Some b -> simplex 2 b /\ forall r, In r rows -> dot r b < dot v b) /\
  fw [[1;0];[0;1]] [3#4;3#4] = Some [1#2;1#2].
Proof.
  cbv zeta. split; [|vm_compute; reflexivity].
  intros rows v b H. destruct (forallb _ rows) eqn:E; [|discriminate]. inversion H; subst.
  split.
  - split; [reflexivity|]. split; [repeat constructor; discriminate| reflexivity].
  - intros r Hr. rewrite forallb_forall in E. specialize (E r Hr). apply negb_true_iff in E.
    destruct (Qlt_le_dec (dot r [1 # 2; 1 # 2]) (dot v [1 # 2; 1 # 2])) as [Hl|Hg]; [exact Hl|].
    apply Qle_bool_iff in Hg. congruence.
Qed.

(* ================================================================ Round 6 *)
From AIT Require Import C12.ModelUseful C12.ProofsUseful.

(* ---------------------------------------------------------------- extractBestUsefulPoints *)
(* [sup W p] = (index, value) of the hyperplane findBestAtPoint selects at p (code's tie-break);
   by findBestAtPoint_max the value is the upper envelope of W at p.
   If the model returns (kept, rest) (= no unchecked access, no fuel exhaustion):
   (1) kept ++ rest is a permutation of the input points;
   (2) an empty hyperplane range keeps nothing and leaves the array untouched;
   (3) every input point p is covered: some kept point q supports the SAME hyperplane with at least
       p's value — so per hyperplane the best supporting point survives.
   (The stronger "max over kept of w.p = max over all of w.p for every w" is false for the code, see
   ex_useful_not_envelope.) *)
Theorem useful_points_cover : forall (A : Type) (proj : A -> vec) (W : list A) (pts kept rest : list vec),
  extractBestUsefulPoints A proj W pts = Some (kept, rest) ->
  Permutation (kept ++ rest) pts
  /\ (W = [] -> kept = [] /\ rest = pts)
  /\ (W <> [] -> forall p, In p pts ->
        exists q j vp vq, In q kept /\ sup A proj W p = Some (j, vp) /\ sup A proj W q = Some (j, vq) /\ vp <= vq).
Proof. exact useful_points_gen. Qed.
Print Assumptions useful_points_cover.

(* at most one kept point per hyperplane: two kept slots supporting the same hyperplane are the same slot *)
Theorem useful_one_per_plane : forall (A : Type) (proj : A -> vec) (W : list A) (pts kept rest : list vec),
  extractBestUsefulPoints A proj W pts = Some (kept, rest) ->
  forall i i' q q' j v v', nth_error kept i = Some q -> nth_error kept i' = Some q' ->
    sup A proj W q = Some (j, v) -> sup A proj W q' = Some (j, v') -> i = i'.
Proof. exact useful_distinct_gen. Qed.
Print Assumptions useful_one_per_plane.

(* the support index is in range and the support value is the upper envelope at the point *)
Theorem useful_sup_is_envelope : forall (A : Type) (proj : A -> vec) (W : list A) p j v,
  sup A proj W p = Some (j, v) -> (j < length W)%nat /\ v == env (map proj W) p.
Proof. exact sup_env. Qed.
Print Assumptions useful_sup_is_envelope.

(* the driver's checker for clause (3) is sound *)
Theorem useful_coverb_ok : forall W kept pts, useful_coverb W kept pts = true ->
  forall p, In p pts ->
    exists q j vp vq, In q kept /\ supV W p = Some (j, vp) /\ supV W q = Some (j, vq) /\ vp <= vq.
Proof. exact useful_coverb_sound. Qed.
Print Assumptions useful_coverb_ok.

Example ex_useful_run :
  extractBestUsefulPointsV [[1;0];[0;1];[-1;-1]] [[1#2;1#2];[3#4;1#4];[1;0];[1#4;3#4];[0;1]]
  = Some ([[1;0];[0;1]], [[1#4;3#4];[3#4;1#4];[1#2;1#2]]).
Proof. vm_compute. reflexivity. Qed.
Example ex_useful_empty_planes : extractBestUsefulPointsV [] [[1#2;1#2];[1;0]] = Some ([], [[1#2;1#2];[1;0]]).
Proof. vm_compute. reflexivity. Qed.
(* both points support plane (0,2); the kept one is its best point (0,1); plane (1,0) then has value 0
   on the kept set although it reaches 1/2 on the input *)
Example ex_useful_not_envelope :
  extractBestUsefulPointsV [[1;0];[0;2]] [[1#2;1#2];[0;1]] = Some ([[0;1]], [[1#2;1#2]])
  /\ env [[0;1]] [1;0] < env [[1#2;1#2];[0;1]] [1;0].
Proof. vm_compute. split; reflexivity. Qed.

(* ---------------------------------------------------------------- findBestDeltaDominated *)
(* [ddomb point delta base x]: x is strictly higher than base at the point and
   (val x - val base) / |x - base| > delta (square root eliminated).  The function returns
   None (= end) only if no entry delta-dominates [plane]; otherwise an entry that is strictly higher
   than [plane] at the point, that delta-dominates [plane] or an EARLIER entry, and that no LATER entry
   delta-dominates (the chain of successive
   delta-dominators found in one left-to-right pass ends there). *)
Theorem findBestDeltaDominated_chain_end : forall (A : Type) (proj : A -> vec) (point : vec) (delta : Q)
    (plane : vec) (l : list A),
  match findBestDeltaDominated A proj point delta plane l with
  | None => forall x, In x l -> ddomb point delta plane (proj x) = false
  | Some i => exists a, nth_error l i = Some a /\ dot point plane < dot point (proj a)
                /\ (forall x, In x (skipn (S i) l) -> ddomb point delta (proj a) (proj x) = false)
                /\ exists base, (base = plane \/ exists k b, (k < i)%nat /\ nth_error l k = Some b /\ base = proj b)
                                /\ ddomb point delta base (proj a) = true
  end.
Proof. exact findBestDeltaDominated_gen. Qed.
Print Assumptions findBestDeltaDominated_chain_end.

Example ex_delta_dominated :
  findBestDeltaDominatedV [1#2;1#2] (1#2) [0;0] [[1;0];[0;1];[2;2];[2;3]] = Some 2%nat
  /\ findBestDeltaDominatedV [1#2;1#2] 4 [0;0] [[1;0];[0;1]] = None.
Proof. vm_compute. split; reflexivity. Qed.
