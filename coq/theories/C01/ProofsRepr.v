(* C01/ProofsRepr.v — policy evaluation; representation independence (two Q computations that
   agree entrywise drive the planners to equal results, tolerance or not); concrete instances. *)
From Coq Require Import List Arith QArith Qminmax Lqa Lia Bool.
From AIT Require Import Base.Qx Base.Mdp C01.Model C01.Spec C01.Proofs C01.ProofsVI.
Import ListNotations.
Local Open Scope Q_scope.

(* ------------------------------------------------------------------ T_pi *)
Lemma T_pi_length : forall m pol v, length (T_pi m pol v) = nS m.
Proof. intros. unfold T_pi. rewrite map_length, seq_length. reflexivity. Qed.

Lemma T_pi_veq : forall m pol v w, veq v w -> veq (T_pi m pol v) (T_pi m pol w).
Proof.
  intros m pol v w E. unfold T_pi, veq. apply Forall2_map_in. intros s _.
  apply dot_veq_r. apply Forall2_map_in. intros a _. apply q_of_veq; exact E.
Qed.

Definition wf_policy (m : mdp) (pol : mat) : Prop := forall s, (s < nS m)%nat -> is_dist (row pol s).

Theorem T_pi_contraction_lemma : forall m pol v w d, wf_mdp m -> wf_policy m pol -> 0 <= d ->
  close d v w -> close (gam m * d) (T_pi m pol v) (T_pi m pol w).
Proof.
  intros m pol v w d Hwf Hpol Hd Hc. unfold T_pi, close. apply Forall2_map_in. intros s Hs. apply in_seq in Hs.
  destruct (Hpol s ltac:(lia)) as [Hn Hq].
  pose proof Hwf as (_ & _ & Hg0 & _).
  assert (Hgd : 0 <= gam m * d) by nra.
  assert (Hcl : close (gam m * d) (map (q_of m v s) (seq 0 (nA m))) (map (q_of m w s) (seq 0 (nA m)))).
  { apply Forall2_map_in. intros a Ha. apply in_seq in Ha. apply q_of_close; try assumption; lia. }
  destruct (dot_close (row pol s) _ _ (gam m * d) Hgd Hn Hcl) as [L U]. rewrite Hq in L, U. split; lra.
Qed.

(* ------------------------------------------------------------------ policy evaluation, abstract cq *)
Definition ps_var (st : pstate) : Q := fst (fst st).
Definition ps_v (st : pstate) : vec := snd (fst st).
Definition ps_q (st : pstate) : mat := snd st.

Definition pe_values (S : nat) (q : mat) (pol : mat) : vec := map (fun s => dot (row q s) (row pol s)) (seq 0 S).

Lemma pe_step_eq : forall S cq gamma useT pol var v q,
  pe_step S cq gamma useT pol (var, v, q) =
  ((if useT then variation (pe_values S (cq (vscale gamma v)) pol) v else var),
   pe_values S (cq (vscale gamma v)) pol, cq (vscale gamma v)).
Proof. intros. reflexivity. Qed.

Section AbstractCqPE.
  Variable m : mdp.
  Variable cq : vec -> mat.
  Hypothesis Hcq : cq_ok m cq.
  Variable pol : mat.

  Lemma pe_step_values : forall v, veq (pe_values (nS m) (cq (vscale (gam m) v)) pol) (T_pi m pol v).
  Proof.
    intros v. unfold pe_values, T_pi, veq. apply Forall2_map_in. intros s Hs. apply in_seq in Hs.
    rewrite dot_comm. apply dot_veq_r. apply (mat_is_row_veq _ (nS m) (nA m)); [apply Hcq| lia].
  Qed.

  Lemma pe_values_length : forall q, length (pe_values (nS m) q pol) = nS m.
  Proof. intros; unfold pe_values; rewrite map_length, seq_length; reflexivity. Qed.

  Lemma pe_loop_noT_snoc : forall tol n st,
    pe_loop (nS m) cq (gam m) tol false pol (S n) st = pe_step (nS m) cq (gam m) false pol (pe_loop (nS m) cq (gam m) tol false pol n st).
  Proof.
    intros tol. induction n as [|n IH]; intros st.
    - cbn [pe_loop]. destruct st as [[var v] q]. reflexivity.
    - change (pe_loop (nS m) cq (gam m) tol false pol (S (S n)) st)
        with (if pe_continue tol false st then pe_loop (nS m) cq (gam m) tol false pol (S n) (pe_step (nS m) cq (gam m) false pol st) else st).
      assert (Hc : pe_continue tol false st = true) by (destruct st as [[var v] q]; reflexivity).
      rewrite Hc. rewrite IH. cbn [pe_loop]. rewrite Hc. reflexivity.
  Qed.

  Lemma pe_loop_exact_inv : forall tol n st0,
    let st := pe_loop (nS m) cq (gam m) tol false pol n st0 in
    ps_var st = ps_var st0 /\ veq (ps_v st) (iterTpi m pol n (ps_v st0)) /\
    ((0 < n)%nat -> exists vprev, veq vprev (iterTpi m pol (n - 1) (ps_v st0)) /\ ps_q st = cq (vscale (gam m) vprev)).
  Proof.
    intros tol. induction n as [|n IH]; intros st0.
    - cbn [pe_loop iterTpi]. split; [reflexivity|]. split; [apply veq_refl| intros H; lia].
    - cbv zeta. rewrite pe_loop_noT_snoc. specialize (IH st0). cbv zeta in IH.
      destruct (pe_loop (nS m) cq (gam m) tol false pol n st0) as [[var v] q].
      rewrite pe_step_eq. unfold ps_var, ps_v, ps_q in *. cbn [fst snd] in *.
      destruct IH as (Ev & Hv & _). split; [exact Ev|]. split.
      + cbn [iterTpi]. eapply veq_trans; [apply pe_step_values|]. apply T_pi_veq; exact Hv.
      + intros _. exists v. split; [replace (S n - 1)%nat with n by lia; exact Hv| reflexivity].
  Qed.

  Definition prun := pe_run_with (nS m) (nA m) cq (gam m) pol.

  Theorem prun_exact : forall h v0, length v0 = nS m ->
    let st := prun h 0 v0 in
    ps_var st == 0 /\ veq (ps_v st) (iterTpi m pol h v0) /\
    ((0 < h)%nat -> forall s a, (s < nS m)%nat -> (a < nA m)%nat ->
        nthq (row (ps_q st) s) a == q_of m (iterTpi m pol (h - 1) v0) s a).
  Proof.
    intros h v0 Hl. cbv zeta. unfold prun, pe_run_with. rewrite use_tolerance_zero.
    rewrite (proj2 (Nat.eqb_eq _ _) Hl).
    match goal with |- context [pe_loop ?a ?b ?c ?d ?e ?f ?g ?i] =>
      pose proof (pe_loop_exact_inv d g i) as H; cbv zeta in H;
      destruct (pe_loop a b c d e f g i) as [[var v] q] end.
    unfold ps_var, ps_v, ps_q in *. cbn [fst snd] in *.
    destruct H as (_ & Hv & Hq). split; [reflexivity|]. split; [exact Hv|].
    intros Hh s a Hs Ha. destruct (Hq Hh) as (vprev & Hprev & ->).
    destruct (Hcq vprev) as [_ Hrows]. destruct (Hrows s Hs) as [_ Hent].
    rewrite (Hent a Ha). apply q_of_veq; exact Hprev.
  Qed.

  (* with tolerance: the loop did nothing or ends with a step; a step's residual is gamma * variation *)
  Lemma pe_loop_cases : forall tol useT n st, length (ps_v st) = nS m ->
    pe_loop (nS m) cq (gam m) tol useT pol n st = st \/
    exists st0, length (ps_v st0) = nS m /\ pe_loop (nS m) cq (gam m) tol useT pol n st = pe_step (nS m) cq (gam m) useT pol st0.
  Proof.
    intros tol useT. induction n as [|n IH]; intros st Hl; [left; reflexivity|].
    cbn [pe_loop]. destruct (pe_continue tol useT st); [| left; reflexivity].
    assert (Hl' : length (ps_v (pe_step (nS m) cq (gam m) useT pol st)) = nS m).
    { destruct st as [[var v] q]. rewrite pe_step_eq. unfold ps_v. cbn [fst snd]. apply pe_values_length. }
    destruct (IH _ Hl') as [E|[st0 [Hl0 E]]].
    - right. exists st. split; [exact Hl| exact E].
    - right. exists st0. split; [exact Hl0| exact E].
  Qed.

  Theorem prun_residual : forall h tol v0, wf_mdp m -> wf_policy m pol -> epsS < tol -> (0 < h)%nat ->
    let st := prun h tol v0 in
    0 <= ps_var st /\ close (gam m * ps_var st) (ps_v st) (T_pi m pol (ps_v st)).
  Proof.
    intros h tol v0 Hwf Hpol Htol Hh. cbv zeta. unfold prun, pe_run_with. rewrite (use_tolerance_big tol Htol).
    set (v1 := if Nat.eqb (length v0) (nS m) then v0 else vzero (nS m)).
    set (st_init := (tol * 2, v1, mtab (nS m) (nA m) (fun _ _ : nat => 0))).
    assert (Hl1 : length (ps_v st_init) = nS m) by (unfold st_init, ps_v; cbn [fst snd]; apply start_length).
    destruct h as [|h]; [lia|].
    assert (Hc : pe_continue tol true st_init = true).
    { unfold st_init, pe_continue. cbn [negb orb]. destruct (Qle_bool (tol * 2) tol) eqn:E; [| reflexivity].
      apply Qle_bool_iff in E. unfold epsS in Htol. exfalso.
      assert (0 < tol) by (eapply Qlt_trans; [| exact Htol]; reflexivity). lra. }
    assert (Hstep : exists st0, length (ps_v st0) = nS m /\
              pe_loop (nS m) cq (gam m) tol true pol (S h) st_init = pe_step (nS m) cq (gam m) true pol st0).
    { cbn [pe_loop]. rewrite Hc.
      assert (Hl' : length (ps_v (pe_step (nS m) cq (gam m) true pol st_init)) = nS m).
      { unfold st_init. rewrite pe_step_eq. unfold ps_v. cbn [fst snd]. apply pe_values_length. }
      destruct (pe_loop_cases tol true h _ Hl') as [E|[st0 [Hl0 E]]].
      - exists st_init. split; [exact Hl1| exact E].
      - exists st0. split; [exact Hl0| exact E]. }
    destruct Hstep as [[[var0 w0] q0] [Hl0 E]]. rewrite E. rewrite pe_step_eq.
    unfold ps_var, ps_v in *. cbn [fst snd] in *.
    set (w1 := pe_values (nS m) (cq (vscale (gam m) w0)) pol).
    assert (Hlw : length w1 = nS m) by apply pe_values_length.
    assert (Hvar : 0 <= variation w1 w0) by apply dist_nonneg.
    assert (Hcl : close (variation w1 w0) w1 w0) by (apply dist_close; congruence).
    assert (Hw1 : veq w1 (T_pi m pol w0)) by apply pe_step_values.
    split; [exact Hvar|]. apply close_sym.
    apply (close_veq_r _ _ (T_pi m pol w0)); [| apply veq_sym; exact Hw1].
    apply T_pi_contraction_lemma; assumption.
  Qed.
End AbstractCqPE.

(* ------------------------------------------------------------------ simulation *)
Definition st_equiv (s1 s2 : vstate) : Prop :=
  st_var s1 == st_var s2 /\ veq (st_v s1) (st_v s2) /\ st_acts s1 = st_acts s2 /\ meq (st_q s1) (st_q s2).
Definition pst_equiv (s1 s2 : pstate) : Prop :=
  ps_var s1 == ps_var s2 /\ veq (ps_v s1) (ps_v s2) /\ meq (ps_q s1) (ps_q s2).

Lemma meq_refl : forall q, meq q q.
Proof. induction q; constructor; [apply veq_refl| assumption]. Qed.

Lemma meq_row : forall q1 q2 s, meq q1 q2 -> veq (row q1 s) (row q2 s).
Proof.
  intros q1 q2 s H. unfold row. destruct (Nat.lt_ge_cases s (length q1)) as [Hs|Hs].
  - apply (Forall2_nth _ _ veq [] [] q1 q2 s H Hs).
  - rewrite (nth_overflow q1) by exact Hs. rewrite (nth_overflow q2) by (rewrite <- (Forall2_length _ _ _ _ _ H); exact Hs).
    constructor.
Qed.

Lemma variation_veq : forall a a' b b', veq a a' -> veq b b' -> variation a b == variation a' b'.
Proof.
  intros a a' b b' Ha Hb. unfold variation. apply maxl_veq.
  revert b b' Hb. induction Ha as [|x x' a a' Ex Ha IH]; intros b b' Hb; cbn [combine map]; [constructor|].
  destruct Hb as [|y y' b b' Ey Hb]; cbn [combine map]; [constructor|].
  constructor; [| apply IH; exact Hb]. cbn [fst snd]. unfold qabs.
  destruct (Q.max_spec (x - y) (- (x - y))) as [[? ->]|[? ->]]; destruct (Q.max_spec (x' - y') (- (x' - y'))) as [[? ->]|[? ->]]; lra.
Qed.

Lemma Qle_bool_compat_l : forall x x' y, x == x' -> Qle_bool x y = Qle_bool x' y.
Proof.
  intros x x' y E. destruct (Qle_bool x y) eqn:E1; destruct (Qle_bool x' y) eqn:E2; try reflexivity.
  - apply Qle_bool_iff in E1. assert (H : x' <= y) by lra. apply Qle_bool_iff in H. congruence.
  - apply Qle_bool_iff in E2. assert (H : x <= y) by lra. apply Qle_bool_iff in H. congruence.
Qed.

Section Simulation.
  Variables cq1 cq2 : vec -> mat.
  Variable gamma : Q.
  Hypothesis Hsim : forall v w, veq v w -> meq (cq1 (vscale gamma v)) (cq2 (vscale gamma w)).

  Lemma vi_step_equiv : forall useT s1 s2, st_equiv s1 s2 ->
    st_equiv (vi_step cq1 gamma useT s1) (vi_step cq2 gamma useT s2).
  Proof.
    intros useT [[[var1 v1] a1] q1] [[[var2 v2] a2] q2] (Evar & Ev & Ea & Eq). rewrite !vi_step_eq.
    unfold st_equiv, st_var, st_v, st_acts, st_q in *. cbn [fst snd] in *.
    pose proof (Hsim v1 v2 Ev) as Hq. destruct (bellman_meq _ _ Hq) as [Hbv Hba].
    split; [| split; [exact Hbv| split; [exact Hba| exact Hq]]].
    destruct useT; [apply variation_veq; assumption| exact Evar].
  Qed.

  Lemma vi_continue_equiv : forall tol useT s1 s2, st_equiv s1 s2 -> vi_continue tol useT s1 = vi_continue tol useT s2.
  Proof.
    intros tol useT [[[var1 v1] a1] q1] [[[var2 v2] a2] q2] (Evar & _). unfold vi_continue, st_var in *. cbn [fst snd] in *.
    rewrite (Qle_bool_compat_l var1 var2 tol Evar). reflexivity.
  Qed.

  Lemma vi_loop_equiv : forall tol useT n s1 s2, st_equiv s1 s2 ->
    st_equiv (vi_loop cq1 gamma tol useT n s1) (vi_loop cq2 gamma tol useT n s2).
  Proof.
    intros tol useT. induction n as [|n IH]; intros s1 s2 E; cbn [vi_loop]; [exact E|].
    rewrite (vi_continue_equiv tol useT s1 s2 E). destruct (vi_continue tol useT s2); [| exact E].
    apply IH. apply vi_step_equiv; exact E.
  Qed.

  Theorem vi_run_with_equiv : forall S A h tol v0,
    st_equiv (vi_run_with S A cq1 gamma h tol v0) (vi_run_with S A cq2 gamma h tol v0).
  Proof.
    intros S A h tol v0. unfold vi_run_with.
    set (st_init := (tol * 2, (if Nat.eqb (length v0) S then v0 else vzero S), repeat O S, mtab S A (fun _ _ : nat => 0))).
    assert (E0 : st_equiv st_init st_init).
    { unfold st_equiv. split; [reflexivity|]. split; [apply veq_refl|]. split; [reflexivity| apply meq_refl]. }
    pose proof (vi_loop_equiv tol (use_tolerance tol) h st_init st_init E0) as H.
    destruct (vi_loop cq1 gamma tol (use_tolerance tol) h st_init) as [[[var1 v1] a1] q1].
    destruct (vi_loop cq2 gamma tol (use_tolerance tol) h st_init) as [[[var2 v2] a2] q2].
    unfold st_equiv, st_var, st_v, st_acts, st_q in *. cbn [fst snd] in *.
    destruct H as (Evar & Ev & Ea & Eq). repeat split; try assumption.
    destruct (use_tolerance tol); [exact Evar| reflexivity].
  Qed.

  Lemma pe_step_equiv : forall S useT pol s1 s2, pst_equiv s1 s2 ->
    pst_equiv (pe_step S cq1 gamma useT pol s1) (pe_step S cq2 gamma useT pol s2).
  Proof.
    intros S useT pol [[var1 v1] q1] [[var2 v2] q2] (Evar & Ev & Eq). rewrite !pe_step_eq.
    unfold pst_equiv, ps_var, ps_v, ps_q in *. cbn [fst snd] in *.
    pose proof (Hsim v1 v2 Ev) as Hq.
    assert (Hv : veq (pe_values S (cq1 (vscale gamma v1)) pol) (pe_values S (cq2 (vscale gamma v2)) pol)).
    { unfold pe_values. apply Forall2_map_in. intros s _. apply dot_veq_l. apply meq_row; exact Hq. }
    split; [| split; [exact Hv| exact Hq]].
    destruct useT; [apply variation_veq; assumption| exact Evar].
  Qed.

  Lemma pe_loop_equiv : forall S tol useT pol n s1 s2, pst_equiv s1 s2 ->
    pst_equiv (pe_loop S cq1 gamma tol useT pol n s1) (pe_loop S cq2 gamma tol useT pol n s2).
  Proof.
    intros S tol useT pol. induction n as [|n IH]; intros s1 s2 E; cbn [pe_loop]; [exact E|].
    assert (Hc : pe_continue tol useT s1 = pe_continue tol useT s2).
    { destruct s1 as [[var1 v1] q1], s2 as [[var2 v2] q2]. destruct E as (Evar & _).
      unfold pe_continue, ps_var in *. cbn [fst snd] in *. rewrite (Qle_bool_compat_l var1 var2 tol Evar). reflexivity. }
    rewrite Hc. destruct (pe_continue tol useT s2); [| exact E].
    apply IH. apply pe_step_equiv; exact E.
  Qed.

  Theorem pe_run_with_equiv : forall S A pol h tol v0,
    pst_equiv (pe_run_with S A cq1 gamma pol h tol v0) (pe_run_with S A cq2 gamma pol h tol v0).
  Proof.
    intros S A pol h tol v0. unfold pe_run_with.
    set (st_init := (tol * 2, (if Nat.eqb (length v0) S then v0 else vzero S), mtab S A (fun _ _ : nat => 0))).
    assert (E0 : pst_equiv st_init st_init).
    { unfold pst_equiv. split; [reflexivity|]. split; [apply veq_refl| apply meq_refl]. }
    pose proof (pe_loop_equiv S tol (use_tolerance tol) pol h st_init st_init E0) as H.
    destruct (pe_loop S cq1 gamma tol (use_tolerance tol) pol h st_init) as [[var1 v1] q1].
    destruct (pe_loop S cq2 gamma tol (use_tolerance tol) pol h st_init) as [[var2 v2] q2].
    unfold pst_equiv, ps_var, ps_v, ps_q in *. cbn [fst snd] in *.
    destruct H as (Evar & Ev & Eq). repeat split; try assumption.
    destruct (use_tolerance tol); [exact Evar| reflexivity].
  Qed.
End Simulation.

(* two valid Q computations for the same MDP are in simulation *)
Lemma cq_ok_sim : forall m cq1 cq2, cq_ok m cq1 -> cq_ok m cq2 ->
  forall v w, veq v w -> meq (cq1 (vscale (gam m) v)) (cq2 (vscale (gam m) w)).
Proof.
  intros m cq1 cq2 H1 H2 v w E. apply (mat_is_meq _ _ (nS m) (nA m) (q_of m v) (q_of m w)); [apply H1| apply H2|].
  intros s a _ _. apply q_of_veq; exact E.
Qed.

(* ------------------------------------------------------------------ concrete statements *)
Lemma dp_iterT : forall m h, dp m h = iterT m h (vzero (nS m)).
Proof. intros m; induction h as [|h IH]; cbn [dp iterT]; [reflexivity| rewrite IH; reflexivity]. Qed.

Lemma dp_pi_iterTpi : forall m pol h, dp_pi m pol h = iterTpi m pol h (vzero (nS m)).
Proof. intros m pol; induction h as [|h IH]; cbn [dp_pi iterTpi]; [reflexivity| rewrite IH; reflexivity]. Qed.

(* value iteration on a table model, tolerance 0, any start of the right size *)
Theorem vi_exact_from_lemma : forall m h v0, (0 < nA m)%nat -> length v0 = nS m ->
  let '(var, v, acts, q) := vi_run m h 0 v0 in
  var == 0 /\ veq v (iterT m h v0) /\ length acts = nS m /\
  ((0 < h)%nat ->
     (forall s a, (s < nS m)%nat -> (a < nA m)%nat -> nthq (row q s) a == q_of m (iterT m (h - 1) v0) s a) /\
     (forall s, (s < nS m)%nat ->
        (nth s acts O < nA m)%nat /\ nthq (row q s) (nth s acts O) == nthq v s /\
        maxl (row q s) == nthq v s /\
        (forall a, (a < nth s acts O)%nat -> nthq (row q s) a < nthq v s))).
Proof.
  intros m h v0 HA Hl.
  pose proof (run_exact m _ (compute_q_ok m) HA h v0 Hl) as H. cbv zeta in H.
  unfold run in H. fold (vi_run m h 0 v0) in H.
  destruct (vi_run m h 0 v0) as [[[var v] acts] q]. exact H.
Qed.

Theorem vi_exact_lemma : forall m h, wf_mdp m ->
  let '(var, v, acts, q) := vi_run m h 0 (repeat 0 (nS m)) in
  var == 0 /\ veq v (dp m h) /\
  (forall s a, (s < nS m)%nat -> (a < nA m)%nat -> (0 < h)%nat ->
     nthq (row q s) a == q_of m (dp m (h - 1)) s a) /\
  (forall s, (s < nS m)%nat -> (0 < h)%nat ->
     (nth s acts O < nA m)%nat /\ nthq (row q s) (nth s acts O) == nthq v s /\
     maxl (row q s) == nthq v s /\
     (forall a, (a < nth s acts O)%nat -> nthq (row q s) a < nthq v s)).
Proof.
  intros m h Hwf. pose proof Hwf as (_ & HA & _).
  pose proof (vi_exact_from_lemma m h (repeat 0 (nS m)) HA (repeat_length 0 (nS m))) as H.
  destruct (vi_run m h 0 (repeat 0 (nS m))) as [[[var v] acts] q].
  rewrite !dp_iterT. unfold vzero. destruct H as (Hvar & Hv & _ & Hq).
  split; [exact Hvar|]. split; [exact Hv|]. split.
  - intros s a Hs Ha Hh. apply (proj1 (Hq Hh)); assumption.
  - intros s Hs Hh. apply (proj2 (Hq Hh)); assumption.
Qed.

(* the same for a user-defined (probability-query only) model: the MDP it denotes is dense_of_g g *)
Theorem vi_exact_g_lemma : forall g h v0, (0 < gA g)%nat -> length v0 = gS g ->
  let m := dense_of_g g in
  let '(var, v, acts, q) := vi_run_g g h 0 v0 in
  var == 0 /\ veq v (iterT m h v0) /\ length acts = nS m /\
  ((0 < h)%nat ->
     (forall s a, (s < nS m)%nat -> (a < nA m)%nat -> nthq (row q s) a == q_of m (iterT m (h - 1) v0) s a) /\
     (forall s, (s < nS m)%nat ->
        (nth s acts O < nA m)%nat /\ nthq (row q s) (nth s acts O) == nthq v s /\
        maxl (row q s) == nthq v s /\
        (forall a, (a < nth s acts O)%nat -> nthq (row q s) a < nthq v s))).
Proof.
  intros g h v0 HA Hl. cbv zeta.
  pose proof (run_exact (dense_of_g g) _ (compute_q_g_ok g) HA h v0 Hl) as H. cbv zeta in H.
  unfold run in H. change (vi_run_with (nS (dense_of_g g)) (nA (dense_of_g g)) (compute_q_g g (imm_rewards_g g)) (gam (dense_of_g g)) h 0 v0)
    with (vi_run_g g h 0 v0) in H.
  destruct (vi_run_g g h 0 v0) as [[[var v] acts] q]. exact H.
Qed.

Theorem vi_residual_lemma : forall m h tol v0, wf_mdp m -> epsS < tol ->
  let '(var, v, acts, q) := vi_run m h tol v0 in
  var <= tol ->
  residual_le m v (gam m * var) /\
  (forall s, (s < nS m)%nat -> maxl (row q s) == nthq v s /\ nthq (row q s) (nth s acts O) == nthq v s) /\
  (forall s a, (s < nS m)%nat -> (a < nA m)%nat ->
     - (gam m * var) <= nthq (row q s) a - q_of m v s a /\ nthq (row q s) a - q_of m v s a <= gam m * var).
Proof.
  intros m h tol v0 Hwf Htol. pose proof Hwf as (_ & HA & _).
  destruct h as [|h].
  - (* no sweep: the reported variation is 2*tol > tol *)
    unfold vi_run, vi_run_with. rewrite (use_tolerance_big tol Htol). cbn [vi_loop].
    intros Hle. exfalso. unfold epsS in Htol.
    assert (0 < tol) by (eapply Qlt_trans; [| exact Htol]; reflexivity). lra.
  - pose proof (run_residual m _ (compute_q_ok m) HA (S h) tol v0 Hwf Htol (Nat.lt_0_succ h)) as H. cbv zeta in H.
    unfold run in H. fold (vi_run m (S h) tol v0) in H.
    destruct (vi_run m (S h) tol v0) as [[[var v] acts] q].
    unfold st_var, st_v, st_acts, st_q in H. cbn [fst snd] in H.
    destruct H as (_ & _ & Hres & Hrows). intros _. split; [exact Hres|]. split.
    + intros s Hs. destruct (Hrows s Hs) as (E1 & _ & E2 & _). split; assumption.
    + intros s a Hs Ha. destruct (Hrows s Hs) as (_ & _ & _ & _ & Hq). apply Hq; exact Ha.
Qed.

(* stronger form: whatever stopped the loop (tolerance or horizon), after at least one sweep *)
Theorem vi_residual_any_stop_lemma : forall m h tol v0, wf_mdp m -> epsS < tol -> (0 < h)%nat ->
  let '(var, v, acts, q) := vi_run m h tol v0 in
  0 <= var /\ residual_le m v (gam m * var).
Proof.
  intros m h tol v0 Hwf Htol Hh. pose proof Hwf as (_ & HA & _).
  pose proof (run_residual m _ (compute_q_ok m) HA h tol v0 Hwf Htol Hh) as H. cbv zeta in H.
  unfold run in H. fold (vi_run m h tol v0) in H.
  destruct (vi_run m h tol v0) as [[[var v] acts] q].
  unfold st_var, st_v in H. cbn [fst snd] in H. destruct H as (H0 & _ & Hres & _). split; assumption.
Qed.

Theorem pe_exact_lemma : forall m pol h,
  let '(var, v, q) := pe_run m pol h 0 (repeat 0 (nS m)) in
  var == 0 /\ veq v (dp_pi m pol h) /\
  (forall s a, (s < nS m)%nat -> (a < nA m)%nat -> (0 < h)%nat ->
     nthq (row q s) a == q_of m (dp_pi m pol (h - 1)) s a).
Proof.
  intros m pol h.
  pose proof (prun_exact m _ (compute_q_ok m) pol h (repeat 0 (nS m)) (repeat_length 0 (nS m))) as H. cbv zeta in H.
  unfold prun in H. fold (pe_run m pol h 0 (repeat 0 (nS m))) in H.
  destruct (pe_run m pol h 0 (repeat 0 (nS m))) as [[var v] q].
  unfold ps_var, ps_v, ps_q in H. cbn [fst snd] in H.
  rewrite !dp_pi_iterTpi. unfold vzero. destruct H as (Hvar & Hv & Hq).
  split; [exact Hvar|]. split; [exact Hv|]. intros s a Hs Ha Hh. apply Hq; assumption.
Qed.

Theorem pe_residual_lemma : forall m pol h tol v0, wf_mdp m -> wf_policy m pol -> epsS < tol -> (0 < h)%nat ->
  let '(var, v, q) := pe_run m pol h tol v0 in
  0 <= var /\ close (gam m * var) v (T_pi m pol v).
Proof.
  intros m pol h tol v0 Hwf Hpol Htol Hh.
  pose proof (prun_residual m _ (compute_q_ok m) pol h tol v0 Hwf Hpol Htol Hh) as H. cbv zeta in H.
  unfold prun in H. fold (pe_run m pol h tol v0) in H.
  destruct (pe_run m pol h tol v0) as [[var v] q]. exact H.
Qed.

(* representation independence: same results (up to ==; actions equal) for every horizon, tolerance, start *)
Theorem repr_independent_lemma : forall g h tol v0 pol,
  st_equiv (vi_run_g g h tol v0) (vi_run (dense_of_g g) h tol v0) /\
  pst_equiv (pe_run_g g pol h tol v0) (pe_run (dense_of_g g) pol h tol v0).
Proof.
  intros g h tol v0 pol. split.
  - apply (vi_run_with_equiv _ _ (ggam g)). apply (cq_ok_sim (dense_of_g g)); [apply compute_q_g_ok| apply compute_q_ok].
  - apply (pe_run_with_equiv _ _ (ggam g)). apply (cq_ok_sim (dense_of_g g)); [apply compute_q_g_ok| apply compute_q_ok].
Qed.

Theorem repr_independent_query_lemma : forall m h tol v0 pol, wf_mdp m ->
  st_equiv (vi_run_g (g_of_mdp m) h tol v0) (vi_run m h tol v0) /\
  pst_equiv (pe_run_g (g_of_mdp m) pol h tol v0) (pe_run m pol h tol v0).
Proof.
  intros m h tol v0 pol Hwf. split.
  - apply (vi_run_with_equiv _ _ (gam m)). apply (cq_ok_sim m); [apply compute_q_g_of_mdp_ok; exact Hwf| apply compute_q_ok].
  - apply (pe_run_with_equiv _ _ (gam m)). apply (cq_ok_sim m); [apply compute_q_g_of_mdp_ok; exact Hwf| apply compute_q_ok].
Qed.
