(* C01/ProofsExt.v — the planners' answers depend only on the MDP: two query models that agree
   entrywise (==) on sizes, discount, probabilities and rewards give equal results.  This is the
   composition lemma for learned models: C07 proves that the tables of MaximumLikelihoodModel are
   (==) the empirical frequencies / mean rewards; with this lemma value iteration on the learned model
   equals value iteration on the empirical MDP. *)
From Coq Require Import List Arith QArith Qminmax Lqa Lia Bool.
From AIT Require Import Base.Qx Base.Mdp C01.Model C01.Spec C01.Proofs C01.ProofsVI C01.ProofsRepr C01.ProofsSparse.
Import ListNotations.
Local Open Scope Q_scope.

Definition gmodel_eq (g1 g2 : gmodel) : Prop :=
  gS g1 = gS g2 /\ gA g1 = gA g2 /\ ggam g1 = ggam g2 /\
  forall s a s1, (s < gS g1)%nat -> (a < gA g1)%nat -> (s1 < gS g1)%nat ->
    gP g1 s a s1 == gP g2 s a s1 /\ gR g1 s a s1 == gR g2 s a s1.

Lemma mat_is_ext : forall q S A F G, mat_is q S A F ->
  (forall s a, (s < S)%nat -> (a < A)%nat -> F s a == G s a) -> mat_is q S A G.
Proof.
  intros q S A F G [Hl H] E. split; [exact Hl|]. intros s Hs. destruct (H s Hs) as [Hr He].
  split; [exact Hr|]. intros a Ha. rewrite (He a Ha). apply E; assumption.
Qed.

Lemma compute_q_g_ok_ext : forall g1 g2, gmodel_eq g1 g2 ->
  cq_ok (dense_of_g g1) (compute_q_g g2 (imm_rewards_g g2)).
Proof.
  intros g1 g2 (ES & EA & EG & HE) v.
  pose proof (compute_q_g_ok g2 v) as H.
  change (nS (dense_of_g g2)) with (gS g2) in H. change (nA (dense_of_g g2)) with (gA g2) in H.
  change (gam (dense_of_g g2)) with (ggam g2) in H.
  change (nS (dense_of_g g1)) with (gS g1). change (nA (dense_of_g g1)) with (gA g1).
  change (gam (dense_of_g g1)) with (ggam g1). rewrite ES, EA, EG.
  apply (mat_is_ext _ _ _ _ _ H). intros s a Hs Ha.
  rewrite <- ES in Hs. rewrite <- EA in Ha.
  rewrite (q_of_dense_sum g1 v s a Hs Ha).
  rewrite (q_of_dense_sum g2 v s a ltac:(rewrite <- ES; exact Hs) ltac:(rewrite <- EA; exact Ha)).
  rewrite <- ES, <- EG.
  assert (E1 : qsum (map (fun i => gR g2 s a i * gP g2 s a i) (seq 0 (gS g1))) ==
               qsum (map (fun i => gR g1 s a i * gP g1 s a i) (seq 0 (gS g1)))).
  { apply qsum_map_ext. intros i Hi. apply in_seq in Hi. destruct (HE s a i Hs Ha ltac:(lia)) as [-> ->]. reflexivity. }
  assert (E2 : qsum (map (fun i => gP g2 s a i * nthq v i) (seq 0 (gS g1))) ==
               qsum (map (fun i => gP g1 s a i * nthq v i) (seq 0 (gS g1)))).
  { apply qsum_map_ext. intros i Hi. apply in_seq in Hi. destruct (HE s a i Hs Ha ltac:(lia)) as [-> _]. reflexivity. }
  rewrite E1, E2. reflexivity.
Qed.

Theorem model_ext_independent_lemma : forall g1 g2 h tol v0 pol, gmodel_eq g1 g2 ->
  st_equiv (vi_run_g g1 h tol v0) (vi_run_g g2 h tol v0) /\
  pst_equiv (pe_run_g g1 pol h tol v0) (pe_run_g g2 pol h tol v0) /\
  st_equiv (vi_run (dense_of_g g1) h tol v0) (vi_run (dense_of_g g2) h tol v0).
Proof.
  intros g1 g2 h tol v0 pol E. pose proof E as (ES & EA & EG & _).
  assert (Hsim : forall v w, veq v w ->
            meq (compute_q_g g1 (imm_rewards_g g1) (vscale (ggam g1) v)) (compute_q_g g2 (imm_rewards_g g2) (vscale (ggam g1) w))).
  { apply (cq_ok_sim (dense_of_g g1)); [apply compute_q_g_ok| apply compute_q_g_ok_ext; exact E]. }
  assert (Hsim2 : forall v w, veq v w ->
            meq (compute_q (dense_of_g g1) (imm_rewards (dense_of_g g1)) (vscale (ggam g1) v))
                (compute_q (dense_of_g g2) (imm_rewards (dense_of_g g2)) (vscale (ggam g1) w))).
  { intros v w Evw.
    apply (mat_is_meq _ _ (gS g1) (gA g1) (q_of (dense_of_g g1) v) (q_of (dense_of_g g1) w)).
    - apply (compute_q_ok (dense_of_g g1) v).
    - pose proof (compute_q_ok (dense_of_g g2) w) as H.
      change (gam (dense_of_g g2)) with (ggam g2) in H. rewrite <- EG in H.
      change (nS (dense_of_g g2)) with (gS g2) in H. change (nA (dense_of_g g2)) with (gA g2) in H.
      rewrite <- ES, <- EA in H. apply (mat_is_ext _ _ _ _ _ H). intros s a Hs Ha.
      pose proof (compute_q_g_ok_ext g1 g2 E w) as H1. pose proof (compute_q_g_ok g2 w) as H2.
      change (gam (dense_of_g g1)) with (ggam g1) in H1. change (gam (dense_of_g g2)) with (ggam g2) in H2.
      rewrite <- EG in H2.
      change (nS (dense_of_g g1)) with (gS g1) in H1. change (nA (dense_of_g g1)) with (gA g1) in H1.
      change (nS (dense_of_g g2)) with (gS g2) in H2. change (nA (dense_of_g g2)) with (gA g2) in H2.
      rewrite <- ES, <- EA in H2.
      destruct H1 as [_ R1]. destruct H2 as [_ R2].
      destruct (R1 s Hs) as [_ X1]. destruct (R2 s Hs) as [_ X2]. rewrite <- (X2 a Ha). apply X1; exact Ha.
    - intros s a _ _. apply q_of_veq; exact Evw. }
  unfold vi_run_g, pe_run_g, vi_run. rewrite <- ES, <- EA, <- EG.
  change (nS (dense_of_g g1)) with (gS g1). change (nA (dense_of_g g1)) with (gA g1). change (gam (dense_of_g g1)) with (ggam g1).
  change (nS (dense_of_g g2)) with (gS g2). change (nA (dense_of_g g2)) with (gA g2). change (gam (dense_of_g g2)) with (ggam g2).
  rewrite <- ES, <- EA, <- EG.
  split; [apply (vi_run_with_equiv _ _ (ggam g1)); exact Hsim|].
  split; [apply (pe_run_with_equiv _ _ (ggam g1)); exact Hsim| apply (vi_run_with_equiv _ _ (ggam g1)); exact Hsim2].
Qed.
