(* C01/Proofs.v — the Bellman operator is a gamma-contraction; approximate fixed points are close;
   general list/Q helper lemmas used by the other proof files. *)
From Coq Require Import List Arith QArith Qminmax Lqa Lia Bool.
From AIT Require Import Base.Qx Base.Mdp C01.Model C01.Spec.
Import ListNotations.
Local Open Scope Q_scope.

(* ------------------------------------------------------------------ lists *)
Lemma seq_nonempty : forall n, (0 < n)%nat -> seq 0 n <> [].
Proof. intros [|n] H; [lia| discriminate]. Qed.

Lemma Forall2_map_in : forall (A B C : Type) (Rel : B -> C -> Prop) (f : A -> B) (g : A -> C) l,
  (forall x, In x l -> Rel (f x) (g x)) -> Forall2 Rel (map f l) (map g l).
Proof.
  induction l as [|x l IH]; intros H; cbn [map]; constructor.
  - apply H; left; reflexivity.
  - apply IH; intros y Hy; apply H; right; exact Hy.
Qed.

Lemma nth_map_seq : forall (A : Type) (f : nat -> A) n i d, (i < n)%nat -> nth i (map f (seq 0 n)) d = f i.
Proof.
  intros A f n i d Hi. rewrite (nth_indep _ d (f 0%nat)) by (rewrite map_length, seq_length; exact Hi).
  rewrite map_nth. rewrite seq_nth by exact Hi. reflexivity.
Qed.

Lemma nth_map_seq_out : forall (A : Type) (f : nat -> A) n i d, (n <= i)%nat -> nth i (map f (seq 0 n)) d = d.
Proof. intros. apply nth_overflow. rewrite map_length, seq_length. assumption. Qed.

(* ------------------------------------------------------------------ closeness / veq helpers *)
Lemma close_sym : forall d v w, close d v w -> close d w v.
Proof. intros d v w H; induction H as [|x y v w [L U] H IH]; constructor; [split; lra| exact IH]. Qed.

Lemma close_veq_r : forall d v w w', close d v w -> veq w w' -> close d v w'.
Proof.
  intros d v w w' H. revert w'. induction H as [|x y v w [L U] H IH]; intros w' E; inversion E as [|? z ? w2 Eyz E2]; subst; constructor.
  - rewrite <- Eyz. split; lra.
  - apply IH; exact E2.
Qed.

Lemma close_veq_l : forall d v v' w, close d v w -> veq v v' -> close d v' w.
Proof. intros d v v' w H E. apply close_sym. eapply close_veq_r; [apply close_sym; exact H| exact E]. Qed.

Lemma veq_sym : forall v w, veq v w -> veq w v.
Proof. intros v w H; induction H; constructor; [symmetry; assumption| assumption]. Qed.

Lemma veq_trans : forall u v w, veq u v -> veq v w -> veq u w.
Proof.
  intros u v w H. revert w. induction H as [|x y u v E H IH]; intros w H2; inversion H2; subst; constructor.
  - etransitivity; eassumption.
  - apply IH; assumption.
Qed.

Lemma veq_length : forall v w, veq v w -> length v = length w.
Proof. intros v w H; induction H; cbn; congruence. Qed.

Lemma veq_nth : forall v w i, veq v w -> nthq v i == nthq w i.
Proof.
  intros v w i H. revert i. induction H as [|x y v w E H IH]; intros i; unfold nthq; destruct i; cbn [nth]; try reflexivity.
  - exact E.
  - apply IH.
Qed.

Lemma close_trans : forall d1 d2 u v w, close d1 u v -> close d2 v w -> close (d1 + d2) u w.
Proof.
  intros d1 d2 u v w H. revert w. induction H as [|x y u v [L U] H IH]; intros w H2; inversion H2 as [|? z ? w2 [L2 U2] H3]; subst; constructor.
  - split; lra.
  - apply IH; exact H3.
Qed.

Lemma dot_veq_r : forall p v w, veq v w -> dot p v == dot p w.
Proof.
  intros p v w H. revert p. induction H as [|x y v w E H IH]; intros p.
  - reflexivity.
  - destruct p as [|a p]; cbn [dot]; [reflexivity|]. rewrite E, (IH p). reflexivity.
Qed.

Lemma dot_veq_l : forall p p' v, veq p p' -> dot p v == dot p' v.
Proof. intros. rewrite (dot_comm p v), (dot_comm p' v). apply dot_veq_r; assumption. Qed.

(* ------------------------------------------------------------------ T_op *)
Lemma T_op_length : forall m v, length (T_op m v) = nS m.
Proof. intros. unfold T_op. rewrite map_length, seq_length. reflexivity. Qed.

Lemma wf_row_dist : forall m s a, wf_mdp m -> (s < nS m)%nat -> (a < nA m)%nat ->
  nonneg (trow m s a) /\ qsum (trow m s a) == 1.
Proof.
  intros m s a (_ & _ & _ & _ & _ & _ & _ & Hd & _) Hs Ha.
  destruct (Hd a s Ha Hs) as [_ [Hn Hq]]. unfold trow. split; assumption.
Qed.

Lemma q_of_close : forall m v w d s a, wf_mdp m -> 0 <= d -> (s < nS m)%nat -> (a < nA m)%nat ->
  close d v w ->
  - (gam m * d) <= q_of m v s a - q_of m w s a /\ q_of m v s a - q_of m w s a <= gam m * d.
Proof.
  intros m v w d s a Hwf Hd Hs Ha Hc.
  destruct (wf_row_dist m s a Hwf Hs Ha) as [Hn Hq].
  destruct (dot_close (trow m s a) v w d Hd Hn Hc) as [L U].
  destruct Hwf as (_ & _ & Hg0 & Hg1 & _).
  unfold q_of. rewrite Hq in L, U. split; nra.
Qed.

Theorem T_contraction_lemma : forall m v w d, wf_mdp m -> 0 <= d ->
  close d v w -> close (gam m * d) (T_op m v) (T_op m w).
Proof.
  intros m v w d Hwf Hd Hc. unfold T_op, close.
  apply Forall2_map_in. intros s Hs. apply in_seq in Hs.
  apply maxl_map_close.
  - apply seq_nonempty. destruct Hwf as (_ & HA & _). exact HA.
  - intros a Ha. apply in_seq in Ha. apply q_of_close; try assumption; lia.
Qed.

Lemma T_op_veq : forall m v w, (0 < nA m)%nat -> veq v w -> veq (T_op m v) (T_op m w).
Proof.
  intros m v w HA E. unfold T_op, veq. apply Forall2_map_in. intros s _.
  apply maxl_map_ext; [apply seq_nonempty; exact HA|].
  intros a _. unfold q_of. rewrite (dot_veq_r _ v w E). reflexivity.
Qed.

(* ------------------------------------------------------------------ sup-norm distance *)
Lemma qabs_bounds : forall x d, qabs x <= d <-> (- d <= x /\ x <= d).
Proof.
  intros x d. unfold qabs. destruct (Q.max_spec x (- x)) as [[H E]|[H E]]; rewrite E; split; intros; try split; try lra.
Qed.

Lemma dist_close : forall v w, length v = length w -> close (dist v w) v w.
Proof.
  intros v w Hl. unfold dist.
  assert (G : forall l, (forall p, In p (combine v w) -> In p l) ->
             Forall2 (fun x y => - maxl (map (fun p => qabs (fst p - snd p)) l) <= x - y /\
                                  x - y <= maxl (map (fun p => qabs (fst p - snd p)) l)) v w).
  { intros l. revert w Hl. induction v as [|x v IH]; intros [|y w] Hl Hin; cbn in Hl; try discriminate; constructor.
    - apply qabs_bounds. apply maxl_ub. apply (in_map (fun p => qabs (fst p - snd p)) l (x, y)).
      apply Hin. left; reflexivity.
    - apply IH; [lia|]. intros p Hp. apply Hin. right; exact Hp. }
  apply G. intros p Hp; exact Hp.
Qed.

Lemma dist_le : forall v w d, v <> [] -> close d v w -> dist v w <= d.
Proof.
  intros v w d Hne Hc. unfold dist. apply maxl_le.
  - destruct Hc; [congruence| discriminate].
  - intros y Hy. apply in_map_iff in Hy. destruct Hy as [[a b] [<- Hp]]. cbn [fst snd].
    apply qabs_bounds. clear Hne. induction Hc as [|x z v w Hxz Hc IH]; [destruct Hp|].
    destruct Hp as [Hp|Hp]; [inversion Hp; subst; exact Hxz| apply IH; exact Hp].
Qed.

Lemma dist_nonneg : forall v w, 0 <= dist v w.
Proof.
  intros v w. unfold dist. destruct (combine v w) as [|p l] eqn:E; [cbn; lra|].
  eapply Qle_trans; [| apply maxl_ub; left; reflexivity].
  unfold qabs. destruct (Q.max_spec (fst p - snd p) (- (fst p - snd p))) as [[H ->]|[H ->]]; lra.
Qed.

(* two approximate fixed points of T are within (e1+e2)/(1-gamma) *)
Theorem approx_fixpoints_close_lemma : forall m v w e1 e2, wf_mdp m ->
  length v = nS m -> length w = nS m ->
  residual_le m v e1 -> residual_le m w e2 -> close ((e1 + e2) / (1 - gam m)) v w.
Proof.
  intros m v w e1 e2 Hwf Hv Hw R1 R2. unfold residual_le in *.
  pose proof Hwf as (HS & HA & Hg0 & Hg1 & _).
  assert (Hne : v <> []) by (destruct v; [cbn in Hv; lia| discriminate]).
  set (D := dist v w).
  assert (HD0 : 0 <= D) by apply dist_nonneg.
  assert (HcD : close D v w) by (apply dist_close; congruence).
  pose proof (T_contraction_lemma m v w D Hwf HD0 HcD) as HT.
  (* v ~e1~ Tv ~gD~ Tw ~e2~ w *)
  pose proof (close_trans _ _ _ _ _ (close_trans _ _ _ _ _ R1 HT) (close_sym _ _ _ R2)) as Hchain.
  pose proof (dist_le v w _ Hne Hchain) as Hle. fold D in Hle.
  assert (HDb : D <= (e1 + e2) / (1 - gam m)).
  { apply Qle_shift_div_l; [lra| nra]. }
  eapply close_weaken; [exact HDb| exact HcD].
Qed.
