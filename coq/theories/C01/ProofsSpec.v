(* C01/ProofsSpec.v — the boolean checkers of Spec.v are sound; the Qred twins equal the spec. *)
From Coq Require Import List Arith QArith Qminmax Lqa Lia Bool.
From AIT Require Import Base.Qx Base.Mdp C01.Model C01.Spec C01.Proofs.
Import ListNotations.
Local Open Scope Q_scope.

Lemma inb_sound : forall d x, inb d x = true -> - d <= x /\ x <= d.
Proof.
  intros d x H. unfold inb in H. apply andb_prop in H. destruct H as [H1 H2].
  apply Qle_bool_iff in H1. apply Qle_bool_iff in H2. split; assumption.
Qed.

Lemma closeb_sound : forall d v w, closeb d v w = true -> close d v w.
Proof.
  intros d v w H. unfold closeb in H. apply andb_prop in H. destruct H as [Hl Hf].
  apply Nat.eqb_eq in Hl. revert w Hl Hf.
  induction v as [|x v IH]; intros [|y w] Hl Hf; cbn in Hl; try discriminate; [constructor|].
  cbn [combine forallb fst snd] in Hf. apply andb_prop in Hf. destruct Hf as [Hx Hf].
  constructor; [apply inb_sound; exact Hx| apply IH; [lia| exact Hf]].
Qed.

Lemma residual_leb_sound : forall m v e, residual_leb m v e = true -> residual_le m v e.
Proof. intros m v e H. apply closeb_sound; exact H. Qed.

Theorem check_mdp_solution_sound_lemma : forall m v q acts e d,
  check_mdp_solution m v q acts e d = true -> solution_spec m v q acts e d.
Proof.
  intros m v q acts e d H. unfold check_mdp_solution in H.
  repeat (apply andb_prop in H; let H' := fresh "C" in destruct H as [H H']).
  apply Nat.eqb_eq in H. apply Nat.eqb_eq in C4. apply Nat.eqb_eq in C3.
  unfold solution_spec. repeat split; try assumption.
  - apply residual_leb_sound; exact C2.
  - rewrite forallb_forall in C1. specialize (C1 s (proj2 (in_seq _ _ _) (conj (Nat.le_0_l s) H0))).
    rewrite forallb_forall in C1. specialize (C1 a (proj2 (in_seq _ _ _) (conj (Nat.le_0_l a) H1))).
    apply (inb_sound _ _ C1).
  - rewrite forallb_forall in C1. specialize (C1 s (proj2 (in_seq _ _ _) (conj (Nat.le_0_l s) H0))).
    rewrite forallb_forall in C1. specialize (C1 a (proj2 (in_seq _ _ _) (conj (Nat.le_0_l a) H1))).
    apply (inb_sound _ _ C1).
  - rewrite forallb_forall in C0. specialize (C0 s (proj2 (in_seq _ _ _) (conj (Nat.le_0_l s) H0))).
    apply andb_prop in C0. destruct C0 as [C0 _]. apply Nat.eqb_eq in C0. exact C0.
  - rewrite forallb_forall in C0. specialize (C0 s (proj2 (in_seq _ _ _) (conj (Nat.le_0_l s) H0))).
    apply andb_prop in C0. destruct C0 as [_ C0]. apply (inb_sound _ _ C0).
  - rewrite forallb_forall in C0. specialize (C0 s (proj2 (in_seq _ _ _) (conj (Nat.le_0_l s) H0))).
    apply andb_prop in C0. destruct C0 as [_ C0]. apply (inb_sound _ _ C0).
  - rewrite forallb_forall in C. specialize (C s (proj2 (in_seq _ _ _) (conj (Nat.le_0_l s) H0))).
    apply andb_prop in C. destruct C as [C _]. apply andb_prop in C. destruct C as [C _].
    apply Nat.ltb_lt in C. exact C.
  - rewrite forallb_forall in C. specialize (C s (proj2 (in_seq _ _ _) (conj (Nat.le_0_l s) H0))).
    apply andb_prop in C. destruct C as [C _]. apply andb_prop in C. destruct C as [_ C].
    apply Qeq_bool_iff in C. exact C.
  - intros a Ha. rewrite forallb_forall in C. specialize (C s (proj2 (in_seq _ _ _) (conj (Nat.le_0_l s) H0))).
    apply andb_prop in C. destruct C as [_ C]. rewrite forallb_forall in C.
    specialize (C a (proj2 (in_seq _ _ _) (conj (Nat.le_0_l a) Ha))).
    apply negb_true_iff in C. apply Qnot_le_lt. intros Hle. apply Qle_bool_iff in Hle. congruence.
Qed.

(* ------------------------------------------------------------------ Qred twins *)
Lemma map_Qred_veq : forall v, veq (map Qred v) v.
Proof. induction v as [|x v IH]; cbn [map]; constructor; [apply Qred_correct| exact IH]. Qed.

Lemma T_op_veq_any : forall m v w, veq v w -> veq (T_op m v) (T_op m w).
Proof.
  intros m v w E. destruct (Nat.eq_0_gt_0_cases (nA m)) as [H0|HA]; [| apply T_op_veq; assumption].
  unfold T_op. rewrite H0. cbn [seq map]. apply veq_refl.
Qed.

Lemma T_pi_veq_any : forall m pol v w, veq v w -> veq (T_pi m pol v) (T_pi m pol w).
Proof.
  intros m pol v w E. unfold T_pi, veq. apply Forall2_map_in. intros s _.
  apply dot_veq_r. apply Forall2_map_in. intros a _. unfold q_of. rewrite (dot_veq_r _ v w E). reflexivity.
Qed.

Lemma iterT_red_veq : forall m n v, veq (iterT_red m n v) (iterT m n v).
Proof.
  intros m. induction n as [|n IH]; intros v; cbn [iterT_red iterT]; [apply veq_refl|].
  unfold T_red. eapply veq_trans; [apply map_Qred_veq|]. apply T_op_veq_any. apply IH.
Qed.

Lemma dp_red_veq : forall m h, veq (dp_red m h) (dp m h).
Proof.
  intros m. induction h as [|h IH]; cbn [dp_red dp]; [apply veq_refl|].
  unfold T_red. eapply veq_trans; [apply map_Qred_veq|]. apply T_op_veq_any. exact IH.
Qed.

Lemma iterTpi_red_veq : forall m pol n v, veq (iterTpi_red m pol n v) (iterTpi m pol n v).
Proof.
  intros m pol. induction n as [|n IH]; intros v; cbn [iterTpi_red iterTpi]; [apply veq_refl|].
  unfold Tpi_red. eapply veq_trans; [apply map_Qred_veq|]. apply T_pi_veq_any. apply IH.
Qed.

Lemma dp_pi_red_veq : forall m pol h, veq (dp_pi_red m pol h) (dp_pi m pol h).
Proof.
  intros m pol. induction h as [|h IH]; cbn [dp_pi_red dp_pi]; [apply veq_refl|].
  unfold Tpi_red. eapply veq_trans; [apply map_Qred_veq|]. apply T_pi_veq_any. exact IH.
Qed.

Theorem check_dp_sound_lemma : forall m h v d, check_dp m h v d = true -> close d v (dp m h).
Proof. intros m h v d H. eapply close_veq_r; [apply closeb_sound; exact H| apply dp_red_veq]. Qed.

Theorem check_iter_sound_lemma : forall m n v0 v d, check_iter m n v0 v d = true -> close d v (iterT m n v0).
Proof. intros m n v0 v d H. eapply close_veq_r; [apply closeb_sound; exact H| apply iterT_red_veq]. Qed.

Theorem check_dp_pi_sound_lemma : forall m pol h v d, check_dp_pi m pol h v d = true -> close d v (dp_pi m pol h).
Proof. intros m pol h v d H. eapply close_veq_r; [apply closeb_sound; exact H| apply dp_pi_red_veq]. Qed.

Theorem check_iter_pi_sound_lemma : forall m pol n v0 v d,
  check_iter_pi m pol n v0 v d = true -> close d v (iterTpi m pol n v0).
Proof. intros m pol n v0 v d H. eapply close_veq_r; [apply closeb_sound; exact H| apply iterTpi_red_veq]. Qed.

(* the cross-check the driver performs is implied by the residual checks (approx_fixpoints_close):
   a failing cross-check always comes with a failing residual check or an ill-formed MDP *)
Theorem cross_check_implied_lemma : forall m v w e1 e2, wf_mdp m ->
  length v = nS m -> length w = nS m ->
  residual_leb m v e1 = true -> residual_leb m w e2 = true -> close (cross_bound m e1 e2) v w.
Proof.
  intros m v w e1 e2 Hwf Hv Hw H1 H2. unfold cross_bound.
  apply approx_fixpoints_close_lemma; try assumption; apply residual_leb_sound; assumption.
Qed.

(* ------------------------------------------------------------------ wf_mdpb *)
Lemma is_distb_sound : forall p, is_distb p = true -> is_dist p.
Proof.
  intros p H. unfold is_distb in H. apply andb_prop in H. destruct H as [Hn Hs]. split.
  - unfold nonnegb in Hn. unfold nonneg. apply Forall_forall. intros x Hx.
    rewrite forallb_forall in Hn. apply Qle_bool_iff. apply Hn; exact Hx.
  - apply Qeq_bool_iff; exact Hs.
Qed.

Theorem wf_mdpb_sound : forall m, wf_mdpb m = true -> wf_mdp m.
Proof.
  intros m H. unfold wf_mdpb in H.
  repeat (apply andb_prop in H; let H' := fresh "C" in destruct H as [H H']).
  apply Nat.ltb_lt in H. apply Nat.ltb_lt in C5. apply Nat.eqb_eq in C2. apply Nat.eqb_eq in C1.
  assert (Hg0 : 0 < gam m).
  { apply negb_true_iff in C4. apply Qnot_le_lt. intros Hle. apply Qle_bool_iff in Hle. congruence. }
  assert (Hg1 : gam m < 1).
  { apply negb_true_iff in C3. apply Qnot_le_lt. intros Hle. apply Qle_bool_iff in Hle. congruence. }
  rewrite forallb_forall in C0. rewrite forallb_forall in C.
  assert (HP : forall a, (a < nA m)%nat -> length (nth a (P m) []) = nS m /\
            forall s, (s < nS m)%nat -> simplex (nS m) (row (nth a (P m) []) s)).
  { intros a Ha. assert (Hin : In (nth a (P m) []) (P m)) by (apply nth_In; lia).
    specialize (C0 _ Hin). apply andb_prop in C0. destruct C0 as [Hl Hrows]. apply Nat.eqb_eq in Hl.
    split; [exact Hl|]. intros s Hs. rewrite forallb_forall in Hrows.
    assert (Hin2 : In (row (nth a (P m) []) s) (nth a (P m) [])) by (unfold row; apply nth_In; apply (Nat.lt_le_trans _ (nS m)); [exact Hs| apply Nat.eq_le_incl; symmetry; exact Hl]).
    specialize (Hrows _ Hin2). apply andb_prop in Hrows. destruct Hrows as [Hrl Hd]. apply Nat.eqb_eq in Hrl.
    split; [exact Hrl| apply is_distb_sound; exact Hd]. }
  unfold wf_mdp. repeat split; try assumption.
  - intros a Ha. apply (proj1 (HP a Ha)).
  - apply (proj2 (HP a H0) s H1).
  - apply (proj2 (HP a H0) s H1).
  - apply (proj2 (HP a H0) s H1).
  - intros s Hs. assert (Hin : In (row (R m) s) (R m)) by (unfold row; apply nth_In; lia).
    specialize (C _ Hin). apply Nat.eqb_eq in C. exact C.
Qed.
