From Coq Require Extraction.
From Coq Require Import ExtrOcamlBasic.
From AIT Require Import Base.Vio Base.Qx Base.Mdp C01.Model C01.Spec.
Extraction "model.ml" vio_kit maxl argmax wf_mdpb T_op T_pi
  g_of_tables dense_of_g sparse_of_g g_of_mdp vi_run vi_run_g pe_run pe_run_g use_tolerance
  dist closeb residual_leb residual_pi_leb check_mdp_solution check_dp check_dp_pi check_iter check_iter_pi
  dp_red dp_pi_red iterT_red iterTpi_red cross_bound check_cross lp_post lp_post_g lp_problem_of_mdp pi_run pi_run_g greedy_matrix sparse_accepts obj_set_t obj_set_r obj_set_d sobj_set_t sobj_set_r.
