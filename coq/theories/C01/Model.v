(* C01/Model.v — executable model of the MDP planners' numeric core (no proofs here).
   Anchors: include/AIToolbox/MDP/Utils.hpp, src/MDP/Utils.cpp,
            include/AIToolbox/MDP/Algorithms/ValueIteration.hpp,
            include/AIToolbox/MDP/Algorithms/Utils/PolicyEvaluation.hpp,
            include/AIToolbox/MDP/Algorithms/PolicyIteration.hpp,
            include/AIToolbox/MDP/Model.hpp, SparseModel.hpp (table constructors).
   All arithmetic is exact (Q).  [Qred] only normalises the representation of a rational
   (Qred x == x); it is applied to every stored table entry so that the extracted code stays fast. *)
From Coq Require Import List Arith QArith Qminmax Bool.
From AIT Require Import Base.Qx Base.Mdp.
Import ListNotations.
Local Open Scope Q_scope.

(* ------------------------------------------------------------------ helpers *)
(* acc = init; for i in 0..n-1: acc += f i      (the C++ accumulation loops, same order) *)
Definition accum (init : Q) (f : nat -> Q) (n : nat) : Q :=
  fold_left (fun acc i => acc + f i) (seq 0 n) init.

(* an S x A table filled entry by entry *)
Definition mtab (S A : nat) (f : nat -> nat -> Q) : mat :=
  map (fun s => map (fun a => Qred (f s a)) (seq 0 A)) (seq 0 S).
Definition mget (q : mat) (s a : nat) : Q := nthq (row q s) a.

(* ------------------------------------------------------------------ model representations *)
(* user-defined model: only getS/getA/getDiscount/getTransitionProbability/getExpectedReward *)
Record gmodel := { gS : nat; gA : nat; gP : nat -> nat -> nat -> Q; gR : nat -> nat -> nat -> Q; ggam : Q }.

(* 3-D tables as the library's table constructors take them: t[s][a][s1], r[s][a][s1] *)
Definition tab3 (t : list (list vec)) (s a s1 : nat) : Q := nthq (nth a (nth s t []) []) s1.
Definition g_of_tables (S A : nat) (t r : list (list vec)) (gamma : Q) : gmodel :=
  {| gS := S; gA := A; gP := tab3 t; gR := tab3 r; ggam := gamma |}.

(* src: Model.hpp:Model(s,a,t,r,d) = setTransitionFunction + setRewardFunction:
   transitions_[a](s,s1) = t[s][a][s1];  rewards_(s,a) = sum_s1 r[s][a][s1] * transitions_[a](s,s1) *)
Definition dense_of_g (g : gmodel) : mdp :=
  {| nS := gS g; nA := gA g;
     P := map (fun a => map (fun s => map (fun s1 => gP g s a s1) (seq 0 (gS g))) (seq 0 (gS g))) (seq 0 (gA g));
     R := mtab (gS g) (gA g) (fun s a => accum 0 (fun s1 => gR g s a s1 * gP g s a s1) (gS g));
     gam := ggam g |}.

(* src: Utils/Core.hpp:checkDifferentSmall(0.0, x) guards every sparse insertion *)
Definition drop_small (x : Q) : Q := if eqSmall 0 x then 0 else x.

(* src: SparseModel.hpp:SparseModel(s,a,t,r,d): entries with |p| <= 1e-6 are not stored; the reward
   sum uses the stored (sparsified) transitions and is itself dropped when |.| <= 1e-6 *)
Definition sparse_of_g (g : gmodel) : mdp :=
  {| nS := gS g; nA := gA g;
     P := map (fun a => map (fun s => map (fun s1 => drop_small (gP g s a s1)) (seq 0 (gS g))) (seq 0 (gS g))) (seq 0 (gA g));
     R := mtab (gS g) (gA g) (fun s a => drop_small (accum 0 (fun s1 => gR g s a s1 * drop_small (gP g s a s1)) (gS g)));
     gam := ggam g |}.

(* src: SparseModel.hpp:setTransitionFunction (after /repo 17618b4) + Utils/Probability.cpp:
   isProbability(SparseMatrix3D): the table that will be STORED is validated: every stored entry >= 0
   and every stored row sums to 1 within 1e-6 (checkDifferentSmall(sum, 1.0)); otherwise the
   constructor throws std::invalid_argument.  (The input table itself passed the dense validation.) *)
Definition sparse_accepts (g : gmodel) : bool :=
  forallb (fun pa => forallb (fun rw => forallb (fun x => negb (Qle_bool x 0 && negb (Qeq_bool x 0))) rw &&
                                        eqSmall (qsum rw) 1) pa)
          (P (sparse_of_g g)).

(* a table model seen through the probability-query interface only
   (src: Model.cpp:getTransitionProbability / getExpectedReward(s,a,_) = rewards_(s,a)) *)
Definition g_of_mdp (m : mdp) : gmodel :=
  {| gS := nS m; gA := nA m; gP := fun s a s1 => nthq (trow m s a) s1;
     gR := fun s a _ => nthq (row (R m) s) a; ggam := gam m |}.

(* ------------------------------------------------------------------ MDP/Utils.hpp *)
(* src: Utils.hpp:computeImmediateRewards, non-Eigen branch (Eigen branch: getRewardFunction()) *)
Definition imm_rewards_g (g : gmodel) : mat :=
  mtab (gS g) (gA g) (fun s a => accum 0 (fun s1 => gP g s a s1 * gR g s a s1) (gS g)).
Definition imm_rewards (m : mdp) : mat := R m.

(* src: Utils.hpp:computeQFunction, Eigen branch: ir.col(a) += T_a * v *)
Definition compute_q (m : mdp) (ir : mat) (v : vec) : mat :=
  mtab (nS m) (nA m) (fun s a => mget ir s a + dot (trow m s a) v).
(* src: Utils.hpp:computeQFunction, non-Eigen branch: ir(s,a) += P(s,a,s1) * v[s1] *)
Definition compute_q_g (g : gmodel) (ir : mat) (v : vec) : mat :=
  mtab (gS g) (gA g) (fun s a => accum (mget ir s a) (fun s1 => gP g s a s1 * nthq v s1) (gS g)).

(* src: Utils.cpp:bellmanOperatorInplace: values(s) = q.row(s).maxCoeff(&actions[s])
   (Eigen maxCoeff: first maximal index) *)
Definition bellman (q : mat) : vec * list nat :=
  (map (fun r => snd (argmax r)) q, map (fun r => fst (argmax r)) q).

(* (val1 - val0).cwiseAbs().maxCoeff() *)
Definition variation (v1 v0 : vec) : Q :=
  maxl (map (fun p => qabs (fst p - snd p)) (combine v1 v0)).

(* checkDifferentSmall(tolerance_, 0.0) *)
Definition use_tolerance (tol : Q) : bool := negb (eqSmall tol 0).

(* ------------------------------------------------------------------ ValueIteration *)
(* loop state: (variation, val1, v1_.actions, q) *)
Definition vstate := (Q * vec * list nat * mat)%type.

(* src: ValueIteration.hpp:operator(), loop body.  [cq] is computeQFunction(model, ., ir). *)
Definition vi_step (cq : vec -> mat) (gamma : Q) (useT : bool) (st : vstate) : vstate :=
  let '(var, v, acts, q) := st in
  let val0 := v in
  let vd := vscale gamma v in                    (* val1 *= model.getDiscount() *)
  let q' := cq vd in                             (* q = computeQFunction(model, val1, ir) *)
  let '(v', acts') := bellman q' in              (* bellmanOperatorInplace(q, &v1_) *)
  ((if useT then variation v' val0 else var), v', acts', q').

(* loop test without the timestep part: (!useTolerance || variation > tolerance_) *)
Definition vi_continue (tol : Q) (useT : bool) (st : vstate) : bool :=
  let '(var, _, _, _) := st in negb useT || negb (Qle_bool var tol).

(* while ( timestep < horizon_ && ... ): recursion on the remaining horizon *)
Fixpoint vi_loop (cq : vec -> mat) (gamma tol : Q) (useT : bool) (n : nat) (st : vstate) : vstate :=
  match n with
  | O => st
  | S n' => if vi_continue tol useT st then vi_loop cq gamma tol useT n' (vi_step cq gamma useT st) else st
  end.

(* src: ValueIteration.hpp:operator(): start value defaulting, variation = 2*tol, q = zeros,
   returns (useTolerance ? variation : 0.0, v1_, q) *)
Definition vi_run_with (S A : nat) (cq : vec -> mat) (gamma : Q) (h : nat) (tol : Q) (v0 : vec) : vstate :=
  let v1 := if Nat.eqb (length v0) S then v0 else vzero S in
  let useT := use_tolerance tol in
  let '(var, v, acts, q) :=
    vi_loop cq gamma tol useT h (tol * 2, v1, repeat O S, mtab S A (fun _ _ => 0)) in
  ((if useT then var else 0), v, acts, q).

(* IsModelEigen models (MDP::Model; MDP::SparseModel after sparsification) *)
Definition vi_run (m : mdp) (h : nat) (tol : Q) (v0 : vec) : vstate :=
  vi_run_with (nS m) (nA m) (compute_q m (imm_rewards m)) (gam m) h tol v0.
(* models without Eigen accessors *)
Definition vi_run_g (g : gmodel) (h : nat) (tol : Q) (v0 : vec) : vstate :=
  vi_run_with (gS g) (gA g) (compute_q_g g (imm_rewards_g g)) (ggam g) h tol v0.

(* ------------------------------------------------------------------ PolicyEvaluation *)
Definition pstate := (Q * vec * mat)%type.

(* src: PolicyEvaluation.hpp:operator(), loop body: v1_(s) = q.row(s) * p.row(s).transpose() *)
Definition pe_step (S : nat) (cq : vec -> mat) (gamma : Q) (useT : bool) (pol : mat) (st : pstate) : pstate :=
  let '(var, v, q) := st in
  let val0 := v in
  let vd := vscale gamma v in
  let q' := cq vd in
  let v' := map (fun s => dot (row q' s) (row pol s)) (seq 0 S) in
  ((if useT then variation v' val0 else var), v', q').

Definition pe_continue (tol : Q) (useT : bool) (st : pstate) : bool :=
  let '(var, _, _) := st in negb useT || negb (Qle_bool var tol).

Fixpoint pe_loop (S : nat) (cq : vec -> mat) (gamma tol : Q) (useT : bool) (pol : mat) (n : nat) (st : pstate) : pstate :=
  match n with
  | O => st
  | S n' => if pe_continue tol useT st then pe_loop S cq gamma tol useT pol n' (pe_step S cq gamma useT pol st) else st
  end.

Definition pe_run_with (S A : nat) (cq : vec -> mat) (gamma : Q) (pol : mat) (h : nat) (tol : Q) (v0 : vec) : pstate :=
  let v1 := if Nat.eqb (length v0) S then v0 else vzero S in
  let useT := use_tolerance tol in
  let '(var, v, q) := pe_loop S cq gamma tol useT pol h (tol * 2, v1, mtab S A (fun _ _ => 0)) in
  ((if useT then var else 0), v, q).

Definition pe_run (m : mdp) (pol : mat) (h : nat) (tol : Q) (v0 : vec) : pstate :=
  pe_run_with (nS m) (nA m) (compute_q m (imm_rewards m)) (gam m) pol h tol v0.
Definition pe_run_g (g : gmodel) (pol : mat) (h : nat) (tol : Q) (v0 : vec) : pstate :=
  pe_run_with (gS g) (gA g) (compute_q_g g (imm_rewards_g g)) (ggam g) pol h tol v0.

(* ------------------------------------------------------------------ LinearProgramming *)
(* an LP as LinearProgramming::operator() builds it: [lp_nvars] free variables, a linear objective
   to minimise, and rows  coef . x >= rhs *)
Record lp_problem := { lp_nvars : nat; lp_obj : vec; lp_rows : list (vec * Q) }.

(* src: LinearProgramming.hpp:operator(): lp.row = -discount * T(s,a,.);  lp.row[s] += 1.0;
   pushRow(GreaterEqual, R(s,a)) *)
Definition lp_row_of (m : mdp) (s a : nat) : vec * Q :=
  (map (fun s1 => - gam m * nthq (trow m s a) s1 + (if Nat.eqb s1 s then 1 else 0)) (seq 0 (nS m)),
   nthq (row (R m) s) a).

(* src: LinearProgramming.hpp:operator(): lp.row.fill(1.0 / S); setObjective(false); rows in (s, a) order *)
Definition lp_problem_of_mdp (m : mdp) : lp_problem :=
  {| lp_nvars := nS m;
     lp_obj := repeat (1 / inject_Z (Z.of_nat (nS m))) (nS m);
     lp_rows := flat_map (fun s => map (fun a => lp_row_of m s a) (seq 0 (nA m))) (seq 0 (nS m)) |}.

(* src: LinearProgramming.hpp:operator(), after lp.solve: q = computeQFunction(model, discount * values, ir);
   actions[s] = argmax_a q(s,a); returns (values, actions, q) *)
Definition lp_post (m : mdp) (values : vec) : vec * list nat * mat :=
  let q := compute_q m (imm_rewards m) (vscale (gam m) values) in
  (values, snd (bellman q), q).
Definition lp_post_g (g : gmodel) (values : vec) : vec * list nat * mat :=
  let q := compute_q_g g (imm_rewards_g g) (vscale (ggam g) values) in
  (values, snd (bellman q), q).

(* ------------------------------------------------------------------ PolicyIteration *)
(* src: Bandit/Policies/Utils/QGreedyPolicyWrapper.hpp:getPolicy, first loop: running maximum and the
   number of entries checkEqualGeneral to it (the equality test comes before the `>` test) *)
Fixpoint greedy_scan (mx : Q) (count : nat) (l : vec) : Q * nat :=
  match l with
  | [] => (mx, count)
  | val :: t => if eqGeneral val mx then greedy_scan mx (S count) t
                else if Qlt_le_dec mx val then greedy_scan val 1%nat t
                else greedy_scan mx count t
  end.
Definition inv_count (c : nat) : Q := 1 / inject_Z (Z.of_nat c).
(* second loop: p[a] = checkEqualGeneral(q[a], max) ? 1.0/count : 0.0 *)
Definition greedy_row (r : vec) : vec :=
  match r with
  | [] => []
  | x :: t => let '(mx, count) := greedy_scan x 1%nat t in
              map (fun v => if eqGeneral v mx then inv_count count else 0) r
  end.
(* src: MDP/Policies/QGreedyPolicy.cpp:getPolicy *)
Definition greedy_matrix (q : mat) : mat := map greedy_row q.

(* src: PolicyIteration.hpp:operator(): some entry with checkDifferentSmall(matrix(s,a), newMatrix(s,a)) *)
Definition matrices_differ (m1 m2 : mat) : bool :=
  existsb (fun p => existsb (fun e => negb (eqSmall (fst e) (snd e))) (combine (fst p) (snd p))) (combine m1 m2).

(* src: PolicyIteration.hpp:operator(): the `goto nextLoop` loop, on explicit fuel (None = out of fuel).
   [matrix] is always the greedy matrix of the current qfun, which is what eval(p) evaluates;
   [vparam] is what eval.setValues stored. Returns the number of evaluations and the last Q. *)
Fixpoint pi_loop (S A : nat) (cq : vec -> mat) (gamma : Q) (h : nat) (tol : Q)
                 (fuel iters : nat) (matrix : mat) (vparam : vec) : option (nat * mat) :=
  match fuel with
  | O => None
  | Datatypes.S f =>
    let '(_, v, q) := pe_run_with S A cq gamma matrix h tol vparam in
    let newMatrix := greedy_matrix q in
    if matrices_differ matrix newMatrix
    then pi_loop S A cq gamma h tol f (Datatypes.S iters) newMatrix v
    else Some (Datatypes.S iters, q)
  end.

Definition pi_run_with (S A : nat) (cq : vec -> mat) (gamma : Q) (h : nat) (tol : Q) (fuel : nat) : option (nat * mat) :=
  pi_loop S A cq gamma h tol fuel O (greedy_matrix (mtab S A (fun _ _ => 0))) [].
Definition pi_run (m : mdp) (h : nat) (tol : Q) (fuel : nat) : option (nat * mat) :=
  pi_run_with (nS m) (nA m) (compute_q m (imm_rewards m)) (gam m) h tol fuel.
Definition pi_run_g (g : gmodel) (h : nat) (tol : Q) (fuel : nat) : option (nat * mat) :=
  pi_run_with (gS g) (gA g) (compute_q_g g (imm_rewards_g g)) (ggam g) h tol fuel.

(* ------------------------------------------------------------------ mutating an existing model object *)
(* A long-lived solver (PolicyEvaluation holds a reference to its model; ValueIteration / PolicyIteration /
   LinearProgramming objects are called again) must see the model's CURRENT tables.  The object state is
   an [mdp]; the setters below are the table setters of MDP::Model / MDP::SparseModel. *)
(* src: Model.hpp:setTransitionFunction(t): transitions_[a](s,s1) = t[s][a][s1]; rewards_ untouched *)
Definition obj_set_t (m : mdp) (t : list (list vec)) : mdp :=
  {| nS := nS m; nA := nA m;
     P := map (fun a => map (fun s => map (fun s1 => tab3 t s a s1) (seq 0 (nS m))) (seq 0 (nS m))) (seq 0 (nA m));
     R := R m; gam := gam m |}.
(* src: Model.hpp:setRewardFunction(r): rewards_(s,a) = sum_s1 r[s][a][s1] * transitions_[a](s,s1)
   with the transitions stored AT THAT TIME *)
Definition obj_set_r (m : mdp) (r : list (list vec)) : mdp :=
  {| nS := nS m; nA := nA m; P := P m;
     R := mtab (nS m) (nA m) (fun s a => accum 0 (fun s1 => tab3 r s a s1 * nthq (trow m s a) s1) (nS m));
     gam := gam m |}.
(* src: Model.cpp:setDiscount *)
Definition obj_set_d (m : mdp) (d : Q) : mdp := {| nS := nS m; nA := nA m; P := P m; R := R m; gam := d |}.
(* src: SparseModel.hpp:setTransitionFunction / setRewardFunction (entries <= 1e-6 not stored; the
   validation of the stored table is sparse_accepts and is not repeated here) *)
Definition sobj_set_t (m : mdp) (t : list (list vec)) : mdp :=
  {| nS := nS m; nA := nA m;
     P := map (fun a => map (fun s => map (fun s1 => drop_small (tab3 t s a s1)) (seq 0 (nS m))) (seq 0 (nS m))) (seq 0 (nA m));
     R := R m; gam := gam m |}.
Definition sobj_set_r (m : mdp) (r : list (list vec)) : mdp :=
  {| nS := nS m; nA := nA m; P := P m;
     R := mtab (nS m) (nA m) (fun s a => drop_small (accum 0 (fun s1 => tab3 r s a s1 * nthq (trow m s a) s1) (nS m)));
     gam := gam m |}.
