(* C01/ProofsLP.v — the LP that MDP::LinearProgramming builds: its feasible points are exactly the
   superharmonic vectors (V >= T V), they dominate every Bellman fixed point, and an optimal point
   IS the fixed point. *)
From Coq Require Import List Arith QArith Qminmax Lqa Lia Bool.
From AIT Require Import Base.Qx Base.Mdp C01.Model C01.Spec C01.Proofs C01.ProofsVI.
Import ListNotations.
Local Open Scope Q_scope.

(* ------------------------------------------------------------------ sums with an indicator *)
Lemma qsum_indicator : forall (g : nat -> Q) s n,
  qsum (map (fun i => (if Nat.eqb i s then 1 else 0) * g i) (seq 0 n)) == if Nat.ltb s n then g s else 0.
Proof.
  intros g s. induction n as [|n IH]; [reflexivity|].
  rewrite seq_S, map_app, qsum_app, IH. cbn [map qsum plus].
  destruct (Nat.eqb n s) eqn:E.
  - apply Nat.eqb_eq in E. subst n. rewrite Nat.ltb_irrefl. rewrite (proj2 (Nat.ltb_lt s (S s)) (Nat.lt_succ_diag_r s)). lra.
  - apply Nat.eqb_neq in E. destruct (Nat.ltb s n) eqn:L.
    + apply Nat.ltb_lt in L. rewrite (proj2 (Nat.ltb_lt s (S n))) by lia. lra.
    + apply Nat.ltb_ge in L. rewrite (proj2 (Nat.ltb_ge s (S n))) by lia. lra.
Qed.

Lemma dot_repeat_l : forall c n v, length v = n -> dot (repeat c n) v == c * qsum v.
Proof.
  intros c. induction n as [|n IH]; intros [|x v] Hl; cbn in Hl; try discriminate; cbn [repeat dot qsum]; [lra|].
  rewrite IH by lia. lra.
Qed.

(* ------------------------------------------------------------------ rows of the LP *)
Lemma lp_row_dot : forall m s a v, wf_mdp m -> (s < nS m)%nat -> (a < nA m)%nat -> length v = nS m ->
  dot (fst (lp_row_of m s a)) v == nthq v s - gam m * dot (trow m s a) v.
Proof.
  intros m s a v Hwf Hs Ha Hv. unfold lp_row_of. cbn [fst].
  rewrite dot_map_seq.
  pose proof Hwf as (_ & _ & _ & _ & _ & _ & _ & Hd & _). destruct (Hd a s Ha Hs) as [Hlen _]. fold (trow m s a) in Hlen.
  assert (E : qsum (map (fun i => (- gam m * nthq (trow m s a) i + (if Nat.eqb i s then 1 else 0)) * nthq v i) (seq 0 (nS m))) ==
              - gam m * qsum (map (fun i => nthq (trow m s a) i * nthq v i) (seq 0 (nS m))) +
              qsum (map (fun i => (if Nat.eqb i s then 1 else 0) * nthq v i) (seq 0 (nS m)))).
  { rewrite <- qsum_map_scale, map_map. rewrite <- qsum_map_add. apply qsum_map_ext. intros i _. lra. }
  rewrite E. rewrite qsum_indicator. rewrite (proj2 (Nat.ltb_lt s (nS m)) Hs).
  rewrite (dot_nth_sum (trow m s a) v), Hlen. lra.
Qed.

Lemma lp_rows_forall : forall m (Pr : vec * Q -> Prop),
  Forall Pr (lp_rows (lp_problem_of_mdp m)) <->
  (forall s a, (s < nS m)%nat -> (a < nA m)%nat -> Pr (lp_row_of m s a)).
Proof.
  intros m Pr. unfold lp_problem_of_mdp. cbn [lp_rows]. rewrite Forall_forall. split.
  - intros H s a Hs Ha. apply H. apply in_flat_map. exists s. split; [apply in_seq; lia|].
    apply in_map_iff. exists a. split; [reflexivity| apply in_seq; lia].
  - intros H r Hr. apply in_flat_map in Hr. destruct Hr as [s [Hs Hr]]. apply in_map_iff in Hr.
    destruct Hr as [a [<- Ha]]. apply in_seq in Hs. apply in_seq in Ha. apply H; lia.
Qed.

(* feasible for the LP built by the code  <->  V(s) >= R(s,a) + gamma * sum T V for all s, a *)
Theorem lp_feasible_iff_superharmonic_lemma : forall m v, wf_mdp m ->
  lp_feasible (lp_nvars (lp_problem_of_mdp m)) (lp_rows (lp_problem_of_mdp m)) v <-> superharmonic m v.
Proof.
  intros m v Hwf. unfold lp_feasible, superharmonic. change (lp_nvars (lp_problem_of_mdp m)) with (nS m).
  split; intros [Hl H]; split; try exact Hl.
  - intros s a Hs Ha. rewrite lp_rows_forall in H. specialize (H s a Hs Ha).
    rewrite (lp_row_dot m s a v Hwf Hs Ha Hl) in H. unfold lp_row_of in H. cbn [snd] in H. unfold q_of. lra.
  - apply lp_rows_forall. intros s a Hs Ha. rewrite (lp_row_dot m s a v Hwf Hs Ha Hl).
    specialize (H s a Hs Ha). unfold q_of in H. unfold lp_row_of. cbn [snd]. lra.
Qed.

(* ------------------------------------------------------------------ one-sided contraction *)
Definition le_shift (d : Q) (w v : vec) : Prop := Forall2 (fun x y => x <= y + d) w v.

Lemma dot_le_shift : forall p w v d, 0 <= d -> nonneg p -> le_shift d w v -> dot p w <= dot p v + d * qsum p.
Proof.
  intros p w v d Hd Hp H. revert p Hp. induction H as [|x y w v Hxy H IH]; intros p Hp.
  - rewrite !dot_nil_r. pose proof (qsum_nonneg p Hp). nra.
  - destruct p as [|c p]; cbn [dot qsum]; [lra|].
    inversion Hp as [|? ? Hc Hp']; subst. specialize (IH p Hp'). pose proof (qsum_nonneg p Hp'). nra.
Qed.

Lemma T_op_le_shift : forall m w v d, wf_mdp m -> 0 <= d -> le_shift d w v ->
  le_shift (gam m * d) (T_op m w) (T_op m v).
Proof.
  intros m w v d Hwf Hd H. unfold T_op, le_shift. apply Forall2_map_in. intros s Hs. apply in_seq in Hs.
  pose proof Hwf as (_ & HA & Hg0 & _).
  assert (Hne : map (q_of m w s) (seq 0 (nA m)) <> []).
  { destruct (nA m); [lia| discriminate]. }
  apply maxl_le; [exact Hne|]. intros y Hy. apply in_map_iff in Hy. destruct Hy as [a [<- Ha]].
  pose proof Ha as Ha'. apply in_seq in Ha'.
  destruct (wf_row_dist m s a Hwf ltac:(lia) ltac:(lia)) as [Hn Hq].
  pose proof (dot_le_shift (trow m s a) w v d Hd Hn H) as Hdot. rewrite Hq in Hdot.
  pose proof (maxl_ub (map (q_of m v s) (seq 0 (nA m))) (q_of m v s a) (in_map _ _ _ Ha)) as Hub.
  unfold q_of in *. nra.
Qed.

Lemma le_shift_nth : forall d w v i, le_shift d w v -> (i < length w)%nat -> nthq w i <= nthq v i + d.
Proof.
  intros d w v i H. revert i. induction H as [|x y w v Hxy H IH]; intros i Hi; cbn in Hi; [lia|].
  destruct i; unfold nthq; cbn [nth]; [exact Hxy| apply IH; lia].
Qed.

Lemma le_shift_intro : forall d w v, length w = length v ->
  (forall i, (i < length w)%nat -> nthq w i <= nthq v i + d) -> le_shift d w v.
Proof.
  intros d w v Hl H. apply (Forall2_nth_intro _ _ _ 0 0); [exact Hl|]. intros i Hi. apply (H i Hi).
Qed.

(* every superharmonic vector dominates every Bellman fixed point *)
Theorem superharmonic_ge_fixpoint : forall m v w, wf_mdp m -> superharmonic m v -> bellman_fixpoint m w ->
  forall s, (s < nS m)%nat -> nthq w s <= nthq v s.
Proof.
  intros m v w Hwf [Hlv Hsup] [Hlw Hfix].
  pose proof Hwf as (HS & HA & Hg0 & Hg1 & _).
  (* D = max_s (w_s - v_s) *)
  set (diffs := map (fun s => nthq w s - nthq v s) (seq 0 (nS m))).
  assert (Hne : diffs <> []) by (unfold diffs; destruct (nS m); [lia| discriminate]).
  set (D := maxl diffs).
  assert (HD : forall s, (s < nS m)%nat -> nthq w s - nthq v s <= D).
  { intros s Hs. apply maxl_ub. unfold diffs. apply (in_map (fun s => nthq w s - nthq v s)). apply in_seq; lia. }
  destruct (Qlt_le_dec 0 D) as [Hpos|Hnp].
  - exfalso.
    assert (Hsh : le_shift D w v).
    { apply le_shift_intro; [congruence|]. intros i Hi. rewrite Hlw in Hi. specialize (HD i Hi). lra. }
    pose proof (T_op_le_shift m w v D Hwf (Qlt_le_weak _ _ Hpos) Hsh) as HT.
    (* w_s = (T w)_s <= (T v)_s + gamma D <= v_s + gamma D *)
    assert (Hbound : forall s, (s < nS m)%nat -> nthq w s - nthq v s <= gam m * D).
    { intros s Hs.
      pose proof (le_shift_nth _ _ _ s HT ltac:(rewrite T_op_length; exact Hs)) as H1.
      pose proof (veq_nth _ _ s Hfix) as H2.
      assert (H3 : nthq (T_op m v) s <= nthq v s).
      { unfold T_op, nthq. rewrite nth_map_seq by exact Hs. apply maxl_le.
        - destruct (nA m); [lia| discriminate].
        - intros y Hy. apply in_map_iff in Hy. destruct Hy as [a [<- Ha]]. apply in_seq in Ha.
          apply Hsup; [exact Hs| lia]. }
      lra. }
    destruct (maxl_attained diffs Hne) as [y [Hy Ey]]. unfold diffs in Hy. apply in_map_iff in Hy.
    destruct Hy as [s [<- Hs]]. apply in_seq in Hs. fold D in Ey.
    specialize (Hbound s ltac:(lia)). nra.
  - intros s Hs. specialize (HD s Hs). lra.
Qed.

Theorem lp_feasible_ge_fixpoint_lemma : forall m v w, wf_mdp m ->
  lp_feasible (lp_nvars (lp_problem_of_mdp m)) (lp_rows (lp_problem_of_mdp m)) v -> bellman_fixpoint m w ->
  forall s, (s < nS m)%nat -> nthq w s <= nthq v s.
Proof.
  intros m v w Hwf Hf Hw. apply (superharmonic_ge_fixpoint m v w Hwf); [| exact Hw].
  apply lp_feasible_iff_superharmonic_lemma; assumption.
Qed.

(* a Bellman fixed point is itself feasible *)
Lemma fixpoint_superharmonic : forall m w, (0 < nA m)%nat -> bellman_fixpoint m w -> superharmonic m w.
Proof.
  intros m w HA [Hl Hfix]. split; [exact Hl|]. intros s a Hs Ha.
  rewrite (veq_nth _ _ s Hfix). unfold T_op, nthq. rewrite nth_map_seq by exact Hs.
  apply maxl_ub. apply (in_map (q_of m w s)). apply in_seq; lia.
Qed.

Lemma pointwise_ge_sum_le_eq : forall v w, Forall2 (fun x y => y <= x) v w -> qsum v <= qsum w -> veq v w.
Proof.
  intros v w H. induction H as [|x y v w Hxy H IH]; intros Hs; [constructor|]. cbn [qsum] in Hs.
  assert (Hge : qsum w <= qsum v).
  { clear IH Hs. induction H as [|a b v w Hab H IH]; cbn [qsum]; lra. }
  constructor; [lra| apply IH; lra].
Qed.

(* an optimal point of the LP the code builds is the Bellman fixed point (when one exists in Q) *)
Theorem lp_opt_is_fixpoint_lemma : forall m v w, wf_mdp m -> bellman_fixpoint m w ->
  lp_optimal (lp_nvars (lp_problem_of_mdp m)) (lp_obj (lp_problem_of_mdp m)) (lp_rows (lp_problem_of_mdp m)) v ->
  veq v w.
Proof.
  intros m v w Hwf Hw [Hf Hopt].
  pose proof Hwf as (HS & HA & _).
  pose proof (lp_feasible_ge_fixpoint_lemma m v w Hwf Hf Hw) as Hge.
  assert (Hfw : lp_feasible (lp_nvars (lp_problem_of_mdp m)) (lp_rows (lp_problem_of_mdp m)) w).
  { apply lp_feasible_iff_superharmonic_lemma; [exact Hwf|]. apply fixpoint_superharmonic; assumption. }
  specialize (Hopt w Hfw).
  destruct Hf as [Hlv _]. destruct Hw as [Hlw _]. change (lp_nvars (lp_problem_of_mdp m)) with (nS m) in Hlv.
  unfold lp_problem_of_mdp in Hopt. cbn [lp_obj] in Hopt.
  rewrite (dot_repeat_l _ (nS m) v Hlv), (dot_repeat_l _ (nS m) w Hlw) in Hopt.
  assert (Hc : 0 < 1 / inject_Z (Z.of_nat (nS m))).
  { apply Qlt_shift_div_l; [| lra]. unfold Qlt, inject_Z. cbn. lia. }
  apply pointwise_ge_sum_le_eq.
  - apply (Forall2_nth_intro _ _ _ 0 0); [congruence|]. intros i Hi. rewrite Hlv in Hi. apply (Hge i Hi).
  - nra.
Qed.

(* and the fixed point is optimal: the LP optimum and the Bellman fixed point coincide *)
Theorem fixpoint_is_lp_optimal_lemma : forall m w, wf_mdp m -> bellman_fixpoint m w ->
  lp_optimal (lp_nvars (lp_problem_of_mdp m)) (lp_obj (lp_problem_of_mdp m)) (lp_rows (lp_problem_of_mdp m)) w.
Proof.
  intros m w Hwf Hw. pose proof Hwf as (HS & HA & _). split.
  - apply lp_feasible_iff_superharmonic_lemma; [exact Hwf|]. apply fixpoint_superharmonic; assumption.
  - intros y Hy. pose proof (lp_feasible_ge_fixpoint_lemma m y w Hwf Hy Hw) as Hge.
    destruct Hy as [Hly _]. destruct Hw as [Hlw _]. change (lp_nvars (lp_problem_of_mdp m)) with (nS m) in Hly.
    unfold lp_problem_of_mdp. cbn [lp_obj].
    rewrite (dot_repeat_l _ (nS m) y Hly), (dot_repeat_l _ (nS m) w Hlw).
    assert (Hc : 0 < 1 / inject_Z (Z.of_nat (nS m))).
    { apply Qlt_shift_div_l; [| lra]. unfold Qlt, inject_Z. cbn. lia. }
    assert (Hsum : qsum w <= qsum y).
    { assert (G : forall n a b, length a = n -> length b = n -> (forall i, (i < n)%nat -> nthq a i <= nthq b i) -> qsum a <= qsum b).
      { induction n as [|n IH]; intros a b La Lb H.
        - destruct a; [| discriminate]. destruct b; [| discriminate]. cbn [qsum]. lra.
        - destruct a as [|x a]; [discriminate|]. destruct b as [|z b]; [discriminate|]. cbn [qsum]. cbn in La, Lb.
          pose proof (H 0%nat ltac:(lia)) as H0. unfold nthq in H0. cbn [nth] in H0.
          assert (qsum a <= qsum b) by (apply IH; try lia; intros i Hi; apply (H (S i)); lia). lra. }
      apply (G (nS m)); assumption. }
    nra.
Qed.

(* post-processing of the LP values: the Q-table is the look-ahead of the values, the actions its first
   maximisers *)
Theorem lp_post_spec_lemma : forall m values, (0 < nA m)%nat ->
  let '(v, acts, q) := lp_post m values in
  v = values /\
  (forall s a, (s < nS m)%nat -> (a < nA m)%nat -> nthq (row q s) a == q_of m values s a) /\
  (forall s, (s < nS m)%nat -> (nth s acts O < nA m)%nat /\
     nthq (row q s) (nth s acts O) == maxl (row q s) /\
     forall a, (a < nth s acts O)%nat -> nthq (row q s) a < maxl (row q s)).
Proof.
  intros m values HA. unfold lp_post. cbv zeta.
  pose proof (compute_q_ok m values) as [Hl Hrows].
  split; [reflexivity|]. split.
  - intros s a Hs Ha. destruct (Hrows s Hs) as [_ He]. apply He; exact Ha.
  - intros s Hs. destruct (Hrows s Hs) as [Hrl _].
    assert (Hne : row (compute_q m (imm_rewards m) (vscale (gam m) values)) s <> []).
    { destruct (row (compute_q m (imm_rewards m) (vscale (gam m) values)) s); [cbn in Hrl; lia| discriminate]. }
    destruct (bellman_spec _ s Hne) as (Hlt & Emax & Eact & Hfirst). rewrite Hrl in Hlt.
    split; [exact Hlt|]. split; [rewrite Eact; exact Emax|].
    intros a Ha. rewrite <- Emax. apply Hfirst; exact Ha.
Qed.
