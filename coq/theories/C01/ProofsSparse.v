(* C01/ProofsSparse.v — MDP::SparseModel built from the same tables: when no transition probability
   and no expected reward falls in the dropped band (0, 1e-6], the sparse model is the dense one and
   the planners return equal results (the "separation" case of the sparse clause). *)
From Coq Require Import List Arith QArith Qminmax Lqa Lia Bool.
From AIT Require Import Base.Qx Base.Mdp C01.Model C01.Spec C01.Proofs C01.ProofsVI C01.ProofsRepr.
Import ListNotations.
Local Open Scope Q_scope.

Definition separated0 (x : Q) : Prop := x == 0 \/ epsS < qabs x.

(* nothing is dropped by the SparseModel constructor *)
Definition no_small_entries (g : gmodel) : Prop :=
  (forall s a s1, (s < gS g)%nat -> (a < gA g)%nat -> (s1 < gS g)%nat -> separated0 (gP g s a s1)) /\
  (forall s a, (s < gS g)%nat -> (a < gA g)%nat ->
     separated0 (accum 0 (fun s1 => gR g s a s1 * gP g s a s1) (gS g))).

Lemma drop_small_id : forall x y, x == y -> separated0 y -> drop_small x == y.
Proof.
  intros x y E Hy. unfold drop_small, eqSmall. destruct (Qle_bool (qabs (0 - x)) epsS) eqn:B; [| exact E].
  destruct Hy as [H0|Hbig]; [rewrite H0; reflexivity|]. exfalso.
  apply Qle_bool_iff in B. apply qabs_bounds in B. unfold qabs in Hbig.
  destruct (Q.max_spec y (- y)) as [[_ Em]|[_ Em]]; rewrite Em in Hbig; lra.
Qed.

Lemma compute_q_sparse_ok : forall g, no_small_entries g ->
  cq_ok (dense_of_g g) (compute_q (sparse_of_g g) (imm_rewards (sparse_of_g g))).
Proof.
  intros g [HP HR] v. unfold compute_q, imm_rewards.
  change (nS (sparse_of_g g)) with (gS g). change (nA (sparse_of_g g)) with (gA g).
  change (nS (dense_of_g g)) with (gS g). change (nA (dense_of_g g)) with (gA g).
  apply mtab_is. intros s a Hs Ha.
  (* transition row *)
  assert (Erow : veq (trow (sparse_of_g g) s a) (trow (dense_of_g g) s a)).
  { rewrite (trow_dense_of_g g s a Hs Ha). unfold trow, sparse_of_g, row. cbn [P].
    rewrite nth_map_seq by exact Ha. rewrite nth_map_seq by exact Hs.
    apply Forall2_map_in. intros s1 Hs1. apply in_seq in Hs1. apply drop_small_id; [reflexivity| apply HP; lia]. }
  (* reward entry *)
  assert (Erew : mget (R (sparse_of_g g)) s a == nthq (row (R (dense_of_g g)) s) a).
  { unfold sparse_of_g, dense_of_g. cbn [R]. fold (mget (mtab (gS g) (gA g) (fun s a => accum 0 (fun s1 => gR g s a s1 * gP g s a s1) (gS g))) s a).
    rewrite !(mtab_get _ _ _ s a Hs Ha). apply drop_small_id; [| apply HR; assumption].
    rewrite !accum_qsum. apply Qplus_comp; [reflexivity|]. apply qsum_map_ext. intros s1 Hs1. apply in_seq in Hs1.
    rewrite (drop_small_id (gP g s a s1) (gP g s a s1)); [reflexivity| reflexivity| apply HP; lia]. }
  unfold q_of. change (gam (dense_of_g g)) with (ggam g). change (gam (sparse_of_g g)) with (ggam g).
  rewrite Erew, dot_scale_r, (dot_veq_l _ _ v Erow). reflexivity.
Qed.

Theorem sparse_independent_lemma : forall g h tol v0 pol, no_small_entries g ->
  st_equiv (vi_run (sparse_of_g g) h tol v0) (vi_run (dense_of_g g) h tol v0) /\
  pst_equiv (pe_run (sparse_of_g g) pol h tol v0) (pe_run (dense_of_g g) pol h tol v0).
Proof.
  intros g h tol v0 pol Hns. split.
  - apply (vi_run_with_equiv _ _ (ggam g)). apply (cq_ok_sim (dense_of_g g)); [apply compute_q_sparse_ok; exact Hns| apply compute_q_ok].
  - apply (pe_run_with_equiv _ _ (ggam g)). apply (cq_ok_sim (dense_of_g g)); [apply compute_q_sparse_ok; exact Hns| apply compute_q_ok].
Qed.

(* ================================================================== entries in the dropped band *)
(* The general case: SparseModel drops entries in (0,1e-6].  The stored rows p' satisfy 0 <= p' <= p and,
   since the constructor validates the stored table (sparse_accepts), lose at most epsS of mass per row.
   One backup of the sparse model differs from one backup of the dense model by at most
       eta = epsS + rmax*delta + gamma*B*delta         (delta = lost mass per row, |r| <= rmax, |V| <= B)
   and the h-step values by at most eta/(1-gamma) (contraction of the dense operator). *)

Definition row_loss_le (g : gmodel) (delta : Q) : Prop :=
  forall s a, (s < gS g)%nat -> (a < gA g)%nat ->
    qsum (map (fun s1 => gP g s a s1 - drop_small (gP g s a s1)) (seq 0 (gS g))) <= delta.
Definition rewards_bounded (g : gmodel) (rmax : Q) : Prop :=
  forall s a s1, (s < gS g)%nat -> (a < gA g)%nat -> (s1 < gS g)%nat -> - rmax <= gR g s a s1 /\ gR g s a s1 <= rmax.
Definition bounded (B : Q) (v : vec) : Prop := forall i, - B <= nthq v i /\ nthq v i <= B.
Definition probs_nonneg (g : gmodel) : Prop :=
  forall s a s1, (s < gS g)%nat -> (a < gA g)%nat -> (s1 < gS g)%nat -> 0 <= gP g s a s1.
Definition sparse_eta (g : gmodel) (delta rmax B : Q) : Q := epsS + rmax * delta + ggam g * (B * delta).

Lemma drop_small_near : forall y, - epsS <= drop_small y - y /\ drop_small y - y <= epsS.
Proof.
  intros y. unfold drop_small, eqSmall. destruct (Qle_bool (qabs (0 - y)) epsS) eqn:B.
  - apply Qle_bool_iff in B. apply qabs_bounds in B. split; lra.
  - unfold epsS. split; lra.
Qed.

Lemma drop_small_nonneg : forall x, 0 <= x -> 0 <= drop_small x /\ drop_small x <= x.
Proof. intros x Hx. unfold drop_small. destruct (eqSmall 0 x); split; lra. Qed.

Lemma weighted_sum_bound : forall (w x : nat -> Q) B l,
  (forall i, In i l -> 0 <= w i) -> (forall i, In i l -> - B <= x i /\ x i <= B) ->
  - (B * qsum (map w l)) <= qsum (map (fun i => w i * x i) l) /\
  qsum (map (fun i => w i * x i) l) <= B * qsum (map w l).
Proof.
  intros w x B. induction l as [|i l IH]; intros Hw Hx; cbn [map qsum]; [split; lra|].
  destruct IH as [L U]; [intros; apply Hw; right; assumption| intros; apply Hx; right; assumption|].
  pose proof (Hw i (or_introl eq_refl)). destruct (Hx i (or_introl eq_refl)). split; nra.
Qed.

Lemma qsum_map_sub : forall (A : Type) (f g : A -> Q) l,
  qsum (map (fun x => f x - g x) l) == qsum (map f l) - qsum (map g l).
Proof. induction l as [|x l IH]; cbn [qsum map]; [lra| rewrite IH; lra]. Qed.

Lemma trow_sparse_of_g : forall g s a, (s < gS g)%nat -> (a < gA g)%nat ->
  trow (sparse_of_g g) s a = map (fun s1 => drop_small (gP g s a s1)) (seq 0 (gS g)).
Proof.
  intros g s a Hs Ha. unfold trow, sparse_of_g, row. cbn [P].
  rewrite nth_map_seq by exact Ha. rewrite nth_map_seq by exact Hs. reflexivity.
Qed.

(* look-ahead tables of the two models in index-sum form *)
Lemma q_of_dense_sum : forall g v s a, (s < gS g)%nat -> (a < gA g)%nat ->
  q_of (dense_of_g g) v s a ==
  qsum (map (fun i => gR g s a i * gP g s a i) (seq 0 (gS g))) +
  ggam g * qsum (map (fun i => gP g s a i * nthq v i) (seq 0 (gS g))).
Proof.
  intros g v s a Hs Ha. unfold q_of. rewrite (trow_dense_of_g g s a Hs Ha), dot_map_seq.
  change (gam (dense_of_g g)) with (ggam g).
  change (row (R (dense_of_g g)) s) with (row (mtab (gS g) (gA g) (fun s a => accum 0 (fun s1 => gR g s a s1 * gP g s a s1) (gS g))) s).
  fold (mget (mtab (gS g) (gA g) (fun s a => accum 0 (fun s1 => gR g s a s1 * gP g s a s1) (gS g))) s a).
  rewrite (mtab_get _ _ _ s a Hs Ha), accum_qsum. lra.
Qed.

Lemma q_of_sparse_sum : forall g v s a, (s < gS g)%nat -> (a < gA g)%nat ->
  q_of (sparse_of_g g) v s a ==
  drop_small (accum 0 (fun i => gR g s a i * drop_small (gP g s a i)) (gS g)) +
  ggam g * qsum (map (fun i => drop_small (gP g s a i) * nthq v i) (seq 0 (gS g))).
Proof.
  intros g v s a Hs Ha. unfold q_of. rewrite (trow_sparse_of_g g s a Hs Ha), dot_map_seq.
  change (gam (sparse_of_g g)) with (ggam g).
  change (row (R (sparse_of_g g)) s) with
    (row (mtab (gS g) (gA g) (fun s a => drop_small (accum 0 (fun s1 => gR g s a s1 * drop_small (gP g s a s1)) (gS g)))) s).
  fold (mget (mtab (gS g) (gA g) (fun s a => drop_small (accum 0 (fun s1 => gR g s a s1 * drop_small (gP g s a s1)) (gS g)))) s a).
  rewrite (mtab_get _ _ _ s a Hs Ha). reflexivity.
Qed.

Lemma q_of_sparse_close : forall g delta rmax B v s a,
  probs_nonneg g -> row_loss_le g delta -> rewards_bounded g rmax -> 0 <= B -> 0 <= rmax -> 0 < ggam g ->
  bounded B v -> (s < gS g)%nat -> (a < gA g)%nat ->
  - sparse_eta g delta rmax B <= q_of (sparse_of_g g) v s a - q_of (dense_of_g g) v s a /\
  q_of (sparse_of_g g) v s a - q_of (dense_of_g g) v s a <= sparse_eta g delta rmax B.
Proof.
  intros g delta rmax B v s a Hnn Hloss Hrb HB Hrm Hg Hbv Hs Ha.
  rewrite (q_of_dense_sum g v s a Hs Ha), (q_of_sparse_sum g v s a Hs Ha).
  pose proof (accum_qsum (fun i => gR g s a i * drop_small (gP g s a i)) (gS g) 0) as EA.
  set (w := fun i => gP g s a i - drop_small (gP g s a i)).
  assert (Hw : forall i, In i (seq 0 (gS g)) -> 0 <= w i).
  { intros i Hi. apply in_seq in Hi. unfold w. destruct (drop_small_nonneg (gP g s a i)); [apply Hnn; lia| lra]. }
  pose proof (Hloss s a Hs Ha) as Hl. fold w in Hl.
  assert (Hw0 : 0 <= qsum (map w (seq 0 (gS g)))).
  { clear - Hw. induction (seq 0 (gS g)) as [|i l IH]; cbn [map qsum]; [lra|].
    pose proof (Hw i (or_introl eq_refl)). assert (0 <= qsum (map w l)) by (apply IH; intros; apply Hw; right; assumption). lra. }
  (* rewards *)
  destruct (weighted_sum_bound w (fun i => gR g s a i) rmax (seq 0 (gS g)) Hw) as [LR UR].
  { intros i Hi. apply in_seq in Hi. apply Hrb; lia. }
  assert (ER : qsum (map (fun i => gR g s a i * drop_small (gP g s a i)) (seq 0 (gS g))) ==
               qsum (map (fun i => gR g s a i * gP g s a i) (seq 0 (gS g))) - qsum (map (fun i => w i * gR g s a i) (seq 0 (gS g)))).
  { rewrite <- qsum_map_sub. apply qsum_map_ext. intros i _. unfold w. lra. }
  (* values *)
  destruct (weighted_sum_bound w (fun i => nthq v i) B (seq 0 (gS g)) Hw) as [LV UV].
  { intros i _. apply Hbv. }
  assert (EV : qsum (map (fun i => drop_small (gP g s a i) * nthq v i) (seq 0 (gS g))) ==
               qsum (map (fun i => gP g s a i * nthq v i) (seq 0 (gS g))) - qsum (map (fun i => w i * nthq v i) (seq 0 (gS g)))).
  { rewrite <- qsum_map_sub. apply qsum_map_ext. intros i _. unfold w. lra. }
  destruct (drop_small_near (accum 0 (fun i => gR g s a i * drop_small (gP g s a i)) (gS g))) as [LD UD].
  unfold sparse_eta. rewrite EV.
  set (SW := qsum (map w (seq 0 (gS g)))) in *.
  set (SR := qsum (map (fun i => w i * gR g s a i) (seq 0 (gS g)))) in *.
  set (SV := qsum (map (fun i => w i * nthq v i) (seq 0 (gS g)))) in *.
  assert (rmax * SW <= rmax * delta) by nra. assert (B * SW <= B * delta) by nra.
  assert (ggam g * SV <= ggam g * (B * delta)) by nra.
  assert (- (ggam g * (B * delta)) <= ggam g * SV) by nra.
  split; lra.
Qed.

Lemma T_op_sparse_close : forall g delta rmax B v,
  probs_nonneg g -> row_loss_le g delta -> rewards_bounded g rmax -> 0 <= B -> 0 <= rmax -> 0 < ggam g ->
  (0 < gA g)%nat -> bounded B v ->
  close (sparse_eta g delta rmax B) (T_op (sparse_of_g g) v) (T_op (dense_of_g g) v).
Proof.
  intros g delta rmax B v Hnn Hloss Hrb HB Hrm Hg HA Hbv. unfold T_op, close.
  change (nS (sparse_of_g g)) with (gS g). change (nA (sparse_of_g g)) with (gA g).
  change (nS (dense_of_g g)) with (gS g). change (nA (dense_of_g g)) with (gA g).
  apply Forall2_map_in. intros s Hs. apply in_seq in Hs.
  apply maxl_map_close; [apply seq_nonempty; exact HA|].
  intros a Ha. apply in_seq in Ha. apply (q_of_sparse_close g delta rmax B v s a); try assumption; lia.
Qed.

Lemma wf_dense_probs_nonneg : forall g, wf_mdp (dense_of_g g) -> probs_nonneg g.
Proof.
  intros g Hwf s a s1 Hs Ha Hs1.
  destruct (wf_row_dist (dense_of_g g) s a Hwf Hs Ha) as [Hn _]. rewrite (trow_dense_of_g g s a Hs Ha) in Hn.
  unfold nonneg in Hn. rewrite Forall_forall in Hn. apply Hn. apply (in_map (fun s1 => gP g s a s1)). apply in_seq; lia.
Qed.

(* h-step values of the sparse and of the dense model *)
Theorem sparse_dp_close_lemma : forall g delta rmax B h, wf_mdp (dense_of_g g) ->
  row_loss_le g delta -> rewards_bounded g rmax -> 0 <= delta -> 0 <= B -> 0 <= rmax ->
  (forall k, (k < h)%nat -> bounded B (dp (sparse_of_g g) k)) ->
  close (sparse_eta g delta rmax B / (1 - ggam g)) (dp (sparse_of_g g) h) (dp (dense_of_g g) h).
Proof.
  intros g delta rmax B h Hwf Hloss Hrb Hd HB Hrm.
  pose proof Hwf as (_ & HA & Hg0 & Hg1 & _).
  change (nA (dense_of_g g)) with (gA g) in HA. change (gam (dense_of_g g)) with (ggam g) in Hg0, Hg1.
  pose proof (wf_dense_probs_nonneg g Hwf) as Hnn.
  set (eta := sparse_eta g delta rmax B). set (E := eta / (1 - ggam g)).
  assert (Heta : 0 <= eta).
  { unfold eta, sparse_eta. pose proof (Qmult_le_0_compat _ _ Hrm Hd). pose proof (Qmult_le_0_compat _ _ HB Hd) as HBd.
    pose proof (Qmult_le_0_compat _ _ (Qlt_le_weak _ _ Hg0) HBd). unfold epsS. lra. }
  assert (HE : E * (1 - ggam g) == eta) by (unfold E; field; lra).
  assert (HE0 : 0 <= E) by (unfold E; apply Qle_shift_div_l; lra).
  induction h as [|h IH]; intros Hb.
  - cbn [dp]. apply close_refl. exact HE0.
  - cbn [dp].
    assert (Hprev : close E (dp (sparse_of_g g) h) (dp (dense_of_g g) h)) by (apply IH; intros k Hk; apply Hb; lia).
    pose proof (T_op_sparse_close g delta rmax B (dp (sparse_of_g g) h) Hnn Hloss Hrb HB Hrm Hg0 HA (Hb h (Nat.lt_succ_diag_r h))) as H1.
    pose proof (T_contraction_lemma (dense_of_g g) _ _ E Hwf HE0 Hprev) as H2.
    change (gam (dense_of_g g)) with (ggam g) in H2.
    eapply close_weaken; [| exact (close_trans _ _ _ _ _ H1 H2)]. fold eta. nra.
Qed.

(* the validation performed by the SparseModel constructor bounds the lost mass by epsS *)
Lemma sparse_accepts_loss : forall g, wf_mdp (dense_of_g g) -> sparse_accepts g = true -> row_loss_le g epsS.
Proof.
  intros g Hwf Hacc s a Hs Ha. unfold sparse_accepts in Hacc. rewrite forallb_forall in Hacc.
  assert (Hin : In (nth a (P (sparse_of_g g)) []) (P (sparse_of_g g))).
  { apply nth_In. unfold sparse_of_g. cbn [P]. rewrite map_length, seq_length. exact Ha. }
  specialize (Hacc _ Hin). rewrite forallb_forall in Hacc.
  assert (Hin2 : In (trow (sparse_of_g g) s a) (nth a (P (sparse_of_g g)) [])).
  { unfold trow, row. apply nth_In. unfold sparse_of_g. cbn [P]. rewrite nth_map_seq by exact Ha.
    rewrite map_length, seq_length. exact Hs. }
  specialize (Hacc _ Hin2). apply andb_prop in Hacc. destruct Hacc as [_ Hsum].
  unfold eqSmall in Hsum. apply Qle_bool_iff in Hsum. apply qabs_bounds in Hsum.
  rewrite (trow_sparse_of_g g s a Hs Ha) in Hsum.
  destruct (wf_row_dist (dense_of_g g) s a Hwf Hs Ha) as [_ Hone]. rewrite (trow_dense_of_g g s a Hs Ha) in Hone.
  rewrite qsum_map_sub. change (fun s1 : nat => gP g s a s1) with (gP g s a) in Hone. lra.
Qed.

(* run level: tolerance 0, horizon h, zero start *)
Theorem sparse_error_term_lemma : forall g rmax B h, wf_mdp (dense_of_g g) -> sparse_accepts g = true ->
  rewards_bounded g rmax -> 0 <= B -> 0 <= rmax ->
  (forall k, (k < h)%nat -> bounded B (dp (sparse_of_g g) k)) ->
  let '(_, vs, _, _) := vi_run (sparse_of_g g) h 0 (repeat 0 (gS g)) in
  let '(_, vd, _, _) := vi_run (dense_of_g g) h 0 (repeat 0 (gS g)) in
  close (sparse_eta g epsS rmax B / (1 - ggam g)) vs vd.
Proof.
  intros g rmax B h Hwf Hacc Hrb HB Hrm Hb.
  pose proof Hwf as (_ & HA & _).
  pose proof (sparse_dp_close_lemma g epsS rmax B h Hwf (sparse_accepts_loss g Hwf Hacc) Hrb ltac:(unfold epsS; lra) HB Hrm Hb) as Hc.
  pose proof (vi_exact_from_lemma (sparse_of_g g) h (repeat 0 (gS g)) HA (repeat_length 0 (gS g))) as Hs.
  pose proof (vi_exact_from_lemma (dense_of_g g) h (repeat 0 (gS g)) HA (repeat_length 0 (gS g))) as Hd.
  destruct (vi_run (sparse_of_g g) h 0 (repeat 0 (gS g))) as [[[vars vs] as_] qs].
  destruct (vi_run (dense_of_g g) h 0 (repeat 0 (gS g))) as [[[vard vd] ad] qd].
  destruct Hs as (_ & Hvs & _). destruct Hd as (_ & Hvd & _).
  rewrite !dp_iterT in Hc. unfold vzero in Hc.
  change (nS (sparse_of_g g)) with (gS g) in Hc. change (nS (dense_of_g g)) with (gS g) in Hc.
  eapply close_veq_l; [| apply veq_sym; exact Hvs]. eapply close_veq_r; [exact Hc| apply veq_sym; exact Hvd].
Qed.
