(* C01/ProofsSparse.v — MDP::SparseModel built from the same tables: when no transition probability
   and no expected reward falls in the dropped band (0, 1e-6], the sparse model is the dense one and
   the planners return equal results (the "separation" case of the sparse clause). *)
From Coq Require Import List Arith QArith Qminmax Lqa Lia Bool.
From AIT Require Import Base.Qx Base.Mdp C01.Model C01.Spec C01.Proofs C01.ProofsVI C01.ProofsRepr.
Import ListNotations.
Local Open Scope Q_scope.

Definition separated0 (x : Q) : Prop := x == 0 \/ epsS < qabs x.

(* nothing is dropped by the SparseModel constructor *)
Definition no_small_entries (g : gmodel) : Prop :=
  (forall s a s1, (s < gS g)%nat -> (a < gA g)%nat -> (s1 < gS g)%nat -> separated0 (gP g s a s1)) /\
  (forall s a, (s < gS g)%nat -> (a < gA g)%nat ->
     separated0 (accum 0 (fun s1 => gR g s a s1 * gP g s a s1) (gS g))).

Lemma drop_small_id : forall x y, x == y -> separated0 y -> drop_small x == y.
Proof.
  intros x y E Hy. unfold drop_small, eqSmall. destruct (Qle_bool (qabs (0 - x)) epsS) eqn:B; [| exact E].
  destruct Hy as [H0|Hbig]; [rewrite H0; reflexivity|]. exfalso.
  apply Qle_bool_iff in B. apply qabs_bounds in B. unfold qabs in Hbig.
  destruct (Q.max_spec y (- y)) as [[_ Em]|[_ Em]]; rewrite Em in Hbig; lra.
Qed.

Lemma compute_q_sparse_ok : forall g, no_small_entries g ->
  cq_ok (dense_of_g g) (compute_q (sparse_of_g g) (imm_rewards (sparse_of_g g))).
Proof.
  intros g [HP HR] v. unfold compute_q, imm_rewards.
  change (nS (sparse_of_g g)) with (gS g). change (nA (sparse_of_g g)) with (gA g).
  change (nS (dense_of_g g)) with (gS g). change (nA (dense_of_g g)) with (gA g).
  apply mtab_is. intros s a Hs Ha.
  (* transition row *)
  assert (Erow : veq (trow (sparse_of_g g) s a) (trow (dense_of_g g) s a)).
  { rewrite (trow_dense_of_g g s a Hs Ha). unfold trow, sparse_of_g, row. cbn [P].
    rewrite nth_map_seq by exact Ha. rewrite nth_map_seq by exact Hs.
    apply Forall2_map_in. intros s1 Hs1. apply in_seq in Hs1. apply drop_small_id; [reflexivity| apply HP; lia]. }
  (* reward entry *)
  assert (Erew : mget (R (sparse_of_g g)) s a == nthq (row (R (dense_of_g g)) s) a).
  { unfold sparse_of_g, dense_of_g. cbn [R]. fold (mget (mtab (gS g) (gA g) (fun s a => accum 0 (fun s1 => gR g s a s1 * gP g s a s1) (gS g))) s a).
    rewrite !(mtab_get _ _ _ s a Hs Ha). apply drop_small_id; [| apply HR; assumption].
    rewrite !accum_qsum. apply Qplus_comp; [reflexivity|]. apply qsum_map_ext. intros s1 Hs1. apply in_seq in Hs1.
    rewrite (drop_small_id (gP g s a s1) (gP g s a s1)); [reflexivity| reflexivity| apply HP; lia]. }
  unfold q_of. change (gam (dense_of_g g)) with (ggam g). change (gam (sparse_of_g g)) with (ggam g).
  rewrite Erew, dot_scale_r, (dot_veq_l _ _ v Erow). reflexivity.
Qed.

Theorem sparse_independent_lemma : forall g h tol v0 pol, no_small_entries g ->
  st_equiv (vi_run (sparse_of_g g) h tol v0) (vi_run (dense_of_g g) h tol v0) /\
  pst_equiv (pe_run (sparse_of_g g) pol h tol v0) (pe_run (dense_of_g g) pol h tol v0).
Proof.
  intros g h tol v0 pol Hns. split.
  - apply (vi_run_with_equiv _ _ (ggam g)). apply (cq_ok_sim (dense_of_g g)); [apply compute_q_sparse_ok; exact Hns| apply compute_q_ok].
  - apply (pe_run_with_equiv _ _ (ggam g)). apply (cq_ok_sim (dense_of_g g)); [apply compute_q_sparse_ok; exact Hns| apply compute_q_ok].
Qed.
