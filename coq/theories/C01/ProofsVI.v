(* C01/ProofsVI.v — the value-iteration and policy-evaluation models compute what the spec says.
   Everything is proved for an abstract Q-function computation [cq] that satisfies [cq_ok m cq]
   ("cq (gamma*v) is the one-step look-ahead table of v"), then instantiated for the Eigen branch
   (compute_q) and the probability-query branch (compute_q_g). *)
From Coq Require Import List Arith QArith Qminmax Lqa Lia Bool.
From AIT Require Import Base.Qx Base.Mdp C01.Model C01.Spec C01.Proofs.
Import ListNotations.
Local Open Scope Q_scope.

(* ------------------------------------------------------------------ list helpers *)
Lemma Forall2_nth_intro : forall (A B : Type) (Rel : A -> B -> Prop) d1 d2 l1 l2,
  length l1 = length l2 -> (forall i, (i < length l1)%nat -> Rel (nth i l1 d1) (nth i l2 d2)) ->
  Forall2 Rel l1 l2.
Proof.
  intros A B Rel d1 d2. induction l1 as [|x l1 IH]; intros [|y l2] Hl H; cbn in Hl; try discriminate; constructor.
  - apply (H 0%nat). cbn; lia.
  - apply IH; [lia|]. intros i Hi. apply (H (S i)). cbn; lia.
Qed.

Lemma Forall2_nth : forall (A B : Type) (Rel : A -> B -> Prop) d1 d2 l1 l2 i,
  Forall2 Rel l1 l2 -> (i < length l1)%nat -> Rel (nth i l1 d1) (nth i l2 d2).
Proof.
  intros A B Rel d1 d2 l1 l2 i H. revert i. induction H as [|x y l1 l2 Hxy H IH]; intros i Hi; cbn in Hi; [lia|].
  destruct i; cbn [nth]; [exact Hxy| apply IH; lia].
Qed.

Lemma Forall2_length : forall (A B : Type) (Rel : A -> B -> Prop) l1 l2, Forall2 Rel l1 l2 -> length l1 = length l2.
Proof. intros A B Rel l1 l2 H; induction H; cbn; congruence. Qed.

(* ------------------------------------------------------------------ maxima respect == *)
Lemma qmax_from_veq : forall l l' x x', x == x' -> veq l l' -> qmax_from x l == qmax_from x' l'.
Proof.
  intros l l' x x' Ex H. revert x x' Ex. induction H as [|y y' l l' Ey H IH]; intros x x' Ex; cbn [qmax_from]; [exact Ex|].
  apply IH. destruct (Q.max_spec x y) as [[? ->]|[? ->]]; destruct (Q.max_spec x' y') as [[? ->]|[? ->]]; lra.
Qed.

Lemma maxl_veq : forall l l', veq l l' -> maxl l == maxl l'.
Proof. intros l l' H. destruct H as [|x y l l' E H]; cbn [maxl]; [reflexivity| apply qmax_from_veq; assumption]. Qed.

Lemma argmax_from_veq : forall l l' bi bx bx' i, bx == bx' -> veq l l' ->
  fst (argmax_from bi bx i l) = fst (argmax_from bi bx' i l') /\
  snd (argmax_from bi bx i l) == snd (argmax_from bi bx' i l').
Proof.
  intros l l' bi bx bx' i Ex H. revert bi bx bx' i Ex.
  induction H as [|y y' l l' Ey H IH]; intros bi bx bx' i Ex; cbn [argmax_from].
  - cbn [fst snd]. split; [reflexivity| exact Ex].
  - destruct (Qlt_le_dec bx y) as [H1|H1]; destruct (Qlt_le_dec bx' y') as [H2|H2]; try (exfalso; lra).
    + apply IH; exact Ey.
    + apply IH; exact Ex.
Qed.

Lemma argmax_veq : forall l l', veq l l' ->
  fst (argmax l) = fst (argmax l') /\ snd (argmax l) == snd (argmax l').
Proof.
  intros l l' H. destruct H as [|x y l l' E H]; cbn [argmax].
  - split; reflexivity.
  - apply argmax_from_veq; assumption.
Qed.

Lemma argmax_snd_maxl : forall l, l <> [] -> snd (argmax l) == maxl l.
Proof.
  intros l Hne. pose proof (argmax_spec l Hne) as Hs. destruct (argmax l) as [j mx].
  destruct Hs as (_ & E & _). exact E.
Qed.

(* first-index tie-break: everything before the returned index is strictly smaller *)
Lemma argmax_from_first : forall l bi bx i, (bi < i)%nat ->
  let '(j, mx) := argmax_from bi bx i l in
  (j <> bi -> bx < mx) /\ (forall k, (i + k < j)%nat -> (k < length l)%nat -> nth k l 0 < mx).
Proof.
  induction l as [|y l IH]; intros bi bx i Hbi; cbn [argmax_from].
  - split; [congruence| intros k _ Hk; cbn in Hk; lia].
  - destruct (Qlt_le_dec bx y) as [Hlt|Hge].
    + pose proof (argmax_from_spec l i y (S i)) as Hs. specialize (IH i y (S i) (Nat.lt_succ_diag_r i)).
      destruct (argmax_from i y (S i) l) as [j mx]. destruct Hs as (_ & Hym & _). destruct IH as [I1 I2]. split.
      * intros _. lra.
      * intros k Hk Hlen. destruct k as [|k]; cbn [nth].
        -- apply I1. lia.
        -- apply I2; [lia| cbn in Hlen; lia].
    + specialize (IH bi bx (S i) (Nat.lt_lt_succ_r _ _ Hbi)).
      destruct (argmax_from bi bx (S i) l) as [j mx]. destruct IH as [I1 I2]. split.
      * exact I1.
      * intros k Hk Hlen. destruct k as [|k]; cbn [nth].
        -- assert (j <> bi) by lia. specialize (I1 H). lra.
        -- apply I2; [lia| cbn in Hlen; lia].
Qed.

Lemma argmax_first : forall l k, (k < fst (argmax l))%nat -> nth k l 0 < snd (argmax l).
Proof.
  intros [|x l] k Hk; cbn [argmax] in *; [cbn in Hk; lia|].
  pose proof (argmax_from_first l O x 1%nat Nat.lt_0_1) as H.
  pose proof (argmax_from_spec l O x 1%nat) as Hs.
  destruct (argmax_from O x 1%nat l) as [j mx]. cbn [fst snd] in *. destruct H as [H1 H2].
  destruct Hs as (_ & _ & [[Hj _]|[Hr _]]); [lia|].
  destruct k as [|k]; cbn [nth].
  - apply H1. lia.
  - apply H2; lia.
Qed.

(* ------------------------------------------------------------------ sums *)
Lemma accum_qsum : forall f n init, accum init f n == init + qsum (map f (seq 0 n)).
Proof.
  intros f n init. unfold accum. generalize (seq 0 n). intros l. revert init.
  induction l as [|x l IH]; intros init; cbn [fold_left map qsum]; [lra|].
  rewrite IH. lra.
Qed.

Lemma nthq_nil : forall i, nthq [] i == 0.
Proof. intros [|i]; reflexivity. Qed.

Lemma qsum_map_zero : forall (A : Type) (f : A -> Q) l, (forall x, In x l -> f x == 0) -> qsum (map f l) == 0.
Proof.
  induction l as [|x l IH]; intros H; cbn [map qsum]; [reflexivity|].
  rewrite (H x (or_introl eq_refl)), IH; [lra|]. intros y Hy; apply H; right; exact Hy.
Qed.

(* a dot product is the index sum over the length of its left argument *)
Lemma dot_nth_sum : forall p v, dot p v == qsum (map (fun i => nthq p i * nthq v i) (seq 0 (length p))).
Proof.
  induction p as [|x p IH]; intros v; cbn [length seq map qsum]; [destruct v; reflexivity|].
  rewrite <- seq_shift, map_map.
  destruct v as [|y v].
  - cbn [dot]. rewrite qsum_map_zero; [unfold nthq; cbn [nth]; lra|].
    intros i _. rewrite nthq_nil. lra.
  - cbn [dot]. rewrite (IH v). unfold nthq. cbn [nth]. reflexivity.
Qed.

Lemma qsum_nth : forall p, qsum (map (nthq p) (seq 0 (length p))) == qsum p.
Proof.
  induction p as [|x p IH]; cbn [length seq map qsum]; [reflexivity|].
  rewrite <- seq_shift, map_map. unfold nthq at 1. cbn [nth].
  assert (E : qsum (map (fun i => nthq (x :: p) (S i)) (seq 0 (length p))) == qsum (map (nthq p) (seq 0 (length p)))).
  { apply qsum_map_ext. intros i _. reflexivity. }
  rewrite E, IH. reflexivity.
Qed.

Lemma nthq_vscale : forall c v i, nthq (vscale c v) i == c * nthq v i.
Proof.
  intros c. induction v as [|x v IH]; intros i; unfold nthq, vscale in *.
  - destruct i; cbn [map nth]; lra.
  - destruct i; cbn [map nth]; [reflexivity| apply IH].
Qed.

Lemma vscale_veq : forall c v w, veq v w -> veq (vscale c v) (vscale c w).
Proof. intros c v w H. unfold vscale. induction H as [|x y v w E H IH]; cbn [map]; constructor; [rewrite E; reflexivity| exact IH]. Qed.

Lemma vscale_length : forall c v, length (vscale c v) = length v.
Proof. intros; unfold vscale; apply map_length. Qed.

Lemma q_of_veq : forall m v w s a, veq v w -> q_of m v s a == q_of m w s a.
Proof. intros m v w s a E. unfold q_of. rewrite (dot_veq_r _ v w E). reflexivity. Qed.

(* ------------------------------------------------------------------ tables *)
Lemma mtab_length : forall S A f, length (mtab S A f) = S.
Proof. intros; unfold mtab; rewrite map_length, seq_length; reflexivity. Qed.

Lemma mtab_row : forall S A f s, (s < S)%nat -> row (mtab S A f) s = map (fun a => Qred (f s a)) (seq 0 A).
Proof. intros S A f s Hs. unfold row, mtab. apply nth_map_seq; exact Hs. Qed.

Lemma mtab_get : forall S A f s a, (s < S)%nat -> (a < A)%nat -> mget (mtab S A f) s a == f s a.
Proof.
  intros S A f s a Hs Ha. unfold mget. rewrite mtab_row by exact Hs. unfold nthq.
  rewrite nth_map_seq by exact Ha. apply Qred_correct.
Qed.

(* [q] is an S x A table whose entries are (==) F s a *)
Definition mat_is (q : mat) (S A : nat) (F : nat -> nat -> Q) : Prop :=
  length q = S /\ forall s, (s < S)%nat -> length (row q s) = A /\ forall a, (a < A)%nat -> nthq (row q s) a == F s a.

Lemma mtab_is : forall S A f F, (forall s a, (s < S)%nat -> (a < A)%nat -> f s a == F s a) -> mat_is (mtab S A f) S A F.
Proof.
  intros S A f F H. split; [apply mtab_length|]. intros s Hs. split.
  - rewrite mtab_row by exact Hs. rewrite map_length, seq_length. reflexivity.
  - intros a Ha. rewrite <- (H s a Hs Ha). apply (mtab_get S A f s a Hs Ha).
Qed.

Lemma mat_is_row_veq : forall q S A F s, mat_is q S A F -> (s < S)%nat -> veq (row q s) (map (F s) (seq 0 A)).
Proof.
  intros q S A F s [Hl H] Hs. destruct (H s Hs) as [Hr He].
  apply (Forall2_nth_intro _ _ Qeq 0 0).
  - rewrite map_length, seq_length. exact Hr.
  - intros a Ha. rewrite Hr in Ha. rewrite nth_map_seq by exact Ha. apply He; exact Ha.
Qed.

Lemma mat_is_meq : forall q1 q2 S A F G, mat_is q1 S A F -> mat_is q2 S A G ->
  (forall s a, (s < S)%nat -> (a < A)%nat -> F s a == G s a) -> meq q1 q2.
Proof.
  intros q1 q2 S A F G H1 H2 HFG. unfold meq.
  apply (Forall2_nth_intro _ _ veq [] []).
  - destruct H1 as [L1 _], H2 as [L2 _]. congruence.
  - intros s Hs. destruct H1 as [L1 H1']. rewrite L1 in Hs.
    eapply veq_trans; [apply (mat_is_row_veq q1 S A F s (conj L1 H1') Hs)|].
    eapply veq_trans; [| apply veq_sym; apply (mat_is_row_veq q2 S A G s H2 Hs)].
    apply Forall2_map_in. intros a Ha. apply in_seq in Ha. apply HFG; [exact Hs| lia].
Qed.

(* ------------------------------------------------------------------ bellman *)
Lemma bellman_nth : forall q s,
  nthq (fst (bellman q)) s = snd (argmax (row q s)) /\ nth s (snd (bellman q)) O = fst (argmax (row q s)).
Proof.
  intros q s. unfold bellman, nthq, row. cbn [fst snd]. split.
  - change 0 with (snd (argmax [])) at 1. apply (map_nth (fun r => snd (argmax r))).
  - change O with (fst (argmax [])) at 1. apply (map_nth (fun r => fst (argmax r))).
Qed.

Lemma bellman_lengths : forall q, length (fst (bellman q)) = length q /\ length (snd (bellman q)) = length q.
Proof. intros q; unfold bellman; cbn [fst snd]; rewrite !map_length; split; reflexivity. Qed.

(* values = row maxima, actions = first maximiser *)
Lemma bellman_spec : forall q s, row q s <> [] ->
  (nth s (snd (bellman q)) O < length (row q s))%nat /\
  nthq (fst (bellman q)) s == maxl (row q s) /\
  nthq (row q s) (nth s (snd (bellman q)) O) == nthq (fst (bellman q)) s /\
  (forall a, (a < nth s (snd (bellman q)) O)%nat -> nthq (row q s) a < nthq (fst (bellman q)) s).
Proof.
  intros q s Hne. destruct (bellman_nth q s) as [-> ->].
  pose proof (argmax_spec (row q s) Hne) as Hs. pose proof (argmax_first (row q s)) as Hf.
  destruct (argmax (row q s)) as [j mx]. cbn [fst snd] in *. destruct Hs as (Hj & Em & En).
  repeat split; try assumption.
  - unfold nthq. symmetry. exact En.
Qed.

Lemma bellman_meq : forall q1 q2, meq q1 q2 ->
  veq (fst (bellman q1)) (fst (bellman q2)) /\ snd (bellman q1) = snd (bellman q2).
Proof.
  intros q1 q2 H. unfold bellman. cbn [fst snd].
  induction H as [|r1 r2 q1 q2 Hr H [IH1 IH2]]; cbn [map]; [split; [constructor| reflexivity]|].
  destruct (argmax_veq r1 r2 Hr) as [E1 E2]. split.
  - constructor; assumption.
  - rewrite E1, IH2. reflexivity.
Qed.

Lemma bellman_values : forall q S A F, (0 < A)%nat -> mat_is q S A F ->
  veq (fst (bellman q)) (map (fun s => maxl (map (F s) (seq 0 A))) (seq 0 S)).
Proof.
  intros q S A F HA Hq. pose proof Hq as [Hl Hrows].
  apply (Forall2_nth_intro _ _ Qeq 0 0).
  - rewrite (proj1 (bellman_lengths q)), map_length, seq_length. exact Hl.
  - intros s Hs. rewrite (proj1 (bellman_lengths q)), Hl in Hs.
    rewrite nth_map_seq by exact Hs. destruct (bellman_nth q s) as [E _]. unfold nthq in E. rewrite E.
    assert (Hne : row q s <> []).
    { destruct (Hrows s Hs) as [Hr _]. destruct (row q s); [cbn in Hr; lia| discriminate]. }
    rewrite (argmax_snd_maxl _ Hne). apply maxl_veq. apply (mat_is_row_veq q S A F s Hq Hs).
Qed.

(* ------------------------------------------------------------------ abstract Q computation *)
Definition cq_ok (m : mdp) (cq : vec -> mat) : Prop :=
  forall v, mat_is (cq (vscale (gam m) v)) (nS m) (nA m) (q_of m v).

(* Eigen branch: no hypothesis on m at all *)
Lemma compute_q_ok : forall m, cq_ok m (compute_q m (imm_rewards m)).
Proof.
  intros m v. unfold compute_q, imm_rewards. apply mtab_is. intros s a Hs Ha.
  unfold q_of, mget. rewrite dot_scale_r. reflexivity.
Qed.

Lemma trow_dense_of_g : forall g s a, (s < gS g)%nat -> (a < gA g)%nat ->
  trow (dense_of_g g) s a = map (fun s1 => gP g s a s1) (seq 0 (gS g)).
Proof.
  intros g s a Hs Ha. unfold trow, dense_of_g, row. cbn [P].
  rewrite nth_map_seq by exact Ha. rewrite nth_map_seq by exact Hs. reflexivity.
Qed.

Lemma dot_map_seq : forall (f : nat -> Q) n v,
  dot (map f (seq 0 n)) v == qsum (map (fun i => f i * nthq v i) (seq 0 n)).
Proof.
  intros f n v. rewrite dot_nth_sum. rewrite map_length, seq_length.
  apply qsum_map_ext. intros i Hi. apply in_seq in Hi. unfold nthq at 1. rewrite nth_map_seq by lia. reflexivity.
Qed.

(* probability-query branch computes the look-ahead of the table model built from the same queries *)
Lemma compute_q_g_ok : forall g, cq_ok (dense_of_g g) (compute_q_g g (imm_rewards_g g)).
Proof.
  intros g v. unfold compute_q_g. change (nS (dense_of_g g)) with (gS g). change (nA (dense_of_g g)) with (gA g).
  apply mtab_is. intros s a Hs Ha.
  rewrite accum_qsum. unfold imm_rewards_g. rewrite (mtab_get _ _ _ s a Hs Ha). rewrite accum_qsum.
  unfold q_of. rewrite (trow_dense_of_g g s a Hs Ha). change (gam (dense_of_g g)) with (ggam g).
  change (row (R (dense_of_g g)) s) with (row (mtab (gS g) (gA g) (fun s a => accum 0 (fun s1 => gR g s a s1 * gP g s a s1) (gS g))) s).
  fold (mget (mtab (gS g) (gA g) (fun s a => accum 0 (fun s1 => gR g s a s1 * gP g s a s1) (gS g))) s a).
  rewrite (mtab_get _ _ _ s a Hs Ha). rewrite accum_qsum. rewrite dot_map_seq.
  assert (E1 : qsum (map (fun s1 => gP g s a s1 * gR g s a s1) (seq 0 (gS g))) ==
               qsum (map (fun s1 => gR g s a s1 * gP g s a s1) (seq 0 (gS g)))).
  { apply qsum_map_ext. intros i _. lra. }
  assert (E2 : qsum (map (fun s1 => gP g s a s1 * nthq (vscale (ggam g) v) s1) (seq 0 (gS g))) ==
               ggam g * qsum (map (fun i => gP g s a i * nthq v i) (seq 0 (gS g)))).
  { rewrite <- qsum_map_scale. rewrite map_map. apply qsum_map_ext. intros i _. rewrite nthq_vscale. lra. }
  rewrite E1, E2. lra.
Qed.

(* a well-formed table model queried through the probability interface only *)
Lemma compute_q_g_of_mdp_ok : forall m, wf_mdp m -> cq_ok m (compute_q_g (g_of_mdp m) (imm_rewards_g (g_of_mdp m))).
Proof.
  intros m Hwf v. unfold compute_q_g. change (gS (g_of_mdp m)) with (nS m). change (gA (g_of_mdp m)) with (nA m).
  apply mtab_is. intros s a Hs Ha.
  rewrite accum_qsum. unfold imm_rewards_g. change (gS (g_of_mdp m)) with (nS m). change (gA (g_of_mdp m)) with (nA m).
  rewrite (mtab_get _ _ _ s a Hs Ha). rewrite accum_qsum.
  cbn [g_of_mdp gP gR ggam].
  pose proof Hwf as (_ & _ & _ & _ & _ & _ & _ & Hd & _).
  destruct (Hd a s Ha Hs) as [Hlen [_ Hsum]]. fold (trow m s a) in Hlen, Hsum.
  assert (E1 : qsum (map (fun s1 => nthq (trow m s a) s1 * nthq (row (R m) s) a) (seq 0 (nS m))) == nthq (row (R m) s) a).
  { assert (E : qsum (map (fun s1 => nthq (trow m s a) s1 * nthq (row (R m) s) a) (seq 0 (nS m))) ==
                nthq (row (R m) s) a * qsum (map (nthq (trow m s a)) (seq 0 (nS m)))).
    { rewrite <- qsum_map_scale. rewrite map_map. apply qsum_map_ext. intros i _. lra. }
    rewrite E. rewrite <- Hlen at 1. rewrite qsum_nth, Hsum. lra. }
  assert (E2 : qsum (map (fun s1 => nthq (trow m s a) s1 * nthq (vscale (gam m) v) s1) (seq 0 (nS m))) ==
               gam m * dot (trow m s a) v).
  { rewrite dot_nth_sum, Hlen. rewrite <- qsum_map_scale. rewrite map_map. apply qsum_map_ext.
    intros i _. rewrite nthq_vscale. lra. }
  unfold q_of. rewrite E1, E2. lra.
Qed.

(* ------------------------------------------------------------------ state projections *)
Definition st_var (st : vstate) : Q := fst (fst (fst st)).
Definition st_v (st : vstate) : vec := snd (fst (fst st)).
Definition st_acts (st : vstate) : list nat := snd (fst st).
Definition st_q (st : vstate) : mat := snd st.

Lemma vi_step_eq : forall cq gamma useT var v acts q,
  vi_step cq gamma useT (var, v, acts, q) =
  ((if useT then variation (fst (bellman (cq (vscale gamma v)))) v else var),
   fst (bellman (cq (vscale gamma v))), snd (bellman (cq (vscale gamma v))), cq (vscale gamma v)).
Proof. intros. reflexivity. Qed.

Section AbstractCq.
  Variable m : mdp.
  Variable cq : vec -> mat.
  Hypothesis Hcq : cq_ok m cq.
  Hypothesis HA : (0 < nA m)%nat.

  Lemma step_values : forall v, veq (fst (bellman (cq (vscale (gam m) v)))) (T_op m v).
  Proof. intros v. unfold T_op. apply bellman_values; [exact HA| apply Hcq]. Qed.

  Lemma step_length : forall v, length (fst (bellman (cq (vscale (gam m) v)))) = nS m.
  Proof. intros v. rewrite (proj1 (bellman_lengths _)). apply (proj1 (Hcq v)). Qed.

  Lemma step_row_nonempty : forall v s, (s < nS m)%nat -> row (cq (vscale (gam m) v)) s <> [].
  Proof.
    intros v s Hs. destruct (Hcq v) as [_ H]. destruct (H s Hs) as [Hr _].
    destruct (row (cq (vscale (gam m) v)) s); [cbn in Hr; lia| discriminate].
  Qed.

  (* ---------------- no tolerance: exactly n backups *)
  Lemma vi_loop_noT_snoc : forall tol n st,
    vi_loop cq (gam m) tol false (S n) st = vi_step cq (gam m) false (vi_loop cq (gam m) tol false n st).
  Proof.
    intros tol. induction n as [|n IH]; intros st.
    - cbn [vi_loop]. destruct st as [[[var v] acts] q]. reflexivity.
    - change (vi_loop cq (gam m) tol false (S (S n)) st)
        with (if vi_continue tol false st then vi_loop cq (gam m) tol false (S n) (vi_step cq (gam m) false st) else st).
      assert (Hc : vi_continue tol false st = true) by (destruct st as [[[var v] acts] q]; reflexivity).
      rewrite Hc. rewrite IH. cbn [vi_loop]. rewrite Hc. reflexivity.
  Qed.

  Lemma vi_loop_exact_inv : forall tol n st0,
    let st := vi_loop cq (gam m) tol false n st0 in
    st_var st = st_var st0 /\ veq (st_v st) (iterT m n (st_v st0)) /\
    (length (st_acts st0) = nS m -> length (st_acts st) = nS m) /\
    ((0 < n)%nat -> exists vprev, veq vprev (iterT m (n - 1) (st_v st0)) /\
                     st_q st = cq (vscale (gam m) vprev) /\ (st_v st, st_acts st) = bellman (st_q st)).
  Proof.
    intros tol. induction n as [|n IH]; intros st0.
    - cbn [vi_loop iterT]. split; [reflexivity|]. split; [apply veq_refl|]. split; [tauto| intros H; lia].
    - cbv zeta. rewrite vi_loop_noT_snoc. specialize (IH st0). cbv zeta in IH.
      destruct (vi_loop cq (gam m) tol false n st0) as [[[var v] acts] q].
      rewrite vi_step_eq. unfold st_var, st_v, st_acts, st_q in *. cbn [fst snd] in *.
      destruct IH as (Ev & Hv & _). split; [exact Ev|]. split; [| split].
      + cbn [iterT]. eapply veq_trans; [apply step_values|]. apply T_op_veq; [exact HA| exact Hv].
      + intros _. rewrite (proj2 (bellman_lengths _)). apply (proj1 (Hcq v)).
      + intros _. exists v. split; [replace (S n - 1)%nat with n by lia; exact Hv|].
        split; [reflexivity|]. symmetry. apply surjective_pairing.
  Qed.

  (* ---------------- any tolerance: the loop either did nothing or ends with a step *)
  Lemma vi_loop_cases : forall tol useT n st, length (st_v st) = nS m ->
    vi_loop cq (gam m) tol useT n st = st \/
    exists st0, length (st_v st0) = nS m /\ vi_loop cq (gam m) tol useT n st = vi_step cq (gam m) useT st0.
  Proof.
    intros tol useT. induction n as [|n IH]; intros st Hl; [left; reflexivity|].
    cbn [vi_loop]. destruct (vi_continue tol useT st); [| left; reflexivity].
    assert (Hl' : length (st_v (vi_step cq (gam m) useT st)) = nS m).
    { destruct st as [[[var v] acts] q]. rewrite vi_step_eq. unfold st_v. cbn [fst snd]. apply step_length. }
    destruct (IH _ Hl') as [E|[st0 [Hl0 E]]].
    - right. exists st. split; [exact Hl| exact E].
    - right. exists st0. split; [exact Hl0| exact E].
  Qed.

  (* what a state produced by a step (with the variation recorded) satisfies *)
  Lemma stepped_state : forall st0, wf_mdp m -> length (st_v st0) = nS m ->
    let st := vi_step cq (gam m) true st0 in
    0 <= st_var st /\ length (st_v st) = nS m /\
    residual_le m (st_v st) (gam m * st_var st) /\
    (forall s, (s < nS m)%nat ->
       maxl (row (st_q st) s) == nthq (st_v st) s /\
       (nth s (st_acts st) O < nA m)%nat /\
       nthq (row (st_q st) s) (nth s (st_acts st) O) == nthq (st_v st) s /\
       (forall a, (a < nth s (st_acts st) O)%nat -> nthq (row (st_q st) s) a < nthq (st_v st) s) /\
       (forall a, (a < nA m)%nat ->
          - (gam m * st_var st) <= nthq (row (st_q st) s) a - q_of m (st_v st) s a /\
          nthq (row (st_q st) s) a - q_of m (st_v st) s a <= gam m * st_var st)).
  Proof.
    intros [[[var0 v0] a0] q0] Hwf Hl0. cbv zeta. rewrite vi_step_eq.
    unfold st_var, st_v, st_acts, st_q in *. cbn [fst snd] in *.
    set (q1 := cq (vscale (gam m) v0)). set (v1 := fst (bellman q1)).
    assert (Hl1 : length v1 = nS m) by apply step_length.
    assert (Hvar : 0 <= variation v1 v0) by apply dist_nonneg.
    assert (Hc : close (variation v1 v0) v1 v0) by (apply dist_close; congruence).
    assert (Hv1 : veq v1 (T_op m v0)) by apply step_values.
    split; [exact Hvar|]. split; [exact Hl1|]. split.
    - unfold residual_le. apply close_sym.
      apply (close_veq_r _ _ (T_op m v0)); [| apply veq_sym; exact Hv1].
      apply T_contraction_lemma; assumption.
    - intros s Hs. pose proof (step_row_nonempty v0 s Hs) as Hne. fold q1 in Hne.
      destruct (bellman_spec q1 s Hne) as (Hlt & Emax & Eact & Hfirst).
      destruct (Hcq v0) as [_ Hrows]. fold q1 in Hrows. destruct (Hrows s Hs) as [Hrl Hent].
      split; [symmetry; exact Emax|]. split; [rewrite <- Hrl; exact Hlt|]. split; [exact Eact|]. split; [exact Hfirst|].
      intros a Ha. rewrite (Hent a Ha).
      apply (q_of_close m v0 v1 (variation v1 v0) s a Hwf Hvar Hs Ha). apply close_sym; exact Hc.
  Qed.

  (* ---------------- run level *)
  Definition run := vi_run_with (nS m) (nA m) cq (gam m).

  Lemma start_length : forall v0, length (if Nat.eqb (length v0) (nS m) then v0 else vzero (nS m)) = nS m.
  Proof.
    intros v0. destruct (Nat.eqb (length v0) (nS m)) eqn:E; [apply Nat.eqb_eq; exact E| unfold vzero; apply repeat_length].
  Qed.

  Lemma use_tolerance_zero : use_tolerance 0 = false.
  Proof. reflexivity. Qed.

  Lemma use_tolerance_big : forall tol, epsS < tol -> use_tolerance tol = true.
  Proof.
    intros tol H. unfold use_tolerance, eqSmall. destruct (Qle_bool (qabs (tol - 0)) epsS) eqn:E; [| reflexivity].
    apply Qle_bool_iff in E. apply qabs_bounds in E. exfalso. lra.
  Qed.

  Theorem run_exact : forall h v0, length v0 = nS m ->
    let st := run h 0 v0 in
    st_var st == 0 /\ veq (st_v st) (iterT m h v0) /\ length (st_acts st) = nS m /\
    ((0 < h)%nat ->
       (forall s a, (s < nS m)%nat -> (a < nA m)%nat -> nthq (row (st_q st) s) a == q_of m (iterT m (h - 1) v0) s a) /\
       (forall s, (s < nS m)%nat ->
          (nth s (st_acts st) O < nA m)%nat /\
          nthq (row (st_q st) s) (nth s (st_acts st) O) == nthq (st_v st) s /\
          maxl (row (st_q st) s) == nthq (st_v st) s /\
          (forall a, (a < nth s (st_acts st) O)%nat -> nthq (row (st_q st) s) a < nthq (st_v st) s))).
  Proof.
    intros h v0 Hl. cbv zeta. unfold run, vi_run_with. rewrite use_tolerance_zero.
    rewrite (proj2 (Nat.eqb_eq _ _) Hl).
    match goal with |- context [vi_loop ?a ?b ?c ?d ?e ?f] =>
      pose proof (vi_loop_exact_inv c e f) as H; cbv zeta in H;
      destruct (vi_loop a b c d e f) as [[[var v] acts] q] end.
    unfold st_var, st_v, st_acts, st_q in *. cbn [fst snd] in *.
    destruct H as (_ & Hv & Hal & Hq). split; [reflexivity|]. split; [exact Hv|].
    split; [apply Hal; apply repeat_length|].
    intros Hh. destruct (Hq Hh) as (vprev & Hprev & -> & Hb).
    assert (Ev : v = fst (bellman (cq (vscale (gam m) vprev)))) by (rewrite <- Hb; reflexivity).
    assert (Ea : acts = snd (bellman (cq (vscale (gam m) vprev)))) by (rewrite <- Hb; reflexivity).
    destruct (Hcq vprev) as [_ Hrows]. split.
    - intros s a Hs Ha. destruct (Hrows s Hs) as [_ Hent]. rewrite (Hent a Ha). apply q_of_veq; exact Hprev.
    - intros s Hs. destruct (Hrows s Hs) as [Hrl _].
      destruct (bellman_spec _ s (step_row_nonempty vprev s Hs)) as (Hlt & Emax & Eact & Hfirst).
      rewrite <- Ev, <- Ea in *. rewrite Hrl in Hlt.
      split; [exact Hlt|]. split; [exact Eact|]. split; [symmetry; exact Emax| exact Hfirst].
  Qed.

  (* with a tolerance in use and at least one sweep: residual <= gamma * variation, whatever stopped the loop *)
  Theorem run_residual : forall h tol v0, wf_mdp m -> epsS < tol -> (0 < h)%nat ->
    let st := run h tol v0 in
    0 <= st_var st /\ length (st_v st) = nS m /\
    residual_le m (st_v st) (gam m * st_var st) /\
    (forall s, (s < nS m)%nat ->
       maxl (row (st_q st) s) == nthq (st_v st) s /\
       (nth s (st_acts st) O < nA m)%nat /\
       nthq (row (st_q st) s) (nth s (st_acts st) O) == nthq (st_v st) s /\
       (forall a, (a < nth s (st_acts st) O)%nat -> nthq (row (st_q st) s) a < nthq (st_v st) s) /\
       (forall a, (a < nA m)%nat ->
          - (gam m * st_var st) <= nthq (row (st_q st) s) a - q_of m (st_v st) s a /\
          nthq (row (st_q st) s) a - q_of m (st_v st) s a <= gam m * st_var st)).
  Proof.
    intros h tol v0 Hwf Htol Hh. cbv zeta. unfold run, vi_run_with. rewrite (use_tolerance_big tol Htol).
    set (v1 := if Nat.eqb (length v0) (nS m) then v0 else vzero (nS m)).
    set (st_init := (tol * 2, v1, repeat O (nS m), mtab (nS m) (nA m) (fun _ _ : nat => 0))).
    assert (Hl1 : length (st_v st_init) = nS m) by (unfold st_init, st_v; cbn [fst snd]; apply start_length).
    destruct h as [|h]; [lia|].
    (* the first sweep is always performed: 2*tol > tol *)
    assert (Hc : vi_continue tol true st_init = true).
    { unfold st_init, vi_continue. cbn [negb orb]. destruct (Qle_bool (tol * 2) tol) eqn:E; [| reflexivity].
      apply Qle_bool_iff in E. unfold epsS in Htol. exfalso.
      assert (0 < tol) by (eapply Qlt_trans; [| exact Htol]; reflexivity). lra. }
    assert (Hstep : exists st0, length (st_v st0) = nS m /\
              vi_loop cq (gam m) tol true (S h) st_init = vi_step cq (gam m) true st0).
    { cbn [vi_loop]. rewrite Hc.
      assert (Hl' : length (st_v (vi_step cq (gam m) true st_init)) = nS m).
      { unfold st_init. rewrite vi_step_eq. unfold st_v. cbn [fst snd]. apply step_length. }
      destruct (vi_loop_cases tol true h _ Hl') as [E|[st0 [Hl0 E]]].
      - exists st_init. split; [exact Hl1| exact E].
      - exists st0. split; [exact Hl0| exact E]. }
    destruct Hstep as [st0 [Hl0 E]]. rewrite E.
    pose proof (stepped_state st0 Hwf Hl0) as H. cbv zeta in H.
    destruct (vi_step cq (gam m) true st0) as [[[var v] acts] q]. exact H.
  Qed.
End AbstractCq.
