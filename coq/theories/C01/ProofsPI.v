(* C01/ProofsPI.v — what a returning PolicyIteration run returns (structural part of pi_fixpoint). *)
From Coq Require Import List Arith QArith Qminmax Lqa Lia Bool.
From AIT Require Import Base.Qx Base.Mdp C01.Model C01.Spec C01.Proofs C01.ProofsVI C01.ProofsRepr.
Import ListNotations.
Local Open Scope Q_scope.

Lemma pi_loop_result : forall S A cq gamma h tol fuel iters matrix vparam n q,
  pi_loop S A cq gamma h tol fuel iters matrix vparam = Some (n, q) ->
  exists pol vp, ps_q (pe_run_with S A cq gamma pol h tol vp) = q /\
                 matrices_differ pol (greedy_matrix q) = false.
Proof.
  intros S A cq gamma h tol. induction fuel as [|fuel IH]; intros iters matrix vparam n q H; cbn [pi_loop] in H; [discriminate|].
  destruct (pe_run_with S A cq gamma matrix h tol vparam) as [[var v] q'] eqn:E.
  destruct (matrices_differ matrix (greedy_matrix q')) eqn:D.
  - apply (IH _ _ _ _ _ H).
  - inversion H; subst. exists matrix, vparam. rewrite E. split; [reflexivity| exact D].
Qed.

(* If PolicyIteration returns, the returned Q-table is the Q-table of a policy evaluation of some
   policy matrix [pol] that is unchanged (entrywise within 1e-6) by greedification with respect to that
   Q-table; and when a tolerance is in use that evaluation satisfies |v - T_pol v| <= gamma * variation. *)
Theorem pi_fixpoint_partial_lemma : forall m h tol fuel n q,
  pi_run m h tol fuel = Some (n, q) ->
  exists pol vp,
    let '(var, v, q') := pe_run m pol h tol vp in
    q' = q /\ matrices_differ pol (greedy_matrix q) = false /\
    (wf_mdp m -> wf_policy m pol -> epsS < tol -> (0 < h)%nat ->
       0 <= var /\ close (gam m * var) v (T_pi m pol v)).
Proof.
  intros m h tol fuel n q H. unfold pi_run, pi_run_with in H.
  destruct (pi_loop_result _ _ _ _ _ _ _ _ _ _ _ _ H) as (pol & vp & Hq & Hd).
  exists pol, vp. fold (pe_run m pol h tol vp) in Hq.
  pose proof (pe_residual_lemma m pol h tol vp) as Hres.
  destruct (pe_run m pol h tol vp) as [[var v] q']. unfold ps_q in Hq. cbn [snd] in Hq.
  split; [exact Hq|]. split; [exact Hd|]. intros Hwf Hpol Htol Hh. apply Hres; assumption.
Qed.
