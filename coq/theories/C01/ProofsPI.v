(* C01/ProofsPI.v — what a returning PolicyIteration run returns (structural part of pi_fixpoint). *)
From Coq Require Import List Arith QArith Qminmax Lqa Lia Bool.
From AIT Require Import Base.Qx Base.Mdp C01.Model C01.Spec C01.Proofs C01.ProofsVI C01.ProofsRepr C01.ProofsSparse.
Import ListNotations.
Local Open Scope Q_scope.

Lemma pi_loop_result : forall S A cq gamma h tol fuel iters matrix vparam n q,
  pi_loop S A cq gamma h tol fuel iters matrix vparam = Some (n, q) ->
  exists pol vp, ps_q (pe_run_with S A cq gamma pol h tol vp) = q /\
                 matrices_differ pol (greedy_matrix q) = false.
Proof.
  intros S A cq gamma h tol. induction fuel as [|fuel IH]; intros iters matrix vparam n q H; cbn [pi_loop] in H; [discriminate|].
  destruct (pe_run_with S A cq gamma matrix h tol vparam) as [[var v] q'] eqn:E.
  destruct (matrices_differ matrix (greedy_matrix q')) eqn:D.
  - apply (IH _ _ _ _ _ H).
  - inversion H; subst. exists matrix, vparam. rewrite E. split; [reflexivity| exact D].
Qed.

(* If PolicyIteration returns, the returned Q-table is the Q-table of a policy evaluation of some
   policy matrix [pol] that is unchanged (entrywise within 1e-6) by greedification with respect to that
   Q-table; and when a tolerance is in use that evaluation satisfies |v - T_pol v| <= gamma * variation. *)
Theorem pi_fixpoint_partial_lemma : forall m h tol fuel n q,
  pi_run m h tol fuel = Some (n, q) ->
  exists pol vp,
    let '(var, v, q') := pe_run m pol h tol vp in
    q' = q /\ matrices_differ pol (greedy_matrix q) = false /\
    (wf_mdp m -> wf_policy m pol -> epsS < tol -> (0 < h)%nat ->
       0 <= var /\ close (gam m * var) v (T_pi m pol v)).
Proof.
  intros m h tol fuel n q H. unfold pi_run, pi_run_with in H.
  destruct (pi_loop_result _ _ _ _ _ _ _ _ _ _ _ _ H) as (pol & vp & Hq & Hd).
  exists pol, vp. fold (pe_run m pol h tol vp) in Hq.
  pose proof (pe_residual_lemma m pol h tol vp) as Hres.
  destruct (pe_run m pol h tol vp) as [[var v] q']. unfold ps_q in Hq. cbn [snd] in Hq.
  split; [exact Hq|]. split; [exact Hd|]. intros Hwf Hpol Htol Hh. apply Hres; assumption.
Qed.

(* ================================================================== pi_fixpoint in full *)
(* Slack of one checkEqualGeneral comparison between numbers of magnitude at most Qb *)
Definition theta0 (Qb : Q) : Q := epsS + Qb * epsG.
(* |max_a Q(s,a) - sum_a pol(s,a) Q(s,a)| when pol is (within epsS) the QGreedy matrix of Q:
   two tie slacks (scan against the running maximum, then against the final one) plus epsS of weight
   on each of the A actions whose Q-value may be as far as 2*Qb below the maximum *)
Definition kappa (m : mdp) (Qb : Q) : Q :=
  2 * theta0 Qb + inject_Z (Z.of_nat (nA m)) * (2 * epsS * Qb).

Lemma qabs_le_of_bounds : forall x B, - B <= x /\ x <= B -> qabs x <= B.
Proof. intros x B H. apply qabs_bounds. exact H. Qed.

Lemma eqGeneral_bound : forall a b Qb, 0 <= Qb -> - Qb <= a /\ a <= Qb -> - Qb <= b /\ b <= Qb ->
  eqGeneral a b = true -> - theta0 Qb <= a - b /\ a - b <= theta0 Qb.
Proof.
  intros a b Qb HQ Ha Hb H. unfold eqGeneral in H. apply orb_prop in H.
  assert (HG : 0 <= Qb * epsG) by (unfold epsG; nra).
  unfold theta0. destruct H as [H|H].
  - unfold eqSmall in H. apply Qle_bool_iff in H. apply qabs_bounds in H. unfold epsS in *. split; lra.
  - apply Qle_bool_iff in H.
    assert (Hmin : Qmin (qabs a) (qabs b) * epsG <= Qb * epsG).
    { pose proof (Q.le_min_l (qabs a) (qabs b)). pose proof (qabs_le_of_bounds a Qb Ha). unfold epsG. nra. }
    assert (H' : qabs (a - b) <= Qb * epsG) by lra. apply qabs_bounds in H'. unfold epsS. split; lra.
Qed.

Lemma theta0_nonneg : forall Qb, 0 <= Qb -> 0 <= theta0 Qb.
Proof. intros Qb H. unfold theta0, epsS, epsG. nra. Qed.

Lemma greedy_scan_spec : forall Qb l mx0 c0, 0 <= Qb ->
  (forall x, In x l -> - Qb <= x /\ x <= Qb) -> - Qb <= mx0 /\ mx0 <= Qb ->
  let '(mx, c) := greedy_scan mx0 c0 l in
  mx0 <= mx /\ (- Qb <= mx /\ mx <= Qb) /\ forall x, In x l -> x <= mx + theta0 Qb.
Proof.
  intros Qb l. induction l as [|val l IH]; intros mx0 c0 HQ Hl Hm; cbn [greedy_scan].
  - split; [lra|]. split; [exact Hm| intros x []].
  - pose proof (theta0_nonneg Qb HQ) as Ht.
    assert (Hval : - Qb <= val /\ val <= Qb) by (apply Hl; left; reflexivity).
    assert (Hl' : forall x, In x l -> - Qb <= x /\ x <= Qb) by (intros x Hx; apply Hl; right; exact Hx).
    destruct (eqGeneral val mx0) eqn:E.
    + specialize (IH mx0 (S c0) HQ Hl' Hm). destruct (greedy_scan mx0 (S c0) l) as [mx c].
      destruct IH as (I1 & I2 & I3). split; [exact I1|]. split; [exact I2|].
      intros x [<-|Hx]; [| apply I3; exact Hx].
      destruct (eqGeneral_bound val mx0 Qb HQ Hval Hm E). lra.
    + destruct (Qlt_le_dec mx0 val) as [Hlt|Hge].
      * specialize (IH val 1%nat HQ Hl' Hval). destruct (greedy_scan val 1%nat l) as [mx c].
        destruct IH as (I1 & I2 & I3). split; [lra|]. split; [exact I2|].
        intros x [<-|Hx]; [lra| apply I3; exact Hx].
      * specialize (IH mx0 c0 HQ Hl' Hm). destruct (greedy_scan mx0 c0 l) as [mx c].
        destruct IH as (I1 & I2 & I3). split; [exact I1|]. split; [exact I2|].
        intros x [<-|Hx]; [lra| apply I3; exact Hx].
Qed.

(* entries of a greedy row: zero unless checkEqualGeneral to a value mx with  maxl r <= mx + theta0 *)
Lemma greedy_row_spec : forall Qb r, 0 <= Qb -> r <> [] ->
  (forall x, In x r -> - Qb <= x /\ x <= Qb) ->
  length (greedy_row r) = length r /\
  exists mx c, (- Qb <= mx /\ mx <= Qb) /\ maxl r <= mx + theta0 Qb /\
    forall a, (a < length r)%nat ->
      nthq (greedy_row r) a = if eqGeneral (nthq r a) mx then c else 0.
Proof.
  intros Qb [|x t] HQ Hne Hb; [congruence|]. unfold greedy_row.
  pose proof (greedy_scan_spec Qb t x 1%nat HQ (fun y Hy => Hb y (or_intror Hy)) (Hb x (or_introl eq_refl))) as H.
  destruct (greedy_scan x 1%nat t) as [mx c]. destruct H as (H1 & H2 & H3).
  pose proof (theta0_nonneg Qb HQ) as Ht.
  split; [apply map_length|]. exists mx, (inv_count c). split; [exact H2|]. split.
  - apply maxl_le; [discriminate|]. intros y [<-|Hy]; [lra| apply H3; exact Hy].
  - intros a Ha. unfold nthq.
    rewrite (nth_indep _ 0 ((fun v => if eqGeneral v mx then inv_count c else 0) 0)) by (rewrite map_length; exact Ha).
    rewrite (map_nth (fun v => if eqGeneral v mx then inv_count c else 0)). reflexivity.
Qed.

Lemma qsum_const : forall c n, qsum (map (fun _ : nat => c) (seq 0 n)) == inject_Z (Z.of_nat n) * c.
Proof.
  intros c. induction n as [|n IH]; [change (inject_Z (Z.of_nat 0)) with 0; cbn [seq map qsum]; lra|].
  rewrite seq_S, map_app, qsum_app, IH. cbn [map qsum plus]. rewrite Nat2Z.inj_succ. unfold Z.succ. rewrite inject_Z_plus. change (inject_Z 1) with 1. lra.
Qed.

(* one state: greedy value vs policy value *)
Lemma greedy_value_close : forall Qb A qr pr, 0 <= Qb -> (0 < A)%nat ->
  length qr = A -> length pr = A -> (forall x, In x qr -> - Qb <= x /\ x <= Qb) -> is_dist pr ->
  (forall a, (a < A)%nat -> eqSmall (nthq pr a) (nthq (greedy_row qr) a) = true) ->
  0 <= maxl qr - dot qr pr /\
  maxl qr - dot qr pr <= 2 * theta0 Qb + inject_Z (Z.of_nat A) * (2 * epsS * Qb).
Proof.
  intros Qb A qr pr HQ HA Hlq Hlp Hb [Hnn Hsum] Heq.
  assert (Hne : qr <> []) by (destruct qr; [cbn in Hlq; lia| discriminate]).
  destruct (greedy_row_spec Qb qr HQ Hne Hb) as (_ & mx & c & Hmx & Hmax & Hent).
  pose proof (theta0_nonneg Qb HQ) as Ht.
  set (M := maxl qr) in *.
  assert (HMb : - Qb <= M /\ M <= Qb).
  { destruct (maxl_attained qr Hne) as [y [Hy Ey]]. fold M in Ey. rewrite Ey. apply Hb; exact Hy. }
  assert (Hq : forall a, (a < A)%nat -> (- Qb <= nthq qr a /\ nthq qr a <= Qb) /\ nthq qr a <= M).
  { intros a Ha. assert (Hin : In (nthq qr a) qr) by (unfold nthq; apply nth_In; lia).
    split; [apply Hb; exact Hin| apply maxl_ub; exact Hin]. }
  assert (Hp : forall a, (a < A)%nat -> 0 <= nthq pr a).
  { intros a Ha. unfold nonneg in Hnn. rewrite Forall_forall in Hnn. apply Hnn. unfold nthq. apply nth_In. lia. }
  (* dot and sum in index form *)
  assert (Edot : dot qr pr == qsum (map (fun a => nthq qr a * nthq pr a) (seq 0 A))) by (rewrite dot_nth_sum, Hlq; reflexivity).
  assert (Esum : qsum (map (nthq pr) (seq 0 A)) == 1) by (rewrite <- Hlp, qsum_nth; exact Hsum).
  assert (Ediff : M - dot qr pr == qsum (map (fun a => nthq pr a * (M - nthq qr a)) (seq 0 A))).
  { rewrite Edot.
    assert (E : qsum (map (fun a => nthq pr a * (M - nthq qr a)) (seq 0 A)) ==
                M * qsum (map (nthq pr) (seq 0 A)) - qsum (map (fun a => nthq qr a * nthq pr a) (seq 0 A))).
    { rewrite <- qsum_map_scale, map_map, <- qsum_map_sub. apply qsum_map_ext. intros a _. lra. }
    rewrite E, Esum. lra. }
  (* termwise bounds *)
  assert (Hterm : forall a, In a (seq 0 A) ->
            0 <= nthq pr a * (M - nthq qr a) /\
            nthq pr a * (M - nthq qr a) <= 2 * theta0 Qb * nthq pr a + 2 * epsS * Qb).
  { intros a Ha. apply in_seq in Ha. destruct (Hq a ltac:(lia)) as [[Hq1 Hq2] Hq3]. pose proof (Hp a ltac:(lia)) as Hpa.
    assert (HeQ : 0 <= 2 * epsS * Qb) by (unfold epsS; nra).
    split; [nra|].
    pose proof (Heq a ltac:(lia)) as He. rewrite (Hent a ltac:(lia)) in He.
    destruct (eqGeneral (nthq qr a) mx) eqn:EG.
    - (* near-maximal action *)
      destruct (eqGeneral_bound _ _ Qb HQ (conj Hq1 Hq2) Hmx EG) as [L U].
      assert (M - nthq qr a <= 2 * theta0 Qb) by lra. nra.
    - (* weight at most epsS *)
      unfold eqSmall in He. apply Qle_bool_iff in He. apply qabs_bounds in He.
      assert (nthq pr a <= epsS) by lra. assert (M - nthq qr a <= 2 * Qb) by lra.
      assert (0 <= 2 * theta0 Qb * nthq pr a) by nra. unfold epsS in *. nra. }
  rewrite Ediff. split.
  - assert (H0 : qsum (map (fun _ : nat => 0) (seq 0 A)) <= qsum (map (fun a => nthq pr a * (M - nthq qr a)) (seq 0 A))).
    { apply qsum_map_le. intros a Ha. apply (proj1 (Hterm a Ha)). }
    rewrite qsum_const in H0. lra.
  - assert (H1 : qsum (map (fun a => nthq pr a * (M - nthq qr a)) (seq 0 A)) <=
                 qsum (map (fun a => 2 * theta0 Qb * nthq pr a + 2 * epsS * Qb) (seq 0 A))).
    { apply qsum_map_le. intros a Ha. apply (proj2 (Hterm a Ha)). }
    rewrite (qsum_map_add _ (fun a => 2 * theta0 Qb * nthq pr a) (fun _ => 2 * epsS * Qb)) in H1.
    rewrite qsum_const in H1.
    assert (E2 : qsum (map (fun a => 2 * theta0 Qb * nthq pr a) (seq 0 A)) == 2 * theta0 Qb * qsum (map (nthq pr) (seq 0 A))).
    { rewrite <- qsum_map_scale, map_map. reflexivity. }
    rewrite E2, Esum in H1. lra.
Qed.

(* ------------------------------------------------------------------ matrices *)
Definition dims (S A : nat) (q : mat) : Prop := length q = S /\ forall s, (s < S)%nat -> length (row q s) = A.

Lemma mat_is_dims : forall q S A F, mat_is q S A F -> dims S A q.
Proof. intros q S A F [Hl H]. split; [exact Hl|]. intros s Hs. apply (proj1 (H s Hs)). Qed.

Lemma greedy_row_length : forall r, length (greedy_row r) = length r.
Proof. intros [|x t]; [reflexivity|]. unfold greedy_row. destruct (greedy_scan x 1%nat t). apply map_length. Qed.

Lemma greedy_matrix_row : forall q s, row (greedy_matrix q) s = greedy_row (row q s).
Proof. intros q s. unfold row, greedy_matrix. exact (map_nth greedy_row q [] s). Qed.

Lemma greedy_matrix_dims : forall S A q, dims S A q -> dims S A (greedy_matrix q).
Proof.
  intros S A q [Hl H]. split; [unfold greedy_matrix; rewrite map_length; exact Hl|].
  intros s Hs. rewrite greedy_matrix_row, greedy_row_length. apply H; exact Hs.
Qed.

Lemma matrices_differ_false_nth : forall m1 m2 S A s a, dims S A m1 -> dims S A m2 ->
  matrices_differ m1 m2 = false -> (s < S)%nat -> (a < A)%nat ->
  eqSmall (nthq (row m1 s) a) (nthq (row m2 s) a) = true.
Proof.
  intros m1 m2 S A s a [L1 R1] [L2 R2] H Hs Ha. unfold matrices_differ in H.
  assert (Hlen : (s < length (combine m1 m2))%nat) by (rewrite combine_length, L1, L2, Nat.min_id; exact Hs).
  pose proof (existsb_nth _ (combine m1 m2) ([], []) Hlen H) as H1. cbv beta in H1.
  rewrite combine_nth in H1 by (exact (eq_trans L1 (eq_sym L2))). cbn [fst snd] in H1.
  fold (row m1 s) in H1. fold (row m2 s) in H1.
  assert (Hlen2 : (a < length (combine (row m1 s) (row m2 s)))%nat)
    by (rewrite combine_length, (R1 s Hs), (R2 s Hs), Nat.min_id; exact Ha).
  pose proof (existsb_nth _ (combine (row m1 s) (row m2 s)) (0, 0) Hlen2 H1) as H2. cbv beta in H2.
  rewrite combine_nth in H2 by (exact (eq_trans (R1 s Hs) (eq_sym (R2 s Hs)))). cbn [fst snd] in H2.
  apply negb_false_iff in H2. exact H2.
Qed.

(* ------------------------------------------------------------------ last sweep of an evaluation *)
Lemma ps_q_wrap : forall (X : pstate) (f : Q -> Q), ps_q (let '(var, v, q) := X in (f var, v, q)) = ps_q X.
Proof. intros [[var v] q] f. reflexivity. Qed.

Section PEFacts.
  Variable m : mdp.
  Variable cq : vec -> mat.
  Hypothesis Hcq : cq_ok m cq.
  Variable pol : mat.

  Lemma pe_run_q_dims : forall h tol v0, dims (nS m) (nA m) (ps_q (pe_run_with (nS m) (nA m) cq (gam m) pol h tol v0)).
  Proof.
    intros h tol v0. unfold pe_run_with.
    set (st_init := (tol * 2, (if Nat.eqb (length v0) (nS m) then v0 else vzero (nS m)), mtab (nS m) (nA m) (fun _ _ : nat => 0))).
    assert (Hl : length (ps_v st_init) = nS m) by (unfold st_init, ps_v; cbn [fst snd]; apply start_length).
    rewrite (ps_q_wrap _ (fun var => if use_tolerance tol then var else 0)).
    destruct (pe_loop_cases m cq pol tol (use_tolerance tol) h st_init Hl) as [E|[[[var0 w0] q0] [_ E]]]; rewrite E.
    - unfold st_init, ps_q. cbn [snd]. apply (mat_is_dims _ _ _ (fun _ _ => 0)). apply mtab_is. intros; reflexivity.
    - rewrite pe_step_eq. unfold ps_q. cbn [snd]. apply (mat_is_dims _ _ _ _ (Hcq w0)).
  Qed.

  Lemma pe_run_last_step : forall h tol v0, epsS < tol -> (0 < h)%nat ->
    exists var0 w0 q0, length w0 = nS m /\
      pe_run_with (nS m) (nA m) cq (gam m) pol h tol v0 = pe_step (nS m) cq (gam m) true pol (var0, w0, q0).
  Proof.
    intros h tol v0 Htol Hh. unfold pe_run_with. rewrite (use_tolerance_big tol Htol).
    set (v1 := if Nat.eqb (length v0) (nS m) then v0 else vzero (nS m)).
    set (st_init := (tol * 2, v1, mtab (nS m) (nA m) (fun _ _ : nat => 0))).
    assert (Hl1 : length (ps_v st_init) = nS m) by (unfold st_init, ps_v; cbn [fst snd]; apply start_length).
    destruct h as [|h]; [lia|].
    assert (Hc : pe_continue tol true st_init = true).
    { unfold st_init, pe_continue. cbn [negb orb]. destruct (Qle_bool (tol * 2) tol) eqn:E; [| reflexivity].
      apply Qle_bool_iff in E. unfold epsS in Htol. exfalso.
      assert (0 < tol) by (eapply Qlt_trans; [| exact Htol]; reflexivity). lra. }
    assert (Hstep : exists st0, length (ps_v st0) = nS m /\
              pe_loop (nS m) cq (gam m) tol true pol (S h) st_init = pe_step (nS m) cq (gam m) true pol st0).
    { cbn [pe_loop]. rewrite Hc.
      assert (Hl' : length (ps_v (pe_step (nS m) cq (gam m) true pol st_init)) = nS m).
      { unfold st_init. rewrite pe_step_eq. unfold ps_v. cbn [fst snd]. apply pe_values_length. }
      destruct (pe_loop_cases m cq pol tol true h _ Hl') as [E|[st0 [Hl0 E]]].
      - exists st_init. split; [exact Hl1| exact E].
      - exists st0. split; [exact Hl0| exact E]. }
    destruct Hstep as [[[var0 w0] q0] [Hl0 E]]. exists var0, w0, q0. split; [exact Hl0|].
    rewrite E. rewrite pe_step_eq. reflexivity.
  Qed.
End PEFacts.

(* ------------------------------------------------------------------ the outer loop *)
Lemma pi_loop_result2 : forall m cq h tol, cq_ok m cq ->
  forall fuel iters matrix vparam n q,
  (exists q0, dims (nS m) (nA m) q0 /\ matrix = greedy_matrix q0) ->
  pi_loop (nS m) (nA m) cq (gam m) h tol fuel iters matrix vparam = Some (n, q) ->
  exists q0 vp, dims (nS m) (nA m) q0 /\
    ps_q (pe_run_with (nS m) (nA m) cq (gam m) (greedy_matrix q0) h tol vp) = q /\
    matrices_differ (greedy_matrix q0) (greedy_matrix q) = false.
Proof.
  intros m cq h tol Hcq. induction fuel as [|fuel IH]; intros iters matrix vparam n q Hm H; cbn [pi_loop] in H; [discriminate|].
  pose proof (pe_run_q_dims m cq Hcq matrix h tol vparam) as Hd.
  destruct (pe_run_with (nS m) (nA m) cq (gam m) matrix h tol vparam) as [[var v] q'] eqn:E.
  unfold ps_q in Hd. cbn [snd] in Hd.
  destruct (matrices_differ matrix (greedy_matrix q')) eqn:D.
  - apply (IH _ _ _ _ _ (ex_intro _ q' (conj Hd eq_refl)) H).
  - inversion H; subst. destruct Hm as [q0 [Hq0 ->]]. exists q0, vparam. rewrite E.
    split; [exact Hq0|]. split; [reflexivity| exact D].
Qed.

(* more fuel never changes a returned answer: "returns" is a property of the run, not of the fuel *)
Lemma pi_loop_fuel_mono : forall S A cq gamma h tol fuel k iters matrix vparam r,
  pi_loop S A cq gamma h tol fuel iters matrix vparam = Some r ->
  pi_loop S A cq gamma h tol (fuel + k) iters matrix vparam = Some r.
Proof.
  intros S A cq gamma h tol. induction fuel as [|fuel IH]; intros k iters matrix vparam r H; cbn [pi_loop] in H; [discriminate|].
  cbn [plus pi_loop]. destruct (pe_run_with S A cq gamma matrix h tol vparam) as [[var v] q'].
  destruct (matrices_differ matrix (greedy_matrix q')); [apply IH; exact H| exact H].
Qed.

Theorem pi_fuel_independent_lemma : forall m h tol fuel k r,
  pi_run m h tol fuel = Some r -> pi_run m h tol (fuel + k) = Some r.
Proof. intros m h tol fuel k r H. unfold pi_run, pi_run_with in *. apply pi_loop_fuel_mono; exact H. Qed.

(* ------------------------------------------------------------------ pi_fixpoint *)
Theorem pi_fixpoint_lemma : forall m h tol fuel n q Qb, wf_mdp m -> epsS < tol -> (0 < h)%nat -> 0 <= Qb ->
  pi_run m h tol fuel = Some (n, q) ->
  (forall s a, (s < nS m)%nat -> (a < nA m)%nat -> - Qb <= nthq (row q s) a /\ nthq (row q s) a <= Qb) ->
  exists pol vp var v,
    pe_run m pol h tol vp = (var, v, q) /\ 0 <= var /\
    matrices_differ pol (greedy_matrix q) = false /\
    (wf_policy m pol -> residual_le m (fst (bellman q)) (gam m * (var + kappa m Qb))).
Proof.
  intros m h tol fuel n q Qb Hwf Htol Hh HQ Hrun Hbq.
  pose proof Hwf as (HS & HA & Hg0 & Hg1 & _).
  pose proof (compute_q_ok m) as Hcq.
  unfold pi_run, pi_run_with in Hrun.
  destruct (pi_loop_result2 m _ h tol Hcq fuel O (greedy_matrix (mtab (nS m) (nA m) (fun _ _ => 0))) [] n q) as (q0 & vp & Hq0 & Hq & Hd).
  { exists (mtab (nS m) (nA m) (fun _ _ => 0)). split; [| reflexivity].
    apply (mat_is_dims _ _ _ (fun _ _ => 0)). apply mtab_is. intros; reflexivity. }
  { exact Hrun. }
  set (pol := greedy_matrix q0) in *.
  pose proof (greedy_matrix_dims _ _ _ Hq0) as Hpd. fold pol in Hpd.
  destruct (pe_run_last_step m (compute_q m (imm_rewards m)) pol h tol vp Htol Hh) as (var0 & w0 & q0' & Hl0 & Elast).
  fold (pe_run m pol h tol vp) in Elast, Hq. rewrite pe_step_eq in Elast.
  set (q1 := compute_q m (imm_rewards m) (vscale (gam m) w0)) in *.
  set (w1 := pe_values (nS m) q1 pol) in *.
  rewrite Elast in Hq. unfold ps_q in Hq. cbn [snd] in Hq. subst q.
  exists pol, vp, (variation w1 w0), w1. split; [exact Elast|].
  assert (Hvar : 0 <= variation w1 w0) by apply dist_nonneg.
  split; [exact Hvar|]. split; [exact Hd|]. intros Hpol.
  (* dimensions of q1 *)
  pose proof (Hcq w0) as Hq1. fold q1 in Hq1. pose proof (mat_is_dims _ _ _ _ Hq1) as Hq1d.
  pose proof (greedy_matrix_dims _ _ _ Hq1d) as Hgd.
  assert (Hlw1 : length w1 = nS m) by (unfold w1; apply pe_values_length).
  set (Mv := fst (bellman q1)).
  assert (HlM : length Mv = nS m) by (unfold Mv; rewrite (proj1 (bellman_lengths q1)); apply (proj1 Hq1d)).
  assert (HMT : veq Mv (T_op m w0)) by (apply (step_values m _ Hcq HA w0)).
  (* greedy values vs policy values *)
  assert (Hkap : 0 <= kappa m Qb).
  { unfold kappa. pose proof (theta0_nonneg Qb HQ).
    assert (0 <= inject_Z (Z.of_nat (nA m))) by (unfold Qle, inject_Z; cbn; lia).
    assert (0 <= 2 * epsS * Qb) by (unfold epsS; nra). nra. }
  assert (HcM : close (kappa m Qb) Mv w1).
  { apply (Forall2_nth_intro _ _ _ 0 0); [congruence|]. intros s Hs. rewrite HlM in Hs.
    pose proof (proj2 Hq1d s Hs) as Hrl.
    assert (Hne : row q1 s <> []) by (destruct (row q1 s); [cbn in Hrl; lia| discriminate]).
    destruct (bellman_spec q1 s Hne) as (_ & EM & _ & _). fold Mv in EM. unfold nthq in EM.
    assert (Ew : nth s w1 0 = dot (row q1 s) (row pol s)) by (unfold w1, pe_values; apply nth_map_seq; exact Hs).
    rewrite EM, Ew.
    destruct (greedy_value_close Qb (nA m) (row q1 s) (row pol s) HQ HA Hrl (proj2 Hpd s Hs)) as [L U].
    - intros x Hx. destruct (In_nth _ _ 0 Hx) as [a [Ha <-]]. rewrite Hrl in Ha. apply (Hbq s a Hs Ha).
    - apply Hpol; exact Hs.
    - intros a Ha. rewrite <- greedy_matrix_row.
      apply (matrices_differ_false_nth pol (greedy_matrix q1) (nS m) (nA m) s a Hpd Hgd Hd Hs Ha).
    - unfold kappa. split; lra. }
  assert (Hcv : close (variation w1 w0) w1 w0) by (apply dist_close; congruence).
  pose proof (close_trans _ _ _ _ _ HcM Hcv) as HcMw.
  assert (Hd0 : 0 <= kappa m Qb + variation w1 w0) by lra.
  pose proof (T_contraction_lemma m _ _ _ Hwf Hd0 HcMw) as HT.
  unfold residual_le. apply close_sym.
  eapply close_weaken; [| apply (close_veq_r _ _ (T_op m w0)); [exact HT| apply veq_sym; exact HMT]].
  nra.
Qed.

(* hence PolicyIteration and ValueIteration agree within the bound implied by their tolerances *)
Theorem pi_vi_close_lemma : forall m h tol v0 vpi e_pi, wf_mdp m -> epsS < tol -> (0 < h)%nat ->
  length vpi = nS m -> residual_le m vpi e_pi ->
  let '(var, v, acts, q) := vi_run m h tol v0 in
  close ((gam m * var + e_pi) / (1 - gam m)) v vpi.
Proof.
  intros m h tol v0 vpi e_pi Hwf Htol Hh Hl Hres. pose proof Hwf as (_ & HA & _).
  pose proof (run_residual m _ (compute_q_ok m) HA h tol v0 Hwf Htol Hh) as H. cbv zeta in H.
  unfold run in H. fold (vi_run m h tol v0) in H.
  destruct (vi_run m h tol v0) as [[[var v] acts] q].
  unfold st_var, st_v in H. cbn [fst snd] in H. destruct H as (_ & Hlv & Hr & _).
  apply approx_fixpoints_close_lemma; assumption.
Qed.
