(* C01/Spec.v — what "the planners return the optimal value function" means, independently of
   the algorithms, plus the boolean checkers the driver evaluates on the implementation's outputs.
   The mathematics (q_of, T_op, dp, T_pi, dp_pi, residual_le) is shared: Base/Mdp.v. *)
From Coq Require Import List Arith QArith Qminmax Bool.
From AIT Require Import Base.Qx Base.Mdp.
Import ListNotations.
Local Open Scope Q_scope.

(* n-fold Bellman backup from an arbitrary start (dp m h = iterT m h 0) *)
Fixpoint iterT (m : mdp) (n : nat) (v : vec) : vec :=
  match n with O => v | S n' => T_op m (iterT m n' v) end.
Fixpoint iterTpi (m : mdp) (pol : mat) (n : nat) (v : vec) : vec :=
  match n with O => v | S n' => T_pi m pol (iterTpi m pol n' v) end.

(* sup-norm distance (0 on empty vectors) *)
Definition dist (v w : vec) : Q := maxl (map (fun p => qabs (fst p - snd p)) (combine v w)).

Definition meq (q1 q2 : mat) : Prop := Forall2 veq q1 q2.

(* what a planner's answer (values, Q-table, actions) must satisfy, with explicit slacks:
   e bounds the Bellman residual of the values, d the distance between the returned Q-table and
   the one-step look-ahead of the returned values / between values and the row maxima of Q;
   the actions are the first maximisers of the returned Q rows (maxCoeff tie-break). *)
Definition solution_spec (m : mdp) (v : vec) (q : mat) (acts : list nat) (e d : Q) : Prop :=
  length v = nS m /\ length q = nS m /\ length acts = nS m /\
  residual_le m v e /\
  (forall s a, (s < nS m)%nat -> (a < nA m)%nat ->
      - d <= nthq (row q s) a - q_of m v s a /\ nthq (row q s) a - q_of m v s a <= d) /\
  (forall s, (s < nS m)%nat -> length (row q s) = nA m /\
      - d <= nthq v s - maxl (row q s) /\ nthq v s - maxl (row q s) <= d) /\
  (forall s, (s < nS m)%nat -> (nth s acts O < nA m)%nat /\
      nthq (row q s) (nth s acts O) == maxl (row q s) /\
      forall a, (a < nth s acts O)%nat -> nthq (row q s) a < maxl (row q s)).

(* ------------------------------------------------------------------ boolean checkers *)
Definition inb (d x : Q) : bool := Qle_bool (- d) x && Qle_bool x d.
Definition closeb (d : Q) (v w : vec) : bool :=
  Nat.eqb (length v) (length w) && forallb (fun p => inb d (fst p - snd p)) (combine v w).
Definition residual_leb (m : mdp) (v : vec) (e : Q) : bool := closeb e v (T_op m v).

Definition check_mdp_solution (m : mdp) (v : vec) (q : mat) (acts : list nat) (e d : Q) : bool :=
  Nat.eqb (length v) (nS m) && Nat.eqb (length q) (nS m) && Nat.eqb (length acts) (nS m) &&
  residual_leb m v e &&
  forallb (fun s => forallb (fun a => inb d (nthq (row q s) a - q_of m v s a)) (seq 0 (nA m))) (seq 0 (nS m)) &&
  forallb (fun s => Nat.eqb (length (row q s)) (nA m) && inb d (nthq v s - maxl (row q s))) (seq 0 (nS m)) &&
  forallb (fun s => Nat.ltb (nth s acts O) (nA m) &&
                    Qeq_bool (nthq (row q s) (nth s acts O)) (maxl (row q s)) &&
                    forallb (fun a => negb (Qle_bool (maxl (row q s)) (nthq (row q s) a))) (seq 0 (nth s acts O)))
          (seq 0 (nS m)).

(* exact h-step values with normalised representation (fast when extracted); dp_red == dp *)
Definition T_red (m : mdp) (v : vec) : vec := map Qred (T_op m v).
Fixpoint dp_red (m : mdp) (h : nat) : vec :=
  match h with O => vzero (nS m) | S h' => T_red m (dp_red m h') end.
Definition Tpi_red (m : mdp) (pol : mat) (v : vec) : vec := map Qred (T_pi m pol v).
Fixpoint dp_pi_red (m : mdp) (pol : mat) (h : nat) : vec :=
  match h with O => vzero (nS m) | S h' => Tpi_red m pol (dp_pi_red m pol h') end.

(* n backups from an arbitrary start, normalised *)
Fixpoint iterT_red (m : mdp) (n : nat) (v : vec) : vec :=
  match n with O => v | S n' => T_red m (iterT_red m n' v) end.
Fixpoint iterTpi_red (m : mdp) (pol : mat) (n : nat) (v : vec) : vec :=
  match n with O => v | S n' => Tpi_red m pol (iterTpi_red m pol n' v) end.
Definition check_iter (m : mdp) (n : nat) (v0 v : vec) (d : Q) : bool := closeb d v (iterT_red m n v0).
Definition check_iter_pi (m : mdp) (pol : mat) (n : nat) (v0 v : vec) (d : Q) : bool :=
  closeb d v (iterTpi_red m pol n v0).

(* "the returned values are the h-step dynamic-programming values" up to d *)
Definition check_dp (m : mdp) (h : nat) (v : vec) (d : Q) : bool := closeb d v (dp_red m h).
Definition check_dp_pi (m : mdp) (pol : mat) (h : nat) (v : vec) (d : Q) : bool := closeb d v (dp_pi_red m pol h).

(* two answers with residuals e1, e2 must be within (e1+e2)/(1-gamma) of each other *)
Definition cross_bound (m : mdp) (e1 e2 : Q) : Q := (e1 + e2) / (1 - gam m).
Definition check_cross (m : mdp) (v w : vec) (e1 e2 : Q) : bool := closeb (cross_bound m e1 e2) v w.

(* policy evaluation answer: |v - T_pi v| <= e *)
Definition residual_pi_leb (m : mdp) (pol : mat) (v : vec) (e : Q) : bool := closeb e v (T_pi m pol v).

(* ------------------------------------------------------------------ linear programming *)
(* an LP over free variables given by raw data: rows (coef, rhs) meaning coef . x >= rhs,
   objective vector to minimise *)
Definition lp_feasible (nvars : nat) (rows : list (vec * Q)) (x : vec) : Prop :=
  length x = nvars /\ Forall (fun r => snd r <= dot (fst r) x) rows.
Definition lp_optimal (nvars : nat) (obj : vec) (rows : list (vec * Q)) (x : vec) : Prop :=
  lp_feasible nvars rows x /\ forall y, lp_feasible nvars rows y -> dot obj x <= dot obj y.
Definition bellman_fixpoint (m : mdp) (w : vec) : Prop := length w = nS m /\ veq w (T_op m w).
(* V >= T V entrywise *)
Definition superharmonic (m : mdp) (v : vec) : Prop :=
  length v = nS m /\ forall s a, (s < nS m)%nat -> (a < nA m)%nat -> q_of m v s a <= nthq v s.
