(* Properties_C10.v — property C10 (partial): "every public operation is usable and free of
   undefined behaviour".

   Clause 1 (every member of every class template instantiates with every admissible library type)
   is NOT a theorem: it is a compile-time tie (probe translation units, props/C10.py).
   Clause 2 (no UB under the documented preconditions) is decided here for the index / iterator
   arithmetic of the routines listed in DESIGN.md §4 C10: every access the C++ performs unchecked
   is a checked access of the model ([UB] when out of range), and the theorems say the model never
   reaches [UB] (nor runs out of fuel) on inputs satisfying the documented precondition.
   Part A: theorems about C10's own models (C10/Model.v).  Part B: corollaries re-exported from the
   checked-access models of other properties (their lemmas, imported read-only).
   Only statements, each closed by [exact <lemma>] and followed by Print Assumptions. *)
From Coq Require Import List Arith Bool QArith Sorted Lia Permutation.
From AIT Require Import C10.Model C10.Proofs C10.Proofs2 C10.Reexport.
From AIT Require Import C10.ModelEDI C10.ProofsEDI.
From AIT Require Import C10.ModelBG C10.ModelBU C10.ProofsBG C10.ProofsBU C10.ModelFG C10.ProofsFG.
From AIT Require C02.Model C02.Spec C02.ModelWitness C04.Model C04.ProofsExec C19.ModelR C19.SpecR C19.ProofsR3 C10.ModelWit C10.ProofsWit Base.Mdp.
From AIT Require C20.Model C20.Spec C20.Proofs C08.Model C08.Proofs C08.Proofs3 C18.Model C18.ProofsSafe
  C19.Model C19.Spec C19.ProofsTop C08.Spec.
Import ListNotations.
Local Open Scope nat_scope.

(* ================= Part A: C10's own models ================================================ *)

(* --- OffPolicyBase::updateTraces (swap-and-pop with the --i wrap at index 0) ---------------
   Precondition (documented): s < S, a < A; object invariant: the Q-table is S x A and every stored
   trace names a pair in range (true of traces built by updateTraces itself, by induction: the
   theorem is over whole histories; setTraces with out-of-range pairs is outside the precondition). *)
Theorem updateTraces_no_UB : forall nS nA tol ops q tr,
  q_wf nS nA q -> Forall (tr_in nS nA) tr -> Forall (op_in nS nA) ops ->
  updateTraces_history ops tol (q, tr) <> UB /\ updateTraces_history ops tol (q, tr) <> Fuel.
Proof. exact updateTraces_no_UB_lemma. Qed.
Print Assumptions updateTraces_no_UB.

(* one call: in-range result, invariant preserved *)
Theorem updateTraces_preserves_invariant : forall nS nA s a err td tol q tr,
  q_wf nS nA q -> Forall (tr_in nS nA) tr -> s < nS -> a < nA ->
  exists q' tr', updateTraces s a err td tol (q, tr) = Ok (q', tr') /\ q_wf nS nA q' /\ Forall (tr_in nS nA) tr'.
Proof. exact updateTraces_ok. Qed.
Print Assumptions updateTraces_preserves_invariant.

(* the size_t counter: --i at 0 gives SIZE_MAX, the loop's ++i brings it back to 0 *)
Theorem updateTraces_index_wrap : forall n, idx_inc (idx_dec (Ix n)) = Ix n.
Proof. exact idx_wrap. Qed.
Print Assumptions updateTraces_index_wrap.

(* --- Factored::match(PartialFactors, PartialFactors) ----------------------------------------
   Documented precondition: none beyond well-formed operands (one value per key).  The loop as it
   stands reads biggerK[i] past the end: *)
Theorem match_no_UB_refuted : exists lhs rhs, pf_wf lhs /\ pf_wf rhs /\ match_pf false lhs rhs = UB.
Proof. exact match_cur_refuted_lemma. Qed.
Print Assumptions match_no_UB_refuted.

(* repaired loop condition (fixes/C10-match-bounds.patch) *)
Theorem match_no_UB : forall lhs rhs, pf_wf lhs -> pf_wf rhs -> exists b, match_pf true lhs rhs = Ok b.
Proof. exact match_fix_no_UB_lemma. Qed.
Print Assumptions match_no_UB.

(* --- FastInformedBound: maximum of a sparse reward matrix ----------------------------------
   as it stands: UB exactly when the matrix has an implicit zero *)
Theorem fib_sparse_max_UB_iff_implicit_zero : forall rows cols buf, length buf <= rows * cols ->
  (fib_sparse_max rows cols buf = UB <-> (length buf < rows * cols \/ rows * cols = 0)).
Proof. exact fib_sparse_max_UB_iff. Qed.
Print Assumptions fib_sparse_max_UB_iff_implicit_zero.

Theorem fib_sparse_max_no_UB_refuted : exists rows cols buf,
  length buf <= rows * cols /\ fib_sparse_max rows cols buf = UB.
Proof. exact fib_sparse_max_refuted_lemma. Qed.
Print Assumptions fib_sparse_max_no_UB_refuted.

(* repaired (fixes/C03-fib-sparse-rewards.patch) *)
Theorem fib_sparse_max_no_UB : forall rows cols buf, exists m, fib_sparse_max_fix rows cols buf = Ok m.
Proof. exact fib_sparse_max_fix_ok. Qed.
Print Assumptions fib_sparse_max_no_UB.

(* --- extractDominated (Prune.hpp), index form: every range, also empty and singleton, any
   [dominates]: no access outside [begin, end), --helper never goes below begin, the returned iterator
   is inside the range, the array keeps its size.  (That the result is the pruning C12 proves things
   about is checked on every run: the driver compares this index model with C12's zone-list model.) *)
Theorem extractDominated_no_UB : forall (A : Type) (dom : A -> A -> bool) (l : list A),
  exists arr k, extractDominated_idx dom l = Ok (arr, k) /\ length arr = length l /\ k <= length l.
Proof. exact extractDominated_no_UB_lemma. Qed.
Print Assumptions extractDominated_no_UB.

(* --- extractDominatedIncremental (Prune.hpp), index form with the four-range juggling: the call of
   extractDominated on the sub-range [newBegin, end), the backwards scan of the new entries (--target),
   the backwards scan of the old ones (--old, iter_swap(target, --end), iter_swap(old, --oldEnd)) and the
   final swap loop (--newSwap, oldSwap++).  Any array, any begin <= newBegin <= end inside it (empty old
   range, empty new range, ...), any [dominates] — the documented precondition "the old range does not
   dominate itself" is NOT needed for memory safety: no UB, no fuel exhaustion, same size, and the
   returned iterators are ordered begin <= oldEnd <= mid <= end' <= end. *)
Theorem extractDominatedIncremental_no_UB : forall (A : Type) (dom : A -> A -> bool) (arr : list A) begin newBegin end0,
  begin <= newBegin -> newBegin <= end0 -> end0 <= length arr ->
  exists arr' oldEnd mid end',
    extractDominatedIncremental_idx dom arr begin newBegin end0 = Ok (arr', oldEnd, mid, end') /\
    length arr' = length arr /\ begin <= oldEnd /\ oldEnd <= mid /\ mid <= end' /\ end' <= end0.
Proof. exact extractDominatedIncremental_no_UB_lemma. Qed.
Print Assumptions extractDominatedIncremental_no_UB.

(* --- SARSOP witness / max lists (VEntry::observations; addWit, rmWit, addMax, rmMax) ----------
   Invariant of the list: v[0] = k with 1 <= k <= size (set by SARSOP where the VList is built).
   Any sequence of the four operations, any ids, any corner threshold: no UB, invariant kept. *)
Theorem witness_lists_no_UB : forall nS ops v, wl_wf v -> wrun nS ops v <> UB /\ wrun nS ops v <> Fuel.
Proof. exact witness_lists_no_UB_lemma. Qed.
Print Assumptions witness_lists_no_UB.

Theorem witness_lists_keep_invariant : forall nS ops v, wl_wf v -> exists v', wrun nS ops v = Ok v' /\ wl_wf v'.
Proof. exact wrun_ok. Qed.
Print Assumptions witness_lists_keep_invariant.

(* --- SARSOP::deltaPrune, last loop: `if (it != domIt) { rmWit(bId, *it); addWit(bId, *domIt); }`
   findBestDeltaDominated returns end when nothing delta-dominates the vector (the normal case), and
   then `*domIt` is `*end`: undefined as soon as no dominated entry sits behind `end` *)
Theorem deltaPrune_end_deref : forall (A : Type) (ddom : A -> A -> bool) (arr : list A) it,
  it < length arr -> (forall x y, ddom x y = false) -> deltaPrune_last_deref ddom arr (length arr) it = UB.
Proof. exact deltaPrune_end_deref_lemma. Qed.
Print Assumptions deltaPrune_end_deref.

Theorem deltaPrune_no_UB_refuted : exists (arr : list nat) it,
  it < length arr /\ deltaPrune_last_deref (fun _ _ => false) arr (length arr) it = UB.
Proof. exact deltaPrune_no_UB_refuted_lemma. Qed.
Print Assumptions deltaPrune_no_UB_refuted.

(* --- BeliefGenerator::operator()(maxBeliefs, list) and expandBeliefList (index arithmetic only:
   belief contents, distances, sampled observations and max_element's choice come from an arbitrary
   script).  Every initial list (also empty, also longer than maxBeliefs), every parameter setting,
   every script, every fuel: the run never reaches UB (it returns the list resized to maxBeliefs, or
   runs out of fuel); in particular --productiveBeliefs_ never happens at 0, allBeliefsSize_ - 1 and
   goodBeliefsSize_ - 1 never wrap, and the state left by the early break is never indexed again. *)
Theorem beliefGenerator_no_UB : forall (B D : Type) (b0 : B) (dinf : D) (dmin : D -> B -> B -> D)
  (P : params) (fuel max : nat) (beliefs : list B) (sc : script B),
  beliefGenerator b0 dinf dmin P fuel max beliefs sc <> UB.
Proof. exact beliefGenerator_no_UB_lemma. Qed.
Print Assumptions beliefGenerator_no_UB.

Theorem beliefGenerator_returns_max : forall (B D : Type) (b0 : B) (dinf : D) (dmin : D -> B -> B -> D)
  (P : params) (fuel max : nat) (beliefs : list B) (sc : script B),
  beliefGenerator b0 dinf dmin P fuel max beliefs sc = Fuel \/
  (exists l, beliefGenerator b0 dinf dmin P fuel max beliefs sc = Ok l /\ length l = max).
Proof. exact beliefGenerator_ok. Qed.
Print Assumptions beliefGenerator_returns_max.

Theorem expandBeliefList_no_UB : forall (B D : Type) (b0 : B) (dinf : D) (dmin : D -> B -> B -> D)
  (P : params) (sc : script B) (max first rnd : nat) (s : bgst B D),
  bg_inv B D P s -> first <= goodS s -> goodS s < max ->
  exists s' sc', expandBeliefList b0 dinf dmin P max rnd first s sc = Ok (s', sc') /\
                 (bg_inv B D P s' \/ (goodS s' >= max /\ bg_weak B D s')).
Proof. exact expandBeliefList_no_UB_lemma. Qed.
Print Assumptions expandBeliefList_no_UB.

(* --- extractBestUsefulPoints (Polytope.hpp): non-empty hyperplane range, findBestAtPoint returning an
   index inside it: both loops stay inside [pbegin, pend), bestValues[vId] is in range, the second loop
   never swaps with the `pend` placeholder; the result is a permutation and the returned iterator is
   inside the range.  With an EMPTY hyperplane range (not excluded by the documentation) the first
   examined point dereferences `begin == end` (Polytope.hpp:67). *)
Theorem extractBestUsefulPoints_no_UB : forall (Pt V : Type) (fb : Pt -> nat * V) (vlt : V -> V -> bool)
  (vlow : V -> bool) (entriesN : nat),
  entriesN > 0 -> (forall p, fst (fb p) < entriesN) ->
  forall points, exists pts k,
    extractBestUsefulPoints_idx fb vlt vlow entriesN points = Ok (pts, k) /\
    k <= length points /\ length pts = length points /\ Permutation points pts.
Proof. exact extractBestUsefulPoints_no_UB_lemma. Qed.
Print Assumptions extractBestUsefulPoints_no_UB.

Theorem extractBestUsefulPoints_empty_planes_refuted : forall (Pt V : Type) (p : Pt) (ps : list Pt)
  (fb : Pt -> nat * V) (vlt : V -> V -> bool) (vlow : V -> bool),
  extractBestUsefulPoints_idx fb vlt vlow 0 (p :: ps) = UB.
Proof. exact extractBestUsefulPoints_empty_planes_UB. Qed.
Print Assumptions extractBestUsefulPoints_empty_planes_refuted.

(* repaired (fixes/C10-extractBestUsefulPoints-empty.patch): every hyperplane range, also the empty one *)
Theorem extractBestUsefulPoints_fixed_no_UB : forall (Pt V : Type) (fb : Pt -> nat * V) (vlt : V -> V -> bool)
  (vlow : V -> bool) (entriesN : nat),
  (forall p, entriesN > 0 -> fst (fb p) < entriesN) ->
  forall points, exists pts k,
    extractBestUsefulPoints_fix fb vlt vlow entriesN points = Ok (pts, k) /\
    k <= length points /\ length pts = length points /\ Permutation points pts.
Proof. exact extractBestUsefulPoints_fix_no_UB_lemma. Qed.
Print Assumptions extractBestUsefulPoints_fixed_no_UB.

(* --- FactorGraph<FD>: getFactor / erase adjacency bookkeeping (list iterators = node identities, the
   static node pool, the neighbour merge loop + inplace_merge, erase's find/erase pairs with the assert
   compiled out).  Precondition of getFactor (Variables = PartialKeys): non-empty, strictly increasing,
   ids of existing variables; of erase: an existing variable (also an already erased one).  Any
   history: no UB, no fuel exhaustion, and the invariant [fg_inv] (every stored iterator is live,
   adjacency symmetric and sorted, identities distinct) holds afterwards. *)
Theorem factorGraph_no_UB : forall n ops, Forall (fgop_ok n) ops ->
  fg_run n ops <> UB /\ fg_run n ops <> Fuel.
Proof. exact fg_run_not_UB. Qed.
Print Assumptions factorGraph_no_UB.

Theorem factorGraph_invariant : forall n ops, Forall (fgop_ok n) ops ->
  exists st, fg_run n ops = Ok st /\ fg_inv n st.
Proof. exact fg_no_UB_lemma. Qed.
Print Assumptions factorGraph_invariant.

(* bestVariableToRemove after any admissible history, for a factor-size vector of the right length *)
Theorem factorGraph_bestVariableToRemove_no_UB : forall n ops F, Forall (fgop_ok n) ops -> length F = n ->
  exists st r, fg_run n ops = Ok st /\ fg_bestVariableToRemove st F = Ok r.
Proof. exact fg_run_best_no_UB. Qed.
Print Assumptions factorGraph_bestVariableToRemove_no_UB.

Theorem factorGraph_precondition_checker_sound : forall n o, fgop_okb n o = true -> fgop_ok n o.
Proof. exact fgop_okb_sound. Qed.
Print Assumptions factorGraph_precondition_checker_sound.

(* ================= Part B: re-exported from other properties' models ======================= *)

(* --- C20: Trie (repaired by fixes/C20-trie-size.patch, fixes/C20-trie-erase-end.patch) ------ *)
Theorem trie_history_no_UB : forall F ops, C20.Spec.history_ok F ops ->
  C20.Model.trie_history true F ops <> C20.Model.UB.
Proof. exact trie_history_no_UB_lemma. Qed.
Print Assumptions trie_history_no_UB.

Theorem trie_size_no_UB : forall F ops, C20.Spec.history_ok F ops ->
  exists t, C20.Model.trie_history true F ops = C20.Model.Ok (t, C20.Spec.spec_outs ops) /\
            C20.Model.trie_size true t <> C20.Model.UB.
Proof. exact trie_size_no_UB_lemma. Qed.
Print Assumptions trie_size_no_UB.

Theorem trie_getAllIds_no_UB : forall F ops, C20.Spec.history_ok F ops ->
  exists t, C20.Model.trie_history true F ops = C20.Model.Ok (t, C20.Spec.spec_outs ops) /\
            C20.Model.trie_getAllIds true t <> C20.Model.UB.
Proof. exact trie_getAllIds_no_UB_lemma. Qed.
Print Assumptions trie_getAllIds_no_UB.

(* the code before the fix commits: Trie({3,2}).size() / getAllIds() *)
Theorem trie_size_orig_refuted : exists F t,
  C20.Model.trie_new F = C20.Model.Ok t /\ C20.Model.trie_size false t = C20.Model.UB.
Proof. exact C20.Proofs.size_orig_refuted_lemma. Qed.
Print Assumptions trie_size_orig_refuted.

Theorem trie_getAllIds_orig_refuted : exists F t,
  C20.Model.trie_new F = C20.Model.Ok t /\ C20.Model.trie_getAllIds false t = C20.Model.UB.
Proof. exact C20.Proofs.getAllIds_orig_refuted_lemma. Qed.
Print Assumptions trie_getAllIds_orig_refuted.

Theorem applyFilters_no_UB : forall fs : list (list nat * list nat),
  fs <> [] ->
  (forall f, In f fs ->
     StronglySorted lt (fst f) /\ StronglySorted lt (snd f) /\ (forall x, In x (fst f) -> In x (snd f) -> False) /\
     (fst f <> [] \/ snd f <> [])) ->
  C20.Model.applyFilters fs <> C20.Model.AUB /\ C20.Model.applyFilters fs <> C20.Model.AFuel.
Proof. exact applyFilters_no_UB_lemma. Qed.
Print Assumptions applyFilters_no_UB.

Theorem fasterTrie_no_UB : forall F ops f, C20.Spec.ft_history_ok F ops ->
  C20.Spec.pf_okb F (C20.Spec.query_of_factors f 0) = true ->
  C20.Model.ft_history F ops <> C20.Model.UB /\
  (forall t outs, C20.Model.ft_history F ops = C20.Model.Ok (t, outs) -> C20.Model.ft_filter t f <> C20.Model.UB).
Proof. exact fasterTrie_no_UB_lemma. Qed.
Print Assumptions fasterTrie_no_UB.

(* --- C08: samplers --------------------------------------------------------------------------- *)
(* the sparse scan without an end test has no UB exactly while the draw is below the stored mass
   (that is NOT implied by "row is a probability within 1e-6": sparse_no_UB_refuted in Properties_C08) *)
Theorem sparse_sample_no_UB : forall row u, Forall (fun e => (0 <= snd e)%Q) row -> (0 <= u)%Q ->
  (u < C08.Proofs.stored_sum row)%Q -> C08.Model.sample_sparse row u <> C08.Model.UB.
Proof. exact sparse_sample_no_UB_lemma. Qed.
Print Assumptions sparse_sample_no_UB.

Theorem sparse_sample_UB_iff : forall row u, Forall (fun e => (0 <= snd e)%Q) row -> (0 <= u)%Q ->
  (C08.Model.sample_sparse row u = C08.Model.UB <-> (C08.Proofs.stored_sum row <= u)%Q).
Proof. exact C08.Proofs.sparse_UB_iff. Qed.
Print Assumptions sparse_sample_UB_iff.

(* the repaired scan (the code in /repo now) is total and in range for every draw *)
Theorem sparse_sample_fixed_in_range : forall p row u, p <> [] -> C08.Spec.sparse_of 0 p row -> (0 <= u)%Q ->
  C08.Model.sample_sparse_fix (length p) row u < length p.
Proof. exact C08.Proofs.sparse_fix_in_range_lemma. Qed.
Print Assumptions sparse_sample_fixed_in_range.

Theorem alias_sample_no_UB : forall prob alias x, (0 <= x)%Q -> (x < C08.Model.qn (length prob))%Q ->
  length alias = length prob -> Forall (fun a => a < length prob) alias ->
  exists i, C08.Model.alias_sample prob alias x = C08.Model.Ok i /\ i < length prob.
Proof. exact C08.Proofs3.alias_in_range_lemma. Qed.
Print Assumptions alias_sample_no_UB.

(* --- C18: Cassandra parser (repaired) -------------------------------------------------------- *)
Theorem cassandra_parser_no_UB : forall pomdp text,
  C18.Model.parse_text true pomdp text <> C18.Model.UB /\ C18.Model.parse_text true pomdp text <> C18.Model.NoFuel.
Proof. exact C18.ProofsSafe.parser_total_no_UB_lemma. Qed.
Print Assumptions cassandra_parser_no_UB.

(* --- C19: MCTS / POMCP return an action index in range and keep A action nodes --------------- *)
Theorem mcts_action_in_range : forall A term disc rl iters g op tr g' a tr' sts,
  0 < A -> C19.Spec.trace_ok A tr -> C19.Spec.counts_ok g /\ C19.Spec.mean_ok g /\ C19.Spec.shape_ok A g ->
  C19.Model.mcts_op (fun _ => A) term disc rl iters g op tr = (g', a, tr', sts) ->
  a < A /\ length (C19.Model.acts g') = A.
Proof. exact C19.ProofsTop.mcts_action_lemma. Qed.
Print Assumptions mcts_action_in_range.

(* --- C04: POMDP::Policy::sampleAction(id, o, h) performs only in-range accesses on a value function
   whose entries are plans (its two operator[] are unchecked in the C++) ------------------------- *)
Theorem policy_no_UB : forall (m : Base.Mdp.pomdp) (vf : list C02.Model.vlist) h id o prev cur,
  nth_error vf h = Some prev -> nth_error vf (S h) = Some cur ->
  Forall (C02.Spec.entry_is_plan m prev) cur -> id < length cur -> o < Base.Mdp.nO m ->
  exists a newId, C04.Model.policy_step vf h id o = Some (a, newId) /\ newId < length prev.
Proof. exact C04.ProofsExec.policy_step_in_range_lemma. Qed.
Print Assumptions policy_no_UB.

(* --- C19: POMCP and rPOMCP return an action index in range, keep A action nodes at the root (and
   rPOMCP keeps its tree invariants, so the next call's graph_.children[a] is in range) ---------- *)
Theorem pomcp_action_in_range : forall A term disc rl iters g op tr g' a tr' sts,
  0 < A -> C19.Spec.trace_ok A tr -> C19.Spec.counts_ok g /\ C19.Spec.mean_ok g /\ C19.Spec.shape_ok A g ->
  C19.Model.pomcp_op A term disc rl iters g op tr = (g', a, tr', sts) ->
  a < A /\ length (C19.Model.acts g') = A.
Proof. exact C19.ProofsTop.pomcp_action_lemma. Qed.
Print Assumptions pomcp_action_in_range.

Theorem rpomcp_action_in_range : forall A term disc k entropy plogp iters g op tr sb' g' a tr' sts,
  0 < A -> C19.Spec.trace_ok A tr ->
  C19.SpecR.rcounts_ok g /\ C19.SpecR.rmean_ok g /\ C19.SpecR.rshape_ok A g /\ C19.SpecR.rpart_ok g ->
  C19.ModelR.r_op A term disc k entropy plogp iters g op tr = (sb', (g', a, tr', sts)) ->
  a < A /\ length (C19.ModelR.racts g') = A /\
  (C19.SpecR.rcounts_ok g' /\ C19.SpecR.rmean_ok g' /\ C19.SpecR.rshape_ok A g' /\ C19.SpecR.rpart_ok g').
Proof. exact C19.ProofsR3.r_action_lemma. Qed.
Print Assumptions rpomcp_action_in_range.

(* --- C02: Witness agenda loop (Witness::operator(), addDefaultEntry, addVariations,
   crossSumBestAtBelief), checked-access version C10/ModelWit.v: projs[o], vObs[o] (= skip),
   projs[o][skip], projs[o][i], projs[o][0], the dereference of findBestAtPoint's result and its
   observations[0].  On the unpruned projection lists Witness builds from any non-empty previous step,
   for every oracle (= every behaviour of the witness LP), every fuel: never UB, and the result is
   exactly the one of the value-level model C02/ModelWitness.v (about which C02's envelope theorems
   are proved).  The invariant behind it is C02/ProofsWitness.v's [valid]: every link list handed to
   addVariations has one in-range index per observation. *)
Theorem witness_agenda_no_UB : forall (m : Base.Mdp.pomdp) (w : C02.Model.vlist)
  (oracle : nat -> nat -> list Base.Qx.vec -> Base.Qx.vec -> option Base.Qx.vec) (fuel t a : nat), w <> [] ->
  C10.ModelWit.wit_action_chk oracle fuel t a (Base.Mdp.nS (Base.Mdp.pm m)) (C04.Model.proj_row m w a) =
    C10.ProofsWit.lift (C02.ModelWitness.wit_action oracle fuel t a (Base.Mdp.nS (Base.Mdp.pm m)) (C04.Model.proj_row m w a)) /\
  C10.ModelWit.wit_action_chk oracle fuel t a (Base.Mdp.nS (Base.Mdp.pm m)) (C04.Model.proj_row m w a) <> UB.
Proof. exact C10.ProofsWit.witness_agenda_no_UB_lemma. Qed.
Print Assumptions witness_agenda_no_UB.

(* one addVariations call: a link list that is [valid] for the projection row keeps every index in range *)
Theorem witness_addVariations_no_UB : forall (row : list C02.Model.vlist),
  (forall o i e, nth_error (nth o row []) i = Some e -> C02.Model.obs e = [i]) ->
  forall e st, C02.ProofsWitness.valid row (C02.Model.obs e) ->
  C10.ModelWit.variations_chk row e st = Ok (C02.ModelWitness.variations row e st).
Proof. exact C10.ProofsWit.variations_chk_ok. Qed.
Print Assumptions witness_addVariations_no_UB.

(* an observation whose projection list is empty (e.g. pruned away) is outside the precondition: *)
Theorem witness_empty_projection_refuted : forall oracle fuel t a S,
  C10.ModelWit.wit_action_chk oracle fuel t a S [[]] = UB.
Proof. exact C10.ProofsWit.witness_empty_projection_UB. Qed.
Print Assumptions witness_empty_projection_refuted.

(* ================= hypotheses are satisfiable ============================================== *)
Example ex_updateTraces :
  q_wf 2 2 [[0%Q; 0%Q]; [0%Q; 0%Q]] /\ Forall (tr_in 2 2) [(0, 1, 1%Q); (1, 0, (1#4)%Q); (1, 1, (1#2)%Q)] /\
  Forall (op_in 2 2) [(0, 0, 1%Q, (1#2)%Q)] /\
  (* the first trace is cut at index 0 (the --i wrap), the last one is swapped into its place *)
  exists q', updateTraces_history [(0, 0, 1%Q, (1#2)%Q)] (3#4)%Q ([[0%Q; 0%Q]; [0%Q; 0%Q]], [(0, 1, 1%Q); (1, 0, (1#4)%Q); (1, 1, (1#2)%Q)])
             = Ok (q', [(0, 0, 1%Q)]).
Proof.
  split; [split; [reflexivity|repeat constructor]|].
  split; [repeat constructor|]. split; [repeat constructor|].
  eexists. vm_compute. reflexivity.
Qed.

Example ex_match : pf_wf ([0;2;5], [1;1;0]) /\ pf_wf ([2;7], [1;3]) /\
  match_pf true ([0;2;5], [1;1;0]) ([2;7], [1;3]) = Ok true /\ match_pf false ([0;2;5], [1;1;0]) ([2;7], [1;3]) = UB.
Proof. repeat split. Qed.

Example ex_extractDominated :
  extractDominated_idx (fun x y => y <=? x) [1; 3; 2; 3] = Ok ([3; 1; 2; 3], 1).
Proof. vm_compute. reflexivity. Qed.

Example ex_witness_lists : wl_wf [2; 0; 7; 9] /\
  wrun 2 [OAddWit 8; OAddMax 9; ORmMax 0 false; ORmWit 7; OAddWit 1] [2; 0; 7; 9] = Ok [2; 9; 8].
Proof. split; [exists 2; repeat split; cbn; lia|vm_compute; reflexivity]. Qed.

Example ex_factorGraph :
  Forall (fgop_ok 3) [FGGetFactor [0;1]; FGGetFactor [1;2]; FGErase 1; FGGetFactor [0;2]; FGErase 1] /\
  fg_run 3 [FGGetFactor [0;1]; FGGetFactor [1;2]; FGErase 1; FGGetFactor [0;2]; FGErase 1] <> UB.
Proof. split; [repeat (apply Forall_cons; [apply fgop_okb_sound; reflexivity|]); apply Forall_nil|vm_compute; discriminate]. Qed.

Example ex_extractBestUsefulPoints : exists pts k,
  extractBestUsefulPoints_idx (fun p => (Nat.modulo p 2, p)) Nat.ltb (fun _ => true) 2 [3; 1; 4; 2; 6] = Ok (pts, k) /\ k = 2.
Proof. do 2 eexists. vm_compute. split; reflexivity. Qed.

Example ex_beliefGenerator_invariant : forall (B D : Type) (P : params) (l : list B), bg_inv B D P (@init_st B D l).
Proof. exact init_inv. Qed.

Example ex_extractDominatedIncremental :
  extractDominatedIncremental_idx (fun x y => y <=? x) [5; 1; 3; 2; 7; 3] 0 2 6 = Ok ([7; 1; 5; 2; 3; 3], 0, 1, 3).
Proof. vm_compute. reflexivity. Qed.

(* a two-observation projection row (2 + 1 entries, links = own positions), one witness found by the
   oracle at the first query: the checked loop runs to the end and equals the value-level model *)
Example ex_witness_agenda :
  let row := [[C02.Model.Build_ventry [1%Q; 0%Q] 0 [0]; C02.Model.Build_ventry [0%Q; 1%Q] 0 [1]];
              [C02.Model.Build_ventry [(1#2)%Q; (1#2)%Q] 0 [0]]] in
  let oracle := fun (t a : nat) (rows : list Base.Qx.vec) (cand : Base.Qx.vec) =>
                  match rows with [] => Some [0%Q; 1%Q] | _ => None end in
  C10.ModelWit.wit_action_chk oracle 10 1 0 2 row = C10.ProofsWit.lift (C02.ModelWitness.wit_action oracle 10 1 0 2 row) /\
  exists U, C10.ModelWit.wit_action_chk oracle 10 1 0 2 row = Ok U /\ length U = 1.
Proof. split; [vm_compute; reflexivity|]. eexists. split; [vm_compute; reflexivity|reflexivity]. Qed.
