(* ml/C18/driver.ml — judge for property C18 (Cassandra-format parser).
   Case:  <kind> <mdp|pomdp> <label…> <hex text>          (text always last; "-" = empty text)
     wf   <mode> <ast…> <hex>      well-formed: AST (spec side) + one printing of it
     rej  <mode> <reason> <hex>    generator-built malformed text that must be rejected
     mut  <mode> <hex>             mutated / truncated text (no expectation: correspondence + no crash)
     ovf  <mode> <hex>             declared sizes whose tables overflow size_t
     two  <mode2> <mode1> <hex1> <hex2>   one parser object reads text1 then text2 (judged: the second result)
   Impl:  OK S A [O] disc nT T… nR R… [nW W…] | BADSHAPE … | THROW <type> | CRASH|SANITIZER|TIMEOUT …
   O (oracle) checks run before C (correspondence) comparisons. *)
open Model
open Vio

(* ---------- text <-> Coq str ---------- *)
let ascii_of_char (ch : char) : ascii =
  let n = Char.code ch in
  let b i = (n lsr i) land 1 = 1 in
  Ascii (b 0, b 1, b 2, b 3, b 4, b 5, b 6, b 7)

let str_of_string (s : string) : str = List.init (String.length s) (fun i -> ascii_of_char s.[i])

let unhex (h : string) : string =
  if h = "-" then "" else begin
    let v c = if c <= '9' then Char.code c - 48 else Char.code c - 87 in
    String.init (String.length h / 2) (fun i -> Char.chr (v h.[2 * i] * 16 + v h.[2 * i + 1]))
  end

(* ---------- values ---------- *)
let val_of_x (x : xnum) : val0 =
  match x with Fin q -> VQ (vio_qred q) | NaN -> VNaN | PInf -> VInf false | NInf -> VInf true

let string_of_val (v : val0) = match v with VQ q -> string_of_q q | VInf false -> "inf" | VInf true -> "-inf" | VNaN -> "nan"

let rec is_pow2 (p : positive) = match p with XH -> true | XO p' -> is_pow2 p' | XI _ -> false

(* the implementation's double [x] against the exact value [v] the text denotes: equal when [v]
   is a double; otherwise the nearest double (decimal -> binary rounding, 1 ulp-equivalent) *)
let val_matches (x : xnum) (v : val0) : bool =
  match x, v with
  | NaN, VNaN -> true
  | PInf, VInf false -> true
  | NInf, VInf true -> true
  | Fin a, VQ b ->
    q_eq a b ||
    ((not (is_pow2 (vio_qden (vio_qred b))) || not (q_eq (q_of_float (float_of_q b)) b)) &&
     q_close ~atol:(q_of_ints 0 1) ~rtol:(vio_qmake (z_of_int 1) (pos_pow2 51)) a b)
  | _ -> false

(* ---------- AST reader ---------- *)
let read_name c = str_of_string (unhex (next c))
let read_idx c : idx =
  let t = next c in
  if t = "*" then IStar
  else if t.[0] = '#' then INum (nat_of_int (int_of_string (String.sub t 1 (String.length t - 1))))
  else if t.[0] = '@' then IName (str_of_string (unhex (String.sub t 1 (String.length t - 1))))
  else failwith ("bad idx " ^ t)
let read_val c : val0 = val_of_x (next_x c)
let read_decl c : decl =
  match next c with
  | "N" -> DNum (next_nat c)
  | "L" -> DNames (next_list c read_name)
  | t -> failwith ("bad decl " ^ t)
let read_tbl c : tbl = match next c with "T" -> TT | "O" -> TO | t -> failwith ("bad tbl " ^ t)
let read_stmt c : stmt =
  match next c with
  | "states" -> SStates (read_decl c)
  | "actions" -> SActions (read_decl c)
  | "obs" -> SObs (read_decl c)
  | "disc" -> SDiscount (read_val c)
  | "values" -> SValues
  | "other" -> SOther
  | "e" -> let t = read_tbl c in let a = read_idx c in let s = read_idx c in let e = read_idx c in
    SEntry (t, a, s, e, read_val c)
  | "ri" -> let t = read_tbl c in let a = read_idx c in let s = read_idx c in SRowIn (t, a, s, next_list c read_val)
  | "rn" -> let t = read_tbl c in let a = read_idx c in let s = read_idx c in SRowNext (t, a, s, next_list c read_val)
  | "m" -> let t = read_tbl c in let a = read_idx c in SMat (t, a, next_list c (fun c -> next_list c read_val))
  | "rw" -> let a = read_idx c in let s = read_idx c in let e = read_idx c in SRew (a, s, e, read_val c)
  | t -> failwith ("bad stmt " ^ t)

(* ---------- implementation output ---------- *)
type impl =
  | IOk of int * int * int * xnum * xnum list * xnum list * xnum list
  | IBadShape
  | IThrow of string
  | ICrash of string

let read_impl (pomdp : bool) (r : cursor) : impl =
  match next r with
  | "OK" ->
    let s = next_int r in let a = next_int r in
    let o = if pomdp then next_int r else 0 in
    let d = next_x r in
    let t = next_list r next_x in let rw = next_list r next_x in
    let w = if pomdp then next_list r next_x else [] in
    IOk (s, a, o, d, t, rw, w)
  | "BADSHAPE" -> IBadShape
  | "THROW" -> IThrow (next r)
  | ("CRASH" | "SANITIZER" | "TIMEOUT") as k -> ICrash k
  | t -> failwith ("bad impl output " ^ t)

let flat (t : tab) : val0 list = List.concat (List.concat t)

(* first difference between the implementation's result and a model value, if any *)
let diff_model (i : int * int * int * xnum * xnum list * xnum list * xnum list) (m : model) : string option =
  let (s, a, o, d, t, rw, w) = i in
  let cmp name xs vs =
    if List.length xs <> List.length vs then Some (Printf.sprintf "%s: %d cells vs %d" name (List.length xs) (List.length vs))
    else begin
      let r = ref None in
      List.iteri (fun k (x, v) -> if !r = None && not (val_matches x v) then
                     r := Some (Printf.sprintf "%s[%d] expected %s" name k (string_of_val v))) (List.combine xs vs);
      !r
    end in
  if s <> int_of_nat m.mSn then Some "S differs"
  else if a <> int_of_nat m.mAn then Some "A differs"
  else if o <> int_of_nat m.mOn then Some "O differs"
  else if not (val_matches d m.mDisc) then Some "discount differs"
  else match cmp "T" t (flat m.mT) with
    | Some e -> Some e
    | None -> match cmp "R" rw (flat m.mR) with
      | Some e -> Some e
      | None -> cmp "W" w (flat m.mW)

let exn_name (e : exn) = match e with
  | E_incomplete -> "incomplete" | E_too_large -> "too_large" | E_bad_alloc -> "bad_alloc" | E_at -> "at"
  | E_stod -> "stod" | E_stoul -> "stoul" | E_index_high -> "index_high" | E_vec_count -> "vec_count"
  | E_row_args -> "row_args" | E_colons -> "colons" | E_discount -> "discount" | E_probability -> "probability"

(* load <mode> <ok|bad> <hex>: MDP::parseCassandra / POMDP::parseCassandra (parser + constructor validation) *)
let judge_load (c : cursor) (r : cursor) : bool * string =
  let mode = next c in
  let pomdp = (mode = "pomdp") in
  let label = next c in
  let site = if pomdp then "POMDP::parseCassandra" else "MDP::parseCassandra" in
  let text = str_of_string (unhex c.toks.(Array.length c.toks - 1)) in
  let impl = (match next r with
      | "LOK" ->
        let s = next_int r in let a = next_int r in let o = if pomdp then next_int r else 0 in
        let d = next_x r in let t = next_list r next_x in let er = next_list r next_x in
        let w = if pomdp then next_list r next_x else [] in
        `Ok (s, a, o, d, t, er, w)
      | "THROW" -> `Throw (next r)
      | ("CRASH" | "SANITIZER" | "TIMEOUT") as k -> oracle_fail "no_UB" "load" ("implementation terminated abnormally: " ^ k)
      | t -> failwith ("bad impl output " ^ t)) in
  (* O: the generator's label *)
  (match label, impl with
   | "bad", `Ok _ -> oracle_fail "incomplete_rejected" site "a text with invalid probabilities / discount was accepted"
   | "ok", `Throw ty -> oracle_fail "load_accepts_valid" site ("a valid model file was rejected with " ^ ty)
   | _ -> ());
  let m = load_model true pomdp text in
  (match m, impl with
   | Ok mm, `Ok (s, a, o, d, t, er, w) ->
     let cmp name xs vs = if List.length xs <> List.length vs then disagree "load_tables" site (name ^ ": sizes differ")
       else List.iteri (fun k (x, v) -> if not (val_matches x v) then
                           disagree "load_tables" site (Printf.sprintf "%s[%d] expected %s" name k (string_of_val v))) (List.combine xs vs) in
     if s <> int_of_nat mm.mSn || a <> int_of_nat mm.mAn || o <> int_of_nat mm.mOn then disagree "load_tables" site "sizes differ";
     if not (val_matches d mm.mDisc) then disagree "load_tables" site "discount differs";
     cmp "T" t (flat mm.mT); cmp "W" w (flat mm.mW);
     (* expected rewards sum_s' R[s][a][s'] * T[s][a][s'] *)
     let rows l = List.concat l in
     let tr = rows mm.mT and rr = rows mm.mR in
     List.iteri (fun k (x, (trow, rrow)) ->
         let fin = List.for_all (fun v -> match v with VQ _ -> true | _ -> false) rrow in
         if fin then begin
           let e = List.fold_left2 (fun acc tv rv -> match tv, rv with VQ p, VQ q -> q_add acc (q_mul p q) | _ -> acc) q_zero trow rrow in
           match x with
           | Fin xe -> if not (q_close xe e) then disagree "load_tables" site (Printf.sprintf "expected reward %d differs" k)
           | _ -> disagree "load_tables" site "expected reward not finite"
         end) (List.combine er (List.combine tr rr))
   | Throw _, `Throw _ -> ()
   | Throw e, `Ok _ -> disagree "load_accept_reject" site ("model throws " ^ exn_name e ^ ", impl accepts")
   | Ok _, `Throw ty -> disagree "load_accept_reject" site ("model accepts, impl throws " ^ ty)
   | Unsup, _ -> ()
   | _, _ -> disagree "model_UB" site "model reports UB / NoFuel");
  (match label, m with
   | "bad", Ok _ -> failwith "generator label 'bad' but the model accepts"
   | "ok", Throw e -> failwith ("generator label 'ok' but the model throws " ^ exn_name e)
   | _ -> ());
  (true, "load." ^ (match m with Ok _ -> "ok" | Throw e -> exn_name e | _ -> "other"))

let judge _id (c : cursor) (r : cursor) : bool * string =
  let kind = next c in
  if kind = "load" then judge_load c r else
  let mode = next c in
  let pomdp = (mode = "pomdp") in
  let site = if pomdp then "parsePOMDP" else "parseMDP" in
  let text_hex = c.toks.(Array.length c.toks - 1) in
  let text = str_of_string (unhex text_hex) in
  let impl = read_impl pomdp r in
  (* O: re-use of the parser object must not change the answer (reuse_independent, on the implementation) *)
  if kind = "two" then begin
    expect r "|";
    let fresh = read_impl pomdp r in
    let same = (match impl, fresh with
        | IThrow _, IThrow _ -> true
        | a, b -> a = b) in
    if not same then oracle_fail "reuse_independent" "CassandraParser" "the second text is read differently by a re-used parser object and by a fresh one"
  end;
  (* O0: no input may crash the parser *)
  (match impl with
   | ICrash k -> oracle_fail "no_UB" kind ("implementation terminated abnormally: " ^ k)
   | _ -> ());
  let cls = int_of_nat (size_class pomdp text) in
  (* O1: declared sizes that overflow size_t must be rejected *)
  if cls = 2 then begin
    match impl with
    | IThrow _ -> ()
    | _ -> oracle_fail "oversize_rejected" site "tables of S*A*S (S*A*O) elements do not fit in size_t, yet the text was accepted"
  end;
  if cls = 1 then (false, kind ^ ".huge-skipped")
  else begin
    (* O2: kind-specific expectations *)
    (match kind with
     | "wf" ->
       let prog = next_list c read_stmt in
       if not (wfb pomdp prog) then failwith "generator produced a non-wf program";
       let want = denote pomdp prog in
       (match impl with
        | IOk (s, a, o, d, t, rw, w) ->
          (match diff_model (s, a, o, d, t, rw, w) want with
           | Some e -> oracle_fail "parse_print" site ("tables differ from the denotation of the text: " ^ e)
           | None -> ())
        | IThrow ty -> oracle_fail "parse_print" site ("well-formed text rejected with " ^ ty)
        | _ -> oracle_fail "parse_print" site "well-formed text not parsed");
       (* the model's lexer must see the text as a printing of the AST (hypothesis of parse_print) *)
       if not (rendersb prog (lex_text text)) then
         disagree "lexer_renders" "tokenize" "lex_text(text) is not a rendering of the generated AST"
     | "rej" ->
       let reason = next c in
       (match impl with
        | IThrow _ -> ()
        | _ ->
          if reason = "badcount" then
            oracle_fail "wrong_length_row_rejected" "processMatrix" "row statement with a wrong number of values was accepted"
          else oracle_fail "incomplete_rejected" site ("malformed text (" ^ reason ^ ") was accepted"))
     | _ -> ());
    (* C: the (repaired) model against the implementation *)
    let m =
      if kind = "two" then begin
        (* one parser object re-used: the state-passing model, started from what text1 left behind *)
        let _mode1 = next c in
        let text1 = str_of_string (unhex c.toks.(Array.length c.toks - 2)) in
        let st0 = { stS = []; stA = []; stO = [] } in
        let m2 = parse_text_st true pomdp (state_after st0 (lex_text text1)) text in
        (* reuse_independent: it must coincide with a fresh parser's answer *)
        (match m2, parse_text true pomdp text with
         | Ok a, Ok b -> if flat a.mT <> flat b.mT || flat a.mR <> flat b.mR || flat a.mW <> flat b.mW then
             disagree "reuse_independent" site "state-passing model differs from the fresh-parser model"
         | Throw _, Throw _ | Unsup, Unsup -> ()
         | _ -> disagree "reuse_independent" site "state-passing model differs from the fresh-parser model");
        m2
      end else parse_text true pomdp text in
    (match m, impl with
     | Ok mm, IOk (s, a, o, d, t, rw, w) ->
       (match diff_model (s, a, o, d, t, rw, w) mm with
        | Some e -> disagree "parse_tables" site ("model/impl differ: " ^ e)
        | None -> ())
     | Throw _, IThrow _ -> ()
     | Throw E_row_args, IOk _ ->
       oracle_fail "wrong_length_row_rejected" "processMatrix" "row statement with a wrong number of values was accepted"
     | Throw e, IOk _ -> disagree "accept_reject" site ("model throws " ^ exn_name e ^ ", impl accepts")
     | Throw e, IBadShape -> disagree "accept_reject" site ("model throws " ^ exn_name e ^ ", impl returns inconsistent tables")
     | Ok _, IThrow ty -> disagree "accept_reject" site ("model accepts, impl throws " ^ ty)
     | Ok _, IBadShape -> disagree "accept_reject" site "model accepts, impl returns inconsistent tables"
     | UB, _ -> disagree "model_UB" site "the repaired model reports UB (contradicts parser_total_no_UB)"
     | NoFuel, _ -> disagree "model_nofuel" site "model out of fuel"
     | Unsup, _ -> ()
     | _, ICrash _ -> ());
    (match kind, m with
     | "rej", Ok _ -> failwith "generator label 'rej' but the model accepts"
     | _ -> ());
    let tag = kind ^ "." ^ (match m with Ok _ -> "ok" | Throw e -> exn_name e | Unsup -> "unsup" | _ -> "other") in
    let nontrivial = (match m with Ok mm -> List.exists (fun v -> match v with VQ q -> not (q_eq q q_zero) | _ -> true) (flat mm.mT @ flat mm.mR @ flat mm.mW)
                               | Throw E_incomplete -> false | Throw _ -> true | _ -> false) in
    (nontrivial, tag)
  end

let () = main_loop judge
