(* ml/C05/driver.ml — judge for property C05 (belief updates are exact Bayes filtering).
   O: the Coq-extracted spec (Base.Mdp.tau_step, obs_prob, predict, exp_reward3 through their reduced-fraction
      twins *_r, proved equal in Properties_C05.spec_twins; sosa_at) is evaluated
      directly on the implementation's inputs and compared with the implementation's outputs;
      non-negativity, sums, posterior clauses, two-stage and SOSA identities, agreement of the three paths.
   C: the extracted models (Eigen branch for the dense and sparse library models, query-loop branch for
      the user-defined model) are compared with the implementation.
   Regime "dy": all inputs dyadic, unnormalised quantities are compared bit for bit (Vio.q_eq / the Coq
   checkers); quotients within Vio.q_close (1e-9 abs+rel).  Regime "gen": arbitrary doubles, everything
   within q_close. *)
open Model
open Vio

let n = nat_of_int

(* Vio.q_close (|a-b| <= 1e-9 + 1e-9*max(|a|,|b|), decided exactly) behind a floating-point filter: the
   exact test costs ~0.1 ms on Coq's binary numerals and a case needs ~16000 of them.  The filter only
   answers when the double approximations are a factor 2 away from the threshold (their error is below
   1e-12 relative); anything nearer, or non-finite, is decided exactly. *)
let fclose (a : q) (b : q) : bool =
  let fa = float_of_q a and fb = float_of_q b in
  let d = Float.abs (fa -. fb) and t = 1e-9 *. (1.0 +. Float.max (Float.abs fa) (Float.abs fb)) in
  if d <= 0.5 *. t then true else if d >= 2.0 *. t then false else q_close a b
let rec range i j = if i >= j then [] else i :: range (i + 1) j

(* finite value or oracle failure *)
let fin clause site (x : xnum) : q =
  match x with Fin v -> v | _ -> oracle_fail clause site "non-finite value where a finite one is required"

let read_n c k f = List.map (fun _ -> f c) (range 0 k)
let qsum_l (l : q list) = List.fold_left q_add q_zero l
let show_x = function Fin v -> string_of_q v | NaN -> "nan" | PInf -> "inf" | NInf -> "-inf"
let show_xs l = String.concat " " (List.map show_x l)
let show_mx = function XFin v -> string_of_q v | XNaN -> "nan" | XPInf -> "inf" | XNInf -> "-inf"

type per_o = { un : xnum list; nm : xnum list; pun : xnum list; pnm : xnum list; pnv : xnum list;
               pua : xnum list; pna : xnum list }   (* aliased in/out second stage; [] when not exercised *)

(* the harness exercises the in-place second stage only on models with dense observation matrices or the
   query loop (with sparse observation matrices it already fails on the unchanged tree, see notes) *)
let alias_ok (k : string) : bool =
  not (String.length k >= 6 && String.sub k 0 6 = "sparse") && not (String.length k >= 5 && String.sub k 0 5 = "mixSD") && k <> "userCS"
type per_a = { part : xnum list; rew : xnum; os : per_o list }
type out = { sosa : xnum list list list;   (* [a][o] -> S*S row-major *)
             bels : per_a list list }      (* [belief][a] *)

let read_out ?(alias = false) r s a o nb : out =
  let sosa = read_n r a (fun r -> read_n r o (fun r -> read_n r (s * s) next_x)) in
  let bels = read_n r nb (fun r -> read_n r a (fun r ->
      let part = read_n r s next_x in
      let rew = next_x r in
      let os = read_n r o (fun r ->
          let un = read_n r s next_x in let nm = read_n r s next_x in
          let pun = read_n r s next_x in let pnm = read_n r s next_x in
          let pnv = read_n r s next_x in
          let pua = if alias then read_n r s next_x else [] in
          let pna = if alias then read_n r s next_x else [] in
          { un; nm; pun; pnm; pnv; pua; pna }) in
      { part; rew; os })) in
  { sosa; bels }

(* model variants per case kind, in the harness's output order; all but "generic" are library models
   (Eigen branch); "dense" is the reference for the paths-agree clause *)
(* dense = POMDP::Model<MDP::Model>, sparse = POMDP::SparseModel<MDP::SparseModel>,
   mixDS = POMDP::Model<MDP::SparseModel>, mixSD = POMDP::SparseModel<MDP::Model>, generic = user-defined *)
(* userEV = user-defined IsModelEigen model returning dense matrices BY VALUE,
   userCS = user-defined IsModelEigen model with COLUMN-major sparse matrices (both take the Eigen branches) *)
let kinds_bel = ["dense"; "sparse"; "mixDS"; "mixSD"; "generic"; "userEV"; "userCS"]
let kinds_reset = ["dense"; "dense-m"; "dense-c"; "sparse"; "sparse-m"; "sparse-d"; "sparse-c"; "generic"]

(* Judges one set of outputs (one "ok …"/"throw …" block per model variant in [kinds]) against the POMDP
   [m] (ground truth tables), the query model [g] (for the "generic" variant and the reward spec) and the
   observation table [tO].  Oracle first, then correspondence.  Returns (zero-probability observation seen,
   positive seen, tiny positive seen). *)
let judge_state ~(exact : bool) ~(s : int) ~(a : int) ~(o : int) ~(beliefs : q list list)
    ~(m : pomdp) ~(g : qmodel) ~(tO : q list list list) ~(kinds : string list) ~(const_seen : bool ref) (r : cursor) : bool * bool * bool =
  let nb = List.length beliefs in
  let gq = queries_of m in
  (* a variant whose construction from the (valid) supplied tables threw has no outputs; it is reported
     after the oracle has looked at the variants that could be built *)
  let thrown = ref [] in
  let outs = List.concat_map (fun k ->
      match next r with
      | "ok" -> [(k, read_out ~alias:(alias_ok k) r s a o nb)]
      | "throw" -> let e = next r in thrown := (k, e) :: !thrown; []
      | "THROW" -> oracle_fail "paths_agree" ("construct<" ^ k ^ ">") ("exception escaped the harness: " ^ next r)
      | t -> failwith ("unexpected token in implementation output: " ^ t)) kinds in
  let kinds = List.map fst outs in
  if not (List.mem "dense" kinds) then
    oracle_fail "paths_agree" "construct<dense>" "the dense model could not be built from valid tables";
  let same x y = if exact then q_eq x y else fclose x y in
  let same_l xs ys = List.length xs = List.length ys && List.for_all2 same xs ys in
  let close_l xs ys = List.length xs = List.length ys && List.for_all2 (fun x y -> fclose x y) xs ys in
  let site f k = f ^ "<" ^ k ^ ">" in
  (* in the dyadic regime the inputs must satisfy the theorems' hypothesis exactly *)
  if exact && not (wf_pomdpb m) then failwith "generator bug: dyadic case is not a well-formed POMDP";
  let sa_range = range 0 a and so_range = range 0 o and ss_range = range 0 s in
  let red = List.map vio_qred in
  let redx = List.map (function XFin v -> XFin (vio_qred v) | x -> x) in
  (* spec and model values do not depend on the model kind: evaluate the extracted functions once *)
  let memo f = let h = Hashtbl.create 64 in fun key -> (match Hashtbl.find_opt h key with Some v -> v | None -> let v = f key in Hashtbl.add h key v; v) in
  let belief bi = List.nth beliefs bi in
  let sp_tau = memo (fun (bi, ai, oi) -> tau_step_r m (belief bi) (n ai) (n oi)) in
  let sp_pr = memo (fun (bi, ai, oi) -> obs_prob_r m (belief bi) (n ai) (n oi)) in
  let sp_pred = memo (fun (bi, ai) -> predict_r m (belief bi) (n ai)) in
  let sp_rew = memo (fun (bi, ai) -> exp_reward3_r m g.qR (belief bi) (n ai)) in
  let sp_sosa = memo (fun (ai, oi) -> List.concat_map (fun si -> List.map (fun s1 -> vio_qred (sosa_at m (n ai) (n oi) (n si) (n s1))) ss_range) ss_range) in
  let md_un = memo (fun (eig, bi, ai, oi) -> red (if eig then unnormE m (belief bi) (n ai) (n oi) else unnormQ g (belief bi) (n ai) (n oi))) in
  let md_nm = memo (fun (eig, bi, ai, oi) -> redx (if eig then updateE m (belief bi) (n ai) (n oi) else updateQ g (belief bi) (n ai) (n oi))) in
  let md_part = memo (fun (eig, bi, ai) -> red (if eig then partialE m (belief bi) (n ai) else partialQ g (belief bi) (n ai))) in
  let md_rew = memo (fun (eig, bi, ai) -> vio_qred (if eig then rewE m (belief bi) (n ai) else rewQ g (belief bi) (n ai))) in
  let md_sosa = memo (fun (eig, ai, oi) -> red (List.concat (if eig then sosaE m (n ai) (n oi) else sosaQ g (n ai) (n oi)))) in
  (* ---------------------------------------------------------------- O: oracle on implementation outputs *)
  List.iter (fun (k, out) ->
      (* makeSOSA entries *)
      List.iteri (fun ai per_a -> List.iteri (fun oi ent ->
          let st = site "makeSOSA" k in
          let ent = List.map (fin "sosa_row" st) ent in
          List.iteri (fun idx v ->
              let si = idx / s and s1 = idx mod s in
              let want = List.nth (sp_sosa (ai, oi)) idx in
              if not (same v want) then
                oracle_fail "sosa_row" st (Printf.sprintf "SOSA[%d][%d](%d,%d) = %s, T*O = %s" ai oi si s1 (string_of_q v) (string_of_q want)))
            ent) per_a) out.sosa;
      List.iteri (fun bi per_b ->
          let b = List.nth beliefs bi in
          List.iteri (fun ai pa ->
              let na = n ai in
              let pred = sp_pred (bi, ai) in
              let stp = site "updateBeliefPartial" k in
              let part = List.map (fin "sum_over_obs_is_prediction" stp) pa.part in
              if not (same_l part pred) then
                oracle_fail "sum_over_obs_is_prediction" stp
                  (Printf.sprintf "b#%d a=%d: partial = [%s], b*T_a = [%s]" bi ai (str_qs part) (str_qs pred));
              let str = site "beliefExpectedReward" k in
              let rew = fin "expected_reward_eq" str pa.rew in
              let want_r = sp_rew (bi, ai) in
              if not (same rew want_r) then
                oracle_fail "expected_reward_eq" str
                  (Printf.sprintf "b#%d a=%d: reward = %s, expected = %s" bi ai (string_of_q rew) (string_of_q want_r));
              let uns = List.mapi (fun oi po ->
                  let no = n oi in
                  let stu = site "updateBeliefUnnormalized" k in
                  let un = List.map (fin "unnorm_is_bayes" stu) po.un in
                  let spec = sp_tau (bi, ai, oi) in
                  (* dyadic regime: the verified checker (reduced twin) and Base.Mdp.tau_step itself, both exactly *)
                  let ok = if exact then check_unnorm m b na no un && veqb un (tau_step m b na no) else close_l un spec in
                  if not ok then
                    oracle_fail "unnorm_is_bayes" stu
                      (Printf.sprintf "b#%d a=%d o=%d: got [%s], Bayes filter [%s]" bi ai oi (str_qs un) (str_qs spec));
                  if not (check_nonneg un) then
                    oracle_fail "unnorm_nonneg" stu (Printf.sprintf "b#%d a=%d o=%d: negative entry in [%s]" bi ai oi (str_qs un));
                  let pr = sp_pr (bi, ai, oi) in
                  if not (same (qsum_l un) pr) then
                    oracle_fail "unnorm_sums_to_obs_prob" stu
                      (Printf.sprintf "b#%d a=%d o=%d: sum = %s, P(o|b,a) = %s" bi ai oi (string_of_q (qsum_l un)) (string_of_q pr));
                  (* two-stage helper applied to the implementation's own first stage *)
                  let st2 = site "updateBeliefPartialUnnormalized" k in
                  let pun = List.map (fin "two_stage_eq" st2) po.pun in
                  if not (same_l pun un && same_l pun spec) then
                    oracle_fail "two_stage_eq" st2
                      (Printf.sprintf "b#%d a=%d o=%d: two-stage [%s], one-stage [%s]" bi ai oi (str_qs pun) (str_qs un));
                  (* b * SOSA[a][o] *)
                  let sosa = List.map (fin "sosa_row" (site "makeSOSA" k)) (List.nth (List.nth out.sosa ai) oi) in
                  let brow = List.map (fun s1 ->
                      qsum_l (List.map (fun si -> q_mul (List.nth b si) (List.nth sosa (si * s + s1))) ss_range)) ss_range in
                  if not (same_l brow spec) then
                    oracle_fail "sosa_row" (site "makeSOSA" k)
                      (Printf.sprintf "b#%d a=%d o=%d: b*SOSA = [%s], Bayes filter [%s]" bi ai oi (str_qs brow) (str_qs spec));
                  (* normalised forms *)
                  let check_norm clause st (v : xnum list) =
                    if q_lt q_zero pr then begin
                      let p = List.map (fin clause st) v in
                      if not (check_nonneg p) then oracle_fail clause st (Printf.sprintf "b#%d a=%d o=%d: negative posterior entry [%s]" bi ai oi (str_qs p));
                      if not (fclose (qsum_l p) q_one) then oracle_fail clause st (Printf.sprintf "b#%d a=%d o=%d: posterior sums to %s" bi ai oi (string_of_q (qsum_l p)));
                      List.iteri (fun i pi ->
                          let want = vio_qdiv (List.nth spec i) pr in
                          if not (fclose pi want) then
                            oracle_fail clause st (Printf.sprintf "b#%d a=%d o=%d: posterior[%d] = %s, Bayes = %s" bi ai oi i (string_of_q pi) (string_of_q want))) p
                    end in
                  check_norm "normalised_is_posterior" (site "updateBelief" k) po.nm;
                  check_norm "normalised_is_posterior" (site "updateBeliefPartialNormalized" k) po.pnm;
                  check_norm "normalised_is_posterior" (site "updateBeliefPartialNormalized(value)" k) po.pnv;
                  (* the element-wise second stage used in place (output = input) gives the same as with separate vectors *)
                  if alias_ok k then begin
                    let st2a = site "updateBeliefPartialUnnormalized(in-place)" k in
                    let pua = List.map (fin "two_stage_eq" st2a) po.pua in
                    if not (same_l pua spec) then
                      oracle_fail "two_stage_eq" st2a
                        (Printf.sprintf "b#%d a=%d o=%d: in-place second stage [%s], Bayes filter [%s]" bi ai oi (str_qs pua) (str_qs spec));
                    check_norm "normalised_is_posterior" (site "updateBeliefPartialNormalized(in-place)" k) po.pna
                  end;
                  (* boundary: exactly constant observation column c > 0 => P(o|b,a) = c and posterior = prediction *)
                  (if exact then match List.map (fun row -> List.nth row oi) (List.nth tO ai) with
                     | c0 :: rest when q_lt q_zero c0 && List.for_all (q_eq c0) rest ->
                       const_seen := true;
                       let st = site "updateBelief" k in
                       if not (q_eq pr c0) then failwith "spec inconsistency: constant column but P(o|b,a) <> c";
                       let p = List.map (fin "uninformative_observation" st) po.nm in
                       if not (close_l p pred) then
                         oracle_fail "uninformative_observation" st
                           (Printf.sprintf "b#%d a=%d o=%d: posterior [%s] but observation is uninformative, prediction [%s]" bi ai oi (str_qs p) (str_qs pred))
                     | _ -> ());
                  un) pa.os in
              (* sum over observations of the unnormalised updates is the prediction *)
              let stu = site "updateBeliefUnnormalized" k in
              (* general regime: the rows of O sum to one only up to the rounding of the inputs, so compare
                 with pred(s') * sum_o O(s',a,o), the identity that holds without that hypothesis *)
              let ok = if exact then check_obs_total m b na uns
                else close_l (vsum (n s) uns)
                    (List.mapi (fun s1 p -> q_mul p (qsum_l (List.nth (List.nth tO ai) s1))) pred) in
              if not ok then
                oracle_fail "sum_over_obs_is_prediction" stu
                  (Printf.sprintf "b#%d a=%d: sum_o unnorm = [%s], b*T_a = [%s]" bi ai (str_qs (vsum (n s) uns)) (str_qs pred)))
            per_b) out.bels)
    outs;
  (* paths agree: sparse and generic against dense, on the implementation's own outputs *)
  let dense = List.assoc "dense" outs in
  let same_x x y = match x, y with
    | Fin p, Fin q -> same p q | NaN, NaN | PInf, PInf | NInf, NInf -> true | _ -> false in
  let same_xl xs ys = List.length xs = List.length ys && List.for_all2 same_x xs ys in
  List.iter (fun k ->
      let out = List.assoc k outs in
      let cmp f what l1 l2 =
        if not (same_xl l1 l2) then oracle_fail "paths_agree" (site f k) (what ^ ": " ^ k ^ " [" ^ show_xs l2 ^ "] dense [" ^ show_xs l1 ^ "]") in
      List.iter2 (fun l1 l2 -> List.iter2 (cmp "makeSOSA" "SOSA") l1 l2) dense.sosa out.sosa;
      List.iter2 (fun pb1 pb2 -> List.iter2 (fun pa1 pa2 ->
          cmp "updateBeliefPartial" "partial" pa1.part pa2.part;
          cmp "beliefExpectedReward" "reward" [pa1.rew] [pa2.rew];
          List.iter2 (fun po1 po2 ->
              cmp "updateBeliefUnnormalized" "unnormalised" po1.un po2.un;
              cmp "updateBeliefPartialUnnormalized" "two-stage unnormalised" po1.pun po2.pun;
              (* quotients: compare within fclose in both regimes *)
              let close_x x y = match x, y with Fin p, Fin q -> fclose p q | NaN, NaN | PInf, PInf | NInf, NInf -> true | _ -> false in
              if not (List.for_all2 close_x po1.nm po2.nm) then oracle_fail "paths_agree" (site "updateBelief" k) "normalised results differ from dense";
              if not (List.for_all2 close_x po1.pnm po2.pnm && List.for_all2 close_x po1.pnv po2.pnv) then oracle_fail "paths_agree" (site "updateBeliefPartialNormalized" k) "normalised results differ from dense")
            pa1.os pa2.os) pb1 pb2) dense.bels out.bels)
    (List.filter (fun k -> k <> "dense") kinds);
  List.iter (fun (k, e) ->
      oracle_fail "paths_agree" ("construct<" ^ k ^ ">") ("valid tables rejected with " ^ e ^ " on this construction path"))
    (List.rev !thrown);
  (* ---------------------------------------------------------------- C: extracted model vs implementation *)
  let zero_seen = ref false and pos_seen = ref false and tiny_seen = ref false in
  List.iter (fun (k, out) ->
      let eig = (k <> "generic") in
      let cmp_q f what (impl : xnum list) (model : q list) =
        let ok = List.length impl = List.length model &&
                 List.for_all2 (fun x y -> match x with Fin v -> same v y | _ -> false) impl model in
        if not ok then disagree what (site f k) ("impl [" ^ show_xs impl ^ "] model [" ^ str_qs model ^ "]") in
      let cmp_x f what (impl : xnum list) (model : xq list) =
        let ok = List.length impl = List.length model &&
                 List.for_all2 (fun x y -> match x, y with
                     | Fin v, XFin w -> fclose v w
                     | NaN, XNaN | PInf, XPInf | NInf, XNInf -> true
                     | _ -> false) impl model in
        if not ok then disagree what (site f k) ("impl [" ^ show_xs impl ^ "] model [" ^ String.concat " " (List.map show_mx model) ^ "]") in
      List.iter (fun ai -> List.iter (fun oi ->
          cmp_q "makeSOSA" "makeSOSA" (List.nth (List.nth out.sosa ai) oi) (md_sosa (eig, ai, oi))) so_range) sa_range;
      List.iteri (fun bi per_b ->
          let b = List.nth beliefs bi in
          List.iteri (fun ai pa ->
              let na = n ai in
              let mpart = md_part (eig, bi, ai) in
              cmp_q "updateBeliefPartial" "updateBeliefPartial" pa.part mpart;
              cmp_q "beliefExpectedReward" "beliefExpectedReward" [pa.rew] [md_rew (eig, bi, ai)];
              List.iteri (fun oi po ->
                  let no = n oi in
                  let pr = sp_pr (bi, ai, oi) in
                  if q_eq pr q_zero then zero_seen := true else pos_seen := true;
                  if q_lt q_zero pr && q_le pr (q_of_ints 1 1000000) then tiny_seen := true;
                  cmp_q "updateBeliefUnnormalized" "updateBeliefUnnormalized" po.un (md_un (eig, bi, ai, oi));
                  cmp_x "updateBelief" "updateBelief" po.nm (md_nm (eig, bi, ai, oi));
                  (* second stage on the implementation's own intermediate belief *)
                  let ipart = List.map (function Fin v -> v | _ -> q_zero) pa.part in
                  cmp_q "updateBeliefPartialUnnormalized" "updateBeliefPartialUnnormalized" po.pun (if eig then punnormE m ipart na no else punnormQ g ipart na no);
                  let mpn = if eig then pnormE m ipart na no else pnormQ g ipart na no in
                  cmp_x "updateBeliefPartialNormalized" "updateBeliefPartialNormalized" po.pnm mpn;
                  cmp_x "updateBeliefPartialNormalized(value)" "updateBeliefPartialNormalized" po.pnv mpn)
                pa.os)
            per_b) out.bels)
    outs;
  (* the library's own query interface, modelled by queries_of, gives the same as the Eigen branch (dyadic) *)
  if exact then
    List.iteri (fun bi b -> List.iter (fun ai -> List.iter (fun oi ->
        if not (veqb (unnormQ gq b (n ai) (n oi)) (md_un (true, bi, ai, oi))) then
          disagree "paths_agree" "model" "unnormQ (queries_of m) differs from unnormE m") so_range) sa_range) beliefs;
  (!zero_seen, !pos_seen, !tiny_seen)

let mk_state (s : int) (a : int) (o : int) tT tO (tR2 : q list list) : pomdp =
  { pm = { nS = n s; nA = n a; p = tT; r = tR2; gam = q_of_ints 1 2 }; nO = n o; ob = tO }

(* spec-level classification of a table offered to a validating setter, independent of the model's
   validator: valid = no negative entry and every row sums to 1 within 1e-9; invalid = a negative entry or a
   row sum off by at least 1e-4 (the library's tolerance is 1e-6); anything else is a generator bug *)
let classify_table (t : q list list list) : bool =
  let tiny = q_of_ints 1 1000000000 and big = q_of_ints 1 10000 in
  let row_valid r = List.for_all (fun x -> q_le q_zero x) r && q_le (q_abs (q_sub (qsum_l r) q_one)) tiny in
  let row_invalid r = List.exists (fun x -> q_lt x q_zero) r || q_le big (q_abs (q_sub (qsum_l r) q_one)) in
  let rows = List.concat t in
  if List.for_all row_valid rows then true
  else if List.exists row_invalid rows then false
  else failwith "generator bug: table neither clearly valid nor clearly invalid"

let tables_eq (x : q list list list) (y : q list list list) =
  List.length x = List.length y && List.for_all2 (fun m1 m2 -> List.length m1 = List.length m2 && List.for_all2 veqb m1 m2) x y

let judge _id (c : cursor) (r : cursor) : bool * string =
  let kind = next c in
  let regime = next c in
  let exact = (regime = "dy") in
  let s = next_int c in let a = next_int c in let o = next_int c in
  let read_tables () =
    let tT = read_n c a (fun c -> read_n c s (fun c -> read_n c s next_q)) in
    let tO = read_n c a (fun c -> read_n c s (fun c -> read_n c o next_q)) in
    let tR = read_n c s (fun c -> read_n c a (fun c -> read_n c s next_q)) in
    (tT, tO, tR) in
  let const_seen = ref false in
  let finish prefix (z, p, t) =
    if not (at_end r) then failwith "trailing tokens in implementation output";
    let tag = Printf.sprintf "%s%s-S%d%s%s%s%s" prefix regime s
        (if z then "-z" else "") (if t then "-t" else "") (if !const_seen then "-c" else "") (if p then "" else "-nopos") in
    (s >= 3, tag) in
  match kind with
  | "bel" | "reset" ->
    let kinds = if kind = "bel" then kinds_bel else kinds_reset in
    (* "reset": the first tables only pre-load the models; the ground truth is what was supplied last *)
    if kind = "reset" then ignore (read_tables ());
    let (tT, tO, tR) = read_tables () in
    let nb = next_int c in
    let beliefs = read_n c nb (fun c -> read_n c s next_q) in
    let m = mk_pomdp (n s) (n a) (n o) tT tO tR (q_of_ints 1 2) in
    let g = table_model (n s) (n a) (n o) tT tO tR in
    finish (if kind = "reset" then "reset-" else "") (judge_state ~exact ~s ~a ~o ~beliefs ~m ~g ~tO ~kinds ~const_seen r)
  | "hist" ->
    (* operation history on one dense and one sparse model object; after construction and after every
       setter call the belief updates must be the Bayes filter of the tables of the last ACCEPTED calls *)
    let (tT0, tO0, tR0) = read_tables () in
    let nops = next_int c in
    let ops = read_n c nops (fun c ->
        let name = next c in let ovl = next c in
        match name with
        | "obs" -> (name, ovl, OpSetObs (read_n c a (fun c -> read_n c s (fun c -> read_n c o next_q))))
        | "tr" -> (name, ovl, OpSetT (read_n c a (fun c -> read_n c s (fun c -> read_n c s next_q))))
        | "rw3" -> (name, ovl, OpSetR3 (read_n c s (fun c -> read_n c a (fun c -> read_n c s next_q))))
        | "rw2" -> (name, ovl, OpSetR2 (read_n c s (fun c -> read_n c a next_q)))
        | t -> failwith ("unknown op " ^ t)) in
    let nb = next_int c in
    let beliefs = read_n c nb (fun c -> read_n c s next_q) in
    let kinds = ["dense"; "sparse"] in
    let m0 = mk_pomdp (n s) (n a) (n o) tT0 tO0 tR0 (q_of_ints 1 2) in
    let flags = ref (false, false, false) in
    let merge (z, p, t) = let (z0, p0, t0) = !flags in flags := (z0 || z, p0 || p, t0 || t) in
    let snapshot ctx (st : pomdp) =
      (try merge (judge_state ~exact ~s ~a ~o ~beliefs ~m:st ~g:(queries_of st) ~tO:st.ob ~kinds ~const_seen r)
       with
       | OracleFail (cl, si, d) -> raise (OracleFail (cl, si, ctx ^ ": " ^ d))
       | Disagreement (cl, si, d) -> raise (Disagreement (cl, si, ctx ^ ": " ^ d))) in
    snapshot "after construction" m0;
    let rejected_seen = ref false in
    let _ = List.fold_left (fun (k, (st_or : pomdp), (st_md : pomdp)) (name, ovl, op) ->
        let setter = (match name with "obs" -> "setObservationFunction" | "tr" -> "setTransitionFunction" | _ -> "setRewardFunction")
                     ^ (if ovl = "m" then "(matrix)" else "(container)") in
        let ctx = Printf.sprintf "after op #%d %s" k setter in
        (* oracle state: decided from the offered table alone *)
        let expect_acc, st_or' = (match op with
            | OpSetObs t -> let v = classify_table t in
              if exact && v <> exact_tableb (n a) (n s) (n o) t then failwith "generator bug: dyadic table validity";
              (v, if v then mk_state s a o st_or.pm.p t st_or.pm.r else st_or)
            | OpSetT t -> let v = classify_table t in
              if exact && v <> exact_tableb (n a) (n s) (n s) t then failwith "generator bug: dyadic table validity";
              (v, if v then mk_state s a o t st_or.ob st_or.pm.r else st_or)
            | OpSetR3 r3 -> (true, mk_state s a o st_or.pm.p st_or.ob (fold_rewards (n s) (n a) st_or.pm.p r3))
            | OpSetR2 r2 -> (true, mk_state s a o st_or.pm.p st_or.ob r2)) in
        if not expect_acc then rejected_seen := true;
        let impl_flags = List.map (fun k' -> (k', next r)) kinds in
        List.iter (fun (k', f) ->
            let acc = (match f with "acc" -> true | "rej" -> false | t -> failwith ("unexpected setter status " ^ t)) in
            if acc <> expect_acc then
              oracle_fail "setter_validate_then_commit" (setter ^ "<" ^ k' ^ ">")
                (Printf.sprintf "op #%d: %s table was %s" k (if expect_acc then "a valid" else "an invalid") (if acc then "accepted" else "rejected")))
          impl_flags;
        (* the Coq state machine agrees on the decision and on the resulting tables *)
        let (st_md', acc_md) = step st_md op in
        if acc_md <> expect_acc then disagree "step" setter (Printf.sprintf "op #%d: model step %s" k (if acc_md then "accepts" else "rejects"));
        if not (tables_eq st_md'.pm.p st_or'.pm.p && tables_eq st_md'.ob st_or'.ob && tables_eq [st_md'.pm.r] [st_or'.pm.r]) then
          disagree "step" setter (Printf.sprintf "op #%d: model state differs from the tables of the last accepted calls" k);
        (* probe: the same by-value query as the last one before the setter, answered from the current tables *)
        let bl = List.nth beliefs (List.length beliefs - 1) in
        let want = tau_step_r st_or' bl (n (a - 1)) (n (o - 1)) in
        List.iter (fun k' ->
            let st = "updateBeliefUnnormalized(value)<" ^ k' ^ ">" in
            let got = List.map (fin "unnorm_is_bayes" st) (read_n r s next_x) in
            let ok = List.length got = List.length want && List.for_all2 (fun x y -> if exact then q_eq x y else fclose x y) got want in
            if not ok then
              oracle_fail "unnorm_is_bayes" st
                (Printf.sprintf "%s: repeated query (last belief, a=%d, o=%d) gives [%s], Bayes filter of the current tables [%s]" ctx (a - 1) (o - 1) (str_qs got) (str_qs want)))
          kinds;
        snapshot ctx st_or';
        (k + 1, st_or', st_md')) (1, m0, m0) ops in
    finish (if !rejected_seen then "hist-rej-" else "hist-") !flags
  | "conv" ->
    (* sparse models built by conversion from sources whose observation rows have sub-threshold tails: the
       conversion may refuse; if it yields a model, that model holds the sparsified tables (entries <= 1e-6
       dropped), its updates must be the Bayes filter of THOSE tables, and the sum over observations must be
       the prediction within the library's own tolerance for "is a probability" (1e-6, relative): by
       obs_total_general the deviation is exactly the dropped row mass *)
    let (tT, tO, tR) = read_tables () in
    let nb = next_int c in
    let beliefs = read_n c nb (fun c -> read_n c s next_q) in
    let m = mk_pomdp (n s) (n a) (n o) tT tO tR (q_of_ints 1 2) in
    if not (wf_pomdpb m) then failwith "generator bug: conv source is not a well-formed POMDP";
    let ms = sparse_of m in
    let tol = q_of_ints 1 1000000 in
    let built = ref 0 and refused = ref 0 in
    List.iter (fun k ->
        match next r with
        | "throw" -> ignore (next r); incr refused
        | "THROW" -> oracle_fail "paths_agree" ("construct<" ^ k ^ ">") ("exception escaped the harness: " ^ next r)
        | "ok" ->
          incr built;
          let out = read_out ~alias:(alias_ok k) r s a o nb in
          List.iteri (fun bi per_b ->
              let b = List.nth beliefs bi in
              List.iteri (fun ai pa ->
                  let pred = predict_r ms b (n ai) in
                  let uns = List.mapi (fun oi po ->
                      let stu = "updateBeliefUnnormalized<" ^ k ^ ">" in
                      let un = List.map (fin "unnorm_is_bayes" stu) po.un in
                      let spec = tau_step_r ms b (n ai) (n oi) in
                      if not (veqb un spec) then
                        oracle_fail "unnorm_is_bayes" stu
                          (Printf.sprintf "b#%d a=%d o=%d: got [%s], Bayes filter of the stored (sparsified) tables [%s]" bi ai oi (str_qs un) (str_qs spec));
                      let pun = List.map (fin "two_stage_eq" ("updateBeliefPartialUnnormalized<" ^ k ^ ">")) po.pun in
                      if not (veqb pun un) then oracle_fail "two_stage_eq" ("updateBeliefPartialUnnormalized<" ^ k ^ ">") (Printf.sprintf "b#%d a=%d o=%d: two-stage differs from one-stage" bi ai oi);
                      let su = qsum_l un in
                      if q_lt q_zero su then begin
                        let st = "updateBelief<" ^ k ^ ">" in
                        let p = List.map (fin "normalised_is_posterior" st) po.nm in
                        if not (check_nonneg p && fclose (qsum_l p) q_one) then oracle_fail "normalised_is_posterior" st (Printf.sprintf "b#%d a=%d o=%d: posterior [%s]" bi ai oi (str_qs p));
                        List.iteri (fun i pi -> if not (fclose pi (vio_qdiv (List.nth un i) su)) then
                                       oracle_fail "normalised_is_posterior" st (Printf.sprintf "b#%d a=%d o=%d: posterior[%d] not proportional" bi ai oi i)) p
                      end;
                      un) pa.os in
                  let tot = vsum (n s) uns in
                  List.iteri (fun i t ->
                      let p = List.nth pred i in
                      if not (q_le (q_abs (q_sub t p)) (q_mul tol p)) then
                        oracle_fail "sum_over_obs_is_prediction" ("updateBeliefUnnormalized<" ^ k ^ ">")
                          (Printf.sprintf "b#%d a=%d s'=%d: sum_o unnorm = %s, prediction = %s: the converted model lost more than 1e-6 of the probability mass" bi ai i (string_of_q t) (string_of_q p))) tot)
                per_b) out.bels
        | t -> failwith ("unexpected token in implementation output: " ^ t))
      ["sparse-cd"; "sparse-cg"; "mixSD-cd"];
    if not (at_end r) then failwith "trailing tokens in implementation output";
    (s >= 3, Printf.sprintf "conv-S%d-O%d-built%d-refused%d" s o !built !refused)
  | "seq" ->
    (* filtering along a history: after k steps the belief must be the composed unnormalised filter
       tau_hist divided by its sum P(o_1..o_k | b, a_1..a_k), as long as that probability is positive *)
    let (tT, tO, tR) = read_tables () in
    let b0 = read_n c s next_q in
    let len = next_int c in
    let h = read_n c len (fun c -> let ai = next_int c in let oi = next_int c in (ai, oi)) in
    let m = mk_pomdp (n s) (n a) (n o) tT tO tR (q_of_ints 1 2) in
    let g = table_model (n s) (n a) (n o) tT tO tR in
    if exact && not (wf_pomdpb m) then failwith "generator bug: dyadic case is not a well-formed POMDP";
    let hn = List.map (fun (ai, oi) -> (n ai, n oi)) h in
    let rec prefixes acc pre = function [] -> List.rev acc | x :: t -> let pre' = pre @ [x] in prefixes (pre' :: acc) pre' t in
    let pres = prefixes [] [] hn in
    let specs = List.map (fun pre -> let tau = tau_hist_r m b0 pre in (tau, vio_qred (qsum_l tau))) pres in
    let kinds = kinds_bel in
    let outs = List.map (fun k ->
        (match next r with "ok" -> () | "THROW" -> oracle_fail "paths_agree" ("construct<" ^ k ^ ">") ("exception: " ^ next r) | t -> failwith ("unexpected token " ^ t));
        (k, read_n r len (fun r -> read_n r s next_x))) kinds in
    let dead = ref false and zero_hit = ref false in
    (* O *)
    List.iter (fun (k, traj) ->
        let st = "updateBelief*" ^ "<" ^ k ^ ">" in
        List.iteri (fun i (impl, (tau, pr)) ->
            if q_lt q_zero pr then begin
              let p = List.map (fin "history_filter" st) impl in
              if not (check_nonneg p) then oracle_fail "history_filter" st (Printf.sprintf "step %d: negative entry [%s]" (i + 1) (str_qs p));
              if not (fclose (qsum_l p) q_one) then oracle_fail "history_filter" st (Printf.sprintf "step %d: belief sums to %s" (i + 1) (string_of_q (qsum_l p)));
              List.iteri (fun j pj ->
                  let want = vio_qdiv (List.nth tau j) pr in
                  if not (fclose pj want) then
                    oracle_fail "history_filter" st (Printf.sprintf "step %d: belief[%d] = %s, filter/P(history) = %s" (i + 1) j (string_of_q pj) (string_of_q want))) p
            end) (List.combine traj specs)) outs;
    (* C: the iterated model; after the first zero-probability step the model has no value and the
       implementation has NaN everywhere *)
    List.iter (fun (k, traj) ->
        let eig = (k <> "generic") in
        dead := false;
        List.iteri (fun i (impl, pre) ->
            if not !dead then begin
              match (if eig then updateE_hist m b0 pre else updateQ_hist g b0 pre) with
              | Some p ->
                let ok = List.length impl = List.length p && List.for_all2 (fun x y -> match x with Fin v -> fclose v y | _ -> false) impl p in
                if not ok then disagree "history_filter" ("updateBelief*<" ^ k ^ ">") (Printf.sprintf "step %d: impl [%s] model [%s]" (i + 1) (show_xs impl) (str_qs p))
              | None ->
                dead := true; zero_hit := true;
                if not (List.for_all (function NaN -> true | _ -> false) impl) then
                  disagree "history_filter" ("updateBelief*<" ^ k ^ ">") (Printf.sprintf "step %d: zero-probability observation, impl [%s] model NaN" (i + 1) (show_xs impl))
            end) (List.combine traj pres)) outs;
    if not (at_end r) then failwith "trailing tokens in implementation output";
    (s >= 3, Printf.sprintf "seq-%s-S%d-L%d%s" regime s len (if !zero_hit then "-z" else ""))
  | k -> failwith ("unknown case kind " ^ k)

let () = main_loop judge
