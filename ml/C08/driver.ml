(* ml/C08/driver.ml — judge for property C08.
   O (oracle): the spec clauses of C08/Spec.v evaluated on the implementation's outputs.
   C (correspondence): the extracted models of C08/Model.v against the implementation's outputs.
   O runs before C in every case kind. *)
open Model
open Vio

let ni = int_of_nat
let two64 = vio_qmake (z_of_string "18446744073709551616") XH
let tolg = q_of_ints 1 1000000000000          (* 1e-12: general-regime boundary tolerance *)
let tol9 = q_of_ints 1 1000000000             (* 1e-9 *)
let eps_small = q_of_ints 1 1000000

let q_floor (x : q) : q =
  let (d, _) = vio_z_div_eucl (vio_qnum x) (Zpos (vio_qden x)) in vio_qmake d XH

(* the value std::uniform_real_distribution<double>(0,1) yields for the raw word floor(u * 2^64) *)
let expected_u (u : q) : q = vio_qred (vio_qdiv (q_floor (q_mul u two64)) two64)

(* an index printed by the harness: anything unparsable, negative or huge is "out of range" (-1) *)
let next_idx (r : cursor) : int =
  match int_of_string_opt (next r) with Some k when k >= 0 && k < 1000000 -> k | _ -> -1
let idx_str i = if i < 0 then "<garbage>" else string_of_int i

let is_crash t = (t = "CRASH" || t = "SANITIZER" || t = "TIMEOUT")

let check_replay u_req u_drawn =
  if not (q_eq (expected_u u_req) u_drawn) then
    disagree "replay_generator" "uniform_real_distribution"
      ("requested " ^ string_of_q u_req ^ " drawn " ^ string_of_q u_drawn)

let rec pow2 n = if n <= 1 then n = 1 else n mod 2 = 0 && pow2 (n / 2)

let vec_close tol a b =
  List.length a = List.length b && List.for_all2 (fun x y -> q_close ~atol:tol ~rtol:tol x y) a b
let vec_eq a b = List.length a = List.length b && List.for_all2 q_eq a b
let nats_eq (a : nat list) (b : nat list) = List.map ni a = List.map ni b

let judge _id (c : cursor) (r : cursor) : bool * string =
  let kind = next c in
  match kind with
  (* ------------------------------------------------------------------ dense *)
  | "dense" ->
    let regime = next c in
    let p = next_qs c in let us = next_qs c in
    let n = List.length p in
    if (not (at_end r)) && is_crash (peek r) then oracle_fail "no_UB" "sampleProbability_dense" "abnormal termination";
    let m = next_int r in
    if m <> List.length us then failwith "dense: sweep length";
    List.iter (fun u_req ->
        let u = next_q r in let k1 = next_idx r in let k2 = next_idx r in
        check_replay u_req u;
        let site = "sampleProbability_dense" in
        List.iter (fun k -> if k < 0 || k >= n then oracle_fail "dense_in_range" site ("index " ^ idx_str k ^ " for u=" ^ string_of_q u)) [k1; k2];
        let i1 = nat_of_int k1 and i2 = nat_of_int k2 in
        List.iter (fun i ->
            let ok =
              if regime = "dy" then dense_selb p u i
              else dense_selb p u i || dense_selb p (q_add u tolg) i || (q_le tolg u && dense_selb p (q_sub u tolg) i) in
            if not ok then oracle_fail "dense_interval" site
                ("u=" ^ string_of_q u ^ " returned " ^ string_of_int (ni i) ^ " outside its cumulative interval")) [i1; i2];
        (* C *)
        let mi = sample_dense p u in
        let stable = regime = "dy" ||
                     (ni (sample_dense p (q_add u tolg)) = ni mi && (q_lt u tolg || ni (sample_dense p (q_sub u tolg)) = ni mi)) in
        if stable && (ni mi <> ni i1 || ni mi <> ni i2) then
          disagree "sample_dense" site ("u=" ^ string_of_q u ^ " impl " ^ string_of_int (ni i1) ^ "/" ^ string_of_int (ni i2) ^ " model " ^ string_of_int (ni mi)))
      us;
    (n > 1, "dense." ^ regime)
  (* ------------------------------------------------------------------ sparse *)
  | "sparse" ->
    let tag = next c in
    let _before = next_int c in let _after = next_int c in
    let d = next_nat c in
    let row = next_list c (fun c -> let col = next_nat c in let v = next_q c in (col, v)) in
    let us = next_qs c in
    let site = "sampleProbability_sparse" in
    let stored = qsum (List.map snd row) in
    let over = List.for_all (fun u -> q_le stored (expected_u u)) us in
    let inside = List.for_all (fun u -> q_lt (expected_u u) stored) us in
    if (tag = "over" && not over) || (tag = "in" && not inside) || (tag <> "over" && tag <> "in") then failwith "sparse: dishonest tag";
    if not (cols_ok O d row) then failwith "sparse: bad columns";
    let clause = if tag = "over" then "sparse_no_UB" else "sparse_eq_dense" in
    if (not (at_end r)) && is_crash (peek r) then
      oracle_fail (if tag = "over" then "sparse_no_UB" else "no_UB") site "abnormal termination (the scan left the row)";
    let p = expand d row in
    let m = next_int r in
    if m <> List.length us then failwith "sparse: sweep length";
    List.iter (fun u_req ->
        let u = next_q r in let k = next_idx r in
        check_replay u_req u;
        if k < 0 || k >= ni d then oracle_fail clause site ("index " ^ idx_str k ^ " out of range, u=" ^ string_of_q u);
        let i = nat_of_int k in
        if not (dense_selb p u i) then oracle_fail clause site
            ("u=" ^ string_of_q u ^ " returned " ^ string_of_int (ni i) ^ " outside its cumulative interval (stored mass " ^ string_of_q stored ^ ")");
        (* C: repaired loop; the loop as it stands must agree wherever it returns *)
        let mi = sample_sparse_fix d row u in
        if ni mi <> ni i then disagree "sample_sparse_fix" site ("u=" ^ string_of_q u ^ " impl " ^ string_of_int (ni i) ^ " model " ^ string_of_int (ni mi));
        (match sample_sparse row u with
         | Ok j -> if ni j <> ni i then disagree "sample_sparse" site "model of the current loop differs"
         | UB -> if tag <> "over" then disagree "sample_sparse" site "model walks off the row on an inside draw"))
      us;
    (List.length row > 1, "sparse." ^ tag)
  (* ------------------------------------------------------------------ alias *)
  | "alias" ->
    let regime = next c in
    let p = next_qs c in let us = next_qs c in
    let n = List.length p in
    let csite = "VoseAliasSampler::VoseAliasSampler" in
    let ssite = "VoseAliasSampler::sampleProbability" in
    if (not (at_end r)) && is_crash (peek r) then oracle_fail "no_UB" csite "abnormal termination";
    let prob = next_qs r in let alias_i = next_list r next_idx in
    let exact = regime = "dy" in
    if exact && not (pow2 n) then failwith "alias: dy regime needs n a power of two";
    (* O: every index has its mass *)
    if List.length prob <> n || List.length alias_i <> n then oracle_fail "alias_mass" csite "table of the wrong size";
    List.iter (fun a -> if a < 0 || a >= n then oracle_fail "alias_mass" csite "alias out of range") alias_i;
    let alias = List.map nat_of_int alias_i in
    (* sum p = 1: exact masses.  Otherwise (any vector isProbability accepts): masses within |sum p - 1|
       (alias_mass_slack) and mass zero on indices of probability zero (alias_support). *)
    let slack = q_abs (q_sub (qsum p) q_one) in
    let masses = List.mapi (fun i _ -> alias_mass prob alias (nat_of_int i)) p in
    List.iteri (fun i pi ->
        let mi = List.nth masses i in
        if q_eq pi q_zero && not (q_eq mi q_zero) then
          oracle_fail "alias_support" csite ("index " ^ string_of_int i ^ " has probability 0 but mass " ^ string_of_q mi ^ " in the table; p = " ^ str_qs p)) p;
    if exact then begin
      let ok = if q_eq slack q_zero then alias_table_ok p prob alias else alias_table_slack_ok p prob alias in
      if not ok then
        oracle_fail (if q_eq slack q_zero then "alias_mass" else "alias_mass_slack") csite ("masses " ^ str_qs masses ^ " for p = " ^ str_qs p)
    end else
      List.iteri (fun i pi ->
          let mi = List.nth masses i in
          if not (q_le (q_abs (q_sub mi pi)) (q_add slack tol9)) then
            oracle_fail (if q_le slack tol9 then "alias_mass" else "alias_mass_slack") csite ("index " ^ string_of_int i ^ " has mass " ^ string_of_float (float_of_q mi) ^ " instead of " ^ string_of_float (float_of_q pi))) p;
    (* C: table (exact regime) *)
    if exact then begin
      let (fp, fa) = vose_fix p in
      let same_fix = vec_eq fp prob && nats_eq fa alias in
      if not same_fix then
        disagree "vose_table" csite ("impl prob " ^ str_qs prob ^ " alias " ^ str_nats alias ^ " ; repaired model prob " ^ str_qs fp ^ " alias " ^ str_nats fa)
    end;
    let m = next_int r in
    if m <> List.length us then failwith "alias: sweep length";
    List.iter (fun u_req ->
        let x = next_q r in let t = next r in
        let nq = q_of_int n in
        if t = "XRANGE" || q_lt x q_zero || q_le nq x then
          oracle_fail "alias_in_range" ssite ("uniform_real_distribution(0,n) returned " ^ string_of_q x);
        let k = (match int_of_string_opt t with Some k when k >= 0 && k < n -> k | _ -> oracle_fail "alias_in_range" ssite "index out of range") in
        let i = nat_of_int k in
        if not (q_le (q_abs (q_sub x (q_mul (expected_u u_req) nq))) (q_of_ints 1 1000000000000)) then
          disagree "replay_generator" "uniform_real_distribution" "x is not u*n";
        (* O: with a table of the right masses an index of probability zero is never returned *)
        if q_eq (List.nth p k) q_zero then
          oracle_fail "alias_support" ssite ("x=" ^ string_of_q x ^ " returned index " ^ string_of_int k ^ " which has probability 0");
        (match alias_sample prob alias x with
         | Ok j -> if ni j <> ni i then disagree "alias_sample" ssite ("x=" ^ string_of_q x ^ " impl " ^ string_of_int (ni i) ^ " model " ^ string_of_int (ni j))
         | UB -> disagree "alias_sample" ssite "model reads outside the table"))
      us;
    (n > 1, "alias." ^ regime)
  (* ------------------------------------------------------------------ makeRandomProbability *)
  | "randp" ->
    let s = next_int c in let us = next_qs c in
    let site = "makeRandomProbability" in
    if (not (at_end r)) && is_crash (peek r) then oracle_fail "no_UB" site "abnormal termination";
    let drawn = next_qs r in let out = next_qs r in
    if List.length drawn <> s - 1 || List.length us < s - 1 then failwith "randp: draws";
    List.iteri (fun k d -> check_replay (List.nth us k) d) drawn;
    if List.length out <> s then oracle_fail "random_prob_valid" site "wrong length";
    if not (is_distb out) then oracle_fail "random_prob_valid" site ("not a probability vector: " ^ str_qs out);
    let mo = random_prob drawn in
    if not (vec_eq mo out) then disagree "random_prob" site ("impl " ^ str_qs out ^ " model " ^ str_qs mo);
    (s > 2, "randp")
  (* ------------------------------------------------------------------ projectToProbability *)
  | "proj" ->
    let tag = next c in
    let v = next_qs c in
    let site = "projectToProbability" in
    let ps = possum v in let cnt = ni (poscount v) in
    let near a b = q_le (q_abs (q_sub a b)) eps_small in
    let real_tag =
      if near ps q_one then "one" else if cnt = 0 then "neg" else if near ps q_zero then "zero"
      else if q_lt q_one ps then "big" else "small" in
    if tag <> real_tag then failwith ("proj: dishonest tag, is " ^ real_tag);
    if (not (at_end r)) && is_crash (peek r) then oracle_fail "no_UB" site "abnormal termination";
    let out = next_qs r in
    (* O *)
    if List.length out <> List.length v then oracle_fail "project_valid" site "wrong length";
    if is_prob_tolb v && not (vec_eq out v) then
      oracle_fail "project_idempotent" site ("valid input changed into " ^ str_qs out);
    let so = qsum out in
    if not (nonnegb out && q_le (q_abs (q_sub so q_one)) (q_add eps_small tol9)) then
      oracle_fail "project_valid" site ("output " ^ str_qs out ^ " sums to " ^ string_of_q so);
    (* C: the repaired code (committed in /repo) *)
    if not (vec_close tol9 (project_fix v) out) then
      disagree "project" site ("impl " ^ str_qs out ^ " model " ^ str_qs (project_fix v));
    (List.length v > 1, "proj." ^ tag)
  (* ------------------------------------------------------------------ sampleSR / sampleSOR / sampleOR *)
  | "sr" ->
    let variant = next c in
    let ns = next_int c in let na = next_int c in let no = next_int c in
    let rec take k f = if k = 0 then [] else let x = f () in x :: take (k - 1) f in
    let vecn n = take n (fun () -> next_q c) in
    let p_in = take na (fun () -> take ns (fun () -> vecn ns)) in
    let r_in = take ns (fun () -> vecn na) in
    let ob_in = take na (fun () -> take ns (fun () -> vecn no)) in
    let s = next_nat c in let a = next_nat c in
    let us = next_qs c in
    let is_pomdp = String.length variant > 5 && String.sub variant 0 5 = "pomdp" in
    let mdp_sparse = (variant = "mdp.s" || variant = "pomdp.ds" || variant = "pomdp.ss") in
    let pomdp_sparse = (variant = "pomdp.sd" || variant = "pomdp.ss") in
    (* the tables the classes store: sparse classes keep only entries above 1e-6; the expected reward
       is R(s,a) times the stored row mass *)
    let p = if mdp_sparse then List.map (List.map drop_small) p_in else p_in in
    let ob = if pomdp_sparse then List.map (List.map drop_small) ob_in else ob_in in
    let rw = List.mapi (fun si row -> List.mapi (fun ai x -> q_mul x (qsum (List.nth (List.nth p ai) si))) row) r_in in
    let md = { nS = nat_of_int ns; nA = nat_of_int na; p = p; r = rw; gam = q_of_ints 1 2 } in
    let pmd = { pm = md; nO = nat_of_int no; ob = ob } in
    let site = (match variant with
        | "mdp.d" -> "MDP::Model::sampleSR" | "mdp.s" -> "MDP::SparseModel::sampleSR"
        | "pomdp.dd" | "pomdp.ds" -> "POMDP::Model" | _ -> "POMDP::SparseModel") in
    if (not (at_end r)) && is_crash (peek r) then oracle_fail "no_UB" site "abnormal termination";
    (* the sparse classes re-validate what they store: construction throws invalid_argument exactly when
       a stored row (input row without its entries <= 1e-6) misses one by more than 1e-6 *)
    let expect_throw = (mdp_sparse && not (sparse_store_ok p_in)) || (pomdp_sparse && not (sparse_store_ok ob_in)) in
    let threw = (not (at_end r)) && peek r = "THROW" in
    if threw && not expect_throw then disagree "sparse_store_validation" site ("construction threw " ^ (ignore (next r); if at_end r then "?" else peek r) ^ " although every stored row is within 1e-6 of one");
    if expect_throw && not threw then disagree "sparse_store_validation" site "construction accepted a table whose stored rows (entries <= 1e-6 dropped) miss one by more than 1e-6";
    if threw then begin
      ignore (next r);
      if next r <> "invalid_argument" then disagree "sparse_store_validation" site "wrong exception type";
      (true, "sr." ^ variant ^ ".throw")
    end else begin
    (* the model's own rows, as returned by its getters *)
    let trow_i = next_qs r in let rew_i = next_qs r in
    let orows_i = if is_pomdp then take ns (fun () -> next_qs r) else [] in
    let nsamp = next_int r in
    let unit_ok u = q_le q_zero u && q_lt u q_one in
    let chk_u u_req u = check_replay u_req u; if not (unit_ok u) then oracle_fail "uniform_in_unit_interval" "uniform_real_distribution" (string_of_q u) in
    let chk_state site u k =
      if k < 0 || k >= ns then oracle_fail "sample_sr_in_range" site ("next state " ^ idx_str k ^ " out of range for u=" ^ string_of_q u);
      if not (dense_selb trow_i u (nat_of_int k)) then
        oracle_fail "sample_sr_follows_model" site ("u=" ^ string_of_q u ^ " gave next state " ^ string_of_int k ^ " outside its interval of the model's own transition row") in
    let chk_obs site s1 u k =
      if k < 0 || k >= no then oracle_fail "sample_sor_in_range" site ("observation " ^ idx_str k ^ " out of range (O=" ^ string_of_int no ^ ") for u=" ^ string_of_q u);
      if not (dense_selb (List.nth orows_i s1) u (nat_of_int k)) then
        oracle_fail "sample_sor_follows_model" site ("u=" ^ string_of_q u ^ " gave observation " ^ string_of_int k ^ " outside its interval of the model's own observation row") in
    let chk_rew site s1 rew = if not (q_eq rew (List.nth rew_i s1)) then oracle_fail "sample_sr_follows_model" site "reward is not the model's own expected reward" in
    let usr = ref us in
    let pop () = match !usr with x :: t -> usr := t; x | [] -> failwith "sr: draws exhausted" in
    if not is_pomdp then begin
      if nsamp <> List.length us then failwith "sr: sample count";
      for _ = 1 to nsamp do
        let u_req = pop () in
        let u1 = next_q r in let k1 = next_idx r in let rew = next_q r in
        chk_u u_req u1; chk_state site u1 k1; chk_rew site k1 rew;
        let (ms1, mr) = sample_sr md s a u1 in
        if ni ms1 <> k1 then disagree "sample_sr" site ("u=" ^ string_of_q u1 ^ " impl " ^ string_of_int k1 ^ " model " ^ string_of_int (ni ms1));
        if not (q_eq mr rew) then disagree "sample_sr" site "reward differs from R(s,a) * stored row mass"
      done
    end else begin
      if 3 * nsamp <> List.length us then failwith "sr: sample count";
      for _ = 1 to nsamp do
        let r1 = pop () in let r2 = pop () in let r3 = pop () in
        let u1 = next_q r in let k1 = next_idx r in let rew = next_q r in let u2 = next_q r in let k2 = next_idx r in
        chk_u r1 u1; chk_u r2 u2;
        chk_state (site ^ "::sampleSOR") u1 k1; chk_rew (site ^ "::sampleSOR") k1 rew; chk_obs (site ^ "::sampleSOR") k1 u2 k2;
        let u3 = next_q r in let k3 = next_idx r in let rew3 = next_q r in
        chk_u r3 u3; chk_obs (site ^ "::sampleOR") k1 u3 k3; chk_rew (site ^ "::sampleOR") k1 rew3;
        let ((ms1, mo), mr) = sample_sor pmd s a u1 u2 in
        if ni ms1 <> k1 || ni mo <> k2 || not (q_eq mr rew) then disagree "sample_sor" (site ^ "::sampleSOR") "model/impl differ";
        let (mo3, mr3) = sample_or pmd s a (nat_of_int k1) u3 in
        if ni mo3 <> k3 || not (q_eq mr3 rew3) then disagree "sample_or" (site ^ "::sampleOR") "model/impl differ"
      done
    end;
    (* C: the rows the getters return are the rows the model of the class stores *)
    if not (vec_eq trow_i (trow md s a)) then disagree "stored_transition_row" site ("impl " ^ str_qs trow_i ^ " model " ^ str_qs (trow md s a));
    if is_pomdp then List.iteri (fun s1 row -> if not (vec_eq row (orow pmd (nat_of_int s1) a)) then disagree "stored_observation_row" site "differ") orows_i;
    (ns > 1, "sr." ^ variant)
    end
  (* ------------------------------------------------------------------ joint (s1,o) frequencies, engine independence *)
  | "sorfreq" ->
    let variant = next c in
    let ns = next_int c in let na = next_int c in let no = next_int c in
    let rec take k f = if k = 0 then [] else let x = f () in x :: take (k - 1) f in
    let vecn n = take n (fun () -> next_q c) in
    let p_in = take na (fun () -> take ns (fun () -> vecn ns)) in
    let _r_in = take ns (fun () -> vecn na) in
    let ob_in = take na (fun () -> take ns (fun () -> vecn no)) in
    let s = next_int c in let a = next_int c in let n = next_int c in
    let site = "POMDP<" ^ variant ^ ">" in
    if (not (at_end r)) && is_crash (peek r) then oracle_fail "no_UB" site "abnormal termination";
    let same = next_int r in
    let trow_i = next_qs r in
    let orows_i = take ns (fun () -> next_qs r) in
    let n_i = next_int r in let lockstep = next_int r in let bad = next_int r in
    let counts = next_ints r in
    if n_i <> n || List.length counts <> ns * no then failwith "sorfreq: shape";
    (* O: the observation draw must not repeat the next-state draw: the two engines of the model are
       distinct streams (different Seeder draws), whatever constructor built it *)
    if bad > 0 then oracle_fail "sample_sor_in_range" (site ^ "::sampleSOR") "out-of-range sample";
    (* O: joint frequencies: the s1 marginal follows T(s,a,.), and GIVEN s1 the observation follows O(s1,a,.)
       (6 sigma + 2 binomial bounds; seeds are fixed by the case, so the verdict is reproducible) *)
    let within cnt tot pq =
      let pf = float_of_q pq in
      if q_eq pq q_zero then cnt = 0 else if q_eq pq q_one then cnt = tot else
      Float.abs (float_of_int cnt -. float_of_int tot *. pf) <= 6.0 *. Float.sqrt (float_of_int tot *. pf *. (1.0 -. pf)) +. 2.0 in
    List.iteri (fun s1 pt ->
        let cs = List.filteri (fun k _ -> k / no = s1) counts in
        let tot = List.fold_left (+) 0 cs in
        if not (within tot n pt) then oracle_fail "sample_sr_follows_model" (site ^ "::sampleSOR")
            ("next state " ^ string_of_int s1 ^ " drawn " ^ string_of_int tot ^ "/" ^ string_of_int n ^ " times, table says " ^ string_of_q pt);
        List.iteri (fun o cnt ->
            let po = List.nth (List.nth orows_i s1) o in
            if not (within cnt tot po) then oracle_fail "sample_sor_follows_model" (site ^ "::sampleSOR")
                ("given next state " ^ string_of_int s1 ^ " observation " ^ string_of_int o ^ " was drawn " ^ string_of_int cnt ^ "/" ^ string_of_int tot ^ " times, the observation table says " ^ string_of_q po)) cs)
      trow_i;
    if lockstep > 1 then oracle_fail "sample_sor_follows_model" (site ^ "::sampleSOR")
        (string_of_int lockstep ^ " of " ^ string_of_int n ^ " samples used the same draw for next state and observation");
    if same = 1 then oracle_fail "sample_sor_follows_model" (site ^ "::constructor")
        "the MDP layer's engine and the POMDP layer's engine are in the same state after construction: sampleSOR draws the observation with the next-state draw";
    (* C: the tables the getters return are the tables of the case *)
    if not (vec_eq trow_i (List.nth (List.nth p_in a) s)) then disagree "stored_transition_row" site "differ";
    List.iteri (fun s1 row -> if not (vec_eq row (List.nth (List.nth ob_in a) s1)) then disagree "stored_observation_row" site "differ") orows_i;
    (ns > 1 && no > 1, "sorfreq." ^ variant)
  (* ------------------------------------------------------------------ CooperativeModel *)
  | "coop" ->
    let sz = next_nats c in let az = next_nats c in
    let nf = List.length sz in
    let rec take k f = if k = 0 then [] else let x = f () in x :: take (k - 1) f in
    let tables = take nf (fun () ->
        let _agents = next_nats c in let npa = next_int c in
        let _parents = take npa (fun () -> next_nats c) in
        next_qs c) in
    let nb = next_int c in
    let bases = take nb (fun () -> let tag = next_nats c in let atag = next_nats c in let vals = next_qs c in (tag, atag, vals)) in
    let s = next_nats c in let a = next_nats c in let us = next_qs c in
    let site = "CooperativeModel" in
    if (not (at_end r)) && is_crash (peek r) then oracle_fail "no_UB" site "abnormal termination";
    (* reward tables as matrices: rows = prod S[tag], cols = prod A[atag] *)
    let space_of keys space = List.fold_left (fun acc k -> acc * ni (List.nth space (ni k))) 1 keys in
    let rec chunk k l = if l = [] then [] else (List.filteri (fun i _ -> i < k) l) :: chunk k (List.filteri (fun i _ -> i >= k) l) in
    let mbases = List.map (fun (tag, atag, vals) -> ((tag, atag), chunk (space_of atag az) vals)) bases in
    let exp_rews = coop_rewards sz az mbases s a in
    let exp_rew = coop_reward sz az mbases s a in
    (* the model's own rows *)
    let rows = take nf (fun () -> next_qs r) in
    List.iteri (fun i row ->
        let w = ni (List.nth sz i) in
        if List.length row <> w then failwith "coop: row width";
        if not (List.exists (fun cand -> vec_eq cand row) (chunk w (List.nth tables i))) then disagree "coop_row" site "the row selected by the DDN is not a row of the feature's table") rows;
    let erew = next_q r in
    if not (q_eq erew exp_rew) then oracle_fail "coop_reward_table" (site ^ "::getExpectedReward") ("getExpectedReward " ^ string_of_q erew ^ " is not the sum of the reward table entries " ^ string_of_q exp_rew);
    let chk_next site us_req =
      let dr = next_qs r in let s1 = next_list r next_idx in
      List.iter2 check_replay us_req dr;
      if List.length s1 <> nf then oracle_fail "coop_next_in_range" site "wrong number of features";
      List.iteri (fun i k ->
          let row = List.nth rows i in let u = List.nth dr i in
          if k < 0 || k >= ni (List.nth sz i) then oracle_fail "coop_next_in_range" site ("feature " ^ string_of_int i ^ " = " ^ idx_str k ^ " out of range");
          if not (dense_selb row u (nat_of_int k)) then oracle_fail "sample_sr_follows_model" site ("feature " ^ string_of_int i ^ " = " ^ string_of_int k ^ " outside its interval of the model's own row for u=" ^ string_of_q u)) s1;
      let m1 = coop_next rows dr in
      if List.map ni m1 <> s1 then disagree "coop_next" site "model/impl differ" in
    let part k = List.filteri (fun i _ -> i / nf = k) us in
    chk_next (site ^ "::sampleSR") (part 0);
    let rew = next_q r in
    if not (q_eq rew exp_rew) then oracle_fail "coop_reward_table" (site ^ "::sampleSR") ("reward " ^ string_of_q rew ^ " is not the sum of the reward table entries " ^ string_of_q exp_rew);
    let chk_rews site =
      let rews = next_qs r in
      if not (vec_eq rews exp_rews) then oracle_fail "coop_reward_table" site
          ("per-basis rewards " ^ str_qs rews ^ " are not the entries of the model's reward tables " ^ str_qs exp_rews ^ " (sampleSR gives " ^ string_of_q rew ^ ")") in
    chk_next (site ^ "::sampleSRs") (part 1); chk_rews (site ^ "::sampleSRs");
    chk_next (site ^ "::sampleSRs(ptr)") (part 2); chk_rews (site ^ "::sampleSRs(ptr)");
    (nf > 1 || nb > 1, "coop")
  | k -> failwith ("unknown case kind " ^ k)

let () = main_loop judge
