(* ml/C08/driver.ml — judge for property C08.
   O (oracle): the spec clauses of C08/Spec.v evaluated on the implementation's outputs.
   C (correspondence): the extracted models of C08/Model.v against the implementation's outputs.
   O runs before C in every case kind. *)
open Model
open Vio

let ni = int_of_nat
let two64 = vio_qmake (z_of_string "18446744073709551616") XH
let tolg = q_of_ints 1 1000000000000          (* 1e-12: general-regime boundary tolerance *)
let tol9 = q_of_ints 1 1000000000             (* 1e-9 *)
let eps_small = q_of_ints 1 1000000

let q_floor (x : q) : q =
  let (d, _) = vio_z_div_eucl (vio_qnum x) (Zpos (vio_qden x)) in vio_qmake d XH

(* the value std::uniform_real_distribution<double>(0,1) yields for the raw word floor(u * 2^64) *)
let expected_u (u : q) : q = vio_qred (vio_qdiv (q_floor (q_mul u two64)) two64)

(* an index printed by the harness: anything unparsable, negative or huge is "out of range" (-1) *)
let next_idx (r : cursor) : int =
  match int_of_string_opt (next r) with Some k when k >= 0 && k < 1000000 -> k | _ -> -1
let idx_str i = if i < 0 then "<garbage>" else string_of_int i

let is_crash t = (t = "CRASH" || t = "SANITIZER" || t = "TIMEOUT")

let check_replay u_req u_drawn =
  if not (q_eq (expected_u u_req) u_drawn) then
    disagree "replay_generator" "uniform_real_distribution"
      ("requested " ^ string_of_q u_req ^ " drawn " ^ string_of_q u_drawn)

let rec pow2 n = if n <= 1 then n = 1 else n mod 2 = 0 && pow2 (n / 2)

let vec_close tol a b =
  List.length a = List.length b && List.for_all2 (fun x y -> q_close ~atol:tol ~rtol:tol x y) a b
let vec_eq a b = List.length a = List.length b && List.for_all2 q_eq a b
let nats_eq (a : nat list) (b : nat list) = List.map ni a = List.map ni b

let judge _id (c : cursor) (r : cursor) : bool * string =
  let kind = next c in
  match kind with
  (* ------------------------------------------------------------------ dense *)
  | "dense" ->
    let regime = next c in
    let p = next_qs c in let us = next_qs c in
    let n = List.length p in
    if (not (at_end r)) && is_crash (peek r) then oracle_fail "no_UB" "sampleProbability_dense" "abnormal termination";
    let m = next_int r in
    if m <> List.length us then failwith "dense: sweep length";
    List.iter (fun u_req ->
        let u = next_q r in let k1 = next_idx r in let k2 = next_idx r in
        check_replay u_req u;
        let site = "sampleProbability_dense" in
        List.iter (fun k -> if k < 0 || k >= n then oracle_fail "dense_in_range" site ("index " ^ idx_str k ^ " for u=" ^ string_of_q u)) [k1; k2];
        let i1 = nat_of_int k1 and i2 = nat_of_int k2 in
        List.iter (fun i ->
            let ok =
              if regime = "dy" then dense_selb p u i
              else dense_selb p u i || dense_selb p (q_add u tolg) i || (q_le tolg u && dense_selb p (q_sub u tolg) i) in
            if not ok then oracle_fail "dense_interval" site
                ("u=" ^ string_of_q u ^ " returned " ^ string_of_int (ni i) ^ " outside its cumulative interval")) [i1; i2];
        (* C *)
        let mi = sample_dense p u in
        let stable = regime = "dy" ||
                     (ni (sample_dense p (q_add u tolg)) = ni mi && (q_lt u tolg || ni (sample_dense p (q_sub u tolg)) = ni mi)) in
        if stable && (ni mi <> ni i1 || ni mi <> ni i2) then
          disagree "sample_dense" site ("u=" ^ string_of_q u ^ " impl " ^ string_of_int (ni i1) ^ "/" ^ string_of_int (ni i2) ^ " model " ^ string_of_int (ni mi)))
      us;
    (n > 1, "dense." ^ regime)
  (* ------------------------------------------------------------------ sparse *)
  | "sparse" ->
    let tag = next c in
    let _before = next_int c in let _after = next_int c in
    let d = next_nat c in
    let row = next_list c (fun c -> let col = next_nat c in let v = next_q c in (col, v)) in
    let us = next_qs c in
    let site = "sampleProbability_sparse" in
    let stored = qsum (List.map snd row) in
    let over = List.for_all (fun u -> q_le stored (expected_u u)) us in
    let inside = List.for_all (fun u -> q_lt (expected_u u) stored) us in
    if (tag = "over" && not over) || (tag = "in" && not inside) || (tag <> "over" && tag <> "in") then failwith "sparse: dishonest tag";
    if not (cols_ok O d row) then failwith "sparse: bad columns";
    let clause = if tag = "over" then "sparse_no_UB" else "sparse_eq_dense" in
    if (not (at_end r)) && is_crash (peek r) then
      oracle_fail (if tag = "over" then "sparse_no_UB" else "no_UB") site "abnormal termination (the scan left the row)";
    let p = expand d row in
    let m = next_int r in
    if m <> List.length us then failwith "sparse: sweep length";
    List.iter (fun u_req ->
        let u = next_q r in let k = next_idx r in
        check_replay u_req u;
        if k < 0 || k >= ni d then oracle_fail clause site ("index " ^ idx_str k ^ " out of range, u=" ^ string_of_q u);
        let i = nat_of_int k in
        if not (dense_selb p u i) then oracle_fail clause site
            ("u=" ^ string_of_q u ^ " returned " ^ string_of_int (ni i) ^ " outside its cumulative interval (stored mass " ^ string_of_q stored ^ ")");
        (* C: repaired loop; the loop as it stands must agree wherever it returns *)
        let mi = sample_sparse_fix d row u in
        if ni mi <> ni i then disagree "sample_sparse_fix" site ("u=" ^ string_of_q u ^ " impl " ^ string_of_int (ni i) ^ " model " ^ string_of_int (ni mi));
        (match sample_sparse row u with
         | Ok j -> if ni j <> ni i then disagree "sample_sparse" site "model of the current loop differs"
         | UB -> if tag <> "over" then disagree "sample_sparse" site "model walks off the row on an inside draw"))
      us;
    (List.length row > 1, "sparse." ^ tag)
  (* ------------------------------------------------------------------ alias *)
  | "alias" ->
    let regime = next c in
    let p = next_qs c in let us = next_qs c in
    let n = List.length p in
    let csite = "VoseAliasSampler::VoseAliasSampler" in
    let ssite = "VoseAliasSampler::sampleProbability" in
    if (not (at_end r)) && is_crash (peek r) then oracle_fail "no_UB" csite "abnormal termination";
    let prob = next_qs r in let alias_i = next_list r next_idx in
    let exact = regime = "dy" in
    if exact && not (pow2 n) then failwith "alias: dy regime needs n a power of two";
    (* O: every index has its mass *)
    if List.length prob <> n || List.length alias_i <> n then oracle_fail "alias_mass" csite "table of the wrong size";
    List.iter (fun a -> if a < 0 || a >= n then oracle_fail "alias_mass" csite "alias out of range") alias_i;
    let alias = List.map nat_of_int alias_i in
    if exact then begin
      if not (alias_table_ok p prob alias) then
        (* the known finding covers the tables the in-place construction as it stands is modelled to
           build ([vose_cur]); any other wrong table is reported under a site of its own *)
        let is_cur = (match vose_cur p with Some (cp, ca) -> vec_eq cp prob && nats_eq ca alias | None -> false) in
        oracle_fail "alias_mass" (if is_cur then csite else csite ^ "#unmodelled") ("masses " ^ str_qs (List.mapi (fun i _ -> alias_mass prob alias (nat_of_int i)) p) ^ " for p = " ^ str_qs p)
    end else
      List.iteri (fun i pi ->
          let mi = alias_mass prob alias (nat_of_int i) in
          if not (q_le (q_abs (q_sub mi pi)) tol9) then
            oracle_fail "alias_mass" csite ("index " ^ string_of_int i ^ " has mass " ^ string_of_float (float_of_q mi) ^ " instead of " ^ string_of_float (float_of_q pi))) p;
    (* C: table (exact regime) *)
    if exact then begin
      let (fp, fa) = vose_fix p in
      let same_fix = vec_eq fp prob && nats_eq fa alias in
      let same_cur = (match vose_cur p with Some (cp, ca) -> vec_eq cp prob && nats_eq ca alias | None -> false) in
      if not (same_fix || same_cur) then
        disagree "vose_table" csite ("impl prob " ^ str_qs prob ^ " alias " ^ str_nats alias ^ " ; repaired model prob " ^ str_qs fp ^ " alias " ^ str_nats fa)
    end;
    let m = next_int r in
    if m <> List.length us then failwith "alias: sweep length";
    List.iter (fun u_req ->
        let x = next_q r in let t = next r in
        let nq = q_of_int n in
        if t = "XRANGE" || q_lt x q_zero || q_le nq x then
          oracle_fail "alias_in_range" ssite ("uniform_real_distribution(0,n) returned " ^ string_of_q x);
        let k = (match int_of_string_opt t with Some k when k >= 0 && k < n -> k | _ -> oracle_fail "alias_in_range" ssite "index out of range") in
        let i = nat_of_int k in
        if not (q_le (q_abs (q_sub x (q_mul (expected_u u_req) nq))) (q_of_ints 1 1000000000000)) then
          disagree "replay_generator" "uniform_real_distribution" "x is not u*n";
        (* O: with a table of the right masses an index of probability zero is never returned *)
        if q_eq (List.nth p k) q_zero then
          oracle_fail "alias_support" ssite ("x=" ^ string_of_q x ^ " returned index " ^ string_of_int k ^ " which has probability 0");
        (match alias_sample prob alias x with
         | Ok j -> if ni j <> ni i then disagree "alias_sample" ssite ("x=" ^ string_of_q x ^ " impl " ^ string_of_int (ni i) ^ " model " ^ string_of_int (ni j))
         | UB -> disagree "alias_sample" ssite "model reads outside the table"))
      us;
    (n > 1, "alias." ^ regime)
  (* ------------------------------------------------------------------ makeRandomProbability *)
  | "randp" ->
    let s = next_int c in let us = next_qs c in
    let site = "makeRandomProbability" in
    if (not (at_end r)) && is_crash (peek r) then oracle_fail "no_UB" site "abnormal termination";
    let drawn = next_qs r in let out = next_qs r in
    if List.length drawn <> s - 1 || List.length us < s - 1 then failwith "randp: draws";
    List.iteri (fun k d -> check_replay (List.nth us k) d) drawn;
    if List.length out <> s then oracle_fail "random_prob_valid" site "wrong length";
    if not (is_distb out) then oracle_fail "random_prob_valid" site ("not a probability vector: " ^ str_qs out);
    let mo = random_prob drawn in
    if not (vec_eq mo out) then disagree "random_prob" site ("impl " ^ str_qs out ^ " model " ^ str_qs mo);
    (s > 2, "randp")
  (* ------------------------------------------------------------------ projectToProbability *)
  | "proj" ->
    let tag = next c in
    let v = next_qs c in
    let site = "projectToProbability" in
    let ps = possum v in let cnt = ni (poscount v) in
    let near a b = q_le (q_abs (q_sub a b)) eps_small in
    let real_tag =
      if near ps q_one then "one" else if cnt = 0 then "neg" else if near ps q_zero then "zero"
      else if q_lt q_one ps then "big" else "small" in
    if tag <> real_tag then failwith ("proj: dishonest tag, is " ^ real_tag);
    if (not (at_end r)) && is_crash (peek r) then oracle_fail "no_UB" site "abnormal termination";
    let out = next_qs r in
    (* O *)
    if List.length out <> List.length v then oracle_fail "project_valid" site "wrong length";
    if is_prob_tolb v && not (vec_eq out v) then
      oracle_fail "project_idempotent" site ("valid input changed into " ^ str_qs out);
    let so = qsum out in
    if not (nonnegb out && q_le (q_abs (q_sub so q_one)) (q_add eps_small tol9)) then
      oracle_fail "project_valid" site ("output " ^ str_qs out ^ " sums to " ^ string_of_q so);
    (* C: the repaired code, or the code as it stands where both meet the property *)
    if not (vec_close tol9 (project_fix v) out || vec_close tol9 (project_cur v) out) then
      disagree "project" site ("impl " ^ str_qs out ^ " model " ^ str_qs (project_fix v));
    (List.length v > 1, "proj." ^ tag)
  (* ------------------------------------------------------------------ sampleSR / sampleSOR *)
  | "sr" ->
    let variant = next c in
    let ns = next_int c in let na = next_int c in let no = next_int c in
    let rec take k f = if k = 0 then [] else let x = f () in x :: take (k - 1) f in
    let vecn n = take n (fun () -> next_q c) in
    let p = take na (fun () -> take ns (fun () -> vecn ns)) in
    let rw = take ns (fun () -> vecn na) in
    let ob = take na (fun () -> take ns (fun () -> vecn no)) in
    let s = next_nat c in let a = next_nat c in let m = next_int c in
    let md = { nS = nat_of_int ns; nA = nat_of_int na; p = p; r = rw; gam = q_of_ints 1 2 } in
    if not (wf_mdpb md) then failwith "sr: ill-formed model";
    let pmd = { pm = md; nO = nat_of_int no; ob = ob } in
    let site = (match variant with "dense" -> "MDP::Model::sampleSR" | "sparse" -> "MDP::SparseModel::sampleSR" | _ -> "POMDP::Model::sampleSOR") in
    if (not (at_end r)) && is_crash (peek r) then oracle_fail "no_UB" site "abnormal termination";
    if next_int r <> m then failwith "sr: sample count";
    let unit_ok u = q_le q_zero u && q_lt u q_one in
    for _ = 1 to m do
      let u1 = next_q r in let k1 = next_idx r in let rew = next_q r in
      if not (unit_ok u1) then oracle_fail "uniform_in_unit_interval" "uniform_real_distribution" (string_of_q u1);
      (* O: the next state lies in the interval of the model's own row, the reward is R(s,a) *)
      if k1 < 0 || k1 >= ns then oracle_fail "sample_sr_follows_model" site "next state out of range";
      if not (dense_selb (trow md s a) u1 (nat_of_int k1)) then
        oracle_fail "sample_sr_follows_model" site ("u=" ^ string_of_q u1 ^ " gave next state " ^ string_of_int k1 ^ " outside its interval of the transition row");
      if not (q_eq rew (List.nth (List.nth rw (ni s)) (ni a))) then oracle_fail "sample_sr_follows_model" site "reward is not R(s,a)";
      if variant = "pomdp" then begin
        let u2 = next_q r in let k2 = next_idx r in
        if not (unit_ok u2) then oracle_fail "uniform_in_unit_interval" "uniform_real_distribution" (string_of_q u2);
        if k2 < 0 || k2 >= no then oracle_fail "sample_sor_follows_model" site "observation out of range";
        if not (dense_selb (orow pmd (nat_of_int k1) a) u2 (nat_of_int k2)) then
          oracle_fail "sample_sor_follows_model" site ("u=" ^ string_of_q u2 ^ " gave observation " ^ string_of_int k2 ^ " outside its interval of the observation row");
        let ((ms1, mo), mr) = sample_sor pmd s a u1 u2 in
        if ni ms1 <> k1 || ni mo <> k2 || not (q_eq mr rew) then disagree "sample_sor" site "model/impl differ"
      end else begin
        let (ms1, mr) = sample_sr md s a u1 in
        if ni ms1 <> k1 || not (q_eq mr rew) then disagree "sample_sr" site ("u=" ^ string_of_q u1 ^ " impl " ^ string_of_int k1 ^ " model " ^ string_of_int (ni ms1))
      end
    done;
    (ns > 1, "sr." ^ variant)
  | k -> failwith ("unknown case kind " ^ k)

let () = main_loop judge
