(* ml/C15/driver.ml — judge for property C15 (factored LPs equal their flat formulation).
   O (oracle, on the implementation's outputs only):
     the weights returned by the real FactoredLP attain the flat optimum: the exact max-norm error
     max_x |Cw(x) - b(x)| (Coq-extracted [flat_maxerr], doubles -> exact Q) is within 1e-6 of the
     optimum of the FLAT LP (built by the harness over every joint assignment, solved through the
     same AIToolbox::LP wrapper); the flat LP's own solution is cross-checked the same way.
   C (correspondence, model vs implementation):
     the rows the real code pushes into lp_solve (recorded by link-time interposition) are exactly
     the rows of the Coq model [flp_rows] with the modelled bestVariableToRemove order (same
     columns, same order); the implementation's full primal solution satisfies the model's rows. *)
open Model
open Vio

let il = List.map int_of_nat
let read_bf c = let tag = next_nats c in let vals = next_qs c in { bfTag = tag; bfVals = vals }
let read_fv c = next_list c read_bf

let tol6 = q_of_ints 1 1000000
let tol5 = q_of_ints 1 100000
let coef_tol = q_of_ints 1 1000000000000
let tol9 = q_of_ints 1 1000000000
let rel_lp = q_of_ints 1 1000000000

(* ---------- rows in a comparable normal form: (rel, rhs, [(col, coef)] sorted, zeros dropped) ---------- *)
type nrow = { nrel : int (* 0 = Eq, 1 = Le, 2 = other *); nrhs : q; ncoefs : (int * q) list }

let norm_coefs (l : (int * q) list) : (int * q) list =
  let l = List.filter (fun (_, a) -> not (q_eq a q_zero)) l in
  List.sort (fun (c1, _) (c2, _) -> compare c1 c2) l

let nrow_of_model (r : row) : nrow =
  { nrel = (match r.rRel with REq -> 0 | RLe -> 1);
    nrhs = r.rRhs;
    ncoefs = norm_coefs (List.map (fun (c, a) -> (int_of_nat c, a)) r.rCoefs) }

let read_rec_row (r : cursor) : nrow * int =
  let ty = next_int r in let rhs = next_q r in let ncols = next_int r in
  let nz = next_list r (fun r -> let c = next_int r in let a = next_q r in (c, a)) in
  ({ nrel = (match ty with 3 -> 0 | 1 -> 1 | _ -> 2); nrhs = rhs; ncoefs = norm_coefs nz }, ncols)

let str_nrow (r : nrow) =
  (String.concat " " (List.map (fun (c, a) -> Printf.sprintf "%s*x%d" (string_of_q a) c) r.ncoefs))
  ^ (match r.nrel with 0 -> " = " | 1 -> " <= " | _ -> " ?? ") ^ string_of_q r.nrhs

let nrow_eq (a : nrow) (b : nrow) =
  a.nrel = b.nrel && q_eq a.nrhs b.nrhs && List.length a.ncoefs = List.length b.ncoefs
  && List.for_all2 (fun (c1, x1) (c2, x2) -> c1 = c2 && q_close ~atol:coef_tol ~rtol:coef_tol x1 x2) a.ncoefs b.ncoefs

let compare_rows (site : string) (model : row list) (recd : nrow list) =
  let m = List.map nrow_of_model model in
  if List.length m <> List.length recd then
    disagree "constraint_rows" site (Printf.sprintf "model pushes %d rows, implementation %d" (List.length m) (List.length recd));
  List.iteri (fun i (a, b) ->
      if not (nrow_eq a b) then
        disagree "constraint_rows" site (Printf.sprintf "row %d: model [%s] impl [%s]" i (str_nrow a) (str_nrow b)))
    (List.combine m recd)

let read_recorder (r : cursor) : nrow list * int * int * q list =
  expect r "ROWS";
  let rows = next_list r (fun r -> fst (read_rec_row r)) in
  expect r "SOL";
  let res = next_int r in let ncols = next_int r in let sol = next_qs r in
  (rows, res, ncols, sol)

(* joint assignments in index order (first factor fastest), as Coq nat lists *)
let all_assign_idx (s : nat list) : nat list list =
  let sp = il s in
  let n = List.fold_left ( * ) 1 sp in
  List.init n (fun i -> let r = ref i in List.map (fun d -> let x = !r mod d in r := !r / d; nat_of_int x) sp)

exception Solver_gave_up of string

(* one call of FactoredLP::operator() on the state space [s]: case tokens <addConst> <C> <b>, impl tokens as
   printed by the harness's runFlpCall.  The model is a function of the call's inputs only — a call
   on an already used object must build the same system as a call on a fresh one. *)
let judge_flp_call (s : nat list) (c : cursor) (r : cursor) : bool * string =
    let site = "FactoredLP::operator()" in
    let ac = next_int c <> 0 in
    let cb = read_fv c in
    let bb = read_fv c in
    let ok = next_int r <> 0 in
    let w = next_qs r in
    let (rrows, res, ncols, sol) = read_recorder r in
    expect r "FLAT";
    let fok = next_int r <> 0 in
    let fobj = next_q r in
    let fw = next_qs r in
    let nw = int_of_nat (nweights cb ac) in
    (* model: the repaired code (constant basis without any basis named by rules over factor 0);
       [flp_system] is the unrepaired code for that input and the same system for every other *)
    let order = flp_order_r s cb bb ac in
    let (mrows, mn) = flp_system_r s cb bb ac order in
    let const_only = ac && cb = [] in
    let rows_form =
      (try compare_rows site mrows rrows; `Repaired
       with Disagreement _ as e ->
         if not const_only then `Mismatch e
         else (try compare_rows site (fst (flp_system s cb bb ac (flp_order s cb bb ac))) rrows; `Orig
               with Disagreement _ -> `Mismatch e)) in
    let clause = if const_only && rows_form = `Orig then "factored_projection_eq_flat_constant_without_basis"
                 else "factored_projection_eq_flat" in
    (* ---- O: the returned weights minimise the max-norm error (flat LP optimum) ---- *)
    if not ok && (res = 2 || res = 3) then oracle_fail clause site "LP reported infeasible/unbounded although the flat LP is always feasible and bounded";
    if not ok then begin
      (* solver gave up (NUMFAILURE / ACCURACYERROR ...): only the constraint system is compared *)
      (match rows_form with `Mismatch e -> raise e | _ -> ());
      raise (Solver_gave_up (if ac then "flp-const-solver-gave-up" else "flp-solver-gave-up"))
    end;
    if List.length w <> nw then oracle_fail clause site "wrong number of weights returned";
    if not fok then disagree "flat_reference" "LP::solve" "flat LP not solved";
    let e_fact = flat_maxerr s cb bb ac w in
    let fwts = List.filteri (fun i _ -> i < nw) fw in
    let e_flat = flat_maxerr s cb bb ac fwts in
    (* the flat LP's reported optimum must be attained by its own weights (sanity of the reference) *)
    if not (q_le e_flat (q_add fobj tol6)) then
      disagree "flat_reference" "LP::solve" (Printf.sprintf "flat LP objective %s but its weights have error %s" (string_of_q fobj) (string_of_q e_flat));
    if not (q_le e_fact (q_add fobj tol6)) then
      oracle_fail clause site
        (Printf.sprintf "max-norm error of the factored LP's weights %s exceeds the flat optimum %s" (string_of_q e_fact) (string_of_q fobj));
    if not (q_le fobj (q_add e_fact tol6)) then
      disagree "flat_reference" "LP::solve" (Printf.sprintf "flat LP objective %s above the error %s of the factored weights" (string_of_q fobj) (string_of_q e_fact));
    (* ---- C: rows pushed == model rows; implementation's solution satisfies the model's rows ---- *)
    (* the modelled heuristic order eliminates every variable once (also a theorem: code_order_ok) *)
    if List.sort compare (il order) <> List.init (List.length s) (fun i -> i) then
      disagree "order_ok" "FactorGraph::bestVariableToRemove" ("modelled order is not a permutation: " ^ str_nats order);
    (match rows_form with `Mismatch e -> raise e | _ -> ());
    if rows_form = `Repaired then begin
      if int_of_nat mn <> ncols then disagree "constraint_columns" site (Printf.sprintf "model %d columns, implementation %d" (int_of_nat mn) ncols);
      (match first_violated tol6 sol mrows with
       | Some i -> disagree "solution_feasible_in_model" site (Printf.sprintf "implementation's LP solution violates model row %d" (int_of_nat i))
       | None -> ());
      (* completeness direction on this instance: phi of the solution bounds the exact error *)
      let phi = List.nth sol nw in
      if not (q_le e_fact (q_add phi tol5)) then
        disagree "phi_bounds_error" site (Printf.sprintf "phi %s below exact error %s" (string_of_q phi) (string_of_q e_fact))
    end;
    let overlapping = List.exists (fun f -> List.length f.bfTag > 1) (cb @ bb) in
    (List.length s > 1 && overlapping, (if const_only then "flp-const-only" else if ac then "flp-const" else "flp"))

(* one call of LinearProgramming::operator() (case tokens = an mlp spec) *)
let judge_mlp_call (c : cursor) (r : cursor) : bool * string =
    let site = "LinearProgramming::solveLP" in
    let s = next_nats c in
    let a = next_nats c in
    let ns_f = List.length s in
    (* the DDN of the case (parent sets + conditional probability tables): the transition probability
       the Bellman form is stated with is C14's model of getTransitionProbability on THESE inputs —
       the exact product of the per-node entries — not what the implementation's accessor returns *)
    let pss = List.init ns_f (fun _ -> let ag = next_nats c in let fs = next_list c next_nats in { psAgents = ag; psFeatures = fs }) in
    let tm = List.init ns_f (fun _ ->
      let rows = next_int c in let cols = next_int c in
      List.init rows (fun _ -> List.init cols (fun _ -> next_q c))) in
    let ddn = List.fold_left (fun g ps -> match graph_push g ps with PushOk g' -> g' | _ -> failwith "generator: DDN parent set rejected by the model")
        (graph_new s a) pss in
    let read_bm cur =
      let tag = next_nats cur in let atag = next_nats cur in
      let rows = next_int cur in let cols = next_int cur in
      let vals = List.init rows (fun _ -> List.init cols (fun _ -> next_q cur)) in
      { bmTag = tag; bmATag = atag; bmVals = vals } in
    let rw = next_list c read_bm in
    let gam = next_q c in
    let h = read_fv c in
    let k = List.length h in
    (* implementation's outputs *)
    let solved = next_int r <> 0 in
    let w = next_qs r in
    let qv = next_qs r in
    let (rrows, res, ncols, sol) = read_recorder r in
    expect r "G";
    let g = next_list r read_bm in
    expect r "MDP";
    let ns = next_int r in let na = next_int r in
    let p = Array.of_list (next_qs r) in
    let rf = Array.of_list (next_qs r) in
    expect r "FLAT";
    let fok = next_int r <> 0 in
    let fobj = next_q r in
    let _fw = next_qs r in
    (* model (repaired makeResult) and the unrepaired variant *)
    let order = mlp_order s a h g rw gam in
    let ((mrows, mn), nfin) = mlp_system s a h g rw gam order in
    let ((orows, _), _) = mlp_system_orig s a h g rw gam order in
    let nfin = int_of_nat nfin in
    (* which modelled form of makeResult do the recorded rows have?  (decided before O so that the
       known defect — one row per final factor, >= 2 final factors — gets its own clause and every
       other violation keeps the plain one; a mismatch is raised after the O checks) *)
    let rows_form =
      (try compare_rows site mrows rrows; `Repaired
       with Disagreement _ as e -> (try compare_rows site orows rrows; `Orig with Disagreement _ -> `Mismatch e)) in
    let orig_form = (rows_form = `Orig) in
    let clause = if nfin >= 2 && orig_form then "mdp_lp_eq_flat_multi_component" else "mdp_lp_eq_flat" in
    let states = Array.of_list (all_assign_idx s) in
    if Array.length states <> ns then failwith "state count";
    let acts0 = Array.of_list (all_assign_idx a) in
    if Array.length acts0 <> na then failwith "action count";
    let hv = Array.init k (fun kk -> Array.init ns (fun st -> entry s (List.nth h kk) states.(st))) in
    let hval kk st = hv.(kk).(st) in
    (* exact joint transition probabilities from the case's tables *)
    let p_impl = p in
    let p = Array.make (ns * na * ns) q_zero in
    for st = 0 to ns - 1 do for ac = 0 to na - 1 do for s1 = 0 to ns - 1 do
      p.((st * na + ac) * ns + s1) <- vio_qred (getTransitionProbability ddn tm states.(st) acts0.(ac) states.(s1))
    done done done;
    (* exact g_k(s,a) = sum_s1 P h_k: is some entry non-zero but within the code's 1e-6 sparsity skip?
       (then bf_exact / bm_exact of mdp_lp_eq_flat do not hold and the LP clauses are not judged) *)
    let tiny_g = ref false in
    for kk = 0 to k - 1 do for st = 0 to ns - 1 do for ac = 0 to na - 1 do
      let t = ref q_zero in
      for s1 = 0 to ns - 1 do t := q_add !t (q_mul p.((st * na + ac) * ns + s1) (hval kk s1)) done;
      let gv = q_abs (vio_qred !t) in
      if q_lt q_zero gv && q_le gv tol6 then tiny_g := true
    done done done;
    let tiny_g = !tiny_g in
    let mean kk = let t = ref q_zero in for st = 0 to ns - 1 do t := q_add !t (hval kk st) done; vio_qdiv !t (q_of_int ns) in
    (* ---- O ---- *)
    if fok then begin
      (* lp_solve result codes: 2 = INFEASIBLE, 3 = UNBOUNDED are statements about the system;
         anything else (5 NUMFAILURE, 25 ACCURACYERROR, ...) is the solver giving up: outside the
         property (trusted base); the system itself is still compared row by row below *)
      if not solved && (res = 2 || res = 3) && not tiny_g then oracle_fail clause site
          (Printf.sprintf "the factored LP is reported %s although the flat LP over all (s,a) has optimum %s"
             (if res = 2 then "infeasible" else "unbounded") (string_of_q fobj));
      if solved then begin
      if List.length w <> k then oracle_fail clause site "wrong number of weights";
      let wa = Array.of_list w in
      let v = Array.init ns (fun st -> let t = ref q_zero in for kk = 0 to k - 1 do t := q_add !t (q_mul wa.(kk) (hval kk st)) done; vio_qred !t) in
      let backup st ac =
        let t = ref q_zero in
        for s1 = 0 to ns - 1 do t := q_add !t (q_mul p.((st * na + ac) * ns + s1) v.(s1)) done;
        vio_qred (q_add rf.(st * na + ac) (q_mul gam !t)) in
      (* magnitude of the terms of the backup (tolerances are relative to it: lp_solve and the double
         arithmetic of Q are accurate relative to the sizes involved, not absolutely) *)
      let vabs = Array.init ns (fun st -> let t = ref q_zero in for kk = 0 to k - 1 do t := q_add !t (q_abs (q_mul wa.(kk) (hval kk st))) done; vio_qred !t) in
      let backup_abs st ac =
        let t = ref q_zero in
        for s1 = 0 to ns - 1 do t := q_add !t (q_mul p.((st * na + ac) * ns + s1) vabs.(s1)) done;
        vio_qred (q_add (q_abs rf.(st * na + ac)) (q_mul gam !t)) in
      if not tiny_g then
      for st = 0 to ns - 1 do for ac = 0 to na - 1 do
        let tolb = q_add tol6 (q_mul rel_lp (q_add vabs.(st) (backup_abs st ac))) in
        if not (q_le (backup st ac) (q_add v.(st) tolb)) then
          oracle_fail clause site (Printf.sprintf "V_w(s) >= R + gamma P V_w violated at state %d action %d: %s < %s" st ac (string_of_q v.(st)) (string_of_q (backup st ac)))
      done done;
      let obj = let t = ref q_zero in for kk = 0 to k - 1 do t := q_add !t (q_mul wa.(kk) (mean kk)) done; !t in
      let tolo = q_mul tol5 (q_max q_one (q_max (q_abs obj) (q_abs fobj))) in
      if not tiny_g && not (q_le obj (q_add fobj tolo)) then
        oracle_fail clause site (Printf.sprintf "objective %s of the factored LP's weights above the flat optimum %s" (string_of_q obj) (string_of_q fobj));
      if not tiny_g && not (q_le fobj (q_add obj tolo)) then
        disagree "flat_reference" "LP::solve" (Printf.sprintf "flat optimum %s above the objective %s of feasible factored weights" (string_of_q fobj) (string_of_q obj));
      (* returned Q-function = R + gamma * P V_w at every (s,a) *)
      let qa = Array.of_list qv in
      if Array.length qa <> ns * na then oracle_fail "q_is_backup" "LinearProgramming::operator()" "wrong Q size";
      for st = 0 to ns - 1 do for ac = 0 to na - 1 do
        let tolq = q_mul tol9 (q_add q_one (backup_abs st ac)) in
        if not (q_le (q_abs (q_sub qa.(st * na + ac) (backup st ac))) tolq) then
          oracle_fail "q_is_backup" "LinearProgramming::operator()"
            (Printf.sprintf "Q(%d,%d) = %s but R + gamma P V_w = %s" st ac (string_of_q qa.(st * na + ac)) (string_of_q (backup st ac)))
      done done
      end
    end;
    (* ---- C ---- *)
    (* the model's accessor getTransitionProbability(Factors) against its C14 model on the case's tables
       (sequential product of dyadic entries: exact in double as long as it fits 53 bits) *)
    for i = 0 to ns * na * ns - 1 do
      if not (q_close ~atol:q_zero ~rtol:coef_tol p_impl.(i) p.(i)) then
        disagree "transition_probability" "DDN::getTransitionProbability"
          (Printf.sprintf "P(s1=%d | s=%d, a=%d): implementation %s, product of the per-node entries %s"
             (i mod ns) (i / (na * ns)) ((i / ns) mod na) (string_of_q p_impl.(i)) (string_of_q p.(i)))
    done;
    (* the returned Q-function against its model (C15.ModelQ.lp_result_q with g taken from the real
       backProject): operator*=(discount * v) then plusEqual(…, R), C14's models; compared through the
       flat value at every joint (s, a) (theorem q_is_backup is about this model) *)
    if solved then begin
      let conv (b : bm) : bm0 = { bmTag0 = b.bmTag; bmActionTag = b.bmATag; bmVals0 = b.bmVals } in
      let qm = plusEqualFM s a (scaleW2D (List.map conv g) (List.map (fun x -> vio_qmult gam x) w)) (List.map conv rw) in
      let acts = Array.of_list (all_assign_idx a) in
      let qa = Array.of_list qv in
      for st = 0 to ns - 1 do for ac = 0 to na - 1 do
        let mv = getValue2D s a qm states.(st) acts.(ac) in
        if not (q_close qa.(st * na + ac) mv) then
          disagree "lp_result_q" "LinearProgramming::operator()"
            (Printf.sprintf "Q(%d,%d): implementation %s, model %s" st ac (string_of_q qa.(st * na + ac)) (string_of_q mv))
      done done
    end;
    if List.sort compare (il order) <> List.init (List.length s + List.length a) (fun i -> i) then
      disagree "order_ok" "FactorGraph::bestVariableToRemove" ("modelled order is not a permutation: " ^ str_nats order);
    (* the unrepaired makeResult pushes one row per final factor: accepted as the other modelled
       form (its effect on the optimum is judged by O above) *)
    (match rows_form with `Mismatch e -> raise e | _ -> ());
    if int_of_nat mn <> ncols then disagree "constraint_columns" site "number of LP columns differs";
    if solved then begin
      match first_violated tol6 sol (if orig_form then orows else mrows) with
      | Some i -> disagree "solution_feasible_in_model" site (Printf.sprintf "implementation's LP solution violates model row %d" (int_of_nat i))
      | None -> ()
    end;
    (fok && solved && (ns_f > 1 || List.length a > 1),
     (if not fok then "mlp-flat-unsolved" else if not solved then "mlp-solver-gave-up" else if nfin >= 2 then "mlp-multi" else "mlp")
     ^ (if orig_form then "-origrows" else "") ^ (if tiny_g then "-tinyg" else ""))

(* a sequence of calls on ONE object: every call is judged exactly like a call on a fresh object *)
let judge_calls (n : int) (tag : string) (r : cursor) (one : unit -> bool * string) : bool * string =
  for i = 1 to n do
    expect r "CALL";
    (try ignore (one ())
     with
     | Solver_gave_up _ -> ()
     | OracleFail (cl, st, d) -> raise (OracleFail (cl, st, Printf.sprintf "call %d of %d on the same object: %s" i n d))
     | Disagreement (cl, st, d) -> raise (Disagreement (cl, st, Printf.sprintf "call %d of %d on the same object: %s" i n d)))
  done;
  (true, tag)

let judge_case (c : cursor) (r : cursor) : bool * string =
  let kind = next c in
  match kind with
  | "flp" -> let s = next_nats c in judge_flp_call s c r
  | "flpr" ->
    let s = next_nats c in
    let n = next_int c in
    judge_calls n "flp-reuse" r (fun () -> judge_flp_call s c r)
  | "mlp" -> judge_mlp_call c r
  | "mlpr" ->
    let n = next_int c in
    judge_calls n "mlp-reuse" r (fun () -> judge_mlp_call c r)
  | k -> failwith ("unknown case kind " ^ k)

let judge _id (c : cursor) (r : cursor) : bool * string =
  try judge_case c r with Solver_gave_up tag -> (false, tag)

let () = main_loop judge
