(* ml/C02/driver.ml — C02 (exact solvers = expectimax) and the C04 plan clauses on the same runs. *)
open Model
open Vio
open Pomdpio

let tol = q_of_ints 1 100000000          (* 1e-8 absolute on values of magnitude <= ~100 *)
let closeq a b = q_close ~atol:tol ~rtol:tol a b

let judge _id (c : cursor) (r : cursor) : bool * string =
  let kind = next c in
  match kind with
  | "solve" ->
    let alg = next c in let _repr = next c in let h = next_int c in
    let m = read_pomdp c in
    let s = int_of_nat m.pm.nS in
    let bs = read_beliefs c s in
    if not (wf_mdp1b m.pm) then failwith "generator produced an ill-formed MDP";
    let site = (match alg with "ip" -> "IncrementalPruning::operator()" | "wit" -> "Witness::operator()" | _ -> "LinearSupport::operator()") in
    (match peek r with "THROW" | "CRASH" | "TIMEOUT" | "SANITIZER" -> oracle_fail "solver_returns" site ("implementation did not return: " ^ String.concat " " (rest r)) | _ -> ());
    let _var = next r in
    let vf = read_vf r in
    if List.length vf <> h + 1 then oracle_fail "horizon_count" site "value function has wrong number of horizons";
    let last = List.nth vf h in
    (* O / C04: links in range and every entry is the back-up of its links *)
    (match vf with
     | v0 :: rest_ -> if not (check_vf tol m v0 rest_) then oracle_fail "entry_is_plan" site "an entry is not the plan of its links (or a link is out of range)"
     | [] -> oracle_fail "horizon_count" site "empty value function");
    (* O / C02: surface equals expectimax at every grid belief *)
    List.iter (fun b ->
        let ev = eV_r m (nat_of_int h) b in
        let vi = vbest last b in
        if not (closeq ev vi) then begin
          (* split by direction: above EV = unsound vector; below EV = incomplete set *)
          let clause = if q_lt ev vi then "solver_value_le_EV" else "solver_value_ge_EV" in
          oracle_fail clause site (Printf.sprintf "belief %s: EV=%s impl=%s" (str_qs b) (string_of_q ev) (string_of_q vi))
        end) bs;
    (* C: the model (pointwise pruning instance) gives the same surface; its schedule is ok *)
    if not (ops_ok m.nO) then disagree "ops_ok" "IncrementalPruning::operator()" "merge schedule does not cover the observations in order";
    if alg = "ip" then begin
      let mvf = ip_run prune_pw m (nat_of_int h) in
      let mlast = List.nth mvf h in
      List.iter (fun b ->
          if not (q_eq (vbest mlast b) (eV_r m (nat_of_int h) b)) then disagree "model_value_is_EV" "ip_run" "model surface differs from EV (model bug)";
          if not (closeq (vbest mlast b) (vbest last b)) then disagree "ip_surface" site "model and implementation surfaces differ") bs;
      (* every vector the implementation keeps (LP pruning) is one of the model's vectors (pointwise pruning keeps
         a superset; among equal vectors of duplicate actions either copy may survive, so actions are not compared here), at every horizon: exactly when |O| is a power of two (R/|O| exact), within 1e-8 otherwise *)
      let exact = List.mem (int_of_nat m.nO) [1; 2; 4; 8] in
      let same x y = if exact then q_eq x y else closeq x y in
      List.iteri (fun t il ->
          let ml = List.nth mvf t in
          List.iter (fun (ie : ventry) ->
              if not (List.exists (fun (me : ventry) -> List.length me.vals = List.length ie.vals && List.for_all2 same me.vals ie.vals) ml)
              then disagree "ip_vectors_subset" site (Printf.sprintf "horizon %d: an implementation vector is not among the model's vectors" t)) il) vf
    end;
    (h >= 2 && int_of_nat m.nO >= 2, alg)
  | "rtbss" ->
    let _repr = next c in let h = next_int c in let maxR = next_q c in
    let m = read_pomdp c in
    let b = next_qs c in
    let site = "RTBSS::sampleAction" in
    (match peek r with "THROW" | "CRASH" | "TIMEOUT" | "SANITIZER" -> oracle_fail "solver_returns" site "implementation did not return" | _ -> ());
    let ia = next_int r in let iv = q_of_float (float_of_string (next r)) in
    let ev = eV_r m (nat_of_int h) b in
    if not (closeq ev iv) then oracle_fail "rtbss_value" site (Printf.sprintf "EV=%s impl=%s" (string_of_q ev) (string_of_q iv));
    (* returned action attains the value *)
    let qa a =
      let na = nat_of_int a in
      let fut = List.fold_left (fun acc o -> q_add acc (eV_r m (nat_of_int (h - 1)) (tau_step_r m b na (nat_of_int o)))) q_zero
          (List.init (int_of_nat m.nO) (fun o -> o)) in
      q_add (rew_at m b na) (q_mul m.pm.gam fut) in
    if h >= 1 then begin
      if ia < 0 || ia >= int_of_nat m.pm.nA then oracle_fail "rtbss_action" site "action out of range";
      if not (closeq (qa ia) ev) then oracle_fail "rtbss_action" site "returned action does not attain the value"
    end;
    let (mv, ma) = rtbss_sim m maxR (nat_of_int h) b in
    if not (closeq mv iv) then disagree "rtbss_sim" site "model and implementation values differ";
    (* action compared only when the model's argmax is unique by a clear margin *)
    let margin_ok = List.for_all (fun a -> a = int_of_nat ma || q_lt (q_add (qa a) (q_of_ints 1 1000000)) ev)
        (List.init (int_of_nat m.pm.nA) (fun a -> a)) in
    if margin_ok && h >= 1 && ia <> int_of_nat ma then disagree "rtbss_action_model" site "model and implementation actions differ";
    (h >= 2, "rtbss")
  | k -> failwith ("unknown case kind " ^ k)

let () = main_loop judge
