(* ml/C02/driver.ml — C02 (exact solvers = expectimax) and the C04 plan clauses on the same runs. *)
open Model
open Vio
open Pomdpio

let tol = q_of_ints 1 100000000          (* 1e-8 absolute on values of magnitude <= ~100 *)
let closeq a b = q_close ~atol:tol ~rtol:tol a b


(* ---- Witness: transcript of the real LP answers (hook events) ---- *)
type wev = { wq : bool; wt : int; wa : int; wcand : q list; wans : q list option; wfound : ventry list }

let read_entry (r : cursor) : ventry =
  let a = next_nat r in let ob = next_nats r in
  let vs = next_list r (fun c -> q_of_float (float_of_string (next c))) in
  { vals = vs; act = a; obs = ob }

let read_wevents (r : cursor) : wev list =
  let n = next_int r in
  take_n n (fun () ->
      let k = next r in let t = next_int r in let a = next_int r in
      let (cand, ans) =
        if k = "Q" then begin
          let cand = next_list r (fun c -> q_of_float (float_of_string (next c))) in
          let has = next_int r in
          let b = next_list r (fun c -> q_of_float (float_of_string (next c))) in
          (cand, if has = 1 then Some b else None)
        end else ([], None) in
      let nf = next_int r in
      let found = take_n nf (fun () -> read_entry r) in
      { wq = (k = "Q"); wt = t; wa = a; wcand = cand; wans = ans; wfound = found })

(* untrusted search for the certificate of a "no witness" answer: the matrix game with payoff
   cand_s - row_u(s), solved in floating point by a tableau simplex with Bland's rule.
   Returns (weights over the rows, a candidate separating belief). *)
let game_solve (rows : q list list) (cand : q list) : float array * float array =
  let ns = List.length cand and nu = List.length rows in
  let c = Array.of_list (List.map float_of_q cand) in
  let u = Array.of_list (List.map (fun r -> Array.of_list (List.map float_of_q r)) rows) in
  let k = ref 1.0 in
  for s = 0 to ns - 1 do for j = 0 to nu - 1 do k := max !k (1.0 +. abs_float (c.(s) -. u.(j).(s))) done done;
  let nc = nu + ns in
  let tab = Array.make_matrix (ns + 1) (nc + 1) 0.0 in
  for s = 0 to ns - 1 do
    for j = 0 to nu - 1 do tab.(s).(j) <- c.(s) -. u.(j).(s) +. !k done;
    tab.(s).(nu + s) <- 1.0; tab.(s).(nc) <- 1.0
  done;
  for j = 0 to nu - 1 do tab.(ns).(j) <- -1.0 done;
  let basis = Array.init ns (fun s -> nu + s) in
  let eps = 1e-12 in
  let go = ref true and iters = ref 0 in
  while !go && !iters < 20000 do
    incr iters;
    let e = ref (-1) in
    (try for j = 0 to nc - 1 do if tab.(ns).(j) < -. eps then (e := j; raise Exit) done with Exit -> ());
    if !e < 0 then go := false else begin
      let l = ref (-1) and best = ref infinity in
      for i = 0 to ns - 1 do
        if tab.(i).(!e) > eps then begin
          let r = tab.(i).(nc) /. tab.(i).(!e) in
          if r < !best -. 1e-15 || (!l >= 0 && abs_float (r -. !best) <= 1e-15 && basis.(i) < basis.(!l)) then (best := r; l := i)
        end
      done;
      if !l < 0 then go := false else begin
        let p = tab.(!l).(!e) in
        for j = 0 to nc do tab.(!l).(j) <- tab.(!l).(j) /. p done;
        for i = 0 to ns do
          if i <> !l then begin
            let f = tab.(i).(!e) in
            if f <> 0.0 then for j = 0 to nc do tab.(i).(j) <- tab.(i).(j) -. f *. tab.(!l).(j) done
          end
        done;
        basis.(!l) <- !e
      end
    end
  done;
  let y = Array.make nu 0.0 in
  Array.iteri (fun i b -> if b < nu then y.(b) <- max 0.0 tab.(i).(nc)) basis;
  let x = Array.init ns (fun s -> max 0.0 tab.(ns).(nu + s)) in
  (y, x)

let normalise (a : float array) : q list option =
  let qs = Array.to_list (Array.map q_of_float a) in
  let tot = List.fold_left q_add q_zero qs in
  if q_le tot q_zero then None else Some (List.map (fun x -> vio_qred (vio_qdiv x tot)) qs)

let weps = q_of_ints 1 10000000           (* slack of a certified "no witness" answer: 1e-7 per unit of mass *)
let qdot a b = List.fold_left2 (fun acc x y -> q_add acc (q_mul x y)) q_zero a b
let vec_close a b = List.length a = List.length b && List.for_all2 closeq a b

let judge _id (c : cursor) (r : cursor) : bool * string =
  let kind = next c in
  match kind with
  | "solve" | "resolve" ->
    let alg = next c in let _repr = next c in
    (* resolve: the same solver object first solved another problem (skipped here); the answer for the second
       problem is judged exactly like a fresh solve *)
    if kind = "resolve" then begin let _ha = next_int c in let _ma = read_pomdp c in () end;
    let h = next_int c in
    let m = read_pomdp c in
    let s = int_of_nat m.pm.nS in
    let bs = read_beliefs c s in
    if not (wf_mdp1b m.pm) then failwith "generator produced an ill-formed MDP";
    let site = (match alg with "ip" -> "IncrementalPruning::operator()" | "wit" -> "Witness::operator()" | _ -> "LinearSupport::operator()") in
    (match peek r with "THROW" | "CRASH" | "TIMEOUT" | "SANITIZER" -> oracle_fail "solver_returns" site ("implementation did not return: " ^ String.concat " " (rest r)) | _ -> ());
    let _var = next r in
    let vf = read_vf r in
    if List.length vf <> h + 1 then oracle_fail "horizon_count" site "value function has wrong number of horizons";
    let last = List.nth vf h in
    (* O / C04: links in range and every entry is the back-up of its links *)
    (match vf with
     | v0 :: rest_ -> if not (check_vf tol m v0 rest_) then oracle_fail "entry_is_plan" site "an entry is not the plan of its links (or a link is out of range)"
     | [] -> oracle_fail "horizon_count" site "empty value function");
    (* O / C02: surface equals expectimax at every grid belief *)
    List.iter (fun b ->
        let ev = eV_r m (nat_of_int h) b in
        let vi = vbest last b in
        if not (closeq ev vi) then begin
          (* split by direction: above EV = unsound vector; below EV = incomplete set *)
          let clause = if q_lt ev vi then "solver_value_le_EV" else "solver_value_ge_EV" in
          oracle_fail clause site (Printf.sprintf "belief %s: EV=%s impl=%s" (str_qs b) (string_of_q ev) (string_of_q vi))
        end) bs;
    (* O / C02, at EVERY belief (theorem solver_surface_certified): each vector of the model's exact list is certified
       to be nowhere more than weps above the returned list; the weights are searched in floating point (untrusted)
       and checked by the extracted none_cert_ok.  A failed search with an exact separating belief is a violation. *)
    let mvf_all = ip_run prune_pw m (nat_of_int h) in
    let gamma = List.nth mvf_all h in
    let grows = List.map (fun (e : ventry) -> e.vals) last in
    let uncert = ref 0 in
    (* the slack is relative to the size of the values (1e-7 per unit of mass for values up to 1) *)
    let vmax = List.fold_left (fun acc (g : ventry) -> List.fold_left (fun a x -> q_max a (q_abs x)) acc g.vals) q_one gamma in
    let weps = q_mul weps vmax in
    List.iter (fun (g : ventry) ->
        let (y, x) = game_solve grows g.vals in
        match normalise y with
        | Some lam when none_cert_ok m.pm.nS weps grows g.vals lam -> ()
        | _ ->
          (match normalise x with
           | Some b when List.for_all (fun rw -> q_lt (q_add (qdot rw b) weps) (qdot g.vals b)) grows ->
             oracle_fail "solver_value_ge_EV" site
               (Printf.sprintf "belief %s (found by the certificate search): EV=%s impl=%s" (str_qs b)
                  (string_of_q (eV_r m (nat_of_int h) b)) (string_of_q (vbest last b)))
           | _ -> incr uncert)) gamma;
    (* C: the model (pointwise pruning instance) gives the same surface; its schedule is ok *)
    if not (ops_ok m.nO) then disagree "ops_ok" "IncrementalPruning::operator()" "merge schedule does not cover the observations in order";
    if alg = "ip" then begin
      let mvf = mvf_all in
      let mlast = List.nth mvf h in
      List.iter (fun b ->
          if not (q_eq (vbest mlast b) (eV_r m (nat_of_int h) b)) then disagree "model_value_is_EV" "ip_run" "model surface differs from EV (model bug)";
          if not (closeq (vbest mlast b) (vbest last b)) then disagree "ip_surface" site "model and implementation surfaces differ") bs;
      (* every vector the implementation keeps (LP pruning) is one of the model's vectors (pointwise pruning keeps
         a superset; among equal vectors of duplicate actions either copy may survive, so actions are not compared here), at every horizon: exactly when |O| is a power of two (R/|O| exact), within 1e-8 otherwise *)
      let exact = List.mem (int_of_nat m.nO) [1; 2; 4; 8] in
      let same x y = if exact then q_eq x y else closeq x y in
      List.iteri (fun t il ->
          let ml = List.nth mvf t in
          List.iter (fun (ie : ventry) ->
              if not (List.exists (fun (me : ventry) -> List.length me.vals = List.length ie.vals && List.for_all2 same me.vals ie.vals) ml)
              then disagree "ip_vectors_subset" site (Printf.sprintf "horizon %d: an implementation vector is not among the model's vectors" t)) il) vf
    end;

    let wtag = ref alg in
    if alg = "wit" then begin
      let evs = read_wevents r in
      let sN = m.pm.nS in
      (* O: every answer of the real LP is checked, not trusted *)
      let certs = List.map (fun e ->
          if not e.wq then (e, None) else begin
            let rows = List.map (fun (f : ventry) -> f.vals) e.wfound in
            match e.wans with
            | Some b ->
              let tol9 = q_of_ints 1 1000000000 in
              let okb = List.length b = s && List.for_all (fun x -> q_le (q_sub q_zero tol9) x) b
                        && q_le (q_abs (q_sub (List.fold_left q_add q_zero b) q_one)) tol9 in
              if not okb then oracle_fail "witness_answer_is_witness" site "the reported witness is not a belief";
              List.iter (fun rw -> if q_lt (q_add (qdot e.wcand b) tol9) (qdot rw b) then
                            oracle_fail "witness_answer_is_witness" site
                              (Printf.sprintf "timestep %d action %d: at the reported witness the candidate is below a row already found" e.wt e.wa)) rows;
              (e, None)
            | None ->
              if rows = [] then oracle_fail "witness_none_complete" site "no witness reported against an empty set of rows";
              let (y, x) = game_solve rows e.wcand in
              (match normalise y with
               | Some lam when none_cert_ok sN weps rows e.wcand lam -> (e, Some lam)
               | _ ->
                 (* no certificate: look for a belief that separates the candidate from all rows by more than the slack *)
                 (match normalise x with
                  | Some b when List.for_all (fun rw -> q_lt (q_add (qdot rw b) weps) (qdot e.wcand b)) rows ->
                    oracle_fail "witness_none_complete" site
                      (Printf.sprintf "timestep %d action %d: LP said no witness, but at belief %s the candidate beats every row found" e.wt e.wa (str_qs b))
                  | _ -> (e, None)))
          end) evs in
      let inconclusive = List.exists (fun (e, c) -> e.wq && e.wans = None && c = None) certs in
      wtag := (if inconclusive then "wit-inconclusive" else "wit-certified");
      if not inconclusive then begin
        (* C: the model's agenda loop, driven by this transcript through cert_oracle, reproduces U[a] of every timestep *)
        let find t a nrows cand =
          List.find_opt (fun (e, _) -> e.wq && e.wt = int_of_nat t && e.wa = int_of_nat a
                                       && List.length e.wfound = nrows && vec_close e.wcand cand) certs in
        let missing = ref false in
        let ans t a rows cand = match find t a (List.length rows) cand with
          | Some (e, _) -> e.wans
          | None -> missing := true; Some (List.map (fun _ -> q_zero) cand) in
        let lam t a rows cand = match find t a (List.length rows) cand with
          | Some (_, Some l) -> l | _ -> [] in
        let fb = List.init s (fun i -> if i = 0 then q_one else q_zero) in
        let orc = cert_oracle sN weps ans lam fb in
        for t = 1 to h do
          let w = List.nth vf (t - 1) in
          missing := false;
          (* a witness belief at which two different projection vectors tie (within 1e-9) for the maximum: the
             floating-point findBestAtPoint and the exact one may pick different entries there; such a timestep
             is ill-conditioned and is not compared *)
          let illcond () =
            let tol9 = q_of_ints 1 1000000000 in
            List.exists (fun e ->
                e.wq && e.wt = t && (match e.wans with
                    | None -> false
                    | Some b ->
                      List.exists (fun (pl : ventry list) ->
                          let vals_ = List.map (fun (p : ventry) -> (p.vals, qdot p.vals b)) pl in
                          let mx = List.fold_left (fun acc (_, v) -> q_max acc v) (snd (List.hd vals_)) vals_ in
                          let tops = List.filter (fun (_, v) -> q_le (q_sub mx v) tol9) vals_ in
                          (match tops with
                           | (v0, _) :: rest_ -> List.exists (fun (v1, _) -> not (List.for_all2 q_eq v0 v1)) rest_
                           | [] -> false)) (proj_row m w (nat_of_int e.wa)))) evs in
          let disagree cl st msg = if illcond () then (wtag := "wit-illcond"; raise Exit) else disagree cl st msg in
          (try
          let nq = List.length (List.filter (fun e -> e.wq && e.wt = t) evs) in
          (match wit_lists orc (nat_of_int (nq + 8)) (nat_of_int t) m w with
           | None ->
             if !missing then disagree "witness_transcript" site (Printf.sprintf "timestep %d: the model asks a witness query the implementation did not make" t);
             disagree "witness_lists" site (Printf.sprintf "timestep %d: the model's agenda loop needs more queries than the implementation made" t)
           | Some us ->
             if !missing then disagree "witness_transcript" site (Printf.sprintf "timestep %d: the model asks a witness query the implementation did not make" t);
             List.iteri (fun a (mu : ventry list) ->
                 match List.find_opt (fun e -> (not e.wq) && e.wt = t && e.wa = a) evs with
                 | None -> disagree "witness_lists" site (Printf.sprintf "timestep %d action %d: no list reported" t a)
                 | Some e ->
                   if List.length e.wfound <> List.length mu then
                     disagree "witness_lists" site (Printf.sprintf "timestep %d action %d: %d entries found, model finds %d" t a (List.length e.wfound) (List.length mu));
                   List.iter2 (fun (ie : ventry) (me : ventry) ->
                       if ie.act <> me.act || ie.obs <> me.obs || not (vec_close ie.vals me.vals) then
                         disagree "witness_lists" site (Printf.sprintf "timestep %d action %d: an entry differs from the model's" t a)) e.wfound mu) us;
             (* what the final pruning keeps comes from these lists *)
             let all = List.concat us in
             List.iter (fun (ie : ventry) ->
                 if not (List.exists (fun (me : ventry) -> vec_close me.vals ie.vals) all) then
                   disagree "witness_vectors_subset" site (Printf.sprintf "horizon %d: a returned vector is not among the vectors found" t)) (List.nth vf t))
           with Exit -> ())
        done
      end
    end;
    (h >= 2 && int_of_nat m.nO >= 2, !wtag ^ (if !uncert > 0 then "+uncertified" else ""))
  | "rtbss" ->
    let _repr = next c in let h = next_int c in let maxR = next_q c in
    let m = read_pomdp c in
    let b = next_qs c in
    let site = "RTBSS::sampleAction" in
    (match peek r with "THROW" | "CRASH" | "TIMEOUT" | "SANITIZER" -> oracle_fail "solver_returns" site "implementation did not return" | _ -> ());
    let ia = next_int r in let iv = q_of_float (float_of_string (next r)) in
    (* the same query on an RTBSS object that answered another query before: nothing may carry over *)
    let ia2 = next_int r in let iv2 = q_of_float (float_of_string (next r)) in
    if ia2 <> ia || not (q_eq iv2 iv) then oracle_fail "rtbss_reuse" site (Printf.sprintf "fresh object: action %d value %s; reused object: action %d value %s" ia (string_of_q iv) ia2 (string_of_q iv2));
    let ev = eV_r m (nat_of_int h) b in
    if not (closeq ev iv) then oracle_fail "rtbss_value" site (Printf.sprintf "EV=%s impl=%s" (string_of_q ev) (string_of_q iv));
    (* returned action attains the value *)
    let qa a =
      let na = nat_of_int a in
      let fut = List.fold_left (fun acc o -> q_add acc (eV_r m (nat_of_int (h - 1)) (tau_step_r m b na (nat_of_int o)))) q_zero
          (List.init (int_of_nat m.nO) (fun o -> o)) in
      q_add (rew_at m b na) (q_mul m.pm.gam fut) in
    if h >= 1 then begin
      if ia < 0 || ia >= int_of_nat m.pm.nA then oracle_fail "rtbss_action" site "action out of range";
      if not (closeq (qa ia) ev) then oracle_fail "rtbss_action" site "returned action does not attain the value"
    end;
    let (mv, ma) = rtbss_sim m maxR (nat_of_int h) b in
    if not (closeq mv iv) then disagree "rtbss_sim" site "model and implementation values differ";
    (* action compared only when the model's argmax is unique by a clear margin *)
    let margin_ok = List.for_all (fun a -> a = int_of_nat ma || q_lt (q_add (qa a) (q_of_ints 1 1000000)) ev)
        (List.init (int_of_nat m.pm.nA) (fun a -> a)) in
    if margin_ok && h >= 1 && ia <> int_of_nat ma then disagree "rtbss_action_model" site "model and implementation actions differ";
    (h >= 2, "rtbss")
  | k -> failwith ("unknown case kind " ^ k)

let () = main_loop judge
