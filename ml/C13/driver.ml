(* ml/C13/driver.ml — oracle (O): brute force over all joint actions with the Coq-extracted
   [payoff]; correspondence (C): the extracted VE model against the implementation. *)
open Model
open Vio

type rule_in = { keys : nat list; vals : nat list }

let next_pa c = let keys = next_nats c in let vals = next_nats c in { keys; vals }

let next_rules c : ((nat list * nat list) * q) list =
  next_list c (fun c -> let pa = next_pa c in let v = next_q c in ((pa.keys, pa.vals), v))

let ints l = List.map int_of_nat l
let nats_eq a b = ints a = ints b
let str_act a = "[" ^ str_nats a ^ "]"

let nontrivial_rules rs =
  List.length rs >= 2 && List.exists (fun ((k, _), _) -> List.length k >= 2) rs

(* connected components of the agents under "share a rule" *)
let components (n : int) (keysets : int list list) : int =
  let parent = Array.init n (fun i -> i) in
  let rec find i = if parent.(i) = i then i else (let r = find parent.(i) in parent.(i) <- r; r) in
  List.iter (fun ks -> match ks with [] -> () | k0 :: t -> List.iter (fun k -> parent.(find k) <- find k0) t) keysets;
  let roots = ref [] in
  for i = 0 to n - 1 do let r = find i in if not (List.mem r !roots) then roots := r :: !roots done;
  List.length !roots

let shape a rs =
  let n = List.length a in
  let ks = List.map (fun ((k, _), _) -> ints k) rs in
  let comps = components n ks in
  if rs = [] then "empty" else if comps = 1 then "connected" else "multi"

(* a rule set is complete when every key set it uses has a rule for each of its local joint
   actions (no implicitly-zero entry) *)
let complete (a_sp : nat list) (pas : (nat list * nat list) list) : bool =
  let keysets = List.sort_uniq compare (List.map (fun (k, _) -> ints k) pas) in
  List.for_all (fun ks ->
      let sizes = List.map (fun k -> int_of_nat (List.nth a_sp k)) ks in
      let total = List.fold_left ( * ) 1 sizes in
      let seen = List.sort_uniq compare (List.filter_map (fun (k, v) -> if ints k = ks then Some (ints v) else None) pas) in
      List.length seen = total) keysets

let n_rule_components (a_sp : nat list) (pas : (nat list * nat list) list) : int =
  let n = List.length a_sp in
  let ks = List.map (fun (k, _) -> ints k) pas in
  let mentioned = List.sort_uniq compare (List.concat ks) in
  components n ks - (n - List.length mentioned)

(* the exact comparison  x + sqrt p <= y + sqrt q  is Model.sqrt_sum_le (Spec.v, proved in ProofsSqrt.v) *)

let judge _id (c : cursor) (r : cursor) : bool * string =
  let kind = next c in
  let a_sp = next_nats c in
  match kind with
  | "ve" ->
    let order = next_nats c in
    let nsets = next_int c in
    let nt = ref false and tag = ref "ve" and tie = ref false in
    for s = 1 to nsets do
      let rs = next_rules c in
      let i_act = next_nats r in let i_val = next_q r in
      let site = "VariableElimination::operator()" in
      (* O *)
      if not (inrb a_sp i_act) then oracle_fail "ve_optimal" site ("set " ^ string_of_int s ^ ": action out of range " ^ str_act i_act);
      if not (q_eq i_val (payoff rs i_act)) then
        oracle_fail "ve_optimal" site (Printf.sprintf "set %d: reported value %s but payoff of returned action %s is %s" s (string_of_q i_val) (str_act i_act) (string_of_q (payoff rs i_act)));
      if not (is_upper rs a_sp i_val) then
        oracle_fail "ve_optimal" site (Printf.sprintf "set %d: value %s is not the maximum (opt = %s)" s (string_of_q i_val) (string_of_q (opt a_sp rs)));
      (* C *)
      let g = make_graph a_sp rs in
      let natural = List.init (List.length a_sp) nat_of_int in
      let horder = heur_order a_sp g in
      List.iter (fun (nm, ord) ->
          match ve a_sp rs ord with
          | None -> disagree "ve_model" site ("model refuses (agent without actions), order " ^ nm)
          | Some (m_act, m_val) ->
            if not (q_eq m_val i_val) then
              disagree "ve_value" site (Printf.sprintf "set %d order %s: model value %s impl %s" s nm (string_of_q m_val) (string_of_q i_val));
            if not (exact_check a_sp rs (m_act, m_val)) then
              disagree "ve_model_argmax" site (Printf.sprintf "set %d order %s: model action %s is not an argmax" s nm (str_act m_act));
            (* with the code's own elimination order the model reproduces the action too; a
               different action is legitimate only as another argmax (ties), so it is recorded in
               the tag, not reported *)
            if nm = "heuristic" && not (nats_eq m_act i_act) then tie := true)
        [("given", order); ("natural", natural); ("heuristic", horder)];
      if not (is_perm_of_seq (nat_of_int (List.length a_sp)) horder) then
        disagree "heur_order_perm" "FactorGraph::bestVariableToRemove" "modelled heuristic order is not a permutation";
      if nontrivial_rules rs then nt := true;
      tag := "ve-" ^ shape a_sp rs ^ (if !tie then "-otherargmax" else "")
    done;
    (!nt, !tag)
  | "ls" | "mp" | "rils" ->
    let site = (match kind with "ls" -> "LocalSearch::operator()" | "mp" -> "MaxPlus::operator()" | _ -> "ReusingIterativeLocalSearch::operator()") in
    if kind = "mp" then ignore (next_int c);
    if kind = "rils" then (ignore (next_int c); ignore (next_int c));
    let nsets = next_int c in
    let nt = ref false in
    let g0 = ref None in
    for s = 1 to nsets do
      let rs = next_rules c in
      let g_made = (match !g0 with Some g -> g | None -> let g = ls_make a_sp rs in g0 := Some g; g) in
      let i_act = next_nats r in let i_val = next_q r in
      if not (inrb a_sp i_act) then oracle_fail "approx_reports_true_value" site ("set " ^ string_of_int s ^ ": action out of range " ^ str_act i_act);
      if not (q_eq i_val (payoff rs i_act)) then
        oracle_fail "approx_reports_true_value" site (Printf.sprintf "set %d: reported %s, payoff of %s is %s" s (string_of_q i_val) (str_act i_act) (string_of_q (payoff rs i_act)));
      if not (q_le i_val (opt a_sp rs)) then
        oracle_fail "approx_le_opt" site (Printf.sprintf "set %d: reported %s exceeds opt %s" s (string_of_q i_val) (string_of_q (opt a_sp rs)));
      (* C: the modelled MakeGraph (first set) + UpdateGraph (this set) + evaluateGraph on the returned action *)
      let m_val = evaluate_graph a_sp (ls_update a_sp g_made rs) i_act in
      if not (q_eq m_val i_val) then
        disagree "evaluate_graph" "LocalSearch::evaluateGraph" (Printf.sprintf "set %d: model %s impl %s" s (string_of_q m_val) (string_of_q i_val));
      if nontrivial_rules rs then nt := true
    done;
    (!nt, kind)
  | "veq" | "lsq" | "mpq" | "rilsq" ->
    (* QFunction (FactoredVector) inputs: the function is the SUM of all bases, several of which may share a
       tag.  Each basis is expanded into one rule per local joint action; all checks then run on the rules. *)
    let site = (match kind with "veq" -> "VariableElimination::operator()" | "lsq" -> "LocalSearch::operator()"
                              | "mpq" -> "MaxPlus::operator()" | _ -> "ReusingIterativeLocalSearch::operator()") in
    if kind = "mpq" then ignore (next_int c);
    if kind = "rilsq" then (ignore (next_int c); ignore (next_int c));
    let nsets = next_int c in
    let nt = ref false in
    let g0 = ref None in
    let read_qf () =
      let bases = next_list c (fun c -> let tag = next_nats c in let vals = next_qs c in (tag, vals)) in
      let rules = List.concat_map (fun (tag, vals) ->
          if List.length vals <> int_of_nat (psize tag a_sp) then failwith "basis size";
          List.mapi (fun j v -> ((tag, pdec tag a_sp (nat_of_int j)), v)) vals) bases in
      (bases, rules) in
    for s = 1 to nsets do
      let (bases, rs) = read_qf () in
      let i_act = next_nats r in let i_val = next_q r in
      let clause = if kind = "veq" then "ve_optimal" else "approx_reports_true_value" in
      if not (inrb a_sp i_act) then oracle_fail clause site (Printf.sprintf "set %d: action out of range %s" s (str_act i_act));
      if not (q_eq i_val (payoff rs i_act)) then
        oracle_fail clause site (Printf.sprintf "set %d: reported %s, but the sum of all bases at %s is %s" s (string_of_q i_val) (str_act i_act) (string_of_q (payoff rs i_act)));
      if kind = "veq" then begin
        if not (is_upper rs a_sp i_val) then
          oracle_fail clause site (Printf.sprintf "set %d: value %s is not the maximum (opt = %s)" s (string_of_q i_val) (string_of_q (opt a_sp rs)));
        (match ve a_sp rs (heur_order a_sp (make_graph a_sp rs)) with
         | Some (_, m_val) -> if not (q_eq m_val i_val) then disagree "ve_value" site (Printf.sprintf "set %d: model %s impl %s" s (string_of_q m_val) (string_of_q i_val))
         | None -> disagree "ve_model" site "model refuses")
      end else begin
        if not (q_le i_val (opt a_sp rs)) then oracle_fail "approx_le_opt" site (Printf.sprintf "set %d: reported %s exceeds opt" s (string_of_q i_val));
        (* graph loading: MakeGraph (first QFunction) + UpdateGraph (this one): every node holds the SUM of its bases *)
        let g_made = (match !g0 with Some g -> g | None -> let g = ls_make a_sp rs in g0 := Some g; g) in
        let m_val = evaluate_graph a_sp (ls_update a_sp g_made rs) i_act in
        if not (q_eq m_val i_val) then disagree "evaluate_graph" "LocalSearch::evaluateGraph" (Printf.sprintf "set %d: model %s impl %s" s (string_of_q m_val) (string_of_q i_val))
      end;
      let tags = List.map fst bases in
      if List.length tags > List.length (List.sort_uniq compare (List.map ints tags)) then nt := true
    done;
    (!nt, kind)
  | "vemix" | "lsmix" | "mpmix" | "rilsmix" ->
    (* one maximiser object over a sequence of different action spaces *)
    let site = (match kind with "vemix" -> "VariableElimination::operator()" | "lsmix" -> "LocalSearch::operator()"
                              | "mpmix" -> "MaxPlus::operator()" | _ -> "ReusingIterativeLocalSearch::operator()") in
    let nseg = next_int c in
    let nt = ref false in
    for s = 1 to nseg do
      let a_s = next_nats c in
      let rs = next_rules c in
      let i_act = next_nats r in let i_val = next_q r in
      let clause = if kind = "vemix" then "ve_optimal" else "approx_reports_true_value" in
      if not (inrb a_s i_act) then oracle_fail clause site (Printf.sprintf "segment %d: action out of range %s" s (str_act i_act));
      if not (q_eq i_val (payoff rs i_act)) then
        oracle_fail clause site (Printf.sprintf "segment %d: reported %s, payoff of %s is %s" s (string_of_q i_val) (str_act i_act) (string_of_q (payoff rs i_act)));
      if kind = "vemix" then begin
        if not (is_upper rs a_s i_val) then
          oracle_fail clause site (Printf.sprintf "segment %d: value %s is not the maximum (opt = %s)" s (string_of_q i_val) (string_of_q (opt a_s rs)));
        (match ve a_s rs (heur_order a_s (make_graph a_s rs)) with
         | Some (_, m_val) -> if not (q_eq m_val i_val) then disagree "ve_value" site (Printf.sprintf "segment %d: model %s impl %s" s (string_of_q m_val) (string_of_q i_val))
         | None -> disagree "ve_model" site "model refuses")
      end else begin
        if not (q_le i_val (opt a_s rs)) then oracle_fail "approx_le_opt" site (Printf.sprintf "segment %d: reported %s exceeds opt" s (string_of_q i_val));
        let m_val = evaluate_graph a_s (ls_update a_s (ls_make a_s rs) rs) i_act in
        if not (q_eq m_val i_val) then disagree "evaluate_graph" "LocalSearch::evaluateGraph" (Printf.sprintf "segment %d: model %s impl %s" s (string_of_q m_val) (string_of_q i_val))
      end;
      if nontrivial_rules rs then nt := true
    done;
    ignore a_sp;
    (!nt, kind)
  | "move" ->
    let site = "MultiObjectiveVariableElimination::operator()" in
    let nobj = next_int c in
    let nsets = next_int c in
    let nt = ref false and tag = ref "move" in
    for s = 1 to nsets do
      let mo = next_list c (fun c -> let pa = next_pa c in let vs = next_qs c in (pa, vs)) in
      let per_obj = List.init nobj (fun k -> List.map (fun (pa, vs) -> ((pa.keys, pa.vals), List.nth vs k)) mo) in
      let vec a = List.map (fun rs -> payoff rs a) per_obj in
      let acts = all_actions a_sp in
      let vecs = List.map (fun a -> (a, vec a)) acts in
      let veq u v = List.for_all2 q_eq u v in
      let dom u v = (* u dominates v strictly *) List.for_all2 (fun x y -> q_le y x) u v && not (veq u v) in
      let front = List.filter (fun (_, v) -> not (List.exists (fun (_, u) -> dom u v) vecs)) vecs in
      let pas = List.map (fun (pa, _) -> (pa.keys, pa.vals)) mo in
      let clause = if complete a_sp pas then "move_pareto" else "move_pareto_missing_entries" in
      let n_ent = next_int r in
      let ents = List.init n_ent (fun _ -> let vs = next_qs r in let tk = next_nats r in let tv = next_nats r in (vs, tk, tv)) in
      (* C: the MOVE model, run with the code's own elimination order, returns the same set of
         value vectors.  O: that set is the Pareto front, each vector attained under its tag.
         In the regime of the known finding (missing entries) C runs first, so that the finding
         cannot hide a model / implementation mismatch. *)
      let check_c () =
        let zero_rules = List.map (fun (pa, _) -> ((pa.keys, pa.vals), q_zero)) mo in
        let horder = heur_order a_sp (make_graph a_sp zero_rules) in
        let m_res = move a_sp (List.map (fun (pa, vs) -> ((pa.keys, pa.vals), vs)) mo) horder in
        let m_vecs = List.map fst m_res and i_vecs = List.map (fun (vs, _, _) -> vs) ents in
        let subset xs ys = List.for_all (fun x -> List.exists (fun y -> List.length x = List.length y && veq x y) ys) xs in
        if not (subset m_vecs i_vecs && subset i_vecs m_vecs) then
          disagree "move_value_set" site (Printf.sprintf "set %d: model returns %d vectors {%s}, impl %d {%s}" s
            (List.length m_vecs) (String.concat "; " (List.map str_qs m_vecs)) (List.length i_vecs) (String.concat "; " (List.map str_qs i_vecs))) in
      let check_o () =
      (* each returned entry is attained by some joint action extending its tag *)
      List.iter (fun (vs, tk, tv) ->
          if List.length vs <> nobj then oracle_fail clause site "wrong vector length";
          let ok = List.exists (fun (a, v) -> compat tk tv a && veq v vs) vecs in
          if not ok then oracle_fail clause site
              (Printf.sprintf "set %d: returned vector (%s) is not the payoff of any joint action extending its tag [%s]=[%s]" s (str_qs vs) (str_nats tk) (str_nats tv));
          if not (List.exists (fun (_, v) -> veq v vs) front) then oracle_fail clause site
              (Printf.sprintf "set %d: returned vector (%s) is dominated" s (str_qs vs))) ents;
      (* no rule at all: the result type cannot even carry the dimension; the empty result is accepted *)
      if mo <> [] then List.iter (fun (a, v) ->
          if not (List.exists (fun (vs, _, _) -> veq v vs) ents) then oracle_fail clause site
              (Printf.sprintf "set %d: Pareto-optimal vector (%s) of action %s is missing from the result" s (str_qs v) (str_act a))) front in
      check_o (); check_c ();
      if List.length mo >= 2 then nt := true;
      tag := if complete a_sp pas then "move-complete" else "move-incomplete"
    done;
    (!nt, !tag)
  | "ucve" ->
    let site = "UCVE::operator()" in
    let logta = next_q c in
    let half = q_of_ints 1 2 in
    let nsets = next_int c in
    let nt = ref false and tag = ref "ucve" in
    for s = 1 to nsets do
      let rules = next_list c (fun c -> let pa = next_pa c in let m = next_q c in let b = next_q c in (pa, m, b)) in
      let rs_m = List.map (fun (pa, m, _) -> ((pa.keys, pa.vals), m)) rules in
      let rs_b = List.map (fun (pa, _, b) -> ((pa.keys, pa.vals), b)) rules in
      let pas = List.map (fun (pa, _, _) -> (pa.keys, pa.vals)) rules in
      (* regimes: a single key set (one factor: every elimination step has exactly one adjacent
         factor) must be optimal; several key sets in one component are the regime of the known
         pruning defect of endFactorCrossSum (bounds ignore the agent's own remaining factors) *)
      let n_keysets = List.length (List.sort_uniq compare (List.map (fun (k, _) -> ints k) pas)) in
      let clause = if not (complete a_sp pas) then "ucve_optimal_missing_entries"
        else if n_rule_components a_sp pas >= 2 then "ucve_optimal_multi_component"
        else if n_keysets >= 2 then "ucve_optimal_connected" else "ucve_optimal" in
      let i_act = next_nats r in let i_m = next_q r in let i_b = next_q r in
      if not (inrb a_sp i_act) then oracle_fail "ucve_optimal" site ("action out of range " ^ str_act i_act);
      let tm = payoff rs_m i_act and tb = payoff rs_b i_act in
      if not (q_eq i_m tm && q_eq i_b tb) then
        oracle_fail "ucve_reports_true_value" site (Printf.sprintf "set %d: reported (%s, %s), returned action %s has (%s, %s)" s (string_of_q i_m) (string_of_q i_b) (str_act i_act) (string_of_q tm) (string_of_q tb));
      let scale x = q_mul (q_mul x logta) half in
      let fl m b = float_of_q m +. sqrt (float_of_q (scale b)) in
      List.iter (fun a ->
          let m = payoff rs_m a and b = payoff rs_b a in
          if not (sqrt_sum_le m (scale b) tm (scale tb)) && fl m b > fl tm tb +. 1e-9 then
            oracle_fail clause site
              (Printf.sprintf "set %d: returned %s has ucb %.12g but %s has ucb %.12g (%s)" s (str_act i_act) (fl tm tb) (str_act a) (fl m b) (shape a_sp rs_m)))
        (all_actions a_sp);
      (* C: the UCVE model (same elimination order) returns the same (mean, bonus), or another
         pair of exactly the same ucb (tie) *)
      let mo_rs = List.map (fun (pa, m, b) -> ((pa.keys, pa.vals), [m; b])) rules in
      let zero_rules = List.map (fun (pa, _, _) -> ((pa.keys, pa.vals), q_zero)) rules in
      let horder = heur_order a_sp (make_graph a_sp zero_rules) in
      let (m_act, (m_m, m_b)) = ucve a_sp logta mo_rs horder in
      (* with the verification hook UCVE::verifBoundsObserver: the pruning bounds of every removal *)
      if (not (at_end r)) && peek r = "T" then begin
        ignore (next r);
        let tr = next_qs r in
        let m_tr = ucve_trace a_sp logta mo_rs horder in
        let m_flat = List.concat_map (fun (v, (xl, xu)) -> [q_of_int (int_of_nat v); xl; xu]) m_tr in
        if not (List.length tr = List.length m_flat && List.for_all2 q_eq tr m_flat) then
          disagree "ucve_bounds" "UCVE::Global::beginRemoval"
            (Printf.sprintf "set %d: (agent x_l x_u)* model [%s] impl [%s]" s (str_qs m_flat) (str_qs tr))
      end;
      if not (q_eq m_m i_m && q_eq m_b i_b) then begin
        if not (sqrt_sum_le m_m (scale m_b) i_m (scale i_b) && sqrt_sum_le i_m (scale i_b) m_m (scale m_b)) then
          disagree "ucve_model_value" site
            (Printf.sprintf "set %d: model %s (%s, %s), impl %s (%s, %s)" s (str_act m_act) (string_of_q m_m) (string_of_q m_b)
               (str_act i_act) (string_of_q i_m) (string_of_q i_b))
      end;
      if List.length rules >= 2 then nt := true;
      tag := "ucve-" ^ (if not (complete a_sp pas) then "incomplete" else if n_rule_components a_sp pas >= 2 then "multi" else if n_keysets >= 2 then "connected-multifactor" else "single")
    done;
    (!nt, !tag)
  | k -> failwith ("unknown case kind " ^ k)

let () = main_loop judge
