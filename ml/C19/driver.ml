(* ml/C19/driver.ml — judge for C19 (online planners: horizon + consistent tree).
   Per call of sampleAction the harness gives: returned action, the log of model calls (each with
   the planner's root visit counter at the time of the call) and the dumped tree.
   O (oracle, on the implementation's outputs alone):
     depth_le_horizon       every simulation (= maximal run of log entries with the same root
                            counter) makes at most `horizon` model calls
     tree_counts_invariant  Coq checker counts_okb on the dumped tree
     value_in_range         |V| <= maxR * sum_{k<h-d} disc^k at node depth d (while the horizons of
                            the history never shrink by more than one per step)
     action_valid           returned action < A
   C (correspondence): the extracted machine replays the log (actions / outcomes / root particles
     are inputs) and must predict the simulation boundaries, consume the log exactly, and produce
     the same tree (N, particles exact; V within 1e-9) and the same returned action.
   The machine is run with the *repaired* rollout length (fixes/C19-rollout-depth.patch) when the
   log respects the horizon, and with the expression /repo has today when it does not, so that the
   rest of the behaviour is still compared on the unrepaired tree; the horizon violation itself is
   then reported (after all other checks) as an oracle failure. *)
open Model
open Vio

let ioN = int_of_nat

type iev = { rootn : int; e : ev }

let parse_events (r : cursor) : iev list =
  expect r "LOG";
  next_list r (fun r ->
      let rootn = next_int r in
      let s = next_nat r in let a = next_nat r in let s1 = next_nat r in let o = next_nat r in
      let rw = next_q r in
      { rootn; e = { es = s; ea = a; es1 = s1; eo = o; er = rw } })

let rec parse_node (r : cursor) : node =
  let n = next_nat r in
  let b = next_nats r in
  let acts = next_list r (fun r ->
      let an = next_nat r in let av = next_q r in
      let ks = next_list r (fun r -> let k = next_nat r in let c = parse_node r in (k, c)) in
      Act (an, av, [], ks)) in
  Node (n, b, acts)

(* group consecutive events with the same root counter *)
let group_steps (evs : iev list) : int list =
  let rec go cur cnt acc = function
    | [] -> List.rev (if cnt > 0 then cnt :: acc else acc)
    | x :: t -> if cnt > 0 && x.rootn = cur then go cur (cnt + 1) acc t
                else go x.rootn 1 (if cnt > 0 then cnt :: acc else acc) t in
  go 0 0 [] evs

let rec split_groups (sizes : int list) (evs : iev list) : iev list list =
  match sizes with
  | [] -> []
  | n :: t ->
    let rec take k l acc = if k = 0 then (List.rev acc, l) else (match l with x :: r -> take (k - 1) r (x :: acc) | [] -> (List.rev acc, [])) in
    let (g, rest) = take n evs [] in g :: split_groups t rest

let sort_kids ks = List.sort (fun (a, _) (b, _) -> compare (ioN a) (ioN b)) ks

let rec tree_depth (n : node) : int =
  List.fold_left (fun m a -> List.fold_left (fun m (_, c) -> max m (1 + tree_depth c)) m (kids a)) 0 (acts n)

(* compare model tree m with implementation tree i *)
let rec cmp_tree (site : string) (path : string) (m : node) (i : node) : unit =
  if ioN (nN m) <> ioN (nN i) then disagree "tree_N" site (Printf.sprintf "node %s: N model %d impl %d" path (ioN (nN m)) (ioN (nN i)));
  if List.map ioN (bel m) <> List.map ioN (bel i) then disagree "tree_particles" site (Printf.sprintf "node %s: particles model [%s] impl [%s]" path (str_nats (bel m)) (str_nats (bel i)));
  if List.length (acts m) <> List.length (acts i) then disagree "tree_shape" site (Printf.sprintf "node %s: #actions model %d impl %d" path (List.length (acts m)) (List.length (acts i)));
  List.iteri (fun ai (am, ai_) ->
      let p = Printf.sprintf "%s/a%d" path ai in
      if ioN (aN am) <> ioN (aN ai_) then disagree "tree_N" site (Printf.sprintf "action %s: N model %d impl %d" p (ioN (aN am)) (ioN (aN ai_)));
      if not (q_close (aV am) (aV ai_)) then disagree "tree_V" site (Printf.sprintf "action %s: V model %s impl %s" p (string_of_q (aV am)) (string_of_q (aV ai_)));
      let km = sort_kids (kids am) and ki = sort_kids (kids ai_) in
      if List.map (fun (k, _) -> ioN k) km <> List.map (fun (k, _) -> ioN k) ki then disagree "tree_shape" site (Printf.sprintf "action %s: child keys differ" p);
      List.iter2 (fun (k, cm) (_, ci) -> cmp_tree site (Printf.sprintf "%s/k%d" p (ioN k)) cm ci) km ki)
    (List.combine (acts m) (acts i))

let q_of_nat_int n = q_of_ints n 1

(* ---------- rPOMCP: detailed dump ---------- *)
let rec parse_rnode (r : cursor) : rnode =
  let n = next_nat r in let v = next_q r in let av = next_q r in let best = next_nat r in
  let maxs = next_nat r in let km = next_q r in
  let tb = next_list r (fun r -> let s = next_nat r in let c = next_nat r in (s, (c, q_zero))) in
  let acts = next_list r (fun r ->
      let an = next_nat r in let avv = next_q r in
      let ks = next_list r (fun r -> let k = next_nat r in let c = parse_rnode r in (k, c)) in
      RAct (an, avv, [], ks)) in
  RNode (n, v, av, best, O, tb, maxs, km, acts)

let rec node_of_rnode (n : rnode) : node =
  Node (rN n, [], List.map (fun a -> Act (raN a, raV a, [], List.map (fun (k, c) -> (k, node_of_rnode c)) (rkids a))) (racts n))

let sorted_counts (t : (nat * (nat * q)) list) : (int * int) list =
  List.sort compare (List.map (fun (s, (c, _)) -> (ioN s, ioN c)) t)
let str_pairs l = String.concat " " (List.map (fun (a, b) -> Printf.sprintf "%d:%d" a b) l)

let rec cmp_rtree (entropy : bool) (site : string) (path : string) (m : rnode) (i : rnode) : unit =
  if ioN (rN m) <> ioN (rN i) then disagree "tree_N" site (Printf.sprintf "node %s: N model %d impl %d" path (ioN (rN m)) (ioN (rN i)));
  if sorted_counts (rtrack m) <> sorted_counts (rtrack i) then disagree "tree_particles" site (Printf.sprintf "node %s: tracking belief model [%s] impl [%s]" path (str_pairs (sorted_counts (rtrack m))) (str_pairs (sorted_counts (rtrack i))));
  if (not entropy) && ioN (rmaxS m) <> ioN (rmaxS i) then disagree "tree_maxS" site (Printf.sprintf "node %s: maxS_ model %d impl %d" path (ioN (rmaxS m)) (ioN (rmaxS i)));
  if not (q_close (rkm m) (rkm i)) then disagree "tree_knowledge" site (Printf.sprintf "node %s: knowledge measure model %s impl %s" path (string_of_q (rkm m)) (string_of_q (rkm i)));
  if not (q_close (rV m) (rV i)) then disagree "tree_V" site (Printf.sprintf "node %s: V model %s impl %s" path (string_of_q (rV m)) (string_of_q (rV i)));
  if not (q_close (rAV m) (rAV i)) then disagree "tree_V" site (Printf.sprintf "node %s: actionsV model %s impl %s" path (string_of_q (rAV m)) (string_of_q (rAV i)));
  if List.length (racts m) <> List.length (racts i) then disagree "tree_shape" site (Printf.sprintf "node %s: #actions model %d impl %d" path (List.length (racts m)) (List.length (racts i)));
  List.iteri (fun ai (am, ai_) ->
      let p = Printf.sprintf "%s/a%d" path ai in
      if ioN (raN am) <> ioN (raN ai_) then disagree "tree_N" site (Printf.sprintf "action %s: N model %d impl %d" p (ioN (raN am)) (ioN (raN ai_)));
      if not (q_close (raV am) (raV ai_)) then disagree "tree_V" site (Printf.sprintf "action %s: V model %s impl %s" p (string_of_q (raV am)) (string_of_q (raV ai_)));
      let srt ks = List.sort (fun (a, _) (b, _) -> compare (ioN a) (ioN b)) ks in
      let km = srt (rkids am) and ki = srt (rkids ai_) in
      if List.map (fun (k, _) -> ioN k) km <> List.map (fun (k, _) -> ioN k) ki then disagree "tree_shape" site (Printf.sprintf "action %s: child keys differ" p);
      List.iter2 (fun (k, cm) (_, ci) -> cmp_rtree entropy site (Printf.sprintf "%s/k%d" p (ioN k)) cm ci) km ki)
    (List.combine (racts m) (racts i))

(* the external function of the entropy variant, computed exactly as the C++ does (doubles, libm log) *)
let plogp (n : nat) (d : nat) : q =
  let p = float_of_int (ioN n) /. float_of_int (ioN d) in q_of_float (p *. log p)

(* rPOMCP visit counts on the dump: every action's N is the sum of its children's N; a node's N is at
   least the sum of its actions' N (the difference are its visits as a leaf); every non-root node
   holds exactly N particles *)
let rec rcounts_ok (is_root : bool) (n : rnode) : string option =
  let sa = List.fold_left (fun acc a -> acc + ioN (raN a)) 0 (racts n) in
  if ioN (rN n) < sa then Some "a node's N is smaller than the sum of its actions' N"
  else if (not is_root) && List.fold_left (fun acc (_, (c, _)) -> acc + ioN c) 0 (rtrack n) <> ioN (rN n) then Some "a non-root node does not hold exactly N particles"
  else List.fold_left (fun acc a -> match acc with Some _ -> acc | None ->
      if List.fold_left (fun s (_, c) -> s + ioN (rN c)) 0 (rkids a) <> ioN (raN a) then Some "an action's N differs from the sum of its observation children's N"
      else List.fold_left (fun acc (_, c) -> match acc with Some _ -> acc | None -> rcounts_ok false c) None (rkids a)) None (racts n)

(* value range on the implementation's tree: |V| <= maxr * geom disc (h - d) (+ tolerance) *)
let rec range_ok (disc : q) (maxr : q) (h : int) (d : int) (n : node) : (string * q * q) option =
  let bound = q_mul maxr (geom disc (nat_of_int (max 0 (h - d)))) in
  let tol = q_add (q_of_ints 1 1000000000) (q_mul (q_of_ints 1 1000000000) bound) in
  List.fold_left (fun acc a ->
      match acc with Some _ -> acc | None ->
        if ioN (aN a) > 0 && not (q_le (q_abs (aV a)) (q_add bound tol)) then Some (Printf.sprintf "depth %d" d, aV a, bound)
        else List.fold_left (fun acc (_, c) -> match acc with Some _ -> acc | None -> range_ok disc maxr h (d + 1) c) None (kids a))
    None (acts n)

(* margin between the best and the second best V (for comparing the returned action) *)
let best_margin (l : act list) : q option =
  let vs = List.map aV l in
  match List.sort (fun a b -> q_cmp b a) vs with
  | a :: b :: _ -> Some (q_sub a b)
  | _ -> None

let last_deferred : (string * string * string) option ref = ref None

let judge _id (c : cursor) (r : cursor) : bool * string =
  last_deferred := None;
  let kind = next c in
  let is_mcts = (match kind with "mcts" | "mctsv" -> true | "pomcp" | "rpomcp" -> false | k -> failwith ("unknown case kind " ^ k)) in
  let is_r = (kind = "rpomcp") in
  let entropy = if is_r then next_int c else 0 in
  let _seed = next c in
  let ns = next_int c in let na = next_int c in let _no = next_int c in let nk = next_int c in
  let disc0 = next_q c in
  (* the model's CURRENT discount: setter calls "D <disc>" between planner calls change it (the planners
     read model_.getDiscount() at use time); range_disc = the largest discount in force since the last
     call from scratch (the range bound is monotone in the discount, older estimates stay in the tree) *)
  let disc = ref disc0 in
  let range_disc = ref disc0 in
  let disc_changed = ref false in
  let rew_changed = ref false in
  let termv = Array.init ns (fun _ -> next_int c <> 0) in
  let maxr = ref q_zero in
  for _ = 1 to ns * na * nk do
    let _s1 = next_int c in let _o = next_int c in let rw = next_q c in
    maxr := q_max !maxr (q_abs rw)
  done;
  (* variable action space (mctsv): getA(s) = acnt.(s); otherwise the constant A *)
  let acnt = if kind = "mctsv" then Array.init ns (fun _ -> next_int c) else Array.make ns na in
  let ga_i (s : int) = if s >= 0 && s < ns then acnt.(s) else 1 in
  let ga (s : nat) : nat = nat_of_int (ga_i (ioN s)) in
  let _bsize = if is_mcts then 0 else next_int c in
  let iters = next_int c in let _expl = next_q c in
  let kk = if is_r then next_int c else 0 in
  let nops = next_int c in
  let term (s : nat) : bool = let i = ioN s in i < ns && termv.(i) in
  let a_n = nat_of_int na in let iters_n = nat_of_int iters in
  let site = if is_mcts then "MCTS::simulate" else if is_r then "rPOMCP::simulate" else "POMCP::simulate" in
  let tree = ref node0 in
  let prev_itree = ref node0 in
  let rtree = ref rnode0 in
  let prev_irtree = ref rnode0 in
  let pool : ev list ref = ref [] in
  let deferred : (string * string * string) option ref = ref None in
  let defer cl st d = match !deferred with None -> deferred := Some (cl, st, d); last_deferred := Some (cl, st, d) | Some _ -> () in
  let nontrivial = ref false in
  let promoted = ref 0 and restarted = ref 0 in
  let range_valid = ref true in
  let prev_h = ref (-1) in
  for opi = 0 to nops - 1 do
    let rec read_op () =
      let k = next c in
      if k = "D" then begin
        let d = next_q c in
        if not (q_eq d !disc) then disc_changed := true;
        disc := d; read_op ()
      end else if k = "W" then begin
        (* a reward of the model changes: the range bound uses the largest |reward| ever in force *)
        let _i = next_int c in let rw = next_q c in
        maxr := q_max !maxr (q_abs rw); rew_changed := true; read_op ()
      end else k in
    let opk = read_op () in
    if opk = "F" then range_disc := !disc else range_disc := q_max !range_disc !disc;
    (* ---- read the op and the implementation's outputs *)
    let (a1, a2, h, bvec) =
      if is_mcts then begin
        if opk = "F" then (let s = next_int c in let h = next_int c in (s, 0, h, []))
        else (let a = next_int c in let s1 = next_int c in let h = next_int c in (a, s1, h, []))
      end else begin
        if opk = "F" then (let b = List.init ns (fun _ -> next_q c) in let h = next_int c in (0, 0, h, b))
        else (let a = next_int c in let o = next_int c in let h = next_int c in (a, o, h, []))
      end in
    expect r "OP";
    let ret = next_int r in let _termcalls = next_int r in
    let evs = parse_events r in
    (* (re)start prediction: the particles beliefSize draws of sampleProbability give, from the given
       belief (call from scratch) or the uniform belief (restart), with a copy of the planner's engine *)
    let rs = if not is_mcts then (expect r "RS"; next_nats r) else [] in
    let isb = if is_r then (expect r "SB"; next_list r (fun r -> let s = next_nat r in let cn = next_nat r in (s, cn))) else [] in
    expect r "TREE";
    let irtree = if is_r then parse_rnode r else rnode0 in
    let itree = if is_r then node_of_rnode irtree else parse_node r in
    let opsite = Printf.sprintf "op%d(%s h=%d)" opi opk h in
    (* ---- O: oracle on the implementation's outputs *)
    let root_na = if is_mcts then ga_i (if opk = "F" then a1 else a2) else na in
    if root_na > 0 && ret >= root_na then oracle_fail "action_valid" (if is_mcts then "MCTS::sampleAction" else if is_r then "rPOMCP::sampleAction" else "POMCP::sampleAction") (Printf.sprintf "%s returned action %d >= A=%d" opsite ret root_na);
    (* every action ever passed to the generative model is legal in the state it is applied to *)
    List.iter (fun x ->
        let s = ioN x.e.es and a = ioN x.e.ea in
        if a >= ga_i s then oracle_fail "action_valid" (site ^ "/model-call") (Printf.sprintf "%s: the model was asked to sample action %d in state %d, which has %d actions" opsite a s (ga_i s)))
      evs;
    if is_r then begin
      (match rcounts_ok true irtree with
       | Some m -> oracle_fail "tree_counts_invariant" site (opsite ^ ": " ^ m)
       | None -> ());
      (* value range, max-of-belief variant, call from scratch: every knowledge measure (the only reward)
         lies in [0,1] (Proofs: r_update_km_unit), so every visited action's value at depth d should lie in
         [0, sum_{k<h-d} disc^k].  The real code violates the lower bound (value_in_range_rpomcp_refuted;
         known finding): the value handed to the parent, (N-1)*(V-oldV)+V, ignores that leaf visits of the
         node contributed 0. *)
      if entropy = 0 && opk = "F" && h > 0 then begin
        let one = q_of_ints 1 1 in
        match range_ok !disc one h 0 itree with
        | Some (w, v, b) -> oracle_fail "value_in_range" site (Printf.sprintf "%s: |V| = %s exceeds the %s bound %s" opsite (string_of_q v) w (string_of_q b))
        | None ->
          let rec neg (n : node) = List.exists (fun a -> (ioN (aN a) > 0 && q_lt (aV a) (q_of_ints (-1) 1000000)) || List.exists (fun (_, c) -> neg c) (kids a)) (acts n) in
          if neg itree then oracle_fail "value_in_range" site (opsite ^ ": a negative action value in the max-of-belief variant")
      end
    end else
    if not (counts_okb itree) then oracle_fail "tree_counts_invariant" site (opsite ^ ": a node's N differs from the sum of its actions' N in the dumped tree");
    let steps_i = group_steps evs in
    if h > 0 && List.length steps_i <> iters then disagree "iterations" site (Printf.sprintf "%s: %d simulations observed, %d requested" opsite (List.length steps_i) iters);
    if h = 0 && evs <> [] then disagree "iterations" site (opsite ^ ": model called with horizon 0");
    (* continuity of the logged chain (sanity of the observation itself) *)
    List.iter (fun g ->
        let rec chain = function
          | x :: (y :: _ as t) -> if ioN x.e.es1 <> ioN y.e.es then disagree "log_continuity" site (opsite ^ ": state argument is not the previously sampled state"); chain t
          | _ -> () in
        chain g;
        (match g with
         | x :: _ ->
           if is_mcts then begin
             let root_s = if opk = "F" then a1 else a2 in
             if ioN x.e.es <> root_s then disagree "log_continuity" site (opsite ^ ": simulation does not start from the root state")
           end else if is_r then begin
             (* rPOMCP keeps its sampling belief private: a simulation may only start from a state of
                the given belief's support (call from scratch), or from a state the model actually
                produced under (a, o) earlier in the history (advance into a simulated node) *)
             let s0 = ioN x.e.es in
             if not (List.exists (fun (s, cn) -> ioN s = s0 && ioN cn > 0) isb) then
               oracle_fail "particles_consistent" "rPOMCP::sampleBelief" (Printf.sprintf "%s: a simulation starts from state %d, which has no particle in the root's sampling belief [%s]" opsite s0 (str_pairs (List.map (fun (s, cn) -> (ioN s, ioN cn)) isb)));
             if opk = "F" then begin
               if s0 >= ns || q_eq (List.nth bvec s0) q_zero then oracle_fail "particles_consistent" "rPOMCP::sampleBelief" (Printf.sprintf "%s: a simulation starts from state %d, which has probability 0 in the given belief" opsite s0)
             end else begin
               let simulated = (match List.nth_opt (acts !prev_itree) a1 with
                   | Some an -> List.exists (fun (k, _) -> ioN k = a2) (kids an) | None -> false) in
               if simulated && not (List.exists (fun e -> ioN e.ea = a1 && ioN e.eo = a2 && ioN e.es1 = s0) !pool) then
                 oracle_fail "particles_consistent" "rPOMCP::sampleBelief" (Printf.sprintf "%s: a simulation starts from state %d, which the model never produced under (a=%d,o=%d)" opsite s0 a1 a2)
             end
           end else begin
             if not (List.exists (fun p -> ioN p = ioN x.e.es) (bel itree)) then oracle_fail "particles_consistent" site (opsite ^ ": simulation starts from a state that is not a root particle")
           end
         | [] -> ()))
      (split_groups steps_i evs);
    (* a call from scratch, and an advance that cannot reuse a subtree (observation never simulated under
       the action, or an empty stored belief), must start from the freshly resampled belief - not from
       whatever particles the planner was holding *)
    let restarted_here =
      (not is_mcts) && (opk = "F" ||
        (match List.nth_opt (acts !prev_itree) a1 with
         | None -> true
         | Some an -> (match List.find_opt (fun (k, _) -> ioN k = a2) (kids an) with
             | Some (_, ch) -> (not is_r) && bel ch = []
             | None -> true))) in
    if restarted_here && not is_r then begin
      if List.map ioN (bel itree) <> List.map ioN rs then
        oracle_fail "particles_consistent" (if opk = "F" then "POMCP::makeSampledBelief" else "POMCP::sampleAction/restart")
          (Printf.sprintf "%s: after a (re)start the root belief is [%s] but resampling the %s belief gives [%s]" opsite (str_nats (bel itree)) (if opk = "F" then "given" else "uniform") (str_nats rs))
    end;
    if restarted_here && is_r then begin
      let cnt l = List.sort compare (List.filter (fun (_, c) -> c > 0) l) in
      let exp_counts = List.sort_uniq compare (List.map ioN rs) |> List.map (fun s0 -> (s0, List.length (List.filter (fun x -> ioN x = s0) rs))) in
      if cnt (List.map (fun (s0, c0) -> (ioN s0, ioN c0)) isb) <> cnt exp_counts then
        oracle_fail "particles_consistent" (if opk = "F" then "rPOMCP::HeadBeliefNode" else "rPOMCP::sampleAction/restart")
          (Printf.sprintf "%s: after a (re)start the sampling belief is [%s] but resampling gives [%s]" opsite (str_pairs (cnt (List.map (fun (s0, c0) -> (ioN s0, ioN c0)) isb))) (str_pairs (cnt exp_counts)))
    end;
    (* POMCP fresh belief: particles must lie in the support of b *)
    if (not is_mcts) && (not is_r) && opk = "F" then
      List.iter (fun p -> let i = ioN p in
                  if i >= ns || q_eq (List.nth bvec i) q_zero then oracle_fail "particles_consistent" "POMCP::makeSampledBelief" (Printf.sprintf "%s: particle %d has probability 0 in the given belief" opsite i))
        (bel itree);
    (* value_is_mean at the root, from the implementation's outputs alone: every simulation's return
       is the discounted sum of its logged rewards and is averaged into the root action it started with;
       the starting point is the promoted child of the previous dump (or zeros after a (re)start) *)
    let base : act list =
      if opk = "F" then [] else
        (match List.nth_opt (acts !prev_itree) a1 with
         | None -> []
         | Some an -> (match List.find_opt (fun (k, _) -> ioN k = a2) (kids an) with
             | Some (_, ch) when is_mcts || bel ch <> [] -> acts ch
             | _ -> [])) in
    if h > 0 && (not is_r) && List.length (acts itree) = root_na then begin
      let na = root_na in
      let cnt = Array.make na 0 and sm = Array.make na q_zero in
      List.iter (fun g -> match g with
          | x :: _ -> let a = ioN x.e.ea in
            if a < na then begin
              cnt.(a) <- cnt.(a) + 1;
              sm.(a) <- vio_qred (q_add sm.(a) (disc_sum !disc (List.map (fun y -> y.e.er) g)))
            end
          | [] -> ()) (split_groups steps_i evs);
      List.iteri (fun a an ->
          let (n0, v0) = (match List.nth_opt base a with Some b -> (ioN (aN b), aV b) | None -> (0, q_zero)) in
          let n1 = n0 + cnt.(a) in
          if ioN (aN an) <> n1 then oracle_fail "value_is_mean" site (Printf.sprintf "%s: root action %d has N=%d after %d+%d returns" opsite a (ioN (aN an)) n0 cnt.(a));
          if n1 > 0 then begin
            let expect = vio_qdiv (q_add (q_mul v0 (q_of_ints n0 1)) sm.(a)) (q_of_ints n1 1) in
            if not (q_close ~atol:(q_of_ints 1 100000000) ~rtol:(q_of_ints 1 100000000) expect (aV an)) then
              oracle_fail "value_is_mean" site (Printf.sprintf "%s: root action %d: V=%s but the mean of the returns sampled through it is %s" opsite a (string_of_q (aV an)) (string_of_q expect))
          end) (acts itree)
    end;
    (* particles_consistent on the dumped tree: every particle below (action i, observation o) is
       the next state of a logged call with that action and observation (pool: all calls of the case) *)
    pool := !pool @ List.map (fun x -> x.e) evs;
    if not is_mcts then begin
      let rec chk (n : node) =
        List.iteri (fun i an ->
            List.iter (fun (o, ch) ->
                List.iter (fun p ->
                    if not (List.exists (fun e -> ioN e.ea = i && ioN e.eo = ioN o && ioN e.es1 = ioN p) !pool) then
                      oracle_fail "particles_consistent" site (Printf.sprintf "%s: particle %d under (a=%d,o=%d) was never sampled with that action and observation" opsite (ioN p) i (ioN o)))
                  (bel ch);
                chk ch) (kids an)) (acts n) in
      chk itree
    end;
    let depth_bad = not (steps_okb (nat_of_int h) (List.map nat_of_int steps_i)) in
    if depth_bad then
      defer "depth_le_horizon" site (Printf.sprintf "%s: a simulation made %d model calls with horizon %d" opsite (List.fold_left max 0 steps_i) h);
    (* horizons shrinking by more than one per step make old estimates legitimately exceed the new range *)
    if opk <> "F" && !prev_h >= 0 && h < !prev_h - 1 then range_valid := false;
    if opk = "F" then range_valid := true;
    prev_h := h;
    if is_r then begin
      (match !deferred with Some (cl, st, d) -> oracle_fail cl st d | None -> ());
      let sub = opk <> "F" && (match List.nth_opt (acts !prev_itree) a1 with
          | Some an -> List.exists (fun (k, _) -> ioN k = a2) (kids an) | None -> false) in
      if opk <> "F" then (if sub then incr promoted else incr restarted);
      (* O: promotion keeps exactly the stored particles: the new sampling belief is the tracking
         belief of the promoted child in the previous dump *)
      if sub then begin
        let prev_child = (match List.nth_opt (racts !prev_irtree) a1 with
            | Some an -> List.find_opt (fun (k, _) -> ioN k = a2) (rkids an) | None -> None) in
        (match prev_child with
         | Some (_, ch) ->
           (* zero-count entries (the max-belief phantom) carry no particle: only positive counts matter *)
           let pos l = List.filter (fun (_, cn) -> cn > 0) l in
           if pos (sorted_counts (rtrack ch)) <> pos (List.sort compare (List.map (fun (s, cn) -> (ioN s, ioN cn)) isb)) then
             oracle_fail "promotion_keeps_subtree" "rPOMCP::sampleAction" (opsite ^ ": the new root's sampling belief is not the promoted node's tracking belief")
         | None -> ())
      end;
      (* C: replay on the rPOMCP machine *)
      let tr = List.map (fun x -> x.e) evs in
      let op = if opk = "F" then RFresh (isb, nat_of_int h) else RAdvance (nat_of_int a1, nat_of_int a2, nat_of_int h, isb) in
      (* hypothesis of particles_consistent_full_rpomcp, evaluated on the real log by the Coq checker *)
      if not (r_coh_op a_n term !disc (nat_of_int kk) (entropy <> 0) plogp iters_n !rtree op tr) then
        disagree "log_coherent" site (opsite ^ ": the log is not coherent with the planner's state threading (r_coh_op = false)");
      let (sb_m, (((g', act), tr'), steps_m)) = r_op a_n term !disc (nat_of_int kk) (entropy <> 0) plogp iters_n !rtree op tr in
      let steps_mi = List.map ioN steps_m in
      if steps_mi <> steps_i then disagree "simulation_boundaries" site (Printf.sprintf "%s: model calls per simulation: model [%s] impl [%s]" opsite (str_ints steps_mi) (str_ints steps_i));
      if tr' <> [] || List.fold_left (+) 0 steps_mi <> List.length evs then disagree "trace_consumed" site (opsite ^ ": the machine did not consume the log exactly");
      let srt l = List.filter (fun (_, cn) -> cn > 0) (List.sort compare (List.map (fun (s, cn) -> (ioN s, ioN cn)) l)) in
      if srt sb_m <> srt isb then disagree "sampling_belief" site (Printf.sprintf "%s: sampling belief model [%s] impl [%s]" opsite (str_pairs (srt sb_m)) (str_pairs (srt isb)));
      cmp_rtree (entropy <> 0) site (Printf.sprintf "op%d:" opi) g' irtree;
      (let vs = List.sort (fun a b -> q_cmp b a) (List.map raV (racts g')) in
       match vs with
       | x :: y :: _ when not (q_lt (q_of_ints 1 10000000) (q_sub x y)) -> ()
       | _ -> if h > 0 && ioN act <> ret then disagree "findBestA" site (Printf.sprintf "%s: returned action model %d impl %d" opsite (ioN act) ret));
      rtree := g';
      prev_irtree := irtree;
      if tree_depth itree >= 2 then nontrivial := true;
      prev_itree := itree
    end else begin
    (* ---- C: replay on the machine *)
    let rl = if depth_bad then rl_orig else rl_fixed in
    let tr = List.map (fun x -> x.e) evs in
    let (((g', act), tr'), steps_m) =
      if is_mcts then
        let op = if opk = "F" then MFresh (nat_of_int a1, nat_of_int h) else MAdvance (nat_of_int a1, nat_of_int a2, nat_of_int h) in
        mcts_op ga term !disc rl iters_n !tree op tr
      else
        let ps = rs in   (* makeSampledBelief's draws: the predicted resample, only used on a (re)start *)
        let op = if opk = "F" then PFresh (ps, nat_of_int h) else PAdvance (nat_of_int a1, nat_of_int a2, nat_of_int h, ps) in
        (* hypothesis of particles_consistent_full_pomcp, evaluated on the real log by the Coq checker *)
        if not (pomcp_coh_op a_n term !disc rl iters_n !tree op tr) then
          disagree "log_coherent" site (opsite ^ ": the log is not coherent with the planner's state threading (pomcp_coh_op = false)");
        pomcp_op a_n term !disc rl iters_n !tree op tr in
    if opk <> "F" then begin
      (* did the machine promote a subtree? (for the evidence histogram) *)
      let before = !tree in
      let sub = (try List.nth (acts before) a1 |> kids |> List.exists (fun (k, _) -> ioN k = a2) with _ -> false) in
      if sub then incr promoted else incr restarted
    end;
    let steps_mi = List.map ioN steps_m in
    if steps_mi <> steps_i then disagree "simulation_boundaries" site (Printf.sprintf "%s: model calls per simulation: model [%s] impl [%s]" opsite (str_ints steps_mi) (str_ints steps_i));
    if tr' <> [] || List.fold_left (+) 0 steps_mi <> List.length evs then disagree "trace_consumed" site (opsite ^ ": the machine did not consume the log exactly");
    cmp_tree site (Printf.sprintf "op%d:" opi) g' itree;
    (match best_margin (acts g') with
     | Some m when q_lt (q_of_ints 1 10000000) m || q_eq m q_zero ->
       (* exact ties are only compared when all V are exactly equal on both sides *)
       if q_eq m q_zero then begin
         if List.for_all2 (fun x y -> q_eq (aV x) (aV y)) (acts g') (acts itree) && ioN act <> ret then disagree "findBestA" site (Printf.sprintf "%s: returned action model %d impl %d" opsite (ioN act) ret)
       end else if ioN act <> ret then disagree "findBestA" site (Printf.sprintf "%s: returned action model %d impl %d" opsite (ioN act) ret)
     | Some _ -> ()
     | None -> if ioN act <> ret then disagree "findBestA" site (Printf.sprintf "%s: returned action model %d impl %d" opsite (ioN act) ret));
    (* value range (after C so that a horizon overrun is reported as such first) *)
    if !range_valid && h > 0 then
      (match range_ok !range_disc !maxr h 0 itree with
       | Some (w, v, b) -> defer "value_in_range" site (Printf.sprintf "%s: |V| = %s exceeds the %s bound %s" opsite (string_of_q v) w (string_of_q b))
       | None -> ());
    if tree_depth g' >= 2 then nontrivial := true;
    tree := g';
    prev_itree := itree
    end
  done;
  (match !deferred with Some (cl, st, d) -> oracle_fail cl st d | None -> ());
  (!nontrivial || !promoted > 0,
   Printf.sprintf "%s%s%s" (if is_r then (if entropy <> 0 then "rpomcp-entropy" else "rpomcp-maxbelief") else kind) (if !promoted > 0 then "+promote" else "") (if !restarted > 0 then "+restart" else "") ^ (if !disc_changed then "+setdisc" else "") ^ (if !rew_changed then "+setrew" else ""))

(* A horizon overrun that the known rollout-length expression does not explain (the machine run
   with rl_orig disagrees too) is reported as an oracle failure at a distinct site, so that it is
   never covered by the known finding and keeps its failing input. *)
let judge id c r =
  try judge id c r with
  | Disagreement (cl, st, d) when !last_deferred <> None ->
    (match !last_deferred with
     | Some (ocl, ost, od) -> raise (OracleFail (ocl, ost ^ "/unexplained", od ^ " ; and the machine with the known expression disagrees: " ^ cl ^ " " ^ d))
     | None -> raise (Disagreement (cl, st, d)))

let () = main_loop judge
