(* ml/C20/driver.ml — judge for property C20 (rule indexes).
   O: the implementation's outputs are compared with the independent spec (Spec.spec_outs: a
      brute-force compatibility scan over the abstract store) — exact equality.
   C: the extracted model of the (repaired) C++ (Model.trie_history true) is compared with the
      implementation's outputs — exact equality. *)
open Model
open Vio

let next_pf c : nat list * nat list = let k = next_nats c in let v = next_nats c in (k, v)

(* ops of a trie case, with the token that introduced each *)
let rec parse_trie_ops c acc =
  if at_end c then List.rev acc else begin
    let t = next c in
    let o = match t with
      | "i" -> OInsert (next_pf c)
      | "e" -> OErase (next_nat c)
      | "E" | "X" -> let id = next_nat c in let pf = next_pf c in OErasePf (id, pf)
      | "f" -> let f = next_nats c in let off = next_nat c in OFilterF (f, off)
      | "p" -> OFilterPf (next_pf c)
      | "r" -> let ids = next_nats c in let pf = next_pf c in ORefine (ids, pf)
      | "z" -> OSize
      | "a" -> OAllIds
      | "A" -> OFilterF ([], O)
      | _ -> failwith ("unknown op " ^ t) in
    parse_trie_ops c ((t, o) :: acc)
  end

let clause_site (t : string) : string * string =
  match t with
  | "i" -> ("insert_fresh_id", "Trie::insert")
  | "f" | "p" -> ("filter_exact", "Trie::filter")
  | "r" -> ("refine_exact", "Trie::refine")
  | "z" -> ("size_eq_card", "Trie::size")
  | "a" | "A" -> ("getAllIds_eq_dom", "Trie::getAllIds")
  | _ -> ("erase", "Trie::erase")

(* implementation numbers are read as machine ints first: a garbage value (e.g. a size read out of
   bounds) must not be turned into a unary nat *)
exception Garbage of string
let next_small r : nat =
  let t = next r in
  match int_of_string_opt t with
  | Some i when i >= 0 && i <= 1000000 -> nat_of_int i
  | _ -> raise (Garbage t)
let next_smalls r : nat list =
  let n = (match int_of_string_opt (next r) with Some i when i >= 0 && i <= 1000000 -> i | _ -> raise (Garbage "list length")) in
  List.init n (fun _ -> next_small r)

let read_out (r : cursor) (expected : out) : out =
  match expected with
  | RNone -> RNone
  | RNat _ -> RNat (next_small r)
  | RIds _ -> RIds (next_smalls r)

let str_out = function
  | RNone -> "-" | RNat n -> string_of_int (int_of_nat n) | RIds l -> "[" ^ str_nats l ^ "]"

let abnormal (r : cursor) (site : string) =
  if not (at_end r) then begin
    match peek r with
    | "CRASH" | "SANITIZER" | "TIMEOUT" -> oracle_fail "no_UB" site ("implementation terminated abnormally: " ^ String.concat " " (rest r))
    | _ -> ()
  end

let judge _id (c : cursor) (r : cursor) : bool * string =
  let kind = next c in
  match kind with
  | "trie" ->
    let f = next_nats c in
    expect c "ops";
    abnormal r "trie";
    if List.length f < 2 then begin
      (* constructor must reject; model: Throw *)
      (match trie_new f with
       | Throw -> ()
       | _ -> failwith "model did not throw on < 2 factors");
      let t = next r in
      if t <> "THROW" then oracle_fail "ctor_rejects" "Trie::Trie" "fewer than 2 factors accepted";
      (false, "trie-ctor-throw")
    end else begin
      (* several objects live side by side (copies); (spec state, model state) per object *)
      let t0 = (match trie_new f with Ok t -> t | _ -> failwith "model constructor") in
      let s = ref (O, []) and t = ref t0 in
      let slots = ref [| (!s, !t) |] and cur = ref 0 in
      let erased = ref false and partial = ref false and copies = ref false and big = ref false in
      while not (at_end c) do
        let tok = next c in
        match tok with
        | "cc" | "ca" | "mv" | "ma" ->
          !slots.(!cur) <- (!s, !t);
          t := trie_copy !t;
          slots := Array.append !slots [| (!s, !t) |]; cur := Array.length !slots - 1; copies := true
        | "sw" ->
          !slots.(!cur) <- (!s, !t);
          cur := next_int c; let (s', t') = !slots.(!cur) in s := s'; t := t'
        | _ ->
          let o = (match tok with
              | "i" -> OInsert (next_pf c)
              | "e" -> erased := true; OErase (next_nat c)
              | "E" | "X" -> let id = next_nat c in let pf = next_pf c in if tok = "E" then erased := true; OErasePf (id, pf)
              | "f" -> let ff = next_nats c in let off = next_nat c in OFilterF (ff, off)
              | "p" -> OFilterPf (next_pf c)
              | "r" -> let ids = next_nats c in let pf = next_pf c in ORefine (ids, pf)
              | "z" -> OSize
              | "a" -> OAllIds
              | "A" -> OFilterF ([], O)
              | _ -> failwith ("unknown op " ^ tok)) in
          if not (op_okb f !s o) then failwith "generator produced a history outside the preconditions";
          let (s', e) = spec_step !s o in
          let (cl, site) = clause_site tok in
          (* O: implementation vs spec *)
          let got = (try read_out r e with
              | Failure m -> oracle_fail "no_UB" "trie" ("short/garbled implementation output: " ^ m)
              | Garbage g -> oracle_fail cl site ("impl returned garbage " ^ g ^ ", spec " ^ str_out e)) in
          if not (out_eqb got e) then oracle_fail cl site ("impl " ^ str_out got ^ " spec " ^ str_out e);
          (match e with RIds l -> if l <> [] && List.length l < List.length (snd !s) then partial := true | _ -> ());
          if List.length (snd !s) >= 40 then big := true;
          (* C: model vs implementation *)
          (match trie_step true !t o with
           | Ok (t', m) -> if not (out_eqb got m) then disagree "trie_model" site ("impl " ^ str_out got ^ " model " ^ str_out m); t := t'
           | Throw -> disagree "trie_model" "Trie" "model throws"
           | UB -> disagree "trie_model" "Trie" "model reaches UB on an admissible history");
          s := s'
      done;
      let tag = "trie" ^ string_of_int (List.length f) ^ (if !erased then "+erase" else "") ^ (if !copies then "+copy" else "") ^ (if !big then "+big" else "") in
      ((!erased || !copies || !big) && !partial, tag)
    end
  | "ftrie" ->
    let f = next_nats c in
    expect c "ops";
    abnormal r "ftrie";
    let sorted l = List.sort compare (List.map int_of_nat l) in
    let s = ref (O, []) and t = ref (ft_new f) in
    let slots = ref [| (!s, !t) |] and cur = ref 0 in
    let erased = ref false and partial = ref false and recon = ref false in
    let std_op tok (o : op) =
      if not (ft_op_okb f !s o) then failwith "generator produced a FasterTrie history outside the preconditions";
      let (s', e) = spec_step !s o in
      let (cl, site) = (match tok with
          | "i" -> ("insert_fresh_id", "FasterTrie::insert") | "F" -> ("FasterTrie.filter_exact", "FasterTrie::filter")
          | "z" -> ("FasterTrie.size_eq_card", "FasterTrie::size") | _ -> ("erase", "FasterTrie::erase")) in
      let got = (try read_out r e with
          | Failure m -> oracle_fail "no_UB" "ftrie" ("short/garbled implementation output: " ^ m)
          | Garbage g -> oracle_fail cl site ("impl returned garbage " ^ g)) in
      let same a b = (match a, b with
          | RIds x, RIds y -> sorted x = sorted y          (* order of FasterTrie::filter is unspecified *)
          | _, _ -> out_eqb a b) in
      if not (same got e) then oracle_fail cl site ("impl " ^ str_out got ^ " spec " ^ str_out e);
      (match e with RIds l -> if l <> [] && List.length l < List.length (snd !s) then partial := true | _ -> ());
      (match ft_step !t o with
       | Ok (t', m) -> if not (same got m) then disagree "ftrie_model" site ("impl " ^ str_out got ^ " model " ^ str_out m); t := t'
       | _ -> disagree "ftrie_model" site "model reaches UB on an admissible history");
      s := s' in
    while not (at_end c) do
      let tok = next c in
      match tok with
      | "cc" | "ca" | "mv" | "ma" ->
        !slots.(!cur) <- (!s, !t);
        t := ft_copy !t;
        slots := Array.append !slots [| (!s, !t) |]; cur := Array.length !slots - 1; erased := true
      | "sw" ->
        !slots.(!cur) <- (!s, !t);
        cur := next_int c; let (s', t') = !slots.(!cur) in s := s'; t := t'
      | "i" -> std_op tok (OInsert (next_pf c))
      | "E" | "X" -> let id = next_nat c in let pf = next_pf c in if tok = "E" then erased := true; std_op tok (OErasePf (id, pf))
      | "F" -> std_op tok (OFilterF (next_nats c, O))
      | "z" -> std_op tok OSize
      | "R" ->
        let q = next_pf c in let remove = next_int c <> 0 in
        if not (pf_okb f q) then failwith "generator produced a reconstruct query outside the preconditions";
        let site = "FasterTrie::reconstruct" in
        let (entries, fs, orders, dump) = (try
            let n = (match int_of_string_opt (next r) with Some i when i >= 0 && i < 100000 -> i | _ -> raise (Garbage "count")) in
            let es = List.init n (fun _ -> let id = next_small r in let k = next_smalls r in let v = next_smalls r in (id, (k, v))) in
            let fs = next_smalls r in
            let no = (match int_of_string_opt (next r) with Some i when i >= 0 && i < 1000 -> i | _ -> raise (Garbage "orders")) in
            let orders = List.init no (fun _ -> next_smalls r) in
            let dump = List.map (fun sz -> List.init (int_of_nat sz) (fun _ -> next_smalls r)) f in
            (es, fs, orders, dump)
          with Failure m -> oracle_fail "no_UB" "ftrie" ("short/garbled implementation output: " ^ m)
             | Garbage g -> oracle_fail "reconstruct_compatible" site ("garbage " ^ g)) in
        (* O: the spec's demands on the returned entries and factors *)
        if not (reconstruct_okb f (snd !s) q entries fs) then
          oracle_fail "reconstruct_compatible" site
            ("returned entries are not all stored / compatible with the query / mutually compatible, or the factors are wrong: ids "
             ^ str_nats (List.map fst entries) ^ " factors " ^ str_nats fs);
        recon := true;
        (* C: the model, given the shuffles the implementation performed.  remove = false: the buckets
           are left in shuffled order, so the dump IS the shuffle.  remove = true: per bucket, a shuffle
           that yields the observed matched (M, in returned order) and kept (K, dump order) entries is
           M1, K2.., then reversed (M2.., K1): after a match the implementation looks at the back. *)
        let store = snd !s in
        let entry_of id = (match List.find_opt (fun (i, _) -> int_of_nat i = int_of_nat id) store with
            | Some e -> e | None -> disagree "reconstruct_state" site ("bucket holds id " ^ string_of_int (int_of_nat id) ^ " which is not stored")) in
        let first_pair (_, (ks, vs)) = (match ks, vs with k :: _, v :: _ -> (int_of_nat k, int_of_nat v) | _ -> (-1, -1)) in
        let keysS = List.mapi (fun i row -> List.mapi (fun v ids ->
            let kept = List.map entry_of ids in
            if not remove then kept else begin
              let m = List.filter (fun e -> first_pair e = (i, v)) entries in
              match m with
              | [] -> kept
              | m1 :: mrest ->
                (match kept with
                 | [] -> m1 :: List.rev mrest
                 | k1 :: krest -> (m1 :: krest) @ List.rev (mrest @ [k1]))
            end) row) dump in
        let ids_of b = List.sort compare (List.map (fun (i, _) -> int_of_nat i) b) in
        let mkeys = fkeys !t in
        if List.length mkeys <> List.length keysS
           || not (List.for_all2 (fun r1 r2 -> List.length r1 = List.length r2 && List.for_all2 (fun b1 b2 -> ids_of b1 = ids_of b2) r1 r2) mkeys keysS)
        then disagree "reconstruct_state" site "the buckets (with the returned entries put back) are not a permutation of the model's buckets";
        let (ord0, ordv) = (match orders with o0 :: rest -> (o0, rest) | [] -> disagree "reconstruct_state" site "no orders_") in
        (* hypothesis [orders_ok] of reconstruct_no_UB, checked on what the real shuffles left in orders_ *)
        let nf = List.length f in
        if not (List.for_all (fun o -> int_of_nat o < nf) ord0) || List.length ordv <> nf
           || not (List.for_all2 (fun sz vo -> vo <> [] && List.for_all (fun v -> int_of_nat v < int_of_nat sz) vo) f ordv)
        then disagree "reconstruct_state" site "orders_ is not a family of in-range, non-empty orders";
        (match ft_reconstruct !t q remove ord0 ordv keysS with
         | Ok ((t', m_entries), m_f) ->
           let show es = str_nats (List.map fst es) in
           if List.map (fun (i, _) -> int_of_nat i) m_entries <> List.map (fun (i, _) -> int_of_nat i) entries
              || not (List.for_all2 (fun (_, p1) (_, p2) -> pf_eqb p1 p2) m_entries entries) then
             disagree "reconstruct_model" site ("entries: impl " ^ show entries ^ " model " ^ show m_entries);
           if List.map int_of_nat m_f <> List.map int_of_nat fs then
             disagree "reconstruct_model" site ("factors: impl " ^ str_nats fs ^ " model " ^ str_nats m_f);
           let ids_exact ll = List.map (List.map (List.map (fun (i, _) -> int_of_nat i))) ll in
           if ids_exact (fkeys t') <> List.map (List.map (List.map int_of_nat)) dump then
             disagree "reconstruct_model" site "buckets after the call differ between model and implementation";
           t := t'
         | _ -> disagree "reconstruct_model" site "model reaches UB");
        if remove then List.iter (fun (id, _) -> s := fst (spec_step !s (OErase id))) entries
      | _ -> failwith ("unknown ftrie op " ^ tok)
    done;
    ((!erased || !recon) && !partial, "ftrie" ^ string_of_int (List.length f) ^ (if !recon then "+reconstruct" else ""))
  | "fmT" | "fmF" ->
    (* FilterMap<size_t, Trie|FasterTrie>: item of id k is 1000+k; filter returns the items of the matching ids *)
    let f = next_nats c in
    expect c "ops";
    abnormal r kind;
    let ordered = (kind = "fmT") in
    let s = ref (O, []) in
    let nq = ref 0 in
    (* C (Trie back-end only): the FilterMap/IndexMap model, items are the nats 1000+id; the abstract
       store of (key, item) pairs of Spec.fm_spec is kept beside it *)
    let fm = ref (if ordered then (match fm_new f with Ok m -> Some m | _ -> None) else None) in
    let pairs_ = ref [] in
    let slots = ref [| (!s, !fm, !pairs_) |] and cur = ref 0 in
    let deferred = ref None in     (* a failure reported only if nothing else fails in the case *)
    while not (at_end c) do
      let tok = next c in
      match tok with
      | "cc" | "ca" | "mv" | "ma" | "gt" ->
        !slots.(!cur) <- (!s, !fm, !pairs_);
        (match !fm with
         | Some m ->
           if tok = "gt" then (match fm_of_trie (fm_ids m) (fm_items m) with Ok m' -> fm := Some m' | _ -> disagree "filtermap_model" "FilterMap::FilterMap(trie,items)" "model throws")
           else fm := Some (fm_copy m)
         | None -> ());
        slots := Array.append !slots [| (!s, !fm, !pairs_) |]; cur := Array.length !slots - 1
      | "sw" ->
        !slots.(!cur) <- (!s, !fm, !pairs_);
        cur := next_int c; let (s', m', p') = !slots.(!cur) in s := s'; fm := m'; pairs_ := p'
      | "i" -> let pf = next_pf c in
        if not (ft_op_okb f !s (OInsert pf)) then failwith "generator: bad FilterMap insert";
        let item = nat_of_int (1000 + List.length (snd !s)) in
        pairs_ := !pairs_ @ [(pf, item)];
        (match !fm with
         | Some m -> (match fm_emplace m pf item with Ok m' -> fm := Some m' | _ -> disagree "filtermap_model" "FilterMap::emplace" "model UB")
         | None -> ());
        s := fst (spec_step !s (OInsert pf))
      | "F" | "f" | "p" ->
        let o = (match tok with
            | "F" -> OFilterF (next_nats c, O)
            | "f" -> let ff = next_nats c in let off = next_nat c in OFilterF (ff, off)
            | _ -> OFilterPf (next_pf c)) in
        if not (op_okb f !s o) then failwith "generator: bad FilterMap query";
        let e = (match snd (spec_step !s o) with RIds l -> List.map (fun n -> 1000 + int_of_nat n) l | _ -> failwith "spec") in
        let norm l = if ordered then l else List.sort compare l in
        let q = (match o with OFilterF (ff, off) -> (List.mapi (fun j _ -> nat_of_int (int_of_nat off + j)) ff, ff) | OFilterPf pf -> pf | _ -> ([], [])) in
        if ordered && List.map int_of_nat (fm_spec !pairs_ q) <> e then failwith "fm_spec and filter_spec disagree (spec bug)";
        let model which = (match !fm with
            | None -> None
            | Some m ->
              let res = (match tok, which with
                  | "F", "" -> fm_filterF m (fst (match o with OFilterF (ff, _) -> (ff, ()) | _ -> ([], ())))
                  | "F", _ -> fm_filterF_const m (match o with OFilterF (ff, _) -> ff | _ -> [])
                  | "f", "" -> (match o with OFilterF (ff, off) -> fm_filterFO m ff off | _ -> UB)
                  | "f", _ -> (match o with OFilterF (ff, off) -> fm_filterFO_const m ff off | _ -> UB)
                  | _, "" -> (match o with OFilterPf pf -> fm_filterPf m pf | _ -> UB)
                  | _, _ -> (match o with OFilterPf pf -> fm_filterPf_const m pf | _ -> UB)) in
              Some res) in
        let one which =
          let site = "FilterMap::filter" ^ (match tok with "f" -> "(f,offset)" | "p" -> "(pf)" | _ -> "(f)") ^ which in
          let got = (try List.map int_of_nat (next_smalls r) with
              | Failure m -> oracle_fail "no_UB" kind ("short/garbled implementation output: " ^ m)
              | Garbage g -> oracle_fail "FilterMap.items_of_matching_ids" site ("garbage " ^ g)) in
          if norm got <> norm e then
            oracle_fail "FilterMap.items_of_matching_ids" site ("impl items " ^ str_ints got ^ " expected " ^ str_ints e);
          (* every other way of traversing the returned IndexMap (pre/post increment and decrement, it + k,
             it[k], it += / -= k, distance, comparisons, ->, iterator-range constructor; on the object and on
             a const view of it) must give the same items: the harness compares them with the list above *)
          let report = (try next r with Failure m -> oracle_fail "no_UB" kind ("short implementation output: " ^ m)) in
          if report <> "ok" then
            oracle_fail "FilterMap.items_of_matching_ids" ("IndexMapIterator::" ^ report ^ "@" ^ site)
              ("traversal(s) " ^ report ^ " of the filter result differ from the range-for traversal " ^ str_ints got);
          let minus_ok = (try next_int r with Failure m -> oracle_fail "no_UB" kind ("short implementation output: " ^ m)) in
          if minus_ok <> 1 && !deferred = None then
            deferred := Some ("IndexMap.iterator_minus", "IndexMapIterator::operator-(difference_type)",
                              "end() - k is not the position k before end() (result of " ^ site ^ ", items " ^ str_ints got ^ ")");
          (match model which with
           | None -> ()
           | Some (Ok l) -> if List.map int_of_nat l <> got then disagree "filtermap_model" site ("impl items " ^ str_ints got ^ " model " ^ str_nats l)
           | Some _ -> disagree "filtermap_model" site "model reaches UB") in
        one ""; one "const";
        incr nq
      | "z" ->
        let (a, b) = (try let a = int_of_nat (next_small r) in let b = int_of_nat (next_small r) in (a, b)
                      with Garbage g -> oracle_fail "FilterMap.size" "FilterMap::size" ("garbage " ^ g)) in
        let n = List.length (snd !s) in
        if a <> n then oracle_fail "FilterMap.size" "FilterMap::size" "size differs from the number of stored items";
        (match !fm with Some m -> if int_of_nat (fm_size m) <> a then disagree "filtermap_model" "FilterMap::size" "model size differs" | None -> ());
        if b <> n then oracle_fail "size_eq_card" "FilterMap::getTrie" "trie size differs from the number of stored items";
        let okc = next_int r in let okf = next_int r in
        if okc <> 1 then oracle_fail "FilterMap.container" "FilterMap::operator[]" "operator[] / begin..end / getContainer disagree";
        if okf <> 1 then oracle_fail "FilterMap.getF" "FilterMap::getF" "getF differs from the constructor argument"
      | _ -> failwith ("unknown filtermap op " ^ tok)
    done;
    (match !deferred with Some (cl, site, d) -> oracle_fail cl site d | None -> ());
    (!nq > 0 && List.length (snd !s) > 1, kind)
  | "imap" ->
    (* IndexMap / IndexSkipMap used directly: items ids skip *)
    let items = next_ints c in let ids = next_ints c in let skip = next_ints c in
    abnormal r "imap";
    let expected = List.map (fun i -> List.nth items i) ids in
    let deferred = ref None in
    List.iter (fun variant ->
        let site = "IndexMap<" ^ variant ^ ">" in
        let got = (try List.map int_of_nat (next_smalls r) with
            | Failure m -> oracle_fail "no_UB" "imap" ("short/garbled implementation output: " ^ m)
            | Garbage g -> oracle_fail "FilterMap.items_of_matching_ids" site ("garbage " ^ g)) in
        if got <> expected then oracle_fail "FilterMap.items_of_matching_ids" site ("impl items " ^ str_ints got ^ " expected " ^ str_ints expected);
        let report = next r in
        if report <> "ok" then oracle_fail "FilterMap.items_of_matching_ids" ("IndexMapIterator::" ^ report ^ "@" ^ site)
            ("traversal(s) " ^ report ^ " differ from the range-for traversal " ^ str_ints got);
        if next_int r <> 1 && !deferred = None then
          deferred := Some ("IndexMap.iterator_minus", "IndexMapIterator::operator-(difference_type)", "end() - k is not the position k before end() (" ^ site ^ ")"))
      ["owning"; "pointer"; "const-container"];
    let exp_skip = List.filteri (fun i _ -> not (List.mem i skip)) items in
    let got = (try List.map int_of_nat (next_smalls r) with
        | Failure m -> oracle_fail "no_UB" "imap" ("short/garbled implementation output: " ^ m)
        | Garbage g -> oracle_fail "IndexSkipMap.items_of_other_ids" "IndexSkipMap" ("garbage " ^ g)) in
    if got <> exp_skip then oracle_fail "IndexSkipMap.items_of_other_ids" "IndexSkipMap" ("impl items " ^ str_ints got ^ " expected " ^ str_ints exp_skip);
    if next_int r <> 1 then oracle_fail "IndexSkipMap.items_of_other_ids" "IndexSkipMapIterator" "pre-increment loop / const view / -> differ from range-for";
    (match !deferred with Some (cl, site, d) -> oracle_fail cl site d | None -> ());
    (ids <> [] && skip <> [], "imap")
  | k -> failwith ("unknown case kind " ^ k)

let () = main_loop judge
