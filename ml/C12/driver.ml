(* ml/C12/driver.ml — judge for property C12.
   O (oracle): spec clauses evaluated exactly, in Q, on the implementation's outputs (extracted
   checkers of C12/Spec.v and extracted [best]);  C (correspondence): extracted model vs C++. *)
open Model
open Vio

(* ---------- helpers ---------- *)
let nat_i = int_of_nat
let rec take n l = if n <= 0 then [] else match l with [] -> [] | x :: t -> x :: take (n - 1) t
let rec drop n l = if n <= 0 then l else match l with [] -> [] | _ :: t -> drop (n - 1) t

let read_vec c d = List.init d (fun _ -> next_q c)
let read_vecs c = let n = next_int c in let d = next_int c in (List.init n (fun _ -> read_vec c d), d)

(* implementation side: abnormal results *)
let check_abnormal (r : cursor) (site : string) =
  if not (at_end r) then
    match peek r with
    | "CRASH" | "TIMEOUT" | "SANITIZER" -> oracle_fail "no_UB" site ("abnormal termination: " ^ String.concat " " (rest r))
    | "THROW" -> oracle_fail "no_throw" site ("unexpected exception: " ^ String.concat " " (rest r))
    | _ -> ()

let vec_cmp (a : q list) (b : q list) : int =
  let rec go a b = match a, b with
    | [], [] -> 0 | [], _ -> -1 | _, [] -> 1
    | x :: a', y :: b' -> let c = q_cmp x y in if c <> 0 then c else go a' b' in
  go a b
let vec_eq a b = vec_cmp a b = 0
let vecs_eq l m = List.length l = List.length m && List.for_all2 vec_eq l m
let is_perm l m = vecs_eq (List.sort vec_cmp l) (List.sort vec_cmp m)
let str_vec v = "(" ^ str_qs v ^ ")"
let str_vecs l = String.concat " " (List.map str_vec l)

let q_pow2 k = vio_qmake (z_of_int 1) (pos_pow2 k)
let q_div a b = vio_qdiv a b
let q_min a b = if q_le a b then a else b

(* deterministic belief grid for dimension d: corners, pair midpoints, centroid, three-point
   mixtures, and pseudo-random dyadic interior points (seeded by the case id) *)
let grid (id : int) (d : int) : q list list =
  let unit i = List.init d (fun s -> if s = i then q_one else q_zero) in
  let corners = List.init d unit in
  let mids = List.concat (List.init d (fun i -> List.concat (List.init d (fun j ->
      if i < j then [List.init d (fun s -> if s = i || s = j then q_of_ints 1 2 else q_zero);
                     List.init d (fun s -> if s = i then q_of_ints 3 4 else if s = j then q_of_ints 1 4 else q_zero);
                     List.init d (fun s -> if s = i then q_of_ints 1 8 else if s = j then q_of_ints 7 8 else q_zero)]
      else [])))) in
  let centroid = [List.init d (fun _ -> q_of_ints 1 d)] in
  let st = ref (id * 7919 + 12345) in
  let rnd m = st := (!st * 1103515245 + 12345) land 0x3fffffff; (!st lsr 8) mod m in
  let rand_pts = List.init 12 (fun _ ->
      let w = List.init d (fun _ -> 1 + rnd 63) in
      let tot = List.fold_left (+) 0 w in
      List.map (fun x -> q_of_ints x tot) w) in
  corners @ mids @ centroid @ rand_pts

let max_entry (l : q list list) : q =
  List.fold_left (fun m v -> List.fold_left q_max m v) q_zero l

(* the error bound of theorem dominated_envelope: k * max(epsS, M * epsG) *)
let dom_delta (inp : q list list) : q = q_max epsS (q_mul (max_entry inp) epsG)
let dom_tol (inp : q list list) (k : int) : q = q_mul (q_of_int k) (dom_delta inp)

(* all pairs of the input are decided identically by the tolerance test and the exact test *)
let separated (l : q list list) : bool =
  List.for_all (fun u -> List.for_all (fun v -> dominates u v = dominates0 u v) l) l

let env_check clause site id d (kept : q list list) (inp : q list list) (k : int) =
  if kept = [] && inp <> [] then oracle_fail clause site "kept set is empty";
  let tol = dom_tol inp k in
  List.iter (fun b ->
      if not (env_geb tol kept inp b) then
        oracle_fail clause site (Printf.sprintf "env dropped at b=%s: kept %s < input %s (tol %s)"
                                   (str_vec b) (string_of_q (env kept b)) (string_of_q (env inp b)) (string_of_q tol)))
    (grid id d)

let read_impl_array r = let n = next_int r in let d = next_int r in List.init n (fun _ -> read_vec r d)

let finite_tokens (r : cursor) : xnum list = List.map xnum_of_token (rest r)

(* ---------- Pruner (one run) ---------- *)
let judge_prune id (l : q list list) (d : int) (r : cursor) : bool * string =
    let b = next_int r in let arr = read_impl_array r in
    if not (is_perm arr l) then oracle_fail "pruner_subset" "Pruner" "array is not a permutation of the input";
    let kept = take b arr in
    (* the LP phase removes only vectors below the kept surface, up to lp_solve's accuracy *)
    let tol = q_add (dom_tol l (List.length l)) (q_of_ints 1 1000000) in
    if kept = [] && l <> [] then oracle_fail "pruner_envelope" "Pruner" "kept set is empty";
    List.iter (fun p -> if not (env_geb tol kept l p) then
                  oracle_fail "pruner_envelope" "Pruner" ("env dropped at b=" ^ str_vec p ^ ": kept " ^ string_of_q (env kept p) ^ " < input " ^ string_of_q (env l p))) (grid id d);
    (* kept vectors are pairwise non-dominating after extractDominated *)
    if separated l then
      List.iteri (fun i u -> List.iteri (fun j v -> if i <> j && dominates u v then
                                             oracle_fail "pruner_parsimonious" "Pruner" "kept vector dominates another kept vector") kept) kept;
    (* C: the model runs with the witness LP answered by the transcript of the real WitnessLP
       (recorded by the harness on the same sequence of library calls) *)
    let nlog = next_int r in
    let log = List.init nlog (fun _ ->
        let n = next_int r in let v = read_vec r d in let f = next_int r = 1 in
        let w = if f then Some (read_vec r d) else None in (n, v, w)) in
    (* witnesses must be points of the simplex (up to lp_solve accuracy) where v beats the rows *)
    let remaining = ref log in
    let missing = ref false in
    let ill = ref false in
    let oracle rows v =
      match !remaining with
      | (n, v', w) :: tl when n = List.length rows && vec_eq v v' -> remaining := tl; w
      | _ -> missing := true; None in
    let (mk0, mr0) = extractDominated l in
    (match prunerV oracle (nat_of_int d) l with
     | None -> disagree "pruner_terminates" "Pruner" "model ran out of fuel"
     | Some ((mk, mr), mr0') ->
       if !missing then disagree "pruner_transcript" "Pruner" "the model asked the LP a question the implementation did not ask";
       (* decisions taken at a witness are floating-point on the C++ side: flag near-ties *)
       List.iter (fun (n, _, w) -> match w with
           | None -> ()
           | Some b ->
             let rows = take n mk in
             let rest = List.filter (fun u -> not (List.exists (vec_eq u) rows)) mk0 in
             let scores = List.sort (fun x y -> q_cmp y x) (List.map (fun u -> dot b u) rest) in
             (match scores with
              | x :: y :: _ -> if not (q_eq x y) && q_lt (q_sub x y) (q_of_ints 1 1000000000) then ill := true
              | _ -> ())) log;
       if not !ill then begin
         if List.length mk <> b then disagree "Pruner" "Pruner" (Printf.sprintf "kept count impl %d model %d" b (List.length mk));
         if not (vecs_eq (mk @ mr @ mr0') arr) then disagree "Pruner" "Pruner" ("order differs: impl " ^ str_vecs arr ^ " model " ^ str_vecs (mk @ mr @ mr0'))
       end);
    ignore mr0;
    (b < List.length mk0, Printf.sprintf "prune.d%d%s" d (if !ill then ".ill" else ""))

(* ---------- findVerticesNaive ---------- *)
(* exact Gauss-Jordan over Q (unverified; its answers are only used as the oracle of the model and
   every implementation point is checked against the equations directly).  None = singular. *)
let solve_exact (a : q list list) (b : q list) : q list option =
  let n = List.length b in
  let m = Array.of_list (List.map2 (fun r y -> Array.of_list (r @ [y])) a b) in
  if Array.length m <> n || Array.exists (fun r -> Array.length r <> n + 1) m then None else begin
    let ok = ref true in
    for col = 0 to n - 1 do
      if !ok then begin
        let piv = ref (-1) in
        for r = col to n - 1 do if !piv < 0 && not (q_eq m.(r).(col) q_zero) then piv := r done;
        if !piv < 0 then ok := false else begin
          let t = m.(col) in m.(col) <- m.(!piv); m.(!piv) <- t;
          let pv = m.(col).(col) in
          for k = 0 to n do m.(col).(k) <- vio_qred (vio_qdiv m.(col).(k) pv) done;
          for r = 0 to n - 1 do
            if r <> col && not (q_eq m.(r).(col) q_zero) then begin
              let f = m.(r).(col) in
              for k = 0 to n do m.(r).(k) <- vio_qred (q_sub m.(r).(k) (q_mul f m.(col).(k))) done
            end
          done
        end
      end
    done;
    if !ok then Some (List.init n (fun i -> m.(i).(n))) else None
  end

type fv_status = Yes | No | Maybe | Wild

let judge_fv id (pairs : (q list * q list list) list) (d : int) (r : cursor) (site : string) : bool * string =
  let cnt = next_int r in let _ = next_int r in
  let impl = List.init cnt (fun _ -> let p = read_vec r d in let v = next_q r in (p, v)) in
  let tiny = q_of_ints 1 1000000000 in
  let maxabs = List.fold_left (fun m (nv, al) -> List.fold_left (fun m v -> List.fold_left (fun m x -> q_max m (q_abs x)) m v) m (nv :: al)) q_one pairs in
  let tol = q_mul (q_of_ints 1 100000000) maxabs in
  let near a b = q_le (q_abs (q_sub a b)) tol in
  (* C: the model's enumeration with the exact solve as oracle *)
  let singular = ref false in
  let expected = List.concat (List.map (fun (nv, al) ->
      let n = List.length al in
      List.map (fun ids ->
          let a = fv_matrix (nat_of_int d) nv al ids and b = fv_rhs ids in
          match solve_exact a b with
          | None -> singular := true; (Wild, ([], q_zero))   (* singular: consistent ones may yield any solution *)
          | Some res ->
            let (p, v) = fv_clean (nat_of_int d) (nat_of_int n) ids res in
            let limited j = List.exists (fun idx -> nat_i idx = n + j) ids in
            let mx = List.fold_left q_max (List.hd p) p in
            let fragile =
              List.exists (fun x -> x) (List.mapi (fun j x -> not (limited j) && q_lt (q_abs x) tiny) p)
              || q_lt (q_abs (q_sub mx q_one)) tiny
              || q_lt (q_abs (q_sub mx (q_sub q_one (q_of_ints 1 1000000)))) tiny in
            ((if fragile then Maybe else if fv_accept p then Yes else No), (p, v)))
        (fv_subsets (nat_of_int d) (nat_of_int n))) pairs) in
  (* O: every returned point is a simplex point, not a corner, and satisfies the equations of SOME
     selected subset: new plane value = each selected alpha's value = reported value, limited
     coordinates exactly 0, coordinates sum to 1 *)
  (* a singular (e.g. parallel planes) system is the signature of the known least-squares defect *)
  let cl name = if !singular then "vertices_unsolved_system" else name in
  let near a b = q_le (q_abs (q_sub a b)) (q_mul (q_of_ints 2 1000000) maxabs) in
  List.iter (fun (p, v) ->
      if List.exists (fun x -> q_lt x q_zero) p then oracle_fail (cl "vertices_in_simplex") site ("negative coordinate in " ^ str_vec p);
      if not (near (List.fold_left q_add q_zero p) q_one) then oracle_fail (cl "vertices_in_simplex") site ("coordinates do not sum to 1: " ^ str_vec p);
      if List.exists (fun x -> not (q_lt x (q_sub q_one (q_of_ints 1 1000000)))) p then oracle_fail "vertices_not_corner" site ("corner returned: " ^ str_vec p);
      let explained = List.exists (fun (nv, al) ->
          let n = List.length al in
          near (dot nv p) v &&
          List.exists (fun ids ->
              List.for_all (fun idx -> let i = nat_i idx in
                             if i < n then near (dot (List.nth al i) p) v
                             else q_eq (List.nth p (i - n)) q_zero) ids)
            (fv_subsets (nat_of_int d) (nat_of_int n))) pairs in
      if not explained then oracle_fail (cl "vertices_satisfy_equalities") site ("point " ^ str_vec p ^ " value " ^ string_of_q v ^ " satisfies the equalities of no selected subset")) impl;
  begin
    (* the model function itself, run with the same oracle, returns exactly the accepted entries *)
    let model_out = List.concat (List.map (fun (nv, al) ->
        findVerticesNaive (fun a b -> match solve_exact a b with Some x -> x | None -> []) [nv] al) pairs) in
    let accepted = List.filter (fun (_, (p, _)) -> p <> [] && fv_accept p) expected in
    if not !singular && List.length model_out <> List.length accepted then disagree "findVerticesNaive_model" site "model function and enumeration differ";
    let close_pt (p, v) (p', v') = List.length p = List.length p' && List.for_all2 (fun x y -> q_le (q_abs (q_sub x y)) tol) p p' && q_le (q_abs (q_sub v v')) tol in
    (* alignment with backtracking on the fragile (Maybe) entries *)
    let rec align exp imp = match exp, imp with
      | [], [] -> true
      | [], _ :: _ -> false
      | (Yes, e) :: et, i :: it -> close_pt e i && align et it
      | (Yes, _) :: _, [] -> false
      | (No, _) :: et, _ -> align et imp
      | (Maybe, e) :: et, i :: it -> (close_pt e i && align et it) || align et imp
      | (Maybe, _) :: et, [] -> align et []
      | (Wild, _) :: et, _ :: it -> align et it || align et imp
      | (Wild, _) :: et, [] -> align et [] in
    if not (align expected impl) then
      disagree "findVerticesNaive" site (Printf.sprintf "returned vertices (%d) do not match the model's enumeration (%d certain): impl %s"
                                           (List.length impl) (List.length (List.filter (fun (st, _) -> st = Yes) expected))
                                           (String.concat " " (List.map (fun (p, _) -> str_vec p) impl)))
  end;
  (cnt > 0, Printf.sprintf "%s.d%d%s" site d (if !singular then ".singular" else ""))

(* ---------- judge ---------- *)
let judge id (c : cursor) (r : cursor) : bool * string =
  let kind = next c in
  match kind with
  | "dom" ->
    check_abnormal r "dominates";
    let d = next_int c in let u = read_vec c d in let v = read_vec c d in
    let i1 = next_int r = 1 in let i2 = next_int r = 1 in
    (* O: exact dominance implies the tolerance test *)
    if dominates0 u v && not i1 then oracle_fail "dominates_exact_implies" "dominates" "u >= v componentwise but dominates(u,v) is false";
    if dominates0 v u && not i2 then oracle_fail "dominates_exact_implies" "dominates" "v >= u componentwise but dominates(v,u) is false";
    if dominates u v <> i1 || dominates v u <> i2 then disagree "dominates" "dominates" "model/impl differ";
    (dominates u v <> dominates0 u v || i1 <> i2, "dom")
  | "ed" ->
    check_abnormal r "extractDominated";
    let (l, d) = read_vecs c in
    let e = next_int r in let arr = read_impl_array r in
    let kept = take e arr in
    if not (is_perm arr l) then oracle_fail "extractDominated_perm_prefix" "extractDominated" "array is not a permutation of the input";
    env_check "dominated_envelope" "extractDominated" id d kept l (List.length l - e);
    (* under separation the kept set must be pairwise non-dominating and dominate every input *)
    if separated l then begin
      List.iteri (fun i u -> List.iteri (fun j v -> if i <> j && dominates u v then
                                             oracle_fail "extractDominated_is_pruning" "extractDominated" ("kept vector dominates another kept vector: " ^ str_vec u ^ " " ^ str_vec v)) kept) kept;
      List.iter (fun v -> if not (List.exists (fun u -> dominates u v) kept) then
                    oracle_fail "extractDominated_is_pruning" "extractDominated" ("input vector not dominated by any kept one: " ^ str_vec v)) l
    end;
    let (mk, mr) = extractDominated l in
    if List.length mk <> e then disagree "extractDominated" "extractDominated" (Printf.sprintf "kept count impl %d model %d" e (List.length mk));
    if not (vecs_eq (mk @ mr) arr) then disagree "extractDominated" "extractDominated" ("order differs: impl " ^ str_vecs arr ^ " model " ^ str_vecs (mk @ mr));
    (e < List.length l && e > 1, Printf.sprintf "ed.d%d" d)
  | "edi" ->
    check_abnormal r "extractDominatedIncremental";
    let n_old = next_int c in
    let (l, d) = read_vecs c in
    let old = take n_old l and nw = drop n_old l in
    let a = next_int r in let b = next_int r in let e = next_int r in
    let arr = read_impl_array r in
    if not (is_perm arr l) then oracle_fail "extractDominated_perm_prefix" "extractDominatedIncremental" "array is not a permutation of the input";
    if not (a <= b && b <= e && e <= List.length l) then oracle_fail "incremental_ranges" "extractDominatedIncremental" "returned iterators out of order";
    let good = take b arr in
    env_check "dominated_envelope" "extractDominatedIncremental" id d good l (List.length l - b);
    let old_nd = List.for_all (fun u -> List.for_all (fun v -> u == v || not (dominates u v)) old) old in
    if old_nd && separated l then begin
      let (uk, _) = extractDominated l in
      (* same set (one representative per class) as pruning the union *)
      if not (is_perm good uk) then oracle_fail "incremental_eq_union" "extractDominatedIncremental" ("good set " ^ str_vecs good ^ " differs from pruning the union " ^ str_vecs uk)
    end;
    let ((((og, ngz), obz), nb), nr0) = extractDominatedIncremental old nw in
    if List.length og <> a || List.length og + List.length ngz <> b || List.length og + List.length ngz + List.length obz <> e then
      disagree "extractDominatedIncremental" "extractDominatedIncremental" "zone boundaries differ";
    if not (vecs_eq (og @ ngz @ obz @ nb @ nr0) arr) then disagree "extractDominatedIncremental" "extractDominatedIncremental" ("order differs: impl " ^ str_vecs arr ^ " model " ^ str_vecs (og @ ngz @ obz @ nb @ nr0));
    (a < n_old || b - a < List.length nw, Printf.sprintf "edi.%s" (if old_nd then "pre" else "nopre"))
  | "fbp" | "fbc" ->
    let site = if kind = "fbp" then "findBestAtPoint" else "findBestAtSimplexCorner" in
    check_abnormal r site;
    let (l, d) = read_vecs c in
    let point = if kind = "fbp" then read_vec c d else (let k = next_int c in List.init d (fun s -> if s = k then q_one else q_zero)) in
    let idx = next_int r in let v = next_q r in
    if idx < 0 || idx >= List.length l then oracle_fail "findBest_attains_max" site "index out of range";
    let chosen = List.nth l idx in
    if not (q_eq (dot point chosen) v) then oracle_fail "findBest_attains_max" site "returned value is not the chosen vector's value";
    if not (q_eq (env l point) v) then oracle_fail "findBest_attains_max" site ("value " ^ string_of_q v ^ " is not the maximum " ^ string_of_q (env l point));
    (* lexicographic tie-break: no maximiser is lexicographically greater *)
    List.iter (fun u -> if q_eq (dot point u) v && veccmp u chosen = Gt then oracle_fail "findBest_tiebreak" site "a lexicographically greater maximiser exists") l;
    let m = if kind = "fbp" then findBestAtPointV point l
      else findBestAtSimplexCornerV (nat_of_int (let rec f i = function [] -> 0 | x :: t -> if q_eq x q_one then i else f (i + 1) t in f 0 point)) l in
    (match m with
     | None -> disagree site site "model: empty range"
     | Some ((mi, _), mv) ->
       if nat_i mi <> idx then disagree site site (Printf.sprintf "index impl %d model %d" idx (nat_i mi));
       if not (q_eq mv v) then disagree site site "value differs");
    let ties = List.length (List.filter (fun u -> q_eq (dot point u) v) l) in
    (ties > 1 || idx > 0, kind ^ (if ties > 1 then ".tie" else ""))
  | "ebp" | "ebc" ->
    let site = if kind = "ebp" then "extractBestAtPoint" else "extractBestAtSimplexCorners" in
    check_abnormal r site;
    let (l, d) = read_vecs c in
    let bound = next_int c in
    let points = if kind = "ebp" then [read_vec c d] else List.init d (fun k -> List.init d (fun s -> if s = k then q_one else q_zero)) in
    let b' = next_int r in let arr = read_impl_array r in
    if not (is_perm arr l) then oracle_fail "extractBest_perm" site "array is not a permutation of the input";
    if b' < bound || b' > List.length l then oracle_fail "extractBest_bound" site "bound out of range";
    if not (vecs_eq (take bound arr) (take bound l)) then oracle_fail "extractBest_bound" site "the useful range was disturbed";
    if List.length l > bound then
      List.iter (fun p -> if not (q_eq (env (take b' arr) p) (env l p)) then
                    oracle_fail "extractBest_attains_max" site ("the useful range does not attain the maximum at " ^ str_vec p)) points;
    let (ml, mb) = if kind = "ebp" then extractBestAtPointV (List.hd points) l (nat_of_int bound)
      else extractBestAtSimplexCornersV (nat_of_int d) l (nat_of_int bound) in
    if nat_i mb <> b' then disagree site site (Printf.sprintf "bound impl %d model %d" b' (nat_i mb));
    if not (vecs_eq ml arr) then disagree site site ("order differs: impl " ^ str_vecs arr ^ " model " ^ str_vecs ml);
    (b' > bound, kind)
  | "prune" ->
    check_abnormal r "Pruner";
    let (l, d) = read_vecs c in
    judge_prune id l d r
  | "prune2" ->
    check_abnormal r "Pruner";
    let (l1, d) = read_vecs c in
    let (l2, _) = read_vecs c in
    let (nt1, _) = judge_prune id l1 d r in
    let (nt2, _) = judge_prune (id + 1) l2 d r in
    (nt1 || nt2, Printf.sprintf "prune2.d%d" d)
  | "fvn" ->
    check_abnormal r "findVerticesNaive";
    let (news, d) = read_vecs c in let (alphas, _) = read_vecs c in
    judge_fv id (List.map (fun nv -> (nv, alphas)) news) d r "fvn"
  | "fvr" ->
    check_abnormal r "findVerticesNaive";
    let (range, d) = read_vecs c in
    let pairs = List.mapi (fun i nv -> (nv, List.filteri (fun j _ -> j <> i) range)) range in
    judge_fv id pairs d r "fvr"
  | "saw" | "lpi" ->
    let site = if kind = "saw" then "sawtoothInterpolation" else "LPInterpolation" in
    let s_ = next_int c in let a_ = next_int c in
    let ubq = List.init s_ (fun _ -> List.init a_ (fun _ -> next_q c)) in
    let (pts, _) = read_vecs c in
    let vals = next_qs c in
    let query = read_vec c s_ in
    let n = List.length pts in
    let cv = cornerVals ubq in
    let pc = dot query cv in
    let ((_, min_cf), _) = st_scan query cv pts vals O ((O, q_zero), q_zero) in
    let v_saw = q_add pc min_cf in
    let no_point = q_eq min_cf q_zero in
    let compat = List.map nat_i (compatiblePoints query pts) in
    let k = List.length compat in
    (* abnormal termination: the known sawtooth defect reads ubV.first[minI] only when no stored point is usable *)
    if not (at_end r) then begin
      match peek r with
      | "CRASH" | "TIMEOUT" | "SANITIZER" ->
        oracle_fail (if kind = "saw" && no_point then "no_UB" else "no_UB_other") kind ("abnormal termination: " ^ String.concat " " (rest r))
      | "THROW" -> oracle_fail "no_throw" site ("unexpected exception: " ^ String.concat " " (rest r))
      | _ -> ()
    end;
    let toks = finite_tokens r in
    (match toks with
     | [] -> oracle_fail "interp_finite" site "no output"
     | _ -> ());
    let nonfinite = List.exists (function Fin _ -> false | _ -> true) toks in
    if nonfinite then begin
      let comp_has_zero = k = 1 && List.exists (fun x -> q_eq x q_zero) (List.nth pts (List.hd compat)) in
      if kind = "lpi" then oracle_fail (if comp_has_zero then "interp_shortcut_div0" else "interp_finite") site "non-finite value or weight"
      else oracle_fail (if no_point then "interp_weights_uninit" else "interp_finite") site "non-finite value or weight"
    end;
    let nums = List.map (function Fin x -> x | _ -> q_zero) toks in
    let value = List.hd nums in
    let w = drop 2 nums in
    let maxv = List.fold_left (fun m x -> q_max m (q_abs x)) q_one (cv @ vals) in
    let tolw = if kind = "saw" then q_of_ints 1 1000000000 else q_mul (q_of_ints 1 100000) (q_of_int (1 + n)) in
    let tolv = q_mul (q_mul tolw maxv) (q_of_int (1 + n + s_)) in
    let close_vec a b = List.length a = List.length b && List.for_all2 (fun x y -> q_close ~atol:(q_of_ints 1 100000) x y) a b in
    (* classify a weight failure: the two known placement defects have an exact signature *)
    let weight_clause () =
      if kind = "saw" then begin
        let (_, ow) = sawtoothInterpolation_orig query ubq pts vals in
        if no_point then "interp_weights_uninit"
        else if close_vec ow w then "interp_weights_placement"
        else "interp_weights_ok"
      end else begin
        (* weights of the compatible points sitting in the last k slots instead of at S + compat_i *)
        if k >= 1 && List.length w = s_ + n then begin
          let tail = drop (s_ + n - k) w in
          let moved = take s_ w @ List.init n (fun i ->
              let rec find cs ts = match cs, ts with
                | ci :: cs', t :: ts' -> if ci = i then t else find cs' ts'
                | _, _ -> q_zero in find compat tail) in
          if weights_ok_tolb tolw query pts moved && value_le_weightedb tolv value moved cv vals then "interp_weights_placement"
          else "interp_weights_ok"
        end else "interp_weights_ok"
      end in
    (* sawtoothInterpolation computes point - b * (point[s]/b[s]) in floating point: the entry that
       should be exactly 0 may come out as -1 ulp; such rounding residues are not violations *)
    let w_chk = if kind = "saw" then List.map (fun x -> if q_lt x q_zero && q_le (q_sub q_zero tolw) x then q_zero else x) w else w in
    if not (weights_ok_tolb tolw query pts w_chk) then
      oracle_fail (weight_clause ()) site ("weights " ^ str_vec w ^ " are not non-negative weights over corners++points reconstructing the query");
    if not (value_le_weightedb tolv value w cv vals) then
      oracle_fail "interp_value_le_weighted" site ("value " ^ string_of_q value ^ " exceeds the weighted sum " ^ string_of_q (weighted_value w cv vals));
    if kind = "saw" then begin
      if not (q_le value (q_add pc tolv)) then oracle_fail "sawtooth_between" site "value above the corner-only bound";
      let bv = basicV query ubq in
      if not (q_le value (q_add bv tolv)) then oracle_fail "sawtooth_between" site "value above the per-action linear bound";
      (* C *)
      let (mv, mw) = sawtoothInterpolation query ubq pts vals in
      if not (q_close mv value) then disagree "sawtooth_value" site ("value impl " ^ string_of_q value ^ " model " ^ string_of_q mv);
      (* the argmin over points is decided by floating-point values in the C++: compare weights
         only when the model-side margin is clear *)
      let cfs = List.mapi (fun i b -> let ((_, cf), _) = st_scan query cv [b] [List.nth vals i] O ((O, q_zero), q_zero) in cf) pts in
      let sorted = List.sort q_cmp cfs in
      let clear = match sorted with
        | x :: y :: _ -> q_eq x y || q_lt (q_add x (q_of_ints 1 100000000)) y
        | _ -> true in
      let clear = clear && (q_eq bv v_saw || q_lt (q_of_ints 1 100000000) (q_abs (q_sub bv v_saw))) in
      if clear then begin
        if List.length mw <> List.length w || not (List.for_all2 (fun x y -> q_close x y) mw w) then
          disagree (weight_clause ()) site ("weights impl " ^ str_vec w ^ " model " ^ str_vec mw)
      end;
      (q_lt min_cf q_zero && q_le v_saw bv, if q_lt min_cf q_zero then (if q_le v_saw bv then "saw.point" else "saw.basic") else "saw.nopoint")
    end else begin
      (* the LP can do at least as well as any single stored point and as the corners alone *)
      if k >= 1 && not (q_le value (q_add v_saw tolv)) then
        oracle_fail (if k = 1 then "interp_shortcut_opt" else "interp_lp_opt") site ("value " ^ string_of_q value ^ " is above the single-point bound " ^ string_of_q v_saw);
      (* C: the model runs with the LP oracle answering the implementation's own coefficients *)
      let c_impl = List.map (fun i -> List.nth w (s_ + i)) compat in
      (match lPInterpolation (fun _ _ _ -> Some c_impl) query ubq pts vals with
       | None -> disagree "LPInterpolation" site "model: no result"
       | Some (mv, mw) ->
         let tolc = q_mul (q_of_ints 1 100000) (q_mul maxv (q_of_int (1 + n + s_))) in
         if not (q_close ~atol:tolc mv value) then disagree "lpi_value" site ("value impl " ^ string_of_q value ^ " model " ^ string_of_q mv);
         if List.length mw <> List.length w || not (List.for_all2 (fun x y -> q_close ~atol:(q_of_ints 1 100000) x y) mw w) then
           disagree (weight_clause ()) site ("weights impl " ^ str_vec w ^ " model " ^ str_vec mw));
      (k >= 1 && k < n || k >= 2, Printf.sprintf "lpi.k%s" (if k = 0 then "0" else if k = 1 then "1" else "n"))
    end
  | "ubp" ->
    let site = "extractBestUsefulPoints" in
    check_abnormal r site;
    let (w, _) = read_vecs c in
    let (pts, _) = read_vecs c in
    let b = next_int r in let arr = read_impl_array r in
    let n = List.length pts in
    (* O *)
    if not (is_perm arr pts) then oracle_fail "useful_points_perm" site "array is not a permutation of the input points";
    if b < 0 || b > n then oracle_fail "useful_points_bound" site "returned iterator out of range";
    let kept = take b arr in
    if w = [] then begin
      if b <> 0 || not (vecs_eq arr pts) then oracle_fail "useful_points_empty_planes" site "no hyperplanes: nothing may be kept or moved"
    end else begin
      if not (useful_coverb w kept pts) then begin
        let bad = List.filter (fun p -> not (useful_coverb w kept [p])) pts in
        oracle_fail "useful_points_cover" site ("point " ^ str_vec (List.hd bad) ^ " has no kept point supporting the same hyperplane with at least its value; kept " ^ str_vecs kept)
      end;
      (* documented: one point per supported hyperplane *)
      let idxs = List.map (fun q -> match supV w q with Some (j, _) -> nat_i j | None -> -1) kept in
      if List.length (List.sort_uniq compare idxs) <> List.length idxs then
        oracle_fail "useful_points_one_per_plane" site ("two kept points support the same hyperplane; kept " ^ str_vecs kept)
    end;
    (* C *)
    (match extractBestUsefulPointsV w pts with
     | None -> disagree site site "model: unchecked access / out of fuel"
     | Some (mk, mr) ->
       if List.length mk <> b then disagree site site (Printf.sprintf "bound impl %d model %d" b (List.length mk));
       if not (vecs_eq (mk @ mr) arr) then disagree site site ("order differs: impl " ^ str_vecs arr ^ " model " ^ str_vecs (mk @ mr)));
    let sups = List.map (fun p -> match supV w p with Some (j, _) -> nat_i j | None -> -1) pts in
    let shared = List.length (List.sort_uniq compare sups) < n in
    (w <> [] && b < n && b > 0, if w = [] then "ubp.noplanes" else if shared then (if b >= List.length w then "ubp.full" else "ubp.shared") else "ubp.distinct")
  | "fbdd" ->
    let site = "findBestDeltaDominated" in
    check_abnormal r site;
    let (l, d) = read_vecs c in
    let point = read_vec c d in let plane = read_vec c d in let delta = next_q c in
    let idx = next_int r in
    let n = List.length l in
    (* a comparison closer than rounding can resolve: skip (never happens on the dyadic generator) *)
    let fragile = List.exists (fun base -> List.exists (fun x ->
        let diff = q_sub (dot point x) (dot point base) in
        let df = List.map2 q_sub x base in
        let lhs = q_mul diff diff and rhs = q_mul (q_mul delta delta) (dot df df) in
        q_lt q_zero diff && not (q_eq lhs rhs) && q_le (q_abs (q_sub lhs rhs)) (q_mul (q_of_ints 1 1000000000) (q_add lhs rhs))) l) (plane :: l) in
    if fragile then (false, "fbdd.fragile") else begin
      if idx < 0 || idx > n then oracle_fail "deltaDominated_range" site "returned iterator out of range";
      if idx = n then begin
        List.iter (fun x -> if ddomb point delta plane x then oracle_fail "deltaDominated_none" site ("end returned although " ^ str_vec x ^ " delta-dominates the plane")) l
      end else begin
        let a = List.nth l idx in
        if not (q_lt (dot point plane) (dot point a)) then oracle_fail "deltaDominated_higher" site "returned entry is not higher than the plane at the point";
        if not (List.exists (fun base -> ddomb point delta base a) (plane :: take idx l)) then
          oracle_fail "deltaDominated_pred" site ("returned entry " ^ str_vec a ^ " delta-dominates neither the plane nor any earlier entry");
        List.iter (fun x -> if ddomb point delta a x then oracle_fail "deltaDominated_chain_end" site ("later entry " ^ str_vec x ^ " delta-dominates the returned one")) (drop (idx + 1) l)
      end;
      (match findBestDeltaDominatedV point delta plane l with
       | None -> if idx <> n then disagree site site (Printf.sprintf "impl %d model end" idx)
       | Some mi -> if nat_i mi <> idx then disagree site site (Printf.sprintf "impl %d model %d" idx (nat_i mi)));
      let cands = List.length (List.filter (fun x -> ddomb point delta plane x) l) in
      (idx < n && cands >= 1, if idx = n then "fbdd.end" else if cands >= 2 then "fbdd.chain" else "fbdd.one")
    end
  | k -> failwith ("unknown case kind " ^ k)

let () = main_loop judge
